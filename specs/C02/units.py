# C02 - No lost, early or duplicate wake-up of a future's waiters
TYPES = {'COAW': 'cocls::co_awaiter<cocls::future<int> >', 'SYNCAW': 'cocls::sync_awaiter', 'ATOMB': 'std::atomic<bool>', 'FUT': 'cocls::future<int>', 'AWT': 'cocls::awaiter', 'SP': 'cocls::suspend_point<void>', 'ATOMAW': 'std::atomic<cocls::awaiter *>'}
GLOBALS = {'AW_INSTANCE': '_ZN5cocls7awaiter8instanceE', 'AW_DISABLED': '_ZN5cocls7awaiter8disabledE'}
MERGE_RX = r'^cocls::suspend_point<void>::operator<<\(cocls::suspend_point<void>&&\)$'
RC_LK = r'^cocls::awaiter::resume_chain_lk\(cocls::awaiter\*\)$'
SNOW_RX = r'^cocls::suspend_point<void>::suspend_now\(\)$'
CO = r'^cocls::co_awaiter<cocls::future<int> >::'
SCR = r'^cocls::awaiter::subscribe_check_ready\('
WAIT = r'^std::atomic<bool>::wait\(bool, std::memory_order\) const$'
NOTIFY = r'^std::atomic<bool>::notify_all\(\)$'
QG = {'QINST': '_ZN5cocls10coro_queue8instanceE', 'TLS_GUARD': '__tls_guard'}
SNAP = ['CV_F_NODE_SNAPSHOT(n) (gh_push_handle = ((AWT *)(n))->_handle_addr, gh_push_fn = (void *)((AWT *)(n))->_resume_fn, gh_push_next = ((AWT *)(n))->_next)']
LIBS = ['rt_core.c', 'rt_atomic_protF.c']
FC_READY = r'^cocls::future_common::ready\(\) const$'
CO_SYNC = r'^cocls::co_awaiter<cocls::future<int> >::sync\(\)$'
AW_SUB = r'^cocls::awaiter::subscribe\(std::atomic<cocls::awaiter\*>&\)$'
def unit(name, alias, rx, names=None, names_opt=None, boundary=(), **kw):
    nm = {alias: rx}; nm.update(names or {})
    no = {} if alias == 'aw_subscribe' else {'aw_subscribe': AW_SUB}; no.update(names_opt or {})
    d = dict(name=name, driver='c01_future.cpp', roots=[rx], names=nm, names_opt=no, types=TYPES, globals=GLOBALS, boundary=list(boundary), lib=LIBS,
             spec=['C02/a_spec.h', 'C02/h_a.c'], harness='h_' + name, enforce=alias, under_contract=[rx.strip('^$').replace('\\', '')])
    d.update(kw)
    return d
UNITS = [
    unit('subscribe_check_ready', 'aw_subscribe_check_ready', r'^cocls::awaiter::subscribe_check_ready\(std::atomic<cocls::awaiter\*>&, cocls::awaiter&\)$', names_opt={'aw_subscribe': AW_SUB}, loop_contracts=True, defines=SNAP),
    unit('resume_chain_set_ready', 'aw_resume_chain_set_ready', r'^cocls::awaiter::resume_chain_set_ready\(std::atomic<cocls::awaiter\*>&, cocls::awaiter&\)$', names_opt={'aw_resume_chain_lk': RC_LK}, boundary=[RC_LK]),
    unit('fu_resolve', 'fu_resolve', r'^cocls::future<int>::resolve\(\)$', names_opt={'aw_resume_chain_lk': RC_LK}, boundary=[RC_LK]),
    dict(unit('ab_ready', 'ab_ready', r'^cocls::future<int>::awaitable_bool::await_ready\(\)$', names_opt={'ab_fc_ready_stub': FC_READY, 'ab_sync_stub': CO_SYNC}, boundary=[FC_READY, CO_SYNC]), lib=['rt_core.c', 'rt_atomic_seq.c'], types=dict(TYPES, ABOOL='cocls::future<int>::awaitable_bool', FUT='cocls::future<int>')),
    dict(unit('ab_bool', 'ab_bool', r'^cocls::future<int>::awaitable_bool::operator bool\(\) const$', names_opt={'ab_fc_ready_stub': FC_READY, 'ab_sync_stub': CO_SYNC}, boundary=[FC_READY, CO_SYNC]), lib=['rt_core.c', 'rt_atomic_seq.c'], types=dict(TYPES, ABOOL='cocls::future<int>::awaitable_bool', FUT='cocls::future<int>')),
    unit('resume', 'aw_resume', r'^cocls::awaiter::resume\(\)$'),
    unit('co_await_ready', 'co_await_ready', CO + r'await_ready\(\)$', defines=SNAP),
    unit('co_await_suspend', 'co_await_suspend', CO + r'await_suspend\(std::__n4861::coroutine_handle<void>\)$', names={'aw_subscribe_check_ready': SCR}, names_opt={'aw_subscribe': AW_SUB}, loop_contracts=True, defines=SNAP),
    unit('co_await_suspend_fn', 'co_await_suspend_fn', CO + r'await_suspend\(cocls::suspend_point<void> \(\*\)\(cocls::awaiter\*, void\*\) noexcept, void\*\)$', names={'aw_subscribe_check_ready': SCR}, names_opt={'aw_subscribe': AW_SUB}, loop_contracts=True, defines=SNAP),
    unit('co_sync', 'co_sync', CO + r'sync\(\)$', names={'aw_subscribe_check_ready': SCR, 'atomic_bool_wait': WAIT}, boundary=[WAIT], loop_contracts=True, defines=SNAP, globals=dict(GLOBALS, **QG)),
    unit('co_force_sync', 'co_force_sync', CO + r'force_sync\(\)$', names={'aw_subscribe_check_ready': SCR, 'atomic_bool_wait': WAIT}, boundary=[WAIT], loop_contracts=True, defines=SNAP, globals=dict(GLOBALS, **QG)),
    unit('sa_wakeup', 'sa_wakeup', r'^cocls::sync_awaiter::wakeup\(\)$', names={'atomic_bool_notify_all': NOTIFY}, boundary=[NOTIFY]),
    unit('co_await_resume', 'co_await_resume', CO + r'await_resume\(\)$'),
] + [
    dict(name='resume_chain_lk_bounded_%s' % t, driver='c01_future.cpp', roots=[RC_LK], names={'aw_resume_chain_lk': RC_LK}, names_opt={'sp_merge': MERGE_RX}, types=dict(TYPES, EXT='cocls::suspend_point<void>::ExtData'), globals=GLOBALS,
         boundary=[r'^cocls::suspend_point<void>::suspend_now\(\)$', MERGE_RX], lib=['rt_core.c', 'rt_atomic_seq.c'], spec=['C02/h_rc_bounded.c'], harness='h_rc_bounded', defines=['RC_N %d' % n, 'CV_HAS_rc_real 1'],
         unwind=n + 2, bounded='awaiter chains of 0..%d nodes, every mix of coroutine/callback awaiters' % n, kind='bounded', tiers=[t], object_bits=10, timeout=1200,
         under_contract=['cocls::awaiter::resume_chain_lk(cocls::awaiter*)'])
    for t, n in (('quick', 5), ('thorough', 8))
] + [
    # UNBOUNDED walk: loop contract over a lazily materialised chain of symbolic length with one tracked node + one summary node (h_rc_walk.c)
    dict(name='resume_chain_lk_walk', driver='c01_future.cpp', roots=[RC_LK], names={'aw_resume_chain_lk': RC_LK}, names_opt={'sp_merge': MERGE_RX, 'sp_suspend_now': SNOW_RX},
         types=dict(TYPES, EXT='cocls::suspend_point<void>::ExtData'), globals=GLOBALS, boundary=[SNOW_RX, MERGE_RX], lib=['rt_core.c', 'rt_atomic_seq.c'], spec=['C02/h_rc_walk.c'],
         harness='h_rc_walk', defines=['CV_HAS_rc_walk 1', 'CV_HAS_rc_real 1'], loop_contracts=True, timeout=300,
         perms={'cocls::awaiter._next': 'CV_NEXT', 'cocls::awaiter._handle_addr': 'CV_HA', 'cocls::awaiter._resume_fn': 'CV_RF'},
         under_contract=['cocls::awaiter::resume_chain_lk(cocls::awaiter*)']),
]
META = dict(
    level='proof',
    level_text='awaiter::subscribe_check_ready (CAS retry loop under a loop contract), resume_chain_set_ready, awaiter::resume, co_awaiter<future<int>>::await_ready / await_suspend(handle) / await_suspend(fn,ctx) / await_resume / sync / force_sync and sync_awaiter::wakeup are verified thread-modularly against contracts: suspend <=> the node was pushed by exactly one RMW onto a chain value (never onto the ready marker), the published node is complete and links to the value it replaced (no waiter cut off); refused <=> the ready marker was seen, node untouched; the resolver swings the slot once and hands exactly the detached chain to the walk once; sync() returns only after the result is set and leaves no subscribed stack awaiter behind. The environment may push other waiters and may resolve at every atomic step. The chain walk resume_chain_lk is PROVED UNBOUNDED under a loop contract with a tracked-node abstraction (unit resume_chain_lk_walk, specs/C02/h_rc_walk.c: chain of symbolic length n < 2^30, no unwinding; the chain is materialised lazily - one arbitrary-but-fixed waiter at a symbolic position is a real object of symbolic kind, all other waiters are one summary object that is a fresh arbitrary waiter in every iteration; at the start of each iteration the cursor node gets its link node(pos+1) and the ghost cursor advances; a released waiter is poisoned (arbitrary member values + shadow copy) so that any later read goes wrong and any later write is seen, and permission hooks on _next / _handle_addr / _resume_fn name such an access directly): the tracked waiter is released exactly once, when the walk has reached it (callback called once with itself and its own context / its coroutine handle handed over exactly once), none of its three members is accessed after its release, the walk writes nothing of a waiter but its link, every iteration moves on by exactly one waiter, exactly n releases happen, no exception, the returned suspend point is modified by merges only, the walk terminates (decreases clause). The position of the tracked waiter is arbitrary, so this holds for every waiter of the chain. A BOUNDED SIBLING (resume_chain_lk_bounded_*, lists of 0..N concrete awaiters of mixed kind; a resumed callback awaiter is freed at once so any later access is a use-after-free) exercises every node concretely and additionally checks that handles are merged in chain order; it also decides rewritten loops the invariant of the unbounded unit does not fit.',
    level_note='Trusted: protocol-F primitives incl. the environment model and the blocking-wait primitive (returns only after the wake-up, which only follows a resolution), abstract callees (resume_chain_lk in the set_ready unit, operator<< / suspend_now as abstract hand-over of the handles inside the two walk units), clang front end, ir2c. resume_chain_lk_walk: the list SHAPE is an assumption of the unit (the detached chain is an acyclic list of n distinct awaiters with distinct handles that no other thread touches - established by the push contracts of subscribe_check_ready and protocol F, not re-proved here); writes to anonymous waiters are weak updates on the summary object, claims are made for the tracked waiter (arbitrary position => all) plus the release count; the loop cursor is re-anchored on the real objects at the start of each iteration by an assignment whose being the identity is an obligation (a pointer havocked by the loop contract and only assumed equal to an object is not dereferenceable in CBMC); a rewrite that reads the link of a waiter AHEAD of the cursor (look-ahead) is outside the abstraction and reported UNDECIDED (body-less rw_model_limit_*), never as a violation; accesses made through references inside callees (std::exchange) are not seen by the permission hooks but by the poisoning; y->_next = nullptr is hygiene and not demanded; a temporary suspend point flushed on the spot (suspend_now) counts as the release of its coroutine; order of the merged handles is checked by the bounded sibling only. Bounded sibling: resume_chain_lk_bounded_* (N=5 quick / 8 thorough) - never counted as discharged. Not covered: liveness of atomic::wait, final_awaiter of async coroutines (C04), waiters on other value types.',
    technique='CBMC code contracts + loop contracts via goto-instrument --dfcc on the C translation of awaiter.h/future.h with rely/guarantee protocol primitives for the atomic instructions; list walk: loop contract over a lazily materialised chain (tracked node + summary node, permission hooks on _next) + bounded unwinding as cross-check sibling',
    trusted_base=['protocol-F atomic primitives and environment model (lib/rt_atomic_protF.c)', 'std::atomic<bool>::wait / notify_all primitives (specs/C02/a_spec.h)', 'abstract append for suspend_point::operator<< / suspend_now in the walk units (contracts proved/bounded in C06)', 'lazy materialisation (rw_anchor: cursor node gets its link at the start of each iteration), poisoning of released waiters and tracked-node ghost state of specs/C02/h_rc_walk.c'],
    assumptions=['rely/guarantee soundness (argued, DESIGN 3.5)', 'the payload memory is written only by the holder of the right to resolve (C01 units)', 'resume_chain_lk_walk: the detached chain is an acyclic list of n < 2^30 distinct awaiters with distinct handles, untouched by other threads (list shape assumed, not proved in that unit); claims for one arbitrary tracked waiter hold for all by symmetry', 'resume_chain_lk_bounded_*: bounded(N) list length'],
    explanation='see level_text')
