# C02 - No lost, early or duplicate wake-up of a future's waiters
TYPES = {'COAW': 'cocls::co_awaiter<cocls::future<int> >', 'SYNCAW': 'cocls::sync_awaiter', 'ATOMB': 'std::atomic<bool>', 'FUT': 'cocls::future<int>', 'AWT': 'cocls::awaiter', 'SP': 'cocls::suspend_point<void>', 'ATOMAW': 'std::atomic<cocls::awaiter *>'}
GLOBALS = {'AW_INSTANCE': '_ZN5cocls7awaiter8instanceE', 'AW_DISABLED': '_ZN5cocls7awaiter8disabledE'}
MERGE_RX = r'^cocls::suspend_point<void>::operator<<\(cocls::suspend_point<void>&&\)$'
RC_LK = r'^cocls::awaiter::resume_chain_lk\(cocls::awaiter\*\)$'
CO = r'^cocls::co_awaiter<cocls::future<int> >::'
SCR = r'^cocls::awaiter::subscribe_check_ready\('
WAIT = r'^std::atomic<bool>::wait\(bool, std::memory_order\) const$'
NOTIFY = r'^std::atomic<bool>::notify_all\(\)$'
QG = {'QINST': '_ZN5cocls10coro_queue8instanceE', 'TLS_GUARD': '__tls_guard'}
SNAP = ['CV_F_NODE_SNAPSHOT(n) (gh_push_handle = ((AWT *)(n))->_handle_addr, gh_push_fn = (void *)((AWT *)(n))->_resume_fn, gh_push_next = ((AWT *)(n))->_next)']
LIBS = ['rt_core.c', 'rt_atomic_protF.c']
FC_READY = r'^cocls::future_common::ready\(\) const$'
CO_SYNC = r'^cocls::co_awaiter<cocls::future<int> >::sync\(\)$'
AW_SUB = r'^cocls::awaiter::subscribe\(std::atomic<cocls::awaiter\*>&\)$'
def unit(name, alias, rx, names=None, names_opt=None, boundary=(), **kw):
    nm = {alias: rx}; nm.update(names or {})
    no = {} if alias == 'aw_subscribe' else {'aw_subscribe': AW_SUB}; no.update(names_opt or {})
    d = dict(name=name, driver='c01_future.cpp', roots=[rx], names=nm, names_opt=no, types=TYPES, globals=GLOBALS, boundary=list(boundary), lib=LIBS,
             spec=['C02/a_spec.h', 'C02/h_a.c'], harness='h_' + name, enforce=alias, under_contract=[rx.strip('^$').replace('\\', '')])
    d.update(kw)
    return d
UNITS = [
    unit('subscribe_check_ready', 'aw_subscribe_check_ready', r'^cocls::awaiter::subscribe_check_ready\(std::atomic<cocls::awaiter\*>&, cocls::awaiter&\)$', names_opt={'aw_subscribe': AW_SUB}, loop_contracts=True, defines=SNAP),
    unit('resume_chain_set_ready', 'aw_resume_chain_set_ready', r'^cocls::awaiter::resume_chain_set_ready\(std::atomic<cocls::awaiter\*>&, cocls::awaiter&\)$', names_opt={'aw_resume_chain_lk': RC_LK}, boundary=[RC_LK]),
    dict(unit('ab_ready', 'ab_ready', r'^cocls::future<int>::awaitable_bool::await_ready\(\)$', names_opt={'ab_fc_ready_stub': FC_READY, 'ab_sync_stub': CO_SYNC}, boundary=[FC_READY, CO_SYNC]), lib=['rt_core.c', 'rt_atomic_seq.c'], types=dict(TYPES, ABOOL='cocls::future<int>::awaitable_bool', FUT='cocls::future<int>')),
    dict(unit('ab_bool', 'ab_bool', r'^cocls::future<int>::awaitable_bool::operator bool\(\) const$', names_opt={'ab_fc_ready_stub': FC_READY, 'ab_sync_stub': CO_SYNC}, boundary=[FC_READY, CO_SYNC]), lib=['rt_core.c', 'rt_atomic_seq.c'], types=dict(TYPES, ABOOL='cocls::future<int>::awaitable_bool', FUT='cocls::future<int>')),
    unit('resume', 'aw_resume', r'^cocls::awaiter::resume\(\)$'),
    unit('co_await_ready', 'co_await_ready', CO + r'await_ready\(\)$', defines=SNAP),
    unit('co_await_suspend', 'co_await_suspend', CO + r'await_suspend\(std::__n4861::coroutine_handle<void>\)$', names={'aw_subscribe_check_ready': SCR}, names_opt={'aw_subscribe': AW_SUB}, loop_contracts=True, defines=SNAP),
    unit('co_await_suspend_fn', 'co_await_suspend_fn', CO + r'await_suspend\(cocls::suspend_point<void> \(\*\)\(cocls::awaiter\*, void\*\) noexcept, void\*\)$', names={'aw_subscribe_check_ready': SCR}, names_opt={'aw_subscribe': AW_SUB}, loop_contracts=True, defines=SNAP),
    unit('co_sync', 'co_sync', CO + r'sync\(\)$', names={'aw_subscribe_check_ready': SCR, 'atomic_bool_wait': WAIT}, boundary=[WAIT], loop_contracts=True, defines=SNAP, globals=dict(GLOBALS, **QG)),
    unit('co_force_sync', 'co_force_sync', CO + r'force_sync\(\)$', names={'aw_subscribe_check_ready': SCR, 'atomic_bool_wait': WAIT}, boundary=[WAIT], loop_contracts=True, defines=SNAP, globals=dict(GLOBALS, **QG)),
    unit('sa_wakeup', 'sa_wakeup', r'^cocls::sync_awaiter::wakeup\(\)$', names={'atomic_bool_notify_all': NOTIFY}, boundary=[NOTIFY]),
    unit('co_await_resume', 'co_await_resume', CO + r'await_resume\(\)$'),
] + [
    dict(name='resume_chain_lk_bounded_%s' % t, driver='c01_future.cpp', roots=[RC_LK], names={'aw_resume_chain_lk': RC_LK}, names_opt={'sp_merge': MERGE_RX}, types=dict(TYPES, EXT='cocls::suspend_point<void>::ExtData'), globals=GLOBALS,
         boundary=[r'^cocls::suspend_point<void>::suspend_now\(\)$', MERGE_RX], lib=['rt_core.c', 'rt_atomic_seq.c'], spec=['C02/h_rc_bounded.c'], harness='h_rc_bounded', defines=['RC_N %d' % n, 'CV_HAS_rc_real 1'],
         unwind=n + 2, bounded='awaiter chains of 0..%d nodes, every mix of coroutine/callback awaiters' % n, kind='bounded', tiers=[t], object_bits=10, timeout=1200,
         under_contract=['cocls::awaiter::resume_chain_lk(cocls::awaiter*)'])
    for t, n in (('quick', 5), ('thorough', 8))
]
META = dict(
    level='proof',
    level_text='awaiter::subscribe_check_ready (CAS retry loop under a loop contract), resume_chain_set_ready, awaiter::resume, co_awaiter<future<int>>::await_ready / await_suspend(handle) / await_suspend(fn,ctx) / await_resume / sync / force_sync and sync_awaiter::wakeup are verified thread-modularly against contracts: suspend <=> the node was pushed by exactly one RMW onto a chain value (never onto the ready marker), the published node is complete and links to the value it replaced (no waiter cut off); refused <=> the ready marker was seen, node untouched; the resolver swings the slot once and hands exactly the detached chain to the walk once; sync() returns only after the result is set and leaves no subscribed stack awaiter behind. The environment may push other waiters and may resolve at every atomic step. The chain walk resume_chain_lk is bounded (lists of 0..N awaiters of mixed kind; a resumed callback awaiter is freed at once so any later access is a use-after-free): each awaiter resumed exactly once, _next read before the resume, handles merged in order.',
    level_note='Trusted: protocol-F primitives incl. the environment model and the blocking-wait primitive (returns only after the wake-up, which only follows a resolution), abstract callees (resume_chain_lk in the set_ready unit, operator<< as abstract append inside the bounded walk), clang front end, ir2c. Bounded: resume_chain_lk (N=5 quick / 8 thorough) - never counted as discharged. Not covered: liveness of atomic::wait, final_awaiter of async coroutines (C04), waiters on other value types.',
    technique='CBMC code contracts + loop contracts via goto-instrument --dfcc on the C translation of awaiter.h/future.h with rely/guarantee protocol primitives for the atomic instructions; bounded unwinding for the list walk',
    trusted_base=['protocol-F atomic primitives and environment model (lib/rt_atomic_protF.c)', 'std::atomic<bool>::wait / notify_all primitives (specs/C02/a_spec.h)', 'abstract append for suspend_point::operator<< in the bounded walk (contract proved/bounded in C06)'],
    assumptions=['rely/guarantee soundness (argued, DESIGN 3.5)', 'the payload memory is written only by the holder of the right to resolve (C01 units)', 'resume_chain_lk: bounded(N) list length'],
    explanation='see level_text')
