/* U resume_chain_lk - UNBOUNDED walk (loop contract, chain of rw_n < 2^30 awaiters, no unwinding) by LAZY MATERIALISATION of the chain
 * with a TRACKED node ("fixed-role slots", DESIGN 3.7 / specs/C12):
 *   - the chain has symbolic length rw_n; ONE arbitrary-but-fixed waiter, at symbolic position rw_tpos, is a real object rw_trk of symbolic
 *     kind (coroutine awaiter: handle handed to a suspend point / callback awaiter: function called with the own context); every other
 *     waiter is represented by ONE summary object rw_anon (weak update: it is a fresh arbitrary waiter in every iteration);
 *     node(p) = p >= rw_n ? NULL : p == rw_tpos ? rw_trk : rw_anon.
 *   - the successor link is never stored ahead of time.  At the start of every iteration the cursor local is RE-ANCHORED on the real object
 *     it denotes (a pointer havocked by the loop contract and only ASSUMED equal to an object by the invariant is dereferenced by CBMC
 *     through an empty value set; the assignment is the identity - asserted) and the cursor node is MATERIALISED: its link is set to
 *     node(pos+1) and the ghost cursor advances.  The loop invariant `chain_addr == node(pos)` checks that each iteration moves on by
 *     exactly one waiter.
 *   - RELEASE of a waiter (callback invoked / coroutine handle handed over) POISONS the node: its three members get arbitrary values (the
 *     waiter's memory - a sync_awaiter on the stack of the woken thread, a co_awaiter in a frame that may be gone - can be reused for anything)
 *     and a shadow copy is kept.  A READ of a released node therefore yields garbage (cursor / results go wrong, the invariant fails), a
 *     WRITE is found by comparing with the shadow; both work however the access is made (also through references in callees).  On top
 *     of that ir2c emits CV_NEXT / CV_HA / CV_RF(p) before every plain member access (unit key perms): these name the offence directly
 *     ("awaiter touched after it was resumed") and demand that only waiters of the chain are accessed.
 * ASSUMED (established elsewhere: push contracts of subscribe_check_ready, protocol F): the detached chain is an acyclic list of rw_n distinct
 * waiters that nobody else touches, distinct waiters carry distinct handles.
 * From property C02 (every waiter released exactly once, no waiter left suspended, nothing of a waiter touched after its release):
 *   the tracked waiter is released exactly once, while it is the cursor (callback called once with itself and its own context / its handle
 *   handed over exactly once), nothing of it is accessed afterwards, nothing but its link is written before, exactly rw_n releases happen,
 *   no exception, the returned suspend point is modified by merges only, the walk terminates.  The tracked position is arbitrary, so this
 *   holds for every waiter.  `y->_next = nullptr` is hygiene no property depends on (DESIGN 3.1): not demanded. */
#ifdef CV_HAS_rc_walk
enum { RW_NOT_VISITED = 0, RW_VISITING = 1, RW_RESUMED = 3 };
static AWT *rw_trk, *rw_anon;                 /* assigned in the harness (ghost pointers must be assigned, README) */
static unsigned rw_n, rw_tpos, rw_trk_is_cb;  /* constants of one run */
static struct rw_mut { unsigned pos, tstate, trk_cb_calls, trk_merged, resumes; AWT *pz_next; cv_i8 *pz_ha; void *pz_fn; } rwm;   /* everything the walk changes: one assigns target */
static cv_i8 rw_tok_trk, rw_tok_anon, rw_tok_other;
void rw_trk_cb(SP *ret, AWT *me, cv_i8 *ctx); void rw_anon_cb(SP *ret, AWT *me, cv_i8 *ctx);
#define RW_NODE(p) ((p) >= rw_n ? (AWT *)0 : (p) == rw_tpos ? rw_trk : rw_anon)
#define RW_LIVE(p, what) __CPROVER_assert(!((p) == rw_trk && rwm.tstate == RW_RESUMED), "C02: awaiter touched after it was resumed (" what ")")
#define RW_KNOWN(p) __CPROVER_assert((p) == rw_trk || (p) == rw_anon, "walk accesses only awaiters of the detached chain")
/* limits of the abstraction are calls of a body-less function: DFCC reports "undefined function should be unreachable" = UNDECIDED, never a violation */
void rw_model_limit_link_of_a_waiter_ahead_of_the_cursor(void);
#define CV_NEXT(p) do { RW_KNOWN(p); RW_LIVE(p, "_next"); \
                        if ((p) == rw_trk && rwm.tstate == RW_NOT_VISITED) { rw_model_limit_link_of_a_waiter_ahead_of_the_cursor(); __CPROVER_assume(0); } } while (0)
#define CV_HA(p) do { RW_KNOWN(p); RW_LIVE(p, "_handle_addr"); } while (0)
#define CV_RF(p) do { RW_KNOWN(p); RW_LIVE(p, "_resume_fn"); } while (0)
#define RW_TRK_FRAME (rw_trk->_handle_addr == (rw_trk_is_cb ? &rw_tok_other : &rw_tok_trk) && (void *)rw_trk->_resume_fn == (rw_trk_is_cb ? (void *)rw_trk_cb : (void *)0))
#define RW_TRK_UNTOUCHED_SINCE_RELEASE (rw_trk->_next == rwm.pz_next && rw_trk->_handle_addr == rwm.pz_ha && (void *)rw_trk->_resume_fn == rwm.pz_fn)
/* start of an iteration: re-anchor the cursor, materialise the cursor node, advance the ghost cursor */
static AWT *rw_anchor(AWT *c) {
  __CPROVER_assert(c == RW_NODE(rwm.pos), "cursor local denotes node(pos) (re-anchoring is the identity)");
  unsigned k = rwm.pos; AWT *cur = RW_NODE(k);
  if (k < rw_n) {
    if (cur == rw_trk) rwm.tstate = RW_VISITING;                    /* its handle / function are those the harness gave it (invariant) */
    else { rw_anon->_handle_addr = &rw_tok_anon; rw_anon->_resume_fn = (nondet_unsigned() & 1) ? rw_anon_cb : 0; }     /* a fresh arbitrary waiter */
    if (cur == rw_trk) __CPROVER_assert(cur->_next == RW_NODE(k + 1), "C02: the link of a waiter is intact when the walk reaches it (nobody wrote it ahead of the cursor)");
    else cur->_next = RW_NODE(k + 1);                              /* anonymous waiters: materialised when reached (summary object) */
    rwm.pos = k + 1; }
  return cur; }
#define CV_LOOP_aw_resume_chain_lk_0 \
  __CPROVER_assigns(CV_LOOP_LOCALS_aw_resume_chain_lk_0, __CPROVER_object_whole(rw_trk), __CPROVER_object_whole(rw_anon), __CPROVER_object_whole(&rwm), cv_exc_pending) \
  __CPROVER_loop_invariant(cv_exc_pending == 0 && rwm.pos <= rw_n && chain_addr == RW_NODE(rwm.pos) && rwm.resumes == rwm.pos) \
  __CPROVER_loop_invariant((rw_tpos < rw_n && rwm.pos > rw_tpos) ? (rwm.tstate == RW_RESUMED && rwm.trk_cb_calls == (rw_trk_is_cb ? 1 : 0) && rwm.trk_merged == (rw_trk_is_cb ? 0 : 1) && RW_TRK_UNTOUCHED_SINCE_RELEASE) \
                                                                  : (rwm.tstate == RW_NOT_VISITED && rwm.trk_cb_calls == 0 && rwm.trk_merged == 0 && RW_TRK_FRAME && (rw_tpos >= rw_n || rw_trk->_next == RW_NODE(rw_tpos + 1)))) \
  __CPROVER_decreases(rw_n - rwm.pos) \
  if ((chain_addr = rw_anchor(chain_addr)), 1)
/* release of the tracked waiter: exactly once, while it is the cursor; then its memory may be anything */
static void rw_release_trk(void) {
  __CPROVER_assert(rwm.tstate == RW_VISITING, "C02: a waiter is released exactly once, when the walk has reached it");
  __CPROVER_assert(RW_TRK_FRAME, "walk writes nothing of a waiter but its link");
  rwm.resumes++; rwm.tstate = RW_RESUMED;
  AWT *pn; cv_i8 *ph; void (*pf)(SP *, AWT *, cv_i8 *);             /* uninitialised = arbitrary */
  rwm.pz_next = pn; rwm.pz_ha = ph; rwm.pz_fn = (void *)pf;
  rw_trk->_next = pn; rw_trk->_handle_addr = ph; rw_trk->_resume_fn = pf; }
static void rw_release_anon(void) {
  rwm.resumes++;
  AWT *pn; cv_i8 *ph; void (*pf)(SP *, AWT *, cv_i8 *);
  rw_anon->_next = pn; rw_anon->_handle_addr = ph; rw_anon->_resume_fn = pf; }
/* callback awaiters: the tracked one counts its calls and checks its context; an anonymous one is an arbitrary callback.  Both return
 * an arbitrary empty-or-one-handle suspend point (a foreign handle). */
static void rw_cb_result(SP *ret) { if (nondet_unsigned() & 1) { ret->_count_flag = 2; ret->f0.f0._handles[0] = &rw_tok_other; } else ret->_count_flag = 0; }
void rw_trk_cb(SP *ret, AWT *me, cv_i8 *ctx) {
  __CPROVER_assert(me == rw_trk && ctx == &rw_tok_other, "callback awaiter resumed with itself and its own context");
  rwm.trk_cb_calls++; rw_release_trk();
  __CPROVER_assert(0, "SENTINEL reachable: tracked callback awaiter resumed inside the loop");
  rw_cb_result(ret); }
void rw_anon_cb(SP *ret, AWT *me, cv_i8 *ctx) {
  __CPROVER_assert(me == rw_anon && ctx == &rw_tok_anon, "callback awaiter resumed with itself and its own context");
  rw_release_anon();
  __CPROVER_assert(0, "SENTINEL reachable: anonymous callback awaiter resumed inside the loop");
  rw_cb_result(ret); }
#define CV_ICALL_EXTRA_v_ppp(p, a0, a1, a2) if ((p) == (void *)rw_trk_cb) { rw_trk_cb((SP *)(a0), (AWT *)(a1), (cv_i8 *)(a2)); return; } \
                                            if ((p) == (void *)rw_anon_cb) { rw_anon_cb((SP *)(a0), (AWT *)(a1), (cv_i8 *)(a2)); return; }
/* a coroutine awaiter is released by handing its handle over: to the returned suspend point (operator<<, abstract append as in the bounded
 * sibling: contract proved in C06) or - should the temporary be flushed instead - by suspend_now, which resumes it on the spot. */
static void rw_release_handles(SP *s) {
  __CPROVER_assert(!(s->_count_flag & 1) && (s->_count_flag >> 1) <= 1, "resume() of one awaiter yields at most one inline handle (model bound of this unit)");
  if ((s->_count_flag >> 1) == 1) {
    cv_i8 *h = s->f0.f0._handles[0];
    if (h == &rw_tok_trk) {
      rwm.trk_merged++; rw_release_trk();
      __CPROVER_assert(0, "SENTINEL reachable: tracked coroutine handle handed over inside the loop"); }
    else if (h == &rw_tok_anon) rw_release_anon(); }
  s->_count_flag = 0; }
#ifdef CV_HAS_sp_merge
SP *sp_merge(SP *this_, SP *other) { rw_release_handles(other); return this_; }
#endif
#ifdef CV_HAS_sp_suspend_now
void sp_suspend_now(SP *this_) { rw_release_handles(this_); }
#endif
void h_rc_walk(void) {
  cv_exc_pending = 0;
  rw_trk = malloc(sizeof(AWT)); rw_anon = malloc(sizeof(AWT)); __CPROVER_assume(rw_trk != 0 && rw_anon != 0);
  rw_n = nondet_unsigned(); rw_tpos = nondet_unsigned(); rw_trk_is_cb = nondet_unsigned() & 1;
  __CPROVER_assume(rw_n < (1u << 30));                       /* rw_tpos >= rw_n: no tracked waiter in this chain (covers the empty chain) */
  rwm.pos = 0; rwm.tstate = RW_NOT_VISITED; rwm.trk_cb_calls = 0; rwm.trk_merged = 0; rwm.resumes = 0;
  rw_trk->_handle_addr = rw_trk_is_cb ? &rw_tok_other : &rw_tok_trk; rw_trk->_resume_fn = rw_trk_is_cb ? rw_trk_cb : 0;
  rw_trk->_next = RW_NODE(rw_tpos + 1);     /* audit F1: the tracked waiter's link exists AHEAD of time (statically known) and the invariant carries it while the waiter
                                             * is not yet visited - a write to the link of a waiter ahead of the cursor, however it is made, breaks the invariant */
  SP ret;
  aw_resume_chain_lk(&ret, RW_NODE(0));
  __CPROVER_assert(cv_exc_pending == 0, "no exception");
  __CPROVER_assert(rwm.pos == rw_n && rwm.resumes == rw_n, "C02: exactly as many releases as waiters in the chain (no waiter stays suspended)");
  if (rw_tpos < rw_n) {
    __CPROVER_assert(rwm.tstate == RW_RESUMED, "C02: every waiter of the chain is released (arbitrary tracked waiter)");
    if (rw_trk_is_cb) __CPROVER_assert(rwm.trk_cb_calls == 1 && rwm.trk_merged == 0, "C02: callback awaiter resumed exactly once");
    else __CPROVER_assert(rwm.trk_merged == 1 && rwm.trk_cb_calls == 0, "C02: coroutine handle handed over exactly once (none lost, none duplicated)");
    __CPROVER_assert(RW_TRK_UNTOUCHED_SINCE_RELEASE, "C02: nothing of a waiter is written after its release"); }
  __CPROVER_assert(ret._count_flag == 0, "nothing but merges touches the returned suspend point");
  __CPROVER_assert(0, "SENTINEL reachable");
}
#endif
