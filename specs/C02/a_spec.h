/* C02 (+C03 visibility, C20 no allocation) - contracts on cocls::awaiter and co_awaiter<future<int>> (awaiter.h, future.h).
 * Same protocol-F primitives as C01 (lib/rt_atomic_protF.c): the registered slot is the future's awaiter chain, "my node" is the awaiter
 * being subscribed.  The environment may push other nodes and - while another thread holds the right to resolve (TOK_OTHER) - may
 * swing the slot to the ready marker at any instant, which releases the payload (V_PAYLOAD) and hands my node to the resolver. */
#define A_PRE (cv_exc_pending == 0 && gh_INSTANCE == (void *)AW_INSTANCE && gh_DISABLED == (void *)AW_DISABLED && gh_P_cell == 0 && gh_F_slot != 0 && \
               gh_resolved_by_me == 0 && (gh_tok == TOK_OTHER || gh_tok == TOK_SPENT) && \
               ((*gh_F_slot == F_DIS) == (gh_tok == TOK_SPENT)) && *gh_F_slot != F_INS && \
               (*gh_F_slot == F_DIS ==> (gh_rel_slot & V_PAYLOAD)))
#define A_INV (cv_exc_pending == 0 && (gh_tok == TOK_OTHER || gh_tok == TOK_SPENT) && ((*gh_F_slot == F_DIS) == (gh_tok == TOK_SPENT)) && *gh_F_slot != F_INS && \
               (*gh_F_slot == F_DIS ==> (gh_rel_slot & V_PAYLOAD)))

/* awaiter::subscribe(chain): the unconditional push (used by signal, C15).  It is not called on a future slot on the unchanged tree; the
 * loop contract is stated so that a refactoring which routes a future subscription through it is DECIDED (the protocol primitive then
 * reports "subscription pushed onto the ready marker") instead of running into the unwinding limit. */
#ifdef CV_HAS_aw_subscribe
#define CV_LOOP_aw_subscribe_0 \
  __CPROVER_assigns(CV_LOOP_LOCALS_aw_subscribe_0, this1->_next, *gh_F_slot, PROTF_GHOSTS) \
  __CPROVER_loop_invariant(A_INV && gh_my_node == __CPROVER_loop_entry(gh_my_node) && gh_node_own == __CPROVER_loop_entry(gh_node_own) && gh_n_slot_rmw == __CPROVER_loop_entry(gh_n_slot_rmw))
#endif

/* ---- awaiter::subscribe_check_ready(chain, ready_state): push unless the slot shows the ready marker --------------------------- */
#ifdef CV_HAS_aw_subscribe_check_ready
#define CV_LOOP_aw_subscribe_check_ready_0 \
  __CPROVER_assigns(CV_LOOP_LOCALS_aw_subscribe_check_ready_0, this1->_next, *gh_F_slot, PROTF_GHOSTS) \
  __CPROVER_loop_invariant(A_INV && ((gh_my_node == (void *)this1 && gh_node_own == OWN_ME) || (gh_my_node == 0 && gh_node_own == OWN_NONE)) && \
      gh_my_node == __CPROVER_loop_entry(gh_my_node) && gh_node_own == __CPROVER_loop_entry(gh_node_own) && gh_n_slot_rmw == __CPROVER_loop_entry(gh_n_slot_rmw)) \
  __CPROVER_loop_invariant(this1->_next != (AWT *)gh_DISABLED)
cv_i1 aw_subscribe_check_ready(AWT *this_, ATOMAW *chain, AWT *ready_state)
__CPROVER_requires(A_PRE && gh_F_slot == (void **)&chain->_M_b._M_p && ready_state == (AWT *)gh_DISABLED)
__CPROVER_requires(gh_my_node == (void *)this_ && gh_node_own == OWN_ME && this_->_next == 0 && this_ != (AWT *)gh_DISABLED && this_ != (AWT *)gh_INSTANCE)
__CPROVER_assigns(this_->_next, *gh_F_slot, PROTF_GHOSTS)
__CPROVER_ensures(cv_exc_pending == 0 && __CPROVER_return_value <= 1)
/* subscribed: the node was pushed onto a chain value (never onto the ready marker) by exactly one RMW and is no longer mine */
__CPROVER_ensures(__CPROVER_return_value == 1 ==> ((gh_node_own == OWN_CHAIN || gh_node_own == OWN_RESOLVER) && gh_seen != F_DIS && gh_n_slot_rmw == __CPROVER_old(gh_n_slot_rmw) + 1))
__CPROVER_ensures((__CPROVER_return_value == 1 && gh_node_own == OWN_CHAIN) ==> *gh_F_slot != F_DIS)          /* still waiting <=> not resolved yet */
__CPROVER_ensures(__CPROVER_return_value == 1 ==> gh_push_next == gh_seen)                                   /* the node links to the chain value it replaced: no waiter is cut off */
/* refused: the result was already there; the node is untouched and still mine */
__CPROVER_ensures(__CPROVER_return_value == 0 ==> (gh_node_own == OWN_ME && this_->_next == 0 && *gh_F_slot == F_DIS && gh_n_slot_rmw == __CPROVER_old(gh_n_slot_rmw)))
#ifdef CV_CHECK_C03
__CPROVER_ensures(__CPROVER_return_value == 0 ==> (gh_view & V_PAYLOAD))                                     /* C03: ... and the complete result is visible */
#endif
__CPROVER_ensures(gh_allocs == __CPROVER_old(gh_allocs))
;
#endif

/* ---- awaiter::resume_chain_set_ready(chain, ready_state): the holder of the right to resolve swings the slot and hands the detached
 * chain to resume_chain_lk exactly once (abstract callee here, bounded unit below) */
int gh_rc_calls; void *gh_rc_chain; cv_i32 gh_rc_cf; cv_i8 *gh_rc_h[3];
#if defined(CV_HAS_aw_resume_chain_lk) && !defined(CV_HAS_rc_real)
void aw_resume_chain_lk(SP *ret, AWT *chain) {
  gh_rc_calls++; gh_rc_chain = chain;
  ret->_count_flag = gh_rc_cf; ret->f0.f0._handles[0] = gh_rc_h[0]; ret->f0.f0._handles[1] = gh_rc_h[1]; ret->f0.f0._handles[2] = gh_rc_h[2]; }
#endif
#ifdef CV_HAS_aw_resume_chain_set_ready
void aw_resume_chain_set_ready(SP *ret, ATOMAW *chain, AWT *ready_state)
__CPROVER_requires(cv_exc_pending == 0 && gh_INSTANCE == (void *)AW_INSTANCE && gh_DISABLED == (void *)AW_DISABLED && gh_P_cell == 0 && gh_F_slot == (void **)&chain->_M_b._M_p)
__CPROVER_requires(ready_state == (AWT *)gh_DISABLED && gh_tok == TOK_ME && *gh_F_slot != F_DIS && gh_resolved_by_me == 0 && gh_rc_calls == 0 && gh_my_node == 0 && gh_node_own == OWN_NONE)
__CPROVER_requires((gh_rc_cf == 0 || gh_rc_cf == 2 || gh_rc_cf == 4 || gh_rc_cf == 6) && __CPROVER_is_fresh(ret, sizeof(*ret)))
__CPROVER_assigns(__CPROVER_object_whole(ret), *gh_F_slot, PROTF_GHOSTS, gh_rc_calls, gh_rc_chain)
__CPROVER_ensures(cv_exc_pending == 0 && *gh_F_slot == F_DIS && gh_resolved_by_me == 1 && gh_tok == TOK_SPENT && gh_n_slot_rmw == __CPROVER_old(gh_n_slot_rmw) + 1)
__CPROVER_ensures(gh_rc_calls == 1 && gh_rc_chain == gh_chain_at_resolve)               /* every waiter subscribed before the swing is in the detached chain; it is walked once */
__CPROVER_ensures(ret->_count_flag == gh_rc_cf && ret->f0.f0._handles[0] == gh_rc_h[0] && ret->f0.f0._handles[1] == gh_rc_h[1] && ret->f0.f0._handles[2] == gh_rc_h[2])
__CPROVER_ensures(gh_allocs == __CPROVER_old(gh_allocs))
;
#endif

/* ---- future<int>::resolve(): what every resolver (promise call, drop, destruction, async final step) ends with.  Same contract as the
 * swing itself: the slot goes to the ready marker by exactly ONE read-modify-write (a "nobody waits" test followed by a plain store would lose
 * a waiter that registers in between - seeded change C02-5), the chain detached by that very RMW is walked exactly once. */
#ifdef CV_HAS_fu_resolve
void fu_resolve(SP *ret, FUT *this_)
__CPROVER_requires(cv_exc_pending == 0 && gh_INSTANCE == (void *)AW_INSTANCE && gh_DISABLED == (void *)AW_DISABLED && gh_P_cell == 0 && gh_F_slot == (void **)&this_->base_future_common._awaiter._M_b._M_p)
__CPROVER_requires(gh_tok == TOK_ME && *gh_F_slot != F_DIS && gh_resolved_by_me == 0 && gh_rc_calls == 0 && gh_my_node == 0 && gh_node_own == OWN_NONE)
__CPROVER_requires((gh_rc_cf == 0 || gh_rc_cf == 2 || gh_rc_cf == 4 || gh_rc_cf == 6) && __CPROVER_is_fresh(ret, sizeof(*ret)))
__CPROVER_assigns(__CPROVER_object_whole(ret), *gh_F_slot, PROTF_GHOSTS, gh_rc_calls, gh_rc_chain)
__CPROVER_ensures(cv_exc_pending == 0 && *gh_F_slot == F_DIS && gh_resolved_by_me == 1 && gh_tok == TOK_SPENT && gh_n_slot_rmw == __CPROVER_old(gh_n_slot_rmw) + 1)
__CPROVER_ensures(gh_rc_calls == 1 && gh_rc_chain == gh_chain_at_resolve)               /* no waiter lost: every waiter subscribed before the swing is in the detached chain; it is walked once */
__CPROVER_ensures(ret->_count_flag == gh_rc_cf && ret->f0.f0._handles[0] == gh_rc_h[0] && ret->f0.f0._handles[1] == gh_rc_h[1] && ret->f0.f0._handles[2] == gh_rc_h[2])
__CPROVER_ensures(gh_allocs == __CPROVER_old(gh_allocs))
;
#endif

/* ---- awaiter::resume(): callback awaiters run their function (with the registered context), coroutine awaiters yield their handle */
#ifdef CV_HAS_aw_resume
int gh_cb_calls; void *gh_cb_me, *gh_cb_ctx; 
void cb_stub(SP *ret, AWT *me, cv_i8 *ctx) { gh_cb_calls++; gh_cb_me = me; gh_cb_ctx = ctx; ret->_count_flag = gh_rc_cf; ret->f0.f0._handles[0] = gh_rc_h[0]; ret->f0.f0._handles[1] = gh_rc_h[1]; ret->f0.f0._handles[2] = gh_rc_h[2]; }
#define CV_ICALL_EXTRA_v_ppp(p, a0, a1, a2) if ((p) == (void *)cb_stub) { cb_stub((SP *)(a0), (AWT *)(a1), (cv_i8 *)(a2)); return; }
void aw_resume(SP *ret, AWT *this_)
__CPROVER_requires(cv_exc_pending == 0 && gh_cb_calls == 0 && __CPROVER_is_fresh(ret, sizeof(*ret)) && __CPROVER_is_fresh(this_, sizeof(*this_)))
__CPROVER_requires(this_->_resume_fn == 0 || this_->_resume_fn == cb_stub)
__CPROVER_requires(gh_rc_cf == 0 || gh_rc_cf == 2 || gh_rc_cf == 4 || gh_rc_cf == 6)
__CPROVER_assigns(__CPROVER_object_whole(ret), gh_cb_calls, gh_cb_me, gh_cb_ctx)
__CPROVER_ensures(cv_exc_pending == 0)
__CPROVER_ensures(this_->_resume_fn == 0 ==> (gh_cb_calls == 0 && ret->_count_flag == 2 && ret->f0.f0._handles[0] == this_->_handle_addr))        /* coroutine: exactly its handle */
__CPROVER_ensures(this_->_resume_fn != 0 ==> (gh_cb_calls == 1 && gh_cb_me == (void *)this_ && gh_cb_ctx == (void *)this_->_handle_addr && ret->_count_flag == gh_rc_cf && ret->f0.f0._handles[0] == gh_rc_h[0]))
__CPROVER_ensures(gh_allocs == __CPROVER_old(gh_allocs))
;
#endif

/* ---- co_awaiter<future<int>>: the coroutine / callback / blocking waiter ------------------------------------------------------- */
#define CO_NODE(a) ((AWT *)&(a)->base_awaiter)
#define CO_PRE(this_) (A_PRE && gh_F_fut == (void *)(this_)->_owner && gh_F_slot == (void **)&(this_)->_owner->base_future_common._awaiter._M_b._M_p)
#define CO_ASSIGNS(this_) __CPROVER_assigns(__CPROVER_object_whole(this_), *gh_F_slot, PROTF_GHOSTS)
#ifdef CV_HAS_co_await_ready
cv_i1 co_await_ready(COAW *this_)
__CPROVER_requires(CO_PRE(this_)) CO_ASSIGNS(this_)
__CPROVER_ensures(cv_exc_pending == 0 && __CPROVER_return_value <= 1)
__CPROVER_ensures(__CPROVER_return_value == 1 ==> *gh_F_slot == F_DIS)              /* never "ready" before the result is set */
__CPROVER_ensures(gh_allocs == __CPROVER_old(gh_allocs))
#ifdef CV_CHECK_C03
__CPROVER_ensures(__CPROVER_return_value == 1 ==> (gh_view & V_PAYLOAD))
#endif
;
#endif
/* await_suspend(h): suspend <=> subscribed; the published node carries the coroutine handle and links to the chain value it replaced */
#define CO_SUSPEND_POST(this_, handle, fn) \
__CPROVER_ensures(cv_exc_pending == 0 && __CPROVER_return_value <= 1) \
__CPROVER_ensures(__CPROVER_return_value == 1 ==> ((gh_node_own == OWN_CHAIN || gh_node_own == OWN_RESOLVER) && gh_seen != F_DIS && gh_n_slot_rmw == __CPROVER_old(gh_n_slot_rmw) + 1)) \
__CPROVER_ensures(__CPROVER_return_value == 1 ==> (gh_push_handle == (void *)(handle) && gh_push_fn == (void *)(fn) && gh_push_next == gh_seen))   /* complete node published, no waiter cut off */ \
__CPROVER_ensures((__CPROVER_return_value == 1 && gh_node_own == OWN_CHAIN) ==> *gh_F_slot != F_DIS) \
__CPROVER_ensures(__CPROVER_return_value == 0 ==> (gh_node_own == OWN_ME && *gh_F_slot == F_DIS && gh_n_slot_rmw == __CPROVER_old(gh_n_slot_rmw)))  /* not suspended <=> result already there */ \
__CPROVER_ensures(gh_allocs == __CPROVER_old(gh_allocs))
#ifdef CV_HAS_co_await_suspend
cv_i1 co_await_suspend(COAW *this_, cv_i8 *h)
__CPROVER_requires(CO_PRE(this_) && gh_my_node == (void *)CO_NODE(this_) && gh_node_own == OWN_ME && CO_NODE(this_)->_next == 0 && h != 0)
CO_ASSIGNS(this_)
CO_SUSPEND_POST(this_, h, 0)
#ifdef CV_CHECK_C03
__CPROVER_ensures(__CPROVER_return_value == 0 ==> (gh_view & V_PAYLOAD))
#endif
;
#endif
#ifdef CV_HAS_co_await_suspend_fn
cv_i1 co_await_suspend_fn(COAW *this_, void (*fn)(SP *, AWT *, cv_i8 *), cv_i8 *ctx)
__CPROVER_requires(CO_PRE(this_) && gh_my_node == (void *)CO_NODE(this_) && gh_node_own == OWN_ME && CO_NODE(this_)->_next == 0 && fn != 0)
CO_ASSIGNS(this_)
CO_SUSPEND_POST(this_, ctx, fn)
#ifdef CV_CHECK_C03
__CPROVER_ensures(__CPROVER_return_value == 0 ==> (gh_view & V_PAYLOAD))
#endif
;
#endif
/* sync(): blocks until resolved.  std::atomic<bool>::wait is a primitive: it returns only after the flag was set, which only the resolver's
 * walk does (sync_awaiter::wakeup) - so the environment is forced to have resolved; the flag's release/acquire pair carries the payload. */
#if defined(CV_HAS_co_sync) || defined(CV_HAS_co_force_sync) || defined(CV_HAS_co_wait) || defined(CV_HAS_fu_wait_e2e) || defined(CV_HAS_fu_force_wait_e2e)
int gh_wait_calls;
void atomic_bool_wait(ATOMB *flag, cv_i1 old, cv_i32 order) {
  gh_wait_calls++;
  __CPROVER_assert(gh_node_own == OWN_CHAIN || gh_node_own == OWN_RESOLVER, "blocking wait without a subscribed awaiter (nobody would ever wake it)");
  __CPROVER_assert((void *)flag == (void *)&((SYNCAW *)gh_my_node)->flag && old == 0, "waits on the flag of the subscribed sync_awaiter");
  if (gh_tok == TOK_OTHER) { *gh_F_slot = F_DIS; gh_tok = TOK_SPENT; gh_rel_slot |= V_PAYLOAD; }     /* the wake-up only ever follows the resolution */
  gh_node_own = OWN_ME;                                                                               /* resumed: the node is mine again */
  *(cv_i8 *)flag = 1; if (HAS_ACQ(order)) gh_view |= V_PAYLOAD; }
#define SYNC_CONTRACT(this_) \
__CPROVER_requires(CO_PRE(this_) && gh_my_node == 0 && gh_node_own == OWN_NONE && gh_wait_calls == 0 && *TLS_GUARD == 1 && *QINST == 0) \
__CPROVER_assigns(*gh_F_slot, PROTF_GHOSTS, gh_wait_calls) \
__CPROVER_ensures(cv_exc_pending == 0 && *gh_F_slot == F_DIS)                        /* returns only after the result is set (never early) */ \
__CPROVER_ensures(gh_wait_calls <= 1 && gh_node_own != OWN_CHAIN && gh_node_own != OWN_RESOLVER)   /* the stack awaiter is not left subscribed */ \
__CPROVER_ensures(gh_allocs == __CPROVER_old(gh_allocs))                                            /* C20: blocking wait uses a stack awaiter, no allocation */
#endif
#ifdef CV_HAS_co_sync
void co_sync(COAW *this_) SYNC_CONTRACT(this_)
#ifdef CV_CHECK_C03
__CPROVER_ensures(gh_view & V_PAYLOAD)
#endif
;
#endif
#ifdef CV_HAS_co_force_sync
void co_force_sync(COAW *this_) SYNC_CONTRACT(this_)
#ifdef CV_CHECK_C03
__CPROVER_ensures(gh_view & V_PAYLOAD)
#endif
;
#endif

/* ---- future<int>::wait() / force_wait() END TO END under protocol F: the REAL co_awaiter::sync / force_sync (subscribe_check_ready loop, stack
 * sync_awaiter, blocking-wait primitive) followed by the REAL await_resume / value(), against an environment that may push other waiters and
 * may resolve at every atomic step.  Complements the forwarder units of w_spec.h (which abstract sync and let the resolver write the payload
 * while the caller blocks): here the resolver has completed tag and payload (C01: before it swings the slot) and only the swing is concurrent.
 * Released exactly once (at most one blocking wait, stack awaiter not left subscribed), never before the ready marker is set, outcome map of
 * the completed result.
 * SCOPE: outcomes value / exception only.  For a DROPPED promise value() asks pending() - a relaxed load of the slot - and the load primitive of
 * lib/rt_atomic_protF.c lets every non-RMW load of a shared slot be stale ("any earlier chain value") without read-read coherence for this
 * thread: it may answer "still pending" although this very thread has already seen the ready marker, so value_not_ready_exception cannot be
 * excluded in that model (tried: the clause `dropped ==> await_canceled_exception` fails on the unchanged tree for exactly this reason - a
 * limit of the primitive, not of the library: coherence forbids the stale read once sync() has observed the marker / was woken through the
 * flag).  The dropped outcome is decided by the forwarder units (w_spec.h) and by C01 value() (exclusive slot). */
#if defined(CV_HAS_fu_wait_e2e) || defined(CV_HAS_fu_force_wait_e2e)
#define E2E_STATE(f) ((f)->base_future_common._state)
#define E2E_VALUE(f) (*(cv_i32 *)&(f)->f1)
#define E2E_EXCP(f)  (*(void **)&(f)->f1)
#define WAIT_E2E_CONTRACT(this_) \
__CPROVER_requires(A_PRE && gh_F_fut == (void *)(this_) && gh_F_slot == (void **)&(this_)->base_future_common._awaiter._M_b._M_p && gh_my_node == 0 && gh_node_own == OWN_NONE && gh_wait_calls == 0 && *TLS_GUARD == 1 && *QINST == 0) \
__CPROVER_requires((E2E_STATE(this_) == 1 || E2E_STATE(this_) == 3) && (E2E_STATE(this_) == 3 ==> E2E_EXCP(this_) != 0)) \
__CPROVER_assigns(*gh_F_slot, PROTF_GHOSTS, gh_wait_calls, cv_exc_pending, cv_exc_obj, cv_exc_tinfo, gh_ep_addref, gh_ep_release) \
__CPROVER_ensures(*gh_F_slot == F_DIS)                                                                  /* back only after the result is set */ \
__CPROVER_ensures(gh_wait_calls <= 1 && gh_node_own != OWN_CHAIN && gh_node_own != OWN_RESOLVER)        /* released once; the stack awaiter is not left subscribed */ \
__CPROVER_ensures(E2E_STATE(this_) == 1 ==> (cv_exc_pending == 0 && __CPROVER_return_value == &E2E_VALUE(this_)))   /* the stored value itself */ \
__CPROVER_ensures(E2E_STATE(this_) == 3 ==> (cv_exc_pending == 1 && cv_exc_obj == E2E_EXCP(this_)))                 /* exactly the stored exception */ \
__CPROVER_ensures(E2E_STATE(this_) == __CPROVER_old(E2E_STATE(this_)) && gh_allocs == __CPROVER_old(gh_allocs))
#endif
#ifdef CV_HAS_fu_wait_e2e
cv_i32 *fu_wait_e2e(FUT *this_) WAIT_E2E_CONTRACT(this_)
#ifdef CV_CHECK_C03
__CPROVER_ensures(gh_view & V_PAYLOAD)
#endif
;
#endif
#ifdef CV_HAS_fu_force_wait_e2e
cv_i32 *fu_force_wait_e2e(FUT *this_) WAIT_E2E_CONTRACT(this_)
#ifdef CV_CHECK_C03
__CPROVER_ensures(gh_view & V_PAYLOAD)
#endif
;
#endif

/* ---- sync_awaiter::wakeup(): sets the flag (release) and notifies; the flag is what a blocked waiter is released by */
#ifdef CV_HAS_sa_wakeup
int gh_notify_calls;
void atomic_bool_notify_all(ATOMB *flag) { gh_notify_calls++; }
void sa_wakeup(SYNCAW *this_)
__CPROVER_requires(cv_exc_pending == 0 && gh_P_cell == 0 && gh_F_slot == 0 && gh_notify_calls == 0 && gh_W_flag == (cv_i8 *)&this_->flag)
__CPROVER_assigns(__CPROVER_object_whole(this_), gh_notify_calls)
__CPROVER_ensures(cv_exc_pending == 0 && *(cv_i8 *)&this_->flag == 1 && gh_notify_calls == 1 && gh_allocs == __CPROVER_old(gh_allocs))
;
#endif
/* ---- co_awaiter::await_resume() / wait(): read the result after readiness is known */
#ifdef CV_HAS_co_await_resume
cv_i32 *co_await_resume(COAW *this_)
__CPROVER_requires(cv_exc_pending == 0 && gh_INSTANCE == (void *)AW_INSTANCE && gh_DISABLED == (void *)AW_DISABLED && gh_P_cell == 0 && gh_F_slot == (void **)&this_->_owner->base_future_common._awaiter._M_b._M_p)
__CPROVER_requires(*gh_F_slot == F_DIS && gh_slot_excl == 1 && this_->_owner->base_future_common._state == 1)
__CPROVER_assigns()
__CPROVER_ensures(cv_exc_pending == 0 && __CPROVER_return_value == (cv_i32 *)&this_->_owner->f1 && gh_allocs == __CPROVER_old(gh_allocs))       /* the stored value itself */
;
#endif

/* ---- has_value() waiters (future<T>::awaitable_bool): like every waiter they are released by the RESOLUTION (the ready marker), never by the
 * payload tag alone - set() stores the tag before the slot is swung (an async coroutine destroys its locals in between).  Forwarder units
 * (sequential atomics): await_ready() answers exactly what future_common::ready() says; operator bool blocks (sync()) iff it is not ready. */
#if defined(CV_HAS_ab_ready) || defined(CV_HAS_ab_bool)
int gh_ab_ready_calls, gh_ab_sync_calls, gh_ab_order, gh_ab_sync_at; cv_i1 gh_ab_ready_res;
#ifdef CV_HAS_ab_fc_ready_stub
cv_i1 ab_fc_ready_stub(void *f) { gh_ab_ready_calls++; return gh_ab_ready_res; }
#endif
#ifdef CV_HAS_ab_sync_stub
void ab_sync_stub(void *a) { gh_ab_sync_calls++; }
#endif
#endif
#ifdef CV_HAS_ab_ready
cv_i1 ab_ready(ABOOL *this_)
__CPROVER_requires(cv_exc_pending == 0 && gh_ab_ready_calls == 0 && gh_ab_ready_res <= 1 && __CPROVER_is_fresh(this_, sizeof(*this_)) && __CPROVER_is_fresh(this_->base_co_awaiter._owner, sizeof(FUT)))
__CPROVER_assigns(gh_ab_ready_calls)
__CPROVER_ensures(cv_exc_pending == 0 && __CPROVER_return_value == gh_ab_ready_res)        /* whatever the payload tag says: not released before the resolution */
;
void h_ab_ready(void) { ABOOL *a; ab_ready(a); __CPROVER_assert(0, "SENTINEL reachable"); }
#endif
#ifdef CV_HAS_ab_bool
cv_i1 ab_bool(ABOOL *this_)
__CPROVER_requires(cv_exc_pending == 0 && gh_ab_ready_calls == 0 && gh_ab_sync_calls == 0 && gh_ab_ready_res <= 1 && __CPROVER_is_fresh(this_, sizeof(*this_)) && __CPROVER_is_fresh(this_->base_co_awaiter._owner, sizeof(FUT)))
__CPROVER_assigns(gh_ab_ready_calls, gh_ab_sync_calls)
__CPROVER_ensures(cv_exc_pending == 0 && gh_ab_sync_calls == (gh_ab_ready_res ? 0 : 1))      /* blocks until the resolution unless it already happened - the tag alone does not count */
__CPROVER_ensures(__CPROVER_return_value == (this_->base_co_awaiter._owner->base_future_common._state != 0 ? 1 : 0))
;
void h_ab_bool(void) { ABOOL *a; ab_bool(a); __CPROVER_assert(0, "SENTINEL reachable"); }
#endif
