/* C02 - the blocking styles: future<int>::wait() / force_wait() / sync() / force_sync() and co_awaiter<future<int>>::wait() / force_wait()
 * (future.h:419-445, awaiter.h:303-314), and the awaiter future<void>::has_value() hands out (future.h:469-492).
 *
 * FORWARDER UNITS (sequential atomics).  co_awaiter<future<int>>::sync() / force_sync() are abstract here: they are the units co_sync /
 * co_force_sync of a_spec.h ("returns only after the result is set, leaves no subscribed stack awaiter behind").  The stub is the blocking
 * primitive seen from the caller: it returns only after the resolution - if the future is still pending when it is called, the resolver
 * (another thread) completes the result NOW with the arbitrary-but-fixed outcome gh_w_out_* and swings the slot to the ready marker; if the
 * future is resolved already nothing changes.  Everything the function under contract reads BEFORE the blocking call is therefore not the
 * result (pending: tag and payload are arbitrary, value() would answer value_not_ready_exception).
 *
 * Clauses, from the property statement ("a thread in wait()/sync() is released exactly once ... never before the result is set, once
 * released it observes the complete result"):
 *   W-ONCE     exactly one blocking call of the right style (sync for wait()/sync(), force_sync for force_wait()/force_sync()), none of the other
 *   W-OWNER    the blocking call waits on THIS future (awaiter bound to it - checked inside the stub, while the temporary awaiter is alive)
 *   W-OUTCOME  wait()/force_wait(): returns the stored value itself / rethrows exactly the stored exception / await_canceled_exception for a
 *              dropped promise - never value_not_ready_exception, never anything that was read before the release
 *   W-SILENT   sync()/force_sync(): no exception whatever the outcome is ("doesn't pick neither result nor exception")
 *   W-INTACT   the waiter does not change the result (tag, payload, ready marker)                                                          */
#define F_SLOTW(f)  (*(void **)&(f)->base_future_common._awaiter._M_b._M_p)
#define F_STATE(f) ((f)->base_future_common._state)
#define F_VALUE(f) (*(cv_i32 *)&(f)->f1)
#define F_EXCP(f)  (*(void **)&(f)->f1)
#define ST_NOT_VALUE 0
#define ST_VALUE 1
#define ST_EXCEPTION 3

#if defined(CV_HAS_co_wait) || defined(CV_HAS_co_force_wait) || defined(CV_HAS_fu_wait) || defined(CV_HAS_fu_force_wait) || defined(CV_HAS_fu_sync) || defined(CV_HAS_fu_force_sync)
FUT *gh_w_fut;                                                /* the future waited on (allocated by the harness) */
int gh_w_sync_calls, gh_w_fsync_calls, gh_w_owner_ok, gh_w_blocked;
cv_i32 gh_w_out_state, gh_w_out_value; void *gh_w_out_exc;    /* the outcome the resolver produces (arbitrary but fixed) */
static void w_block(COAW *a) {
  if ((FUT *)a->_owner != gh_w_fut) gh_w_owner_ok = 0;
  if (F_SLOTW(gh_w_fut) != (void *)AW_DISABLED) {             /* still pending: the caller blocks; the wake-up only ever follows the resolution */
    gh_w_blocked = 1;
    F_STATE(gh_w_fut) = gh_w_out_state;
    if (gh_w_out_state == ST_VALUE) F_VALUE(gh_w_fut) = gh_w_out_value;
    if (gh_w_out_state == ST_EXCEPTION) F_EXCP(gh_w_fut) = gh_w_out_exc;
    F_SLOTW(gh_w_fut) = (void *)AW_DISABLED; } }
#ifdef CV_HAS_w_sync_stub
void w_sync_stub(COAW *a) { gh_w_sync_calls++; w_block(a); }
#endif
#ifdef CV_HAS_w_fsync_stub
void w_fsync_stub(COAW *a) { gh_w_fsync_calls++; w_block(a); }
#endif
/* entry state: a promise was handed out (not the "no promise yet" marker: nobody would ever resolve), the future is pending (tag / payload arbitrary:
 * the resolver may be half-way through set()) or resolved with the outcome gh_w_out_* */
#define W_PRE (cv_exc_pending == 0 && gh_w_sync_calls == 0 && gh_w_fsync_calls == 0 && gh_w_owner_ok == 1 && gh_w_blocked == 0 && gh_w_fut != 0 && \
   (gh_w_out_state == ST_NOT_VALUE || gh_w_out_state == ST_VALUE || gh_w_out_state == ST_EXCEPTION) && (gh_w_out_state == ST_EXCEPTION ==> gh_w_out_exc != 0) && \
   F_SLOTW(gh_w_fut) != (void *)AW_INSTANCE && \
   (F_STATE(gh_w_fut) == ST_NOT_VALUE || F_STATE(gh_w_fut) == ST_VALUE || F_STATE(gh_w_fut) == ST_EXCEPTION) && \
   (F_SLOTW(gh_w_fut) == (void *)AW_DISABLED ==> (F_STATE(gh_w_fut) == gh_w_out_state && (gh_w_out_state == ST_VALUE ==> F_VALUE(gh_w_fut) == gh_w_out_value) && \
                                                  (gh_w_out_state == ST_EXCEPTION ==> F_EXCP(gh_w_fut) == gh_w_out_exc))))
#define W_ASSIGNS __CPROVER_assigns(__CPROVER_object_whole(gh_w_fut), gh_w_sync_calls, gh_w_fsync_calls, gh_w_owner_ok, gh_w_blocked, cv_exc_pending, cv_exc_obj, cv_exc_tinfo, gh_ep_addref, gh_ep_release)
/* one clause per macro, one macro per line in the contracts below: a failing obligation is reported with the line (= the clause) it belongs to */
#define W_ONCE(ns, nf)  __CPROVER_ensures(gh_w_sync_calls == (ns) && gh_w_fsync_calls == (nf))      /* W-ONCE: blocks exactly once, in the right style */
#define W_OWNER         __CPROVER_ensures(gh_w_owner_ok == 1)                                       /* W-OWNER: ... on this very future */
#define W_NOT_EARLY     __CPROVER_ensures(F_SLOTW(gh_w_fut) == (void *)AW_DISABLED)                 /* never back before the result is set */
#define W_INTACT        __CPROVER_ensures(F_STATE(gh_w_fut) == gh_w_out_state && (gh_w_out_state == ST_VALUE ==> F_VALUE(gh_w_fut) == gh_w_out_value) && (gh_w_out_state == ST_EXCEPTION ==> F_EXCP(gh_w_fut) == gh_w_out_exc))
#define W_NOALLOC       __CPROVER_ensures(gh_allocs == __CPROVER_old(gh_allocs))                    /* C20: no allocation by the blocking styles */
#define W_OUT_VALUE     __CPROVER_ensures(gh_w_out_state == ST_VALUE ==> (cv_exc_pending == 0 && __CPROVER_return_value == &F_VALUE(gh_w_fut)))          /* the stored value itself, complete */
#define W_OUT_EXCEPTION __CPROVER_ensures(gh_w_out_state == ST_EXCEPTION ==> (cv_exc_pending == 1 && cv_exc_obj == gh_w_out_exc))                        /* exactly the stored exception */
#define W_OUT_DROPPED   __CPROVER_ensures(gh_w_out_state == ST_NOT_VALUE ==> (cv_exc_pending == 1 && cv_exc_tinfo == (void *)TI_AWAIT_CANCELED))         /* dropped promise; never value_not_ready */
#define W_SILENT        __CPROVER_ensures(cv_exc_pending == 0)                                      /* W-SILENT: sync() picks neither result nor exception */
#define W_HARNESS_SETUP \
  FUT *fu = malloc(sizeof(FUT)); __CPROVER_assume(fu != 0); gh_w_fut = fu; gh_w_sync_calls = 0; gh_w_fsync_calls = 0; gh_w_owner_ok = 1; gh_w_blocked = 0; \
  cv_i8 *eo = __cxa_allocate_exception(8); gh_w_out_exc = eo; cv_i8 *eo2 = __cxa_allocate_exception(8); \
  if (F_SLOTW(fu) == (void *)AW_DISABLED) { F_STATE(fu) = gh_w_out_state; if (gh_w_out_state == ST_VALUE) F_VALUE(fu) = gh_w_out_value; if (gh_w_out_state == ST_EXCEPTION) F_EXCP(fu) = eo; } \
  else if (F_STATE(fu) == ST_EXCEPTION) F_EXCP(fu) = eo2       /* pointers the code may dereference get their value by assignment */
#define W_SENTINELS if (gh_w_blocked) __CPROVER_assert(0, "SENTINEL reachable: blocked until resolved"); else __CPROVER_assert(0, "SENTINEL reachable: already resolved"); \
  if (gh_w_out_state == ST_VALUE) __CPROVER_assert(0, "SENTINEL reachable: outcome value"); else if (gh_w_out_state == ST_EXCEPTION) __CPROVER_assert(0, "SENTINEL reachable: outcome exception"); else __CPROVER_assert(0, "SENTINEL reachable: outcome dropped")
#endif

#ifdef CV_HAS_co_wait
cv_i32 *co_wait(COAW *this_)
__CPROVER_requires(W_PRE && (FUT *)this_->_owner == gh_w_fut) W_ASSIGNS
W_ONCE(1, 0)
W_OWNER
W_NOT_EARLY
W_INTACT
W_NOALLOC
W_OUT_VALUE
W_OUT_EXCEPTION
W_OUT_DROPPED
;
void h_co_wait(void) { W_HARNESS_SETUP; COAW *a = malloc(sizeof(COAW)); __CPROVER_assume(a != 0); a->_owner = fu; co_wait(a); W_SENTINELS; }
#endif
#ifdef CV_HAS_co_force_wait
cv_i32 *co_force_wait(COAW *this_)
__CPROVER_requires(W_PRE && (FUT *)this_->_owner == gh_w_fut) W_ASSIGNS
W_ONCE(0, 1)
W_OWNER
W_NOT_EARLY
W_INTACT
W_NOALLOC
W_OUT_VALUE
W_OUT_EXCEPTION
W_OUT_DROPPED
;
void h_co_force_wait(void) { W_HARNESS_SETUP; COAW *a = malloc(sizeof(COAW)); __CPROVER_assume(a != 0); a->_owner = fu; co_force_wait(a); W_SENTINELS; }
#endif
#ifdef CV_HAS_fu_wait
cv_i32 *fu_wait(FUT *this_)
__CPROVER_requires(W_PRE && this_ == gh_w_fut) W_ASSIGNS
W_ONCE(1, 0)
W_OWNER
W_NOT_EARLY
W_INTACT
W_NOALLOC
W_OUT_VALUE
W_OUT_EXCEPTION
W_OUT_DROPPED
;
void h_fu_wait(void) { W_HARNESS_SETUP; fu_wait(fu); W_SENTINELS; }
#endif
#ifdef CV_HAS_fu_force_wait
cv_i32 *fu_force_wait(FUT *this_)
__CPROVER_requires(W_PRE && this_ == gh_w_fut) W_ASSIGNS
W_ONCE(0, 1)
W_OWNER
W_NOT_EARLY
W_INTACT
W_NOALLOC
W_OUT_VALUE
W_OUT_EXCEPTION
W_OUT_DROPPED
;
void h_fu_force_wait(void) { W_HARNESS_SETUP; fu_force_wait(fu); W_SENTINELS; }
#endif
#ifdef CV_HAS_fu_sync
void fu_sync(FUT *this_)
__CPROVER_requires(W_PRE && this_ == gh_w_fut) W_ASSIGNS
W_ONCE(1, 0)
W_OWNER
W_NOT_EARLY
W_INTACT
W_NOALLOC
W_SILENT
;
void h_fu_sync(void) { W_HARNESS_SETUP; fu_sync(fu); W_SENTINELS; }
#endif
#ifdef CV_HAS_fu_force_sync
void fu_force_sync(FUT *this_)
__CPROVER_requires(W_PRE && this_ == gh_w_fut) W_ASSIGNS
W_ONCE(0, 1)
W_OWNER
W_NOT_EARLY
W_INTACT
W_NOALLOC
W_SILENT
;
void h_fu_force_sync(void) { W_HARNESS_SETUP; fu_force_sync(fu); W_SENTINELS; }
#endif

/* ---- future<void>::has_value() const (+ the inherited constructor awaitable_bool::co_awaiter(future<void>&)): hands out the has_value() waiter.
 * Handing it out neither blocks nor touches the future (co_await f.has_value() must SUSPEND the coroutine, not block the thread); the waiter is
 * bound to THIS future and its node is fresh: not linked into any chain.  What the waiter then
 * does is await_ready / await_suspend / await_resume / operator bool (units ab_ready, ab_bool, co_await_suspend here; ab_resume in C01). */
#ifdef CV_HAS_fv_has_value
int gh_hv_sync_calls;
#ifdef CV_HAS_hv_sync_stub
void hv_sync_stub(void *a) { gh_hv_sync_calls++; }
#endif
#ifdef CV_HAS_hv_fsync_stub
void hv_fsync_stub(void *a) { gh_hv_sync_calls++; }
#endif
#ifdef CV_HAS_hv_fusync_stub
void hv_fusync_stub(void *a) { gh_hv_sync_calls++; }
#endif
#ifdef CV_HAS_hv_fufsync_stub
void hv_fufsync_stub(void *a) { gh_hv_sync_calls++; }
#endif
void fv_has_value(ABOOLV *ret, FUTV *this_)
__CPROVER_requires(cv_exc_pending == 0 && gh_hv_sync_calls == 0 && __CPROVER_is_fresh(ret, sizeof(*ret)) && __CPROVER_is_fresh(this_, sizeof(*this_)))
__CPROVER_assigns(__CPROVER_object_whole(ret), gh_hv_sync_calls)                                    /* the future itself is not written */
__CPROVER_ensures(cv_exc_pending == 0 && gh_hv_sync_calls == 0)                                     /* does not block */
__CPROVER_ensures((FUTV *)ret->base_co_awaiter._owner == this_)                                     /* the waiter waits on THIS future */
__CPROVER_ensures(ret->base_co_awaiter.base_awaiter._next == 0)                                   /* fresh node: not linked into any chain (what await_suspend / subscribe_check_ready require of "my node") */
__CPROVER_ensures(gh_allocs == __CPROVER_old(gh_allocs))
;
void h_fv_has_value(void) { ABOOLV *r; FUTV *f; fv_has_value(r, f); __CPROVER_assert(0, "SENTINEL reachable"); }
#endif

/* ---- has_value() used as a plain question on a RESOLVED future<void> (f.has_value().await_resume(), what co_await f.has_value() evaluates to after the
 * release): the waiter handed out by has_value() observes the complete result - true for a value or an exception, false for a dropped promise -
 * and neither blocks nor changes the future.  (await_resume alone: unit v_ab_resume of C01.) */
#ifdef CV_HAS_fv_has_value_resume
cv_i1 fv_has_value_resume(FUTV *f)
__CPROVER_requires(cv_exc_pending == 0 && __CPROVER_is_fresh(f, sizeof(*f)) && (F_STATE(f) == ST_NOT_VALUE || F_STATE(f) == ST_VALUE || F_STATE(f) == ST_EXCEPTION) && F_SLOTW(f) == (void *)AW_DISABLED)
__CPROVER_assigns()
__CPROVER_ensures(cv_exc_pending == 0 && __CPROVER_return_value == (F_STATE(f) != ST_NOT_VALUE ? 1 : 0))
__CPROVER_ensures(gh_allocs == __CPROVER_old(gh_allocs))
;
void h_fv_has_value_resume(void) { FUTV *f; cv_i1 r = fv_has_value_resume(f); if (r) __CPROVER_assert(0, "SENTINEL reachable: has a value or an exception"); else __CPROVER_assert(0, "SENTINEL reachable: dropped"); }
#endif
