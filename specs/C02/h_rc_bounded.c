/* B resume_chain_lk - bounded stand-in (DESIGN 3.7: list-shaped traversals are not provable with the installed solvers).
 * Lists of 0..RC_N nodes of mixed kind (coroutine awaiter: _resume_fn == NULL, handle = a distinct token; callback awaiter: _resume_fn =
 * rc_cb).  The callback RELEASES its node (free): after an awaiter has been resumed its owner may destroy it at once (a sync_awaiter
 * lives on the stack of the waiting thread), so any later access by the walk is a use-after-free found by CBMC's pointer checks.
 * Checked: every node resumed exactly once; _next read before the node is resumed; nothing of a node touched afterwards; the returned
 * suspend point holds exactly the handles of the coroutine nodes, in chain order. */
#ifndef RC_N
#define RC_N 4
#endif
static AWT *rcn[RC_N]; static int rc_cb_calls[RC_N]; static cv_i8 rc_tok[RC_N + 1];
void rc_cb(SP *ret, AWT *me, cv_i8 *ctx) {
  for (int i = 0; i < RC_N; i++) if (rcn[i] == me) { rc_cb_calls[i]++; __CPROVER_assert(ctx == &rc_tok[i], "callback awaiter resumed with its own context"); }
  free(me);
  ret->_count_flag = 0; }
#define CV_ICALL_EXTRA_v_ppp(p, a0, a1, a2) if ((p) == (void *)rc_cb) { rc_cb((SP *)(a0), (AWT *)(a1), (cv_i8 *)(a2)); return; }
/* suspend_point::operator<<(suspend_point&&) is an abstract callee in this unit: it appends the (inline) source's handles to a ghost
 * sequence - exactly its contract proved in C06 (position-wise append, source emptied) on an abstract view. */
static cv_i8 *rc_log[RC_N + 1]; static unsigned rc_nlog;
SP *sp_merge(SP *this_, SP *other) {
  __CPROVER_assert(!(other->_count_flag & 1) && (other->_count_flag >> 1) <= 1, "resume() of one awaiter yields at most one inline handle (model bound of this unit)");
  if ((other->_count_flag >> 1) == 1) { __CPROVER_assert(rc_nlog < RC_N, "log bound"); rc_log[rc_nlog++] = other->f0.f0._handles[0]; }
  other->_count_flag = 0; return this_; }
#define SPH(p, i) (((p)->_count_flag & 1) ? ((EXT *)&(p)->f0)->_handles[i] : (p)->f0.f0._handles[i])
void h_rc_bounded(void) {
  cv_exc_pending = 0; rc_nlog = 0;
  unsigned k = nondet_unsigned(); __CPROVER_assume(k <= RC_N);
  _Bool is_cb[RC_N];
  for (unsigned i = 0; i < RC_N; i++) if (i < k) { rcn[i] = malloc(sizeof(AWT)); __CPROVER_assume(rcn[i] != 0); rc_cb_calls[i] = 0; }
  for (unsigned i = 0; i < RC_N; i++) if (i < k) {
    rcn[i]->_next = (i + 1 < k) ? rcn[i + 1] : (AWT *)0;
    rcn[i]->_handle_addr = &rc_tok[i];
    rcn[i]->_resume_fn = is_cb[i] ? rc_cb : 0; }
  SP ret;
  aw_resume_chain_lk(&ret, k > 0 ? rcn[0] : (AWT *)0);
  __CPROVER_assert(cv_exc_pending == 0, "no exception");
  unsigned n_coro = 0;
  for (unsigned i = 0; i < RC_N; i++) if (i < k) {
    if (is_cb[i]) __CPROVER_assert(rc_cb_calls[i] == 1, "callback awaiter resumed exactly once");
    else { __CPROVER_assert(n_coro < rc_nlog && rc_log[n_coro] == &rc_tok[i], "coroutine handles are merged into the returned suspend point, in chain order"); n_coro++; } }
  __CPROVER_assert(rc_nlog == n_coro, "exactly the coroutine waiters are merged into the returned suspend point (none lost, none duplicated)");
  __CPROVER_assert(ret._count_flag == 0, "nothing but merges touches the returned suspend point");
  __CPROVER_assert(0, "SENTINEL reachable");
}
