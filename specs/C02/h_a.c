#define REG_SLOT(c) gh_INSTANCE = (void *)AW_INSTANCE; gh_DISABLED = (void *)AW_DISABLED; gh_P_cell = 0; ATOMAW *c = malloc(sizeof(ATOMAW)); __CPROVER_assume(c != 0); gh_F_slot = (void **)&c->_M_b._M_p
#define REG_NODE(n) AWT *n = malloc(sizeof(AWT)); __CPROVER_assume(n != 0); gh_my_node = n; gh_node_own = OWN_ME
#ifdef CV_HAS_aw_subscribe_check_ready
void h_subscribe_check_ready(void) { REG_SLOT(c); REG_NODE(n); cv_i1 r = aw_subscribe_check_ready(n, c, (AWT *)AW_DISABLED); if (r) __CPROVER_assert(0, "SENTINEL reachable: subscribed"); else __CPROVER_assert(0, "SENTINEL reachable: refused (already resolved)"); }
#endif
#ifdef CV_HAS_aw_resume_chain_set_ready
void h_resume_chain_set_ready(void) { REG_SLOT(c); SP *r; aw_resume_chain_set_ready(r, c, (AWT *)AW_DISABLED); __CPROVER_assert(0, "SENTINEL reachable"); }
#endif
#ifdef CV_HAS_fu_resolve
void h_fu_resolve(void) { gh_INSTANCE = (void *)AW_INSTANCE; gh_DISABLED = (void *)AW_DISABLED; gh_P_cell = 0; FUT *fu = malloc(sizeof(FUT)); __CPROVER_assume(fu != 0); gh_F_fut = fu; gh_F_slot = (void **)&fu->base_future_common._awaiter._M_b._M_p;
  SP *r; fu_resolve(r, fu); __CPROVER_assert(0, "SENTINEL reachable"); }
#endif
#ifdef CV_HAS_aw_resume
void h_resume(void) { SP *r; AWT *a; aw_resume(r, a); __CPROVER_assert(0, "SENTINEL reachable"); }
#endif
#define REG_COAW(a) gh_INSTANCE = (void *)AW_INSTANCE; gh_DISABLED = (void *)AW_DISABLED; gh_P_cell = 0; FUT *fu = malloc(sizeof(FUT)); __CPROVER_assume(fu != 0); \
   COAW *a = malloc(sizeof(COAW)); __CPROVER_assume(a != 0); a->_owner = fu; gh_F_fut = fu; gh_F_slot = (void **)&fu->base_future_common._awaiter._M_b._M_p
#ifdef CV_HAS_co_await_ready
void h_co_await_ready(void) { REG_COAW(a); co_await_ready(a); __CPROVER_assert(0, "SENTINEL reachable"); }
#endif
#ifdef CV_HAS_co_await_suspend
void h_co_await_suspend(void) { REG_COAW(a); gh_my_node = CO_NODE(a); gh_node_own = OWN_ME; cv_i8 *h; cv_i1 r = co_await_suspend(a, h); if (r) __CPROVER_assert(0, "SENTINEL reachable: suspended"); else __CPROVER_assert(0, "SENTINEL reachable: not suspended"); }
#endif
#ifdef CV_HAS_co_await_suspend_fn
void h_co_await_suspend_fn(void) { REG_COAW(a); gh_my_node = CO_NODE(a); gh_node_own = OWN_ME; void (*fn)(SP *, AWT *, cv_i8 *); cv_i8 *c; co_await_suspend_fn(a, fn, c); __CPROVER_assert(0, "SENTINEL reachable"); }
#endif
#ifdef CV_HAS_co_sync
void h_co_sync(void) { REG_COAW(a); gh_my_node = 0; gh_node_own = OWN_NONE; co_sync(a); if (gh_wait_calls) __CPROVER_assert(0, "SENTINEL reachable: blocked and woken"); else __CPROVER_assert(0, "SENTINEL reachable: already resolved"); }
#endif
#ifdef CV_HAS_co_force_sync
void h_co_force_sync(void) { REG_COAW(a); gh_my_node = 0; gh_node_own = OWN_NONE; co_force_sync(a); __CPROVER_assert(0, "SENTINEL reachable"); }
#endif
#ifdef CV_HAS_sa_wakeup
void h_sa_wakeup(void) { gh_P_cell = 0; gh_F_slot = 0; SYNCAW *s = malloc(sizeof(SYNCAW)); __CPROVER_assume(s != 0); gh_W_flag = (cv_i8 *)&s->flag; sa_wakeup(s); __CPROVER_assert(0, "SENTINEL reachable"); }
#endif
#ifdef CV_HAS_co_await_resume
void h_co_await_resume(void) { REG_COAW(a); co_await_resume(a); __CPROVER_assert(0, "SENTINEL reachable"); }
#endif
#define REG_FUT_E2E(fu) gh_INSTANCE = (void *)AW_INSTANCE; gh_DISABLED = (void *)AW_DISABLED; gh_P_cell = 0; FUT *fu = malloc(sizeof(FUT)); __CPROVER_assume(fu != 0); gh_F_fut = fu; gh_F_slot = (void **)&fu->base_future_common._awaiter._M_b._M_p; \
   gh_my_node = 0; gh_node_own = OWN_NONE; cv_i8 *eo = __cxa_allocate_exception(8); if (fu->base_future_common._state == 3) *(void **)&fu->f1 = eo
#define E2E_SENTINELS(fu) if (gh_wait_calls) __CPROVER_assert(0, "SENTINEL reachable: blocked and woken"); else __CPROVER_assert(0, "SENTINEL reachable: already resolved"); \
   if (fu->base_future_common._state == 1) __CPROVER_assert(0, "SENTINEL reachable: outcome value"); else __CPROVER_assert(0, "SENTINEL reachable: outcome exception")
#ifdef CV_HAS_fu_wait_e2e
void h_fu_wait_e2e(void) { REG_FUT_E2E(fu); fu_wait_e2e(fu); E2E_SENTINELS(fu); }
#endif
#ifdef CV_HAS_fu_force_wait_e2e
void h_fu_force_wait_e2e(void) { REG_FUT_E2E(fu); fu_force_wait_e2e(fu); E2E_SENTINELS(fu); }
#endif
