# C03 - Cross-thread operations are data-race free and publish results safely.
# Decided as the set of visibility (release/acquire) and permission (token / lock held) obligations at the anchored sites.  The units are
# the thread-modular units of C01, C02, C07 (protocols F and M), the reusable_storage_mtsafe units of C19 and the lock-based units of
# C09-C12/C16 - re-run here with the C03 obligations compiled in (define CV_CHECK_C03, opt-in lock clauses, permission instrumentation).
import importlib.util as _ilu, os as _os, copy as _copy
_here = _os.path.dirname(_os.path.dirname(_os.path.abspath(__file__)))
_os.environ['C16_LOCKCHECK_POSITION'] = '1'; _os.environ['C11_LOCKCHECK_AWAIT_READY'] = '1'
def _load(p):
    s = _ilu.spec_from_file_location('c03_' + p, _os.path.join(_here, p, 'units.py')); m = _ilu.module_from_spec(s); s.loader.exec_module(m); return m
def _take(p, names, extra_defines=(), tiers=None, **kw):
    m = _load(p); out = []
    for u in m.UNITS:
        if names is not None and u['name'] not in names: continue
        if names is None and u.get('kind') == 'bounded': continue
        v = _copy.deepcopy(u); v['name'] = '%s_%s' % (p, u['name']); v['defines'] = list(u.get('defines', [])) + ['CV_CHECK_C03 1'] + list(extra_defines)
        if tiers: v['tiers'] = tiers
        v.update(kw); out.append(v)
    return out
UNITS = []
# protocol F: payload published by the resolving exchange (release), acquired by ready()/failed subscribe (+fence)/wake-up flag; node fields
# published by the subscribing CAS (release) and acquired by the detaching exchange
UNITS += _take('C01', ['set_value', 'set_drop', 'set_exc', 'dtor', 'ready', 'get_promise'])
UNITS += _take('C02', ['subscribe_check_ready', 'resume_chain_set_ready', 'co_await_ready', 'co_await_suspend', 'co_await_suspend_fn', 'co_sync', 'co_force_sync', 'sa_wakeup'])
# protocol M: critical-section data released by the unlocking CAS, acquired by try-lock CAS / the detaching exchange; request nodes
UNITS += _take('C07', ['ready', 'subscribe', 'unlock_rel', 'unlock_del'])
# reusable_storage_mtsafe: the busy flag hands the block over; its bookkeeping may only be touched by the holder
_PERM = {'cocls::reusable_storage._ptr': 'CV_PERM_RS_BLOCK', 'cocls::reusable_storage._capacity': 'CV_PERM_RS_BLOCK'}
UNITS += _take('C19', ['mt_alloc_tm_flag', 'mt_alloc_tm_grown', 'mt_dealloc_tm'], perms=_PERM)
# lock discipline of the lock-based objects (guarded members only while the mutex is held; accessors included)
UNITS += _take('C16', ['q_position', 'q_push', 'q_close', 'q_advance', 'q_subscribe', 'q_leave', 'q_kick', 'push_lk', 'push_lk_bounded'])
UNITS += _take('C11', ['cur_await_ready', 'is_stopped', 'any_enqueued', 'enqueue', 'worker', 'stop'])
UNITS += _take('C09', ['qi_push', 'qi_pop', 'qi_unblock_pop', 'qi_size', 'qi_empty', 'qv_push', 'qv_pop'])
UNITS += _take('C10', ['lq_push', 'lq_pop', 'lq_unblock_push', 'lq_size', 'lq_empty'])
UNITS += _take('C12', ['schedule', 'get_expired', 'remove', 'interval_stop_cb', 'start_future'])
# a callback awaiter that is still written after the CAS that publishes it races with the resolving thread that walks the chain: shared_future's
# resolve tracer (C17 unit `charge`: the self-reference is stored BEFORE the tracer is subscribed - seeded change C03-4)
UNITS += _take('C17', ['charge'])
# thorough: every remaining non-bounded unit of the lock-based properties
for _p in ('C09', 'C10', 'C11', 'C12', 'C16'):
    _have = set(u['name'] for u in UNITS)
    UNITS += [u for u in _take(_p, None, tiers=['thorough']) if u['name'] not in _have]
META = dict(
    level='proof',
    level_text="Visibility and permission obligations, machine-checked in every thread-modular unit of protocols F (future/promise/awaiter) and M (coroutine mutex), in the thread-modular units of reusable_storage_mtsafe, and lock-discipline obligations in the lock-based objects: (F) the exchange that marks a future ready must carry release (payload written before it) and acquire (node fields of detached waiters); ready() / a refused subscribe (relaxed failure load + acquire fence) / the wake-up flag of a blocked waiter put the payload into the reader\\'s view before value() may be read; the subscribing CAS must be release; (M) try-lock CAS acquires, the unlocking CAS releases, the detaching exchange acquires (release sequence headed by the unlocking CAS), the request CAS releases, a published request is never looked at again; (storage) busy-flag exchange acquires, the clearing store releases, block bookkeeping is touched only by the holder (permission instrumentation of every plain load/store of _ptr/_capacity); (locks) guarded members of queue / limited_queue / thread_pool / scheduler / publisher are touched only while the std::mutex is held, including accessors (size, empty, position, is_stopped, current_awaiter::await_ready), no recursive locking. Memory orders are read from the LLVM IR of the real headers (cmpxchg/atomicrmw/load atomic/store atomic/fence operands).",
    level_note='This is the set of obligations at the listed sites, not a whole-program race detector: accesses in user code, inside libstdc++, and in functions outside the listed units are not looked at. The ghost visibility model is a token-set simplification of release/acquire C++ (consume = acquire, seq_cst = acq_rel; no proof needs a total order across locations). Trusted: the protocol primitives and their rely, rely/guarantee soundness, clang front end, ir2c. Replay of such obligations is by ThreadSanitizer on real threads (replay/c03_*.cpp); where TSan cannot be made to fire the violation is reported with no-failing-input-found.',
    technique='CBMC code contracts via goto-instrument --dfcc on the C translation of clang IR; atomic instructions replaced by rely/guarantee primitives that carry the IR memory orders and a ghost release/acquire view; lock / ownership discipline by assertions in the std::mutex primitive, container models and ir2c permission instrumentation',
    trusted_base=['protocol primitives lib/rt_atomic_protF.c, lib/rt_atomic_protM.c, specs/C19/c19_atomics.h', 'std::mutex primitive lib/model_mutex.c and the container models of C09-C12/C16 (lock-held assertions)', 'ir2c permission instrumentation (perms)'],
    assumptions=['release/acquire fragment only; token-set visibility model (DESIGN 3.3)', 'rely/guarantee soundness (argued)', 'sites outside the listed units are not covered'],
    explanation='see level_text')
