/* C13 drives: std::atomic<cocls::awaiter*> (future::_awaiter) and std::atomic<cocls::future<int>*> (promise::_owner) read
 * sequentially at member-function level (lib/model_atomic_ptr_api.c explains why). */
#ifdef CV_HAS_ap_aw_load
CV_AP_LOAD(ap_aw_load, ATOM_AW, AWT)
#endif
#ifdef CV_HAS_ap_aw_xchg
CV_AP_XCHG(ap_aw_xchg, ATOM_AW, AWT)
#endif
#ifdef CV_HAS_ap_aw_cas
CV_AP_CAS(ap_aw_cas, ATOM_AW, AWT)
#endif
#ifdef CV_HAS_ap_fu_load
CV_AP_LOAD(ap_fu_load, ATOM_FU, FUT)
#endif
#ifdef CV_HAS_ap_fu_xchg
CV_AP_XCHG(ap_fu_xchg, ATOM_FU, FUT)
#endif
#ifdef CV_HAS_ap_fu_assign
CV_AP_ASSIGN(ap_fu_assign, ATOM_FU, FUT)
#endif
