/* C13 (+C20 no allocation) - contracts on the record-keeping functions of cocls::generator<int, Arg> (src/cocls/generator.h) and
 * cocls::generator_iterator (src/cocls/iterator.h).  One spec text serves both instantiations: a unit maps the aliases
 * PT / GEN / NAWT / YS / YN / ITER / DEL onto generator<int,void> or generator<int,int>.
 *
 * The hand-over record between consumer and body is promise_type { _caller, _internal, _arg, _ret, _exp, _done, _block, _awaiting }.
 * Statements taken from the property:
 *   R1  at most one asker at a time: _caller is set exactly while a request is outstanding (idle <=> _caller == NULL);
 *   R2  a yield (or the end / an escaping exception) resumes exactly the party that asked, exactly once, and clears the request first;
 *   R3  value() returns the object of the last co_yield, or rethrows the stored exception;
 *   R4  unblock_future maps done / exception / value to drop / that exception / that value on the promise of the pending call;
 *   R5  the argument pointer the body sees is the one installed by the call that resumed it;
 *   R6  next_sync returns only after the body has handed back (_block);
 *   R7  the stepping functions never allocate (gh_allocs unchanged; C20).
 * Coroutine resumption / destruction, resumption of the asking awaiter, promise resolution, atomic<bool>::wait/notify_all and the
 * neighbouring members are ABSTRACT CALLEES here: stub bodies that record (count, arguments, record state at the instant of the call)
 * in ghost state and produce an arbitrary admissible result.  The coroutine frame is laid out as the ABI has it: two pointers (resume,
 * destroy) followed by the promise; a NULL resume slot means "suspended at the final suspend point" (coroutine_handle::done()). */
struct cv_gframe { void *resume_slot; void *destroy_slot; PT prom; };
#define FRAME_OF(p) ((cv_i8 *)(p) - 16)
#define FRAME_DONE(p) (*(void **)FRAME_OF(p) == 0)
#define GEN_P(g) (*(PT **)&(g)->_promise)                         /* unique_ptr<promise_type, deleter>: exactly one pointer */
#define NAWT_OWNER(n) (*(GEN **)((cv_i8 *)(n) + sizeof(AWT)))      /* next_awt : awaiter { generator &_owner; mutable bool _state; } */
#define NAWT_STATE(n) (*((cv_i8 *)(n) + sizeof(AWT) + 8))
#define YS_P(y) (*(PT **)(y))                                       /* yield_suspend : suspend_always { promise_type *p; } */
#define EXC_OBJ(e) ((e)._M_exception_object)
#define OWNER_OF(pr) ((pr)->_owner._M_b._M_p)                       /* promise<int>::_owner */
#define BLOCK_OF(p) (*(cv_i8 *)&(p)->_block)
#define G_PRE (cv_exc_pending == 0)
#define NOOPH ((cv_i8 *)NOOP_FRAME)
#define SP_COUNT(sp) ((sp)->_count_flag >> 1)
#define SP_H(sp, i) ((sp)->f0.f0._handles[i])
/* value type / argument type of the instantiation under test: int unless the unit says otherwise (CV_VAL_MV / CV_ARG_MV: the unit
 * typedefs VAL / ARGT to c13_mv of drivers/c13_types.cpp - a type whose MOVE empties and flags its source while its COPY leaves it alone) */
#ifndef CV_VAL_MV
typedef cv_i32 VAL;
#define VAL_IS(v, pay) (*(v) == (pay))
#define VAL_TRIVIAL 1
#else
#define VAL_IS(v, pay) ((v)->payload == (pay) && (v)->moved_from == 0)        /* holds the value AND has not been moved from */
#define VAL_TRIVIAL 0
#endif
#ifndef CV_ARG_MV
typedef cv_i32 ARGT;
#endif
VAL *gh_val; cv_i32 gh_val_pay;  /* the object of the last co_yield (harness-allocated where a unit needs to look into it) and its payload at entry (logical variable) */
PT *gh_pt;                      /* the promise under test: lives in a struct cv_gframe allocated by the harness */
GEN *gh_gen;                    /* the generator object owning it (harness-allocated, GEN_P(gh_gen) == gh_pt) */

/* ---------------------------------------------------------------------------------------------- abstract callees (recording stubs) */
/* coroutine_handle<promise_type>::resume(): the body runs.  Records the call and the record state at that instant; then the body either
 * hands back synchronously (what yield_suspend::await_suspend + the asker's resume function do, by their contracts: request cleared,
 * argument cleared, _block set / pending promise resolved) or stays suspended on something else (nondeterministic). */
int gh_res_calls; void *gh_res_frame; void *gh_res_caller; void *gh_res_int_fn; void *gh_res_int_ctx; cv_i8 gh_res_block; void *gh_res_awaiting; int gh_res_handed_back;
#ifdef CV_HAS_chpt_resume
void chpt_resume(CHPT *h) {
  gh_res_calls++; gh_res_frame = *(void **)h;
  gh_res_caller = gh_pt->_caller; gh_res_int_fn = (void *)gh_pt->_internal.base_awaiter._resume_fn; gh_res_int_ctx = gh_pt->_internal.base_awaiter._handle_addr;
  gh_res_block = BLOCK_OF(gh_pt); gh_res_awaiting = (void *)OWNER_OF(&gh_pt->_awaiting);
  if (nondet_bool()) { gh_res_handed_back = 1; gh_pt->_caller = 0; gh_pt->_arg = 0;
#ifdef CV_HAS_RESUME_FN_SYNC
    BLOCK_OF(gh_pt) = 1;
#else
    OWNER_OF(&gh_pt->_awaiting) = 0;
#endif
  } }
#endif
/* std::atomic<bool>::wait(old, order): returns only when the value differs from old.  If it still equals old the thread blocks until
 * ANOTHER thread completes the step (environment: the body hands back there - same effects as above). */
int gh_wait_calls; int gh_wait_after_resume; cv_i32 gh_wait_order; cv_i1 gh_wait_old; void *gh_wait_flag;
#ifdef CV_HAS_ab_wait
void ab_wait(ATOMB *flag, cv_i1 old, cv_i32 order) { gh_wait_calls++; gh_wait_after_resume = gh_res_calls; gh_wait_order = order; gh_wait_old = old; gh_wait_flag = flag;
  if ((*(cv_i8 *)flag & 1) == old) { *(cv_i8 *)flag = !old; if ((void *)flag == (void *)&gh_pt->_block) { gh_pt->_caller = 0; gh_pt->_arg = 0; } } }
#endif
int gh_notify_calls; cv_i8 gh_notify_value;
#ifdef CV_HAS_ab_notify
void ab_notify(ATOMB *flag) { gh_notify_calls++; gh_notify_value = *(cv_i8 *)flag; }
#endif
/* awaiter::resume() of the asker: arbitrary result (0..3 ready coroutine handles, inline representation) */
int gh_awr_calls; void *gh_awr_this; void *gh_awr_caller_then; void *gh_awr_arg_then; cv_i32 gh_awr_count; cv_i8 *gh_awr_h[3];
#ifdef CV_HAS_aw_resume
void aw_resume(SP *ret, AWT *this_) { gh_awr_calls++; gh_awr_this = this_; gh_awr_caller_then = gh_pt->_caller; gh_awr_arg_then = (void *)gh_pt->_arg;
  ret->_count_flag = gh_awr_count << 1; SP_H(ret, 0) = gh_awr_h[0]; SP_H(ret, 1) = gh_awr_h[1]; SP_H(ret, 2) = gh_awr_h[2]; }
#endif
/* suspend_point<void>::suspend_now(): hands every remaining handle to the scheduler (contract proved in C05/C06) and empties the object */
int gh_sn_calls; cv_i32 gh_sn_count; cv_i8 *gh_sn_h[3];
#ifdef CV_HAS_sp_suspend_now
void sp_suspend_now(SP *sp) { gh_sn_calls++; gh_sn_count = SP_COUNT(sp); gh_sn_h[0] = SP_H(sp, 0); gh_sn_h[1] = SP_H(sp, 1); gh_sn_h[2] = SP_H(sp, 2); sp->_count_flag = 0; }
#endif
/* promise<int>::operator()(drop | exception_ptr & | int &): resolves the future of the pending call; arbitrary result (0..1 handle) */
enum { PC_NONE = 0, PC_DROP = 1, PC_EXC = 2, PC_VAL = 3, PC_RVAL = 4 };
int gh_pc_calls; int gh_pc_kind; void *gh_pc_this; void *gh_pc_arg; cv_i32 gh_pc_count; cv_i8 *gh_pc_h;
cv_i8 gh_pc_done_then;          /* the end marker of the record the promise is parked in (_awaiting), at the instant of the resolution */
#define PC_STUB(kind, arg) gh_pc_calls++; gh_pc_kind = (kind); gh_pc_this = p; gh_pc_arg = (void *)(arg); OWNER_OF(p) = 0; \
  gh_pc_done_then = ((PT *)((cv_i8 *)p - __builtin_offsetof(PT, _awaiting)))->_done; \
  ret->base_suspend_point._count_flag = gh_pc_count << 1; ((SP *)ret)->f0.f0._handles[0] = gh_pc_h; ret->value = 1;
#ifdef CV_HAS_pr_call_drop
void pr_call_drop(SPB *ret, PROM *p, cv_i32 *tag) { PC_STUB(PC_DROP, 0) }
#endif
#ifdef CV_HAS_pr_call_exc
void pr_call_exc(SPB *ret, PROM *p, EXCP *e) { PC_STUB(PC_EXC, e) }
#endif
/* what the abstract promise does with the value it is called with (future.h: `new(&_value) value_type(std::forward<Args>(args)...)`):
 * the value of the consumer's future is CONSTRUCTED from the argument - by the real copy constructor from an lvalue, by the real move
 * constructor from an rvalue (translated from drivers/c13_types.cpp); gh_fut_val is that value. */
#ifdef CV_VAL_MV
VAL gh_fut_val;
#define FUT_COPY(v) mv_copy(&gh_fut_val, (v));
#define FUT_MOVE(v) mv_move(&gh_fut_val, (v));
#define FUT_VAL_GHOST gh_fut_val,
#else
#define FUT_COPY(v)
#define FUT_MOVE(v)
#define FUT_VAL_GHOST
#endif
#ifdef CV_HAS_pr_call_val
void pr_call_val(SPB *ret, PROM *p, VAL *v) { PC_STUB(PC_VAL, v) FUT_COPY(v) }
#endif
#ifdef CV_HAS_pr_call_rval
void pr_call_rval(SPB *ret, PROM *p, VAL *v) { PC_STUB(PC_RVAL, v) FUT_MOVE(v) }
#endif
/* neighbouring members used as abstract callees in forwarder units */
int gh_ubf_calls; void *gh_ubf_this; cv_i32 gh_ubf_count; cv_i8 *gh_ubf_h;
#ifdef CV_HAS_pt_unblock_future_stub
void pt_unblock_future_stub(SP *ret, PT *p) { gh_ubf_calls++; gh_ubf_this = p; ret->_count_flag = gh_ubf_count << 1; SP_H(ret, 0) = gh_ubf_h; }
#endif
int gh_ns_calls; void *gh_ns_this; int gh_ns_throws; cv_i8 gh_ns_done_after;
#ifdef CV_HAS_pt_next_sync_stub
void pt_next_sync_stub(PT *p) { gh_ns_calls++; gh_ns_this = p; if (gh_ns_throws) { cv_exc_pending = 1; cv_exc_obj = 0; cv_exc_tinfo = (void *)TI_NO_MORE_VALUES; } else p->_done = gh_ns_done_after; }
#endif
int gh_na_calls; void *gh_na_this; void *gh_na_caller; int gh_na_throws; cv_i8 *gh_na_result; void *gh_na_fn_then; void *gh_na_h_then;
#ifdef CV_HAS_pt_next_async_stub
cv_i8 *pt_next_async_stub(PT *p, AWT *caller) { gh_na_calls++; gh_na_this = p; gh_na_caller = caller; gh_na_fn_then = (void *)caller->_resume_fn; gh_na_h_then = caller->_handle_addr;
  if (gh_na_throws) { cv_exc_pending = 1; cv_exc_obj = 0; cv_exc_tinfo = (void *)TI_NO_MORE_VALUES; return 0; } return gh_na_result; }
#endif
int gh_chv_calls; void *gh_chv_frame; int gh_chv_after_na;
#ifdef CV_HAS_chv_resume
void chv_resume(CH *h) { gh_chv_calls++; gh_chv_frame = *(void **)h; gh_chv_after_na = gh_na_calls; }
#endif
int gh_nf_calls; void *gh_nf_ret; void *gh_nf_this; void *gh_nf_arg_then;
#ifdef CV_HAS_pt_next_future_stub
void pt_next_future_stub(FUT *ret, PT *p) { gh_nf_calls++; gh_nf_ret = ret; gh_nf_this = p; gh_nf_arg_then = (void *)p->_arg; }
#endif
int gh_nb_calls; void *gh_nb_owner; cv_i8 gh_nb_state_then; cv_i1 gh_nb_result; int gh_nb_throws; int gh_nb_after_value;
int gh_gv_calls; void *gh_gv_this; VAL *gh_gv_result; int gh_gv_throws;
#ifdef CV_HAS_na_bool_stub
cv_i1 na_bool_stub(NAWT *n) { gh_nb_calls++; gh_nb_owner = NAWT_OWNER(n); gh_nb_state_then = NAWT_STATE(n); gh_nb_after_value = gh_gv_calls;
  if (gh_nb_throws) { cv_exc_pending = 1; cv_exc_obj = 0; cv_exc_tinfo = (void *)TI_NO_MORE_VALUES; return 0; } return gh_nb_result; }
#endif
#ifdef CV_HAS_gen_value_stub
VAL *gen_value_stub(GEN *g) { gh_gv_calls++; gh_gv_this = g; if (gh_gv_throws) { cv_exc_pending = 1; cv_exc_obj = 0; cv_exc_tinfo = 0; return 0; } return gh_gv_result; }
#endif
int gh_destroy_calls; void *gh_destroy_frame;
#ifdef CV_HAS_chpt_destroy
void chpt_destroy(CHPT *h) { gh_destroy_calls++; gh_destroy_frame = *(void **)h; }
#endif
int gh_lam_calls; void *gh_lam_this; void *gh_lam_owner_then; int gh_lam_throws;
#ifdef CV_HAS_nf_lambda_stub
void nf_lambda_stub(NF_LAM *l, PROM *p) { gh_lam_calls++; gh_lam_this = *(void **)l; gh_lam_owner_then = (void *)OWNER_OF(p);
  if (gh_lam_throws) { cv_exc_pending = 1; cv_exc_obj = 0; cv_exc_tinfo = (void *)TI_NO_MORE_VALUES; } else OWNER_OF(p) = 0; /* the promise is moved into the record */ }
#endif
int gh_pd_calls; void *gh_pd_owner_then;
#ifdef CV_HAS_pr_dtor_stub
void pr_dtor_stub(PROM *p) { gh_pd_calls++; gh_pd_owner_then = (void *)OWNER_OF(p); }
#endif
#define STUB_GHOSTS gh_res_calls, gh_res_frame, gh_res_caller, gh_res_int_fn, gh_res_int_ctx, gh_res_block, gh_res_awaiting, gh_res_handed_back, gh_wait_calls, gh_wait_after_resume, gh_wait_order, gh_wait_old, gh_wait_flag, \
  gh_notify_calls, gh_notify_value, gh_awr_calls, gh_awr_this, gh_awr_caller_then, gh_awr_arg_then, gh_sn_calls, gh_sn_count, gh_sn_h, gh_pc_calls, gh_pc_kind, gh_pc_this, gh_pc_arg, gh_pc_done_then, \
  gh_ubf_calls, gh_ubf_this, FUT_VAL_GHOST gh_ns_calls, gh_ns_this, gh_na_calls, gh_na_this, gh_na_caller, gh_na_fn_then, gh_na_h_then, gh_chv_calls, gh_chv_frame, gh_chv_after_na, gh_nf_calls, gh_nf_ret, gh_nf_this, gh_nf_arg_then, \
  gh_nb_calls, gh_nb_owner, gh_nb_state_then, gh_nb_after_value, gh_gv_calls, gh_gv_this, gh_destroy_calls, gh_destroy_frame, gh_lam_calls, gh_lam_this, gh_lam_owner_then, gh_pd_calls, gh_pd_owner_then, \
  gh_ap_ops, gh_ep_addref, gh_ep_release, cv_exc_pending, cv_exc_obj, cv_exc_tinfo
#define STUBS_FRESH (gh_res_calls == 0 && gh_wait_calls == 0 && gh_notify_calls == 0 && gh_awr_calls == 0 && gh_sn_calls == 0 && gh_pc_calls == 0 && gh_ubf_calls == 0 && gh_ns_calls == 0 && gh_na_calls == 0 && \
  gh_chv_calls == 0 && gh_nf_calls == 0 && gh_nb_calls == 0 && gh_gv_calls == 0 && gh_destroy_calls == 0 && gh_lam_calls == 0 && gh_pd_calls == 0 && gh_res_handed_back == 0)
#define NO_ALLOC (gh_allocs == __CPROVER_old(gh_allocs))
#define THROWN(ti) (cv_exc_pending == 1 && cv_exc_tinfo == (void *)(ti))

/* ------------------------------------------------------------------------------------------------------- body side: co_yield / end */
/* yield_value(T &) / yield_value(T &&): remembers the yielded OBJECT (R3), touches nothing else, produces yield_suspend{p = NULL} */
#define YIELD_VALUE_CONTRACT(f) \
PT *f(PT *this_, VAL *x) \
__CPROVER_requires(G_PRE && __CPROVER_is_fresh(this_, sizeof(*this_)) && __CPROVER_is_fresh(x, sizeof(*x)) && VAL_IS(x, gh_val_pay)) \
__CPROVER_assigns(this_->_ret) \
__CPROVER_ensures(cv_exc_pending == 0 && this_->_ret == x && __CPROVER_return_value == 0 && NO_ALLOC) \
__CPROVER_ensures(VAL_IS(x, gh_val_pay))                     /* the body's object itself is remembered - not copied, not moved, not touched */ \
;
#ifdef CV_HAS_pt_yield_value_ref
YIELD_VALUE_CONTRACT(pt_yield_value_ref)
#endif
#ifdef CV_HAS_pt_yield_value_rref
YIELD_VALUE_CONTRACT(pt_yield_value_rref)
#endif
/* yield_value(nullptr): "give me the argument" - no hand-over, the record is not touched; yield_null{_p = this} */
#ifdef CV_HAS_pt_yield_value_null
PT *pt_yield_value_null(PT *this_, cv_i8 *null_)
__CPROVER_requires(G_PRE && __CPROVER_is_fresh(this_, sizeof(*this_)))
__CPROVER_assigns()
__CPROVER_ensures(cv_exc_pending == 0 && __CPROVER_return_value == this_ && NO_ALLOC)
;
#endif
/* yield_suspend::await_suspend(me): THE hand-over (R1, R2).  The request is cleared and the argument pointer reset BEFORE the asker is
 * resumed (the asker may ask again at once); exactly the awaiter that asked is resumed, exactly once; the coroutine to continue with is
 * the last handle its resumption made ready (none: the no-op coroutine); any further ready handles go to the scheduler - none is lost. */
#ifdef CV_HAS_ys_await_suspend
void *gh_asker;
cv_i8 *ys_await_suspend(YS *this_, cv_i8 *me)
__CPROVER_requires(G_PRE && STUBS_FRESH && __CPROVER_is_fresh(this_, sizeof(*this_)) && me == FRAME_OF(gh_pt) && gh_asker != 0 && (void *)gh_pt->_caller == gh_asker)
__CPROVER_requires(gh_awr_count <= 3 && gh_awr_h[0] != 0 && gh_awr_h[1] != 0 && gh_awr_h[2] != 0)
__CPROVER_assigns(__CPROVER_object_whole(this_), gh_pt->_caller, gh_pt->_arg, STUB_GHOSTS)
__CPROVER_ensures(cv_exc_pending == 0 && YS_P(this_) == gh_pt)                                          /* await_resume will look at this promise */
__CPROVER_ensures(gh_awr_calls == 1 && gh_awr_this == gh_asker)                                          /* R2: exactly the asker, exactly once */
__CPROVER_ensures(gh_awr_caller_then == 0)                                                               /* R1: request cleared before the asker runs */
__CPROVER_ensures(gh_pt->_caller == 0)                                                                   /* R1: idle again (resetting _arg is hygiene: allowed, not required) */
__CPROVER_ensures(gh_awr_count == 0 ==> (__CPROVER_return_value == NOOPH && gh_sn_calls == 0))
__CPROVER_ensures(gh_awr_count >= 1 ==> __CPROVER_return_value == gh_awr_h[gh_awr_count - 1])            /* symmetric transfer to a coroutine the asker made ready */
__CPROVER_ensures(gh_awr_count == 1 ==> gh_sn_calls == 0)
__CPROVER_ensures(gh_awr_count >= 2 ==> (gh_sn_calls == 1 && gh_sn_count == gh_awr_count - 1 && gh_sn_h[0] == gh_awr_h[0] && (gh_awr_count < 3 || gh_sn_h[1] == gh_awr_h[1])))   /* the rest: scheduled, none lost */
__CPROVER_ensures(NO_ALLOC)
;
#endif
/* yield_suspend::await_resume() / yield_null::await_resume(): the result of co_yield is the argument installed by the resuming call (R5) */
#ifdef CV_HAS_ys_await_resume
#ifdef GEN_ARG
ARGT *ys_await_resume(YS *this_)
__CPROVER_requires(G_PRE && YS_P(this_) == gh_pt)
__CPROVER_assigns()
__CPROVER_ensures(cv_exc_pending == 0 && __CPROVER_return_value == gh_pt->_arg && NO_ALLOC)
;
#else
void ys_await_resume(YS *this_)
__CPROVER_requires(G_PRE && __CPROVER_is_fresh(this_, sizeof(*this_)))
__CPROVER_assigns()
__CPROVER_ensures(cv_exc_pending == 0 && NO_ALLOC)
;
#endif
#endif
#ifdef CV_HAS_yn_await_resume
ARGT *yn_await_resume(YN *this_)
__CPROVER_requires(G_PRE && *(PT **)this_ == gh_pt)
__CPROVER_assigns()
__CPROVER_ensures(cv_exc_pending == 0 && __CPROVER_return_value == gh_pt->_arg && NO_ALLOC)
;
#endif
/* final_suspend(): no value object any more (value() after the end must not hand out a dead object); then the same hand-over as a yield */
#ifdef CV_HAS_pt_final_suspend
PT *pt_final_suspend(PT *this_)
__CPROVER_requires(G_PRE && __CPROVER_is_fresh(this_, sizeof(*this_)))
__CPROVER_assigns(this_->_ret)
__CPROVER_ensures(cv_exc_pending == 0 && this_->_ret == 0 && __CPROVER_return_value == 0 && NO_ALLOC)
;
#endif
/* return_void(): the end marker - and nothing else */
#ifdef CV_HAS_pt_return_void
void pt_return_void(PT *this_)
__CPROVER_requires(G_PRE && __CPROVER_is_fresh(this_, sizeof(*this_)))
__CPROVER_assigns(this_->_done)
__CPROVER_ensures(cv_exc_pending == 0 && this_->_done == 1 && NO_ALLOC)
;
#endif
/* unhandled_exception(): stores THE exception in flight (the one the coroutine's catch-all handler holds).  It must NOT set the end marker:
 * the consumer distinguishes "an item (value or exception) is available" from "end" by that marker, so an exception stored together with
 * the end marker would be dropped by every style instead of surfacing at its position.  The end marker follows when the exception is
 * handed over (gen_value / unblock_future below). */
#ifdef CV_HAS_pt_unhandled_exception
void *gh_exc_in_flight;
void pt_unhandled_exception(PT *this_)
__CPROVER_requires(G_PRE && __CPROVER_is_fresh(this_, sizeof(*this_)) && EXC_OBJ(this_->_exp) == 0)
__CPROVER_requires(cv_caught_n == 1 && gh_exc_in_flight != 0 && cv_caught_obj[0] == gh_exc_in_flight)
__CPROVER_assigns(this_->_exp, gh_ep_addref, gh_ep_release)
__CPROVER_ensures(cv_exc_pending == 0 && (void *)EXC_OBJ(this_->_exp) == gh_exc_in_flight && NO_ALLOC)
;
#endif

/* ------------------------------------------------------------------------------------------------------- consumer side: asking */
/* set_arg(arg): installs the argument of the call about to resume the body (R5) */
#ifdef CV_HAS_pt_set_arg
void pt_set_arg(PT *this_, ARGT *arg)
__CPROVER_requires(G_PRE && __CPROVER_is_fresh(this_, sizeof(*this_)))
__CPROVER_assigns(this_->_arg)
__CPROVER_ensures(cv_exc_pending == 0 && this_->_arg == arg && NO_ALLOC)
;
#endif
/* next_async(caller): registers the asker and names the coroutine to resume; on a finished generator it throws and NO request is left
 * behind (R1: _caller set exactly while a request is outstanding) */
#ifdef CV_HAS_pt_next_async
cv_i8 *pt_next_async(PT *this_, AWT *caller)
__CPROVER_requires(G_PRE && this_ == gh_pt && this_->_caller == 0 && caller != 0)
__CPROVER_assigns(this_->_caller, cv_exc_pending, cv_exc_obj, cv_exc_tinfo)
__CPROVER_ensures(!FRAME_DONE(gh_pt) ==> (cv_exc_pending == 0 && this_->_caller == caller && __CPROVER_return_value == FRAME_OF(this_)))
__CPROVER_ensures(FRAME_DONE(gh_pt) ==> THROWN(TI_NO_MORE_VALUES))
__CPROVER_ensures(cv_exc_pending == 1 ==> this_->_caller == 0)              /*@label no-request-left-behind-when-refused*/
__CPROVER_ensures(NO_ALLOC)
;
#endif
/* next_sync(): ask and wait.  The record is complete before the body runs (asker = the internal awaiter wired to resume_fn_sync on this
 * promise, blocking flag lowered), the body is resumed exactly once, the thread then waits on the flag with acquire order, and the call
 * returns only after the body has handed back (R6) - whether it did so synchronously or on another thread.  Finished generator: throws,
 * nothing touched, nothing resumed. */
#ifdef CV_HAS_pt_next_sync
void pt_next_sync(PT *this_)
__CPROVER_requires(G_PRE && STUBS_FRESH && this_ == gh_pt && this_->_caller == 0)
__CPROVER_assigns(this_->_caller, this_->_internal, this_->_arg, this_->_block, this_->_awaiting, STUB_GHOSTS)
__CPROVER_ensures(FRAME_DONE(gh_pt) ==> (THROWN(TI_NO_MORE_VALUES) && gh_res_calls == 0 && gh_wait_calls == 0 && this_->_caller == 0))
__CPROVER_ensures(!FRAME_DONE(gh_pt) ==> (cv_exc_pending == 0 && gh_res_calls == 1 && gh_res_frame == (void *)FRAME_OF(this_)))
__CPROVER_ensures(gh_res_calls == 1 ==> (gh_res_caller == (void *)&this_->_internal && gh_res_int_fn == (void *)RESUME_FN_SYNC && gh_res_int_ctx == (void *)this_ && gh_res_block == 0))
__CPROVER_ensures(gh_res_calls == 1 ==> (gh_wait_calls == 1 && gh_wait_after_resume == 1 && gh_wait_flag == (void *)&this_->_block && gh_wait_old == 0 && (gh_wait_order == 2 || gh_wait_order == 5)))
__CPROVER_ensures(gh_res_calls == 1 ==> (BLOCK_OF(this_) == 1 && this_->_caller == 0))        /* R6 + R1: handed back, idle */
__CPROVER_ensures(NO_ALLOC)
;
#endif
/* the functor of next_future(): ask on behalf of a future.  The promise of the call is parked in the record, the asker is the internal
 * awaiter wired to resume_fn_future, the body is resumed exactly once.  Finished generator: throws, promise and record untouched. */
#ifdef CV_HAS_nf_lambda
void *gh_call_future;
void nf_lambda(NF_LAM *this_, PROM *promise)
__CPROVER_requires(G_PRE && STUBS_FRESH && *(PT **)this_ == gh_pt && gh_pt->_caller == 0 && OWNER_OF(&gh_pt->_awaiting) == 0)
__CPROVER_requires(__CPROVER_is_fresh(promise, sizeof(*promise)) && gh_call_future != 0 && (void *)OWNER_OF(promise) == gh_call_future)
__CPROVER_assigns(gh_pt->_caller, gh_pt->_internal, gh_pt->_arg, gh_pt->_block, gh_pt->_awaiting, __CPROVER_object_whole(promise), STUB_GHOSTS)
__CPROVER_ensures(FRAME_DONE(gh_pt) ==> (THROWN(TI_NO_MORE_VALUES) && gh_res_calls == 0 && gh_pt->_caller == 0 && (void *)OWNER_OF(promise) == gh_call_future && OWNER_OF(&gh_pt->_awaiting) == 0))
__CPROVER_ensures(!FRAME_DONE(gh_pt) ==> (cv_exc_pending == 0 && gh_res_calls == 1 && gh_res_frame == (void *)FRAME_OF(gh_pt) && OWNER_OF(promise) == 0))
__CPROVER_ensures(gh_res_calls == 1 ==> (gh_res_caller == (void *)&gh_pt->_internal && gh_res_int_fn == (void *)RESUME_FN_FUTURE && gh_res_int_ctx == (void *)gh_pt && gh_res_awaiting == gh_call_future))
__CPROVER_ensures((gh_res_calls == 1 && !gh_res_handed_back) ==> ((void *)OWNER_OF(&gh_pt->_awaiting) == gh_call_future && gh_pt->_caller == &gh_pt->_internal.base_awaiter))   /* still outstanding */
__CPROVER_ensures(NO_ALLOC)
;
#endif
/* next_future(): the returned future is bound to exactly one invocation of that functor */
#ifdef CV_HAS_pt_next_future
void pt_next_future(FUT *ret, PT *this_)
__CPROVER_requires(G_PRE && STUBS_FRESH && __CPROVER_is_fresh(ret, sizeof(*ret)) && __CPROVER_is_fresh(this_, sizeof(*this_)))
__CPROVER_assigns(__CPROVER_object_whole(ret), STUB_GHOSTS)
__CPROVER_ensures(gh_lam_calls == 1 && gh_lam_this == (void *)this_ && gh_lam_owner_then == (void *)ret)      /* one request, carrying the promise of the returned future */
__CPROVER_ensures(gh_pd_calls == 1 && (gh_lam_throws ? gh_pd_owner_then == (void *)ret : gh_pd_owner_then == 0))   /* the temporary promise dies empty once it was taken */
__CPROVER_ensures((cv_exc_pending == 1) == (gh_lam_throws != 0))
__CPROVER_ensures(NO_ALLOC)
;
#endif

/* ------------------------------------------------------------------------------------------------------- waking the consumer up */
/* unblock_sync(): raises the flag, then notifies */
#ifdef CV_HAS_pt_unblock_sync
void pt_unblock_sync(PT *this_)
__CPROVER_requires(G_PRE && STUBS_FRESH && __CPROVER_is_fresh(this_, sizeof(*this_)))
__CPROVER_assigns(this_->_block, STUB_GHOSTS)
__CPROVER_ensures(cv_exc_pending == 0 && BLOCK_OF(this_) == 1 && gh_notify_calls == 1 && gh_notify_value == 1 && NO_ALLOC)
;
#endif
/* unblock_future() (R4): exactly one resolution of the pending call's promise: end -> drop, stored exception -> that exception,
 * otherwise the yielded object; what that resolution made ready is passed on unchanged.
 * After-exception clause (from the property: the values, the exception at its position, then the sequence is OVER - "a single
 * end-of-sequence indication", whichever style): handing the stored exception over is the last item of the sequence, so the record
 * must say "finished" from that moment on - and already at the instant the promise is resolved, because the consumer may look at once
 * (from another thread).  An end or a value leaves the end marker alone.
 * Hand-over invariant (precondition): the record describes an end, an exception or a value. */
/* Value clause (from the property: "exactly the sequence of values the generator body yields - same values ... whichever access style it
 * uses or mixes"; units *_mv, value type c13_mv): the value the call future is given IS the yielded value (constructed from the body's
 * object, which must hold its payload and must not have been moved from) and the body's object is still the yielded value afterwards -
 * the consumer may read the same item again through value() / an iterator (mixing styles), and the body goes on using its own lvalue:
 * handing the object over by move is a violation (seeded change C13-2). */
#ifdef CV_HAS_pt_unblock_future
void pt_unblock_future(SP *ret, PT *this_)
#ifdef CV_VAL_MV
__CPROVER_requires(G_PRE && STUBS_FRESH && __CPROVER_is_fresh(ret, sizeof(*ret)) && this_ == gh_pt && this_->_done <= 1 && gh_pc_count <= 1 && gh_pc_h != 0)
__CPROVER_requires((this_->_ret == 0 || this_->_ret == gh_val) && VAL_IS(gh_val, gh_val_pay))
#else
__CPROVER_requires(G_PRE && STUBS_FRESH && __CPROVER_is_fresh(ret, sizeof(*ret)) && __CPROVER_is_fresh(this_, sizeof(*this_)) && this_->_done <= 1 && gh_pc_count <= 1 && gh_pc_h != 0)
#endif
__CPROVER_requires(this_->_done == 1 || EXC_OBJ(this_->_exp) != 0 || this_->_ret != 0)
__CPROVER_assigns(__CPROVER_object_whole(ret), this_->_awaiting, this_->_done, STUB_GHOSTS)
#ifdef CV_VAL_MV
__CPROVER_ensures((__CPROVER_old(this_->_done) == 0 && EXC_OBJ(this_->_exp) == 0) ==> VAL_IS(&gh_fut_val, gh_val_pay))      /* the call future holds the yielded value */
__CPROVER_ensures(this_->_ret == __CPROVER_old(this_->_ret) && VAL_IS(gh_val, gh_val_pay))                                   /* and the generator's own item is still that value, un-moved (value() / a second reader / the body see it intact) */
#endif
__CPROVER_ensures(cv_exc_pending == 0 && gh_pc_calls == 1 && gh_pc_this == (void *)&this_->_awaiting)
__CPROVER_ensures(__CPROVER_old(this_->_done) == 1 ==> gh_pc_kind == PC_DROP)
__CPROVER_ensures((__CPROVER_old(this_->_done) == 0 && EXC_OBJ(this_->_exp) != 0) ==> (gh_pc_kind == PC_EXC && gh_pc_arg == (void *)&this_->_exp))     /* the exception wins over a stale value */
__CPROVER_ensures((__CPROVER_old(this_->_done) == 0 && EXC_OBJ(this_->_exp) == 0) ==> ((gh_pc_kind == PC_VAL || (VAL_TRIVIAL && gh_pc_kind == PC_RVAL)) && gh_pc_arg == (void *)this_->_ret))   /* handed over as an lvalue (copied); for a trivially copyable value (int) a move IS a copy */
__CPROVER_ensures((__CPROVER_old(this_->_done) == 0 && EXC_OBJ(this_->_exp) != 0) ==> (gh_pc_done_then == 1 && this_->_done == 1))   /* C13-FINDING-after-exception: the exception handed to the call future is the last item - the generator is finished and says so, before the consumer can look */
__CPROVER_ensures((__CPROVER_old(this_->_done) == 1 || EXC_OBJ(this_->_exp) == 0) ==> (this_->_done == __CPROVER_old(this_->_done) && gh_pc_done_then == __CPROVER_old(this_->_done)))   /* an end or a value does not touch the end marker */
__CPROVER_ensures(SP_COUNT(ret) == gh_pc_count && (ret->_count_flag & 1) == 0 && (gh_pc_count == 1 ==> SP_H(ret, 0) == gh_pc_h) && gh_sn_calls == 0)
__CPROVER_ensures(NO_ALLOC)
;
#endif
/* resume functions of the internal awaiter: the context pointer is the promise */
#ifdef CV_HAS_pt_resume_fn_sync
void pt_resume_fn_sync(SP *ret, AWT *awt, cv_i8 *user_ptr)
__CPROVER_requires(G_PRE && STUBS_FRESH && __CPROVER_is_fresh(ret, sizeof(*ret)) && user_ptr == (cv_i8 *)gh_pt)
__CPROVER_assigns(__CPROVER_object_whole(ret), gh_pt->_block, STUB_GHOSTS)
__CPROVER_ensures(cv_exc_pending == 0 && BLOCK_OF(gh_pt) == 1 && gh_notify_calls == 1 && gh_notify_value == 1 && ret->_count_flag == 0 && NO_ALLOC)
;
#endif
#ifdef CV_HAS_pt_resume_fn_future
void pt_resume_fn_future(SP *ret, AWT *awt, cv_i8 *user_ptr)
__CPROVER_requires(G_PRE && STUBS_FRESH && __CPROVER_is_fresh(ret, sizeof(*ret)) && gh_ubf_count <= 1)
__CPROVER_assigns(__CPROVER_object_whole(ret), STUB_GHOSTS)
__CPROVER_ensures(cv_exc_pending == 0 && gh_ubf_calls == 1 && gh_ubf_this == (void *)user_ptr && SP_COUNT(ret) == gh_ubf_count && (gh_ubf_count == 1 ==> SP_H(ret, 0) == gh_ubf_h) && NO_ALLOC)
;
#endif
/* observers */
#ifdef CV_HAS_pt_done
cv_i1 pt_done(PT *this_)
__CPROVER_requires(G_PRE && __CPROVER_is_fresh(this_, sizeof(*this_)) && this_->_done <= 1)
__CPROVER_assigns()
__CPROVER_ensures(__CPROVER_return_value == this_->_done && NO_ALLOC)
;
#endif
#ifdef CV_HAS_pt_value
VAL *pt_value(PT *this_)
__CPROVER_requires(G_PRE && __CPROVER_is_fresh(this_, sizeof(*this_)))
__CPROVER_assigns()
__CPROVER_ensures(__CPROVER_return_value == this_->_ret && this_->_ret == __CPROVER_old(this_->_ret) && NO_ALLOC)       /* a look, not a take */
;
#endif
#ifdef CV_HAS_pt_exception
EXCP *pt_exception(PT *this_)
__CPROVER_requires(G_PRE && __CPROVER_is_fresh(this_, sizeof(*this_)))
__CPROVER_assigns()
__CPROVER_ensures(__CPROVER_return_value == &this_->_exp && NO_ALLOC)
;
#endif

/* ------------------------------------------------------------------------------------------------------- next_awt */
/* operator bool / operator!: a known "true" is sticky (no second step for the same next()); a finished generator is not stepped;
 * otherwise exactly one synchronous step, then the state is "a value or an exception is available" <=> not done */
#define NA_BOOL_CONTRACT(f, NEG) \
cv_i1 f(NAWT *this_) \
__CPROVER_requires(G_PRE && STUBS_FRESH && NAWT_STATE(this_) <= 1 && NAWT_OWNER(this_) == gh_gen && GEN_P(gh_gen) == gh_pt && gh_pt->_done <= 1 && gh_ns_done_after <= 1) \
__CPROVER_assigns(NAWT_STATE(this_), gh_pt->_done, STUB_GHOSTS) \
__CPROVER_ensures(__CPROVER_old(NAWT_STATE(this_)) == 1 ==> (gh_ns_calls == 0 && cv_exc_pending == 0 && __CPROVER_return_value == (1 ^ NEG) && NAWT_STATE(this_) == 1)) \
__CPROVER_ensures((__CPROVER_old(NAWT_STATE(this_)) == 0 && __CPROVER_old(gh_pt->_done) == 1) ==> (gh_ns_calls == 0 && cv_exc_pending == 0 && __CPROVER_return_value == (0 ^ NEG) && NAWT_STATE(this_) == 0)) \
__CPROVER_ensures((__CPROVER_old(NAWT_STATE(this_)) == 0 && __CPROVER_old(gh_pt->_done) == 0) ==> (gh_ns_calls == 1 && gh_ns_this == (void *)gh_pt)) \
__CPROVER_ensures((gh_ns_calls == 1 && gh_ns_throws) ==> (cv_exc_pending == 1 && NAWT_STATE(this_) == 0)) \
__CPROVER_ensures((gh_ns_calls == 1 && !gh_ns_throws) ==> (cv_exc_pending == 0 && NAWT_STATE(this_) == (1 ^ gh_ns_done_after) && __CPROVER_return_value == (1 ^ gh_ns_done_after ^ NEG))) \
__CPROVER_ensures(NO_ALLOC) \
;
#ifdef CV_HAS_na_bool
NA_BOOL_CONTRACT(na_bool, 0)
#endif
#ifdef CV_HAS_na_not
NA_BOOL_CONTRACT(na_not, 1)
#endif
#ifdef CV_HAS_na_await_ready
cv_i1 na_await_ready(NAWT *this_)
__CPROVER_requires(G_PRE && NAWT_OWNER(this_) == gh_gen && GEN_P(gh_gen) == gh_pt && gh_pt->_done <= 1)
__CPROVER_assigns()
__CPROVER_ensures(__CPROVER_return_value == gh_pt->_done && NO_ALLOC)         /* no suspension on a finished generator */
;
#endif
/* await_suspend(h): the asker is this awaiter, resuming it means resuming coroutine h; exactly one next_async; its verdict is passed on */
#ifdef CV_HAS_na_await_suspend
cv_i8 *na_await_suspend(NAWT *this_, cv_i8 *h)
__CPROVER_requires(G_PRE && STUBS_FRESH && NAWT_OWNER(this_) == gh_gen && GEN_P(gh_gen) == gh_pt)
__CPROVER_assigns(__CPROVER_object_whole(this_), STUB_GHOSTS)
__CPROVER_ensures(gh_na_calls == 1 && gh_na_this == (void *)gh_pt && gh_na_caller == (void *)this_)
__CPROVER_ensures(gh_na_fn_then == 0 && gh_na_h_then == (void *)h)                  /* complete before it is registered */
__CPROVER_ensures(gh_na_throws ? cv_exc_pending == 1 : (cv_exc_pending == 0 && __CPROVER_return_value == gh_na_result))
__CPROVER_ensures(NO_ALLOC)
;
#endif
#ifdef CV_HAS_na_await_resume
cv_i1 na_await_resume(NAWT *this_)
__CPROVER_requires(G_PRE && NAWT_OWNER(this_) == gh_gen && GEN_P(gh_gen) == gh_pt && gh_pt->_done <= 1)
__CPROVER_assigns(NAWT_STATE(this_))
__CPROVER_ensures(__CPROVER_return_value == (1 ^ gh_pt->_done) && NAWT_STATE(this_) == (1 ^ gh_pt->_done) && NO_ALLOC)
;
#endif
/* subscribe(awt): registers awt as the asker and resumes the coroutine next_async names, once; refused (finished): nothing is resumed */
#ifdef CV_HAS_na_subscribe
cv_i1 na_subscribe(NAWT *this_, AWT *awt)
__CPROVER_requires(G_PRE && STUBS_FRESH && awt != 0 && NAWT_OWNER(this_) == gh_gen && GEN_P(gh_gen) == gh_pt && gh_na_result != 0)
__CPROVER_assigns(STUB_GHOSTS)
__CPROVER_ensures(gh_na_calls == 1 && gh_na_this == (void *)gh_pt && gh_na_caller == (void *)awt)
__CPROVER_ensures(gh_na_throws ? (cv_exc_pending == 1 && gh_chv_calls == 0) : (cv_exc_pending == 0 && gh_chv_calls == 1 && gh_chv_frame == (void *)gh_na_result && gh_chv_after_na == 1 && __CPROVER_return_value == 1))
__CPROVER_ensures(NO_ALLOC)
;
#endif

/* ------------------------------------------------------------------------------------------------------- generator */
/* next(): only builds the awaitable (state unknown, no step yet); with an argument: installs it first (R5) */
#ifdef CV_HAS_gen_next
#ifdef GEN_ARG
void gen_next(NAWT *ret, GEN *this_, ARGT *arg)
#else
void gen_next(NAWT *ret, GEN *this_)
#endif
__CPROVER_requires(G_PRE && STUBS_FRESH && __CPROVER_is_fresh(ret, sizeof(*ret)) && this_ == gh_gen && GEN_P(this_) == gh_pt)
#ifdef GEN_ARG
__CPROVER_assigns(__CPROVER_object_whole(ret), gh_pt->_arg)
__CPROVER_ensures(gh_pt->_arg == arg)
#else
__CPROVER_assigns(__CPROVER_object_whole(ret))
#endif
__CPROVER_ensures(cv_exc_pending == 0 && NAWT_OWNER(ret) == this_ && NAWT_STATE(ret) == 0 && ((AWT *)ret)->_next == 0 && NO_ALLOC)
;
#endif
/* value() (R3): the stored exception is rethrown - that very exception; else the object of the last co_yield; else value_not_ready.
 * After-exception clause (from the property): the rethrow is the moment the body's exception surfaces in the next()/value(), iterator
 * and co_await next() styles; it is the last item of the sequence, so from then on the record says "finished" (done(), operator bool,
 * and every later next() then give the regular end indication).  Reading a value or finding none leaves the end marker alone.
 * (The clause belongs to C13; the C20 re-run of this unit checks the no-allocation clause only.) */
#ifdef CV_HAS_gen_value
VAL *gen_value(GEN *this_)
__CPROVER_requires(G_PRE && this_ == gh_gen && GEN_P(this_) == gh_pt && gh_pt->_done <= 1)
__CPROVER_requires(EXC_OBJ(gh_pt->_exp) == 0 || __CPROVER_r_ok((cv_i8 *)EXC_OBJ(gh_pt->_exp) - 16, 16))      /* a thrown object carries its type header (lib/rt_core.c) */
#ifdef CV_VAL_MV
__CPROVER_requires((gh_pt->_ret == 0 || gh_pt->_ret == gh_val) && VAL_IS(gh_val, gh_val_pay))
#endif
__CPROVER_assigns(cv_exc_pending, cv_exc_obj, cv_exc_tinfo, gh_ep_addref, gh_ep_release, gh_pt->_done)
__CPROVER_ensures(EXC_OBJ(gh_pt->_exp) != 0 ==> (cv_exc_pending == 1 && cv_exc_obj == (void *)EXC_OBJ(gh_pt->_exp)))
__CPROVER_ensures((EXC_OBJ(gh_pt->_exp) == 0 && gh_pt->_ret != 0) ==> (cv_exc_pending == 0 && __CPROVER_return_value == gh_pt->_ret))
#ifdef CV_VAL_MV
__CPROVER_ensures(gh_pt->_ret == __CPROVER_old(gh_pt->_ret) && VAL_IS(gh_val, gh_val_pay))     /* reading does not consume: the item is still there, holds the yielded value and has not been moved from - reading it twice gives the same value */
#endif
__CPROVER_ensures((EXC_OBJ(gh_pt->_exp) == 0 && gh_pt->_ret == 0) ==> THROWN(TI_VALUE_NOT_READY))
#ifndef CV_CHECK_C20
__CPROVER_ensures(EXC_OBJ(gh_pt->_exp) != 0 ==> gh_pt->_done == 1)   /* C13-FINDING-after-exception: once the body's exception has surfaced the sequence is over - the generator is finished and says so */
#endif
__CPROVER_ensures(EXC_OBJ(gh_pt->_exp) == 0 ==> gh_pt->_done == __CPROVER_old(gh_pt->_done))
__CPROVER_ensures(gh_ep_addref - __CPROVER_old(gh_ep_addref) == gh_ep_release - __CPROVER_old(gh_ep_release))   /* the local copy of the exception_ptr is released */
__CPROVER_ensures(NO_ALLOC)
;
#endif
/* operator()(): one next_future on the promise; with an argument: installed before the request is made (R5) */
#ifdef CV_HAS_gen_call
#ifdef GEN_ARG
void gen_call(FUT *ret, GEN *this_, ARGT *arg)
#else
void gen_call(FUT *ret, GEN *this_)
#endif
__CPROVER_requires(G_PRE && STUBS_FRESH && __CPROVER_is_fresh(ret, sizeof(*ret)) && this_ == gh_gen && GEN_P(this_) == gh_pt)
#ifdef GEN_ARG
__CPROVER_assigns(gh_pt->_arg, STUB_GHOSTS)
__CPROVER_ensures(gh_nf_arg_then == (void *)arg)
#else
__CPROVER_assigns(STUB_GHOSTS)
#endif
__CPROVER_ensures(cv_exc_pending == 0 && gh_nf_calls == 1 && gh_nf_ret == (void *)ret && gh_nf_this == (void *)gh_pt && NO_ALLOC)
;
#endif
#ifdef CV_HAS_gen_done
cv_i1 gen_done(GEN *this_)
__CPROVER_requires(G_PRE && this_ == gh_gen && (GEN_P(this_) == 0 || (GEN_P(this_) == gh_pt && gh_pt->_done <= 1)))
__CPROVER_assigns()
__CPROVER_ensures(__CPROVER_return_value == (GEN_P(this_) == 0 ? 1 : gh_pt->_done) && NO_ALLOC)
;
#endif
#ifdef CV_HAS_gen_bool
cv_i1 gen_bool(GEN *this_)
__CPROVER_requires(G_PRE && this_ == gh_gen && (GEN_P(this_) == 0 || (GEN_P(this_) == gh_pt && gh_pt->_done <= 1)))
__CPROVER_assigns()
__CPROVER_ensures(__CPROVER_return_value == (GEN_P(this_) == 0 ? 0 : 1 ^ gh_pt->_done) && NO_ALLOC)
;
#endif
/* begin(): loads the first item - exactly one conversion of a fresh next() of THIS generator; end(): no step */
#ifdef CV_HAS_gen_begin
void gen_begin(ITER *out, GEN *this_)          /* drv_gen_begin: new(out) iterator(g->begin()) */
__CPROVER_requires(G_PRE && STUBS_FRESH && __CPROVER_is_fresh(out, sizeof(*out)) && this_ == gh_gen && gh_nb_result <= 1)
__CPROVER_assigns(__CPROVER_object_whole(out), STUB_GHOSTS)
__CPROVER_ensures(gh_nb_calls == 1 && gh_nb_owner == (void *)this_ && gh_nb_state_then == 0)
__CPROVER_ensures(!gh_nb_throws ==> (cv_exc_pending == 0 && out->_gen == this_ && out->_next == gh_nb_result))
__CPROVER_ensures(gh_nb_throws ==> cv_exc_pending == 1)
__CPROVER_ensures(NO_ALLOC)
;
#endif
#ifdef CV_HAS_gen_end
void gen_end(ITER *out, GEN *this_)            /* drv_gen_end: new(out) iterator(g->end()) */
__CPROVER_requires(G_PRE && STUBS_FRESH && __CPROVER_is_fresh(out, sizeof(*out)) && this_ == gh_gen)
__CPROVER_assigns(__CPROVER_object_whole(out))
__CPROVER_ensures(cv_exc_pending == 0 && out->_gen == this_ && out->_next == 0 && gh_nb_calls == 0 && NO_ALLOC)
;
#endif
/* deleter: destroys the frame the promise lives in, exactly once */
#ifdef CV_HAS_gen_deleter
void gen_deleter(DEL *this_, PT *p)
__CPROVER_requires(G_PRE && STUBS_FRESH && p == gh_pt)
__CPROVER_assigns(STUB_GHOSTS)
__CPROVER_ensures(cv_exc_pending == 0 && gh_destroy_calls == 1 && gh_destroy_frame == (void *)FRAME_OF(p))
;
#endif

/* ------------------------------------------------------------------------------------------------------- generator_iterator */
#ifdef CV_HAS_it_ctor_fin
void it_ctor_fin(ITER *this_, GEN *gen, cv_i1 fin)
__CPROVER_requires(G_PRE && __CPROVER_is_fresh(this_, sizeof(*this_)) && fin <= 1)
__CPROVER_assigns(__CPROVER_object_whole(this_))
__CPROVER_ensures(cv_exc_pending == 0 && this_->_gen == gen && this_->_next == fin && NO_ALLOC)
;
#endif
#ifdef CV_HAS_it_ctor
void it_ctor(ITER *this_, GEN *gen)
__CPROVER_requires(G_PRE && STUBS_FRESH && __CPROVER_is_fresh(this_, sizeof(*this_)) && gen == gh_gen && gh_nb_result <= 1)
__CPROVER_assigns(__CPROVER_object_whole(this_), STUB_GHOSTS)
__CPROVER_ensures(gh_nb_calls == 1 && gh_nb_owner == (void *)gen && gh_nb_state_then == 0)
__CPROVER_ensures(!gh_nb_throws ==> (cv_exc_pending == 0 && this_->_gen == gen && this_->_next == gh_nb_result))
__CPROVER_ensures(NO_ALLOC)
;
#endif
#define IT_EQ_CONTRACT(f, NEG) \
cv_i1 f(ITER *this_, ITER *other) \
__CPROVER_requires(G_PRE && __CPROVER_is_fresh(this_, sizeof(*this_)) && __CPROVER_is_fresh(other, sizeof(*other)) && this_->_next <= 1 && other->_next <= 1) \
__CPROVER_assigns() \
__CPROVER_ensures(__CPROVER_return_value == (((this_->_gen == other->_gen && this_->_next == other->_next) ? 1 : 0) ^ NEG) && NO_ALLOC) \
;
#ifdef CV_HAS_it_eq
IT_EQ_CONTRACT(it_eq, 0)
#endif
#ifdef CV_HAS_it_ne
IT_EQ_CONTRACT(it_ne, 1)
#endif
/* ++it: exactly one step of the iterator's generator; the flag is what that step said */
#ifdef CV_HAS_it_inc
ITER *it_inc(ITER *this_)
__CPROVER_requires(G_PRE && STUBS_FRESH && this_->_gen == gh_gen && this_->_next <= 1 && gh_nb_result <= 1)
__CPROVER_assigns(this_->_next, STUB_GHOSTS)
__CPROVER_ensures(gh_nb_calls == 1 && gh_nb_owner == (void *)this_->_gen && gh_nb_state_then == 0)
__CPROVER_ensures(!gh_nb_throws ==> (cv_exc_pending == 0 && this_->_next == gh_nb_result && __CPROVER_return_value == this_))
__CPROVER_ensures(gh_nb_throws ==> (cv_exc_pending == 1 && this_->_next == __CPROVER_old(this_->_next)))
__CPROVER_ensures(NO_ALLOC)
;
#endif
/* *it / it->: the current value of the iterator's generator (or its exception), no step */
#define IT_DEREF_CONTRACT(f) \
VAL *f(ITER *this_) \
__CPROVER_requires(G_PRE && STUBS_FRESH && this_->_gen == gh_gen) \
__CPROVER_assigns(STUB_GHOSTS) \
__CPROVER_ensures(gh_gv_calls == 1 && gh_gv_this == (void *)this_->_gen && gh_nb_calls == 0) \
__CPROVER_ensures(gh_gv_throws ? cv_exc_pending == 1 : (cv_exc_pending == 0 && __CPROVER_return_value == gh_gv_result)) \
__CPROVER_ensures(NO_ALLOC) \
;
#ifdef CV_HAS_it_deref
IT_DEREF_CONTRACT(it_deref)
#endif
#ifdef CV_HAS_it_arrow
IT_DEREF_CONTRACT(it_arrow)
#endif
/* it++: hands out the CURRENT value (read before the step), then exactly one step */
#if defined(CV_HAS_it_postinc) && defined(CV_VAL_MV)
/* value type c13_mv: the handed-out storage holds the CURRENT value (constructed from the generator's item before the step).  The library
 * constructs it by MOVE (`storage z{std::move(_gen->value())}`): the body's own object is emptied by `it++` - admitted here (the item is
 * consumed by the step that follows at once and the consumer cannot read it through the generator any more), recorded as an observation
 * in META: a body that yields an lvalue it keeps using (`s += c; co_yield s;`) finds it emptied after a postfix increment. */
void it_postinc(ISTORE *ret, ITER *this_, cv_i32 dummy)
__CPROVER_requires(G_PRE && STUBS_FRESH && __CPROVER_is_fresh(ret, sizeof(*ret)) && this_->_gen == gh_gen && gh_nb_result <= 1 && !gh_gv_throws && !gh_nb_throws)
__CPROVER_requires(gh_gv_result == gh_val && VAL_IS(gh_val, gh_val_pay))
__CPROVER_assigns(__CPROVER_object_whole(ret), __CPROVER_object_whole(gh_val), this_->_next, STUB_GHOSTS)
__CPROVER_ensures(cv_exc_pending == 0 && gh_gv_calls == 1 && gh_gv_this == (void *)this_->_gen && gh_nb_calls == 1 && gh_nb_owner == (void *)this_->_gen && gh_nb_after_value == 1)
__CPROVER_ensures(VAL_IS(&ret->_v, gh_val_pay) && this_->_next == gh_nb_result && NO_ALLOC)
#ifdef C13_POSTINC_STRICT
__CPROVER_ensures(VAL_IS(gh_val, gh_val_pay))   /* C13-FINDING-postinc-moves (opt-in, C13_POSTINC_STRICT=1): the access style must not change what the body yields - the body's object is left intact (fails on the unchanged tree: replay/c13_postinc_moves.cpp, repair specs/C13/fix_postinc_copy.diff) */
#endif
;
#elif defined(CV_HAS_it_postinc)
cv_i32 gh_cur_value;
cv_i32 it_postinc(ITER *this_, cv_i32 dummy)
__CPROVER_requires(G_PRE && STUBS_FRESH && this_->_gen == gh_gen && gh_nb_result <= 1 && !gh_gv_throws && !gh_nb_throws)
__CPROVER_requires(gh_gv_result != 0 && *gh_gv_result == gh_cur_value)
__CPROVER_assigns(this_->_next, STUB_GHOSTS)
__CPROVER_ensures(cv_exc_pending == 0 && gh_gv_calls == 1 && gh_gv_this == (void *)this_->_gen && gh_nb_calls == 1 && gh_nb_owner == (void *)this_->_gen && gh_nb_after_value == 1)
__CPROVER_ensures(__CPROVER_return_value == gh_cur_value && this_->_next == gh_nb_result && NO_ALLOC)
;
#endif

/* ------------------------------------------------------------------------------------------------------- the call-future route, value side */
/* future<VAL>::set(VAL &): what promise<VAL>::operator()(VAL &) does with the object unblock_future hands it - the future's value is
 * constructed from it by COPY: the future holds the yielded value, the source (the body's object) is left intact. */
#ifdef CV_HAS_fut_set_val
void fut_set_val(FUT *this_, VAL *v)
__CPROVER_requires(G_PRE && __CPROVER_is_fresh(this_, sizeof(*this_)) && __CPROVER_is_fresh(v, sizeof(*v)) && VAL_IS(v, gh_val_pay))
__CPROVER_assigns(__CPROVER_object_whole(this_))
__CPROVER_ensures(cv_exc_pending == 0 && VAL_IS((VAL *)&this_->f1, gh_val_pay) && this_->base_future_common._state == 1)         /* State::value */
__CPROVER_ensures(VAL_IS(v, gh_val_pay))
__CPROVER_ensures(NO_ALLOC)
;
#endif
/* get_id(): the identity of the generator's coroutine = the address of its frame (what coroutine_handle::address() gives for the frame the
 * promise lives in); nothing is touched.  (generator_aggregator does not use ids; the scheduler's generators do.) */
#ifdef CV_HAS_gen_get_id
cv_i8 *gen_get_id(GEN *this_)
__CPROVER_requires(G_PRE && this_ == gh_gen && GEN_P(this_) == gh_pt)
__CPROVER_assigns()
__CPROVER_ensures(cv_exc_pending == 0 && __CPROVER_return_value == FRAME_OF(gh_pt) && NO_ALLOC)
;
#endif
