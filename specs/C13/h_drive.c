/* C13 - BOUNDED DRIVES of the really lowered generator coroutines (DESIGN 3.8).  Never counted as proof.
 * The scenarios are real C++ in drivers/c13_generator.cpp (scripted bodies x consumer styles); clang has lowered every coroutine to
 * ramp / .resume / .destroy functions over a heap frame and ir2c devirtualises coroutine_handle::resume(), so CBMC executes the real
 * generator.h / iterator.h / future.h / awaiter.h / suspend_point.h / coro_queue.h code symbolically.  SHAPE (number of yields,
 * throw position, style sequence, stop position) is chosen here nondeterministically among the few listed cases, VALUES are symbolic.
 * Models: ready queue = lib/model_dq_drive.c (FIFO ring), heap = lib/model_heap_frames.c, std::atomic<bool>::wait/notify_all below.
 * Oracle (from the property statement): observed sequence == yielded sequence (same values, same order, none skipped or repeated),
 * exactly one end indication, the body's exception exactly at its position, argument echo, locals destroyed exactly once,
 * allocations == frames (C20) and everything freed. */
#define OBS(i) ((*G_OBS)[i])
#define NOBS (*G_NOBS)
#define END (*G_END)
#define ARGS(i) ((*G_ARGS)[i])
#define NARGS (*G_NARGS)
int nondet_int(void);
unsigned gh_wait_calls, gh_notify_calls;
/* std::atomic<bool>::wait(old): blocks while the value equals old.  A drive is one thread: if the wait had to block nobody could ever
 * end it, so "the value already differs" is an obligation - for next_sync() it says the body handed back before the consumer waits. */
#ifdef CV_HAS_ab_wait
void ab_wait(ATOMB *flag, cv_i1 old, cv_i32 order) { gh_wait_calls++;
  __CPROVER_assert((*(cv_i8 *)flag & 1) != old, "single-threaded drive: a blocking wait is entered only after the awaited step has completed"); }
#endif
#ifdef CV_HAS_ab_notify
void ab_notify(ATOMB *flag) { gh_notify_calls++; }
#endif

#define NO_EXC __CPROVER_assert(cv_exc_pending == 0 && *G_OTHER_EXC == 0, "drive: no stray exception reaches the consumer")
#define CHECK_SEQ(k, a, b, c) do { \
  __CPROVER_assert(NOBS == (k), "consumer observes exactly as many values as the body yields (none skipped, none repeated)"); \
  __CPROVER_assert((k) < 1 || OBS(0) == (a), "1st observed value is the 1st yielded value"); \
  __CPROVER_assert((k) < 2 || OBS(1) == (b), "2nd observed value is the 2nd yielded value"); \
  __CPROVER_assert((k) < 3 || OBS(2) == (c), "3rd observed value is the 3rd yielded value"); } while (0)
#define CHECK_END1 __CPROVER_assert(END == 1, "exactly one end-of-sequence indication, after the last value (asking again neither yields nor resumes)")
#define CHECK_NO_BODY_EXC __CPROVER_assert(*G_EXC_N == 0 && *G_NMV == 0, "no exception is reported when the body throws none")
#define CHECK_GUARD(n) __CPROVER_assert(*G_CTOR == (n) && *G_DTOR == (n), "locals of the body are destroyed exactly once (none leaked, none destroyed twice)")
#define CHECK_HEAP(frames) do { \
  __CPROVER_assert(gh_allocs == (frames) && gh_frames_typed == (frames), "the only dynamic allocations are the coroutine frames (C20: stepping a generator never allocates)"); \
  __CPROVER_assert(gh_frees == gh_allocs, "every frame is freed exactly once"); } while (0)
#define SENT_K(k) do { if ((k) == 0) __CPROVER_assert(0, "SENTINEL reachable: empty body"); else if ((k) == 1) __CPROVER_assert(0, "SENTINEL reachable: 1 value"); \
  else if ((k) == 2) __CPROVER_assert(0, "SENTINEL reachable: 2 values"); else __CPROVER_assert(0, "SENTINEL reachable: 3 values"); } while (0)
#define PICK_K(k) cv_i32 k = nondet_int(); __CPROVER_assume(0 <= (cv_s32)k && k <= 3)
#define PICK_STYLE(s) cv_i32 s = nondet_int(); __CPROVER_assume(0 <= (cv_s32)s && s <= 2)

/* the SHAPE parameter reaches the drive as a constant on each branch (symbolic execution then follows one concrete control path per
 * shape instead of carrying a symbolic suspend index through every resume) */
#define WITH_K(k, CALL) do { if ((k) == 0) { CALL(0); } else if ((k) == 1) { CALL(1); } else if ((k) == 2) { CALL(2); } else if ((k) == 3) { CALL(3); } else { CALL(4); } } while (0)
#define WITH_K2(k, CALL, X) do { if ((k) == 0) { CALL(0, X); } else if ((k) == 1) { CALL(1, X); } else if ((k) == 2) { CALL(2, X); } else { CALL(3, X); } } while (0)
#ifdef DRIVE_next
#define CALL(K) drive_next(K, a, b, c)
void h_drive(void) { PICK_K(k); cv_i32 a, b, c; WITH_K(k, CALL);
  NO_EXC; CHECK_SEQ(k, a, b, c); CHECK_END1; CHECK_NO_BODY_EXC; CHECK_GUARD(1); CHECK_HEAP(1);
  __CPROVER_assert(gh_wait_calls == k + 1, "next()/value(): one body step per successful next() plus the one that finds the end");
  SENT_K(k); }
#endif
#ifdef DRIVE_range_for
#define CALL(K) drive_range_for(K, a, b, c)
void h_drive(void) { PICK_K(k); cv_i32 a, b, c; WITH_K(k, CALL);
  NO_EXC; CHECK_SEQ(k, a, b, c); CHECK_END1; CHECK_NO_BODY_EXC; CHECK_GUARD(1); CHECK_HEAP(1); SENT_K(k); }
#endif
#ifdef DRIVE_iter_postfix
#define CALL(K) drive_iter_postfix(K, a, b, c)
void h_drive(void) { PICK_K(k); cv_i32 a, b, c; WITH_K(k, CALL);
  NO_EXC; CHECK_SEQ(k, a, b, c); CHECK_END1; CHECK_NO_BODY_EXC; CHECK_GUARD(1); CHECK_HEAP(1); SENT_K(k); }
#endif
#ifdef DRIVE_future
#define CALL(K) drive_future(K, a, b, c)
void h_drive(void) { PICK_K(k); cv_i32 a, b, c; WITH_K(k, CALL);
  NO_EXC; CHECK_SEQ(k, a, b, c); CHECK_END1;
  __CPROVER_assert(*G_EXC_N == 0 && *G_NMV == 1, "calling a finished generator again throws no_more_values_exception (and produces nothing)");
  CHECK_GUARD(1); CHECK_HEAP(1); SENT_K(k); }
#endif
#ifdef DRIVE_mixed
void h_drive(void) { PICK_K(k); cv_i32 a, b, c; PICK_STYLE(s0); PICK_STYLE(s1); PICK_STYLE(s2); PICK_STYLE(s3);
#define CALL(K) drive_mixed(K, a, b, c, s0, s1, s2, s3)
  WITH_K(k, CALL);
  NO_EXC; CHECK_SEQ(k, a, b, c); CHECK_END1; CHECK_NO_BODY_EXC; CHECK_GUARD(1); CHECK_HEAP(1);
  if (k == 3 && s0 == 0 && s1 == 1 && s2 == 2 && s3 == 1) __CPROVER_assert(0, "SENTINEL reachable: next, call, iterator, call");
  if (k == 2 && s0 == 2 && s1 == 1 && s2 == 0) __CPROVER_assert(0, "SENTINEL reachable: iterator, call, next");
  if (k == 0 && s0 == 1) __CPROVER_assert(0, "SENTINEL reachable: empty body asked by call"); }
#endif
/* (the former DRIVE_throw - whose clauses about the time AFTER the exception had been copied from the code - is replaced by
 * DRIVE_after_exception / DRIVE_throw_mixed at the end of this file) */
#if defined(DRIVE_arg_next) || defined(DRIVE_arg_future)
void h_drive(void) { PICK_K(k); cv_i32 a, b, c, x0, x1, x2, x3;
#ifdef DRIVE_arg_next
#define CALL(K) drive_arg_next(K, a, b, c, x0, x1, x2, x3)
  WITH_K(k, CALL);
#else
#define CALL(K) drive_arg_future(K, a, b, c, x0, x1, x2, x3)
  WITH_K(k, CALL);
#endif
  NO_EXC; CHECK_SEQ(k, a, b, c); CHECK_END1; CHECK_NO_BODY_EXC;
  __CPROVER_assert(NARGS == k + 1, "the body is activated once per call (first activation included)");
  __CPROVER_assert(ARGS(0) == x0, "co_yield nullptr on the first activation gives the argument of the first call");
  __CPROVER_assert(k < 1 || ARGS(1) == x1, "the 1st co_yield returns the argument of the call that resumed it");
  __CPROVER_assert(k < 2 || ARGS(2) == x2, "the 2nd co_yield returns the argument of the call that resumed it");
  __CPROVER_assert(k < 3 || ARGS(3) == x3, "the 3rd co_yield returns the argument of the call that resumed it");
  CHECK_GUARD(1); CHECK_HEAP(1); SENT_K(k); }
#endif
#ifdef DRIVE_early
void h_drive(void) { PICK_K(k); cv_i32 stop = nondet_int(); __CPROVER_assume(0 <= (cv_s32)stop && stop <= 4); cv_i32 a, b, c;
#define CALL2(K, S) drive_early(K, S, a, b, c)
#define CALL(S) WITH_K2(k, CALL2, S)
  WITH_K(stop, CALL);
  cv_i32 seen = stop < k ? stop : k;
  NO_EXC; CHECK_SEQ(seen, a, b, c); CHECK_NO_BODY_EXC;
  __CPROVER_assert(END == (stop > k ? 1 : 0), "end indication only when the consumer went past the last value");
  CHECK_GUARD(stop == 0 ? 0 : 1);      /* never activated: the local was never constructed; parked at a yield or finished: destroyed exactly once */
  CHECK_HEAP(1);
  if (stop == 0) __CPROVER_assert(0, "SENTINEL reachable: destroyed before the first activation");
  else if (stop <= k) __CPROVER_assert(0, "SENTINEL reachable: destroyed while parked at a yield");
  else __CPROVER_assert(0, "SENTINEL reachable: destroyed after the end"); }
#endif
#ifdef DRIVE_move
#define CALL(K) drive_move(K, a, b, c)
void h_drive(void) { PICK_K(k); cv_i32 a, b, c; WITH_K(k, CALL);
  NO_EXC; CHECK_SEQ(k, a, b, c); CHECK_END1; CHECK_NO_BODY_EXC; CHECK_GUARD(1); CHECK_HEAP(1); SENT_K(k); }
#endif
#ifdef DRIVE_co_await
#define CALL0(K) drive_co_await(K, a, b, c, 0)
#define CALL1(K) drive_co_await(K, a, b, c, 1)
void h_drive(void) { PICK_K(k); cv_i32 a, b, c; cv_i32 s = nondet_int(); __CPROVER_assume(s == 0 || s == 1);
  if (s == 0) { WITH_K(k, CALL0); } else { WITH_K(k, CALL1); }
  NO_EXC; CHECK_SEQ(k, a, b, c); CHECK_END1; CHECK_NO_BODY_EXC; CHECK_GUARD(1); CHECK_HEAP(2);
  __CPROVER_assert(gh_wait_calls == 0, "asynchronous access never blocks the thread");
  if (s == 0) SENT_K(k); else if (k == 2) __CPROVER_assert(0, "SENTINEL reachable: co_await of the call future, 2 values"); }
#endif
#ifdef DRIVE_await_future
void h_drive(void) { cv_i32 a, b, v; drive_await_future(a, b, v);
  NO_EXC; CHECK_SEQ(3, a, v, b); CHECK_END1; CHECK_NO_BODY_EXC; CHECK_GUARD(1); CHECK_HEAP(1);
  __CPROVER_assert(*G_PENDING_SEEN == 1, "the step behind the awaited operation is pending until the consumer completes that operation");
  __CPROVER_assert(0, "SENTINEL reachable"); }
#endif
#ifdef DRIVE_await_ready
#define CALL(S) drive_await_ready(a, b, v, S)
void h_drive(void) { cv_i32 a, b, v; PICK_STYLE(s); WITH_K(s, CALL);
  NO_EXC; CHECK_SEQ(3, a, v, b); CHECK_END1; CHECK_NO_BODY_EXC; CHECK_GUARD(1); CHECK_HEAP(1);
  if (s == 0) __CPROVER_assert(0, "SENTINEL reachable: next()/value()"); else if (s == 1) __CPROVER_assert(0, "SENTINEL reachable: call"); else __CPROVER_assert(0, "SENTINEL reachable: iterator"); }
#endif
#ifdef DRIVE_await_co_await
void h_drive(void) { cv_i32 a, b, v; cv_i32 s = nondet_int(); __CPROVER_assume(s == 0 || s == 1); if (s == 0) drive_await_co_await(a, b, v, 0); else drive_await_co_await(a, b, v, 1);
  NO_EXC; CHECK_SEQ(3, a, v, b); CHECK_END1; CHECK_NO_BODY_EXC; CHECK_GUARD(1); CHECK_HEAP(2);
  __CPROVER_assert(*G_PENDING_SEEN == 1, "the consumer coroutine stays suspended behind the generator until the awaited operation completes");
  __CPROVER_assert(gh_wait_calls == 0, "asynchronous access never blocks the thread");
  if (s == 0) __CPROVER_assert(0, "SENTINEL reachable: co_await next()"); else __CPROVER_assert(0, "SENTINEL reachable: co_await of the call future"); }
#endif

/* ===== added after the audit of group E (W1, W2) ================================================================================== */
#define PICK_STYLE5(s) cv_i32 s = nondet_int(); __CPROVER_assume(0 <= (cv_s32)s && s <= 4)
/* frames: the generator's plus one small consumer coroutine per co_await step (styles 3, 4) */
#define CHECK_HEAP_CO do { \
  __CPROVER_assert(gh_allocs == 1 + *G_CO_FRAMES && gh_frames_typed == 1 + *G_CO_FRAMES, "the only dynamic allocations are the coroutine frames (the generator's, one per co_await step of the consumer)"); \
  __CPROVER_assert(gh_frees == gh_allocs, "every frame is freed exactly once"); } while (0)

/* W1 - what the consumer must observe AFTER the body's exception, derived from the property statement (not from the code):
 *   "exactly the sequence of values the body yields ... followed by a single end-of-sequence indication, whichever access style it uses
 *    or mixes ... An exception escaping the body surfaces to the consumer at exactly that position".
 * For a body that throws after pos values the observation is: the pos values, the exception (once, at position pos) - and with it the
 * sequence is over, because the body can produce nothing more.  So from the moment the exception has surfaced the generator has to
 * behave as one whose end has been reached: it says so (done() true, operator bool false) and asking again gives the end-of-sequence
 * indication of the style used (next() / co_await next() -> false, a fresh iterator == end()), every time, with no exception and no
 * value.  For the call styles the library's answer to asking a finished generator applies (a future without value or
 * no_more_values_exception - neither a value nor the body's exception again).
 * The unchanged library never marks a generator finished when its body ended by an exception: done() stays false, operator bool true,
 * and next() throws no_more_values_exception instead of returning false (replay/c13_after_exception.cpp). */
#ifdef DRIVE_after_exception
cv_i32 in_pos, in_style;
#define CALL2(K, S) drive_after_exception(K, a, b, c, e, S)
#define CALL(S) WITH_K2(in_pos, CALL2, S)
void h_drive(void) { in_pos = nondet_int(); __CPROVER_assume(0 <= (cv_s32)in_pos && in_pos <= 3);
  in_style = nondet_int(); __CPROVER_assume(AE_STYLE_LO <= (cv_s32)in_style && in_style <= AE_STYLE_HI); cv_i32 a, b, c, e;
  WITH_K(in_style, CALL);
  NO_EXC; CHECK_SEQ(in_pos, a, b, c);
  __CPROVER_assert(*G_EXC_N == 1 && *G_EXC_AT == in_pos && *G_EXC_VAL == e, "the body's exception surfaces exactly once, exactly at its position, carrying the thrown value (asking again never reports it a second time)");
  __CPROVER_assert(END == 0, "no regular end indication in place of, or before, the exception");
  __CPROVER_assert(*G_FIN_DONE == 1 && *G_FIN_BOOL == 0, "C13-FINDING-after-exception: once the body's exception has surfaced the sequence is over and the generator says so (done() true, operator bool false), as after a regular end");
  __CPROVER_assert(*G_AFTER_VAL == 0, "never a value after the exception");
  if (in_style == 1 || in_style == 4)
    __CPROVER_assert(*G_AFTER_END + *G_NMV == 2, "a call on the finished generator produces nothing, each time: a future without value or no_more_values_exception");
  else
    __CPROVER_assert(*G_AFTER_END == 2 && *G_NMV == 0, "C13-FINDING-after-exception: asking again after the exception gives the end-of-sequence indication of the style (next() / co_await next() false, a fresh iterator == end()), every time - not an exception");
  CHECK_GUARD(1); CHECK_HEAP_CO;
  if (in_style == AE_STYLE_LO) SENT_K(in_pos); else if (in_style == AE_STYLE_HI && in_pos == 2) __CPROVER_assert(0, "SENTINEL reachable: last style of the unit, throw after 2 values"); }
#endif
/* W2 - the co_await styles mixed with the synchronous ones, step by step (each co_await step is a small consumer coroutine) */
#ifdef DRIVE_mixed5
void h_drive(void) { PICK_K(k); cv_i32 a, b, c; PICK_STYLE5(s0); PICK_STYLE5(s1); PICK_STYLE5(s2); PICK_STYLE5(s3);
#define CALL(K) drive_mixed5(K, a, b, c, s0, s1, s2, s3)
  WITH_K(k, CALL);
  NO_EXC; CHECK_SEQ(k, a, b, c); CHECK_END1; CHECK_NO_BODY_EXC; CHECK_GUARD(1); CHECK_HEAP_CO;
  if (k == 3 && s0 == 3 && s1 == 0 && s2 == 4 && s3 == 2) __CPROVER_assert(0, "SENTINEL reachable: co_await next(), next(), co_await call, iterator");
  if (k == 2 && s0 == 1 && s1 == 4 && s2 == 3) __CPROVER_assert(0, "SENTINEL reachable: call, co_await call, co_await next() finds the end");
  if (k == 0 && s0 == 4) __CPROVER_assert(0, "SENTINEL reachable: empty body asked by co_await of the call future"); }
#endif
/* W2 - a throwing body read with a different style at every step, co_await styles included: the exception under co_await */
#ifdef DRIVE_throw_mixed
void h_drive(void) { PICK_K(pos); cv_i32 a, b, c, e; PICK_STYLE5(s0); PICK_STYLE5(s1); PICK_STYLE5(s2); PICK_STYLE5(s3);
#define CALL(K) drive_throw_mixed(K, a, b, c, e, s0, s1, s2, s3)
  WITH_K(pos, CALL);
  NO_EXC; CHECK_SEQ(pos, a, b, c);
  __CPROVER_assert(*G_EXC_N == 1 && *G_EXC_AT == pos && *G_EXC_VAL == e, "the body's exception surfaces exactly once, exactly at its position, carrying the thrown value - whichever style meets it (co_await styles included)");
  __CPROVER_assert(END == 0 && *G_NMV == 0, "nothing but the values and the body's exception is reported up to that position");
  CHECK_GUARD(1); CHECK_HEAP_CO;
  if (pos == 2 && s0 == 0 && s1 == 4 && s2 == 3) __CPROVER_assert(0, "SENTINEL reachable: next(), co_await call, the exception under co_await next()");
  if (pos == 1 && s0 == 3 && s1 == 4) __CPROVER_assert(0, "SENTINEL reachable: co_await next(), the exception under co_await of the call future");
  if (pos == 0 && s0 == 2) __CPROVER_assert(0, "SENTINEL reachable: throws at once, met by a fresh iterator");
  if (pos == 3 && s3 == 1) __CPROVER_assert(0, "SENTINEL reachable: three values, the exception in the future of a call"); }
#endif
