# C13 - Generator: consumer sees exactly the yielded sequence, in every access style
CHT = 'std::__n4861::coroutine_handle<void>'
DQT = 'std::deque<%s, std::allocator<%s > >' % (CHT, CHT)
WAIT = r'^std::atomic<bool>::wait\(bool, std::memory_order\) const$'
NOTIFY = r'^std::atomic<bool>::notify_all\(\)$'
DRV = 'c13_generator.cpp'

# ---------------------------------------------------------------------------------------------------------------- bounded drives
D_TYPES = {'CH': CHT, 'DQCH': DQT, 'ATOMB': 'std::atomic<bool>'}
# std::atomic<T*> members read sequentially at member-function level (lib/model_atomic_ptr_api.c)
AP = {'ap_aw_load': r'^std::atomic<cocls::awaiter\*>::load\(std::memory_order\) const$', 'ap_aw_xchg': r'^std::atomic<cocls::awaiter\*>::exchange\(',
      'ap_aw_cas': r'^std::atomic<cocls::awaiter\*>::compare_exchange_weak\(cocls::awaiter\*&, cocls::awaiter\*, std::memory_order, std::memory_order\)$',
      'ap_fu_load': r'^std::atomic<cocls::future<int>\*>::load\(std::memory_order\) const$', 'ap_fu_xchg': r'^std::atomic<cocls::future<int>\*>::exchange\(',
      'ap_fu_assign': r'^std::atomic<cocls::future<int>\*>::operator=\(cocls::future<int>\*\)$'}
AP_TYPES = {'ATOM_AW': 'std::atomic<cocls::awaiter *>', 'ATOM_FU': 'std::atomic<cocls::future<int> *>', 'AWT': 'cocls::awaiter', 'FUT': 'cocls::future<int>'}
D_GLOBALS = {'FRAME_KIND': 'g_frame_kind', 'G_OBS': 'g_obs', 'G_NOBS': 'g_nobs', 'G_END': 'g_end', 'G_EXC_N': 'g_exc_n', 'G_EXC_AT': 'g_exc_at', 'G_EXC_VAL': 'g_exc_val',
             'G_NMV': 'g_nmv', 'G_OTHER_EXC': 'g_other_exc', 'G_CTOR': 'g_ctor', 'G_DTOR': 'g_dtor', 'G_ARGS': 'g_args', 'G_NARGS': 'g_nargs', 'G_PENDING_SEEN': 'g_pending_seen'}
D_BOUNDARY = [r'^std::deque<std::__n4861::coroutine_handle<void>', WAIT, NOTIFY] + list(AP.values())
D_LIBS = ['rt_core.c', 'rt_atomic_seq.c', 'model_atomic_ptr_api.c', 'model_dq_drive.c', 'model_heap_frames.c']
FK = {'vals': 'X(1, S_gen_vals_Frame)', 'throw': 'X(2, S_gen_throw_Frame)', 'arg': 'X(3, S_gen_arg_Frame)', 'await': 'X(4, S_gen_await_Frame)', 'consumer': 'X(5, S_co_consumer_Frame)'}
def drive(name, what, frames=('vals',), unwind=8, timeout=150, **kw):
    FRAMES = 'CV_FRAME_KINDS ' + ' '.join(FK[f] for f in frames)
    d = dict(name='drive_' + name, driver=DRV, roots=['^drive_%s$' % name], names={}, names_opt=dict(AP, ab_wait=WAIT, ab_notify=NOTIFY), types=dict(D_TYPES, **AP_TYPES), globals=D_GLOBALS,
             boundary=D_BOUNDARY, lib=D_LIBS, spec=['C13/drive_atomics.h', 'C13/h_drive.c'], harness='h_drive', defines=['CV_NO_HEAP_PRIMS 1', FRAMES, 'DRIVE_%s 1' % name],
             unwind=unwind, object_bits=12, kind='bounded', timeout=timeout, bounded=what, under_contract=[])
    d.update(kw)
    return d
UNITS = [
    drive('next', 'synchronous body yielding k <= 3 symbolic values; consumer: next()/value() loop'),
    drive('range_for', 'k <= 3 symbolic values; consumer: range-for (begin / operator!= / operator* / operator++)'),
    drive('iter_postfix', 'k <= 3 symbolic values; consumer: explicit iterators with postfix increment and operator->'),
    drive('future', 'k <= 3 symbolic values; consumer: calls the generator, reads each future<int>'),
    drive('mixed', 'k <= 3 symbolic values; every sequence of 4 steps, each by next()/value(), call-to-future or a fresh iterator'),
    drive('throw', 'body throws a symbolic int after pos <= 3 values; each of the three synchronous styles', frames=('throw',)),
    drive('arg_next', 'generator<int,int>, k <= 3 values, symbolic arguments; next(arg)/value()', frames=('arg',)),
    drive('arg_future', 'generator<int,int>, k <= 3 values, symbolic arguments; call-to-future with rvalue arguments', frames=('arg',)),
    drive('early', 'k <= 3 values, generator destroyed after stop <= 4 steps (before the first activation / parked at a yield / finished)'),
    drive('move', 'k <= 3 values, generator object moved after the first step'),
    drive('co_await', 'k <= 3 values; the consumer is a coroutine: co_await next() / co_await of the call future', frames=('vals', 'consumer'), unwind=12),
    drive('await_future', 'body suspends on a pending future between two yields; consumer asks by call-to-future and resolves that future itself', frames=('await',)),
    drive('await_ready', 'body awaits an already resolved future between two yields; each of the three synchronous styles', frames=('await',)),
    drive('await_co_await', 'body suspends on a pending future; the consumer coroutine co_awaits next() / the call future; the future is resolved from outside', frames=('await', 'consumer'), unwind=12),
]
META = dict(level='proof', level_text='TODO', level_note='TODO', technique='TODO', trusted_base=[], assumptions=[], explanation='')
