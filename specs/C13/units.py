# C13 - Generator: consumer sees exactly the yielded sequence, in every access style
import os
CHT = 'std::__n4861::coroutine_handle<void>'
DQT = 'std::deque<%s, std::allocator<%s > >' % (CHT, CHT)
WAIT = r'^std::atomic<bool>::wait\(bool, std::memory_order\) const$'
NOTIFY = r'^std::atomic<bool>::notify_all\(\)$'
DRV = 'c13_generator.cpp'

# ---------------------------------------------------------------------------------------------------------------- bounded drives
D_TYPES = {'CH': CHT, 'DQCH': DQT, 'ATOMB': 'std::atomic<bool>'}
# std::atomic<T*> members read sequentially at member-function level (lib/model_atomic_ptr_api.c)
AP = {'ap_aw_load': r'^std::atomic<cocls::awaiter\*>::load\(std::memory_order\) const$', 'ap_aw_xchg': r'^std::atomic<cocls::awaiter\*>::exchange\(',
      'ap_aw_cas': r'^std::atomic<cocls::awaiter\*>::compare_exchange_weak\(cocls::awaiter\*&, cocls::awaiter\*, std::memory_order, std::memory_order\)$',
      'ap_fu_load': r'^std::atomic<cocls::future<int>\*>::load\(std::memory_order\) const$', 'ap_fu_xchg': r'^std::atomic<cocls::future<int>\*>::exchange\(',
      'ap_fu_assign': r'^std::atomic<cocls::future<int>\*>::operator=\(cocls::future<int>\*\)$'}
AP_TYPES = {'ATOM_AW': 'std::atomic<cocls::awaiter *>', 'ATOM_FU': 'std::atomic<cocls::future<int> *>', 'AWT': 'cocls::awaiter', 'FUT': 'cocls::future<int>'}
D_GLOBALS = {'FRAME_KIND': 'g_frame_kind', 'G_OBS': 'g_obs', 'G_NOBS': 'g_nobs', 'G_END': 'g_end', 'G_EXC_N': 'g_exc_n', 'G_EXC_AT': 'g_exc_at', 'G_EXC_VAL': 'g_exc_val',
             'G_NMV': 'g_nmv', 'G_OTHER_EXC': 'g_other_exc', 'G_CTOR': 'g_ctor', 'G_DTOR': 'g_dtor', 'G_ARGS': 'g_args', 'G_NARGS': 'g_nargs', 'G_PENDING_SEEN': 'g_pending_seen',
             'G_FIN_DONE': 'g_fin_done', 'G_FIN_BOOL': 'g_fin_bool', 'G_AFTER_END': 'g_after_end', 'G_AFTER_VAL': 'g_after_val', 'G_CO_FRAMES': 'g_co_frames'}
D_BOUNDARY = [r'^std::deque<std::__n4861::coroutine_handle<void>', WAIT, NOTIFY] + list(AP.values())
D_LIBS = ['rt_core.c', 'rt_atomic_seq.c', 'model_atomic_ptr_api.c', 'model_dq_drive.c', 'model_heap_frames.c']
FK = {'vals': 'X(1, S_gen_vals_Frame)', 'throw': 'X(2, S_gen_throw_Frame)', 'arg': 'X(3, S_gen_arg_Frame)', 'await': 'X(4, S_gen_await_Frame)', 'consumer': 'X(5, S_co_consumer_Frame)', 'costep': 'X(6, S_co_step_Frame)'}
def drive(name, what, frames=('vals',), unwind=8, timeout=150, **kw):
    FRAMES = 'CV_FRAME_KINDS ' + ' '.join(FK[f] for f in frames)
    d = dict(name='drive_' + name, driver=DRV, roots=['^drive_%s$' % name], names={}, names_opt=dict(AP, ab_wait=WAIT, ab_notify=NOTIFY), types=dict(D_TYPES, **AP_TYPES), globals=D_GLOBALS,
             boundary=D_BOUNDARY, lib=D_LIBS, spec=['C13/drive_atomics.h', 'C13/h_drive.c'], harness='h_drive', defines=['CV_NO_HEAP_PRIMS 1', FRAMES, 'DRIVE_%s 1' % name],
             unwind=unwind, object_bits=12, kind='bounded', timeout=timeout, bounded=what, under_contract=[])
    d['defines'] += kw.pop('defines_extra', [])
    if 'unit_name' in kw: d['name'] = kw.pop('unit_name')
    d.update(kw)
    return d
UNITS = [
    drive('next', 'synchronous body yielding k <= 3 symbolic values; consumer: next()/value() loop'),
    drive('range_for', 'k <= 3 symbolic values; consumer: range-for (begin / operator!= / operator* / operator++)'),
    drive('iter_postfix', 'k <= 3 symbolic values; consumer: explicit iterators with postfix increment and operator->'),
    drive('future', 'k <= 3 symbolic values; consumer: calls the generator, reads each future<int>'),
    drive('mixed', 'k <= 3 symbolic values; every sequence of 4 steps, each by next()/value(), call-to-future or a fresh iterator'),
    # after-exception oracle restated from the property (audit E / W1): replaces the former drive 'throw', whose clauses about the time after
    # the exception had been copied from the code.  Fails on a library that never marks a generator finished once its body threw.
    drive('after_exception', 'body throws a symbolic int after pos <= 3 values; synchronous styles next()/value(), call-to-future, fresh iterator; the consumer samples done() / operator bool and asks twice more after the exception',
          frames=('throw', 'costep'), unwind=8, timeout=300, defines_extra=['AE_STYLE_LO 0', 'AE_STYLE_HI 2'], unit_name='drive_after_exception_sync',
          replay=dict(src='c13_after_exception.cpp', mode='after_exception', flags=['-g'])),
    drive('after_exception', 'body throws a symbolic int after pos <= 3 values; consumer coroutine: co_await next() / co_await of the call future, one small coroutine per step; samples done() / operator bool and asks twice more after the exception',
          frames=('throw', 'costep'), unwind=8, timeout=300, defines_extra=['AE_STYLE_LO 3', 'AE_STYLE_HI 4'], unit_name='drive_after_exception_co',
          replay=dict(src='c13_after_exception.cpp', mode='after_exception', flags=['-g'])),
    drive('mixed5', 'k <= 3 symbolic values; every sequence of 4 steps over FIVE styles: next()/value(), call-to-future, fresh iterator, co_await next(), co_await of the call future (one small consumer coroutine per co_await step)',
          frames=('vals', 'costep'), unwind=8, timeout=400),
    drive('throw_mixed', 'body throws a symbolic int after pos <= 3 values; every step in a style of its own among the five (the exception is met under co_await too)',
          frames=('throw', 'costep'), unwind=8, timeout=400, replay=dict(src='c13_after_exception.cpp', mode='after_exception', flags=['-g'])),
    drive('arg_next', 'generator<int,int>, k <= 3 values, symbolic arguments; next(arg)/value()', frames=('arg',)),
    drive('arg_future', 'generator<int,int>, k <= 3 values, symbolic arguments; call-to-future with rvalue arguments', frames=('arg',)),
    drive('early', 'k <= 3 values, generator destroyed after stop <= 4 steps (before the first activation / parked at a yield / finished)'),
    drive('move', 'k <= 3 values, generator object moved after the first step'),
    drive('co_await', 'k <= 3 values; the consumer is a coroutine: co_await next() / co_await of the call future', frames=('vals', 'consumer'), unwind=12),
    drive('await_future', 'body suspends on a pending future between two yields; consumer asks by call-to-future and resolves that future itself', frames=('await',)),
    drive('await_ready', 'body awaits an already resolved future between two yields; each of the three synchronous styles', frames=('await',)),
    drive('await_co_await', 'body suspends on a pending future; the consumer coroutine co_awaits next() / the call future; the future is resolved from outside', frames=('await', 'consumer'), unwind=12),
]

# ---------------------------------------------------------------------------------------------------------------- contract units
def esc(x): return x.replace('(', r'\(').replace(')', r'\)').replace('*', r'\*').replace('+', r'\+')
def ap_of(val):
    """std::atomic<T*> members of the future<val>/promise<val> pair, read sequentially (lib/model_atomic_ptr_api.c)"""
    if val == 'int': return AP
    return {k: v.replace('future<int>', 'future<%s>' % val) for k, v in AP.items()}
def variant(arg, val='int'):
    """aliases / types of generator<val, arg>; val = 'int' or 'c13_mv' (drivers/c13_types.cpp), arg = 'void', 'int' or 'c13_mv'"""
    G = 'cocls::generator<%s, %s>' % (val, arg)
    PTX = '^' + esc(G) + '::promise_type::'
    NAX = '^' + esc(G) + '::next_awt::'
    ITX = '^' + esc('cocls::generator_iterator<%s >::' % G)
    A = 'int' if arg == 'void' else arg
    N = {
        'pt_yield_value_ref': PTX + r'yield_value\(%s&\)$' % val, 'pt_yield_value_rref': PTX + r'yield_value\(%s&&\)$' % val, 'pt_yield_value_null': PTX + r'yield_value\(decltype\(nullptr\)\)$',
        'ys_await_suspend': r'^std::__n4861::coroutine_handle<void> ' + esc(G) + r'::promise_type::yield_suspend::await_suspend<', 'ys_await_resume': PTX + r'yield_suspend::await_resume\(\)$',
        'yn_await_resume': PTX + r'yield_null::await_resume\(\)$', 'pt_final_suspend': PTX + r'final_suspend\(\)$', 'pt_return_void': PTX + r'return_void\(\)$',
        'pt_unhandled_exception': PTX + r'unhandled_exception\(\)$', 'pt_set_arg': PTX + r'set_arg\(%s&\)$' % A, 'pt_next_async': PTX + r'next_async\(cocls::awaiter\*\)$', 'pt_next_sync': PTX + r'next_sync\(\)$',
        'nf_lambda': r'^auto ' + esc(G) + r'::promise_type::next_future\(\)::\{lambda\(auto:1&&\)#1\}::operator\(\)<cocls::promise<%s> >' % val, 'pt_next_future': PTX + r'next_future\(\)$',
        'pt_unblock_sync': PTX + r'unblock_sync\(\)$', 'pt_unblock_future': PTX + r'unblock_future\(\)$', 'pt_resume_fn_sync': PTX + r'resume_fn_sync\(', 'pt_resume_fn_future': PTX + r'resume_fn_future\(',
        'pt_done': PTX + r'done\(\) const$', 'pt_value': PTX + r'value\(\)$', 'pt_exception': PTX + r'exception\(\) const$',
        'na_bool': NAX + r'operator bool\(\) const$', 'na_not': NAX + r'operator!\(\) const$', 'na_await_ready': NAX + r'await_ready\(\) const$',
        'na_await_suspend': NAX + r'await_suspend\(std::__n4861::coroutine_handle<void>\)$', 'na_await_resume': NAX + r'await_resume\(\) const$', 'na_subscribe': NAX + r'subscribe\(cocls::awaiter\*\)$',
        'gen_next': '^' + esc(G) + '::next_awt ' + esc(G) + r'::next<(>|%s&>)' % A, 'gen_next_rv': '^' + esc(G) + '::next_awt ' + esc(G) + r'::next<%s>\(' % A, 'gen_call_rv': r'^cocls::future<%s> ' % val + esc(G) + r'::operator\(\)<%s>\(' % A, 'gen_value': '^' + esc(G) + r'::value\(\)$', 'gen_call': r'^cocls::future<%s> ' % val + esc(G) + r'::operator\(\)<(>|%s&>)' % A,
        'gen_done': '^' + esc(G) + r'::done\(\) const$', 'gen_bool': '^' + esc(G) + r'::operator bool\(\) const$', 'gen_begin': '^drv_gen_begin$', 'gen_end': '^drv_gen_end$',
        'gen_deleter': '^' + esc(G) + r'::deleter::operator\(\)\(', 'gen_get_id': '^' + esc(G) + r'::get_id\(\)$',
        'it_ctor_fin': ITX + r'generator_iterator\(' + esc(G) + r'&, bool\)$', 'it_ctor': ITX + r'generator_iterator\(' + esc(G) + r'&\)$', 'it_eq': ITX + r'operator==\(', 'it_ne': ITX + r'operator!=\(',
        'it_inc': ITX + r'operator\+\+\(\)$', 'it_postinc': ITX + r'operator\+\+\(int\)$', 'it_deref': ITX + r'operator\*\(\) const$', 'it_arrow': ITX + r'operator->\(\) const$',
        # abstract callees (recording stubs in C13/g_spec.h)
        'chpt_resume': r'^std::__n4861::coroutine_handle<' + esc(G) + r'::promise_type>::resume\(\) const$', 'chpt_destroy': r'^std::__n4861::coroutine_handle<' + esc(G) + r'::promise_type>::destroy\(\) const$',
        'chpt_address': r'^std::__n4861::coroutine_handle<' + esc(G) + r'::promise_type>::address\(\) const$',
        'chv_resume': r'^std::__n4861::coroutine_handle<void>::resume\(\) const$', 'ab_wait': WAIT, 'ab_notify': NOTIFY, 'aw_resume': r'^cocls::awaiter::resume\(\)$',
        'sp_suspend_now': r'^cocls::suspend_point<void>::suspend_now\(\)$',
        'pr_call_drop': r'^cocls::suspend_point<bool> cocls::promise<%s>::operator\(\)<cocls::DropTag>' % val, 'pr_call_exc': r'^cocls::suspend_point<bool> cocls::promise<%s>::operator\(\)<std::__exception_ptr::exception_ptr&>' % val,
        'pr_call_val': r'^cocls::suspend_point<bool> cocls::promise<%s>::operator\(\)<%s&>' % (val, val), 'pr_dtor_stub': r'^cocls::promise<%s>::~promise\(\)$' % val,
        # the promise called with an RVALUE of the value type: not called by the unchanged library (names_opt); its stub constructs the future's value by MOVE
        'pr_call_rval': r'^cocls::suspend_point<bool> cocls::promise<%s>::operator\(\)<%s>\(' % (val, val),
        'fut_set_val': r'^void cocls::future<%s>::set<%s&>\(' % (val, val),
        # the constructors of the value type as plain functions (drivers/c13_types.cpp)
        'mv_copy': '^drv_mv_copy$', 'mv_move': '^drv_mv_move$',
    }
    for a in ('pt_unblock_future', 'pt_next_sync', 'pt_next_async', 'pt_next_future', 'na_bool', 'gen_value', 'nf_lambda'): N[a + '_stub'] = N[a]
    N['RESUME_FN_SYNC'] = N['pt_resume_fn_sync']; N['RESUME_FN_FUTURE'] = N['pt_resume_fn_future']
    T = {'PT': G + '::promise_type', 'GEN': G, 'DEL': G + '::deleter',
         'CHPT': 'std::__n4861::coroutine_handle<%s::promise_type>' % G, 'CH': CHT, 'AWT': 'cocls::awaiter', 'SP': 'cocls::suspend_point<void>', 'SPB': 'cocls::suspend_point<bool>',
         'PROM': 'cocls::promise<%s>' % val, 'FUT': 'cocls::future<%s>' % val, 'EXCP': 'std::__exception_ptr::exception_ptr', 'ATOMB': 'std::atomic<bool>',
         'ATOM_AW': 'std::atomic<cocls::awaiter *>', 'ATOM_FU': 'std::atomic<cocls::future<%s> *>' % val}
    if arg == 'void': T['ITER'] = 'cocls::generator_iterator<%s >' % G
    if val != 'int': T['VAL'] = val
    if arg not in ('void', 'int'): T['ARGT'] = arg
    return G, N, T
C_GLOBALS = {'NOOP_FRAME': '_ZNSt7__n486116coroutine_handleINS_22noop_coroutine_promiseEE5_S_frE', 'TI_NO_MORE_VALUES': '_ZTIN5cocls24no_more_values_exceptionE',
             'TI_VALUE_NOT_READY': '_ZTIN5cocls25value_not_ready_exceptionE'}
C_LIBS = ['rt_core.c', 'rt_atomic_seq.c', 'model_atomic_ptr_api.c']
MV = 'c13_mv'
VAR = {('int', 'void'): variant('void'), ('int', 'int'): variant('int'), (MV, 'void'): variant('void', MV), ('int', MV): variant(MV)}
DRV_T = 'c13_types.cpp'
def cu(name, alias, arg='void', uses=(), fnptr=(), lam=False, val='int', extra=(), key=None, **kw):
    """one function under contract; `uses` = abstract callees (boundary + recording stub), `fnptr` = functions whose address is compared,
    `extra` = further translated functions the stubs call (roots + aliases); val/arg select the instantiation generator<val, arg>"""
    G, N, T = VAR[(val, arg)]
    APV = ap_of(val)
    key = key or alias      # `key`: entry of N that the alias is bound to (rvalue-argument overloads share the contract of the lvalue ones)
    names = {alias: N[key]}
    for f in fnptr: names[f] = N[f]
    for f in extra: names[f] = N[f]
    names_opt = dict(APV); names_opt.update({a: N[a] for a in uses})
    boundary = list(APV.values()) + [N[a] for a in uses] + [N[f] for f in fnptr]
    sfx = ('_mv' if val == MV else '') + ('_arg' if arg == 'int' else '_argmv' if arg == MV else '')
    defs = (['GEN_ARG 1'] if arg != 'void' else []) + (['CV_VAL_MV 1'] if val == MV else []) + (['CV_ARG_MV 1'] if arg == MV else [])
    d = dict(name=name + sfx, driver=(DRV if (val, arg) in (('int', 'void'), ('int', 'int')) else DRV_T), roots=[N[key]] + [N[f] for f in extra], names=names, names_opt=names_opt, types=T, globals=C_GLOBALS, boundary=boundary, lib=C_LIBS,
             spec=['C13/drive_atomics.h', 'C13/g_spec.h', 'C13/h_g.c'], harness='h_' + name, enforce=alias, defines=defs,
             under_contract=[N[key].lstrip('^').rstrip('$').replace('\\', '')], timeout=300)
    # class types the debug-info resolver does not find (nested classes of the template): taken from parameter 0 of a member in the unit
    pt = {}
    if lam: pt['NF_LAM'] = N['nf_lambda'] + '#0'
    allal = [alias] + list(uses)
    na = [a for a in allal if a.startswith('na_')]
    if na: pt['NAWT'] = N[na[0]] + '#0'
    elif alias == 'gen_next': pt['NAWT'] = N[key] + '#0'
    if alias.startswith('ys_'): pt['YS'] = N[alias] + '#0'
    if alias.startswith('yn_'): pt['YN'] = N[alias] + '#0'
    if alias == 'it_postinc' and val != 'int': pt['ISTORE'] = N[alias] + '#0'
    if pt: d['ptypes'] = pt
    d.update(kw)
    return d
# native replay of the after-exception clause (audit E / W1): all styles x throw positions when no input is given
AE_REPLAY = dict(src='c13_after_exception.cpp', mode='after_exception', flags=['-g'])
CONTRACT_UNITS = [
    cu('yield_value_ref', 'pt_yield_value_ref'), cu('yield_value_rref', 'pt_yield_value_rref'),
    cu('yield_value_ref', 'pt_yield_value_ref', 'int'), cu('yield_value_null', 'pt_yield_value_null', 'int'),
    cu('ys_await_suspend', 'ys_await_suspend', uses=('aw_resume', 'sp_suspend_now')), cu('ys_await_suspend', 'ys_await_suspend', 'int', uses=('aw_resume', 'sp_suspend_now')),
    cu('ys_await_resume', 'ys_await_resume'), cu('ys_await_resume', 'ys_await_resume', 'int'), cu('yn_await_resume', 'yn_await_resume', 'int'),
    cu('final_suspend', 'pt_final_suspend'), cu('return_void', 'pt_return_void'), cu('unhandled_exception', 'pt_unhandled_exception'),
    cu('set_arg', 'pt_set_arg', 'int'),
    cu('next_async', 'pt_next_async', replay=dict(src='c13_next_async_refused.cpp', mode='refused', flags=['-fno-access-control', '-g'])),
    cu('next_sync', 'pt_next_sync', uses=('chpt_resume', 'ab_wait'), fnptr=('RESUME_FN_SYNC',)), cu('next_sync', 'pt_next_sync', 'int', uses=('chpt_resume', 'ab_wait'), fnptr=('RESUME_FN_SYNC',)),
    cu('nf_lambda', 'nf_lambda', uses=('chpt_resume',), fnptr=('RESUME_FN_FUTURE',), lam=True, object_bits=10), cu('nf_lambda', 'nf_lambda', 'int', uses=('chpt_resume',), fnptr=('RESUME_FN_FUTURE',), lam=True, object_bits=10),
    cu('next_future', 'pt_next_future', uses=('nf_lambda_stub', 'pr_dtor_stub'), lam=True),
    cu('unblock_sync', 'pt_unblock_sync', uses=('ab_notify',)),
    cu('unblock_future', 'pt_unblock_future', uses=('pr_call_drop', 'pr_call_exc', 'pr_call_val', 'pr_call_rval', 'sp_suspend_now'), replay=AE_REPLAY),
    cu('resume_fn_sync', 'pt_resume_fn_sync', uses=('ab_notify',)), cu('resume_fn_future', 'pt_resume_fn_future', uses=('pt_unblock_future_stub',)),
    cu('pt_done', 'pt_done'), cu('pt_value', 'pt_value'), cu('pt_exception', 'pt_exception'),
    cu('na_bool', 'na_bool', uses=('pt_next_sync_stub',)), cu('na_not', 'na_not', uses=('pt_next_sync_stub',)), cu('na_bool', 'na_bool', 'int', uses=('pt_next_sync_stub',)),
    cu('na_await_ready', 'na_await_ready'), cu('na_await_suspend', 'na_await_suspend', uses=('pt_next_async_stub',)), cu('na_await_resume', 'na_await_resume'),
    cu('na_subscribe', 'na_subscribe', uses=('pt_next_async_stub', 'chv_resume')),
    cu('gen_next', 'gen_next'), cu('gen_next', 'gen_next', 'int'), cu('gen_value', 'gen_value', replay=AE_REPLAY),
    cu('gen_call', 'gen_call', uses=('pt_next_future_stub',)), cu('gen_call', 'gen_call', 'int', uses=('pt_next_future_stub',)),
    # the same contracts on the rvalue-argument overloads (stepping with a temporary: argument installed, nothing allocated - seed C20-4)
    cu('gen_next_rv', 'gen_next', 'int', key='gen_next_rv', harness='h_gen_next'), cu('gen_call_rv', 'gen_call', 'int', uses=('pt_next_future_stub',), key='gen_call_rv', harness='h_gen_call'),
    cu('gen_done', 'gen_done'), cu('gen_bool', 'gen_bool'),
    cu('gen_begin', 'gen_begin', uses=('na_bool_stub',), under_contract=['cocls::generator<int, void>::begin()']), cu('gen_end', 'gen_end', under_contract=['cocls::generator<int, void>::end()']), cu('gen_deleter', 'gen_deleter', uses=('chpt_destroy',)),
    cu('it_ctor_fin', 'it_ctor_fin'), cu('it_ctor', 'it_ctor', uses=('na_bool_stub',)), cu('it_eq', 'it_eq'), cu('it_ne', 'it_ne'),
    cu('it_inc', 'it_inc', uses=('na_bool_stub',)), cu('it_deref', 'it_deref', uses=('gen_value_stub',)), cu('it_arrow', 'it_arrow', uses=('gen_value_stub',)),
    cu('it_postinc', 'it_postinc', uses=('gen_value_stub', 'na_bool_stub')),
]
# ---- value types (task B3): generator<c13_mv> - a value type whose move differs from its copy - and generator<int, c13_mv> (drivers/c13_types.cpp).
# The members that TRANSPORT the value / the argument, under the same contracts + the value clause (g_spec.h: VAL_IS): the object the consumer
# reads is the yielded one, holds the yielded payload and has not been moved from; reading does not consume.
PC_USES = ('pr_call_drop', 'pr_call_exc', 'pr_call_val', 'pr_call_rval', 'sp_suspend_now')
VALUE_UNITS = [
    cu('yield_value_ref', 'pt_yield_value_ref', val=MV), cu('yield_value_rref', 'pt_yield_value_rref', val=MV),
    cu('unblock_future', 'pt_unblock_future', val=MV, uses=PC_USES, extra=('mv_copy', 'mv_move')),
    cu('pt_value', 'pt_value', val=MV), cu('gen_value', 'gen_value', val=MV), cu('na_await_resume', 'na_await_resume', val=MV),
    cu('it_deref', 'it_deref', val=MV, uses=('gen_value_stub',)), cu('it_arrow', 'it_arrow', val=MV, uses=('gen_value_stub',)),
    cu('it_postinc', 'it_postinc', val=MV, uses=('gen_value_stub', 'na_bool_stub'), **({'defines': ['CV_VAL_MV 1', 'C13_POSTINC_STRICT 1']} if os.environ.get('C13_POSTINC_STRICT') else {})),
    cu('gen_call', 'gen_call', val=MV, uses=('pt_next_future_stub',)),
    cu('nf_lambda', 'nf_lambda', val=MV, uses=('chpt_resume',), fnptr=('RESUME_FN_FUTURE',), lam=True, object_bits=10),
    cu('next_future', 'pt_next_future', val=MV, uses=('nf_lambda_stub', 'pr_dtor_stub'), lam=True),
    cu('fut_set_val', 'fut_set_val', val=MV),
    # argument routing with an argument type that is not int
    cu('set_arg', 'pt_set_arg', MV), cu('ys_await_resume', 'ys_await_resume', MV), cu('yn_await_resume', 'yn_await_resume', MV),
    cu('gen_next', 'gen_next', MV), cu('gen_call', 'gen_call', MV, uses=('pt_next_future_stub',)),
    # coverage: generator::get_id()
    cu('gen_get_id', 'gen_get_id'),
]
# bounded drives with the value type c13_mv / the argument type c13_mv (really lowered coroutines of drivers/c13_types.cpp)
T_GLOBALS = {'FRAME_KIND': 'g_frame_kind', 'G_OBS': 'g_obs', 'G_MOVED': 'g_moved', 'G_NOBS': 'g_nobs', 'G_AGAIN': 'g_again', 'G_AGAIN_MOVED': 'g_again_moved', 'G_END': 'g_end',
             'G_OTHER_EXC': 'g_other_exc', 'G_BODY_MOVED': 'g_body_moved', 'G_ARGS': 'g_args', 'G_ARGS_MOVED': 'g_args_moved', 'G_NARGS': 'g_nargs'}
def drive_t(name, root, what, val, frames, defines, unwind=8, timeout=400, **kw):
    APV = ap_of(val)
    tp = dict(D_TYPES, **{'ATOM_AW': 'std::atomic<cocls::awaiter *>', 'ATOM_FU': 'std::atomic<cocls::future<%s> *>' % val, 'AWT': 'cocls::awaiter', 'FUT': 'cocls::future<%s>' % val})
    d = dict(name='drive_' + name, driver=DRV_T, roots=['^%s$' % root], names={}, names_opt=dict(APV, ab_wait=WAIT, ab_notify=NOTIFY), types=tp, globals=T_GLOBALS,
             boundary=[r'^std::deque<std::__n4861::coroutine_handle<void>', WAIT, NOTIFY] + list(APV.values()), lib=D_LIBS, spec=['C13/drive_atomics.h', 'C13/h_drive_types.c'], harness='h_drive',
             defines=['CV_NO_HEAP_PRIMS 1', 'CV_FRAME_KINDS ' + frames] + defines, unwind=unwind, object_bits=12, kind='bounded', timeout=timeout, bounded=what, under_contract=[])
    d.update(kw)
    return d
MV_FRAMES = 'X(1, S_gen_mv_Frame) X(3, S_co_step_mv_Frame)'
TYPE_DRIVES = [
    drive_t('mv_sync', 'drive_mv', 'generator<c13_mv> (move differs from copy), k <= 3 symbolic payloads (an lvalue kept by the body, a temporary, the lvalue again); every sequence of 4 steps over next()/value(), call-to-future, fresh iterator operator*; every item read twice',
            MV, MV_FRAMES, ['DRIVE_mv 1', 'MV_STYLE_LO 0', 'MV_STYLE_HI 2']),
    drive_t('mv_co', 'drive_mv', 'generator<c13_mv>, k <= 3 symbolic payloads; every sequence of 4 steps over co_await next(), co_await of the call future (one small consumer coroutine per step), fresh iterator operator->; every item read twice',
            MV, MV_FRAMES, ['DRIVE_mv 1', 'MV_STYLE_LO 3', 'MV_STYLE_HI 5']),
    drive_t('argmv', 'drive_argmv', 'generator<int, c13_mv>, k <= 2 values, symbolic argument payloads; next(arg)/value() and call-to-future with lvalue arguments', 'int', 'X(2, S_gen_argmv_Frame)', ['DRIVE_argmv 1']),
]
UNITS = CONTRACT_UNITS + VALUE_UNITS + UNITS + TYPE_DRIVES

META = dict(
    level='proof',
    level_text='PROVED (contracts, unbounded): every record-keeping function of generator<int> and generator<int,int> - promise_type::yield_value (3 overloads), yield_suspend::await_suspend / await_resume, yield_null::await_resume, final_suspend, return_void, unhandled_exception, set_arg, next_async, next_sync, the functor of next_future, next_future, unblock_sync, unblock_future, resume_fn_sync, resume_fn_future, done, value, exception; next_awt::operator bool / operator! / await_ready / await_suspend / await_resume / subscribe; generator::next / value / operator() / done / operator bool / begin / end / deleter; every generator_iterator member - satisfies a contract taken from the property over the hand-over record {_caller, _internal, _arg, _ret, _exp, _done, _block, _awaiting}: the request is cleared before exactly the asker is resumed exactly once and whatever the asker made ready is continued or scheduled, none lost (yield_suspend::await_suspend); value() returns the object of the last co_yield or rethrows the very exception stored; unblock_future resolves the pending call exactly once with drop / that exception / that value (exception before value); handing the stored exception to the consumer (the rethrow in value(), the resolution of the call future) marks the record finished - for the call future before the consumer can look - while unhandled_exception itself must not (the exception would be dropped instead of surfacing), and a value or an end leaves the end marker alone (after-exception clause, see level_note); the argument pointer the body reads is the one installed by the resuming call; next_sync completes the record before the body runs, resumes it once, waits with acquire order and returns only after the body handed back; operator bool steps at most once per next() and never on a finished generator; it++ hands out the value read before the step; nothing allocates (C20). VALUE TYPES (units *_mv / *_argmv, drivers/c13_types.cpp): the members that transport the value are proved again for generator<c13_mv> - c13_mv {payload, moved_from} is a value type whose MOVE empties and flags its source while its COPY leaves it intact (what std::string does) - under the same contracts plus the value clause taken from "exactly the sequence of values the generator body yields - same values ... whichever access style it uses or mixes": yield_value(T&) / yield_value(T&&) remember the body\'s OBJECT and do not touch it; promise_type::value() / generator::value() hand out that object, holding the yielded payload, not moved from, and reading does not consume (record and object unchanged, so a second read gives the same); unblock_future gives the call future a value constructed from that object (the abstract promise runs the REAL copy / move constructor of c13_mv, translated) holding the yielded payload AND leaves the generator\'s own item un-moved - handing it over by move is a violation (seeded change C13-2: VIOLATION in unblock_future_mv, 11 s; the int unit now PASSES on that change - for int a move is a copy - instead of timing out); future<c13_mv>::set(c13_mv&) (the step behind promise::operator()) copy-constructs the future\'s value and leaves the source intact; next_awt::await_resume touches nothing but its state flag; iterator operator* / operator-> hand out exactly what value() gives; it++ hands out storage holding the current value read BEFORE the step; operator() / next_future / its functor for future<c13_mv>. ARGUMENT TYPE that is not int (generator<int, c13_mv>): set_arg, yield_suspend::await_resume, yield_null::await_resume, next(arg), operator()(arg) - the body reads exactly the object installed by the resuming call. generator::get_id() = address of the frame the promise lives in. BOUNDED (drives of the really lowered coroutines, never counted as proof): generator<c13_mv> with k <= 3 symbolic payloads (an lvalue the body keeps, a temporary, the lvalue again), every sequence of 4 steps over {next()/value(), call-to-future, iterator operator*} and over {co_await next(), co_await of the call future, iterator operator->}, every item read TWICE: payloads in order, no observed object moved from, the second read equal, the body finds its lvalue intact; generator<int, c13_mv> with k <= 2: argument payloads echoed, argument objects neither moved from nor consumed. Further (int): for scripted bodies with k <= 3 symbolic values, optional throw at any position, optional argument, optional co_await of a ready or a pending future, and the consumer styles next()/value(), range-for, explicit iterators, call-to-future, co_await next() and co_await of the call future from a consumer coroutine, every sequence of 4 steps mixed from the three synchronous styles and from all five styles (each co_await step a small consumer coroutine of its own), a throwing body met by a different style at every step (co_await styles included): observed sequence == yielded sequence, exactly one end indication, exception exactly once and exactly at its position, after the exception done() true / operator bool false and asking again (twice) gives the end indication of the style, argument echo, locals destroyed exactly once when the generator is dropped before the first activation / parked at a yield / finished, allocations == frames and all freed.',
    level_note='The quantifier "for every body script and every sequence of access styles" is covered by the contracts only function by function (each contract is the inductive step of the record invariant; no machine-checked history lemma composes them) and by the drives only up to the stated bounds. Trusted: abstract callees (coroutine resumption/destruction, resumption of the asking awaiter, promise resolution, suspend_now, atomic<bool>::wait/notify_all, neighbouring members in forwarder units) as recording stubs with arbitrary admissible results; std::atomic<T*> members read sequentially at member-function level (the record is owned by one thread at a time; release/acquire of the hand-over itself is C03); in drives additionally the FIFO ring for the ready queue, typed frame allocation, compare_exchange_weak without spurious failure. Not covered: bodies completed by ANOTHER thread while the consumer blocks in next_sync (only through the wait primitive of the next_sync contract: a blocking wait ends when the flag is raised), memory orders of _block beyond "wait uses acquire", value types other than int and c13_mv (the transport members are generic in T: they pass pointers / references, the only constructions of a T are in future::set and iterator::storage - both covered with c13_mv; types with throwing copy constructors are not covered), the six-style mix in ONE drive for c13_mv (two drives of three styles each), generator_iterator::storage::operator* / operator-> (do not compile when instantiated: const member returning a non-const reference, so `*it++` is unusable). AFTER-EXCEPTION CLAUSE (restated from the statement after the audit of group E, item W1; the former drive accepted whatever the code did): the statement promises "exactly the sequence of values ... followed by a single end-of-sequence indication, whichever access style it uses or mixes" and "an exception escaping the body surfaces to the consumer at exactly that position". For a body that throws after k values the observation is therefore: the k values, the exception (once, at position k), and with it the sequence is over - the body can produce nothing more. Reading adopted: from the moment the exception has surfaced the generator must behave as one whose end has been reached - done() true, operator bool false, and asking again gives the end-of-sequence indication of the style used (next() / co_await next() false, a fresh iterator == end()), every time, without an exception and without a value; for the call styles the library\'s answer to calling a finished generator (a future without value or no_more_values_exception) is accepted, as in drive `future`. Reading rejected: "the exception is itself the end indication, any later access may throw no_more_values_exception" - the statement asks for the end indication in whichever style, the styles next() / iterator / co_await next() have an in-band one that the library documents (next_awt: "false - next item is not available"; generator::done(): "returns true, if the generator is finished"), and a consumer that handles the failed item and goes on reading (`for(;;) try { if (!g.next()) break; use(g.value()); } catch (...) {}`) terminates only if it gets it: on the unchanged library it receives no_more_values_exception for ever while done() stays false and operator bool true for a generator that is finished. On the unchanged tree this clause FAILS (genuine defect, native replay replay/c13_after_exception.cpp, all 5 styles x 4 throw positions): units gen_value (postcondition: rethrow ==> finished), unblock_future (postcondition: exception handed to the call future ==> finished, already at the resolution), drive_after_exception_sync and drive_after_exception_co (two assertions each, prefix C13-FINDING-after-exception). Repair: specs/C13/fix_after_exception.diff (generator.h: the end marker is set when the stored exception is handed over - in generator::value() before the rethrow and in unblock_future before the promise is resolved; unhandled_exception is left alone: marking the end there makes every style drop the exception, which the drives and the assigns clause of unit unhandled_exception reject). With the repair all 68 units pass and the 15 library tests pass. The earlier finding on next_async (request left behind when refused) is repaired in /repo (9bcf8c0). OBSERVATION (value types, no violation claimed): generator_iterator::operator++(int) builds the handed-out storage by MOVING from the generator\'s item (`storage z{std::move(_gen->value())}`), i.e. from the body\'s own object when the body yielded an lvalue - a body that keeps using it (`s += c; co_yield s;`) finds it emptied after a postfix increment; confirmed natively (replay/c13_postinc_moves.cpp: the same body read by range-for gives a ab abc abcd, read by it++ gives a b c d) - the observed sequence depends on the access style, against "whichever access style it uses or mixes". Candidate defect, NOT registered in known_findings.json, therefore the clause is opt-in: C13_POSTINC_STRICT=1 ./check C13 quick --unit it_postinc_mv adds "the body\'s object is left intact" (marker C13-FINDING-postinc-moves) and FAILS on the unchanged tree, passes with specs/C13/fix_postinc_copy.diff (copy instead of move). Without the switch unit it_postinc_mv admits the move. Prefix ++ / range-for do not move.',
    technique='CBMC 6.11 code contracts (requires/ensures/assigns) enforced per function via goto-instrument --dfcc on the C translation of clang IR of generator.h / iterator.h, abstract callees as recording stubs; plus bounded symbolic execution (plain cbmc, unwinding assertions) of driver scenarios in which clang has lowered generator bodies and consumer coroutines to ramp/resume/destroy functions and ir2c devirtualises coroutine_handle::resume()',
    trusted_base=['abstract callees recorded in ghost state (specs/C13/g_spec.h): coroutine_handle<promise_type>::resume/destroy, coroutine_handle<>::resume, awaiter::resume, suspend_point<void>::suspend_now, promise<int>::operator() (3 instantiations), promise<int>::~promise, std::atomic<bool>::wait / notify_all',
                  'std::atomic<T*> load / exchange / compare_exchange_weak / operator= read sequentially at member-function level, no spurious CAS failure (lib/model_atomic_ptr_api.c)',
                  'drives: std::deque<coroutine_handle<>> = bounded FIFO ring (lib/model_dq_drive.c); operator new/delete with coroutine frames allocated as typed objects (lib/model_heap_frames.c); atomic<bool>::wait = obligation "already satisfied" in a single-threaded drive (specs/C13/h_drive.c)',
                  'exception model of lib/rt_core.c (exception_ptr = pointer to the thrown object, reference counts counted, not freed)',
                  'units *_mv: promise<c13_mv>::operator()(T& / T&&) = recording stub that constructs the future\'s value from its argument with the real translated copy / move constructor of c13_mv (what future::set does - unit fut_set_val_mv proves the copy case on the real code); c13_mv itself (drivers/c13_types.cpp) stands for "a type whose move differs from its copy"'],
    assumptions=['contract units: the promise lives in a coroutine frame laid out as the ABI prescribes (resume slot, destroy slot, promise at offset 16; NULL resume slot = final suspend point)',
                 'hand-over invariant assumed by unblock_future: the record describes an end, an exception or a value (established by yield_value / final_suspend + return_void / unhandled_exception, each proved)',
                 'next_sync / next_future / next_async preconditions: the generator is idle (_caller == NULL, no promise parked) - the documented "Generator is busy" contract of the library',
                 'drives: bounded(k <= 3 values, <= 4 consumer steps past them, one generator, one consumer coroutine or one small consumer coroutine per co_await step, one awaited future); single thread; a throw under co_await is covered for synchronous bodies only (a body that suspends on a pending awaitable and then throws is not driven)'],
    explanation='see level_text')

# units whose contracts carry the no-allocation clause of C20 (stepping a generator: yield, hand-back, the three ways to ask, iterator step)
C20_UNITS = ['yield_value_ref', 'yield_value_rref', 'ys_await_suspend', 'ys_await_resume', 'final_suspend', 'return_void', 'unhandled_exception',
             'next_async', 'next_sync', 'unblock_sync', 'resume_fn_sync', 'na_bool', 'na_await_ready', 'na_await_suspend', 'na_await_resume',
             'gen_next', 'gen_value', 'it_inc', 'it_deref', 'it_postinc',
             'drive_next', 'drive_range_for', 'drive_iter_postfix',      # end-to-end stepping of a synchronous generator: 'the only dynamic allocations are the coroutine frames' (bounded; decides rewrites that change a member's signature - seed C20-5)
             'gen_next_arg', 'gen_call_arg', 'gen_next_rv_arg', 'gen_call_rv_arg', 'set_arg_arg', 'next_sync_arg', 'ys_await_resume_arg', 'yn_await_resume_arg', 'yield_value_ref_arg', 'yield_value_null_arg', 'na_bool_arg']
