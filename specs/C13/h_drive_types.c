/* C13 - BOUNDED DRIVES with a value type whose move differs from its copy (drivers/c13_types.cpp, c13_mv) and with an argument type that
 * is not int.  Never counted as proof.  Same machinery as h_drive.c (really lowered coroutines, ring ready queue, typed frames).
 * Oracle (from the property statement): "A consumer observes exactly the sequence of values the generator body yields - same values, same
 * order, none skipped or repeated ... whichever access style it uses or mixes": every observed object holds the payload the body yielded
 * at that position and has NOT been moved from; reading the same item a second time (through the generator's own value() / the iterator -
 * i.e. mixing styles on one item) gives the same value, un-moved; the body finds the lvalues it yielded intact when it is resumed; one end
 * indication.  Argument drive: "a generator taking an argument receives ... exactly the argument passed with the call that resumed it" -
 * the very payloads, objects not moved from, the caller's objects untouched. */
int nondet_int(void);
unsigned gh_wait_calls, gh_notify_calls;
#ifdef CV_HAS_ab_wait
void ab_wait(ATOMB *flag, cv_i1 old, cv_i32 order) { gh_wait_calls++;
  __CPROVER_assert((*(cv_i8 *)flag & 1) != old, "single-threaded drive: a blocking wait is entered only after the awaited step has completed"); }
#endif
#ifdef CV_HAS_ab_notify
void ab_notify(ATOMB *flag) { gh_notify_calls++; }
#endif
#define OBS(i) ((*G_OBS)[i])
#define MOVED(i) ((*G_MOVED)[i])
#define AGAIN(i) ((*G_AGAIN)[i])
#define AGAIN_MOVED(i) ((*G_AGAIN_MOVED)[i])
#define PICK_K(k, hi) cv_i32 k = nondet_int(); __CPROVER_assume(0 <= (cv_s32)k && k <= (hi))
#define WITH_K(k, CALL) do { if ((k) == 0) { CALL(0); } else if ((k) == 1) { CALL(1); } else if ((k) == 2) { CALL(2); } else { CALL(3); } } while (0)
#define CHECK_ITEM(i, v, txt) do { if ((i) < k) { \
  __CPROVER_assert(OBS(i) == (v), "value type c13_mv: " txt " observed value is the yielded value (payload)"); \
  __CPROVER_assert(MOVED(i) == 0, "value type c13_mv: " txt " observed object has not been moved from"); \
  __CPROVER_assert(AGAIN(i) == (v) && AGAIN_MOVED(i) == 0, "value type c13_mv: " txt " item read a second time (value() / iterator) is the same value, un-moved"); } } while (0)
#ifdef DRIVE_mv
/* styles: 0 next()/value()  1 call -> future  2 fresh iterator operator*  3 co_await next()  4 co_await of the call future  5 iterator operator-> */
#define PICK_S(s) cv_i32 s = nondet_int(); __CPROVER_assume(MV_STYLE_LO <= (cv_s32)s && s <= MV_STYLE_HI)
void h_drive(void) { PICK_K(k, 3); cv_i32 a, b, c; PICK_S(s0); PICK_S(s1); PICK_S(s2); PICK_S(s3);
#define CALL(K) drive_mv(K, a, b, c, s0, s1, s2, s3)
  WITH_K(k, CALL);
  __CPROVER_assert(cv_exc_pending == 0 && *G_OTHER_EXC == 0, "drive: no stray exception reaches the consumer");
  __CPROVER_assert(*G_NOBS == k, "consumer observes exactly as many values as the body yields (none skipped, none repeated)");
  CHECK_ITEM(0, a, "1st"); CHECK_ITEM(1, b, "2nd"); CHECK_ITEM(2, c, "3rd");
  __CPROVER_assert(*G_BODY_MOVED == 0, "value type c13_mv: the body finds the lvalue it yielded intact when it is resumed (nobody moved from it)");
  __CPROVER_assert(*G_END == 1, "exactly one end-of-sequence indication, after the last value");
  __CPROVER_assert(gh_frees == gh_allocs && gh_allocs == gh_frames_typed, "the only dynamic allocations are coroutine frames, each freed exactly once");
  if (k == 3 && s0 == MV_STYLE_LO && s1 == MV_STYLE_HI && s2 == MV_STYLE_LO) __CPROVER_assert(0, "SENTINEL reachable: three values, styles lo, hi, lo");
  if (k == 1 && s0 == MV_STYLE_HI) __CPROVER_assert(0, "SENTINEL reachable: one value, style hi");
  if (k == 0) __CPROVER_assert(0, "SENTINEL reachable: empty body"); }
#endif
#ifdef DRIVE_argmv
void h_drive(void) { PICK_K(k, 2); PICK_K(style, 1); cv_i32 a, b, x0, x1, x2;
#define CALL(K) do { if (style == 0) drive_argmv(K, a, b, x0, x1, x2, 0); else drive_argmv(K, a, b, x0, x1, x2, 1); } while (0)
  WITH_K(k, CALL);
  __CPROVER_assert(cv_exc_pending == 0 && *G_OTHER_EXC == 0, "drive: no stray exception reaches the consumer");
  __CPROVER_assert(*G_NOBS == k && (k < 1 || OBS(0) == a) && (k < 2 || OBS(1) == b), "consumer observes exactly the yielded sequence");
  __CPROVER_assert(*G_END == 1, "exactly one end-of-sequence indication");
  __CPROVER_assert(*G_NARGS == k + 1, "the body is activated once per call (first activation included)");
  __CPROVER_assert((*G_ARGS)[0] == x0 && (*G_ARGS_MOVED)[0] == 0, "argument type c13_mv: co_yield nullptr on the first activation gives the argument of the first call, not moved from");
  __CPROVER_assert(k < 1 || ((*G_ARGS)[1] == x1 && (*G_ARGS_MOVED)[1] == 0), "argument type c13_mv: the 1st co_yield returns the argument of the call that resumed it, not moved from");
  __CPROVER_assert(k < 2 || ((*G_ARGS)[2] == x2 && (*G_ARGS_MOVED)[2] == 0), "argument type c13_mv: the 2nd co_yield returns the argument of the call that resumed it, not moved from");
  __CPROVER_assert(*G_BODY_MOVED == 0, "argument type c13_mv: the caller's argument objects are referred to, never consumed");
  __CPROVER_assert(gh_frees == gh_allocs && gh_allocs == 1 && gh_frames_typed == 1, "the only dynamic allocation is the coroutine frame, freed exactly once");
  if (k == 2 && style == 0) __CPROVER_assert(0, "SENTINEL reachable: two values, next(arg)");
  if (k == 2 && style == 1) __CPROVER_assert(0, "SENTINEL reachable: two values, call(arg)");
  if (k == 0) __CPROVER_assert(0, "SENTINEL reachable: empty body"); }
#endif
