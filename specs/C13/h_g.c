/* C13 - harnesses of the contract units.  Objects that the code under verification reaches THROUGH pointers (frame -> promise,
 * generator -> promise, next_awt -> generator, iterator -> generator) are allocated here and the pointers are ASSIGNED (a pointer that
 * is only assumed equal to an address cannot be dereferenced soundly in CBMC); leaf objects come from is_fresh in the contracts. */
#define MK_FRAME struct cv_gframe *fr = malloc(sizeof(struct cv_gframe)); __CPROVER_assume(fr != 0); gh_pt = &fr->prom
#define MK_GEN MK_FRAME; GEN *g = malloc(sizeof(GEN)); __CPROVER_assume(g != 0); GEN_P(g) = gh_pt; gh_gen = g
#define MK_NAWT MK_GEN; NAWT *n = malloc(sizeof(NAWT)); __CPROVER_assume(n != 0); NAWT_OWNER(n) = g
#define MK_ITER MK_GEN; ITER *it = malloc(sizeof(ITER)); __CPROVER_assume(it != 0); it->_gen = g
#define SENT __CPROVER_assert(0, "SENTINEL reachable")
#ifdef CV_HAS_pt_yield_value_ref
void h_yield_value_ref(void) { PT *p; VAL *x; pt_yield_value_ref(p, x); SENT; }
#endif
#ifdef CV_HAS_pt_yield_value_rref
void h_yield_value_rref(void) { PT *p; VAL *x; pt_yield_value_rref(p, x); SENT; }
#endif
#ifdef CV_HAS_pt_yield_value_null
void h_yield_value_null(void) { PT *p; pt_yield_value_null(p, 0); SENT; }
#endif
#ifdef CV_HAS_ys_await_suspend
void h_ys_await_suspend(void) { MK_FRAME; AWT *asker = malloc(sizeof(AWT)); __CPROVER_assume(asker != 0); gh_pt->_caller = asker; gh_asker = asker; YS *y;
  ys_await_suspend(y, FRAME_OF(gh_pt));
  if (gh_awr_count == 0) __CPROVER_assert(0, "SENTINEL reachable: asker made nothing ready (no-op coroutine continues)");
  else if (gh_awr_count == 1) __CPROVER_assert(0, "SENTINEL reachable: symmetric transfer to the one ready coroutine");
  else __CPROVER_assert(0, "SENTINEL reachable: several ready coroutines (one continues, the rest scheduled)"); }
#endif
#ifdef CV_HAS_ys_await_resume
void h_ys_await_resume(void) { MK_FRAME; YS *y = malloc(sizeof(YS)); __CPROVER_assume(y != 0); YS_P(y) = gh_pt; ys_await_resume(y); SENT; }
#endif
#ifdef CV_HAS_yn_await_resume
void h_yn_await_resume(void) { MK_FRAME; YN *y = malloc(sizeof(YN)); __CPROVER_assume(y != 0); *(PT **)y = gh_pt; yn_await_resume(y); SENT; }
#endif
#ifdef CV_HAS_pt_final_suspend
void h_final_suspend(void) { PT *p; pt_final_suspend(p); SENT; }
#endif
#ifdef CV_HAS_pt_return_void
void h_return_void(void) { PT *p; pt_return_void(p); SENT; }
#endif
#ifdef CV_HAS_pt_unhandled_exception
void h_unhandled_exception(void) { PT *p; pt_unhandled_exception(p); SENT; }
#endif
#ifdef CV_HAS_pt_set_arg
void h_set_arg(void) { PT *p; ARGT *a; pt_set_arg(p, a); SENT; }
#endif
#ifdef CV_HAS_pt_next_async
void h_next_async(void) { MK_FRAME; AWT *c = malloc(sizeof(AWT)); __CPROVER_assume(c != 0); pt_next_async(gh_pt, c);
  if (cv_exc_pending) __CPROVER_assert(0, "SENTINEL reachable: finished generator refuses"); else __CPROVER_assert(0, "SENTINEL reachable: request registered"); }
#endif
#ifdef CV_HAS_pt_next_sync
void h_next_sync(void) { MK_FRAME; pt_next_sync(gh_pt);
  if (cv_exc_pending) __CPROVER_assert(0, "SENTINEL reachable: finished generator refuses");
  else if (gh_res_handed_back) __CPROVER_assert(0, "SENTINEL reachable: body handed back synchronously");
  else __CPROVER_assert(0, "SENTINEL reachable: body handed back on another thread while this one waited"); }
#endif
#ifdef CV_HAS_nf_lambda
void h_nf_lambda(void) { MK_FRAME; NF_LAM *l = malloc(sizeof(NF_LAM)); __CPROVER_assume(l != 0); *(PT **)l = gh_pt; FUT *f = malloc(sizeof(FUT)); __CPROVER_assume(f != 0); gh_call_future = f; PROM *pr;
  nf_lambda(l, pr);
  if (cv_exc_pending) __CPROVER_assert(0, "SENTINEL reachable: finished generator refuses");
  else if (gh_res_handed_back) __CPROVER_assert(0, "SENTINEL reachable: body handed back synchronously");
  else __CPROVER_assert(0, "SENTINEL reachable: request still outstanding on return"); }
#endif
#ifdef CV_HAS_pt_next_future
void h_next_future(void) { FUT *r; PT *p; pt_next_future(r, p);
  if (cv_exc_pending) __CPROVER_assert(0, "SENTINEL reachable: functor threw"); else __CPROVER_assert(0, "SENTINEL reachable: request made"); }
#endif
#ifdef CV_HAS_pt_unblock_sync
void h_unblock_sync(void) { PT *p; pt_unblock_sync(p); SENT; }
#endif
/* value type c13_mv: the item the record points to is a real object (allocated here, pointer ASSIGNED) so that the contract can look into it */
#define MK_VAL gh_val = malloc(sizeof(VAL)); __CPROVER_assume(gh_val != 0); if (nondet_bool()) gh_pt->_ret = gh_val; else gh_pt->_ret = 0
#ifdef CV_HAS_pt_unblock_future
#ifdef CV_VAL_MV
void h_unblock_future(void) { SP *r; MK_FRAME; MK_VAL; PT *p = gh_pt; pt_unblock_future(r, p);
#else
void h_unblock_future(void) { SP *r; PT *p; pt_unblock_future(r, p);
#endif
  if (gh_pc_kind == PC_DROP) __CPROVER_assert(0, "SENTINEL reachable: end -> drop"); else if (gh_pc_kind == PC_EXC) __CPROVER_assert(0, "SENTINEL reachable: exception"); else __CPROVER_assert(0, "SENTINEL reachable: value"); }
#endif
#ifdef CV_HAS_pt_resume_fn_sync
void h_resume_fn_sync(void) { MK_FRAME; SP *r; AWT *a; pt_resume_fn_sync(r, a, (cv_i8 *)gh_pt); SENT; }
#endif
#ifdef CV_HAS_pt_resume_fn_future
void h_resume_fn_future(void) { SP *r; AWT *a; cv_i8 *u; pt_resume_fn_future(r, a, u); SENT; }
#endif
#ifdef CV_HAS_pt_done
void h_pt_done(void) { PT *p; pt_done(p); SENT; }
#endif
#ifdef CV_HAS_pt_value
void h_pt_value(void) { PT *p; pt_value(p); SENT; }
#endif
#ifdef CV_HAS_pt_exception
void h_pt_exception(void) { PT *p; pt_exception(p); SENT; }
#endif
#define NA_SENT do { if (gh_ns_calls == 0 && NAWT_STATE(n)) __CPROVER_assert(0, "SENTINEL reachable: known true, no step"); else if (gh_ns_calls == 0) __CPROVER_assert(0, "SENTINEL reachable: finished, no step"); \
  else if (cv_exc_pending) __CPROVER_assert(0, "SENTINEL reachable: step refused"); else if (gh_ns_done_after) __CPROVER_assert(0, "SENTINEL reachable: step found the end"); else __CPROVER_assert(0, "SENTINEL reachable: step produced an item"); } while (0)
#ifdef CV_HAS_na_bool
void h_na_bool(void) { MK_NAWT; na_bool(n); NA_SENT; }
#endif
#ifdef CV_HAS_na_not
void h_na_not(void) { MK_NAWT; na_not(n); NA_SENT; }
#endif
#ifdef CV_HAS_na_await_ready
void h_na_await_ready(void) { MK_NAWT; na_await_ready(n); SENT; }
#endif
#ifdef CV_HAS_na_await_suspend
void h_na_await_suspend(void) { MK_NAWT; cv_i8 *h; na_await_suspend(n, h); if (cv_exc_pending) __CPROVER_assert(0, "SENTINEL reachable: refused"); else __CPROVER_assert(0, "SENTINEL reachable: registered"); }
#endif
#ifdef CV_HAS_na_await_resume
void h_na_await_resume(void) { MK_NAWT; na_await_resume(n); SENT; }
#endif
#ifdef CV_HAS_na_subscribe
void h_na_subscribe(void) { MK_NAWT; AWT *a = malloc(sizeof(AWT)); __CPROVER_assume(a != 0); na_subscribe(n, a); if (cv_exc_pending) __CPROVER_assert(0, "SENTINEL reachable: refused"); else __CPROVER_assert(0, "SENTINEL reachable: registered and resumed"); }
#endif
#ifdef CV_HAS_gen_next
#ifdef GEN_ARG
void h_gen_next(void) { MK_GEN; NAWT *r; ARGT *a; gen_next(r, g, a); SENT; }
#else
void h_gen_next(void) { MK_GEN; NAWT *r; gen_next(r, g); SENT; }
#endif
#endif
#ifdef CV_HAS_gen_value
void h_gen_value(void) { MK_GEN;
#ifdef CV_VAL_MV
  MK_VAL;
#endif
  cv_i8 *eo = malloc(32); __CPROVER_assume(eo != 0); if (nondet_bool()) EXC_OBJ(gh_pt->_exp) = eo + 16; else EXC_OBJ(gh_pt->_exp) = 0;
  gen_value(g);
  if (!cv_exc_pending) __CPROVER_assert(0, "SENTINEL reachable: value"); else if (EXC_OBJ(gh_pt->_exp) != 0) __CPROVER_assert(0, "SENTINEL reachable: stored exception rethrown"); else __CPROVER_assert(0, "SENTINEL reachable: value_not_ready"); }
#endif
#ifdef CV_HAS_gen_call
#ifdef GEN_ARG
void h_gen_call(void) { MK_GEN; FUT *r; ARGT *a; gen_call(r, g, a); SENT; }
#else
void h_gen_call(void) { MK_GEN; FUT *r; gen_call(r, g); SENT; }
#endif
#endif
#ifdef CV_HAS_gen_done
void h_gen_done(void) { MK_GEN; if (nondet_bool()) GEN_P(g) = 0; gen_done(g); if (GEN_P(g) == 0) __CPROVER_assert(0, "SENTINEL reachable: empty generator object"); else __CPROVER_assert(0, "SENTINEL reachable: bound generator object"); }
#endif
#ifdef CV_HAS_gen_bool
void h_gen_bool(void) { MK_GEN; if (nondet_bool()) GEN_P(g) = 0; gen_bool(g); if (GEN_P(g) == 0) __CPROVER_assert(0, "SENTINEL reachable: empty generator object"); else __CPROVER_assert(0, "SENTINEL reachable: bound generator object"); }
#endif
#ifdef CV_HAS_gen_begin
void h_gen_begin(void) { MK_GEN; ITER *o; gen_begin(o, g); if (cv_exc_pending) __CPROVER_assert(0, "SENTINEL reachable: step refused"); else __CPROVER_assert(0, "SENTINEL reachable: first item loaded"); }
#endif
#ifdef CV_HAS_gen_end
void h_gen_end(void) { MK_GEN; ITER *o; gen_end(o, g); SENT; }
#endif
#ifdef CV_HAS_gen_deleter
void h_gen_deleter(void) { MK_FRAME; DEL *d; gen_deleter(d, gh_pt); SENT; }
#endif
#ifdef CV_HAS_it_ctor_fin
void h_it_ctor_fin(void) { ITER *i; GEN *g; cv_i1 f; it_ctor_fin(i, g, f); SENT; }
#endif
#ifdef CV_HAS_it_ctor
void h_it_ctor(void) { MK_GEN; ITER *i; it_ctor(i, g); if (cv_exc_pending) __CPROVER_assert(0, "SENTINEL reachable: step refused"); else __CPROVER_assert(0, "SENTINEL reachable: item loaded"); }
#endif
#ifdef CV_HAS_it_eq
void h_it_eq(void) { ITER *a, *b; it_eq(a, b); SENT; }
#endif
#ifdef CV_HAS_it_ne
void h_it_ne(void) { ITER *a, *b; it_ne(a, b); SENT; }
#endif
#ifdef CV_HAS_it_inc
void h_it_inc(void) { MK_ITER; it_inc(it); if (cv_exc_pending) __CPROVER_assert(0, "SENTINEL reachable: step refused"); else __CPROVER_assert(0, "SENTINEL reachable: stepped"); }
#endif
#ifdef CV_HAS_it_deref
void h_it_deref(void) { MK_ITER; it_deref(it); if (cv_exc_pending) __CPROVER_assert(0, "SENTINEL reachable: exception"); else __CPROVER_assert(0, "SENTINEL reachable: value"); }
#endif
#ifdef CV_HAS_it_arrow
void h_it_arrow(void) { MK_ITER; it_arrow(it); if (cv_exc_pending) __CPROVER_assert(0, "SENTINEL reachable: exception"); else __CPROVER_assert(0, "SENTINEL reachable: value"); }
#endif
#if defined(CV_HAS_it_postinc) && defined(CV_VAL_MV)
void h_it_postinc(void) { MK_ITER; gh_val = malloc(sizeof(VAL)); __CPROVER_assume(gh_val != 0); gh_gv_result = gh_val; ISTORE *r; it_postinc(r, it, 0); SENT; }
#elif defined(CV_HAS_it_postinc)
void h_it_postinc(void) { MK_ITER; cv_i32 *v = malloc(sizeof(cv_i32)); __CPROVER_assume(v != 0); gh_gv_result = v; it_postinc(it, 0); SENT; }
#endif
#ifdef CV_HAS_fut_set_val
void h_fut_set_val(void) { FUT *f; VAL *v; fut_set_val(f, v); SENT; }
#endif
#ifdef CV_HAS_gen_get_id
void h_gen_get_id(void) { MK_GEN; gen_get_id(g); SENT; }
#endif
