# C15 - Signal: every waiting listener gets every value; disconnect wakes all
POL = '__gnu_cxx::_S_atomic'
def types(t):
    S = 'cocls::signal<%s>' % t
    return {'STATE': S + '::state', 'EMIT': S + '::emitter', 'COLL': S + '::collector', 'SIG': S, 'AWT': 'cocls::awaiter', 'SP': 'cocls::suspend_point<void>',
            'ATOMAW': 'std::atomic<cocls::awaiter *>', 'SCNT': 'std::__shared_count<%s>' % POL, 'WCNT': 'std::__weak_count<%s>' % POL}
GLOBALS = {'TI_AWAIT_CANCELED': '_ZTIN5cocls24await_canceled_exceptionE'}
RC_LK = r'^cocls::awaiter::resume_chain_lk\(cocls::awaiter\*\)$'
SN = r'^cocls::suspend_point<void>::suspend_now\(\)$'
AWSUB = r'^cocls::awaiter::subscribe\(std::atomic<cocls::awaiter\*>&\)$'
BOUNDARY = [r'^std::__shared_count<', r'^std::__weak_count<', RC_LK, SN]
LIBS = ['rt_core.c', 'model_signal.c']
def S(t): return r'cocls::signal<%s>' % t
def N(t):
    s = S(t); cb = 'c15_cb' if t == 'int' else 'c15_cbv'
    con = r'void ' + s + r'::connect<%s>\(%s&&\)' % (cb, cb)
    awt = s + r'::connect<%s>\(%s&&\)::Awt' % (cb, cb)
    return dict(
        st_dtor='^' + s + r'::state::~state\(\)$',
        st_notify='^' + s + r'::state::notify_awaiters\(\)$',
        co_call_rv='^' + s + r'::collector::operator\(\)\(int&&\) const$',
        co_call_lv='^' + s + r'::collector::operator\(\)\(int&\) const$',
        co_call_val=r'^cocls::suspend_point<void> ' + s + r'::collector::operator\(\)<int const&>\(int const&\) const$',
        co_call_void=r'^cocls::suspend_point<void> ' + s + r'::collector::operator\(\)<>\(\) const$',
        em_ready='^' + s + r'::emitter::await_ready\(\)$',
        em_suspend='^' + s + r'::emitter::await_suspend\(std::__n4861::coroutine_handle<void>\)$',
        em_resume='^' + s + r'::emitter::await_resume\(\)$',
        awt_ctor='^' + awt + r'::Awt\(%s&&, std::weak_ptr<' % cb + s + r'::state>\)$',
        awt_resume='^' + awt + r'::resume\(\)$',
        awt_initial_reg='^' + awt + r'::initial_reg\(\)$',
        awt_invoke=r'^cocls::suspend_point<void> ' + awt + r'::Awt\(.*\)::\{lambda\(cocls::awaiter\*, auto:1\)#1\}::__invoke<void\*>\(cocls::awaiter\*, void\*\)$',
        connect='^' + con + '$',
        user_cb=(r'^c15_cb::operator\(\)\(int&\)$' if t == 'int' else r'^c15_cbv::operator\(\)\(\)$'),
        get_emitter='^' + s + r'::get_emitter\(\) const$',
        get_collector='^' + s + r'::get_collector\(\) const$',
        sig_ctor='^' + s + r'::signal\(\)$',
        sig_dtor='^' + s + r'::~signal\(\)$',
        hue_suspend='^' + s + r'::hook_up_emitter<c15_reg>::await_suspend\(std::__n4861::coroutine_handle<void>\)$',
        hue_suspend_again='^' + s + r'::hook_up_emitter<c15_reg>::await_suspend\(std::__n4861::coroutine_handle<void>\)$',
        user_reg=r'^c15_reg::operator\(\)\(cocls::signal<int>::collector\)$',
        sp_make=r'^std::__shared_count<\(__gnu_cxx::_Lock_policy\)2>::__shared_count<' + s + r'::state, std::allocator<void>>\(',
        st_ctor='^' + s + r'::state::state\(\)$',
        aw_subscribe=AWSUB,
        coll_to_signal='^' + s + r'::collector::operator cocls::signal<%s>\(\)$' % t,
        hue_ctor='^' + s + r'::hook_up_emitter<c15_reg>::hook_up_emitter\(c15_reg&&\)$',
        hook_up=r'^auto ' + s + r'::hook_up<c15_reg>\(c15_reg&&\)$',
    )
ABSTRACT = ('user_cb', 'user_reg', 'sp_make')
def unit(name, alias, t='int', uses=(), harness=None, extra_types=None, ptypes=None, extra_boundary=(), extra_defines=(), names_opt_extra=None, extra_roots=(), **kw):
    n = N(t)
    names = {alias: n[alias], 'st_dtor': n['st_dtor']}
    names.update({a: n[a] for a in uses if a not in ABSTRACT})
    names_opt = {'aw_resume_chain_lk': RC_LK, 'sp_suspend_now': SN, 'aw_subscribe': AWSUB}
    names_opt.update({a: n[a] for a in uses if a in ABSTRACT}); names_opt.update(names_opt_extra or {})
    ty = types(t); ty['CBT'] = 'c15_cb' if t == 'int' else 'c15_cbv'; ty.update(extra_types or {})
    d = dict(name=name, driver='c15_signal.cpp', clang_flags=['-fno-access-control'], roots=[n[alias], n['st_dtor']] + list(extra_roots), names=names, names_opt=names_opt, types=ty, globals=GLOBALS,
             ptypes=ptypes or {}, boundary=BOUNDARY + list(extra_boundary), lib=LIBS, spec=['C15/c15_spec.h', 'C15/h_c15.c'], harness=harness or 'h_' + name, enforce=alias,
             loop_contracts=True, defines=['CV_NO_HEAP_PRIMS 1', 'CV_SG_POINTEE STATE', 'CV_SG_DISPOSE st_dtor'] + (['CV_C15_VOID 1'] if t == 'void' else []) + list(extra_defines),
             under_contract=[n[alias].strip('^$').replace('\\', '')])
    d.update(kw)
    return d
def awt_ptypes(t, fn='awt_resume', k=0): return {'AWTC': N(t)[fn] + '#%d' % k}
UNITS = [
    unit('notify', 'st_notify'),
    unit('state_dtor', 'st_dtor', extra_defines=['CV_HAS_st_dtor_u 1']),
    unit('collect_rvalue', 'co_call_rv'),
    unit('collect_value', 'co_call_val'),
    unit('collect_lvalue', 'co_call_lv'),
    unit('collect_void', 'co_call_void', t='void'),
    unit('em_ready', 'em_ready'),
    unit('em_suspend', 'em_suspend'),
    unit('em_suspend_xthread', 'em_suspend', harness='h_em_suspend', extra_boundary=[AWSUB], names_opt_extra={'aw_subscribe_abs': AWSUB}, loop_contracts=False,
         note='awaiter::subscribe replaced by its contract in operational form (unit aw_subscribe) followed by the emitting thread destroying the listener'),
    unit('aw_subscribe', 'aw_subscribe', extra_defines=['CV_HAS_aw_subscribe_u 1']),
    unit('em_resume', 'em_resume'),
    unit('em_resume_released', 'em_resume', harness='h_em_resume_released', replay=dict(src='c15_emit_in_coroutine.cpp', mode='incoro', flags=['-I', '/verif/drivers', '-g', '-fsanitize=address,undefined'], timeout=60),
         note='emitter::await_resume under the release environment: collector call (contract, operational form) -> suspend point released (listener run at once / only queued, C05 contract of suspend_now) -> '
              'emitting coroutine runs on -> listener runs; clause [with-that-value]; the queued case is the OPEN known finding C15-FINDING-emit-in-coroutine'),
    unit('awt_resume', 'awt_resume', uses=('user_cb',), ptypes=awt_ptypes('int'), extra_boundary=[N('int')['user_cb']], timeout=600),
    unit('awt_invoke', 'awt_invoke', ptypes=awt_ptypes('int'), extra_boundary=[N('int')['awt_resume']], extra_defines=['CV_HAS_awt_invoke_u 1'], names_opt_extra={'awt_resume_abs': N('int')['awt_resume']}),
    unit('awt_ctor', 'awt_ctor', uses=('awt_invoke',), ptypes=awt_ptypes('int', 'awt_ctor'), extra_types={'WPT': 'std::weak_ptr<cocls::signal<int>::state>'}),
    unit('awt_initial_reg', 'awt_initial_reg', ptypes=awt_ptypes('int', 'awt_initial_reg'), extra_boundary=[N('int')['awt_resume']], names_opt_extra={'awt_resume_abs': N('int')['awt_resume']}),
    unit('connect', 'connect', uses=('awt_invoke',), ptypes=awt_ptypes('int', 'awt_initial_reg'), extra_boundary=[N('int')['awt_initial_reg']], names_opt_extra={'awt_initial_reg_abs': N('int')['awt_initial_reg']}),
    unit('get_emitter', 'get_emitter'),
    unit('get_collector', 'get_collector'),
    unit('sig_dtor', 'sig_dtor'),
    unit('hue_suspend_first', 'hue_suspend', uses=('user_reg', 'sp_make', 'st_ctor'), harness='h_hue_suspend', extra_types={'HUE': 'cocls::signal<int>::hook_up_emitter<c15_reg>', 'REGT': 'c15_reg', 'ALLOCV': 'std::allocator<void>'},
         extra_boundary=[N('int')['user_reg']], extra_roots=[N('int')['st_ctor']]),
    unit('hue_suspend_again', 'hue_suspend_again', uses=('user_reg', 'sp_make', 'st_ctor'), extra_types={'HUE': 'cocls::signal<int>::hook_up_emitter<c15_reg>', 'REGT': 'c15_reg', 'ALLOCV': 'std::allocator<void>'},
         extra_boundary=[N('int')['user_reg']], extra_roots=[N('int')['st_ctor']]),
    unit('em_resume_void', 'em_resume', t='void', harness='h_em_resume'),
    unit('awt_resume_void', 'awt_resume', t='void', uses=('user_cb',), ptypes=awt_ptypes('void'), extra_boundary=[N('void')['user_cb']], harness='h_awt_resume', timeout=600),
]
# ---- signal<void>: the members that were only covered for T=int (same contracts: c15_spec.h is written over the type aliases; CV_C15_VOID selects the void forms)
NV = N('void')
HUE_T = {'HUE': 'cocls::signal<int>::hook_up_emitter<c15_reg>', 'REGT': 'c15_reg', 'ALLOCV': 'std::allocator<void>'}
UNITS += [
    unit('em_suspend_void', 'em_suspend', t='void', harness='h_em_suspend'),
    unit('awt_invoke_void', 'awt_invoke', t='void', harness='h_awt_invoke', ptypes=awt_ptypes('void'), extra_boundary=[NV['awt_resume']], extra_defines=['CV_HAS_awt_invoke_u 1'], names_opt_extra={'awt_resume_abs': NV['awt_resume']}),
    unit('awt_ctor_void', 'awt_ctor', t='void', harness='h_awt_ctor', uses=('awt_invoke',), ptypes=awt_ptypes('void', 'awt_ctor'), extra_types={'WPT': 'std::weak_ptr<cocls::signal<void>::state>'}),
    unit('awt_initial_reg_void', 'awt_initial_reg', t='void', harness='h_awt_initial_reg', ptypes=awt_ptypes('void', 'awt_initial_reg'), extra_boundary=[NV['awt_resume']], names_opt_extra={'awt_resume_abs': NV['awt_resume']}),
    unit('connect_void', 'connect', t='void', harness='h_connect', uses=('awt_invoke',), ptypes=awt_ptypes('void', 'awt_initial_reg'), extra_boundary=[NV['awt_initial_reg']], names_opt_extra={'awt_initial_reg_abs': NV['awt_initial_reg']}),
    unit('get_emitter_void', 'get_emitter', t='void', harness='h_get_emitter'),
    unit('get_collector_void', 'get_collector', t='void', harness='h_get_collector'),
    unit('sig_dtor_void', 'sig_dtor', t='void', harness='h_sig_dtor'),
    # ---- constructors / conversions: the initial state the other units start from (signal(), state::state() inlined; make_shared = control-block model)
    unit('sig_ctor', 'sig_ctor', uses=('sp_make', 'st_ctor'), extra_types={'ALLOCV': 'std::allocator<void>'}, extra_roots=[N('int')['st_ctor']]),
    unit('sig_ctor_void', 'sig_ctor', t='void', harness='h_sig_ctor', uses=('sp_make', 'st_ctor'), extra_types={'ALLOCV': 'std::allocator<void>'}, extra_roots=[NV['st_ctor']]),
    unit('coll_to_signal', 'coll_to_signal'),
    unit('hue_ctor', 'hue_ctor', extra_types=HUE_T),
    unit('hook_up', 'hook_up', extra_types=HUE_T),
]
CHT = 'std::__n4861::coroutine_handle<void>'
# std::atomic<awaiter*> members read sequentially at member-function level in the drives (pointer values must stay pointers for CBMC's symbolic execution)
AP = {'ap_aw_load': r'^std::atomic<cocls::awaiter\*>::load\(std::memory_order\) const$', 'ap_aw_xchg': r'^std::atomic<cocls::awaiter\*>::exchange\(',
      'ap_aw_cas': r'^std::atomic<cocls::awaiter\*>::compare_exchange_weak\(cocls::awaiter\*&, cocls::awaiter\*, std::memory_order, std::memory_order\)$'}
def drive(name, what, unwind=8, **kw):
    n = N('int')
    d = dict(name='drive_' + name, driver='c15_drive.cpp', roots=[r'^c15_drive$' if name == 'main' else r'^c15_drive_%s$' % name, n['st_dtor'], n['st_ctor']],
             names={'st_dtor': n['st_dtor'], 'st_ctor': n['st_ctor']}, names_opt=dict(AP, sp_make=n['sp_make']),
             types=dict(types('int'), CH=CHT, DQCH='std::deque<%s, std::allocator<%s > >' % (CHT, CHT), ALLOCV='std::allocator<void>'),
             globals={'FRAME_KIND': 'g_frame_kind', 'G_LOG': 'g_log', 'G_CB_LIMIT': 'g_cb_limit'},
             boundary=[r'^std::__shared_count<', r'^std::__weak_count<', r'^std::deque<std::__n4861::coroutine_handle<void>'] + list(AP.values()),
             lib=['rt_core.c', 'rt_atomic_seq.c', 'model_signal.c', 'model_dq_ring.c', 'model_heap_frames.c'], spec=['C15/h_drive.c'], harness='h_drive',
             defines=['CV_NO_HEAP_PRIMS 1', 'CV_NO_SPURIOUS_CAS 1', 'CV_SG_SEQ_ATOMICS 1', 'CV_SG_POINTEE STATE', 'CV_SG_DISPOSE st_dtor',
                      'CV_FRAME_KINDS X(1, S_c15_listener_Frame)', 'DRIVE_%s 1' % name],
             unwind=unwind, object_bits=11, kind='bounded', timeout=600, bounded=what, under_contract=[],
             replay=dict(src='c15_drive.cpp', mode='C15', flags=['-I', '/verif/drivers', '-g', '-fsanitize=address,undefined']))
    d.update(kw)
    return d
def shape(nl, late, lim):
    d = drive('main', '%d coroutine listener(s)%s + 1 connected callback that %s, 2 emissions with symbolic values (rvalue; then by value or by lvalue reference - symbolic choice), destruction of every handle; single thread, no spurious CAS failure'
              % (nl, ' + 1 arriving between the signals' if late else '', {1: 'stops after the first value', 2: 'stops after the second value', 3: 'never stops (released on disconnect)'}[lim]))
    d['name'] = 'drive_%dL%s_cb%d' % (nl, '_late' if late else '', lim); d['defines'] = d['defines'] + ['DRIVE_NLIST %d' % nl, 'DRIVE_LATE %d' % late, 'DRIVE_LIM %d' % lim]
    return d
UNITS += [shape(1, 0, 1), shape(1, 0, 2), shape(1, 0, 3), shape(2, 0, 2), shape(2, 1, 1), shape(2, 1, 3), shape(3, 0, 1), shape(3, 0, 3),
    drive('disconnected', 'one listener on an emitter whose signal was destroyed, one on a default-constructed emitter'),
]
# Audit item D4: the two emissions made from INSIDE a coroutine (ready queue active), suspend points discarded.  The two property clauses the
# unchanged library violates there are the OPEN known finding C15-FINDING-emit-in-coroutine (marker in the assertion text); everything else must hold.
REPLAY_INCORO = dict(src='c15_emit_in_coroutine.cpp', mode='incoro', flags=['-I', '/verif/drivers', '-g', '-fsanitize=address,undefined'], timeout=60)
def incoro(nl):
    d = drive('incoro', '%d coroutine listener(s) that only re-await; a producer COROUTINE (started like async::detach(): runs under the ready queue) calls the collector twice with symbolic values '
              '(rvalue then by value, or both through the lvalue overload - symbolic choice) and discards the suspend points; then destruction of every handle; single thread, no spurious CAS failure' % nl,
              replay=REPLAY_INCORO)
    d['name'] = 'drive_incoro_%dL' % nl
    d['defines'] = [x for x in d['defines'] if not x.startswith('CV_FRAME_KINDS')] + ['CV_FRAME_KINDS X(1, S_c15_listener_Frame) X(2, S_c15_producer_Frame)', 'DRIVE_NLIST %d' % nl]
    return d
UNITS += [incoro(1), incoro(2)]
# ---- signal<void> end to end (bounded): each emission resumes every waiting listener exactly once; disconnect wakes all
def shape_void(nl, late, lim):
    nv = N('void')
    d = drive('void', 'signal<void>: %d coroutine listener(s)%s + 1 connected callback that %s, 2 emissions, destruction of every handle; single thread, no spurious CAS failure'
              % (nl, ' + 1 arriving between the emissions' if late else '', {1: 'stops after the first emission', 2: 'stops after the second emission', 3: 'never stops (released on disconnect)'}[lim]), replay=None)
    d['name'] = 'drive_void_%dL%s_cb%d' % (nl, '_late' if late else '', lim)
    d['roots'] = [r'^c15_drive_void$', nv['st_dtor'], nv['st_ctor']]
    d['names'] = {'st_dtor': nv['st_dtor'], 'st_ctor': nv['st_ctor']}
    d['names_opt'] = dict(AP, sp_make=nv['sp_make'])
    d['types'] = dict(types('void'), CH=CHT, DQCH='std::deque<%s, std::allocator<%s > >' % (CHT, CHT), ALLOCV='std::allocator<void>')
    d['defines'] = [x for x in d['defines'] if not x.startswith('CV_FRAME_KINDS')] + ['CV_FRAME_KINDS X(3, S_c15_listener_v_Frame)', 'CV_C15_VOID 1', 'DRIVE_NLIST %d' % nl, 'DRIVE_LATE %d' % late, 'DRIVE_LIM %d' % lim]
    d['replay'] = dict(src='c15_void_drive.cpp', mode='C15V', flags=['-I', '/verif/drivers', '-g', '-fsanitize=address,undefined'])
    return d
UNITS += [shape_void(1, 0, 2), shape_void(2, 0, 3), shape_void(2, 1, 1), shape_void(3, 0, 3)]
META = dict(
    level='proof',
    level_text=('Every function of signal.h that the property speaks about is verified against a contract taken from the property statement, thread-modularly: '
        'signal() incl. state::state() (initial state: one owner, nobody listening, no value), state::notify_awaiters, state::~state, collector::operator() (rvalue / by value / lvalue reference / void), collector::operator signal(), '
        'emitter::await_ready / await_suspend / await_resume (int and void), '
        "connect(), its heap awaiter Awt (constructor, the resume lambda, Awt::resume, Awt::initial_reg), get_emitter / get_collector, ~signal (all of these for int AND void: units *_void), awaiter::subscribe, "
        'hook_up() / hook_up_emitter constructor (not hooked, not connected: exactly the entry state of the first co_await) and hook_up_emitter::await_suspend (first and later co_awaits). The awaiter chain runs through protocol-S primitives: at every atomic step the environment may push other listeners, '
        'and - when the verified code is on the listening side - the emitting thread may detach the chain at any instant; std::shared_ptr/weak_ptr<state> is an explicit control block whose '
        'drop-to-zero runs the REAL translated ~state, and other threads may copy / drop their handles at every step (so the state may die before lock(), and the reference lock() took may '
        'become the last one). Clauses: a collector call makes the current-value pointer refer to the emitted value (an owned copy, or the caller\'s object for the lvalue overload) BEFORE it '
        'detaches the WHOLE chain by exactly one acquire exchange and hands exactly the detached value to the chain walk exactly once (the released coroutines travel in the returned suspend '
        'point); await_suspend subscribes - one release CAS of a complete node linked to the value it replaced - iff the state was alive at the instant of lock(), and touches nothing of the '
        'emitter after a successful push (the emitting thread may already have destroyed it); await_resume returns THE current value iff state alive and value present, otherwise throws '
        'await_canceled_exception (type identity checked); ~state clears the value first, then releases exactly the listeners still waiting and resumes them at once; the last handle runs '
        '~state, earlier ones do not; a callback awaiter calls its function exactly once per emission with the current value, re-subscribes itself iff it returned true and otherwise deletes '
        'itself exactly once - also on disconnect, then without calling the function; hook_up subscribes BEFORE the collector is handed to the registration function and releases the '
        'coroutine (no value) if the collector is dropped. Bounded drives of really lowered listener coroutines cross-check the composition.'),
    level_note=('Trusted: protocol-S primitives, their rely and the control-block model (lib/model_signal.c), rely/guarantee soundness argument (DESIGN 3.5), abstract callees (awaiter::resume_chain_lk - its walk '
        '"every node of the chain handed over is resumed exactly once" is verified, bounded, in specs/C02; suspend_point::suspend_now - C05; the user callback and registration function as recording '
        'stubs), clang front end, ir2c. The step from "the detached chain is handed to the walk" to "every listener that was waiting is in that chain" is the LIFO link argument (each push links '
        'to the value it replaced: clause gh_push_next == gh_push_seen; nobody but the emitting side removes nodes) - argued, and exercised by the bounded drives, not machine-checked as an unbounded lemma. '
        'Documented preconditions written as requires: collector calls are not MT safe (one emitting thread), '
        'a callback awaiter is resumed only by an emission (value present) or after the state died. '
        'The clause "delivered ... with that value" is stated where the value is obtained: emitter::await_resume under the release environment (unit em_resume_released: collector call in the '
        'operational form of its contract -> release of the returned suspend point, which runs the listener at once or - ready queue active, C05 contract of suspend_now - only queues it -> the emitting '
        'coroutine runs on, may call the collector again and end the life of an lvalue-emitted object -> the real await_resume) must return a live object holding the value of the collector call that '
        'released this listener.  It holds when the listener runs inside the release (plain thread, or the suspend point is co_awaited) and FAILS when the listener is only queued = the collector is called '
        'from inside a coroutine and the suspend point is discarded (as signal.h and the README generator invite): OPEN known finding C15-FINDING-emit-in-coroutine, natively replayed by '
        'replay/c15_emit_in_coroutine.cpp; "misses none" fails in the same situation (drives drive_incoro_*: one resumption, carrying the last value, for two emissions). Not repaired: the listeners '
        'read state::_cur_val when they run, so a repair has to make the collector run them before it returns (changes the documented scheduling of a discarded suspend point inside a coroutine; the '
        '"nested" queue of install_queue_and_call is the same thread_local deque, so unrelated queued coroutines would run inside the collector) or give every released listener its own copy of the value '
        '(new per-emitter storage, copyable T, and still loses the later values) - a design decision, not a small patch. (An earlier version hid this behind a free ghost gh_prev_released, pinned only in requires.) '
        'BOUNDED (never counted as discharged): drives drive_void_* (signal<void>: 1..3 coroutine listeners (+1 late) + 1 callback, 2 emissions, destruction of every handle - each emission resumes every waiting listener exactly once, disconnect wakes all; oracle confirmed natively by replay/c15_void_drive.cpp), drives drive_incoro_* (1..2 listeners, the two emissions made by a producer coroutine that discards the suspend points) and drives with 1..3 coroutine listeners (+1 arriving '
        'between the signals) + 1 connected callback (stopping after 1, 2 or never), exactly 2 emissions with symbolic values, destruction of every handle, plus awaiting a destroyed / never '
        'connected emitter; single thread, std::atomic<awaiter*> read at member-function level, no spurious CAS failure; control (number of listeners, callback limit) is concrete per unit because '
        'symbolic control makes the lowered state machines fork beyond reach (measured). The drive oracle is confirmed natively (g++, ASan/UBSan) by replay/c15_drive.cpp. '
        'Not covered: value types other than int / void (move-only, instance-counted), emitter copy / move / assignment operators, hook_up_emitter for signal<void>, '
        'a user callback that throws (std::terminate by noexcept), liveness.'),
    technique='CBMC code contracts + loop contracts (CAS retry loop) via goto-instrument --dfcc on the C translation of clang IR of signal.h / awaiter.h; atomic instructions on the chain replaced by rely/guarantee protocol primitives with ownership ghosts; shared_ptr/weak_ptr as an explicit control block running the real destructor; bounded symbolic execution of really lowered coroutines',
    trusted_base=['protocol-S atomic primitives and environment model for state::_chain (lib/model_signal.c part A)',
                  'std::shared_ptr / std::weak_ptr<state> control-block model incl. other threads copying / dropping handles (lib/model_signal.c part B); libstdc++ keeps one implicit weak reference for the strong owners until the pointee is destroyed - modelled',
                  'abstract callees recorded in ghost state (specs/C15/c15_spec.h): awaiter::resume_chain_lk, suspend_point<void>::suspend_now, user callback, registration function; awaiter::subscribe in operational contract form in unit em_suspend_xthread',
                  'bounded drives only: concrete ring model of std::deque<coroutine_handle<>> (lib/model_dq_ring.c), typed coroutine frames (lib/model_heap_frames.c), std::atomic<awaiter*> at member-function level (specs/C15/h_drive.c)'],
    assumptions=['rely/guarantee soundness: if every step of every thread conforms, every interleaving satisfies the protocol (argued, DESIGN 3.5)', 'atomic RMWs on one location are totally ordered (C++ coherence)',
                 'collector::operator() is called by one thread at a time (documented in signal.h)',
                 'unit em_resume_released: the effect of a collector call on the state is taken from the collector contracts (COLL_POST / STORED_POST / by-reference clause, enforced in units collect_*), the effect of releasing a suspend point from the contract of suspend_point::suspend_now (specs/C05)',
                 'awaiter::resume_chain_lk resumes every node of the chain it is handed exactly once (C02, bounded N)', 'T = int and void; other value types not instantiated',
                 'bounded drives: 1..3(+1) listeners, 1 callback, 2 emissions, single thread; emissions from a plain thread (drive_*) and from inside a coroutine running under the ready queue (drive_incoro_*: 1..2 listeners)'],
    explanation='see level_text')
