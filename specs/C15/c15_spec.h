/* C15 - contracts on cocls::signal<T> (src/cocls/signal.h), T = int and T = void (units define CV_C15_VOID).
 * Models (lib/model_signal.c): protocol S for the awaiter chain state::_chain (listeners push by one release CAS, the emitting side
 * detaches the whole chain by one acquire exchange; the environment acts at every primitive) and std::shared_ptr/weak_ptr<state> as an
 * explicit control block whose drop-to-zero runs the REAL translated state::~state.
 * The registered state block, the handles (collector / emitter / signal objects) and listener nodes are ALLOCATED IN THE HARNESS and the
 * ghost pointers are assigned there (a ghost pointer that is only assumed equal to an address cannot be dereferenced soundly).
 * Abstract callees: awaiter::resume_chain_lk (records the chain head it was handed, exactly once; its walk is verified - bounded - in
 * specs/C02), suspend_point<void>::suspend_now, the user callback / registration function (recording stubs = environment). */
#define STATE0       (&gh_sg_blk->obj)
#define CB0          (&gh_sg_blk->cb)
#define ST_SLOT(st)  ((void **)&(st)->_chain._M_b._M_p)
#define SP_PI(sp)    ((sp)->base___shared_ptr._M_refcount._M_pi)
#define SP_PTR(sp)   ((sp)->base___shared_ptr._M_ptr)
#define WP_PI(wp)    ((wp)->base___weak_ptr._M_refcount._M_pi)
#define WP_PTR(wp)   ((wp)->base___weak_ptr._M_ptr)
#define ST_ENGAGED(st) ((st)->_value_storage.base__Optional_base._M_payload.base__Optional_payload_base._M_engaged)
#ifdef CV_C15_VOID
#define ST_STORED(st)  (*(cv_i8 *)&(st)->_value_storage)
#else
#define ST_STORED(st)  (*(cv_i32 *)&(st)->_value_storage)
#endif
#define ST_STORAGE_ADDR(st) ((void *)&(st)->_value_storage)
/* heap primitives of these units (rt_core's are switched off by CV_NO_HEAP_PRIMS): additionally record WHAT was deleted */
unsigned gh_del_calls; void *gh_del_last; unsigned gh_new_calls; void *gh_new_last;
cv_i8 *_Znwm(cv_i64 n) { gh_allocs++; gh_new_calls++; cv_i8 *p = malloc(n); __CPROVER_assume(p != 0); gh_new_last = p; return p; }
void _ZdlPv(cv_i8 *p) { if (p) { gh_frees++; gh_del_calls++; gh_del_last = p; } free(p); }
void _ZdlPvm(cv_i8 *p, cv_i64 n) { _ZdlPv(p); }
#define HEAP_GHOSTS gh_allocs, gh_frees, gh_del_calls, gh_del_last, gh_new_calls, gh_new_last

/* model state well formed (pinned by every contract): counts cover the handles of this thread; without sharing they are exactly mine */
#define SG_WF (gh_sg_blk != 0 && gh_S_slot == ST_SLOT(STATE0) && cv_sg_depth == 0 && gh_sg_mine_s >= 0 && gh_sg_mine_w >= 0 && \
   CB0->strong >= gh_sg_mine_s && CB0->weak >= gh_sg_mine_w && CB0->strong < CV_SG_BIG && CB0->weak < CV_SG_BIG && \
   (gh_sg_shared == 0 || gh_sg_shared == 1) && (gh_sg_shared == 0 ==> (CB0->strong == gh_sg_mine_s && CB0->weak == gh_sg_mine_w)) && \
   gh_sg_locks == 0 && gh_sg_disposed == 0 && gh_sg_released == 0 && gh_sg_env_disposed == 0 && (gh_S_excl == 0 || gh_S_excl == 1))
#define S_FRESH (gh_n_push == 0 && gh_n_detach == 0 && gh_rc_calls == 0 && gh_sn_calls == 0 && gh_del_calls == 0 && gh_new_calls == 0)
#define C_PRE (cv_exc_pending == 0 && SG_WF && S_FRESH && RC_PRE)

/* ---- abstract callees ------------------------------------------------------------------------------------------------------- */
int gh_rc_calls; void *gh_rc_chain; void *gh_rc_curval; cv_i32 gh_rc_cf; cv_i8 *gh_rc_h[3];
#ifdef CV_HAS_aw_resume_chain_lk
void aw_resume_chain_lk(SP *ret, AWT *chain) {
  gh_rc_calls++; gh_rc_chain = chain; gh_rc_curval = (void *)STATE0->_cur_val;
  ret->_count_flag = gh_rc_cf; ret->f0.f0._handles[0] = gh_rc_h[0]; ret->f0.f0._handles[1] = gh_rc_h[1]; ret->f0.f0._handles[2] = gh_rc_h[2]; }
#endif
int gh_sn_calls;
#ifdef CV_HAS_sp_suspend_now
void sp_suspend_now(SP *p) { gh_sn_calls++; p->_count_flag = 0; }
#endif
#define RC_PRE (gh_rc_cf == 0 || gh_rc_cf == 2 || gh_rc_cf == 4 || gh_rc_cf == 6)
#define RET_IS_RC(ret) ((ret)->_count_flag == gh_rc_cf && (ret)->f0.f0._handles[0] == gh_rc_h[0] && (ret)->f0.f0._handles[1] == gh_rc_h[1] && (ret)->f0.f0._handles[2] == gh_rc_h[2])
#define RC_GHOSTS gh_rc_calls, gh_rc_chain, gh_rc_curval, gh_sn_calls
/* "the WHOLE chain is detached and handed to the walk exactly once": one detaching exchange, the walk gets exactly the value it returned */
#define WHOLE_CHAIN_RELEASED_ONCE (gh_n_detach == 1 && gh_rc_calls == 1 && gh_rc_chain == gh_detached && *gh_S_slot == 0)

/* ---- state::notify_awaiters() ------------------------------------------------------------------------------------------------ */
#ifdef CV_HAS_st_notify
void st_notify(SP *ret, STATE *this_)
__CPROVER_requires(C_PRE && this_ == STATE0 && gh_S_role == S_ROLE_EMIT && gh_my_node == 0 && gh_node_own == OWN_NONE && __CPROVER_is_fresh(ret, sizeof(*ret)))
__CPROVER_assigns(__CPROVER_object_whole(ret), *gh_S_slot, PROTS_GHOSTS, RC_GHOSTS)
__CPROVER_ensures(cv_exc_pending == 0 && WHOLE_CHAIN_RELEASED_ONCE && gh_n_slot_rmw == __CPROVER_old(gh_n_slot_rmw) + 1 && gh_n_push == 0)
__CPROVER_ensures(RET_IS_RC(ret) && gh_sn_calls == 0)                 /* the released listeners travel in the returned suspend point; nothing is resumed inside */
__CPROVER_ensures(gh_det_curval == (void *)__CPROVER_old(gh_sg_blk->obj._cur_val) && this_->_cur_val == __CPROVER_old(gh_sg_blk->obj._cur_val))   /* the value is not touched */
__CPROVER_ensures(gh_allocs == __CPROVER_old(gh_allocs))
;
#endif

/* ---- state::~state(): clears the value, then releases the chain; the released listeners are resumed/queued right there ------- */
#ifdef CV_HAS_st_dtor_u
void st_dtor(STATE *this_)
__CPROVER_requires(C_PRE && this_ == STATE0 && gh_S_role == S_ROLE_EMIT && gh_S_excl == 1 && gh_my_node == 0 && gh_node_own == OWN_NONE)
__CPROVER_assigns(__CPROVER_object_whole(gh_sg_blk), PROTS_GHOSTS, RC_GHOSTS)
__CPROVER_ensures(cv_exc_pending == 0 && WHOLE_CHAIN_RELEASED_ONCE && gh_n_push == 0)
__CPROVER_ensures(gh_det_curval == 0 && gh_rc_curval == 0 && this_->_cur_val == 0)      /* no value: every released listener sees await_canceled_exception */
__CPROVER_ensures(gh_detached == __CPROVER_old(*gh_S_slot))                                /* exactly the listeners still waiting */
__CPROVER_ensures(gh_sn_calls == (gh_rc_cf != 0 ? 1 : 0))                                 /* coroutine listeners are resumed at once (the suspend point is flushed) */
__CPROVER_ensures(gh_allocs == __CPROVER_old(gh_allocs))
;
#endif

/* ---- collector::operator(): value / rvalue / lvalue / void ------------------------------------------------------------------- *
 * Documented precondition (requires): not MT safe - this thread is THE emitting side (S_ROLE_EMIT: nobody else detaches or writes the
 * value).  The collector handle is non-empty and mine.
 * NO precondition about the listeners of the previous emission: whether they have run (and re-subscribed) when the next call is made is
 * not something a caller states, it is what the release of the returned suspend point does or does not achieve.  The property clause
 * "delivered ... with that value" is therefore stated where the value is obtained - emitter::await_resume, clauses [with-that-value] below,
 * unit em_resume_released - and "misses none" is decided on the real code by the drives (drive_*: plain thread; drive_incoro_*: from a coroutine). */
cv_i64 gh_v; void *gh_coll_obj;
#define COLL_PRE(this_) (C_PRE && gh_coll_obj == (void *)(this_) && (void *)SP_PI(&(this_)->_state) == (void *)gh_sg_blk && SP_PTR(&(this_)->_state) == STATE0 && \
   gh_sg_mine_s >= 1 && gh_S_role == S_ROLE_EMIT && gh_S_excl == 0 && gh_my_node == 0 && gh_node_own == OWN_NONE)
#define COLL_ASSIGNS(ret) __CPROVER_assigns(__CPROVER_object_whole(ret), __CPROVER_object_whole(gh_sg_blk), PROTS_GHOSTS, RC_GHOSTS, SG_GHOSTS)
#define COLL_POST(ret) \
__CPROVER_ensures(cv_exc_pending == 0 && WHOLE_CHAIN_RELEASED_ONCE && gh_n_push == 0) \
__CPROVER_ensures(RET_IS_RC(ret) && gh_sn_calls == 0)                /* every listener waiting at that moment is in the returned suspend point / was resumed by the walk */ \
__CPROVER_ensures(gh_det_curval != 0 && gh_det_val == gh_v)          /* at the instant of the detach the current value is the emitted one */ \
__CPROVER_ensures(gh_rc_curval == gh_det_curval && (void *)STATE0->_cur_val == gh_det_curval)     /* ... and it stays while the listeners are resumed */ \
__CPROVER_ensures(CB0->strong >= 1 && gh_sg_mine_s == __CPROVER_old(gh_sg_mine_s) && gh_sg_disposed == 0 && gh_sg_released == 0) \
__CPROVER_ensures(gh_allocs == __CPROVER_old(gh_allocs) && gh_frees == __CPROVER_old(gh_frees))
#define STORED_POST __CPROVER_ensures(gh_det_curval == ST_STORAGE_ADDR(STATE0) && ST_ENGAGED(STATE0) == 1 && ST_STORED(STATE0) == gh_v)   /* an owned copy */
#ifdef CV_HAS_co_call_rv
void co_call_rv(SP *ret, COLL *this_, cv_i32 *val)
__CPROVER_requires(COLL_PRE(this_) && __CPROVER_is_fresh(ret, sizeof(*ret)) && __CPROVER_is_fresh(val, sizeof(*val)) && gh_v == *val)
COLL_ASSIGNS(ret) COLL_POST(ret) STORED_POST;
#endif
#ifdef CV_HAS_co_call_val
void co_call_val(SP *ret, COLL *this_, cv_i32 *val)
__CPROVER_requires(COLL_PRE(this_) && __CPROVER_is_fresh(ret, sizeof(*ret)) && __CPROVER_is_fresh(val, sizeof(*val)) && gh_v == *val)
COLL_ASSIGNS(ret) COLL_POST(ret) STORED_POST
__CPROVER_ensures(*val == gh_v);
#endif
#ifdef CV_HAS_co_call_lv
void co_call_lv(SP *ret, COLL *this_, cv_i32 *val)
__CPROVER_requires(COLL_PRE(this_) && __CPROVER_is_fresh(ret, sizeof(*ret)) && __CPROVER_is_fresh(val, sizeof(*val)) && gh_v == *val)
COLL_ASSIGNS(ret) COLL_POST(ret)
__CPROVER_ensures(gh_det_curval == (void *)val && *val == gh_v)      /* by reference: the listeners see the caller's object itself, no copy */
__CPROVER_ensures(ST_ENGAGED(STATE0) == __CPROVER_old(ST_ENGAGED(STATE0)) && ST_STORED(STATE0) == __CPROVER_old(ST_STORED(STATE0)));
#endif
#ifdef CV_HAS_co_call_void
void co_call_void(SP *ret, COLL *this_)
__CPROVER_requires(COLL_PRE(this_) && __CPROVER_is_fresh(ret, sizeof(*ret)) && gh_v == 0)
COLL_ASSIGNS(ret) COLL_POST(ret) STORED_POST;
#endif

/* ---- emitter: await_ready / await_suspend / await_resume --------------------------------------------------------------------- *
 * The listener thread holds only the weak handle inside the emitter; other threads hold the strong handles: at every primitive they may
 * copy / destroy them (so the state may die at any instant before lock(), and the reference lock() took may become the last one) and
 * the emitting thread may detach the chain at any instant. */
void *gh_emit_obj;
#define EM_NODE(e) ((AWT *)&(e)->base_awaiter)
#define EM_CONNECTED(e) (WP_PI(&(e)->_wk_state) != 0)
#define EM_PRE(this_) (C_PRE && gh_emit_obj == (void *)(this_) && gh_S_excl == 0 && gh_sg_mine_s == 0 && \
   (EM_CONNECTED(this_) ==> ((void *)WP_PI(&(this_)->_wk_state) == (void *)gh_sg_blk && WP_PTR(&(this_)->_wk_state) == STATE0 && gh_sg_mine_w >= 1)))
#ifdef CV_HAS_em_ready
cv_i1 em_ready(void)
__CPROVER_requires(cv_exc_pending == 0) __CPROVER_assigns()
__CPROVER_ensures(__CPROVER_return_value == 0)                        /* a listener always suspends: it receives only values emitted while it waits */
;
#endif
#define CV_LOOP_aw_subscribe_0 \
  __CPROVER_assigns(CV_LOOP_LOCALS_aw_subscribe_0, this1->_next, *gh_S_slot, PROTS_GHOSTS) \
  __CPROVER_loop_invariant(cv_exc_pending == 0 && gh_my_node == (void *)this1 && gh_node_own == OWN_ME && gh_n_push == __CPROVER_loop_entry(gh_n_push) && \
                           gh_n_detach == __CPROVER_loop_entry(gh_n_detach) && gh_n_slot_rmw == __CPROVER_loop_entry(gh_n_slot_rmw) && \
                           (gh_S_excl == 1 ==> *gh_S_slot == __CPROVER_loop_entry(*gh_S_slot)))
#define SUBSCRIBED_ONCE(handle, fn) (gh_n_push == 1 && gh_push_handle == (void *)(handle) && gh_push_fn == (void *)(fn) && gh_push_next == gh_push_seen && \
   (gh_node_own == OWN_CHAIN || gh_node_own == OWN_WALK))             /* complete node published by exactly one RMW, linked to the value it replaced (no listener cut off) */
/* Cross-thread subscription: from the instant the push succeeds the emitting thread may detach the chain, resume the coroutine, and the
 * coroutine may run to its end - the frame, and the emitter inside it, are then GONE while await_suspend is still returning on this thread.
 * The unit hook below lets exactly that happen (nondeterministically) right after the push: the emitter object is freed, so anything
 * await_suspend touches of `this` after a successful subscription is a use-after-free found by CBMC. */
int gh_em_connected; int gh_node_freed;
/* awaiter::subscribe(chain) under its own contract (unit aw_subscribe): exactly one push of the own node, linked to the value replaced */
#ifdef CV_HAS_aw_subscribe_u
void aw_subscribe(AWT *this_, ATOMAW *chain)
__CPROVER_requires(cv_exc_pending == 0 && gh_S_slot == (void **)&chain->_M_b._M_p && gh_S_excl == 0 && gh_my_node == (void *)this_ && gh_node_own == OWN_ME && gh_n_push == 0 && this_ != 0)
__CPROVER_requires(gh_push_handle == (void *)this_->_handle_addr && gh_push_fn == (void *)this_->_resume_fn)        /* logical variables: the node's payload */
__CPROVER_assigns(this_->_next, *gh_S_slot, PROTS_GHOSTS)
__CPROVER_ensures(cv_exc_pending == 0 && gh_n_push == 1 && gh_n_slot_rmw == __CPROVER_old(gh_n_slot_rmw) + 1 && gh_n_detach == __CPROVER_old(gh_n_detach))
__CPROVER_ensures(gh_push_handle == (void *)this_->_handle_addr && gh_push_fn == (void *)this_->_resume_fn && gh_push_next == gh_push_seen && (gh_node_own == OWN_CHAIN || gh_node_own == OWN_WALK))
;
#endif
/* the same contract in operational form, for the cross-thread unit below: the push, then - at once - what the emitting thread may do */
#ifdef CV_HAS_aw_subscribe_abs
void aw_subscribe_abs(AWT *this_, ATOMAW *chain) {
  __CPROVER_assert(gh_S_slot == (void **)&chain->_M_b._M_p && gh_my_node == (void *)this_ && gh_node_own == OWN_ME && gh_n_push == 0, "awaiter::subscribe: precondition of its contract");
  protS_env();
  void *cur = *gh_S_slot; this_->_next = (AWT *)cur; CV_S_NODE_SNAPSHOT(this_);
  gh_node_own = OWN_CHAIN; gh_seen = cur; gh_push_seen = cur; gh_n_slot_rmw++; gh_n_push++; *gh_S_slot = (void *)this_;
  if (gh_S_role == S_ROLE_LISTEN && gh_emit_obj != 0 && nondet_bool()) {      /* detached, resumed, coroutine finished: the emitter is gone */
    protS_env_detach(); gh_node_freed = 1; free(gh_emit_obj); } }
#endif
#ifdef CV_HAS_em_suspend
cv_i1 em_suspend(EMIT *this_, cv_i8 *h)
__CPROVER_requires(EM_PRE(this_) && gh_S_role == S_ROLE_LISTEN && gh_sg_shared == 1 && gh_my_node == (void *)EM_NODE(this_) && gh_node_own == OWN_ME && h != 0)
__CPROVER_requires(gh_em_connected == (EM_CONNECTED(this_) ? 1 : 0) && gh_node_freed == 0)
__CPROVER_assigns(__CPROVER_object_whole(this_), __CPROVER_object_whole(gh_sg_blk), PROTS_GHOSTS, RC_GHOSTS, SG_GHOSTS, gh_node_freed)
__CPROVER_frees(gh_sg_blk, this_)
__CPROVER_ensures(cv_exc_pending == 0 && __CPROVER_return_value <= 1 && gh_sg_locks == 1)
__CPROVER_ensures(__CPROVER_return_value == (gh_sg_lock_ok ? 1 : 0))                      /* suspends (subscribes) iff the state was alive at the instant of lock() */
__CPROVER_ensures(__CPROVER_old(gh_sg_blk->cb.strong) == 0 ==> __CPROVER_return_value == 0)   /* awaiting a disconnected emitter never suspends */
__CPROVER_ensures(!gh_em_connected ==> __CPROVER_return_value == 0)
__CPROVER_ensures(__CPROVER_return_value == 1 ==> SUBSCRIBED_ONCE(h, 0))
__CPROVER_ensures(__CPROVER_return_value == 0 ==> (gh_n_push == 0 && gh_node_own == OWN_ME && gh_n_slot_rmw == __CPROVER_old(gh_n_slot_rmw) && gh_node_freed == 0))
__CPROVER_ensures(gh_sg_mine_s == 0 && gh_sg_mine_w == __CPROVER_old(gh_sg_mine_w))      /* the temporary strong reference is given back */
/* if that reference had become the last one, this thread ran ~state: the chain was released, no value */
__CPROVER_ensures(gh_sg_disposed <= 1 && (gh_sg_disposed == 1 ==> (__CPROVER_return_value == 1 && gh_n_detach == 1 && gh_rc_calls == 1 && gh_rc_chain == gh_detached && gh_det_curval == 0 && gh_node_own == OWN_WALK)))
__CPROVER_ensures(gh_sg_disposed == 0 ==> (gh_n_detach == 0 && gh_rc_calls == 0))
__CPROVER_ensures(gh_allocs == __CPROVER_old(gh_allocs) && gh_del_calls == 0)
;
#endif
/* await_resume: the current value iff the state is alive and a value is present, else await_canceled_exception.
 * [with-that-value] (property statement: "delivered to every listener that is waiting at that moment ... with that value"): the value a
 * released listener obtains is the value of the collector call that released it.  Release record (logical variables, set by the release
 * environment of unit em_resume_released; gh_rel_on == 0 in the units that start from an arbitrary state):
 *   gh_rel_on     this resumption is the consequence of a collector call, whose value was gh_rel_val
 *   gh_rel_queued the release of the suspend point returned by that call only QUEUED the listener (ready queue active = the collector was
 *                 called from inside a coroutine and the suspend point was discarded: contract of suspend_point::suspend_now, coroutine mode,
 *                 specs/C05/sp_q_spec.h "nothing is resumed, every handle lands at the tail"); 0: the listener runs INSIDE the release
 *                 (plain thread: suspend_now, normal mode; or the emitting coroutine co_awaits the suspend point). */
int gh_rel_on, gh_rel_queued; cv_i64 gh_rel_val;
#ifdef CV_HAS_em_resume
#ifdef CV_C15_VOID
void em_resume(EMIT *this_)
#else
cv_i32 *em_resume(EMIT *this_)
#endif
__CPROVER_requires(EM_PRE(this_) && gh_sg_shared == 1 && gh_my_node == 0 && gh_node_own == OWN_NONE)
__CPROVER_requires((gh_rel_on == 0 || gh_rel_on == 1) && (gh_rel_queued == 0 || gh_rel_queued == 1))
__CPROVER_assigns(__CPROVER_object_whole(gh_sg_blk), PROTS_GHOSTS, RC_GHOSTS, SG_GHOSTS, cv_exc_pending, cv_exc_obj, cv_exc_tinfo)
__CPROVER_frees(gh_sg_blk)
__CPROVER_ensures(gh_sg_locks == 1 && (gh_sg_lock_ok ==> __CPROVER_old(gh_sg_blk->cb.strong) >= 1) && (!EM_CONNECTED(this_) ==> !gh_sg_lock_ok))
#ifndef CV_C15_VOID
__CPROVER_ensures((gh_sg_lock_ok && __CPROVER_old(gh_sg_blk->obj._cur_val) != 0) ==> (cv_exc_pending == 0 && __CPROVER_return_value == __CPROVER_old(gh_sg_blk->obj._cur_val)))   /* THE current value (by reference) */
#else
__CPROVER_ensures((gh_sg_lock_ok && __CPROVER_old(gh_sg_blk->obj._cur_val) != 0) ==> cv_exc_pending == 0)
#endif
__CPROVER_ensures((!gh_sg_lock_ok || __CPROVER_old(gh_sg_blk->obj._cur_val) == 0) ==> (cv_exc_pending == 1 && cv_exc_tinfo == (void *)TI_AWAIT_CANCELED))
__CPROVER_ensures(gh_sg_mine_s == 0 && gh_n_push == 0 && gh_allocs == __CPROVER_old(gh_allocs) && gh_del_calls == 0)
#ifndef CV_C15_VOID
/* [with-that-value], listener resumed inside the release: a live object holding the value of the releasing call */
__CPROVER_ensures((gh_rel_on == 1 && gh_rel_queued == 0 && cv_exc_pending == 0) ==> (__CPROVER_r_ok(__CPROVER_return_value, sizeof(cv_i32)) && *__CPROVER_return_value == (cv_i32)gh_rel_val))
/* [with-that-value], listener only queued by the release - OPEN known finding (the emitting coroutine runs on before the listener does): */
__CPROVER_ensures(/* C15-FINDING-emit-in-coroutine [with that value] released listener only queued: still a live object holding the value of the collector call that released it */ (gh_rel_on == 1 && gh_rel_queued == 1 && cv_exc_pending == 0) ==> (__CPROVER_r_ok(__CPROVER_return_value, sizeof(cv_i32)) && *__CPROVER_return_value == (cv_i32)gh_rel_val))
#endif
;
#endif
/* The release environment of unit em_resume_released.  collector::operator() in the operational form of its contract (enforced on the real
 * bodies in units collect_rvalue / collect_value / collect_lvalue): COLL_POST "gh_det_curval != 0 && gh_det_val == gh_v" and "STATE0->_cur_val ==
 * gh_det_curval" - when the call returns the current-value pointer refers to an object holding the emitted value; STORED_POST - that object is
 * the owned copy (engaged); co_call_lv - it is the caller's object itself and the owned copy is untouched. */
#if defined(CV_HAS_em_resume) && !defined(CV_C15_VOID)
static void c15_env_collector_call(cv_i64 v, int by_ref, cv_i32 *callers_obj) {
  if (by_ref) { *callers_obj = (cv_i32)v; STATE0->_cur_val = callers_obj; }
  else { ST_ENGAGED(STATE0) = 1; ST_STORED(STATE0) = (cv_i32)v; STATE0->_cur_val = (cv_i32 *)ST_STORAGE_ADDR(STATE0); } }
#endif

/* ---- connect(): the self-owning callback awaiter Awt ------------------------------------------------------------------------- */
/* the user's callback (environment): records its invocation, answers "keep listening?" with the logical variable gh_cb_ret */
int gh_cb_calls; void *gh_cb_this; void *gh_cb_arg; cv_i64 gh_cb_val; cv_i1 gh_cb_ret; int gh_cb_npush_at_call, gh_cb_dels_at_call;
#ifdef CV_HAS_user_cb
#ifdef CV_C15_VOID
cv_i1 user_cb(CBT *this_) { gh_cb_calls++; gh_cb_this = this_; gh_cb_npush_at_call = gh_n_push; gh_cb_dels_at_call = gh_del_calls; return gh_cb_ret; }
#else
cv_i1 user_cb(CBT *this_, cv_i32 *v) { gh_cb_calls++; gh_cb_this = this_; gh_cb_arg = v; gh_cb_val = *v; gh_cb_npush_at_call = gh_n_push; gh_cb_dels_at_call = gh_del_calls; return gh_cb_ret; }
#endif
#endif
/* Awt::resume(): runs inside the chain walk of the emitting thread (collector call: value present) or of ~state / after a failed
 * initial registration (state gone).  Re-subscribes itself iff the callback returned true, otherwise deletes itself exactly once. */
void *gh_awt_obj;
#define AWT_EM(a) (&(a)->base_emitter)
#define AWT_PRE(this_) (C_PRE && gh_awt_obj == (void *)(this_) && gh_S_excl == 0 && gh_sg_mine_s == 0 && gh_sg_mine_w >= 1 && gh_cb_calls == 0 && gh_cb_ret <= 1 && \
   (void *)WP_PI(&AWT_EM(this_)->_wk_state) == (void *)gh_sg_blk && WP_PTR(&AWT_EM(this_)->_wk_state) == STATE0 && \
   gh_my_node == (void *)EM_NODE(AWT_EM(this_)) && gh_node_own == OWN_ME)
#define AWT_DELETED_ONCE(this_) (gh_del_calls == 1 && gh_del_last == (void *)(this_))
#ifdef CV_HAS_awt_resume
void awt_resume(AWTC *this_)
__CPROVER_requires(AWT_PRE(this_) && gh_sg_shared == 1 && gh_S_role == S_ROLE_EMIT)
__CPROVER_requires(CB0->strong >= 1 ==> STATE0->_cur_val != 0)     /* resumed by a collector call: a value is present; otherwise the state is gone */
__CPROVER_requires(EM_NODE(AWT_EM(this_))->_resume_fn != 0 && (STATE0->_cur_val != 0 ==> gh_v == (cv_i64)*STATE0->_cur_val))
__CPROVER_assigns(__CPROVER_object_whole(this_), __CPROVER_object_whole(gh_sg_blk), PROTS_GHOSTS, RC_GHOSTS, SG_GHOSTS, HEAP_GHOSTS, gh_cb_calls, gh_cb_this, gh_cb_arg, gh_cb_val, gh_cb_npush_at_call, gh_cb_dels_at_call)
__CPROVER_frees(this_, gh_sg_blk)
__CPROVER_ensures(cv_exc_pending == 0 && gh_sg_locks >= 1)
/* state alive: the callback runs exactly once with the current value, before anything else happens to the awaiter */
__CPROVER_ensures(gh_sg_lock_ok ==> (gh_cb_calls == 1 && gh_cb_this == (void *)&this_->_fn && gh_cb_npush_at_call == 0 && gh_cb_dels_at_call == 0))
#ifndef CV_C15_VOID
__CPROVER_ensures(gh_sg_lock_ok ==> (gh_cb_arg == (void *)__CPROVER_old(gh_sg_blk->obj._cur_val) && gh_cb_val == gh_v))
#endif
__CPROVER_ensures((gh_sg_lock_ok && gh_cb_ret == 1) ==> (SUBSCRIBED_ONCE(__CPROVER_old(((AWT *)gh_my_node)->_handle_addr), __CPROVER_old(((AWT *)gh_my_node)->_resume_fn)) && gh_del_calls == 0))   /* true: listens again */
__CPROVER_ensures((gh_sg_lock_ok && gh_cb_ret == 0) ==> (gh_n_push == 0 && AWT_DELETED_ONCE(this_)))       /* false: released exactly once */
/* state gone (disconnect): released exactly once, the callback is not called */
__CPROVER_ensures(!gh_sg_lock_ok ==> (gh_cb_calls == 0 && gh_n_push == 0 && AWT_DELETED_ONCE(this_)))
__CPROVER_ensures(gh_sg_lock_ok ==> __CPROVER_old(gh_sg_blk->cb.strong) >= 1)
__CPROVER_ensures(gh_sg_mine_s == 0 && gh_sg_mine_w == __CPROVER_old(gh_sg_mine_w) - (gh_del_calls == 1 ? 1 : 0))     /* its weak handle goes with it */
__CPROVER_ensures(gh_new_calls == 0)
;
#endif

/* the resume function installed by Awt's constructor: forwards to Awt::resume exactly once, returns an empty suspend point */
int gh_ar_calls; void *gh_ar_arg; void *gh_wp_obj;
#ifdef CV_HAS_awt_resume_abs
void awt_resume_abs(AWTC *a) { gh_ar_calls++; gh_ar_arg = a; }
#endif
#ifdef CV_HAS_awt_invoke_u
void awt_invoke(SP *ret, AWT *me, cv_i8 *ctx)
__CPROVER_requires(cv_exc_pending == 0 && gh_ar_calls == 0 && __CPROVER_is_fresh(ret, sizeof(*ret)))
__CPROVER_assigns(__CPROVER_object_whole(ret), gh_ar_calls, gh_ar_arg)
__CPROVER_ensures(cv_exc_pending == 0 && gh_ar_calls == 1 && gh_ar_arg == (void *)me && ret->_count_flag == 0)
;
#endif
/* Awt::Awt(fn, weak state): an emitter on the given state whose resume function is the lambda above, owning a copy of the callback */
#ifdef CV_HAS_awt_ctor
void awt_ctor(AWTC *this_, CBT *fn, WPT *state)
__CPROVER_requires(C_PRE && gh_wp_obj == (void *)state && (void *)WP_PI(state) == (void *)gh_sg_blk && WP_PTR(state) == STATE0 && gh_sg_mine_w >= 1 && gh_sg_mine_s == 0 && gh_S_excl == 0 && gh_sg_shared == 1)
__CPROVER_requires(__CPROVER_is_fresh(this_, sizeof(*this_)) && __CPROVER_is_fresh(fn, sizeof(*fn)))
__CPROVER_assigns(__CPROVER_object_whole(this_), __CPROVER_object_whole(gh_sg_blk), PROTS_GHOSTS, SG_GHOSTS)
__CPROVER_ensures(cv_exc_pending == 0 && (void *)WP_PI(&AWT_EM(this_)->_wk_state) == (void *)gh_sg_blk && WP_PTR(&AWT_EM(this_)->_wk_state) == STATE0)
__CPROVER_ensures((void *)EM_NODE(AWT_EM(this_))->_resume_fn == (void *)awt_invoke && EM_NODE(AWT_EM(this_))->_next == 0)
__CPROVER_ensures(this_->_fn.tag == fn->tag)
__CPROVER_ensures(gh_sg_mine_w == __CPROVER_old(gh_sg_mine_w) + 1 && gh_sg_mine_s == 0 && gh_n_push == 0 && gh_allocs == __CPROVER_old(gh_allocs) && gh_sg_released == 0)
;
#endif
/* Awt::initial_reg(): first registration (called by connect() on a thread that is not the emitting one) */
#ifdef CV_HAS_awt_initial_reg
void awt_initial_reg(AWTC *this_)
__CPROVER_requires(AWT_PRE(this_) && gh_sg_shared == 1 && gh_S_role == S_ROLE_LISTEN && gh_ar_calls == 0 && EM_NODE(AWT_EM(this_))->_resume_fn != 0)
__CPROVER_assigns(__CPROVER_object_whole(this_), __CPROVER_object_whole(gh_sg_blk), PROTS_GHOSTS, RC_GHOSTS, SG_GHOSTS, gh_ar_calls, gh_ar_arg)
__CPROVER_frees(gh_sg_blk)
__CPROVER_ensures(cv_exc_pending == 0 && gh_sg_locks == 1 && gh_del_calls == 0 && gh_sg_mine_s == 0)
__CPROVER_ensures(gh_sg_lock_ok ==> (SUBSCRIBED_ONCE(__CPROVER_old(((AWT *)gh_my_node)->_handle_addr), __CPROVER_old(((AWT *)gh_my_node)->_resume_fn)) && gh_ar_calls == 0))
__CPROVER_ensures(!gh_sg_lock_ok ==> (gh_n_push == 0 && gh_ar_calls == 1 && gh_ar_arg == (void *)this_))     /* nothing to listen to: resume() releases it */
;
#endif
/* connect(fn): exactly one heap awaiter on this signal's state carrying the callback; registered exactly once */
int gh_ir_calls; void *gh_ir_arg; void *gh_sig_obj; cv_i32 gh_tag;
#ifdef CV_HAS_awt_initial_reg_abs
void awt_initial_reg_abs(AWTC *a) { gh_ir_calls++; gh_ir_arg = a; }
#endif
#define SIG_PRE(this_) (C_PRE && gh_sig_obj == (void *)(this_) && (void *)SP_PI(&(this_)->_state) == (void *)gh_sg_blk && SP_PTR(&(this_)->_state) == STATE0 && gh_sg_mine_s >= 1 && gh_S_excl == 0)
#ifdef CV_HAS_connect
void connect(SIG *this_, CBT *fn)
__CPROVER_requires(SIG_PRE(this_) && gh_ir_calls == 0 && __CPROVER_is_fresh(fn, sizeof(*fn)) && gh_tag == fn->tag)
__CPROVER_assigns(__CPROVER_object_whole(gh_sg_blk), PROTS_GHOSTS, SG_GHOSTS, HEAP_GHOSTS, gh_ir_calls, gh_ir_arg)
__CPROVER_ensures(cv_exc_pending == 0 && gh_new_calls == 1 && gh_del_calls == 0 && gh_ir_calls == 1 && gh_ir_arg == gh_new_last)
__CPROVER_ensures(((AWTC *)gh_new_last)->_fn.tag == gh_tag && (void *)EM_NODE(AWT_EM((AWTC *)gh_new_last))->_resume_fn == (void *)awt_invoke)
__CPROVER_ensures((void *)WP_PI(&AWT_EM((AWTC *)gh_new_last)->_wk_state) == (void *)gh_sg_blk && WP_PTR(&AWT_EM((AWTC *)gh_new_last)->_wk_state) == STATE0)
__CPROVER_ensures(gh_sg_mine_w == __CPROVER_old(gh_sg_mine_w) + 1 && gh_sg_mine_s == __CPROVER_old(gh_sg_mine_s) && gh_sg_disposed == 0 && gh_n_push == 0)
;
#endif
/* get_emitter / get_collector: handles on THIS signal's state; the emitter holds a weak, the collector a strong reference */
#ifdef CV_HAS_get_emitter
void get_emitter(EMIT *ret, SIG *this_)
__CPROVER_requires(SIG_PRE(this_) && __CPROVER_is_fresh(ret, sizeof(*ret)))
__CPROVER_assigns(__CPROVER_object_whole(ret), __CPROVER_object_whole(gh_sg_blk), PROTS_GHOSTS, SG_GHOSTS)
__CPROVER_ensures(cv_exc_pending == 0 && (void *)WP_PI(&ret->_wk_state) == (void *)gh_sg_blk && WP_PTR(&ret->_wk_state) == STATE0 && EM_NODE(ret)->_next == 0)
__CPROVER_ensures(gh_sg_mine_w == __CPROVER_old(gh_sg_mine_w) + 1 && gh_sg_mine_s == __CPROVER_old(gh_sg_mine_s) && CB0->strong >= 1 && gh_sg_disposed == 0)   /* does not keep the state alive */
__CPROVER_ensures(gh_allocs == __CPROVER_old(gh_allocs) && gh_frees == __CPROVER_old(gh_frees) && gh_n_push == 0)
;
#endif
#ifdef CV_HAS_get_collector
void get_collector(COLL *ret, SIG *this_)
__CPROVER_requires(SIG_PRE(this_) && __CPROVER_is_fresh(ret, sizeof(*ret)))
__CPROVER_assigns(__CPROVER_object_whole(ret), __CPROVER_object_whole(gh_sg_blk), PROTS_GHOSTS, SG_GHOSTS)
__CPROVER_ensures(cv_exc_pending == 0 && (void *)SP_PI(&ret->_state) == (void *)gh_sg_blk && SP_PTR(&ret->_state) == STATE0)
__CPROVER_ensures(gh_sg_mine_s == __CPROVER_old(gh_sg_mine_s) + 1 && gh_sg_mine_w == __CPROVER_old(gh_sg_mine_w) && CB0->strong >= 2 && gh_sg_disposed == 0)    /* keeps the state alive */
__CPROVER_ensures(gh_allocs == __CPROVER_old(gh_allocs) && gh_frees == __CPROVER_old(gh_frees) && gh_n_push == 0)
;
#endif
/* ---- ~signal / ~collector: dropping a handle; the LAST one runs ~state (every still-waiting listener released with no value) */
#ifdef CV_HAS_sig_dtor
void sig_dtor(SIG *this_)
__CPROVER_requires(SIG_PRE(this_) && gh_S_role == S_ROLE_LISTEN && gh_my_node == 0 && gh_node_own == OWN_NONE)
__CPROVER_assigns(__CPROVER_object_whole(gh_sg_blk), PROTS_GHOSTS, RC_GHOSTS, SG_GHOSTS)
__CPROVER_frees(gh_sg_blk)
__CPROVER_ensures(cv_exc_pending == 0 && gh_sg_mine_s == __CPROVER_old(gh_sg_mine_s) - 1 && gh_sg_disposed <= 1)
__CPROVER_ensures(gh_sg_disposed == 1 ==> (gh_n_detach == 1 && gh_rc_calls == 1 && gh_rc_chain == gh_detached && gh_det_curval == 0 && gh_rc_curval == 0 && gh_sn_calls == (gh_rc_cf != 0 ? 1 : 0)))
__CPROVER_ensures(gh_sg_disposed == 0 ==> (gh_n_detach == 0 && gh_rc_calls == 0 && gh_sn_calls == 0))
__CPROVER_ensures((gh_sg_shared == 0 && __CPROVER_old(gh_sg_mine_s) == 1) ==> gh_sg_disposed == 1)       /* the last handle: listeners do not wait forever */
__CPROVER_ensures((gh_sg_shared == 0 && __CPROVER_old(gh_sg_mine_s) > 1) ==> gh_sg_disposed == 0)
__CPROVER_ensures(gh_sg_released == ((gh_sg_disposed == 1 && gh_sg_shared == 0 && gh_sg_mine_w == 0) ? 1 : 0) || gh_sg_shared == 1)
;
#endif

/* ---- hook_up_emitter::await_suspend ------------------------------------------------------------------------------------------- *
 * first co_await: creates a private signal, subscribes the coroutine FIRST and only then hands the collector to the user's registration
 * function (so the very first emission cannot be missed); if the registration function does not keep the collector, the state dies at
 * the end of the call and the coroutine is released with no value instead of waiting forever.  Later co_awaits: plain emitter. */
int gh_reg_calls, gh_reg_npush_at_call; void *gh_reg_state, *gh_reg_pi; cv_i1 gh_reg_keep; cv_i8 gh_reg_hooked_at_call;
#ifdef CV_HAS_user_reg
void user_reg(REGT *this_, COLL *c) {
  gh_reg_calls++; gh_reg_npush_at_call = gh_n_push; gh_reg_state = (void *)SP_PTR(&c->_state); gh_reg_pi = (void *)SP_PI(&c->_state);
#ifdef CV_HAS_hue_suspend
  gh_reg_hooked_at_call = ((HUE *)gh_emit_obj)->_hooked;
#endif
  if (gh_reg_keep) {          /* the signal generator moves the collector away: from now on other threads emit / may drop it at any time */
    SP_PI(&c->_state) = 0; SP_PTR(&c->_state) = 0; gh_sg_mine_s--; gh_sg_shared = 1; gh_S_excl = 0; gh_S_role = S_ROLE_LISTEN; } }
#endif
#ifdef CV_HAS_sp_make
CV_SG_DEFINE_MAKE(sp_make, ALLOCV, st_ctor(obj))
#endif
#ifdef CV_HAS_hue_suspend
cv_i1 hue_suspend(HUE *this_, cv_i8 *h)
__CPROVER_requires(cv_exc_pending == 0 && S_FRESH && RC_PRE && h != 0 && gh_emit_obj == (void *)this_ && gh_my_node == (void *)EM_NODE(&this_->base_emitter) && gh_node_own == OWN_ME)
__CPROVER_requires(gh_reg_calls == 0 && gh_reg_keep <= 1 && this_->_hooked == 0 && !EM_CONNECTED(&this_->base_emitter) && WP_PTR(&this_->base_emitter._wk_state) == 0)
__CPROVER_requires(gh_sg_blk == 0 && gh_S_slot == 0 && cv_sg_depth == 0 && gh_sg_mine_s == 0 && gh_sg_mine_w == 0 && gh_sg_made == 0 && gh_sg_locks == 0 && gh_sg_disposed == 0 && gh_sg_released == 0 && gh_sg_env_disposed == 0 && gh_sg_shared == 0)
__CPROVER_assigns(__CPROVER_object_whole(this_), PROTS_GHOSTS, RC_GHOSTS, SG_GHOSTS, gh_sg_blk, gh_S_slot, gh_sg_shared, gh_reg_calls, gh_reg_npush_at_call, gh_reg_state, gh_reg_pi, gh_reg_hooked_at_call)
__CPROVER_ensures(cv_exc_pending == 0 && __CPROVER_return_value == 1 && this_->_hooked == 1 && gh_sg_made == 1 && gh_allocs == __CPROVER_old(gh_allocs) + 1)
__CPROVER_ensures(gh_sg_blk != 0 && (void *)WP_PI(&this_->base_emitter._wk_state) == (void *)gh_sg_blk && WP_PTR(&this_->base_emitter._wk_state) == STATE0)
__CPROVER_ensures(gh_n_push == 1 && gh_push_handle == (void *)h && gh_push_fn == 0 && gh_push_next == 0 && gh_push_seen == 0)        /* first listener of a brand-new state */
__CPROVER_ensures(gh_reg_calls == 1 && gh_reg_npush_at_call == 1 && gh_reg_state == (void *)STATE0 && gh_reg_pi == (void *)gh_sg_blk)     /* subscribed BEFORE the collector is handed out */
/* from the instant the collector is handed out the generator may emit (synchronously inside the registration function, or from its own thread): the released
 * listener re-awaits THIS emitter object at once - "a listener that does nothing between signals except re-await the emitter misses none" - and that re-await
 * must already take the plain-emitter route: the emitter is marked hooked BEFORE the registration function runs (otherwise the re-await builds a second private
 * signal, registers again and the rest of the first signal's values are lost; seeded change C15-5) */
__CPROVER_ensures(gh_reg_hooked_at_call == 1)
__CPROVER_ensures(gh_sg_mine_s == 0 && gh_sg_mine_w == 1 && gh_sg_released == 0)
/* collector kept by the generator: the coroutine stays subscribed - unless the generator (another thread) has dropped the collector again before this call
 * returns, in which case the private signal object destroyed at the end of the call was the last handle and ~state ran here */
__CPROVER_ensures(gh_sg_disposed <= 1 && (gh_node_own == OWN_CHAIN || gh_node_own == OWN_WALK))
__CPROVER_ensures((gh_reg_keep == 1 && gh_sg_disposed == 0) ==> (gh_n_detach == 0 && gh_rc_calls == 0 && gh_sn_calls == 0))
__CPROVER_ensures((gh_reg_keep == 1 && gh_sg_disposed == 1) ==> (gh_n_detach == 1 && gh_rc_calls == 1 && gh_rc_chain == gh_detached && gh_det_curval == 0 && gh_node_own == OWN_WALK))
__CPROVER_ensures(gh_reg_keep == 0 ==> (gh_sg_disposed == 1 && CB0->strong == 0 && gh_n_detach == 1 && gh_rc_calls == 1 && gh_rc_chain == gh_detached && gh_detached == gh_my_node && \
                                        gh_det_curval == 0 && gh_node_own == OWN_WALK && gh_sn_calls == (gh_rc_cf != 0 ? 1 : 0)))        /* collector dropped: released at once, canceled */
;
#endif
/* later co_awaits (_hooked): exactly emitter::await_suspend */
#ifdef CV_HAS_hue_suspend_again
cv_i1 hue_suspend_again(HUE *this_, cv_i8 *h)
__CPROVER_requires(EM_PRE(&this_->base_emitter) && gh_S_role == S_ROLE_LISTEN && gh_sg_shared == 1 && gh_my_node == (void *)EM_NODE(&this_->base_emitter) && gh_node_own == OWN_ME && h != 0)
__CPROVER_requires(this_->_hooked == 1 && gh_reg_calls == 0 && gh_sg_made == 0)
__CPROVER_assigns(__CPROVER_object_whole(this_), __CPROVER_object_whole(gh_sg_blk), PROTS_GHOSTS, RC_GHOSTS, SG_GHOSTS)
__CPROVER_frees(gh_sg_blk)
__CPROVER_ensures(cv_exc_pending == 0 && __CPROVER_return_value <= 1 && gh_sg_locks == 1 && gh_reg_calls == 0 && gh_sg_made == 0 && this_->_hooked == 1)
__CPROVER_ensures(__CPROVER_return_value == (gh_sg_lock_ok ? 1 : 0))
__CPROVER_ensures(__CPROVER_return_value == 1 ==> SUBSCRIBED_ONCE(h, 0))
__CPROVER_ensures(__CPROVER_return_value == 0 ==> (gh_n_push == 0 && gh_node_own == OWN_ME))
__CPROVER_ensures(gh_sg_mine_s == 0 && gh_allocs == __CPROVER_old(gh_allocs))
;
#endif

/* ---- signal(): creates the shared state.  Initial state the other units start from: exactly one owner (this handle), nobody listening, no value
 * (a listener that is resumed before any emission - state destroyed - must see "no value" = await_canceled_exception, not garbage). */
#ifdef CV_HAS_sig_ctor
void sig_ctor(SIG *this_)
__CPROVER_requires(cv_exc_pending == 0 && S_FRESH && RC_PRE && __CPROVER_is_fresh(this_, sizeof(*this_)))
__CPROVER_requires(gh_sg_blk == 0 && gh_S_slot == 0 && cv_sg_depth == 0 && gh_sg_mine_s == 0 && gh_sg_mine_w == 0 && gh_sg_made == 0 && gh_sg_locks == 0 && gh_sg_disposed == 0 && gh_sg_released == 0 && gh_sg_env_disposed == 0 && gh_sg_shared == 0)
__CPROVER_assigns(__CPROVER_object_whole(this_), PROTS_GHOSTS, RC_GHOSTS, SG_GHOSTS, gh_sg_blk, gh_S_slot, gh_sg_shared)
__CPROVER_ensures(cv_exc_pending == 0 && gh_sg_made == 1 && gh_allocs == __CPROVER_old(gh_allocs) + 1 && gh_sg_blk != 0)                      /* one state, made once */
__CPROVER_ensures((void *)SP_PI(&this_->_state) == (void *)gh_sg_blk && SP_PTR(&this_->_state) == STATE0)                                       /* this handle refers to it */
__CPROVER_ensures(gh_sg_mine_s == 1 && gh_sg_mine_w == 0 && CB0->strong == 1 && gh_sg_disposed == 0 && gh_sg_released == 0 && gh_sg_shared == 0)   /* ... and is its only owner */
__CPROVER_ensures(gh_S_slot == ST_SLOT(STATE0) && *gh_S_slot == 0 && gh_n_push == 0 && gh_n_detach == 0 && gh_rc_calls == 0)                     /* nobody is listening */
__CPROVER_ensures(STATE0->_cur_val == 0 && ST_ENGAGED(STATE0) == 0)                                                                            /* no value yet */
;
#endif
/* ---- collector::operator signal(): one more strong handle on the SAME state (the collector keeps its own) */
#ifdef CV_HAS_coll_to_signal
void coll_to_signal(SIG *ret, COLL *this_)
__CPROVER_requires(C_PRE && gh_coll_obj == (void *)this_ && (void *)SP_PI(&this_->_state) == (void *)gh_sg_blk && SP_PTR(&this_->_state) == STATE0 && gh_sg_mine_s >= 1 && gh_S_excl == 0 && __CPROVER_is_fresh(ret, sizeof(*ret)))
__CPROVER_assigns(__CPROVER_object_whole(ret), __CPROVER_object_whole(this_), __CPROVER_object_whole(gh_sg_blk), PROTS_GHOSTS, SG_GHOSTS)
__CPROVER_ensures(cv_exc_pending == 0 && (void *)SP_PI(&ret->_state) == (void *)gh_sg_blk && SP_PTR(&ret->_state) == STATE0)                   /* the signal object is connected to the collector's state */
__CPROVER_ensures((void *)SP_PI(&this_->_state) == (void *)gh_sg_blk && SP_PTR(&this_->_state) == STATE0)                                       /* the collector stays connected */
__CPROVER_ensures(gh_sg_mine_s == __CPROVER_old(gh_sg_mine_s) + 1 && gh_sg_mine_w == __CPROVER_old(gh_sg_mine_w) && CB0->strong >= 2 && gh_sg_disposed == 0)
__CPROVER_ensures(gh_allocs == __CPROVER_old(gh_allocs) && gh_frees == __CPROVER_old(gh_frees) && gh_n_push == 0 && gh_n_detach == 0)          /* no listener is touched */
;
#endif
/* ---- hook_up_emitter(fn) / hook_up(fn): an emitter that is NOT yet hooked and NOT connected, owning the registration function - exactly the state the
 * first co_await (unit hue_suspend_first) requires: that unit subscribes first and only then calls the registration function. */
#define HUE_INITIAL(e, fn) (cv_exc_pending == 0 && (e)->_hooked == 0 && !EM_CONNECTED(&(e)->base_emitter) && WP_PTR(&(e)->base_emitter._wk_state) == 0 && \
   (e)->_fn.tag == (fn)->tag && EM_NODE(&(e)->base_emitter)->_next == 0)      /* not linked into any chain */
#ifdef CV_HAS_hue_ctor
void hue_ctor(HUE *this_, REGT *fn)
__CPROVER_requires(cv_exc_pending == 0 && __CPROVER_is_fresh(this_, sizeof(*this_)) && __CPROVER_is_fresh(fn, sizeof(*fn)))
__CPROVER_assigns(__CPROVER_object_whole(this_))
__CPROVER_ensures(HUE_INITIAL(this_, fn) && fn->tag == __CPROVER_old(fn->tag))
;
#endif
#ifdef CV_HAS_hook_up
void hook_up(HUE *ret, REGT *fn)
__CPROVER_requires(cv_exc_pending == 0 && __CPROVER_is_fresh(ret, sizeof(*ret)) && __CPROVER_is_fresh(fn, sizeof(*fn)))
__CPROVER_assigns(__CPROVER_object_whole(ret))
__CPROVER_ensures(HUE_INITIAL(ret, fn) && fn->tag == __CPROVER_old(fn->tag))
;
#endif
