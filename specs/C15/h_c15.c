/* C15 - harnesses of the contract units.  The registered state block, the handles and the listener objects are allocated HERE and the
 * ghost pointers are assigned (not assumed).  Every SENTINEL must be reachable (= FAIL), one per case of the contract. */
#define SENT(c, txt) do { if (c) __CPROVER_assert(0, "SENTINEL reachable: " txt); } while (0)
#define REG_STATE() struct cv_sg_block *blk = malloc(sizeof(struct cv_sg_block)); __CPROVER_assume(blk != 0); gh_sg_blk = blk; gh_S_slot = ST_SLOT(&blk->obj)
#define MK_COLL(c) COLL *c = malloc(sizeof(COLL)); __CPROVER_assume(c != 0); SP_PI(&c->_state) = (void *)blk; SP_PTR(&c->_state) = &blk->obj; gh_coll_obj = c
#define MK_EMIT(e) EMIT *e = malloc(sizeof(EMIT)); __CPROVER_assume(e != 0); if (nondet_bool()) { WP_PI(&e->_wk_state) = (void *)blk; WP_PTR(&e->_wk_state) = &blk->obj; } else { WP_PI(&e->_wk_state) = 0; WP_PTR(&e->_wk_state) = 0; } gh_emit_obj = e
#ifdef CV_HAS_st_notify
void h_notify(void) { REG_STATE(); SP *r; st_notify(r, &blk->obj); SENT(gh_detached == 0, "no listener waiting"); SENT(gh_detached != 0, "listeners waiting"); }
#endif
#ifdef CV_HAS_st_dtor_u
void h_state_dtor(void) { REG_STATE(); st_dtor(&blk->obj); SENT(gh_detached == 0, "~state, nobody waiting"); SENT(gh_detached != 0 && gh_rc_cf != 0, "~state, listeners released and resumed"); }
#endif
#ifdef CV_HAS_co_call_rv
void h_collect_rvalue(void) { REG_STATE(); MK_COLL(c); SP *r; cv_i32 *v; co_call_rv(r, c, v); SENT(gh_detached == 0, "emission, no listener"); SENT(gh_detached != 0, "emission, listeners released"); }
#endif
#ifdef CV_HAS_co_call_val
void h_collect_value(void) { REG_STATE(); MK_COLL(c); SP *r; cv_i32 *v; co_call_val(r, c, v); SENT(gh_detached == 0, "emission, no listener"); SENT(gh_detached != 0, "emission, listeners released"); }
#endif
#ifdef CV_HAS_co_call_lv
void h_collect_lvalue(void) { REG_STATE(); MK_COLL(c); SP *r; cv_i32 *v; co_call_lv(r, c, v); SENT(gh_detached == 0, "emission, no listener"); SENT(gh_detached != 0, "emission, listeners released"); }
#endif
#ifdef CV_HAS_co_call_void
void h_collect_void(void) { REG_STATE(); MK_COLL(c); SP *r; co_call_void(r, c); SENT(gh_detached == 0, "emission, no listener"); SENT(gh_detached != 0, "emission, listeners released"); }
#endif
#ifdef CV_HAS_em_ready
void h_em_ready(void) { em_ready(); SENT(1, "after await_ready"); }
#endif
#ifdef CV_HAS_em_suspend
void h_em_suspend(void) { REG_STATE(); MK_EMIT(e); gh_my_node = EM_NODE(e); gh_node_own = OWN_ME; gh_em_connected = (WP_PI(&e->_wk_state) != 0); cv_i8 *h; cv_i1 r = em_suspend(e, h);
  SENT(r && gh_sg_disposed == 0 && !gh_node_freed, "subscribed, state stays alive"); SENT(r && gh_sg_disposed == 1, "subscribed, own reference became the last: released at once");
#ifdef CV_HAS_aw_subscribe_abs
  SENT(r && gh_node_freed, "subscribed, resumed and finished on the emitting thread before await_suspend returned (emitter already destroyed)");
#endif
  SENT(!r && !gh_em_connected, "never connected: not suspended"); SENT(!r && gh_em_connected, "disconnected: not suspended"); }
#endif
#ifdef CV_HAS_em_resume
void h_em_resume(void) { REG_STATE(); MK_EMIT(e); gh_my_node = 0; gh_node_own = OWN_NONE; gh_rel_on = 0; gh_rel_queued = 0; em_resume(e);
  SENT(cv_exc_pending == 0, "value delivered"); SENT(cv_exc_pending != 0 && gh_sg_lock_ok, "alive but no value: canceled"); SENT(cv_exc_pending != 0 && !gh_sg_lock_ok, "state gone: canceled"); }
#endif
/* [with-that-value] - em_resume under the RELEASE ENVIRONMENT (audit item D4; replaces the free ghost gh_prev_released):
 *  (1) a collector call with value in_v1 (any overload) releases this listener - state as the collector contract leaves it;
 *  (2) the returned suspend point is released: in_queued == 0 - the listener runs inside the release (plain thread / co_await of the suspend
 *      point); in_queued == 1 - ready queue active and the suspend point discarded: the listener is only queued (C05 contract of suspend_now);
 *  (3) only then: the emitting coroutine runs on until its next suspension - it may call the collector again (any overload, any value) and the
 *      object of an lvalue emission may end its life (signal.h: keeping it valid "can be achieved by discarding the return value");
 *  (4) the listener runs: the REAL emitter::await_resume, enforced against its contract. */
#if defined(CV_HAS_em_resume) && !defined(CV_C15_VOID)
void h_em_resume_released(void) { REG_STATE(); EMIT *e = malloc(sizeof(EMIT)); __CPROVER_assume(e != 0); WP_PI(&e->_wk_state) = (void *)blk; WP_PTR(&e->_wk_state) = &blk->obj; gh_emit_obj = e;
  gh_my_node = 0; gh_node_own = OWN_NONE;
  int in_v1 = nondet_int(), in_v2 = nondet_int(), in_by_ref = nondet_bool(), in_queued = nondet_bool();     /* in_*: passed to the native replay (replay/c15_emit_in_coroutine.cpp) */
  int more = 0, dead = 0;
  cv_i32 *obj = malloc(sizeof(cv_i32)); __CPROVER_assume(obj != 0);                                       /* the caller's object of an lvalue emission */
  c15_env_collector_call(in_v1, in_by_ref, obj);                                                          /* (1) */
  gh_rel_on = 1; gh_rel_val = in_v1; gh_rel_queued = in_queued;                                           /* (2) */
  if (in_queued) {                                                                                        /* (3) */
    if (nondet_bool()) { more = 1; c15_env_collector_call(in_v2, nondet_bool(), obj); }
    if (in_by_ref && nondet_bool()) { dead = 1; free(obj); } }
  em_resume(e);                                                                                           /* (4) */
  SENT(!in_queued && cv_exc_pending == 0 && !in_by_ref, "resumed inside the release: owned copy delivered"); SENT(!in_queued && cv_exc_pending == 0 && in_by_ref, "resumed inside the release: caller's object delivered");
  SENT(in_queued && cv_exc_pending == 0 && !more && !dead, "queued, emitting coroutine did nothing more: value delivered");
  SENT(in_queued && cv_exc_pending == 0 && more, "queued, collector called again before the listener ran"); SENT(in_queued && cv_exc_pending == 0 && dead, "queued, lvalue object dead before the listener ran");
  SENT(cv_exc_pending != 0, "state died meanwhile: canceled"); }
#endif
#ifdef CV_HAS_awt_resume
void h_awt_resume(void) { REG_STATE(); AWTC *a = (AWTC *)malloc(sizeof(AWTC)); __CPROVER_assume(a != 0); gh_awt_obj = a;
  WP_PI(&AWT_EM(a)->_wk_state) = (void *)blk; WP_PTR(&AWT_EM(a)->_wk_state) = &blk->obj; gh_my_node = EM_NODE(AWT_EM(a)); gh_node_own = OWN_ME;
  void *vo = malloc(sizeof(cv_i32)); __CPROVER_assume(vo != 0);     /* the current value: the caller's object (lvalue emission), the owned copy, or none */
  blk->obj._cur_val = nondet_bool() ? vo : (nondet_bool() ? ST_STORAGE_ADDR(&blk->obj) : 0);
  awt_resume(a);
  SENT(gh_sg_lock_ok && gh_cb_ret == 1, "callback wants more: re-subscribed"); SENT(gh_sg_lock_ok && gh_cb_ret == 0, "callback done: deleted"); SENT(!gh_sg_lock_ok, "disconnected: deleted, not called"); }
#endif

#define MK_AWT(a) AWTC *a = (AWTC *)malloc(sizeof(AWTC)); __CPROVER_assume(a != 0); gh_awt_obj = a; \
  WP_PI(&AWT_EM(a)->_wk_state) = (void *)blk; WP_PTR(&AWT_EM(a)->_wk_state) = &blk->obj; gh_my_node = EM_NODE(AWT_EM(a)); gh_node_own = OWN_ME
#define MK_SIG(s) SIG *s = malloc(sizeof(SIG)); __CPROVER_assume(s != 0); SP_PI(&s->_state) = (void *)blk; SP_PTR(&s->_state) = &blk->obj; gh_sig_obj = s
#ifdef CV_HAS_awt_invoke_u
void h_awt_invoke(void) { SP *r; AWT *me; cv_i8 *ctx; awt_invoke(r, me, ctx); SENT(1, "after the resume function"); }
#endif
#ifdef CV_HAS_awt_ctor
void h_awt_ctor(void) { REG_STATE(); WPT *w = malloc(sizeof(WPT)); __CPROVER_assume(w != 0); WP_PI(w) = (void *)blk; WP_PTR(w) = &blk->obj; gh_wp_obj = w; AWTC *a; CBT *fn; awt_ctor(a, fn, w); SENT(1, "after Awt::Awt"); }
#endif
#ifdef CV_HAS_awt_initial_reg
void h_awt_initial_reg(void) { REG_STATE(); MK_AWT(a); awt_initial_reg(a); SENT(gh_sg_lock_ok, "registered"); SENT(!gh_sg_lock_ok, "state already gone: resume() called"); }
#endif
#ifdef CV_HAS_connect
void h_connect(void) { REG_STATE(); MK_SIG(s); CBT *fn; connect(s, fn); SENT(1, "after connect"); }
#endif
#ifdef CV_HAS_get_emitter
void h_get_emitter(void) { REG_STATE(); MK_SIG(s); EMIT *r; get_emitter(r, s); SENT(1, "after get_emitter"); }
#endif
#ifdef CV_HAS_get_collector
void h_get_collector(void) { REG_STATE(); MK_SIG(s); COLL *r; get_collector(r, s); SENT(1, "after get_collector"); }
#endif
#ifdef CV_HAS_sig_dtor
void h_sig_dtor(void) { REG_STATE(); MK_SIG(s); sig_dtor(s); SENT(gh_sg_disposed == 1 && gh_detached != 0, "last handle: listeners released"); SENT(gh_sg_disposed == 0, "other handles remain");
  SENT(gh_sg_disposed == 1 && gh_sg_released == 1, "last handle, no emitter left: block freed"); SENT(gh_sg_disposed == 1 && gh_sg_released == 0, "last handle, emitters remain: block kept"); }
#endif
#ifdef CV_HAS_hue_suspend
void h_hue_suspend(void) { gh_sg_blk = 0; gh_S_slot = 0; HUE *e = malloc(sizeof(HUE)); __CPROVER_assume(e != 0); gh_emit_obj = e; gh_my_node = EM_NODE(&e->base_emitter); gh_node_own = OWN_ME;
  WP_PI(&e->base_emitter._wk_state) = 0; WP_PTR(&e->base_emitter._wk_state) = 0; cv_i8 *h; hue_suspend(e, h);
  SENT(gh_reg_keep == 1, "collector kept by the generator: waiting"); SENT(gh_reg_keep == 0, "collector dropped: released at once"); }
#endif
#ifdef CV_HAS_hue_suspend_again
void h_hue_suspend_again(void) { REG_STATE(); HUE *e = malloc(sizeof(HUE)); __CPROVER_assume(e != 0); gh_emit_obj = &e->base_emitter; gh_my_node = EM_NODE(&e->base_emitter); gh_node_own = OWN_ME;
  WP_PI(&e->base_emitter._wk_state) = (void *)blk; WP_PTR(&e->base_emitter._wk_state) = &blk->obj; cv_i8 *h; cv_i1 r = hue_suspend_again(e, h);
  SENT(r, "subscribed"); SENT(!r, "disconnected: not suspended"); }
#endif
#ifdef CV_HAS_aw_subscribe_u
void h_aw_subscribe(void) { REG_STATE(); AWT *n = malloc(sizeof(AWT)); __CPROVER_assume(n != 0); gh_my_node = n; gh_node_own = OWN_ME; gh_push_handle = n->_handle_addr; gh_push_fn = (void *)n->_resume_fn;
  aw_subscribe(n, (ATOMAW *)&blk->obj._chain); SENT(gh_push_seen == 0, "first listener of the chain"); SENT(gh_push_seen != 0, "pushed on top of other listeners"); }
#endif
#ifdef CV_HAS_sig_ctor
void h_sig_ctor(void) { gh_sg_blk = 0; gh_S_slot = 0; SIG *s; sig_ctor(s); SENT(1, "after signal()"); }
#endif
#ifdef CV_HAS_coll_to_signal
void h_coll_to_signal(void) { REG_STATE(); MK_COLL(c); SIG *r; coll_to_signal(r, c); SENT(1, "after collector::operator signal()"); }
#endif
#ifdef CV_HAS_hue_ctor
void h_hue_ctor(void) { HUE *e; REGT *fn; hue_ctor(e, fn); SENT(1, "after hook_up_emitter(fn)"); }
#endif
#ifdef CV_HAS_hook_up
void h_hook_up(void) { HUE *e; REGT *fn; hook_up(e, fn); SENT(1, "after hook_up(fn)"); }
#endif
