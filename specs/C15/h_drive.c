/* C15 - BOUNDED DRIVE (DESIGN 3.8): the really lowered listener coroutines of drivers/c15_drive.cpp run on the real signal<int> code
 * (collector, emitter, connect's Awt, state destructor, awaiter chain walk, suspend_point flush, coro_queue).  Models: shared_ptr/weak_ptr
 * control block (lib/model_signal.c part B, no environment), std::deque ready queue as a concrete ring, typed coroutine frames.
 * Bounds: 1..3 coroutine listeners (+1 arriving between the signals) + 1 callback listener, exactly 2 emissions with symbolic values
 * (second one by value or by lvalue reference), then destruction of every handle; single thread; weak CAS never fails spuriously. */
/* std::atomic<cocls::awaiter*> at member-function level: sequential, orders ignored, a weak CAS never fails spuriously (retry loops under
 * spurious failure and interference are verified with loop contracts in the contract units).  The cell is read and written as the pointer
 * it is: CBMC does not fold (T *)((cv_i64)&frame + k) back, so instruction-level i64 atomics would turn an awaiter that lives inside a
 * coroutine frame into an opaque pointer and the devirtualised resume() would fork without end. */
unsigned gh_ap_ops;
#ifdef CV_HAS_ap_aw_load
AWT *ap_aw_load(ATOMAW *a, cv_i32 mo) { gh_ap_ops++; return (AWT *)a->_M_b._M_p; }
#endif
#ifdef CV_HAS_ap_aw_xchg
AWT *ap_aw_xchg(ATOMAW *a, AWT *v, cv_i32 mo) { gh_ap_ops++; AWT *old = (AWT *)a->_M_b._M_p; a->_M_b._M_p = v; return old; }
#endif
#ifdef CV_HAS_ap_aw_cas
cv_i1 ap_aw_cas(ATOMAW *a, AWT **expected, AWT *desired, cv_i32 so, cv_i32 fo) { gh_ap_ops++; AWT *old = (AWT *)a->_M_b._M_p;
  if (old == *expected) { a->_M_b._M_p = desired; return 1; } *expected = old; return 0; }
#endif
#define LOG(i) (&(*G_LOG)[i])
#ifdef DRIVE_main
void h_drive(void) {
  int nlist, late, lim; int in_v1 = nondet_unsigned(), in_v2 = nondet_unsigned(), in_by_ref = nondet_bool();      /* in_*: passed to the native replay (replay/c15_drive.cpp) */
  int v1 = in_v1, v2 = in_v2, by_ref = in_by_ref;
  nlist = DRIVE_NLIST; late = DRIVE_LATE; lim = DRIVE_LIM;            /* concrete shapes (one unit per shape): the suspend-point merge is too expensive for symbolic list lengths */
  *G_CB_LIMIT = lim;
  unsigned a0 = gh_allocs, f0 = gh_frees;
  c15_drive(nlist, v1, v2, by_ref, late);
  __CPROVER_assert(cv_exc_pending == 0, "no exception escapes");
  for (int i = 0; i < 3; i++) {
    if (i < nlist) {
      __CPROVER_assert(LOG(i)->n == 2 && LOG(i)->vals[0] == v1 && LOG(i)->vals[1] == v2, "a waiting coroutine listener receives every emitted value exactly once, in order, with that value");
      __CPROVER_assert(LOG(i)->canceled == 1 && LOG(i)->done == 1 && LOG(i)->other_exc == 0, "after the last handle is gone a waiting listener is resumed with await_canceled_exception (exactly once)");
    } else if (i == 2 && late) {
      __CPROVER_assert(LOG(i)->n == 1 && LOG(i)->vals[0] == v2, "a listener arriving between the signals receives exactly the later value");
      __CPROVER_assert(LOG(i)->canceled == 1 && LOG(i)->done == 1 && LOG(i)->other_exc == 0, "late listener released on disconnect");
    } else {
      __CPROVER_assert(LOG(i)->n == 0 && LOG(i)->done == 0, "unused listener slot untouched");
    } }
  /* the callback sees the values while it answers true; after false it is gone; still connected at the end: released */
  int expect = lim < 2 ? lim : 2;
  __CPROVER_assert(LOG(3)->n == expect && LOG(3)->vals[0] == v1 && (expect < 2 || LOG(3)->vals[1] == v2), "the connected callback receives each value emitted while it is connected, exactly once");
  __CPROVER_assert(gh_allocs - a0 == gh_frees - f0, "everything allocated is released: coroutine frames, the callback awaiter (also on disconnect), the shared state");
  __CPROVER_assert(gh_sg_made == 1 && gh_sg_disposed == 1 && gh_sg_released == 1, "one shared state, destroyed once, freed once");
  __CPROVER_assert(0, "SENTINEL reachable");
}
#endif
#ifdef DRIVE_disconnected
void h_drive(void) {
  unsigned a0 = gh_allocs, f0 = gh_frees;
  c15_drive_disconnected();
  __CPROVER_assert(cv_exc_pending == 0, "no exception escapes");
  __CPROVER_assert(LOG(0)->n == 0 && LOG(0)->canceled == 1 && LOG(0)->done == 1 && LOG(0)->other_exc == 0, "awaiting an emitter whose signal is gone fails immediately with await_canceled_exception");
  __CPROVER_assert(LOG(1)->n == 0 && LOG(1)->canceled == 1 && LOG(1)->done == 1 && LOG(1)->other_exc == 0, "awaiting a never-connected emitter fails immediately with await_canceled_exception");
  __CPROVER_assert(gh_allocs - a0 == gh_frees - f0, "everything allocated is released");
  __CPROVER_assert(0, "SENTINEL reachable");
}
#endif
#ifdef DRIVE_incoro
/* Audit item D4 - the same two emissions made from INSIDE a coroutine (drivers/c15_drive.cpp c15_drive_incoro): a producer coroutine, started
 * the way async::detach() starts one (discarded suspend point -> runs under the ready queue), calls the collector twice and discards the
 * returned suspend points (README generator; signal.h: "you can simply discard the result").  The listeners do nothing but re-await.
 * Oracle = the property statement, unchanged: "delivered to every listener waiting at that moment ... each exactly once, with that value -
 * and a listener that does nothing between signals except re-await the emitter misses none of them".
 * The two clauses that the unchanged library violates carry the marker of the OPEN known finding C15-FINDING-emit-in-coroutine (the released
 * listeners are only queued and read state::_cur_val when they run; no small repair - see units.py META); every other clause must hold. */
void h_drive(void) {
  int nlist; int in_v1 = nondet_unsigned(), in_v2 = nondet_unsigned(), in_by_ref = nondet_bool();      /* in_*: passed to the native replay (replay/c15_emit_in_coroutine.cpp) */
  int v1 = in_v1, v2 = in_v2, by_ref = in_by_ref;
  nlist = DRIVE_NLIST;
  unsigned a0 = gh_allocs, f0 = gh_frees;
  c15_drive_incoro(nlist, v1, v2, by_ref);
  __CPROVER_assert(cv_exc_pending == 0, "no exception escapes");
  __CPROVER_assert(LOG(3)->done == 1 && LOG(3)->other_exc == 0, "the emitting coroutine ran to its end exactly once");
  for (int i = 0; i < 3; i++) {
    if (i < nlist) {
      __CPROVER_assert(LOG(i)->n >= 1, "a listener waiting at the moment of a collector call is released by it (resumed at least once)");
      __CPROVER_assert(LOG(i)->n >= 1 ==> LOG(i)->vals[0] == v1, "C15-FINDING-emit-in-coroutine [with that value] the value a released listener obtains is the value of the collector call that released it (emitted from inside a coroutine, suspend point discarded)");
      __CPROVER_assert(LOG(i)->n == 2 && LOG(i)->vals[1] == v2, "C15-FINDING-emit-in-coroutine [misses none] a listener that does nothing between signals except re-await the emitter receives every emitted value exactly once (emitted from inside a coroutine, suspend point discarded)");
      __CPROVER_assert(LOG(i)->n <= 2, "no value is delivered more often than it was emitted");
      __CPROVER_assert(LOG(i)->canceled == 1 && LOG(i)->done == 1 && LOG(i)->other_exc == 0, "after the last handle is gone a waiting listener is resumed with await_canceled_exception (exactly once)");
    } else {
      __CPROVER_assert(LOG(i)->n == 0 && LOG(i)->done == 0, "unused listener slot untouched");
    } }
  __CPROVER_assert(gh_allocs - a0 == gh_frees - f0, "everything allocated is released: coroutine frames (listeners, producer), the shared state");
  __CPROVER_assert(gh_sg_made == 1 && gh_sg_disposed == 1 && gh_sg_released == 1, "one shared state, destroyed once, freed once");
  __CPROVER_assert(0, "SENTINEL reachable");
}
#endif
#ifdef CV_HAS_sp_make
CV_SG_DEFINE_MAKE(sp_make, ALLOCV, st_ctor(obj))
#endif
/* signal<void> (drivers/c15_drive.cpp c15_drive_void): 1..3 coroutine listeners (+1 arriving between the emissions) + 1 connected callback, two
 * emissions, destruction of every handle.  Oracle = the property statement for a value-less signal: each emission resumes every listener waiting at
 * that moment exactly once; a listener that only re-awaits misses none; disconnect wakes every still-waiting listener with await_canceled_exception. */
#ifdef DRIVE_void
void h_drive(void) {
  int nlist = DRIVE_NLIST, late = DRIVE_LATE, lim = DRIVE_LIM;
  *G_CB_LIMIT = lim;
  unsigned a0 = gh_allocs, f0 = gh_frees;
  c15_drive_void(nlist, late);
  __CPROVER_assert(cv_exc_pending == 0, "no exception escapes");
  for (int i = 0; i < 3; i++) {
    if (i < nlist) {
      __CPROVER_assert(LOG(i)->n == 2, "a waiting coroutine listener is resumed exactly once per emission (two emissions: twice)");
      __CPROVER_assert(LOG(i)->canceled == 1 && LOG(i)->done == 1 && LOG(i)->other_exc == 0, "after the last handle is gone a waiting listener is resumed with await_canceled_exception (exactly once)");
    } else if (i == 2 && late) {
      __CPROVER_assert(LOG(i)->n == 1, "a listener arriving between the emissions is resumed by exactly the later one");
      __CPROVER_assert(LOG(i)->canceled == 1 && LOG(i)->done == 1 && LOG(i)->other_exc == 0, "late listener released on disconnect");
    } else {
      __CPROVER_assert(LOG(i)->n == 0 && LOG(i)->done == 0, "unused listener slot untouched");
    } }
  int expect = lim < 2 ? lim : 2;
  __CPROVER_assert(LOG(3)->n == expect, "the connected callback is called once per emission made while it is connected");
  __CPROVER_assert(gh_allocs - a0 == gh_frees - f0, "everything allocated is released: coroutine frames, the callback awaiter (also on disconnect), the shared state");
  __CPROVER_assert(gh_sg_made == 1 && gh_sg_disposed == 1 && gh_sg_released == 1, "one shared state, destroyed once, freed once");
  __CPROVER_assert(0, "SENTINEL reachable");
}
#endif
