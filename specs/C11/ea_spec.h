/* C11 - co_await pool(awaitable): the members of thread_pool::enqueue_awaiter<co_awaiter<future<int>>> other than perform_resume (that one: tp_spec.h,
 * unit pool_await_fwd), thread_pool::operator()(awaitable) that builds the awaiter, and the two one-line rvalue forwarders resume(suspend_point&&) /
 * run(async&&).  Enforced DFCC contracts on the real translated bodies; the members of the WRAPPED awaiter (co_awaiter<future<int>>: property C01/C02)
 * and the lvalue overloads (units resume_sp_fwd / resume_sp_stopped / run_async_stopped) are recording stubs - forwarder style.
 *
 * Clauses (property C11: "a coroutine doing co_await pool(awaitable) is executed exactly once on one of the pool's worker threads, or cancelled once"):
 *   operator()(awt) / ctor : the awaiter is bound to THIS pool and to THE awaitable, registered nowhere yet (fresh awaiter base).
 *   await_ready()          : exactly the wrapped awaiter's answer, asked once, nothing changed (true = the result is there already: the documented
 *                            behaviour is that the coroutine does not suspend and continues on the CALLING thread - no work is handed to the pool).
 *   await_suspend(h)       : the wrapped awaiter is subscribed exactly once, with resume callback == perform_resume and context == this awaiter, AFTER
 *                            the awaiter recorded h as the coroutine to continue (_handle_addr == h, _resume_fn == 0: exactly the precondition of unit
 *                            pool_await_fwd, which proves that the callback hands exactly h to this pool once); the answer of the subscription is
 *                            returned unchanged: true = suspended, h will be continued by the callback ONLY; false = not subscribed (result arrived in
 *                            between), the coroutine continues at once on the calling thread and no callback is pending - never both.
 *   await_resume()         : exactly the wrapped awaiter's result, asked once.
 *   resume(sp&&)           : one call of resume(sp&) with the same pool and the same suspend point (every handle reaches the pool exactly once: resume_sp_fwd).
 *   run(async&&)           : one call of run(async&) with the same pool / coroutine, constructing the returned future in place (value or broken promise and
 *                            the open finding C11-FINDING are those of run(async&): unit run_async_stopped). */
#define SENT(what) __CPROVER_assert(0, "SENTINEL reachable: " what)
#define AWB(e) (&(e)->base_awaiter)

/* ---- enqueue_awaiter(Awt&&, thread_pool&) ------------------------------------------------------------------------------------------------- */
#ifdef CV_HAS_ea_ctor
void ea_ctor(EAW *this_, CAF *awt, TP *pool)
__CPROVER_requires(cv_exc_pending == 0 && __CPROVER_is_fresh(this_, sizeof(EAW)) && __CPROVER_is_fresh(awt, sizeof(CAF)))
__CPROVER_assigns(__CPROVER_object_whole(this_))
__CPROVER_ensures(cv_exc_pending == 0 && this_->_pool == pool)                                                       /* bound to this pool */
__CPROVER_ensures(this_->_awt._owner == awt->_owner && this_->_awt.base_awaiter._next == awt->base_awaiter._next &&
                  this_->_awt.base_awaiter._handle_addr == awt->base_awaiter._handle_addr && this_->_awt.base_awaiter._resume_fn == awt->base_awaiter._resume_fn)   /* wraps a copy of that awaiter */
__CPROVER_ensures(AWB(this_)->_next == 0 && AWB(this_)->_handle_addr == 0)                                           /* its own awaiter base: in no chain, no coroutine yet */
__CPROVER_ensures(awt->_owner == __CPROVER_old(awt->_owner))
;
void h_ea_ctor(void) { EAW *e; CAF *a; TP *p; ea_ctor(e, a, p); SENT("enqueue_awaiter constructed"); }
#endif

/* ---- thread_pool::operator()(future<int>&) ------------------------------------------------------------------------------------------------ */
#ifdef CV_HAS_ea_pool_call
void ea_pool_call(EAW *ret, TP *this_, FUT *awt)
__CPROVER_requires(cv_exc_pending == 0 && __CPROVER_is_fresh(ret, sizeof(EAW)))
__CPROVER_assigns(__CPROVER_object_whole(ret))
__CPROVER_ensures(cv_exc_pending == 0 && ret->_pool == this_ && ret->_awt._owner == awt)                             /* THIS pool, THE awaitable */
__CPROVER_ensures(ret->_awt.base_awaiter._next == 0 && AWB(ret)->_next == 0 && AWB(ret)->_handle_addr == 0)          /* nothing registered yet */
;
void h_ea_pool_call(void) { EAW *e; TP *p; FUT *f; ea_pool_call(e, p, f); SENT("pool(awaitable) built its awaiter"); }
#endif

/* ---- await_ready() ---------------------------------------------------------------------------------------------------------------------------- */
#ifdef CV_HAS_ea_await_ready
struct ear_model { int calls; CAF *on; cv_i1 answer; } ear;
#ifdef CV_HAS_caf_ready
cv_i1 caf_ready(CAF *a) { ear.calls++; ear.on = a; ear.answer = nondet_bool() ? 1 : 0; return ear.answer; }
#endif
cv_i1 ea_await_ready(EAW *this_)
__CPROVER_requires(cv_exc_pending == 0 && ear.calls == 0 && __CPROVER_is_fresh(this_, sizeof(EAW)))
__CPROVER_assigns(__CPROVER_object_whole(&ear))
__CPROVER_ensures(cv_exc_pending == 0 && ear.calls == 1 && ear.on == &this_->_awt)
__CPROVER_ensures(__CPROVER_return_value <= 1 && __CPROVER_return_value == ear.answer)
;
void h_ea_await_ready(void) { EAW *e; cv_i1 r = ea_await_ready(e);
  if (r) SENT("co_await pool(awaitable): result already there - the coroutine does not suspend (continues on the calling thread, documented)"); else SENT("co_await pool(awaitable): must suspend"); }
#endif

/* ---- await_suspend(h) ------------------------------------------------------------------------------------------------------------------------- */
#ifdef CV_HAS_ea_await_suspend
struct eas_model { int calls; CAF *on; void *fn; cv_i8 *ctx; cv_i1 answer; cv_i8 *h_at_call; void *rfn_at_call; } eas;
#ifdef CV_HAS_caf_suspend
/* co_awaiter<future<int>>::await_suspend(resume_fn, ctx): set_resume_fn(fn, ctx) on itself + future::subscribe (true: registered; false: already resolved).
 * Another thread may resolve the future and run the callback at once: what the callback needs must be in place NOW (recorded here). */
cv_i1 caf_suspend(CAF *a, void (*fn)(SP *, AWT *, cv_i8 *), cv_i8 *ctx) {
  eas.calls++; eas.on = a; eas.fn = (void *)fn; eas.ctx = ctx;
  eas.h_at_call = ((EAW *)ctx)->base_awaiter._handle_addr; eas.rfn_at_call = (void *)((EAW *)ctx)->base_awaiter._resume_fn;
  a->base_awaiter._resume_fn = fn; a->base_awaiter._handle_addr = ctx;
  eas.answer = nondet_bool() ? 1 : 0; return eas.answer; }
#endif
cv_i1 ea_await_suspend(EAW *this_, cv_i8 *h)
__CPROVER_requires(cv_exc_pending == 0 && eas.calls == 0 && __CPROVER_is_fresh(this_, sizeof(EAW)) && h != 0)
__CPROVER_assigns(__CPROVER_object_whole(&eas), __CPROVER_object_whole(this_))
__CPROVER_ensures(cv_exc_pending == 0 && eas.calls == 1 && eas.on == &this_->_awt)                                   /* subscribed exactly once, the wrapped awaiter */
#ifdef CV_HAS_ea_perform_resume_fn
__CPROVER_ensures(eas.fn == (void *)ea_perform_resume_fn)                                                            /* continuation = perform_resume (hands the coroutine to the pool) */
#endif
__CPROVER_ensures(eas.ctx == (cv_i8 *)this_ && this_->_pool == __CPROVER_old(this_->_pool))                          /* ... of THIS awaiter, pool unchanged */
__CPROVER_ensures(eas.h_at_call == h && eas.rfn_at_call == 0)                                                        /* h recorded BEFORE the subscription (the callback may run at once) */
__CPROVER_ensures(AWB(this_)->_handle_addr == h && AWB(this_)->_resume_fn == 0)                                      /* = precondition of perform_resume (unit pool_await_fwd) */
__CPROVER_ensures(__CPROVER_return_value <= 1 && __CPROVER_return_value == eas.answer)                               /* suspended iff subscribed */
;
void h_ea_await_suspend(void) { EAW *e; cv_i8 *h; cv_i1 r = ea_await_suspend(e, h);
  if (r) SENT("co_await pool(awaitable): subscribed - continuation through perform_resume only"); else SENT("co_await pool(awaitable): resolved in between - continues at once, no callback pending"); }
#endif

/* ---- await_resume() --------------------------------------------------------------------------------------------------------------------------- */
#ifdef CV_HAS_ea_await_resume
struct eav_model { int calls; CAF *on; cv_i32 *answer; } eav;
#ifdef CV_HAS_caf_resume
cv_i32 *caf_resume(CAF *a) { eav.calls++; eav.on = a; eav.answer = (cv_i32 *)nondet_ptr(); return eav.answer; }
#endif
cv_i32 *ea_await_resume(EAW *this_)
__CPROVER_requires(cv_exc_pending == 0 && eav.calls == 0 && __CPROVER_is_fresh(this_, sizeof(EAW)))
__CPROVER_assigns(__CPROVER_object_whole(&eav))
__CPROVER_ensures(cv_exc_pending == 0 && eav.calls == 1 && eav.on == &this_->_awt && __CPROVER_return_value == eav.answer)
;
void h_ea_await_resume(void) { EAW *e; cv_i32 *r = ea_await_resume(e); SENT("co_await pool(awaitable): result of the wrapped awaiter"); }
#endif

/* ---- resume(suspend_point<void>&&) -> resume(suspend_point<void>&) ---------------------------------------------------------------------------- */
#ifdef CV_HAS_rv_resume_sp
struct rvs_model { int calls; TP *pool; SP *sp; } rvs;
#ifdef CV_HAS_rv_resume_sp_lv
void rv_resume_sp_lv(TP *pool, SP *sp) { rvs.calls++; rvs.pool = pool; rvs.sp = sp; sp->_count_flag = sp->_count_flag & 1; }      /* resume(sp&) leaves the suspend point empty (unit resume_sp_fwd) */
#endif
void rv_resume_sp(TP *this_, SP *spt)
__CPROVER_requires(cv_exc_pending == 0 && rvs.calls == 0 && __CPROVER_is_fresh(spt, sizeof(SP)))
__CPROVER_assigns(__CPROVER_object_whole(&rvs), spt->_count_flag)
__CPROVER_ensures(cv_exc_pending == 0 && rvs.calls == 1 && rvs.pool == this_ && rvs.sp == spt)                       /* the same handles, the same pool, once */
__CPROVER_ensures((spt->_count_flag >> 1) == 0)                                                                     /* nothing left behind in the argument: its destructor resumes nothing on the calling thread */
;
void h_resume_sp_rv_fwd(void) { TP *p; SP *s; rv_resume_sp(p, s); SENT("resume(suspend_point&&) forwarded"); }
#endif

/* ---- run(async<int>&&) -> run(async<int>&) ---------------------------------------------------------------------------------------------------- */
#ifdef CV_HAS_rv_run_async
struct rva_model { int calls; TP *pool; cv_i8 *h; FUT *ret; } rva;
#ifdef CV_HAS_rv_run_async_lv
/* run(async&): binds the coroutine to the future it constructs in `ret` and takes it out of the async object (unit run_async_stopped) */
void rv_run_async_lv(FUT *ret, TP *pool, ASY *fn) { rva.calls++; rva.pool = pool; rva.h = fn->_h._M_fr_ptr; fn->_h._M_fr_ptr = 0; rva.ret = ret; }
#endif
#ifdef CV_HAS_rv_fut_dtor
void rv_fut_dtor(FUT *f) { }      /* a discarded future (only a rewrite creates one) */
#endif
void rv_run_async(FUT *ret, TP *this_, ASY *fn)
__CPROVER_requires(cv_exc_pending == 0 && rva.calls == 0 && __CPROVER_is_fresh(fn, sizeof(ASY)) && fn->_h._M_fr_ptr != 0)
__CPROVER_assigns(__CPROVER_object_whole(&rva), fn->_h._M_fr_ptr)
__CPROVER_ensures(cv_exc_pending == 0 && rva.calls == 1 && rva.pool == this_ && rva.ret == ret)                      /* once, this pool; the future the caller receives IS the one run(async&) built */
__CPROVER_ensures(rva.h == __CPROVER_old(fn->_h._M_fr_ptr) && fn->_h._M_fr_ptr == 0)                                 /* THE coroutine of the argument; it left the argument (no second owner) */
;
void h_run_async_rv_fwd(void) { FUT *r; TP *p; ASY *a; rv_run_async(r, p, a); SENT("run(async&&) forwarded"); }
#endif
