/* C11 - closure level: the REAL closures thread_pool hands to its queue, the REAL cocls::function<void()> type-erasure machinery that owns
 * them (construct, move, call, destroy, virtual dispatch), std::unique_ptr with the cancelling deleter, std::tuple - all translated from the
 * headers and executed symbolically (plain CBMC harnesses, exhaustive over the nondeterministic inputs; no contract instrumentation: DFCC would
 * make the vtables nondeterministic).  Abstract here:
 *   thread_pool::enqueue   - the pool's answer is an input: ACCEPT (the closure is moved, with the real move constructor, into a cell that stands
 *                            for the queue element) or REJECT (pool stopped: the argument is left untouched - exactly enqueue's contract, unit
 *                            `enqueue`).  What happens to an accepted closure is a second input: a worker moves it out and RUNS it, or stop()
 *                            DESTROYS it un-run (units `worker` / `stop` prove that exactly one of the two happens, exactly once).
 *   coro_queue::resume     - recording primitive (which handle, how often).  Strongest environment: the resumed coroutine runs at once, evaluates
 *                            await_resume() on its awaiter and then destroys its frame - the awaiter object is FREED inside the primitive, so any
 *                            later access by library code is a use-after-free obligation.
 *   promise<int>           - one word (the future it may still resolve); resolution with a value / an exception / dropped un-resolved (= broken
 *                            promise, property C01) is recorded per future.
 *   async<int>::start(p)   - claims the promise for the coroutine and returns the suspend point holding the started coroutine.
 *   user jobs              - observation hooks of the driver's callables. */
#define SENT(what) __CPROVER_assert(0, "SENTINEL reachable: " what)
#define CHECK(c, what) __CPROVER_assert(c, what)
/* std::bad_function_call (thrown by an empty cocls::function): libstdc++'s exception class is not translated (external vtable); only its type identity matters */
#ifdef CV_HAS_bfc_ctor
void bfc_ctor(void *e) { }
#endif

/* ---- thread_pool::enqueue (abstract): accept / reject ------------------------------------------------------------------------------------- */
#ifdef CV_HAS_tp_enqueue
#define CL_SLOTS 4
QI gh_slot[CL_SLOTS];                          /* queue elements (accepted closures), in order of acceptance */
int gh_enq_calls, gh_enq_accepted; TP *gh_enq_pool;
cv_i1 in_accept[CL_SLOTS + 1];                 /* the pool's answer to the k-th enqueue */
void tp_enqueue(TP *pool, QI *fn) {
  __CPROVER_assert(gh_enq_calls < CL_SLOTS, "model bound: number of enqueue calls in one scenario");
  gh_enq_pool = pool;
  if (in_accept[gh_enq_calls]) { __CPROVER_assert(fn->base_function_base._ptr != 0, "an empty function object is submitted"); fn_move(&gh_slot[gh_enq_accepted], fn); gh_enq_accepted++; }
  gh_enq_calls++; }
#endif

/* ---- coro_queue::resume (recording) --------------------------------------------------------------------------------------------------------- */
#ifdef CV_HAS_cq_resume
#define CL_H 5
cv_i8 *gh_h[CL_H]; int gh_h_resumed[CL_H];    /* the coroutines of the scenario and how often each was resumed */
int gh_res_other;                               /* resumptions of anything else */
#ifdef CV_HAS_aw_resume
CAW *gh_aw; int gh_aw_resume_threw; void *gh_aw_resume_tinfo;   /* the awaiter living in the frame of coroutine gh_h[0] */
#endif
void cq_resume(cv_i8 *h) {
  int k = -1;
  for (int i = 0; i < CL_H; i++) if (gh_h[i] != 0 && gh_h[i] == h) k = i;
  if (k < 0) { gh_res_other++; return; }
  gh_h_resumed[k]++;
#ifdef CV_HAS_aw_resume
  if (k == 0 && gh_aw != 0) {                   /* the coroutine continues: co_await's await_resume(), then (worst case) it finishes and its frame dies */
    aw_resume(gh_aw);
    gh_aw_resume_threw = cv_exc_pending; gh_aw_resume_tinfo = cv_exc_pending ? cv_exc_tinfo : 0; cv_exc_pending = 0;
    free(gh_aw); gh_aw = 0; }
#endif
}
#endif

/* ---- promise<int> (abstract) ------------------------------------------------------------------------------------------------------------------ */
#ifdef CV_HAS_pr_dtor
#define PR_OWN(p) (*(void **)&(p)->_owner)
void *gh_F;                                     /* the future under observation */
int gh_F_val_n, gh_F_exc_n, gh_F_drop_n, gh_pr_other; cv_i32 gh_F_val; void *gh_F_excobj;
static void pr_result(SPB *ret, void *m) { ret->base_suspend_point._count_flag = 0; ret->base_suspend_point.f0.f0._handles[0] = 0; ret->value = m ? 1 : 0; }
void pr_dtor(PROM *p) { void *m = PR_OWN(p); PR_OWN(p) = 0; if (m) { if (m == gh_F) gh_F_drop_n++; else gh_pr_other++; } }
#ifdef CV_HAS_pr_call_int
void pr_call_int(SPB *ret, PROM *p, cv_i32 *v) { void *m = PR_OWN(p); PR_OWN(p) = 0; if (m) { if (m == gh_F) { gh_F_val_n++; gh_F_val = *v; } else gh_pr_other++; } pr_result(ret, m); }
#endif
#ifdef CV_HAS_pr_call_exc
void pr_call_exc(SPB *ret, PROM *p, EPTR *e) { void *m = PR_OWN(p); PR_OWN(p) = 0; if (m) { if (m == gh_F) { gh_F_exc_n++; gh_F_excobj = e->_M_exception_object; } else gh_pr_other++; } pr_result(ret, m); }
#endif
#endif
#ifdef CV_HAS_sp_dtor
int gh_sp_dtor_nonempty;                        /* a non-empty suspend point resumes its coroutines in the destroying thread */
void sp_dtor(SP *sp) { if (sp->_count_flag >> 1) gh_sp_dtor_nonempty++; }
#endif
