/* C11 - closure-level harnesses (see cl_spec.h).  Plain CBMC: statics start at zero, inputs (in_*) are assigned nondeterministic values here.
 * Every scenario = one submission followed by what the pool may do with the closure:
 *      REJECTED (pool stopped)  |  ACCEPTED, moved out by a worker and RUN  |  ACCEPTED and DESTROYED UN-RUN (stop() swapped the queue out). */
#define NEWOBJ(T, v) T *v = malloc(sizeof(T)); __CPROVER_assume(v != 0)
/* what a worker does with a queued closure: move it out of the queue element, pop (= destroy the moved-from element), then run or drop */
#define WORKER_TAKES(loc, k) NEWOBJ(QI, loc); fn_move(loc, &gh_slot[k]); fn_dtor(&gh_slot[k])

/* ================================================================================================ co_await pool ============================ */
#ifdef CV_HAS_aw_suspend
void h_co_await(void) {
  cv_i8 *pool_mem = malloc(1); __CPROVER_assume(pool_mem != 0); TP *pool = (TP *)pool_mem;         /* never dereferenced: enqueue is abstract */
  NEWOBJ(CAW, a);
  __typeof__(tp_co_await(pool)) r0 = tp_co_await(pool); memcpy(a, &r0, sizeof(CAW));         /* a two-pointer class is returned in registers */
  CHECK(a->_owner == pool && a->_h._M_fr_ptr == 0, "operator co_await: the awaiter is bound to this pool and holds no handle yet");
  CHECK(aw_ready() == 0, "co_awaiter::await_ready() is false: co_await pool always suspends and hops");
  cv_i8 *h = malloc(16); __CPROVER_assume(h != 0);
  gh_h[0] = h; gh_aw = a;
  in_accept[0] = nondet_bool(); cv_i1 in_run = nondet_bool();
  aw_suspend(a, h);
  CHECK(cv_exc_pending == 0, "await_suspend does not throw");
  CHECK(gh_enq_calls == 1 && gh_enq_pool == pool, "exactly one closure is offered, to the awaiter's own pool");
  if (gh_enq_accepted) {
    CHECK(gh_h_resumed[0] == 0 && gh_aw == a && a->_h._M_fr_ptr == h, "accepted: await_suspend does not resume the coroutine; the handle is stored in the awaiter");
    WORKER_TAKES(loc, 0);
    CHECK(gh_h_resumed[0] == 0, "moving the closure (queue element -> worker) and destroying the moved-from element resumes nothing");
    if (in_run) {
      fn_call(loc);
      CHECK(cv_exc_pending == 0 && gh_h_resumed[0] == 1 && gh_res_other == 0, "closure run: the coroutine is resumed exactly once");
      CHECK(gh_aw_resume_threw == 0, "closure run: the handle was cleared before the resumption - await_resume() returns normally");
      fn_dtor(loc);
      CHECK(gh_h_resumed[0] == 1 && gh_res_other == 0, "closure run: the deleter is disarmed - destroying the closure afterwards resumes nothing (exactly once)");
      SENT("co_await pool: closure ran on a worker");
    } else {
      fn_dtor(loc);
      CHECK(cv_exc_pending == 0 && gh_h_resumed[0] == 1 && gh_res_other == 0, "closure destroyed un-run: the deleter resumes the coroutine exactly once");
      CHECK(gh_aw_resume_threw == 1 && gh_aw_resume_tinfo == (void *)TI_AWAIT_CANCELED, "closure destroyed un-run: the handle is still set - await_resume() throws await_canceled_exception");
      SENT("co_await pool: queued closure destroyed un-run (cancelled)");
    }
  } else {
    CHECK(gh_h_resumed[0] == 1 && gh_res_other == 0, "closure rejected by a stopped pool: the deleter resumes the coroutine exactly once (inside await_suspend)");
    CHECK(gh_aw_resume_threw == 1 && gh_aw_resume_tinfo == (void *)TI_AWAIT_CANCELED, "closure rejected: await_resume() throws await_canceled_exception");
    SENT("co_await pool: rejected by a stopped pool (cancelled)");
  }
  CHECK(gh_aw == 0, "the coroutine was resumed (its frame and awaiter are gone): nothing of the awaiter was touched afterwards");
}
#endif

/* thread_pool::current::operator co_await(): the awaiter is bound to the thread's current pool */
#ifdef CV_HAS_cur_co_await
void h_cur_co_await(void) {
  cv_i8 *pool_mem = malloc(1); __CPROVER_assume(pool_mem != 0);
  if (nondet_bool()) *TP_CURRENT = (TP *)pool_mem; else *TP_CURRENT = 0;
  NEWOBJ(CAW, a);
  __typeof__(cur_co_await(0)) r0 = cur_co_await(0); memcpy(a, &r0, sizeof(CAW));
  CHECK(a->_owner == *TP_CURRENT && a->_h._M_fr_ptr == 0, "current::operator co_await: bound to the thread's current pool (null on a non-pool thread, where await_ready() is true)");
  SENT("current::operator co_await");
}
#endif

/* ================================================================================================ run(fn) ================================== */
#ifdef CV_HAS_tp_run_fn
int gh_job_calls; cv_i64 gh_job_id; cv_i1 in_job_throws; cv_i32 in_job_value; void *gh_job_excobj; char gh_user_ti;
cv_i32 cvx_c11_job_compute(cv_i64 id) {
  gh_job_calls++; gh_job_id = id;
  if (in_job_throws) { cv_i8 *o = __cxa_allocate_exception(8); gh_job_excobj = o; __cxa_throw(o, (cv_i8 *)&gh_user_ti, 0); return 0; }
  return in_job_value; }
#define F_OUTCOMES (gh_F_val_n + gh_F_exc_n + gh_F_drop_n)
void h_run_fn(void) {
  cv_i8 *pool_mem = malloc(1); __CPROVER_assume(pool_mem != 0); TP *pool = (TP *)pool_mem;
  NEWOBJ(FUT, fut); NEWOBJ(IJOB, job); job->id = nondet_size_t(); cv_i64 id0 = job->id;
  gh_F = fut; in_accept[0] = nondet_bool(); cv_i1 in_run = nondet_bool(); in_job_throws = nondet_bool(); in_job_value = nondet_unsigned();
  tp_run_fn(fut, pool, job);
  CHECK(cv_exc_pending == 0 && gh_enq_calls == 1 && gh_enq_pool == pool, "run(fn): exactly one closure is offered to this pool");
  CHECK(gh_job_calls == 0, "run(fn) returns immediately: the job is not run on the calling thread");
  if (gh_enq_accepted) {
    CHECK(F_OUTCOMES == 0, "accepted: the returned future is pending while the closure is queued");
    WORKER_TAKES(loc, 0);
    CHECK(F_OUTCOMES == 0 && gh_job_calls == 0, "moving the closure resolves nothing");
    if (in_run) {
      fn_call(loc);
      CHECK(cv_exc_pending == 0, "the closure catches whatever the job throws (nothing escapes into the worker)");
      CHECK(gh_job_calls == 1 && gh_job_id == id0, "closure run: the job is executed exactly once");
      if (in_job_throws) { CHECK(gh_F_exc_n == 1 && gh_F_val_n == 0 && gh_F_drop_n == 0 && gh_F_excobj == gh_job_excobj, "job threw: the future is resolved exactly once, with that exception"); SENT("run(fn): job threw"); }
      else { CHECK(gh_F_val_n == 1 && gh_F_exc_n == 0 && gh_F_drop_n == 0 && gh_F_val == in_job_value, "job returned: the future is resolved exactly once, with the job's value"); SENT("run(fn): job returned a value"); }
      fn_dtor(loc);
      CHECK(F_OUTCOMES == 1 && gh_job_calls == 1, "destroying the closure after its run changes nothing (exactly once)");
    } else {
      fn_dtor(loc);
      CHECK(gh_F_drop_n == 1 && gh_F_val_n == 0 && gh_F_exc_n == 0 && gh_job_calls == 0, "closure destroyed un-run: the promise is dropped exactly once (the future reports a broken promise), the job never runs");
      SENT("run(fn): queued closure destroyed un-run (broken promise)");
    }
  } else {
    CHECK(gh_F_drop_n == 1 && gh_F_val_n == 0 && gh_F_exc_n == 0 && gh_job_calls == 0, "rejected by a stopped pool: run() drops the promise exactly once - the returned future reports a broken promise");
    SENT("run(fn): rejected by a stopped pool (broken promise)");
  }
  CHECK(gh_pr_other == 0, "no other future is touched");
}
#endif

/* ================================================================================================ instrumented callables ==================== */
#if defined(CV_HAS_drv_rd_tjob) || defined(CV_HAS_fn_from_t)
int gh_t_objs;                 /* live TJob objects (moved-from shells included)        */
int gh_t_target_dtor; cv_i64 gh_t_last_dtor_id;     /* destructions of an object that still holds an identity (= "the target is destroyed") */
int gh_t_calls; cv_i64 gh_t_call_id;
void cvx_c11_t_ctor(cv_i8 *at, cv_i64 id) { gh_t_objs++; }
void cvx_c11_t_move(cv_i8 *to, cv_i8 *from, cv_i64 id) { gh_t_objs++; }
void cvx_c11_t_dtor(cv_i8 *at, cv_i64 id) { gh_t_objs--; if (id != 0) { gh_t_target_dtor++; gh_t_last_dtor_id = id; } }
void cvx_c11_t_call(cv_i8 *at, cv_i64 id) { CHECK(id != 0, "a moved-from callable is invoked"); gh_t_calls++; gh_t_call_id = id; }
#endif

/* ================================================================================================ run_detached(fn) ========================= */
#ifdef CV_HAS_drv_rd_tjob
void h_run_detached(void) {
  cv_i8 *pool_mem = malloc(1); __CPROVER_assume(pool_mem != 0); TP *pool = (TP *)pool_mem;
  cv_i64 id = nondet_size_t(); __CPROVER_assume(id != 0);
  in_accept[0] = nondet_bool(); cv_i1 in_run = nondet_bool();
  drv_rd_tjob(pool, id);
  CHECK(cv_exc_pending == 0 && gh_enq_calls == 1 && gh_enq_pool == pool && gh_t_calls == 0, "run_detached: exactly one closure is offered to this pool; the job is not run on the calling thread");
  if (gh_enq_accepted) {
    CHECK(gh_t_objs == 1 && gh_t_target_dtor == 0, "accepted: exactly the queued copy of the job is alive");
    WORKER_TAKES(loc, 0);
    CHECK(gh_t_objs == 1 && gh_t_target_dtor == 0 && gh_t_calls == 0, "moving the closure keeps exactly one live job");
    if (in_run) { fn_call(loc); CHECK(cv_exc_pending == 0 && gh_t_calls == 1 && gh_t_call_id == id, "closure run: the job is executed exactly once"); SENT("run_detached: job ran"); }
    else SENT("run_detached: queued job destroyed un-run");
    fn_dtor(loc);
    CHECK(gh_t_calls == (in_run ? 1 : 0) && gh_t_target_dtor == 1 && gh_t_last_dtor_id == id && gh_t_objs == 0, "the job object is destroyed exactly once, run or not");
  } else {
    CHECK(gh_t_calls == 0 && gh_t_target_dtor == 1 && gh_t_last_dtor_id == id && gh_t_objs == 0, "rejected by a stopped pool: the job is destroyed exactly once, never run");
    SENT("run_detached: rejected by a stopped pool");
  }
  CHECK(gh_allocs == gh_frees, "no heap block is leaked");
}
#endif

/* ================================================================================================ function<void()> life cycle =============== */
#ifdef CV_HAS_fn_from_t
void h_fn_life(void) {
  NEWOBJ(QI, a); NEWOBJ(QI, b); NEWOBJ(QI, c); NEWOBJ(QI, d);
  cv_i64 id1 = nondet_size_t(), id2 = nondet_size_t(); __CPROVER_assume(id1 != 0 && id2 != 0 && id1 != id2);
  fn_from_t(a, id1);
  CHECK(cv_exc_pending == 0 && gh_t_objs == 1 && gh_t_target_dtor == 0 && fn_bool(a) == 1, "construction from a callable: exactly one live copy, the temporary's shell is gone");
#ifdef FN_BIG
  CHECK((void *)a->base_function_base._ptr != (void *)a->base_function_base.space && gh_allocs == 1, "a large target lives in one heap block");
#else
  CHECK((void *)a->base_function_base._ptr == (void *)a->base_function_base.space && gh_allocs == 0, "a small target lives in the internal storage, no allocation");
#endif
  fn_move(b, a);
  CHECK(a->base_function_base._ptr == 0 && fn_bool(a) == 0 && fn_bool(b) == 1 && gh_t_objs == 1 && gh_t_target_dtor == 0, "move construction: the target travels, the source is empty, no target destroyed");
  fn_dtor(a);
  CHECK(gh_t_objs == 1 && gh_t_target_dtor == 0, "destroying a moved-from function destroys nothing");
  fn_from_t(c, id2);
  CHECK(gh_t_objs == 2 && gh_t_target_dtor == 0, "second function");
  fn_move_assign(c, b);
  CHECK(gh_t_target_dtor == 1 && gh_t_last_dtor_id == id2 && gh_t_objs == 1 && b->base_function_base._ptr == 0 && fn_bool(c) == 1, "move assignment destroys the overwritten target exactly once and takes the other over");
  if (nondet_bool()) { fn_call((FB *)c); CHECK(cv_exc_pending == 0 && gh_t_calls == 1 && gh_t_call_id == id1, "call reaches the (moved) target exactly once"); SENT("function<>: target called"); }
  fn_dtor(c);
  CHECK(gh_t_target_dtor == 2 && gh_t_last_dtor_id == id1 && gh_t_objs == 0, "destruction destroys the target exactly once");
  fn_dtor(b);
  CHECK(gh_t_target_dtor == 2 && gh_t_objs == 0 && gh_allocs == gh_frees, "all targets destroyed exactly once, all heap blocks released");
  fn_default(d);
  CHECK(fn_bool(d) == 0, "default-constructed function is empty");
  fn_call((FB *)d);
  CHECK(cv_exc_pending == 1 && cv_exc_tinfo == (void *)TI_BAD_FUNCTION_CALL, "calling an empty function throws std::bad_function_call");
  SENT("function<> life cycle");
}
#endif

/* ================================================================================================ resume(suspend_point) / run(async) ======== */
#ifdef CV_HAS_ch_destroy
int gh_h_destroyed[CL_H];
void ch_destroy(CH *h) { for (int i = 0; i < CL_H; i++) if (gh_h[i] != 0 && gh_h[i] == h->_M_fr_ptr) gh_h_destroyed[i]++; }
#define H_CANCELLED(i) gh_h_destroyed[i]
#else
#define H_CANCELLED(i) 0
#endif
/* verdict for one coroutine whose closure was offered by the k-th enqueue call: exactly once resumed, or cancelled observably (destroyed) */
#define DONE_ONCE(i) (gh_h_resumed[i] + H_CANCELLED(i) == 1)
#ifdef CV_HAS_tp_resume_sp
void h_resume_sp(void) {
  cv_i8 *pool_mem = malloc(1); __CPROVER_assume(pool_mem != 0); TP *pool = (TP *)pool_mem;
  NEWOBJ(SP, sp);
  unsigned in_n = nondet_unsigned(); __CPROVER_assume(in_n <= 4);
  for (unsigned i = 0; i < 4; i++) if (i < in_n) { gh_h[i] = malloc(8); __CPROVER_assume(gh_h[i] != 0); }
  cv_i1 in_run[CL_SLOTS];
  for (unsigned i = 0; i < CL_SLOTS; i++) { in_accept[i] = nondet_bool(); in_run[i] = nondet_bool(); }
  if (in_n <= 3) { for (unsigned i = 0; i < 3; i++) sp->f0.f0._handles[i] = i < in_n ? gh_h[i] : 0; sp->_count_flag = 2 * in_n; }
  else { cv_i8 **ext = malloc(4 * sizeof(cv_i8 *)); __CPROVER_assume(ext != 0); for (unsigned i = 0; i < 4; i++) ext[i] = gh_h[i];
         sp->f0.f0._handles[0] = (cv_i8 *)ext; sp->f0.f0._handles[1] = (cv_i8 *)(cv_i64)4; sp->_count_flag = 2 * in_n + 1; }
  tp_resume_sp(pool, sp);
  CHECK(cv_exc_pending == 0 && (unsigned)gh_enq_calls == in_n && (sp->_count_flag >> 1) == 0 && gh_enq_pool == (in_n ? pool : 0), "resume(suspend_point): every handle is popped and offered to this pool exactly once; the suspend point is left empty");
  for (unsigned i = 0; i < 4; i++) if (i < in_n) CHECK(gh_h_resumed[i] == 0, "resume(suspend_point) resumes nothing on the calling thread");
  /* the pool deals with the accepted closures */
  QI loc[CL_SLOTS];
  for (int k = 0; k < CL_SLOTS; k++) if (k < gh_enq_accepted) { fn_move(&loc[k], &gh_slot[k]); fn_dtor(&gh_slot[k]); if (in_run[k]) fn_call((FB *)&loc[k]); fn_dtor(&loc[k]); }
  CHECK(cv_exc_pending == 0 && gh_res_other == 0, "nothing else is resumed");
  /* verdict for an arbitrary coroutine of the suspend point: pop() takes from the back, so the k-th offer carries handle in_n-1-k */
  if (in_n > 0) {
    unsigned k = nondet_unsigned() % in_n;
    unsigned g = in_n - 1 - k; int slot = 0;
    for (unsigned j = 0; j < 4; j++) if (j < k && in_accept[j]) slot++;
    if (in_accept[k] && in_run[slot]) { CHECK(DONE_ONCE(g), "resume(suspend_point): closure accepted and run by a worker - the coroutine is resumed exactly once"); SENT("resume(suspend_point): closure ran on a worker"); }
    else if (in_accept[k]) { CHECK(DONE_ONCE(g), "C11-FINDING resume(suspend_point): queued closure destroyed un-run (stop() swapped the queue out) leaves the coroutine neither resumed nor cancelled"); SENT("resume(suspend_point): queued closure destroyed un-run"); }
    else { CHECK(DONE_ONCE(g), "C11-FINDING resume(suspend_point): closure rejected by a stopped pool leaves the coroutine neither resumed nor cancelled"); SENT("resume(suspend_point): rejected by a stopped pool"); }
  } else SENT("resume(suspend_point): empty suspend point");
}
#endif

#ifdef CV_HAS_tp_run_async
int gh_async_start_calls; void *gh_async_owner;
void as_start(SPB *ret, ASY *a, PROM *p) {      /* async<int>::start(promise&): the coroutine claims the promise and is handed back, ready to be resumed */
  gh_async_start_calls++;
  void *m = PR_OWN(p); PR_OWN(p) = 0;
  cv_i8 *h = a->_h._M_fr_ptr;
  __CPROVER_assert(h != 0, "async::start on an empty async object");
  for (int i = 0; i < 3; i++) ret->base_suspend_point.f0.f0._handles[i] = 0;
  if (m) { gh_async_owner = m; a->_h._M_fr_ptr = 0; ret->base_suspend_point._count_flag = 2; ret->base_suspend_point.f0.f0._handles[0] = h; ret->value = 1; }
  else { ret->base_suspend_point._count_flag = 0; ret->value = 0; } }
void h_run_async(void) {
  cv_i8 *pool_mem = malloc(1); __CPROVER_assume(pool_mem != 0); TP *pool = (TP *)pool_mem;
  NEWOBJ(FUT, fut); NEWOBJ(ASY, as);
  cv_i8 *h = malloc(16); __CPROVER_assume(h != 0); as->_h._M_fr_ptr = h; gh_h[0] = h; gh_F = fut;
  in_accept[0] = nondet_bool(); cv_i1 in_run = nondet_bool();
  tp_run_async(fut, pool, as);
  CHECK(cv_exc_pending == 0 && gh_async_start_calls == 1 && gh_async_owner == (void *)fut && as->_h._M_fr_ptr == 0, "run(async): the coroutine is bound to the returned future (it owns the promise now) and leaves the async object");
  CHECK(gh_enq_calls == 1 && gh_enq_pool == pool && gh_h_resumed[0] == 0 && gh_sp_dtor_nonempty == 0, "run(async): exactly one closure is offered to this pool; the coroutine is not started on the calling thread");
  CHECK(gh_F_val_n + gh_F_exc_n + gh_F_drop_n == 0, "run(async): the future can only be resolved by the coroutine (run() itself resolves nothing)");
  if (gh_enq_accepted) {
    WORKER_TAKES(loc, 0);
    if (in_run) { fn_call((FB *)loc); fn_dtor(loc); CHECK(cv_exc_pending == 0 && DONE_ONCE(0) && gh_res_other == 0, "run(async): closure accepted and run by a worker - the coroutine is started exactly once"); SENT("run(async): coroutine started on a worker"); }
    else { fn_dtor(loc); CHECK(DONE_ONCE(0), "C11-FINDING run(async): queued closure destroyed un-run (stop() swapped the queue out) - the coroutine is never started nor destroyed: the returned future stays pending forever, the frame leaks"); SENT("run(async): queued closure destroyed un-run"); }
  } else { CHECK(DONE_ONCE(0), "C11-FINDING run(async): closure rejected by a stopped pool - the coroutine is never started nor destroyed: the returned future stays pending forever, the frame leaks"); SENT("run(async): rejected by a stopped pool"); }
}
#endif
