/* C11 - harnesses of the pool-level contract units.  The pool and its worker array are allocated HERE and the ghost pointers gh_pool / gh_tv are
 * ASSIGNED (a ghost pointer that is only assumed equal to an address cannot be dereferenced soundly).  Everything else is left
 * nondeterministic and shaped by the requires clauses.  One reachability SENTINEL per interesting outcome. */
#define SENT(what) __CPROVER_assert(0, "SENTINEL reachable: " what)
#ifndef TP_MAXTHR
#define TP_MAXTHR 3
#endif
#ifndef TP_ALLOC_THR
#define TP_ALLOC_THR (TP_MAXTHR + 1)      /* a symbolic allocation size: define as (in_nthr + 1) */
#endif
/* a pool with a worker list of n elements (n nondeterministic, 0..TP_MAXTHR), representation pointers set accordingly */
#define MK_POOL(p) \
  TP *p = malloc(sizeof(TP)); __CPROVER_assume(p != 0); gh_pool = p; \
  cv_i64 in_nthr = nondet_size_t(); __CPROVER_assume(in_nthr <= TP_MAXTHR); \
  gh_tv = malloc(TP_ALLOC_THR * sizeof(THR)); __CPROVER_assume(gh_tv != 0); \
  TV(&p->_threads)->b = gh_tv; TV(&p->_threads)->e = gh_tv + in_nthr; TV(&p->_threads)->c = gh_tv + in_nthr

#ifdef CV_HAS_tp_enqueue
void h_enqueue(void) { MK_POOL(p); QI *fn; tp_enqueue(p, fn);
  if (tm.exit_at_lock) SENT("enqueue rejected (pool stopped)"); else SENT("enqueue accepted"); }
#endif
#ifdef CV_HAS_tp_is_stopped
void h_is_stopped(void) { MK_POOL(p); cv_i1 r = tp_is_stopped(p); if (r) SENT("is_stopped: true"); else SENT("is_stopped: false"); }
#endif
#ifdef CV_HAS_tp_any_enqueued
void h_any_enqueued(void) { MK_POOL(p); cv_i1 r = tp_any_enqueued(p); if (r) SENT("any_enqueued: true"); else SENT("any_enqueued: false"); }
#endif
#ifdef CV_HAS_tp_worker
void h_worker(void) { MK_POOL(p); tp_worker(p);
  if (tm.pool_dead) SENT("worker left because its job destroyed the pool");
  else if (CUR == 0) SENT("worker left because its job stopped the pool");
  else SENT("worker left because it saw the exit flag");
  /* the pool stopped / destroyed from this worker by the DESTRUCTION of the executed closure (last shared_ptr owner of the pool is a capture of the job) */
  if (tm.stopped_in_dtor && tm.pool_dead) SENT("worker left because the destruction of its executed job destroyed the pool");
  if (tm.stopped_in_dtor && !tm.pool_dead) SENT("worker left because the destruction of its executed job stopped the pool");
  if (tm.n_deq > 1) SENT("worker ran more than one closure");
  if (tm.c_invoked) SENT("worker ran the tracked closure"); }
#endif
#ifdef CV_HAS_tp_stop
void h_stop(void) { MK_POOL(p); tp_stop(p);
  if (tm.nthr_at_lock == 0) SENT("stop: no worker left to join (second stop / concurrent stop)");
  if (tt.n_detach > 0 && tt.n_join > 0) SENT("stop from a worker: self detached, others joined");
  if (tt.n_detach == 0 && tt.n_join > 1) SENT("stop from outside: all joined");
  if (tm.c_unrun == 1) SENT("stop: tracked queued closure cancelled");
  if (tm.n_unrun > 1) SENT("stop: several queued closures cancelled"); }
#endif
#ifdef CV_HAS_tp_dtor
void h_dtor(void) { MK_POOL(p); tp_dtor(p); SENT("~thread_pool returned"); }
#endif
#ifdef CV_HAS_tp_is_current
void h_is_current(void) { TP *p; cv_i1 r = tp_is_current(p); if (r) SENT("is_current: true"); else SENT("is_current: false"); }
#endif
/* the thread-local current-pool pointer is ASSIGNED (it is dereferenced by the code) */
#define MK_CUR(p) MK_POOL(p); if (nondet_bool()) CUR = p; else CUR = 0
#ifdef CV_HAS_cur_is_stopped
void h_cur_is_stopped(void) { MK_CUR(p); cv_i1 r = cur_is_stopped(); if (CUR == 0) SENT("current::is_stopped on a non-pool thread"); else if (r) SENT("current::is_stopped: true"); else SENT("current::is_stopped: false"); }
#endif
#ifdef CV_HAS_cur_any_enqueued
void h_cur_any_enqueued(void) { MK_CUR(p); cv_i1 r = cur_any_enqueued(); if (CUR == 0) SENT("current::any_enqueued on a non-pool thread"); else if (r) SENT("current::any_enqueued: true"); else SENT("current::any_enqueued: false"); }
#endif
#ifdef CV_HAS_cur_await_ready
void h_cur_await_ready(void) { MK_CUR(p); cv_i1 r = cur_await_ready(); if (CUR == 0) SENT("current_awaiter::await_ready on a non-pool thread"); else if (r) SENT("current_awaiter::await_ready: pool stopped"); else SENT("current_awaiter::await_ready: must hop"); }
#endif
#ifdef CV_HAS_rs_resume_sp
void h_resume_sp_fwd(void) { TP *p; SP *sp; rs_resume_sp(p, sp);
  if (RS_N0 == 0) SENT("resume(suspend_point): empty suspend point");
  if (RS_N0 > 3 && rs.trk_accepted == 1) SENT("resume(suspend_point): heap representation, tracked closure accepted");
  if (RS_N0 >= 1 && RS_N0 <= 3 && rs.trk_unrun == 1) SENT("resume(suspend_point): inline representation, tracked closure rejected and destroyed un-run"); }
#endif
#ifdef CV_HAS_tp_ctor
void h_ctor(void) { TP *p = malloc(sizeof(TP)); __CPROVER_assume(p != 0); gh_pool = p;
  cv_i64 in_cap = nondet_size_t(); __CPROVER_assume(in_cap >= 1 && in_cap <= (1ul << 20) + 1); tv_cap = in_cap;
  gh_tv = malloc(in_cap * sizeof(THR)); __CPROVER_assume(gh_tv != 0);
  cv_i32 in_threads = nondet_unsigned();
  tp_ctor(p, in_threads);
  if (in_threads == 0 && gh_hw == 0) SENT("thread_pool(): hardware_concurrency() unknown (0): a pool without any worker");
  if (in_threads == 0 && gh_hw > 1) SENT("thread_pool(): one worker per core");
  if (in_threads == 3) SENT("thread_pool(3)"); }
#endif
#ifdef CV_HAS_thread_body
void h_thread_body(void) { LAMCTOR *l; thread_body(l); SENT("worker thread body"); }
#endif
#ifdef CV_HAS_ea_perform_resume
void h_pool_await_fwd(void) { SP *r; AWT *a; cv_i8 *u; ea_perform_resume(r, a, u); SENT("enqueue_awaiter::perform_resume"); }
#endif

/* ---- L: exactly-once lemma over the CONTRACTS (unbounded number of steps, loop contract) -------------------------------------------------------
 * The tracked-closure clauses of the enforced contracts are the transitions of a small system; any number of them, in any order, by any threads:
 *   submit   (enqueue, unit `enqueue`)  : pool not stopped at the lock instant -> the closure is QUEUED; stopped -> rejected, left to its owner, who
 *                                         destroys it un-run (closure-level units: that IS the observable cancellation, where the closure type has one)
 *   serve    (worker iteration, `worker`): a QUEUED closure taken by a worker is invoked exactly once and disposed of; a worker never serves a stopped pool
 *   stop     (`stop`)                   : exit flag set for good; a QUEUED closure is swapped out and destroyed un-run exactly once
 * Claim: a submitted closure is never run twice, never run AND cancelled, and - once the pool has been stopped - never left behind. */
#ifdef C11_LEMMA_EXACTLY_ONCE
enum { L_ARG, L_QUEUED, L_GONE };
void h_lemma_exactly_once(void) {
  int where = L_ARG; unsigned invoked = 0, unrun = 0; int stopped = 0;
  while (nondet_bool())
  __CPROVER_assigns(where, invoked, unrun, stopped)
  __CPROVER_loop_invariant(invoked + unrun <= 1 && invoked <= 1 && unrun <= 1 && (where == L_ARG || where == L_QUEUED || where == L_GONE) && stopped <= 1 && stopped >= 0)
  __CPROVER_loop_invariant((where == L_GONE) == (invoked + unrun == 1))
  __CPROVER_loop_invariant(where == L_QUEUED ==> stopped == 0)
  {
    unsigned op = nondet_unsigned() % 3;
    if (op == 0 && where == L_ARG) { if (!stopped) where = L_QUEUED; else { unrun++; where = L_GONE; } }
    else if (op == 1 && where == L_QUEUED && !stopped) { invoked++; where = L_GONE; }
    else if (op == 2) { stopped = 1; if (where == L_QUEUED) { unrun++; where = L_GONE; } }
  }
  __CPROVER_assert(invoked <= 1, "lemma: a closure is never executed twice");
  __CPROVER_assert(invoked + unrun <= 1, "lemma: a closure is never both executed and cancelled, never cancelled twice");
  __CPROVER_assert((stopped && where != L_ARG) ==> (invoked + unrun == 1), "lemma: once the pool is stopped no submitted closure is left behind (executed once or cancelled once)");
  if (invoked) SENT("lemma: closure executed"); else if (unrun && stopped) SENT("lemma: closure cancelled"); else SENT("lemma: closure still queued / not yet submitted");
}
#endif
