/* C11 - contracts on cocls::thread_pool (src/cocls/thread_pool.h), pool level.
 * Vocabulary: lib/model_tpool2.c (closures as linear ghost ids with one tracked closure gh_C; abstract task queue; worker list; rely of the
 * pool mutex) and lib/model_mutex.c (lock discipline).  gh_pool is the pool (allocated and assigned by the harness, see h_tp.c).
 * Every contract pins the whole model state at entry (DFCC starts from nondeterministic statics) and runs with the rely switched on: at each
 * acquisition of the pool mutex the other threads have executed any number of complete critical sections (thread-modular reading).
 * Snapshots tm.exit_at_lock / len_at_lock (taken right after the rely step of the LAST acquisition) and tm.*_at_unlock (last release) let the
 * postconditions speak about "the instant the lock was taken". */
#define TP_PRE(p) (cv_exc_pending == 0 && TP_MODEL_ZERO && (p) == gh_pool && TP_INV(p) && tm.rely_on == 1 && tm.job_may_stop == 1)
#define TP_ASSIGNS TP_MODEL_ASSIGNS, __CPROVER_object_whole(gh_pool)
#define NO_CLOSURE_TOUCHED (tm.n_invoked == 0 && tm.n_unrun == 0 && tm.n_ran == 0 && tm.c_invoked == 0 && tm.c_unrun == 0 && tm.c_ran == 0)
#define ONE_CS (gh_lock_depth == 0 && gh_n_lock == 1 && gh_n_unlock == 1)      /* exactly one critical section, the mutex is free on return */

/* ---- enqueue(fn): under the lock; push iff the pool is not stopped at that instant; a rejected closure is left to its owner ------------- */
#ifdef CV_HAS_tp_enqueue
void tp_enqueue(TP *this_, QI *fn)
__CPROVER_requires(TP_PRE(this_) && __CPROVER_is_fresh(fn, sizeof(QI)) && QI_ID(fn) != 0 && QI_ID(fn) < (1ul << 32) && QI_RAN(fn) == 0)
__CPROVER_requires((QI_ID(fn) == gh_C) ? tm.c_where == C_ARG : (tm.c_where == C_ELSEWHERE || tm.c_where == C_QUEUED))
__CPROVER_assigns(TP_ASSIGNS, __CPROVER_object_whole(fn))
__CPROVER_ensures(cv_exc_pending == 0 && ONE_CS)
/* accepted <=> the exit flag was clear at the instant the lock was taken: the closure now lives in the queue (the argument is empty), exactly one push, a worker is woken */
__CPROVER_ensures(tm.exit_at_lock == 0 ==> (fn->base_function_base._ptr == 0 && tm.n_push == 1 && tm.len_at_unlock == tm.len_at_lock + 1 && tm.n_notify_one + tm.n_notify_all >= 1))
__CPROVER_ensures((tm.exit_at_lock == 0 && (cv_i64)(void *)__CPROVER_old(fn->base_function_base._ptr) == gh_C) ==> tm.c_where == C_QUEUED)
/* rejected: the closure is untouched and still owned by the caller (who must cancel it); nothing was pushed */
__CPROVER_ensures(tm.exit_at_lock == 1 ==> (fn->base_function_base._ptr == __CPROVER_old(fn->base_function_base._ptr) && tm.n_push == 0 && tm.len_at_unlock == tm.len_at_lock))
__CPROVER_ensures((tm.exit_at_lock == 1 && (cv_i64)(void *)__CPROVER_old(fn->base_function_base._ptr) == gh_C) ==> tm.c_where == C_ARG)
__CPROVER_ensures(tm.exit_at_unlock == tm.exit_at_lock && NO_CLOSURE_TOUCHED && tm.n_deq == 0)          /* enqueue neither runs nor destroys nor dequeues anything */
;
#endif

/* ---- is_stopped() / any_enqueued(): the answer is read inside one critical section -------------------------------------------------------- */
#ifdef CV_HAS_tp_is_stopped
cv_i1 tp_is_stopped(TP *this_)
__CPROVER_requires(TP_PRE(this_))
__CPROVER_assigns(TP_ASSIGNS)
__CPROVER_ensures(cv_exc_pending == 0 && ONE_CS && __CPROVER_return_value == tm.exit_at_lock)
__CPROVER_ensures(tm.exit_at_unlock == tm.exit_at_lock && tm.len_at_unlock == tm.len_at_lock && NO_CLOSURE_TOUCHED && tm.n_deq == 0 && tm.n_push == 0)
;
#endif
#ifdef CV_HAS_tp_any_enqueued
cv_i1 tp_any_enqueued(TP *this_)
__CPROVER_requires(TP_PRE(this_))
__CPROVER_assigns(TP_ASSIGNS)
__CPROVER_ensures(cv_exc_pending == 0 && ONE_CS && __CPROVER_return_value == ((tm.exit_at_lock == 1 || tm.len_at_lock > 0) ? 1 : 0))
__CPROVER_ensures(tm.exit_at_unlock == tm.exit_at_lock && tm.len_at_unlock == tm.len_at_lock && NO_CLOSURE_TOUCHED && tm.n_deq == 0 && tm.n_push == 0)
;
#endif

/* ---- worker(): the service loop ---------------------------------------------------------------------------------------------------------
 * per iteration: wait (under the lock, lock released while blocked) until a closure is queued or the pool is stopped; stopped -> leave;
 * otherwise take ONE closure out of the queue under the lock, release the lock, invoke the closure exactly once, and - before touching the
 * pool again - test the thread's current-pool pointer (the job may have stopped and destroyed the pool).
 * Lock-discipline obligations are asserted inside the primitives (queue ops need the lock; invocation / destruction of a closure need it
 * released; nothing of the pool is used once a job destroyed it).  Partial correctness: the loop has no variant (it is a service loop). */
#ifdef CV_HAS_tp_worker
/* what holds whenever the worker owns the lock at a loop head */
#define WORKER_INV(pool, lkp) (cv_exc_pending == 0 && tm.pool_dead == 0 && (lkp)->_M_owns == 1 && (void *)(lkp)->_M_device == (void *)&(pool)->_mx && \
   gh_lock_depth == 1 && gh_lock_held == (void *)&gh_pool->_mx && TP_INV(gh_pool) && tm.exit_at_lock == TP_EXIT(gh_pool) && CUR == gh_pool && tm.front_valid == 0 && tm.lq_live == 0 && tm.lq_len == 0 && \
   tm.rely_on == 1 && tm.job_may_stop == 1 && tt.n_join == 0 && tt.n_detach == 0 && \
   tm.n_push == 0 && tm.n_unrun == 0 && tm.n_invoked == tm.n_deq && tm.n_ran == tm.n_deq && \
   tm.c_unrun == 0 && tm.c_invoked <= 1 && tm.c_ran == tm.c_invoked && (tm.c_where == C_GONE) == (tm.c_invoked == 1) && \
   (tm.c_where == C_ELSEWHERE || tm.c_where == C_QUEUED || tm.c_where == C_TAKEN || tm.c_where == C_GONE))
#define CV_LOOP_tp_worker_0 \
  __CPROVER_assigns(CV_LOOP_LOCALS_tp_worker_0, TP_ASSIGNS, CUR) \
  __CPROVER_loop_invariant(WORKER_INV(this1, &lk__mem) && this1 == gh_pool)
/* std::condition_variable::wait(lk, pred) - the real libstdc++ loop `while (!pred()) wait(lk);` with the real predicate of worker() */
#define CV_LOOP_cv_wait_pred_0 \
  __CPROVER_assigns(call, lnot, t0, TP_ASSIGNS) \
  __CPROVER_loop_invariant(WORKER_INV(gh_pool, __lock_addr) && tm.n_deq == __CPROVER_loop_entry(tm.n_deq) && tm.c_invoked == __CPROVER_loop_entry(tm.c_invoked))
void tp_worker(TP *this_)
__CPROVER_requires(TP_PRE(this_) && (tm.c_where == C_ELSEWHERE || tm.c_where == C_QUEUED))
__CPROVER_assigns(TP_ASSIGNS, CUR)
__CPROVER_ensures(cv_exc_pending == 0 && gh_lock_depth == 0)                                   /* the mutex is free when the worker leaves (both exits) */
/* every closure this worker took out of the queue was invoked exactly once and disposed of after its run; none was destroyed un-run, none re-queued */
__CPROVER_ensures(tm.n_invoked == tm.n_deq && tm.n_ran == tm.n_deq && tm.n_unrun == 0 && tm.n_push == 0)
/* the same for the arbitrary tracked closure: never left in limbo, never twice, gone <=> it ran exactly once here */
__CPROVER_ensures(tm.c_where != C_HELD && tm.c_where != C_ARG && tm.c_unrun == 0 && tm.c_invoked <= 1 && tm.c_ran == tm.c_invoked && (tm.c_where == C_GONE) == (tm.c_invoked == 1))
/* a worker leaves only when the pool is stopped: it saw the exit flag under the lock, or its own job stopped the pool (current-pool pointer reset) */
__CPROVER_ensures(CUR == 0 || (CUR == this_ && tm.exit_at_lock == 1))
__CPROVER_ensures(tm.pool_dead == 1 ==> CUR == 0)
;
#endif

/* ---- stop() ---------------------------------------------------------------------------------------------------------------------------------
 * one critical section: exit flag set, all workers notified, worker list and task queue swapped out; then - with the mutex released - every
 * swapped-out closure is destroyed un-run exactly once (= cancelled) BEFORE THE FIRST JOIN (a job still running on a worker may be the waiter of
 * one of them: "never forgotten with a waiter left hanging", "without deadlock for every timing"; obligation C11-JOIN-ORDER inside the join
 * primitive of lib/model_tpool2.c), and every worker of the swapped-out list is joined, except the calling thread itself, which is detached and
 * stops being a pool thread (current-pool pointer reset).
 * "join ALL workers": the list this stop() takes holds every worker exactly when it finds the exit flag clear (first clause on tm.env_unjoined).
 * A stop() that finds the flag already set finds an EMPTY list: the workers are in the hands of the thread that stopped first, which may still
 * be joining them - the clause "no worker is left running when stop() returns" for that case is unit stop_concurrent (C11_STOP_JOINS_ALL).
 * "for every worker" = the arbitrary tracked index gh_TK (its original id is the logical variable gh_tid0); obligations asserted inside the
 * primitives: no join under the lock, no self-join, only joinable threads joined / detached, no joinable thread destroyed.
 * LIVENESS (the joins return, no deadlock for every timing) is NOT claimed: safety obligations only. */
#ifdef CV_HAS_tp_stop
cv_i64 gh_tid0;                 /* logical: id of the tracked worker at entry      */
TP *gh_cur0;                    /* logical: the thread's current-pool pointer at entry */
#define TV_TRK (gh_tv[gh_TK]._M_id._M_thread)
#define STOP_IDX(it) ((cv_i64)(__CPROVER_POINTER_OFFSET(it) / sizeof(THR)))
#define CV_LOOP_tp_stop_0 \
  __CPROVER_assigns(CV_LOOP_LOCALS_tp_stop_0, __CPROVER_object_whole(&tt), __CPROVER_object_whole(gh_tv), CUR) \
  __CPROVER_loop_invariant(cv_exc_pending == 0 && gh_lock_depth == 0 && this1 == gh_pool && me__mem._M_thread == gh_me && tv_cur_n == tm.nthr_at_lock) \
  __CPROVER_loop_invariant(__CPROVER_same_object(__begin2__mem._M_current, gh_tv) && __end2__mem._M_current == gh_tv + tm.nthr_at_lock && \
      __CPROVER_POINTER_OFFSET(__begin2__mem._M_current) % sizeof(THR) == 0 && __CPROVER_POINTER_OFFSET(__begin2__mem._M_current) <= tm.nthr_at_lock * sizeof(THR)) \
  __CPROVER_loop_invariant(tt.n_join + tt.n_detach == STOP_IDX(__begin2__mem._M_current) && tt.n_join <= tm.nthr_at_lock && tt.n_detach <= tm.nthr_at_lock) \
  __CPROVER_loop_invariant(gh_TK >= STOP_IDX(__begin2__mem._M_current) ==> (tt.t_join == 0 && tt.t_detach == 0 && (gh_TK < tm.nthr_at_lock ==> TV_TRK == gh_tid0))) \
  __CPROVER_loop_invariant(gh_TK < STOP_IDX(__begin2__mem._M_current) ==> (TV_TRK == 0 && tt.t_detach == (gh_tid0 == gh_me ? 1 : 0) && tt.t_join == (gh_tid0 == gh_me ? 0 : 1))) \
  __CPROVER_loop_invariant(tt.n_detach == 0 ? CUR == gh_cur0 : CUR == 0)
void tp_stop(TP *this_)
__CPROVER_requires(TP_PRE(this_) && (tm.c_where == C_ELSEWHERE || tm.c_where == C_QUEUED) && CUR == gh_cur0)
__CPROVER_requires(TV(&this_->_threads)->b == gh_tv && gh_TK < (1ul << 40) && gh_tid0 != 0 && (gh_TK < TV_N(&this_->_threads) ==> TV_TRK == gh_tid0))   /* the pool's workers are joinable */
__CPROVER_assigns(TP_ASSIGNS, CUR, __CPROVER_object_whole(gh_tv))
__CPROVER_ensures(cv_exc_pending == 0 && ONE_CS)
/* inside the one critical section: flag set, workers notified, both containers swapped out (the pool's members are empty at the release) */
__CPROVER_ensures(tm.exit_at_unlock == 1 && tm.n_notify_all >= 1 && tm.len_at_unlock == 0 && tm.thr_empty_at_unlock == 1)
/* every closure that was queued at that instant is destroyed un-run exactly once (cancelled) - none invoked, none kept; that this happens before the first join is asserted in thr_join (C11-JOIN-ORDER) */
__CPROVER_ensures(tm.lq_live == 0 && tm.n_unrun == tm.len_at_lock && tm.n_invoked == 0 && tm.n_ran == 0 && tm.n_push == 0 && tm.n_deq == 0)
__CPROVER_ensures(tm.c_invoked == 0 && tm.c_ran == 0 && (tm.c_where_at_lock == C_QUEUED ? (tm.c_where == C_GONE && tm.c_unrun == 1) : (tm.c_where == tm.c_where_at_lock && tm.c_unrun == 0)))
/* every worker of the swapped-out list is dealt with exactly once: the caller itself detached, every other one joined */
__CPROVER_ensures(tt.n_join + tt.n_detach == tm.nthr_at_lock)
__CPROVER_ensures(gh_TK < tm.nthr_at_lock ==> (TV_TRK == 0 && tt.t_detach == (gh_tid0 == gh_me ? 1 : 0) && tt.t_join == (gh_tid0 == gh_me ? 0 : 1)))
/* called from one of the pool's own threads: that thread stops being a pool thread; otherwise the current-pool pointer is untouched */
__CPROVER_ensures(tt.n_detach == 0 ? CUR == gh_cur0 : CUR == 0)
/* "join all workers": a stop() that found the pool running had every worker in the list it took (and dealt with each of them, clauses above) */
__CPROVER_ensures(tm.exit_at_lock == 0 ==> tm.env_unjoined == 0)
#if defined(C11_STOP_JOINS_ALL) && !defined(CV_CHECK_C03)      /* a C11 clause: not part of the lock-discipline re-runs for C03 */
/* ... and for EVERY stop(), also one that lost the race against another thread's stop(): when it returns no worker of the pool is still running
 * somewhere out of reach (the caller may rely on "the pool is quiet now", e.g. to destroy what the jobs use) */
__CPROVER_ensures(tm.env_unjoined == 0)       /* C11-OPEN2-workers-taken-by-concurrent-stop: stop() returns while the workers are still being joined by the thread that stopped first */
#endif
;
#endif

/* ---- ~thread_pool(): stops the pool exactly once, then the members die: no joinable worker and no queued closure may be left ------------------
 * forwarder unit: stop() is an abstract callee here (its own unit proves its contract); the stub records the call and establishes what
 * stop() guarantees: at its acquisition of the mutex the other threads have acted (rely step - a concurrent stop() from a pool thread may have
 * taken the worker list first), at its release the flag is set and both containers are empty, every worker it found in the list is joined (the
 * caller itself detached, current-pool pointer reset).
 * "the destructor terminate[s] and join[s] all workers ... for every timing, including when invoked from one of the pool's own threads": when
 * ~thread_pool returns the object is gone, so NO worker may be left that can still touch it - in particular none that another thread's stop()
 * took out of the list and has not joined yet (tm.env_unjoined).  This is what entitles worker() to its assumption "nobody but my own job
 * destroys the pool while I may touch it". */
#ifdef CV_HAS_tp_dtor
int gh_stop_calls;
#ifdef CV_HAS_tp_stop_abs
void tp_stop_abs(TP *p) { gh_stop_calls++; __CPROVER_assert(!(gh_lock_depth > 0), "stop() called while holding the pool mutex");
  if (tm.rely_on) tp_rely(p);                                                        /* stop() takes the mutex: the others have acted (contract of stop(): exit_at_lock / env_unjoined clauses) */
  TP_EXIT(p) = 1; tm.q_len = 0; TV(&p->_threads)->e = TV(&p->_threads)->b; }          /* the workers it found are joined; those another stop() took are not its business */
#endif
void tp_dtor(TP *this_)
__CPROVER_requires(TP_PRE(this_) && gh_stop_calls == 0 && (tm.c_where == C_ELSEWHERE || tm.c_where == C_QUEUED) && TV(&this_->_threads)->b == gh_tv)
__CPROVER_assigns(TP_ASSIGNS, gh_stop_calls)
__CPROVER_ensures(cv_exc_pending == 0 && gh_stop_calls == 1 && gh_lock_depth == 0)
__CPROVER_ensures(tm.n_invoked == 0 && tm.n_unrun == 0 && tm.n_ran == 0)      /* the member destructors find nothing left to destroy: stop() dealt with every closure */
#ifndef CV_CHECK_C03
__CPROVER_ensures(tm.env_unjoined == 0)       /* C11-OPEN2-workers-taken-by-concurrent-stop: ~thread_pool returns while workers taken by a concurrent stop() are still running - they touch the destroyed pool */
#endif
;
#endif

/* ---- is_current(pool), thread_pool::current::* : the thread-local current-pool pointer marks worker threads ---------------------------------- */
#ifdef CV_HAS_tp_is_current
cv_i1 tp_is_current(TP *pool)
__CPROVER_requires(cv_exc_pending == 0)
__CPROVER_assigns()
__CPROVER_ensures(__CPROVER_return_value == (CUR == pool ? 1 : 0))
;
#endif
#define CUR_PRE (TP_PRE(gh_pool) && (CUR == 0 || CUR == gh_pool))
#define NO_CS (gh_lock_depth == 0 && gh_n_lock == 0 && gh_n_unlock == 0)
#ifdef CV_HAS_cur_is_stopped
cv_i1 cur_is_stopped(void)
__CPROVER_requires(CUR_PRE)
__CPROVER_assigns(TP_ASSIGNS)
__CPROVER_ensures(cv_exc_pending == 0 && (CUR == 0 ? (NO_CS && __CPROVER_return_value == 1) : (ONE_CS && __CPROVER_return_value == tm.exit_at_lock)))
;
#endif
#ifdef CV_HAS_cur_any_enqueued
cv_i1 cur_any_enqueued(void)
__CPROVER_requires(CUR_PRE)
__CPROVER_assigns(TP_ASSIGNS)
__CPROVER_ensures(cv_exc_pending == 0 && (CUR == 0 ? (NO_CS && __CPROVER_return_value == 0) : (ONE_CS && __CPROVER_return_value == ((tm.exit_at_lock == 1 || tm.len_at_lock > 0) ? 1 : 0))))
;
#endif
/* current_awaiter::await_ready(): "no need to hop: not on a pool thread, or the pool is stopped".
 * OBSERVATION (property C03, not C11): the exit flag is read WITHOUT taking the pool mutex - the IR of this function contains the plain
 * `load i8, i8* %_exit` and no call at all (no pthread_mutex_lock in its call tree); every other reader/writer of _exit holds the mutex, so
 * this is a data race with stop().  The functional contract below is what the code does; the lock-discipline clause is switched on with the
 * environment variable C11_LOCKCHECK_AWAIT_READY=1 (units.py) and then FAILS on the unchanged tree (see fix_await_ready_lock.diff). */
#ifdef CV_HAS_cur_await_ready
cv_i1 cur_await_ready(void)
__CPROVER_requires(CUR_PRE)
__CPROVER_assigns(TP_ASSIGNS)
__CPROVER_ensures(cv_exc_pending == 0 && gh_lock_depth == 0 && __CPROVER_return_value == ((CUR == 0 || TP_EXIT(gh_pool) == 1) ? 1 : 0))
#ifdef C11_LOCKCHECK_AWAIT_READY
__CPROVER_ensures(CUR != 0 ==> (ONE_CS && __CPROVER_return_value == tm.exit_at_lock))        /* thread_pool::_exit is read inside a critical section of the pool mutex */
#endif
;
#endif

/* ---- resume(suspend_point<void>&): the forwarding facts, for suspend points of ANY size in both representations (loop contract) --------------
 * every handle is popped exactly once, wrapped in exactly one closure that captures exactly that handle, and that closure is offered exactly
 * once to THIS pool; nothing is resumed on the calling thread; a closure the pool rejects (pool stopped) is destroyed un-run by resume() itself.
 * The closure's construction, enqueue and the destructor of function<> are abstract here (a closure is the cell of lib/model_tpool2.c: id 1 =
 * the closure built for the tracked handle H(spt, gh_G), id 2 = any other).  What the destruction of an un-run closure of THIS kind does to its
 * coroutine is decided on the real closure in unit resume_sp_stopped (known finding: nothing). */
#ifdef CV_HAS_rs_resume_sp
#define RS_CNT(p)   ((p)->_count_flag >> 1)
#define RS_HEAP(p)  ((p)->_count_flag & 1)
struct rs_ext { cv_i8 **_handles; cv_i64 _capacity; };
#define RS_EXT(p)   ((struct rs_ext *)&(p)->f0)
#define RS_H(p, i)  (RS_HEAP(p) ? RS_EXT(p)->_handles[i] : (p)->f0.f0._handles[i])
cv_i64 gh_G; cv_i32 gh_cf; cv_i8 *gh_oldH;          /* logical: tracked position, entry count/flag word, the handle stored there */
struct rs_model { cv_i64 n_built, n_offered, n_accepted, n_unrun, n_resumed_here; cv_i64 trk_built, trk_offered, trk_accepted, trk_unrun; TP *pool; cv_i8 wrong_pool, wrong_handle; } rs;
#define RS_ZERO (rs.n_built == 0 && rs.n_offered == 0 && rs.n_accepted == 0 && rs.n_unrun == 0 && rs.n_resumed_here == 0 && rs.trk_built == 0 && rs.trk_offered == 0 && \
   rs.trk_accepted == 0 && rs.trk_unrun == 0 && rs.wrong_pool == 0 && rs.wrong_handle == 0)
#define RS_N0 ((cv_i64)(gh_cf >> 1))
void rs_closure_ctor(QI *f, LAMRES *lam) {            /* function<void()>(  [h]{ coro_queue::resume(h); }  ) */
  int trk = (gh_G < RS_N0 && rs.n_built == RS_N0 - 1 - gh_G);                  /* pop() takes from the back: the k-th closure wraps position n0-1-k */
  if (trk) { rs.trk_built++; if (lam->h._M_fr_ptr != gh_oldH) rs.wrong_handle = 1; }
  f->base_function_base._ptr = (void *)(cv_i64)(trk ? 1 : 2); f->base_function_base.space[0] = 0;
  __CPROVER_assume(rs.n_built < (1ul << 40)); rs.n_built++; }
void rs_enqueue(TP *pool, QI *f) {
  cv_i64 id = (cv_i64)(void *)f->base_function_base._ptr;
  __CPROVER_assert(id != 0, "an empty function object is submitted");
  if (pool != rs.pool) rs.wrong_pool = 1;
  rs.n_offered++; if (id == 1) rs.trk_offered++;
  if (nondet_bool()) { f->base_function_base._ptr = 0; rs.n_accepted++; if (id == 1) rs.trk_accepted++; } }   /* accepted: moved into the queue; else rejected: untouched */
void rs_qi_dtor(QI *f) { cv_i64 id = (cv_i64)(void *)f->base_function_base._ptr; if (id != 0) { rs.n_unrun++; if (id == 1) rs.trk_unrun++; } f->base_function_base._ptr = 0; }
#ifdef CV_HAS_rs_cq_resume
void rs_cq_resume(cv_i8 *h) { rs.n_resumed_here++; }
#endif
#define CV_LOOP_rs_resume_sp_0 \
  __CPROVER_assigns(CV_LOOP_LOCALS_rs_resume_sp_0, spt_addr->_count_flag, __CPROVER_object_whole(&rs)) \
  __CPROVER_loop_invariant(cv_exc_pending == 0 && RS_HEAP(spt_addr) == (gh_cf & 1) && RS_CNT(spt_addr) <= RS_N0 && rs.pool == this1 && rs.wrong_pool == 0 && rs.wrong_handle == 0 && rs.n_resumed_here == 0) \
  __CPROVER_loop_invariant(rs.n_built == RS_N0 - RS_CNT(spt_addr) && rs.n_offered == rs.n_built && rs.n_accepted + rs.n_unrun == rs.n_built) \
  __CPROVER_loop_invariant((gh_G < RS_N0 && gh_G < RS_CNT(spt_addr)) ==> (RS_H(spt_addr, gh_G) == gh_oldH && rs.trk_built == 0 && rs.trk_offered == 0 && rs.trk_accepted == 0 && rs.trk_unrun == 0)) \
  __CPROVER_loop_invariant((gh_G < RS_N0 && gh_G >= RS_CNT(spt_addr)) ==> (rs.trk_built == 1 && rs.trk_offered == 1 && rs.trk_accepted + rs.trk_unrun == 1))
void rs_resume_sp(TP *this_, SP *spt)
__CPROVER_requires(cv_exc_pending == 0 && RS_ZERO && rs.pool == this_ && __CPROVER_is_fresh(spt, sizeof(SP)) && gh_cf == spt->_count_flag && RS_CNT(spt) < (1u << 28))
__CPROVER_requires(RS_HEAP(spt) ? (RS_EXT(spt)->_capacity >= RS_CNT(spt) && RS_EXT(spt)->_capacity >= 1 && RS_EXT(spt)->_capacity < (1u << 28) && __CPROVER_is_fresh(RS_EXT(spt)->_handles, RS_EXT(spt)->_capacity * sizeof(void *))) : RS_CNT(spt) <= 3)
__CPROVER_requires(gh_G < RS_CNT(spt) ==> gh_oldH == RS_H(spt, gh_G))
__CPROVER_assigns(spt->_count_flag, __CPROVER_object_whole(&rs))
__CPROVER_ensures(cv_exc_pending == 0 && RS_CNT(spt) == 0 && RS_HEAP(spt) == (gh_cf & 1))                    /* the suspend point is left empty */
__CPROVER_ensures(rs.n_built == RS_N0 && rs.n_offered == RS_N0 && rs.wrong_pool == 0 && rs.n_resumed_here == 0)   /* one closure per handle, each offered once, to this pool; nothing resumed here */
__CPROVER_ensures(rs.n_accepted + rs.n_unrun == RS_N0)                                                         /* accepted by the pool, or (rejected) destroyed un-run by resume() */
__CPROVER_ensures(gh_G < RS_N0 ==> (rs.trk_built == 1 && rs.wrong_handle == 0 && rs.trk_offered == 1 && rs.trk_accepted + rs.trk_unrun == 1))   /* the same for the arbitrary tracked handle: its closure captures exactly it */
;
#endif

/* ---- thread_pool(threads): `threads` workers (hardware_concurrency() when 0), each running worker() of THIS pool; nothing queued, not stopped --- */
#ifdef CV_HAS_tp_ctor
cv_i32 gh_hw;                                   /* what std::thread::hardware_concurrency() answers (logical) */
#ifdef CV_HAS_thr_hw
cv_i32 thr_hw(void) { return gh_hw; }
#endif
#define CTOR_N(threads) ((cv_i64)((threads) != 0 ? (threads) : gh_hw))
#define CV_LOOP_tp_ctor_0 \
  __CPROVER_assigns(CV_LOOP_LOCALS_tp_ctor_0, __CPROVER_object_whole(&tc), __CPROVER_object_whole(gh_tv), TV(&this1->_threads)->b, TV(&this1->_threads)->e, TV(&this1->_threads)->c) \
  __CPROVER_loop_invariant(cv_exc_pending == 0 && this1 == gh_pool && i <= threads_addr && tc.n_started == i && tc.wrong_this == 0) \
  __CPROVER_loop_invariant(i == 0 ? (TV(&this1->_threads)->b == 0 || TV(&this1->_threads)->b == gh_tv) && TV(&this1->_threads)->e == TV(&this1->_threads)->b : (TV(&this1->_threads)->b == gh_tv && TV(&this1->_threads)->e == gh_tv + i)) \
  __CPROVER_loop_invariant(gh_TK < i ==> gh_tv[gh_TK]._M_id._M_thread != 0)
void tp_ctor(TP *this_, cv_i32 threads)
__CPROVER_requires(cv_exc_pending == 0 && this_ == gh_pool && tc.n_started == 0 && tc.wrong_this == 0 && gh_me != 0 && CTOR_N(threads) < tv_cap && tv_cap <= (1ul << 20) + 1 && gh_TK < (1ul << 40))
__CPROVER_assigns(__CPROVER_object_whole(gh_pool), __CPROVER_object_whole(gh_tv), __CPROVER_object_whole(&tc), TP_MODEL_ASSIGNS)
__CPROVER_ensures(cv_exc_pending == 0 && TP_EXIT(this_) == 0 && tm.q_len == 0)                                   /* running, nothing queued */
__CPROVER_ensures(tc.n_started == CTOR_N(threads) && tc.wrong_this == 0)                                         /* exactly that many threads started, each bound to this pool */
__CPROVER_ensures(CTOR_N(threads) == 0 ? TV(&this_->_threads)->e == TV(&this_->_threads)->b : (TV(&this_->_threads)->b == gh_tv && TV(&this_->_threads)->e == gh_tv + CTOR_N(threads)))   /* all of them in the worker list ... */
__CPROVER_ensures(gh_TK < CTOR_N(threads) ==> gh_tv[gh_TK]._M_id._M_thread != 0)                                 /* ... as joinable threads */
;
#endif
/* the thread body `[this]{ worker(); }`: runs worker() of the captured pool exactly once (worker is abstract here) */
#ifdef CV_HAS_thread_body
int gh_worker_calls; TP *gh_worker_pool;
#ifdef CV_HAS_tp_worker_abs
void tp_worker_abs(TP *p) { gh_worker_calls++; gh_worker_pool = p; }
#endif
void thread_body(LAMCTOR *this_)
__CPROVER_requires(cv_exc_pending == 0 && gh_worker_calls == 0 && __CPROVER_is_fresh(this_, sizeof(*this_)))
__CPROVER_assigns(gh_worker_calls, gh_worker_pool)
__CPROVER_ensures(cv_exc_pending == 0 && gh_worker_calls == 1 && gh_worker_pool == this_->this)
;
#endif

/* ---- co_await pool(awaitable): enqueue_awaiter<Awt>::perform_resume - the resume callback installed on the wrapped awaiter --------------------
 * when the awaited operation completes, the continuation is handed to the pool: exactly one call of pool.resume(suspend_point&&) on the
 * awaiter's own pool with a suspend point that holds exactly the awaiting coroutine; the callback itself resumes nothing (returns an empty
 * suspend point).  pool.resume is abstract here (units resume_sp_fwd / resume_sp_stopped): the continuation inherits the known finding. */
#ifdef CV_HAS_ea_perform_resume
struct ea_model { int resume_calls; TP *pool; cv_i32 cf; cv_i8 *h0; int sp_dtor_nonempty; } ea;
#ifdef CV_HAS_ea_pool_resume
void ea_pool_resume(TP *pool, SP *sp) { ea.resume_calls++; ea.pool = pool; ea.cf = sp->_count_flag; ea.h0 = sp->f0.f0._handles[0]; sp->_count_flag = 0; }    /* pool.resume empties the suspend point */
#endif
#ifdef CV_HAS_ea_sp_dtor
void ea_sp_dtor(SP *sp) { if (sp->_count_flag >> 1) ea.sp_dtor_nonempty++; }
#endif
void ea_perform_resume(SP *ret, AWT *unused, cv_i8 *user_ptr)
__CPROVER_requires(cv_exc_pending == 0 && ea.resume_calls == 0 && ea.sp_dtor_nonempty == 0 && __CPROVER_is_fresh(ret, sizeof(SP)) && __CPROVER_is_fresh(user_ptr, sizeof(EAW)))
__CPROVER_requires(((EAW *)user_ptr)->base_awaiter._resume_fn == 0 && ((EAW *)user_ptr)->base_awaiter._handle_addr != 0)      /* as left by enqueue_awaiter::await_suspend: set_handle(h) */
__CPROVER_assigns(__CPROVER_object_whole(ret), __CPROVER_object_whole(&ea))
__CPROVER_ensures(cv_exc_pending == 0 && ea.resume_calls == 1 && ea.pool == ((EAW *)user_ptr)->_pool)                       /* handed to the awaiter's own pool, once */
__CPROVER_ensures(ea.cf == 2 && ea.h0 == ((EAW *)user_ptr)->base_awaiter._handle_addr)                                      /* exactly the awaiting coroutine */
__CPROVER_ensures(ret->_count_flag == 0 && ea.sp_dtor_nonempty == 0)                                                          /* nothing is resumed on the resolving thread */
;
#endif
