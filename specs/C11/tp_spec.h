/* C11 - contracts on cocls::thread_pool (src/cocls/thread_pool.h), pool level.
 * Vocabulary: lib/model_tpool.c (closures as linear ghost ids with one tracked closure gh_C; abstract task queue; worker list; rely of the
 * pool mutex) and lib/model_mutex.c (lock discipline).  gh_pool is the pool (allocated and assigned by the harness, see h_tp.c).
 * Every contract pins the whole model state at entry (DFCC starts from nondeterministic statics) and runs with the rely switched on: at each
 * acquisition of the pool mutex the other threads have executed any number of complete critical sections (thread-modular reading).
 * Snapshots tm.exit_at_lock / len_at_lock (taken right after the rely step of the LAST acquisition) and tm.*_at_unlock (last release) let the
 * postconditions speak about "the instant the lock was taken". */
#define TP_PRE(p) (cv_exc_pending == 0 && TP_MODEL_ZERO && (p) == gh_pool && TP_INV(p) && tm.rely_on == 1 && tm.job_may_stop == 1)
#define TP_ASSIGNS TP_MODEL_ASSIGNS, __CPROVER_object_whole(gh_pool)
#define NO_CLOSURE_TOUCHED (tm.n_invoked == 0 && tm.n_unrun == 0 && tm.n_ran == 0 && tm.c_invoked == 0 && tm.c_unrun == 0 && tm.c_ran == 0)
#define ONE_CS (gh_lock_depth == 0 && gh_n_lock == 1 && gh_n_unlock == 1)      /* exactly one critical section, the mutex is free on return */

/* ---- enqueue(fn): under the lock; push iff the pool is not stopped at that instant; a rejected closure is left to its owner ------------- */
#ifdef CV_HAS_tp_enqueue
void tp_enqueue(TP *this_, QI *fn)
__CPROVER_requires(TP_PRE(this_) && __CPROVER_is_fresh(fn, sizeof(QI)) && QI_ID(fn) != 0 && QI_ID(fn) < (1ul << 32) && QI_RAN(fn) == 0)
__CPROVER_requires((QI_ID(fn) == gh_C) ? tm.c_where == C_ARG : (tm.c_where == C_ELSEWHERE || tm.c_where == C_QUEUED))
__CPROVER_assigns(TP_ASSIGNS, __CPROVER_object_whole(fn))
__CPROVER_ensures(cv_exc_pending == 0 && ONE_CS)
/* accepted <=> the exit flag was clear at the instant the lock was taken: the closure now lives in the queue (the argument is empty), exactly one push, a worker is woken */
__CPROVER_ensures(tm.exit_at_lock == 0 ==> (fn->base_function_base._ptr == 0 && tm.n_push == 1 && tm.len_at_unlock == tm.len_at_lock + 1 && tm.n_notify_one + tm.n_notify_all >= 1))
__CPROVER_ensures((tm.exit_at_lock == 0 && (cv_i64)(void *)__CPROVER_old(fn->base_function_base._ptr) == gh_C) ==> tm.c_where == C_QUEUED)
/* rejected: the closure is untouched and still owned by the caller (who must cancel it); nothing was pushed */
__CPROVER_ensures(tm.exit_at_lock == 1 ==> (fn->base_function_base._ptr == __CPROVER_old(fn->base_function_base._ptr) && tm.n_push == 0 && tm.len_at_unlock == tm.len_at_lock))
__CPROVER_ensures((tm.exit_at_lock == 1 && (cv_i64)(void *)__CPROVER_old(fn->base_function_base._ptr) == gh_C) ==> tm.c_where == C_ARG)
__CPROVER_ensures(tm.exit_at_unlock == tm.exit_at_lock && NO_CLOSURE_TOUCHED && tm.n_deq == 0)          /* enqueue neither runs nor destroys nor dequeues anything */
;
#endif

/* ---- is_stopped() / any_enqueued(): the answer is read inside one critical section -------------------------------------------------------- */
#ifdef CV_HAS_tp_is_stopped
cv_i1 tp_is_stopped(TP *this_)
__CPROVER_requires(TP_PRE(this_))
__CPROVER_assigns(TP_ASSIGNS)
__CPROVER_ensures(cv_exc_pending == 0 && ONE_CS && __CPROVER_return_value == tm.exit_at_lock)
__CPROVER_ensures(tm.exit_at_unlock == tm.exit_at_lock && tm.len_at_unlock == tm.len_at_lock && NO_CLOSURE_TOUCHED && tm.n_deq == 0 && tm.n_push == 0)
;
#endif
#ifdef CV_HAS_tp_any_enqueued
cv_i1 tp_any_enqueued(TP *this_)
__CPROVER_requires(TP_PRE(this_))
__CPROVER_assigns(TP_ASSIGNS)
__CPROVER_ensures(cv_exc_pending == 0 && ONE_CS && __CPROVER_return_value == ((tm.exit_at_lock == 1 || tm.len_at_lock > 0) ? 1 : 0))
__CPROVER_ensures(tm.exit_at_unlock == tm.exit_at_lock && tm.len_at_unlock == tm.len_at_lock && NO_CLOSURE_TOUCHED && tm.n_deq == 0 && tm.n_push == 0)
;
#endif

/* ---- worker(): the service loop ---------------------------------------------------------------------------------------------------------
 * per iteration: wait (under the lock, lock released while blocked) until a closure is queued or the pool is stopped; stopped -> leave;
 * otherwise take ONE closure out of the queue under the lock, release the lock, invoke the closure exactly once, and - before touching the
 * pool again - test the thread's current-pool pointer (the job may have stopped and destroyed the pool).
 * Lock-discipline obligations are asserted inside the primitives (queue ops need the lock; invocation / destruction of a closure need it
 * released; nothing of the pool is used once a job destroyed it).  Partial correctness: the loop has no variant (it is a service loop). */
#ifdef CV_HAS_tp_worker
/* what holds whenever the worker owns the lock at a loop head */
#define WORKER_INV(pool, lkp) (cv_exc_pending == 0 && tm.pool_dead == 0 && (lkp)->_M_owns == 1 && (void *)(lkp)->_M_device == (void *)&(pool)->_mx && \
   gh_lock_depth == 1 && gh_lock_held == (void *)&gh_pool->_mx && TP_INV(gh_pool) && tm.exit_at_lock == gh_pool->_exit && CUR == gh_pool && tm.front_valid == 0 && tm.lq_live == 0 && tm.lq_len == 0 && \
   tm.rely_on == 1 && tm.job_may_stop == 1 && tt.n_join == 0 && tt.n_detach == 0 && \
   tm.n_push == 0 && tm.n_unrun == 0 && tm.n_invoked == tm.n_deq && tm.n_ran == tm.n_deq && \
   tm.c_unrun == 0 && tm.c_invoked <= 1 && tm.c_ran == tm.c_invoked && (tm.c_where == C_GONE) == (tm.c_invoked == 1) && \
   (tm.c_where == C_ELSEWHERE || tm.c_where == C_QUEUED || tm.c_where == C_TAKEN || tm.c_where == C_GONE))
#define CV_LOOP_tp_worker_0 \
  __CPROVER_assigns(CV_LOOP_LOCALS_tp_worker_0, TP_ASSIGNS, CUR) \
  __CPROVER_loop_invariant(WORKER_INV(this1, &lk__mem) && this1 == gh_pool)
/* std::condition_variable::wait(lk, pred) - the real libstdc++ loop `while (!pred()) wait(lk);` with the real predicate of worker() */
#define CV_LOOP_cv_wait_pred_0 \
  __CPROVER_assigns(call, lnot, t0, TP_ASSIGNS) \
  __CPROVER_loop_invariant(WORKER_INV(gh_pool, __lock_addr) && tm.n_deq == __CPROVER_loop_entry(tm.n_deq) && tm.c_invoked == __CPROVER_loop_entry(tm.c_invoked))
void tp_worker(TP *this_)
__CPROVER_requires(TP_PRE(this_) && (tm.c_where == C_ELSEWHERE || tm.c_where == C_QUEUED))
__CPROVER_assigns(TP_ASSIGNS, CUR)
__CPROVER_ensures(cv_exc_pending == 0 && gh_lock_depth == 0)                                   /* the mutex is free when the worker leaves (both exits) */
/* every closure this worker took out of the queue was invoked exactly once and disposed of after its run; none was destroyed un-run, none re-queued */
__CPROVER_ensures(tm.n_invoked == tm.n_deq && tm.n_ran == tm.n_deq && tm.n_unrun == 0 && tm.n_push == 0)
/* the same for the arbitrary tracked closure: never left in limbo, never twice, gone <=> it ran exactly once here */
__CPROVER_ensures(tm.c_where != C_HELD && tm.c_where != C_ARG && tm.c_unrun == 0 && tm.c_invoked <= 1 && tm.c_ran == tm.c_invoked && (tm.c_where == C_GONE) == (tm.c_invoked == 1))
/* a worker leaves only when the pool is stopped: it saw the exit flag under the lock, or its own job stopped the pool (current-pool pointer reset) */
__CPROVER_ensures(CUR == 0 || (CUR == this_ && tm.exit_at_lock == 1))
__CPROVER_ensures(tm.pool_dead == 1 ==> CUR == 0)
;
#endif

/* ---- stop() ---------------------------------------------------------------------------------------------------------------------------------
 * one critical section: exit flag set, all workers notified, worker list and task queue swapped out; then - with the mutex released - every
 * worker of the swapped-out list is joined, except the calling thread itself, which is detached and stops being a pool thread
 * (current-pool pointer reset); finally every swapped-out closure is destroyed un-run exactly once (= cancelled), still outside the lock.
 * "for every worker" = the arbitrary tracked index gh_TK (its original id is the logical variable gh_tid0); obligations asserted inside the
 * primitives: no join under the lock, no self-join, only joinable threads joined / detached, no joinable thread destroyed.
 * LIVENESS (the joins return, no deadlock for every timing) is NOT claimed: safety obligations only. */
#ifdef CV_HAS_tp_stop
cv_i64 gh_tid0;                 /* logical: id of the tracked worker at entry      */
TP *gh_cur0;                    /* logical: the thread's current-pool pointer at entry */
#define TV_TRK (gh_tv[gh_TK]._M_id._M_thread)
#define STOP_IDX(it) ((cv_i64)(__CPROVER_POINTER_OFFSET(it) / sizeof(THR)))
#define CV_LOOP_tp_stop_0 \
  __CPROVER_assigns(CV_LOOP_LOCALS_tp_stop_0, __CPROVER_object_whole(&tt), __CPROVER_object_whole(gh_tv), CUR) \
  __CPROVER_loop_invariant(cv_exc_pending == 0 && gh_lock_depth == 0 && this1 == gh_pool && me__mem._M_thread == gh_me && tv_cur_n == tm.nthr_at_lock) \
  __CPROVER_loop_invariant(__CPROVER_same_object(__begin2__mem._M_current, gh_tv) && __end2__mem._M_current == gh_tv + tm.nthr_at_lock && \
      __CPROVER_POINTER_OFFSET(__begin2__mem._M_current) % sizeof(THR) == 0 && __CPROVER_POINTER_OFFSET(__begin2__mem._M_current) <= tm.nthr_at_lock * sizeof(THR)) \
  __CPROVER_loop_invariant(tt.n_join + tt.n_detach == STOP_IDX(__begin2__mem._M_current) && tt.n_join <= tm.nthr_at_lock && tt.n_detach <= tm.nthr_at_lock) \
  __CPROVER_loop_invariant(gh_TK >= STOP_IDX(__begin2__mem._M_current) ==> (tt.t_join == 0 && tt.t_detach == 0 && (gh_TK < tm.nthr_at_lock ==> TV_TRK == gh_tid0))) \
  __CPROVER_loop_invariant(gh_TK < STOP_IDX(__begin2__mem._M_current) ==> (TV_TRK == 0 && tt.t_detach == (gh_tid0 == gh_me ? 1 : 0) && tt.t_join == (gh_tid0 == gh_me ? 0 : 1))) \
  __CPROVER_loop_invariant(tt.n_detach == 0 ? CUR == gh_cur0 : CUR == 0)
void tp_stop(TP *this_)
__CPROVER_requires(TP_PRE(this_) && (tm.c_where == C_ELSEWHERE || tm.c_where == C_QUEUED) && CUR == gh_cur0)
__CPROVER_requires(TV(&this_->_threads)->b == gh_tv && gh_TK < (1ul << 40) && gh_tid0 != 0 && (gh_TK < TV_N(&this_->_threads) ==> TV_TRK == gh_tid0))   /* the pool's workers are joinable */
__CPROVER_assigns(TP_ASSIGNS, CUR, __CPROVER_object_whole(gh_tv))
__CPROVER_ensures(cv_exc_pending == 0 && ONE_CS)
/* inside the one critical section: flag set, workers notified, both containers swapped out (the pool's members are empty at the release) */
__CPROVER_ensures(tm.exit_at_unlock == 1 && tm.n_notify_all >= 1 && tm.len_at_unlock == 0 && tm.thr_empty_at_unlock == 1)
/* every closure that was queued at that instant is destroyed un-run exactly once (cancelled) - none invoked, none kept */
__CPROVER_ensures(tm.lq_live == 0 && tm.n_unrun == tm.len_at_lock && tm.n_invoked == 0 && tm.n_ran == 0 && tm.n_push == 0 && tm.n_deq == 0)
__CPROVER_ensures(tm.c_invoked == 0 && tm.c_ran == 0 && (tm.c_where_at_lock == C_QUEUED ? (tm.c_where == C_GONE && tm.c_unrun == 1) : (tm.c_where == tm.c_where_at_lock && tm.c_unrun == 0)))
/* every worker of the swapped-out list is dealt with exactly once: the caller itself detached, every other one joined */
__CPROVER_ensures(tt.n_join + tt.n_detach == tm.nthr_at_lock)
__CPROVER_ensures(gh_TK < tm.nthr_at_lock ==> (TV_TRK == 0 && tt.t_detach == (gh_tid0 == gh_me ? 1 : 0) && tt.t_join == (gh_tid0 == gh_me ? 0 : 1)))
/* called from one of the pool's own threads: that thread stops being a pool thread; otherwise the current-pool pointer is untouched */
__CPROVER_ensures(tt.n_detach == 0 ? CUR == gh_cur0 : CUR == 0)
;
#endif

/* ---- ~thread_pool(): stops the pool exactly once, then the members die: no joinable worker and no queued closure may be left ------------------
 * forwarder unit: stop() is an abstract callee here (its own unit proves its contract); the stub records the call and establishes what
 * stop() guarantees at its release of the mutex (flag set, both containers empty). */
#ifdef CV_HAS_tp_dtor
int gh_stop_calls;
#ifdef CV_HAS_tp_stop_abs
void tp_stop_abs(TP *p) { gh_stop_calls++; __CPROVER_assert(!(gh_lock_depth > 0), "stop() called while holding the pool mutex"); p->_exit = 1; tm.q_len = 0; TV(&p->_threads)->e = TV(&p->_threads)->b; }
#endif
void tp_dtor(TP *this_)
__CPROVER_requires(TP_PRE(this_) && gh_stop_calls == 0 && (tm.c_where == C_ELSEWHERE || tm.c_where == C_QUEUED) && TV(&this_->_threads)->b == gh_tv)
__CPROVER_assigns(TP_ASSIGNS, gh_stop_calls)
__CPROVER_ensures(cv_exc_pending == 0 && gh_stop_calls == 1 && gh_lock_depth == 0)
__CPROVER_ensures(tm.n_invoked == 0 && tm.n_unrun == 0 && tm.n_ran == 0)      /* the member destructors find nothing left to destroy: stop() dealt with every closure */
;
#endif

/* ---- is_current(pool), thread_pool::current::* : the thread-local current-pool pointer marks worker threads ---------------------------------- */
#ifdef CV_HAS_tp_is_current
cv_i1 tp_is_current(TP *pool)
__CPROVER_requires(cv_exc_pending == 0)
__CPROVER_assigns()
__CPROVER_ensures(__CPROVER_return_value == (CUR == pool ? 1 : 0))
;
#endif
#define CUR_PRE (TP_PRE(gh_pool) && (CUR == 0 || CUR == gh_pool))
#define NO_CS (gh_lock_depth == 0 && gh_n_lock == 0 && gh_n_unlock == 0)
#ifdef CV_HAS_cur_is_stopped
cv_i1 cur_is_stopped(void)
__CPROVER_requires(CUR_PRE)
__CPROVER_assigns(TP_ASSIGNS)
__CPROVER_ensures(cv_exc_pending == 0 && (CUR == 0 ? (NO_CS && __CPROVER_return_value == 1) : (ONE_CS && __CPROVER_return_value == tm.exit_at_lock)))
;
#endif
#ifdef CV_HAS_cur_any_enqueued
cv_i1 cur_any_enqueued(void)
__CPROVER_requires(CUR_PRE)
__CPROVER_assigns(TP_ASSIGNS)
__CPROVER_ensures(cv_exc_pending == 0 && (CUR == 0 ? (NO_CS && __CPROVER_return_value == 0) : (ONE_CS && __CPROVER_return_value == ((tm.exit_at_lock == 1 || tm.len_at_lock > 0) ? 1 : 0))))
;
#endif
/* current_awaiter::await_ready(): "no need to hop: not on a pool thread, or the pool is stopped".
 * OBSERVATION (property C03, not C11): the exit flag is read WITHOUT taking the pool mutex - the IR of this function contains the plain
 * `load i8, i8* %_exit` and no call at all (no pthread_mutex_lock in its call tree); every other reader/writer of _exit holds the mutex, so
 * this is a data race with stop().  The functional contract below is what the code does; the lock-discipline clause is switched on with the
 * environment variable C11_LOCKCHECK_AWAIT_READY=1 (units.py) and then FAILS on the unchanged tree (see fix_await_ready_lock.diff). */
#ifdef CV_HAS_cur_await_ready
cv_i1 cur_await_ready(void)
__CPROVER_requires(CUR_PRE)
__CPROVER_assigns(TP_ASSIGNS)
__CPROVER_ensures(cv_exc_pending == 0 && gh_lock_depth == 0 && __CPROVER_return_value == ((CUR == 0 || gh_pool->_exit == 1) ? 1 : 0))
#ifdef C11_LOCKCHECK_AWAIT_READY
__CPROVER_ensures(CUR != 0 ==> (ONE_CS && __CPROVER_return_value == tm.exit_at_lock))        /* thread_pool::_exit is read inside a critical section of the pool mutex */
#endif
;
#endif
