/* C11 - closure level, Fn = Job& (lvalue callable).  cocls::function<void()> then stores a REFERENCE to the caller's object: FnInstSmall<Job&> = vptr + one
 * pointer (16 bytes, always in the 64-byte internal buffer).  Plain CBMC harnesses over the REAL translated machinery (real vtables, concrete objects,
 * symbolic payload) - see cl_spec.h for the abstract callees (thread_pool::enqueue = accept / reject + fate of the accepted closure). */
#if defined(CV_HAS_drv_rd_job) || defined(CV_HAS_fn_from_job)
int gh_j_calls; cv_i64 gh_j_id;
void cvx_c11_job_run(cv_i64 id) { gh_j_calls++; gh_j_id = id; }
#define FPTR(f)  ((void *)(f)->base_function_base._ptr)
#define FSPACE(f) ((void *)(f)->base_function_base.space)
#endif

/* ================================================================================================ run_detached<Job&>(Job&) ================= */
#ifdef CV_HAS_drv_rd_job
void h_run_detached_ref(void) {
  cv_i8 *pool_mem = malloc(1); __CPROVER_assume(pool_mem != 0); TP *pool = (TP *)pool_mem;
  NEWOBJ(JOB, job); cv_i64 id = nondet_size_t(); job->id = id;
  in_accept[0] = nondet_bool(); cv_i1 in_run = nondet_bool();
  drv_rd_job(pool, job);
  CHECK(cv_exc_pending == 0 && gh_enq_calls == 1 && gh_enq_pool == pool && gh_j_calls == 0, "run_detached(job&): exactly one closure is offered to this pool; the job is not run on the calling thread");
  CHECK(gh_allocs == 0, "run_detached(job&): the closure (one reference) fits the internal buffer - no heap allocation");
  if (gh_enq_accepted) {
    CHECK(FPTR(&gh_slot[0]) == FSPACE(&gh_slot[0]), "accepted: the queued closure lives in the queue element's own buffer");
    NEWOBJ(QI, loc);
    fn_move(loc, &gh_slot[0]);
    CHECK(FPTR(&gh_slot[0]) == 0 && FPTR(loc) == FSPACE(loc), "worker takes the closure: moved exactly once - the queue element is left empty, the closure lives in the worker's buffer");
    fn_dtor(&gh_slot[0]);
    CHECK(gh_j_calls == 0, "moving the closure and destroying the moved-from queue element runs nothing");
    if (in_run) {
      fn_call((FB *)loc);
      CHECK(cv_exc_pending == 0 && gh_j_calls == 1 && gh_j_id == id, "closure run: the caller's job is executed exactly once");
      SENT("run_detached(job&): job ran");
    } else SENT("run_detached(job&): queued closure destroyed un-run");
    fn_dtor(loc);
    CHECK(gh_j_calls == (in_run ? 1 : 0), "destroying the closure runs nothing (executed at most once)");
  } else {
    CHECK(gh_j_calls == 0, "rejected by a stopped pool: the job is never run");
    SENT("run_detached(job&): rejected by a stopped pool");
  }
  CHECK(job->id == id, "the caller's job object is left untouched (it is referenced, not consumed)");
  CHECK(gh_allocs == gh_frees, "no heap block is leaked");
}
#endif

/* ================================================================================================ function<void()>(Job&) life cycle ========= */
#ifdef CV_HAS_fn_from_job
void h_fn_life_ref(void) {
  NEWOBJ(QI, a); NEWOBJ(QI, b); NEWOBJ(JOB, job); cv_i64 id = nondet_size_t(); job->id = id;
  fn_from_job(a, job);
  CHECK(cv_exc_pending == 0 && FPTR(a) == FSPACE(a) && gh_allocs == 0 && fn_bool((FB *)a) == 1, "construction from an lvalue callable: small object in the internal buffer, no allocation");
  CHECK(sizeof(FISJ) <= sizeof(a->base_function_base.space), "bounds: the small-object representation fits the 64-byte buffer the constructor placed it in");
  fn_move(b, a);
  CHECK(FPTR(a) == 0 && fn_bool((FB *)a) == 0 && FPTR(b) == FSPACE(b) && gh_allocs == 0, "move construction: the closure travels into the destination's buffer, the source is empty");
  fn_dtor(a);
  /* FnInstSmall<Job&>::move(newplace, sz): the size test decides in place / heap.  (1) exact fit */
  cv_i8 *exact = malloc(sizeof(FISJ)); __CPROVER_assume(exact != 0);
  FISJ *s0 = (FISJ *)FPTR(b);
  void *r1 = (void *)fis_move_job(s0, exact, sizeof(FISJ));
  CHECK(r1 == (void *)exact && gh_allocs == 0, "move(buffer, size): a buffer of exactly sizeof(FnInstSmall) is used in place (CBMC's bounds checks cover every write into it)");
  /* (2) one byte short: must go to the heap and must not touch the buffer */
  cv_i8 *tiny = malloc(sizeof(FISJ) - 1); __CPROVER_assume(tiny != 0);
  cv_i64 in_sz = nondet_size_t(); __CPROVER_assume(in_sz < sizeof(FISJ));
  void *r2 = (void *)fis_move_job((FISJ *)r1, tiny, in_sz);
  CHECK(r2 != (void *)tiny && r2 != (void *)exact && gh_allocs == 1, "bounds: move(buffer, size) with size < sizeof(FnInstSmall) never writes the buffer - the closure goes to one heap block");
  /* (3) the heap representation (FnInst) does not move any more */
  void *r3 = (void *)fi_move_job(r2, tiny, nondet_size_t());
  CHECK(r3 == r2 && gh_allocs == 1, "FnInst::move: a heap closure stays where it is (only the pointer travels)");
  b->base_function_base._ptr = r3;
  fn_call((FB *)b);
  CHECK(cv_exc_pending == 0 && gh_j_calls == 1 && gh_j_id == id, "call reaches the caller's job exactly once, through every representation it travelled");
  fn_dtor(b);
  CHECK(gh_j_calls == 1 && gh_allocs == gh_frees, "destruction releases the heap block, runs nothing");
  free(exact); free(tiny);
  SENT("function<void()>(Job&) life cycle");
}
#endif
