# C11 - Thread pool: every submission runs once on a worker or is cancelled once   (src/cocls/thread_pool.h, function.h)
import os, re
QIT = 'cocls::function<void (), 64ul>'
DQT = 'std::deque<%s, std::allocator<%s > >' % (QIT, QIT)
TQT = 'std::queue<%s, %s >' % (QIT, DQT)
TVT = 'std::vector<std::thread, std::allocator<std::thread> >'
def rx(sig): return '^' + re.escape(sig) + '$'
TYPES = {'TP': 'cocls::thread_pool', 'QI': 'cocls::function<void (), 64UL>', 'FB': 'cocls::function_base<64UL, false, void>',
         'TQ': TQT.replace('64ul', '64UL'), 'TVEC': TVT, 'THR': 'std::thread', 'TVIT': '__gnu_cxx::__normal_iterator<std::thread *, %s >' % TVT, 'ULK': 'std::unique_lock<std::mutex>', 'CONDV': 'std::condition_variable'}
GLOBALS = {'TP_CURRENT': '_ZN5cocls11thread_pool8_currentE'}
# ---- layer A (pool level): containers, std::thread and the function<> cell are assumed-contract primitives (lib/model_tpool.c)
ABS = {   # alias -> regex : abstract callees of the pool-level units
    'qi_move': rx('%s::function(%s&&)' % (QIT, QIT)), 'qi_dtor': rx('%s::~function()' % QIT), 'qi_call': rx('void cocls::function_base<64ul, false, void>::operator()<>() const'),
    'tq_ctor': r'^std::queue<cocls::function<void \(\), 64ul>.*::queue<std::deque<', 'tq_dtor': r'^std::queue<cocls::function<void \(\), 64ul>.*::~queue\(\)$',
    'tq_push': r'^std::queue<cocls::function<void \(\), 64ul>.*::push\(cocls::function<void \(\), 64ul>&&\)$', 'tq_empty': r'^std::queue<cocls::function<void \(\), 64ul>.*::empty\(\) const$',
    'tq_front': r'^std::queue<cocls::function<void \(\), 64ul>.*::front\(\)$', 'tq_pop': r'^std::queue<cocls::function<void \(\), 64ul>.*::pop\(\)$',
    'tq_swap': r'^std::queue<cocls::function<void \(\), 64ul>.*::swap\(std::queue<',
    'tv_ctor': rx(TVT + '::vector()'), 'tv_dtor': rx(TVT + '::~vector()'), 'tv_begin': rx(TVT + '::begin()'), 'tv_end': rx(TVT + '::end()'),
    'tv_swap': r'^void std::swap<std::thread, std::allocator<std::thread> >\(',
    'thr_join': rx('std::thread::join()'), 'thr_detach': rx('std::thread::detach()'), 'thr_get_id': rx('std::thread::get_id() const'),
    'tv_it_deref': r'^__gnu_cxx::__normal_iterator<std::thread\*, .*>::operator\*\(\) const$',
}
BOUNDARY_A = [ABS['qi_move'], ABS['qi_dtor'], ABS['qi_call'], r'^std::queue<cocls::function<void \(\), 64ul>', r'^std::vector<std::thread', ABS['tv_swap'], ABS['thr_get_id'], ABS['tv_it_deref'], r'^std::condition_variable::(wait\(|notify|condition_variable|~condition)']
LIBS_A = ['rt_core.c', 'rt_atomic_seq.c', 'model_mutex.c', 'model_tpool.c']
HOOKS = ['CV_ON_LOCK(m) { extern void tp_on_lock(void *); tp_on_lock((void *)(m)); }', 'CV_ON_UNLOCK(m) { extern void tp_on_unlock(void *); tp_on_unlock((void *)(m)); }']
F = {   # functions under contract (pool level)
    'tp_enqueue': rx('cocls::thread_pool::enqueue(%s&&)' % QIT), 'tp_worker': rx('cocls::thread_pool::worker()'), 'tp_stop': rx('cocls::thread_pool::stop()'),
    'tp_dtor': rx('cocls::thread_pool::~thread_pool()'), 'tp_is_stopped': rx('cocls::thread_pool::is_stopped() const'), 'tp_any_enqueued': rx('cocls::thread_pool::any_enqueued()'),
    'tp_is_current': rx('cocls::is_current(cocls::thread_pool const&)'), 'cur_is_stopped': rx('cocls::thread_pool::current::is_stopped()'),
    'cur_any_enqueued': rx('cocls::thread_pool::current::any_enqueued()'), 'cur_await_ready': rx('cocls::thread_pool::current::current_awaiter::await_ready()'),
    'cv_wait_pred': r'^void std::condition_variable::wait<cocls::thread_pool::worker\(\)::\{lambda\(\)#1\}>\(',
}
def unitA(name, alias, names=None, names_opt=None, boundary=(), defines=(), **kw):
    nm = {alias: F[alias]}; nm.update(names or {})
    no = dict(ABS); no.update(names_opt or {})
    d = dict(name=name, driver='c11_pool.cpp', roots=[F[alias]], names=nm, names_opt=no, types=TYPES, globals=GLOBALS, boundary=BOUNDARY_A + list(boundary), lib=LIBS_A,
             spec=['C11/tp_spec.h', 'C11/h_tp.c'], harness='h_' + name, enforce=alias, defines=HOOKS + list(defines), under_contract=[F[alias].strip('^$').replace('\\', '')], timeout=600)
    d.update(kw)
    return d
LOCKCHK_AR = ['C11_LOCKCHECK_AWAIT_READY 1'] if os.environ.get('C11_LOCKCHECK_AWAIT_READY') else []
UNITS = [
    unitA('enqueue', 'tp_enqueue'),
    unitA('is_stopped', 'tp_is_stopped'),
    unitA('any_enqueued', 'tp_any_enqueued'),
    unitA('worker', 'tp_worker', names={'cv_wait_pred': F['cv_wait_pred']}, loop_contracts=True),
    unitA('dtor', 'tp_dtor', names_opt={'tp_stop_abs': F['tp_stop']}, boundary=[F['tp_stop']]),
    unitA('is_current', 'tp_is_current'),
    unitA('cur_is_stopped', 'cur_is_stopped'),
    unitA('cur_any_enqueued', 'cur_any_enqueued'),
    unitA('cur_await_ready', 'cur_await_ready', defines=LOCKCHK_AR),
    unitA('stop', 'tp_stop', loop_contracts=True, defines=['TP_TRACK_THREADS 1', 'TP_MAXTHR (1ul << 20)', 'TP_ALLOC_THR (in_nthr + 1)']),
]
# ---- layer B (closure level): real closures + real function<> machinery, plain CBMC harnesses (specs/C11/cl_spec.h, h_cl.c)
CHT = 'std::__n4861::coroutine_handle<void>'
TYPES_B = {'TP': 'cocls::thread_pool', 'QI': 'cocls::function<void (), 64UL>', 'FB': 'cocls::function_base<64UL, false, void>', 'CAW': 'cocls::thread_pool::co_awaiter',
           'SP': 'cocls::suspend_point<void>', 'SPB': 'cocls::suspend_point<bool>', 'PROM': 'cocls::promise<int>', 'FUT': 'cocls::future<int>', 'ASY': 'cocls::async<int>',
           'EPTR': 'std::__exception_ptr::exception_ptr', 'IJOB': 'IntJob', 'CH': CHT}
G = {   # functions of the closure level
    'aw_suspend': rx('cocls::thread_pool::co_awaiter::await_suspend(%s)' % CHT), 'aw_resume': rx('cocls::thread_pool::co_awaiter::await_resume()'),
    'aw_ready': rx('cocls::thread_pool::co_awaiter::await_ready()'), 'tp_co_await': rx('cocls::thread_pool::operator co_await()'),
    'cur_co_await': rx('cocls::thread_pool::current::operator co_await()'),
    'fn_move': ABS['qi_move'], 'fn_dtor': ABS['qi_dtor'], 'fn_call': ABS['qi_call'],
    'fn_move_assign': rx('%s::operator=(%s&&)' % (QIT, QIT)), 'fn_bool': rx('cocls::function_base<64ul, false, void>::operator bool() const'), 'fn_default': r'^drv_fn_default$',
    'tp_enqueue': F['tp_enqueue'], 'cq_resume': rx('cocls::coro_queue::resume(%s)' % CHT),
    'tp_run_fn': r'^cocls::future<decltype.*cocls::thread_pool::run<IntJob&>\(IntJob&\)$',
    'pr_dtor': rx('cocls::promise<int>::~promise()'), 'pr_call_int': r'^cocls::suspend_point<bool> cocls::promise<int>::operator\(\)<int>\(int&&\)$',
    'pr_call_exc': r'^cocls::suspend_point<bool> cocls::promise<int>::operator\(\)<std::__exception_ptr::exception_ptr>\(', 'sp_dtor': rx('cocls::suspend_point<void>::~suspend_point()'),
    'tp_resume_sp': rx('void cocls::thread_pool::resume<void>(cocls::suspend_point<void>&)'), 'tp_run_async': rx('cocls::future<int> cocls::thread_pool::run<int>(cocls::async<int>&)'),
    'as_start': rx('cocls::async<int>::start(cocls::promise<int>&)'), 'ch_destroy': rx(CHT + '::destroy() const'), 'drv_rd_tjob': r'^drv_run_detached_tjob$',
}
TI = {'TI_AWAIT_CANCELED': '_ZTIN5cocls24await_canceled_exceptionE', 'TI_BAD_FUNCTION_CALL': '_ZTISt17bad_function_call'}
def unitB(name, fns, abstract=(), types=(), globals_=(), defines=(), extra_names=None, **kw):
    """lemma unit: a plain CBMC harness over the real bodies of `fns` (and everything they call); `abstract` = abstract callees (boundary + stub in cl_spec.h)"""
    names = {f: G[f] for f in fns}; names.update(extra_names or {})
    no = {a: G[a] for a in abstract}; no['bfc_ctor'] = r'^std::bad_function_call::bad_function_call\(\)$'
    d = dict(name=name, kind='lemma', driver='c11_pool.cpp', roots=list(names.values()), names=names, names_opt=no,
             types={k: TYPES_B[k] for k in ('TP', 'QI', 'FB') + tuple(types)}, globals={k: dict(TI, **GLOBALS)[k] for k in globals_}, boundary=[G[a] for a in abstract] + [r'^std::bad_function_call::'],
             lib=['rt_core.c', 'rt_atomic_seq.c'], spec=['C11/cl_spec.h', 'C11/h_cl.c'], harness='h_' + name, defines=list(defines), unwind=8,
             under_contract=[G[f].strip('^$').replace('\\', '') for f in fns if not f.startswith('drv_') and not f.startswith('fn_from')], timeout=600)
    d.update(kw)
    return d
FNOPS = ['fn_move', 'fn_dtor', 'fn_call']
UNITS += [
    unitB('co_await', ['aw_suspend', 'aw_resume', 'aw_ready', 'tp_co_await'] + FNOPS, abstract=['tp_enqueue', 'cq_resume'], types=['CAW'], globals_=['TI_AWAIT_CANCELED']),
    unitB('cur_co_await', ['cur_co_await'], types=['CAW'], globals_=['TP_CURRENT']),
    unitB('run_fn', ['tp_run_fn'] + FNOPS, abstract=['tp_enqueue', 'pr_dtor', 'pr_call_int', 'pr_call_exc', 'sp_dtor'], types=['SP', 'SPB', 'PROM', 'FUT', 'EPTR', 'IJOB']),
    unitB('run_detached', ['drv_rd_tjob'] + FNOPS, abstract=['tp_enqueue']),
    unitB('fn_life_small', FNOPS + ['fn_move_assign', 'fn_bool', 'fn_default'], extra_names={'fn_from_t': r'^drv_fn_from_tjob$'}, globals_=['TI_BAD_FUNCTION_CALL'], harness='h_fn_life'),
    unitB('fn_life_big', FNOPS + ['fn_move_assign', 'fn_bool', 'fn_default'], extra_names={'fn_from_t': r'^drv_fn_from_bigjob$'}, globals_=['TI_BAD_FUNCTION_CALL'], harness='h_fn_life', defines=['FN_BIG 1']),
    unitB('resume_sp_stopped', ['tp_resume_sp'] + FNOPS, abstract=['tp_enqueue', 'cq_resume', 'ch_destroy'], types=['SP', 'CH'], harness='h_resume_sp',
          bounded='suspend points of 0..4 coroutines (inline representation 0..3, heap representation 4); every accept/reject answer of the pool and every run/destroy fate of each accepted closure'),
    unitB('run_async_stopped', ['tp_run_async'] + FNOPS, abstract=['tp_enqueue', 'cq_resume', 'ch_destroy', 'pr_dtor', 'sp_dtor', 'as_start'], types=['SP', 'SPB', 'PROM', 'FUT', 'ASY', 'CH'], harness='h_run_async'),
]
META = dict(level='proof', level_text='(under construction)'
, level_note='', technique='', trusted_base=[], assumptions=[], explanation='')
