# C11 - Thread pool: every submission runs once on a worker or is cancelled once   (src/cocls/thread_pool.h, function.h)
import os, re
QIT = 'cocls::function<void (), 64ul>'
DQT = 'std::deque<%s, std::allocator<%s > >' % (QIT, QIT)
TQT = 'std::queue<%s, %s >' % (QIT, DQT)
TVT = 'std::vector<std::thread, std::allocator<std::thread> >'
def rx(sig): return '^' + re.escape(sig) + '$'
TYPES = {'TP': 'cocls::thread_pool', 'QI': 'cocls::function<void (), 64UL>', 'FB': 'cocls::function_base<64UL, false, void>',
         'TQ': TQT.replace('64ul', '64UL'), 'TVEC': TVT, 'THR': 'std::thread', 'TVIT': '__gnu_cxx::__normal_iterator<std::thread *, %s >' % TVT, 'ULK': 'std::unique_lock<std::mutex>', 'CONDV': 'std::condition_variable'}
GLOBALS = {'TP_CURRENT': '_ZN5cocls11thread_pool8_currentE'}
# ---- layer A (pool level): containers, std::thread and the function<> cell are assumed-contract primitives (lib/model_tpool2.c; model_tpool.c is its
#      predecessor without the join-order / workers-taken-by-another-stop / thread-identity obligations, kept for reference)
ABS = {   # alias -> regex : abstract callees of the pool-level units
    'qi_move': rx('%s::function(%s&&)' % (QIT, QIT)), 'qi_dtor': rx('%s::~function()' % QIT), 'qi_call': rx('void cocls::function_base<64ul, false, void>::operator()<>() const'),
    'tq_ctor': r'^std::queue<cocls::function<void \(\), 64ul>.*::queue<std::deque<', 'tq_dtor': r'^std::queue<cocls::function<void \(\), 64ul>.*::~queue\(\)$',
    'tq_push': r'^std::queue<cocls::function<void \(\), 64ul>.*::push\(cocls::function<void \(\), 64ul>&&\)$', 'tq_empty': r'^std::queue<cocls::function<void \(\), 64ul>.*::empty\(\) const$',
    'tq_front': r'^std::queue<cocls::function<void \(\), 64ul>.*::front\(\)$', 'tq_pop': r'^std::queue<cocls::function<void \(\), 64ul>.*::pop\(\)$',
    'tq_swap': r'^std::queue<cocls::function<void \(\), 64ul>.*::swap\(std::queue<',
    'tq_size': r'^std::queue<cocls::function<void \(\), 64ul>.*::size\(\) const$',      # not used by the unchanged text; modelled so that a rewrite that tests the length is decided (seed C11-6)
    'tq_move_assign': r'^std::queue<cocls::function<void \(\), 64ul>.*::operator=\(std::queue<.*&&\)$',   # not used by the unchanged text; modelled so that a rewrite through it is decided
    'tv_ctor': rx(TVT + '::vector()'), 'tv_dtor': rx(TVT + '::~vector()'), 'tv_begin': rx(TVT + '::begin()'), 'tv_end': rx(TVT + '::end()'),
    'tv_swap': r'^void std::swap<std::thread, std::allocator<std::thread> >\(',
    'thr_join': rx('std::thread::join()'), 'thr_detach': rx('std::thread::detach()'), 'thr_get_id': rx('std::thread::get_id() const'),
    'tv_it_deref': r'^__gnu_cxx::__normal_iterator<std::thread\*, .*>::operator\*\(\) const$',
}
BOUNDARY_A = [ABS['qi_move'], ABS['qi_dtor'], ABS['qi_call'], r'^std::queue<cocls::function<void \(\), 64ul>', r'^std::vector<std::thread', ABS['tv_swap'], ABS['thr_get_id'], ABS['tv_it_deref'], r'^std::condition_variable::(wait\(|notify|condition_variable|~condition)']
LIBS_A = ['rt_core.c', 'rt_atomic_seq.c', 'model_mutex.c', 'model_tpool2.c']
HOOKS = ['CV_ON_LOCK(m) { extern void tp_on_lock(void *); tp_on_lock((void *)(m)); }', 'CV_ON_UNLOCK(m) { extern void tp_on_unlock(void *); tp_on_unlock((void *)(m)); }']
F = {   # functions under contract (pool level)
    'tp_enqueue': rx('cocls::thread_pool::enqueue(%s&&)' % QIT), 'tp_worker': rx('cocls::thread_pool::worker()'), 'tp_stop': rx('cocls::thread_pool::stop()'),
    'tp_dtor': rx('cocls::thread_pool::~thread_pool()'), 'tp_is_stopped': rx('cocls::thread_pool::is_stopped() const'), 'tp_any_enqueued': rx('cocls::thread_pool::any_enqueued()'),
    'tp_is_current': rx('cocls::is_current(cocls::thread_pool const&)'), 'cur_is_stopped': rx('cocls::thread_pool::current::is_stopped()'),
    'cur_any_enqueued': rx('cocls::thread_pool::current::any_enqueued()'), 'cur_await_ready': rx('cocls::thread_pool::current::current_awaiter::await_ready()'),
    'tp_ctor': rx('cocls::thread_pool::thread_pool(unsigned int)'),
    'thread_body': r'^cocls::thread_pool::thread_pool\(unsigned int\)::\{lambda\(\)#1\}::operator\(\)\(\) const$',
    'cv_wait_pred': r'^void std::condition_variable::wait<cocls::thread_pool::worker\(\)::\{lambda\(\)#1\}>\(',
}
THR_CTOR = r'^std::thread::thread<cocls::thread_pool::thread_pool\(unsigned int\)::\{lambda\(\)#1\}, , void>\('
def unitA(name, alias, names=None, names_opt=None, boundary=(), defines=(), ptypes=None, **kw):
    nm = {alias: F[alias]}; nm.update(names or {})
    no = dict(ABS); no.update(names_opt or {})
    d = dict(name=name, driver='c11_pool.cpp', roots=[F[alias]], names=nm, names_opt=no, types=TYPES, globals=GLOBALS, ptypes=dict(ptypes or {}), boundary=BOUNDARY_A + list(boundary), lib=LIBS_A,
             spec=['C11/tp_spec.h', 'C11/h_tp.c'], harness='h_' + name, enforce=alias, defines=HOOKS + list(defines), under_contract=[F[alias].strip('^$').replace('\\', '')], timeout=600)
    d.update(kw)
    return d
LOCKCHK_AR = ['C11_LOCKCHECK_AWAIT_READY 1'] if os.environ.get('C11_LOCKCHECK_AWAIT_READY') else []
UNITS = [
    unitA('enqueue', 'tp_enqueue'),
    unitA('is_stopped', 'tp_is_stopped'),
    unitA('any_enqueued', 'tp_any_enqueued'),
    # perms: every plain load/store of thread_pool::_exit carries the obligation "not used after the pool was destroyed" (CV_PERM_TP_EXIT, lib/model_tpool2.c)
    unitA('worker', 'tp_worker', names={'cv_wait_pred': F['cv_wait_pred']}, loop_contracts=True, perms={'cocls::thread_pool._exit': 'CV_PERM_TP_EXIT'},
          replay=dict(src='c11_dtor_under_lock.cpp', mode='dtor_under_lock', flags=['-pthread', '-g'], timeout=60)),
    unitA('dtor', 'tp_dtor', names_opt={'tp_stop_abs': F['tp_stop']}, boundary=[F['tp_stop']],
          replay=dict(src='c11_stop_concurrent.cpp', mode='dtor', flags=['-pthread', '-g'], timeout=60)),
    unitA('is_current', 'tp_is_current'),
    unitA('cur_is_stopped', 'cur_is_stopped'),
    unitA('cur_any_enqueued', 'cur_any_enqueued'),
    unitA('cur_await_ready', 'cur_await_ready', defines=LOCKCHK_AR),
    unitA('ctor', 'tp_ctor', names_opt={'thr_ctor': THR_CTOR, 'tv_push_back': rx(TVT + '::push_back(std::thread&&)'), 'thr_hw': rx('std::thread::hardware_concurrency()')},
          boundary=[THR_CTOR], ptypes={'LAMCTOR': THR_CTOR + '#1'}, loop_contracts=True, defines=['TP_IN_CTOR 1']),
    unitA('thread_body', 'thread_body', names_opt={'tp_worker_abs': F['tp_worker']}, boundary=[F['tp_worker']], ptypes={'LAMCTOR': F['thread_body'] + '#0'}),
    unitA('stop', 'tp_stop', loop_contracts=True, defines=['TP_TRACK_THREADS 1', 'TP_MAXTHR (1ul << 20)', 'TP_ALLOC_THR (in_nthr + 1)'],
          replay=dict(src='c11_join_before_cancel.cpp', mode='join_order', flags=['-pthread', '-g'], timeout=60)),
    # the same function once more with the clause "EVERY stop() returns only when no worker is left running" (open finding C11-OPEN2-...: a stop() that
    # loses the race against another thread's stop() finds an empty list and returns at once); the join-order obligation is decided in unit `stop`
    unitA('stop_concurrent', 'tp_stop', loop_contracts=True, harness='h_stop',
          defines=['TP_TRACK_THREADS 1', 'TP_MAXTHR (1ul << 20)', 'TP_ALLOC_THR (in_nthr + 1)', 'C11_STOP_JOINS_ALL 1', 'TP_NO_JOIN_ORDER_CHECK 1'],
          replay=dict(src='c11_stop_concurrent.cpp', mode='stop', flags=['-pthread', '-g'], timeout=60)),
]
RS_CTOR = r'^cocls::function<void \(\), 64ul>::function_base<cocls::thread_pool::resume<void>\('
RS_SP = rx('void cocls::thread_pool::resume<void>(cocls::suspend_point<void>&)')
RS_CQ = rx('cocls::coro_queue::resume(std::__n4861::coroutine_handle<void>)')
UNITS += [
    dict(name='resume_sp_fwd', driver='c11_pool.cpp', roots=[RS_SP], names={'rs_resume_sp': RS_SP}, names_opt={'rs_closure_ctor': RS_CTOR, 'rs_enqueue': F['tp_enqueue'], 'rs_qi_dtor': ABS['qi_dtor'], 'rs_cq_resume': RS_CQ},
         types={'TP': 'cocls::thread_pool', 'QI': 'cocls::function<void (), 64UL>', 'SP': 'cocls::suspend_point<void>'}, ptypes={'LAMRES': RS_CTOR + '#1'}, globals={},
         boundary=[RS_CTOR, F['tp_enqueue'], ABS['qi_dtor'], RS_CQ], lib=['rt_core.c', 'rt_atomic_seq.c'], spec=['C11/tp_spec.h', 'C11/h_tp.c'], harness='h_resume_sp_fwd', enforce='rs_resume_sp',
         loop_contracts=True, defines=[], under_contract=['void cocls::thread_pool::resume<void>(cocls::suspend_point<void>&)'], timeout=600),
]
EAWT = 'cocls::thread_pool::enqueue_awaiter<cocls::co_awaiter<cocls::future<int> > >'
EA_PR = rx(EAWT + '::perform_resume(cocls::awaiter*, void*)')
EA_RES = rx('void cocls::thread_pool::resume<void>(cocls::suspend_point<void>&&)')
EA_SPD = rx('cocls::suspend_point<void>::~suspend_point()')
UNITS += [
    dict(name='pool_await_fwd', driver='c11_pool.cpp', roots=[EA_PR], names={'ea_perform_resume': EA_PR}, names_opt={'ea_pool_resume': EA_RES, 'ea_sp_dtor': EA_SPD},
         types={'TP': 'cocls::thread_pool', 'SP': 'cocls::suspend_point<void>', 'AWT': 'cocls::awaiter', 'EAW': EAWT}, globals={}, boundary=[EA_RES, EA_SPD],
         lib=['rt_core.c', 'rt_atomic_seq.c'], spec=['C11/tp_spec.h', 'C11/h_tp.c'], harness='h_pool_await_fwd', enforce='ea_perform_resume', defines=[],
         under_contract=[EAWT + '::perform_resume(cocls::awaiter*, void*)'], timeout=300),
]
# ---- co_await pool(awaitable), remaining members of enqueue_awaiter<co_awaiter<future<int>>> and the one-line rvalue forwarders (specs/C11/ea_spec.h):
#      enforced contracts on the real bodies; the wrapped awaiter's members / the lvalue overloads are recording stubs (forwarder style)
CAF = 'cocls::co_awaiter<cocls::future<int> >'
EA = dict(
    ea_ctor=rx(EAWT + '::enqueue_awaiter(%s&&, cocls::thread_pool&)' % CAF), ea_await_ready=rx(EAWT + '::await_ready()'),
    ea_await_suspend=rx(EAWT + '::await_suspend(std::__n4861::coroutine_handle<void>)'), ea_await_resume=rx(EAWT + '::await_resume()'),
    ea_pool_call=r'^cocls::thread_pool::enqueue_awaiter<decltype \(retrieve_awaiter\(.*\)\)> cocls::thread_pool::operator\(\)<cocls::future<int>&>\(cocls::future<int>&\)$',
    caf_ready=rx(CAF + '::await_ready()'), caf_suspend=r'^cocls::co_awaiter<cocls::future<int> >::await_suspend\(cocls::suspend_point<void> \(\*\)\(cocls::awaiter\*, void\*\)( noexcept)?, void\*\)$',
    caf_resume=rx(CAF + '::await_resume()'), ea_perform_resume_fn=EA_PR,
    rv_resume_sp=EA_RES, rv_resume_sp_lv=RS_SP, rv_run_async=rx('cocls::future<int> cocls::thread_pool::run<int>(cocls::async<int>&&)'),
    rv_run_async_lv=rx('cocls::future<int> cocls::thread_pool::run<int>(cocls::async<int>&)'), rv_fut_dtor=rx('cocls::future<int>::~future()'),
)
T_EA = {'TP': 'cocls::thread_pool', 'EAW': EAWT, 'CAF': 'cocls::co_awaiter<cocls::future<int> >', 'FUT': 'cocls::future<int>', 'AWT': 'cocls::awaiter', 'SP': 'cocls::suspend_point<void>', 'ASY': 'cocls::async<int>'}
def unitE(name, alias, abstract=(), extra_names=None, **kw):
    nm = {alias: EA[alias]}; nm.update(extra_names or {})
    d = dict(name=name, driver='c11_pool.cpp', roots=[EA[alias]], names=nm, names_opt={a: EA[a] for a in abstract}, types=T_EA, globals={}, boundary=[EA[a] for a in abstract],
             lib=['rt_core.c', 'rt_atomic_seq.c'], spec=['C11/ea_spec.h'], harness='h_' + name, enforce=alias, defines=[], under_contract=[EA[alias].strip('^$').replace('\\', '')], timeout=300)
    d.update(kw)
    d['boundary'] = d['boundary'] + list(kw.get('cut', []))
    d.pop('cut', None)
    return d
UNITS += [
    unitE('ea_ctor', 'ea_ctor'),
    unitE('ea_pool_call', 'ea_pool_call', under_contract=['cocls::thread_pool::operator()<cocls::future<int>&>(cocls::future<int>&)', CAF + '::co_awaiter(cocls::future<int>&)', EAWT + '::enqueue_awaiter(%s&&, cocls::thread_pool&)' % CAF]),
    unitE('ea_await_ready', 'ea_await_ready', abstract=['caf_ready']),
    # perform_resume is referenced by address only (boundary: prototype); the unit checks that exactly that function is installed as resume callback
    unitE('ea_await_suspend', 'ea_await_suspend', abstract=['caf_suspend', 'ea_perform_resume_fn']),
    unitE('ea_await_resume', 'ea_await_resume', abstract=['caf_resume']),
    unitE('resume_sp_rv_fwd', 'rv_resume_sp', abstract=['rv_resume_sp_lv']),
    # the heavy subsystems are cut off (prototype only) so that a rewrite that no longer forwards is decided by the forwarding clauses instead of timing out
    unitE('run_async_rv_fwd', 'rv_run_async', abstract=['rv_run_async_lv', 'rv_fut_dtor'], cut=[r'^cocls::future<int>::', r'cocls::async<int>::', r'^cocls::suspend_point<', r'^cocls::promise<int>::', r'cocls::thread_pool::resume<']),
]
UNITS += [
    dict(name='lemma_exactly_once', kind='lemma', driver='c11_pool.cpp', roots=[F['tp_is_current']], names={}, types={}, globals={}, boundary=[], lib=['rt_core.c', 'rt_atomic_seq.c'],
         spec=['C11/h_tp.c'], harness='h_lemma_exactly_once', loop_contracts=True, defines=['C11_LEMMA_EXACTLY_ONCE 1'],
         under_contract=['lemma over the tracked-closure clauses of the contracts of enqueue / worker / stop'], timeout=300),
]
# ---- layer B (closure level): real closures + real function<> machinery, plain CBMC harnesses (specs/C11/cl_spec.h, h_cl.c)
CHT = 'std::__n4861::coroutine_handle<void>'
TYPES_B = {'TP': 'cocls::thread_pool', 'QI': 'cocls::function<void (), 64UL>', 'FB': 'cocls::function_base<64UL, false, void>', 'CAW': 'cocls::thread_pool::co_awaiter',
           'SP': 'cocls::suspend_point<void>', 'SPB': 'cocls::suspend_point<bool>', 'PROM': 'cocls::promise<int>', 'FUT': 'cocls::future<int>', 'ASY': 'cocls::async<int>',
           'EPTR': 'std::__exception_ptr::exception_ptr', 'IJOB': 'IntJob', 'JOB': 'Job', 'CH': CHT}
G = {   # functions of the closure level
    'aw_suspend': rx('cocls::thread_pool::co_awaiter::await_suspend(%s)' % CHT), 'aw_resume': rx('cocls::thread_pool::co_awaiter::await_resume()'),
    'aw_ready': rx('cocls::thread_pool::co_awaiter::await_ready()'), 'tp_co_await': rx('cocls::thread_pool::operator co_await()'),
    'cur_co_await': rx('cocls::thread_pool::current::operator co_await()'),
    'fn_move': ABS['qi_move'], 'fn_dtor': ABS['qi_dtor'], 'fn_call': ABS['qi_call'],
    'fn_move_assign': rx('%s::operator=(%s&&)' % (QIT, QIT)), 'fn_bool': rx('cocls::function_base<64ul, false, void>::operator bool() const'), 'fn_default': r'^drv_fn_default$',
    'tp_enqueue': F['tp_enqueue'], 'cq_resume': rx('cocls::coro_queue::resume(%s)' % CHT),
    'tp_run_fn': r'^cocls::future<decltype.*cocls::thread_pool::run<IntJob&>\(IntJob&\)$',
    'pr_dtor': rx('cocls::promise<int>::~promise()'), 'pr_call_int': r'^cocls::suspend_point<bool> cocls::promise<int>::operator\(\)<int>\(int&&\)$',
    'pr_call_exc': r'^cocls::suspend_point<bool> cocls::promise<int>::operator\(\)<std::__exception_ptr::exception_ptr>\(', 'sp_dtor': rx('cocls::suspend_point<void>::~suspend_point()'),
    'tp_resume_sp': rx('void cocls::thread_pool::resume<void>(cocls::suspend_point<void>&)'), 'tp_run_async': rx('cocls::future<int> cocls::thread_pool::run<int>(cocls::async<int>&)'),
    'as_start': rx('cocls::async<int>::start(cocls::promise<int>&)'), 'ch_destroy': rx(CHT + '::destroy() const'), 'drv_rd_tjob': r'^drv_run_detached_tjob$',
}
TI = {'TI_AWAIT_CANCELED': '_ZTIN5cocls24await_canceled_exceptionE', 'TI_BAD_FUNCTION_CALL': '_ZTISt17bad_function_call'}
def unitB(name, fns, abstract=(), types=(), globals_=(), defines=(), extra_names=None, **kw):
    """lemma unit: a plain CBMC harness over the real bodies of `fns` (and everything they call); `abstract` = abstract callees (boundary + stub in cl_spec.h)"""
    names = {f: G[f] for f in fns}; names.update(extra_names or {})
    no = {a: G[a] for a in abstract}; no['bfc_ctor'] = r'^std::bad_function_call::bad_function_call\(\)$'
    d = dict(name=name, kind='lemma', driver='c11_pool.cpp', roots=list(names.values()), names=names, names_opt=no,
             types={k: TYPES_B[k] for k in ('TP', 'QI', 'FB') + tuple(types)}, globals={k: dict(TI, **GLOBALS)[k] for k in globals_}, boundary=[G[a] for a in abstract] + [r'^std::bad_function_call::'],
             lib=['rt_core.c', 'rt_atomic_seq.c'], spec=['C11/cl_spec.h', 'C11/h_cl.c'], harness='h_' + name, defines=list(defines), unwind=8,
             under_contract=[UC.get(f, G[f].strip('^$').replace('\\', '')) for f in fns if f not in ('fn_default',)], timeout=600)
    d.update(kw)
    return d
FNOPS = ['fn_move', 'fn_dtor', 'fn_call']
UC = {'tp_run_fn': 'cocls::thread_pool::run<Fn>(Fn&&) [Fn = IntJob&] and the closure it submits', 'drv_rd_tjob': 'cocls::thread_pool::run_detached<Fn>(Fn&&) [Fn = TJob]',
      'aw_suspend': 'cocls::thread_pool::co_awaiter::await_suspend(std::coroutine_handle<>) with its closure and the cancelling unique_ptr deleter',
      'tp_run_async': 'cocls::thread_pool::run<int>(cocls::async<int>&) with resume<bool>(suspend_point<bool>&) and the closure it submits',
      'tp_resume_sp': 'cocls::thread_pool::resume<void>(cocls::suspend_point<void>&) with the closure it submits',
      'fn_call': 'cocls::function_base<64, false, void>::operator()() const (virtual dispatch into FnInst<Fn>::call)',
      'fn_move': 'cocls::function<void()>::function(function&&) (FnInstSmall<Fn>::move / FnInst<Fn>::move)', 'fn_dtor': 'cocls::function<void()>::~function() (virtual deleting destructors of FnInst / FnInstSmall)'}
UNITS += [
    unitB('co_await', ['aw_suspend', 'aw_resume', 'aw_ready', 'tp_co_await'] + FNOPS, abstract=['tp_enqueue', 'cq_resume'], types=['CAW'], globals_=['TI_AWAIT_CANCELED']),
    unitB('cur_co_await', ['cur_co_await'], types=['CAW'], globals_=['TP_CURRENT']),
    unitB('run_fn', ['tp_run_fn'] + FNOPS, abstract=['tp_enqueue', 'pr_dtor', 'pr_call_int', 'pr_call_exc', 'sp_dtor'], types=['SP', 'SPB', 'PROM', 'FUT', 'EPTR', 'IJOB']),
    unitB('run_detached', ['drv_rd_tjob'] + FNOPS, abstract=['tp_enqueue']),
    unitB('fn_life_small', FNOPS + ['fn_move_assign', 'fn_bool', 'fn_default'], extra_names={'fn_from_t': r'^drv_fn_from_tjob$'}, globals_=['TI_BAD_FUNCTION_CALL'], harness='h_fn_life'),
    unitB('fn_life_big', FNOPS + ['fn_move_assign', 'fn_bool', 'fn_default'], extra_names={'fn_from_t': r'^drv_fn_from_bigjob$'}, globals_=['TI_BAD_FUNCTION_CALL'], harness='h_fn_life', defines=['FN_BIG 1']),
    unitB('resume_sp_stopped', ['tp_resume_sp'] + FNOPS, abstract=['tp_enqueue', 'cq_resume', 'ch_destroy'], types=['SP', 'CH'], harness='h_resume_sp',
          replay=dict(src='c11_stopped_pool.cpp', mode='resume_sp', flags=['-pthread', '-g'], timeout=60),
          bounded='suspend points of 0..4 coroutines (inline representation 0..3, heap representation 4); every accept/reject answer of the pool and every run/destroy fate of each accepted closure'),
    unitB('run_async_stopped', ['tp_run_async'] + FNOPS, abstract=['tp_enqueue', 'cq_resume', 'ch_destroy', 'pr_dtor', 'sp_dtor', 'as_start'], types=['SP', 'SPB', 'PROM', 'FUT', 'ASY', 'CH'], harness='h_run_async',
          replay=dict(src='c11_stopped_pool.cpp', mode='run_async', flags=['-pthread', '-g'], timeout=60)),
]
# ---- Fn = Job& (an lvalue callable: function<> stores a REFERENCE, FnInst<Job&> / FnInstSmall<Job&>): run_detached<Job&> and the type-erasure life cycle
G.update(drv_rd_job=r'^drv_run_detached$', fn_from_job=r'^drv_fn_from_job$')
UC.update(drv_rd_job='cocls::thread_pool::run_detached<Job&>(Job&) with cocls::function<void()>::function_base<Job&>(Job&), init<Job&>, FnInstSmall<Job&> (ctor, move ctor, move(void*,size), placement new / delete, dtor) and FnInst<Job&> (ctor, call, dtor)',
          fn_from_job='cocls::function<void (), 64ul>::function_base<Job&>(Job&) life cycle: FnInstSmall<Job&>::move(void*, unsigned long) into a 64-byte and into a TOO SMALL buffer (-> FnInst<Job&> on the heap), FnInst<Job&>::move, call, deleting destructors')
UNITS += [
    unitB('run_detached_ref', ['drv_rd_job'] + FNOPS, abstract=['tp_enqueue'], types=['JOB'], spec=['C11/cl_spec.h', 'C11/h_cl.c', 'C11/h_ref.c']),
    unitB('fn_life_ref', ['fn_from_job'] + FNOPS + ['fn_bool'], types=['JOB'], spec=['C11/cl_spec.h', 'C11/h_cl.c', 'C11/h_ref.c'],
          extra_names={'fis_move_job': r'^cocls::function_base<64ul, false, void>::FnInstSmall<Job&>::move\(void\*, unsigned long\)$', 'fi_move_job': r'^cocls::function_base<64ul, false, void>::FnInst<Job&>::move\(void\*, unsigned long\)$'},
          ptypes={'FISJ': r'^cocls::function_base<64ul, false, void>::FnInstSmall<Job&>::move\(void\*, unsigned long\)$#0'}),
]
# ---- co_await pool(awaitable) composed at the closure level: REAL enqueue_awaiter::await_suspend -> (the awaitable completes) -> REAL perform_resume -> REAL resume(suspend_point&&) /
#      resume(suspend_point&) -> REAL closure + function<> machinery; the pool's answer and the fate of the accepted closure are inputs (same open finding as resume_sp_stopped)
G.update(ea_suspend=EA['ea_await_suspend'], ea_pr=EA_PR, caf_suspend=EA['caf_suspend'])
UC.update(ea_suspend='co_await pool(awaitable): enqueue_awaiter<co_awaiter<future<int>>>::await_suspend + perform_resume + thread_pool::resume(suspend_point<void>&&) + resume(suspend_point<void>&) with the closure it submits')
TYPES_B.update(EAW=EAWT, CAF='cocls::co_awaiter<cocls::future<int> >', AWT='cocls::awaiter')
UNITS += [
    unitB('pool_await_stopped', ['ea_suspend', 'ea_pr'] + FNOPS, abstract=['caf_suspend', 'tp_enqueue', 'cq_resume', 'ch_destroy'], types=['SP', 'CH', 'EAW', 'CAF', 'AWT'],
          spec=['C11/cl_spec.h', 'C11/h_cl.c', 'C11/h_ea.c'], replay=dict(src='c11_stopped_pool.cpp', mode='pool_call', flags=['-pthread', '-g'], timeout=60)),
]
META = dict(
    level='proof',
    level_text=(
        'Two layers. POOL LEVEL (enforced CBMC contracts + loop contracts on the real translated bodies, thread-modular: at every acquisition of the pool '
        'mutex the other threads have executed any number of complete critical sections of enqueue / worker / stop): thread_pool::enqueue, worker '
        '(service loop incl. the real libstdc++ condition_variable::wait(lk,pred) loop with the real predicate), stop, ~thread_pool, thread_pool(unsigned) '
        'and its thread body, is_stopped, any_enqueued, is_current, current::is_stopped / any_enqueued / current_awaiter::await_ready, '
        'resume(suspend_point<void>&) (forwarding facts, any size, both representations), enqueue_awaiter::perform_resume (co_await pool(awaitable)) and - forwarder contracts of '
        'specs/C11/ea_spec.h with the wrapped awaiter / the lvalue overloads as recording stubs - thread_pool::operator()(future<int>&), enqueue_awaiter\'s constructor, await_ready, '
        'await_suspend, await_resume, resume(suspend_point<void>&&) and run(async<int>&&). '
        'Closures are linear ghost ids; one arbitrary closure and one arbitrary worker-list index are tracked exactly (ghost-index idiom), totals are counted. '
        'Proved: enqueue pushes iff the exit flag is clear at the instant the lock is taken, wakes a worker, and leaves a rejected closure untouched with '
        'its owner; every closure a worker dequeues (under the lock) is invoked exactly once with the lock released and the thread-local current-pool '
        'pointer is tested before the pool is touched again - AFTER THE EXECUTED CLOSURE HAS BEEN DESTROYED: both the body of the job and the destruction of its closure '
        '(destructors of the captures, e.g. the last shared_ptr owner of the pool) run user code on the worker that may stop and destroy the pool, and every later use of '
        'the pool mutex (each lock / unlock, i.e. also lk.lock()), the queue, the worker list, the condition variable and the exit flag (permission instrumentation of every plain '
        'access of thread_pool::_exit in unit worker) carries the obligation "used after the pool was destroyed"; closures are invoked only by a thread marked as worker of this pool; a worker leaves only when it saw the exit flag '
        'under the lock or its own job stopped the pool; stop() sets the flag, notifies all and swaps BOTH containers out inside one critical section, '
        'destroys every swapped-out closure un-run exactly once outside the lock AND BEFORE THE FIRST JOIN (obligation C11-JOIN-ORDER), joins every other worker exactly once and detaches exactly itself '
        '(resetting the current-pool pointer) - for worker lists of 0..2^20 threads; ~thread_pool stops exactly once and finds nothing left; the '
        'constructor starts exactly `threads` (or hardware_concurrency()) workers bound to this pool. Lock discipline (queue / worker list only under the '
        'lock, exit flag written under the lock and never cleared, no closure invoked or destroyed and no join / detach while a mutex is held, no '
        'self-join, no recursive lock, nothing of the pool used after a job destroyed it) is asserted inside the primitives. '
        'CLOSURE LEVEL (exhaustive symbolic execution of the REAL closures, the REAL cocls::function<void()> type-erasure machinery with its virtual '
        'dispatch, std::unique_ptr + cancelling deleter, std::tuple; the pool\'s answer accept / reject and the fate run / destroyed-un-run of an accepted '
        'closure are inputs): co_await pool - closure run => handle cleared first, coroutine resumed exactly once, deleter disarmed; destroyed un-run or '
        'rejected => the deleter resumes the coroutine exactly once with the handle still set and await_resume() throws await_canceled_exception; the '
        'awaiter is freed inside the resumption, so "never touched afterwards" is checked too. run(fn): value / the job\'s exception / broken promise '
        '(destroyed un-run or rejected), exactly one resolution, job run at most once, nothing escapes into the worker. CO_AWAIT POOL(AWAITABLE): operator() binds the awaiter to THIS pool '
        'and THE awaitable, nothing registered yet; await_ready / await_resume return exactly the wrapped awaiter\'s answer, asked once; await_suspend(h) records h FIRST (the callback may run at once '
        'on another thread) and then subscribes the wrapped awaiter exactly once with (perform_resume, this) and returns the subscription\'s answer unchanged - suspended iff subscribed, never both '
        '"continue now" and "callback pending" - leaving exactly the state unit pool_await_fwd requires of perform_resume; composed on the real pieces (unit pool_await_stopped: real await_suspend, '
        'real perform_resume, real resume(suspend_point&&) / resume(suspend_point&), real closure and function<> machinery): the coroutine continues exactly once and only inside the run of the '
        'closure on a worker. resume(suspend_point&&) = one resume(suspend_point&) on the same pool / suspend point, nothing left in the argument; run(async&&) = one run(async&) for THE coroutine '
        'of the argument constructing the caller\'s future in place. run_detached: job run at most '
        'once, job object destroyed exactly once in every outcome. function<>: construct (small in place / large on the heap), move-construct, '
        'move-assign, call, destroy, empty call -> bad_function_call; every target destroyed exactly once, no leak; the same for an LVALUE callable (Fn = Job&: the function object stores a '
        'reference - units run_detached_ref / fn_life_ref): closure moved exactly once into the queue element and again into the worker\'s cell, each source left empty, the caller\'s job run at most once '
        'and left untouched, and the SIZE DECISION of the small-buffer optimisation: FnInstSmall<Fn>::move(buffer, size) is driven with a buffer of exactly sizeof(FnInstSmall) (used in place, every '
        'write inside it - CBMC bounds checks) and with every size below it (the buffer is never written, the target goes to one heap block, FnInst::move then only hands the pointer on). A lemma over the contracts '
        '(unbounded number of submit / serve / stop steps) concludes: never executed twice, never executed and cancelled, nothing left behind once stopped.'),
    level_note=(
        'History on the pinned tree: (1) DEFECT (audit D2), REPAIRED by /repo commit 2c65eee - stop() joined the workers before it destroys (= cancels) the swapped-out closures: a running job that waits for a queued '
        'submission of the same pool is never released, stop() never returns; obligation C11-JOIN-ORDER in the join primitive (unit stop), native replay/c11_join_before_cancel.cpp, '
        'patch specs/C11/fix_join_before_cancel.diff = that commit.  (2) OPEN FINDING (reported as KNOWN-FINDING) (audit D1, marker C11-OPEN2-workers-taken-by-concurrent-stop, units dtor and '
        'stop_concurrent) - stop() hands the whole worker list to the FIRST caller; a second stop() / ~thread_pool arriving while that caller (typically a job on a pool thread) is still '
        'joining finds an empty list and returns while workers run; after the destructor they lock the mutex of the destroyed pool; native replay/c11_stop_concurrent.cpp (modes dtor, stop; '
        'TSan heap-use-after-free with dtor_free).  No small repair: needs a live-worker hand-shake (count under the mutex + wait in stop()/~thread_pool with self-discount rules for pool threads).  '
        'The clause is what discharges the assumption of unit worker "nobody but my own job destroys the pool while I may touch it".  '
        '(3) KNOWN FINDING - resume(suspend_point) and run(async) (and through them co_await pool(awaitable)) wrap raw '
        'coroutine handles in plain closures; units resume_sp_stopped / run_async_stopped / pool_await_stopped fail on the six obligations whose text starts with "C11-FINDING" '
        '(closure rejected by a stopped pool / queued closure destroyed un-run by stop() => coroutine neither resumed nor cancelled; the future of run(async) '
        'stays pending forever); native reproduction replay/c11_stopped_pool.cpp. NEW FINDING - worker() destroys the executed closure after re-locking the '
        'pool mutex (obligation "a closure is destroyed while the pool mutex is held" in unit worker): a destructor of captured user state that touches the '
        'pool self-deadlocks the worker; native reproduction replay/c11_dtor_under_lock.cpp, proposed patch specs/C11/fix_worker_closure_dtor_under_lock.diff '
        '(unit verifies completely with it) - repaired on the pinned tree by /repo commit 06a2bbd (the closure now dies inside its own block, lock released).  Seeded change C11-3 (the `_current == nullptr` test moved '
        'before the destruction of the executed closure) is decided in unit worker by the obligations "the pool mutex is used after the pool was destroyed" (lk.lock() reaches tp_on_lock) '
        'and the loop invariant (current-pool pointer == the pool whenever the worker owns the lock): the destructor primitive of the closure cell lets the DESTRUCTION of the executed job stop / destroy the pool '
        '(reachability sentinels "worker left because the destruction of its executed job destroyed / stopped the pool"). OBSERVATION (property C03): current_awaiter::await_ready reads _exit without the pool mutex (IR: plain '
        '`load i8, i8* %_exit`, no call in the function); the lock-discipline clause is opt-in (C11_LOCKCHECK_AWAIT_READY=1, then fails; patch '
        'specs/C11/fix_await_ready_lock.diff makes it pass). is_stopped() / any_enqueued() read under the lock (proved). '
        'NOT COVERED: LIVENESS - "terminate and join without deadlock for every timing" is not provable in this family; only the safety side is proved '
        '(lock not held at join / detach / closure invocation / closure destruction, lock held at wait, no self-join, non-recursive lock, notify_all issued, '
        'exit flag monotone) - that a joined worker actually returns, that notified workers wake, fairness of the mutex are assumed. Also not covered: '
        'ordering of execution (the queue is an abstract multiset; C11 claims none), resume<bool>(suspend_point<bool>&&) (one-line forwarder; resume<bool>(&) is executed inside run_async_stopped), '
        'the wrapped awaiter co_awaiter<future<int>> itself (properties C01/C02: that a subscribed callback is run exactly once when the future resolves is assumed in unit pool_await_stopped), '
        'jobs that throw out of run_detached (std::terminate by design), '
        'a thread that called the public worker() by hand (it is not in the worker list: stop() / ~thread_pool do not wait for it, it re-locks the mutex of a possibly destroyed pool after its job - seen natively as a hang; its current-pool pointer is never restored), hardware_concurrency() == 0 (constructor then builds a pool '
        'without workers: submissions wait until stop() cancels them). OBSERVATIONS of the new units: (a) co_await pool(awaitable) with an awaitable that is already resolved (await_ready() true, or resolved between '
        'await_ready and the subscription: await_suspend returns false) continues on the CALLING thread - documented in thread_pool.h ("no thread is allocated and execution continues in current thread"), '
        'so "executed on one of the pool\'s worker threads" holds only for the suspended case; reported, not counted as a violation (reachability sentinels name both cases). (b) run_detached(fn) / run(fn) with an LVALUE '
        'callable store a REFERENCE to the caller\'s object in the queued closure (Fn = Job&; std::tuple<Fn> in run): the caller must keep it alive until a worker ran or stop() destroyed the closure - '
        'unlike std::thread / std::async no decay-copy is made (units run_detached_ref / fn_life_ref verify exactly this reference semantics); native: replay/c11_lvalue_job_dangling.cpp (mode ref: a job submitted with id 1 runs with the id assigned after submission, exit 3; mode dangling: ASan heap-use-after-free in FnInst<Job&>::call on the worker); candidate patch specs/C11/fix_function_decay_copy.diff (function<> always stores std::decay_t<Fn>; replay clean and the 15 upstream tests pass with it; NOT applied - it is a change of interface semantics, and the two _ref units would have to be restated for value semantics). Bounded: resume_sp_stopped drives the real closures for suspend points of 0..4 '
        'coroutines (its unbounded counterpart resume_sp_fwd has the closure abstract).'),
    technique=('CBMC 6.11 code contracts + loop contracts enforced via goto-instrument --dfcc on the C translation of the clang IR of thread_pool.h (pool level, '
               'thread-modular with a rely step at every lock acquisition); plain exhaustive symbolic execution of the translated real closures and function.h '
               '(closure level); assumed-contract primitives for std::queue / std::vector<std::thread> / std::thread / condition_variable / pthread mutex; '
               'lemma harness with loop contract over the contracts; native replays on real threads'),
    trusted_base=[
        'assumed contracts on dependencies (lib/model_tpool2.c): std::queue<function<void()>> as an abstract multiset of closure ids with a length (two objects: the pool member and the local of stop()); '
        'std::vector<std::thread> by its representation pointers over a harness-allocated element array; std::thread::join / detach / get_id / constructor, pthread_self, hardware_concurrency; '
        'std::condition_variable wait (releases, lets others act, re-acquires; may wake spuriously) / notify (counted); iterator dereference re-anchored on the element array',
        'closure cell model of cocls::function<void()> at the pool level (move = the id travels, call = obligations + "the job may stop / destroy the pool", destructor = the closure dies + "the destruction of the captures may stop / destroy the pool" alike: current-pool pointer reset, pool dead); the real machinery is verified at the closure level',
        'std::mutex via pthread primitives with lock-discipline obligations and rely / snapshot hooks (lib/model_mutex.c + tp_on_lock / tp_on_unlock in lib/model_tpool2.c)',
        'closure level: thread_pool::enqueue as accept / reject input, coro_queue::resume as recording primitive whose resumed coroutine evaluates await_resume() and frees its awaiter, '
        'promise<int> as one word with recorded outcome (value / exception / dropped), async<int>::start as "claims the promise, hands back the coroutine", observation hooks of the driver\'s callables (drivers/c11_pool.cpp)',
        'forwarder units of specs/C11/ea_spec.h: co_awaiter<future<int>>::await_ready / await_suspend(resume_fn, ctx) / await_resume as recording stubs with arbitrary answers (await_suspend installs the callback on the wrapped awaiter as the real one does); resume(suspend_point<void>&) as "empties the suspend point" (unit resume_sp_fwd); run(async<int>&) as "takes the coroutine out of the async object, builds the future in the return slot"; unit pool_await_stopped: the wrapped awaiter accepts the subscription and its resume chain runs the callback exactly once (C01)',
        'rely of the pool mutex: exit flag only false -> true, and from then on queue and worker list are empty; otherwise arbitrary queue length; the tracked closure may be taken by another worker or submitted by another thread; the stop() of another thread leaves the workers it took in that thread\'s hands (ghost env_unjoined: they may still be running)',
    ],
    assumptions=[
        'rely/guarantee soundness: each function conforms to the rely for every behaviour of the others; that every interleaving of critical sections then satisfies the pool invariant is the standard argument (DESIGN 3.5), not machine-checked',
        'closure ids are unique (cocls::function is move-only: a closure is in exactly one place); ghost counters are mathematical (never wrap)',
        'user jobs do not throw out of a plain closure (run(fn) catches; co_await / resume closures call noexcept paths); a job may stop and destroy the pool it runs on, from its body or from the destructor of its closure; in unit worker nothing else destroys a pool while its workers run - the matching obligation on ~thread_pool (no worker left that can touch the pool) is the OPEN finding C11-OPEN2',
        'the worker list holds joinable threads while the pool runs (established by the constructor unit, preserved because only stop() touches the list)',
        'liveness is out of reach: join() returns, notified waiters wake, the mutex is fair - assumed, not proved',
        'closure-level scenarios: one submission per scenario (resume(suspend_point): up to 4); what the pool does with an accepted closure is exactly one of run / destroy-un-run, exactly once (proved at the pool level by units worker and stop)',
    ],
    explanation='see level_text / level_note')
