/* C11 - closure level: co_await pool(awaitable) composed from the REAL pieces.
 *   await_suspend(h) [real]  ->  the wrapped awaiter is subscribed with (perform_resume, this) [abstract: co_awaiter<future<int>>::await_suspend(fn, ctx), property C01/C02]
 *   ... the awaitable completes: its resume chain calls the registered callback once [C01] ...
 *   perform_resume [real] -> awaiter::resume() [real] -> thread_pool::resume(suspend_point&&) -> resume(suspend_point&) [real] -> closure [h]{ coro_queue::resume(h); } in a REAL
 *   cocls::function<void()> -> thread_pool::enqueue [abstract: accept / reject; fate of an accepted closure: run by a worker / destroyed un-run by stop()].
 * Property: the awaiting coroutine continues exactly once, on a pool thread (= inside the run of the closure), or is cancelled once.  The stopped-pool outcomes are the OPEN finding
 * C11-raw-handle-closures-lost-on-stopped-pool (same marker as units resume_sp_stopped / run_async_stopped). */
#ifdef CV_HAS_ea_suspend
/* a rewrite that no longer reaches the pool / the coroutine queue must fail the clauses below, not the compilation: fall-back ghosts */
#ifndef CV_HAS_cq_resume
cv_i8 *gh_h[5]; int gh_h_resumed[5]; int gh_res_other;
#endif
#ifndef CV_HAS_tp_enqueue
QI gh_slot[4]; int gh_enq_calls, gh_enq_accepted; TP *gh_enq_pool; cv_i1 in_accept[5];
#endif
struct { int calls; CAF *on; void (*fn)(SP *, AWT *, cv_i8 *); cv_i8 *ctx; } gh_sub;
cv_i1 caf_suspend(CAF *a, void (*fn)(SP *, AWT *, cv_i8 *), cv_i8 *ctx) { gh_sub.calls++; gh_sub.on = a; gh_sub.fn = fn; gh_sub.ctx = ctx; return 1; }      /* registered: the result is not there yet */
void h_pool_await_stopped(void) {
  cv_i8 *pool_mem = malloc(1); __CPROVER_assume(pool_mem != 0); TP *pool = (TP *)pool_mem;
  NEWOBJ(EAW, e); e->_pool = pool; e->base_awaiter._next = 0; e->base_awaiter._handle_addr = 0; e->base_awaiter._resume_fn = 0; e->_awt.base_awaiter._next = 0;
  cv_i8 *h = malloc(8); __CPROVER_assume(h != 0); gh_h[0] = h;
  in_accept[0] = nondet_bool(); cv_i1 in_run = nondet_bool();
  cv_i1 r = ea_suspend(e, h);
  CHECK(cv_exc_pending == 0 && r == 1 && gh_sub.calls == 1 && gh_sub.on == &e->_awt && gh_sub.ctx == (cv_i8 *)e && gh_sub.fn != 0, "co_await pool(awaitable): suspended, the wrapped awaiter is subscribed once with this awaiter as context");
  CHECK(gh_enq_calls == 0 && gh_h_resumed[0] == 0, "co_await pool(awaitable): nothing is submitted or resumed before the awaitable completes");
  /* the awaitable completes (on whatever thread): its chain runs the registered callback exactly once */
  NEWOBJ(SP, ret);
  gh_sub.fn(ret, (AWT *)gh_sub.on, gh_sub.ctx);
  CHECK(cv_exc_pending == 0 && (ret->_count_flag >> 1) == 0 && gh_h_resumed[0] == 0, "completion callback: resumes nothing on the completing thread");
  CHECK(gh_enq_calls == 1 && gh_enq_pool == pool, "completion callback: exactly one closure is offered, to the awaiter's pool");
  if (gh_enq_accepted) {
    WORKER_TAKES(loc, 0);
    CHECK(gh_h_resumed[0] == 0, "moving the closure resumes nothing");
    if (in_run) { fn_call((FB *)loc); fn_dtor(loc);
      CHECK(cv_exc_pending == 0 && DONE_ONCE(0) && gh_h_resumed[0] == 1 && gh_res_other == 0, "co_await pool(awaitable): closure run by a worker - the coroutine continues exactly once, on that pool thread");
      SENT("co_await pool(awaitable): continued on a worker"); }
    else { fn_dtor(loc);
      CHECK(DONE_ONCE(0), "C11-FINDING co_await pool(awaitable): queued closure destroyed un-run (stop() swapped the queue out) leaves the coroutine neither resumed nor cancelled");
      SENT("co_await pool(awaitable): queued closure destroyed un-run"); }
  } else {
    CHECK(DONE_ONCE(0), "C11-FINDING co_await pool(awaitable): closure rejected by a stopped pool leaves the coroutine neither resumed nor cancelled");
    SENT("co_await pool(awaitable): rejected by a stopped pool");
  }
}
#endif
