/* C07/C08 - HISTORY LEMMA over the CONTRACTS of cocls::mutex (DESIGN 3.6; vocabulary, abstraction and assumptions: lemma_spec.h).
 *
 *   mx_lemma():  a fresh mutex (constructor replaced by its contract), then an UNBOUNDED loop "any party performs any operation": try-lock (ready), lock request (subscribe), the
 *   deferred detach of an owner that acquired by its own push, release by release() / by ownership destruction (unlock<Fn>, both instantiations).
 *   Every call of ready / subscribe / unlock is REPLACED by its contract (m_spec.h); nothing of mutex.h is executed here.
 *
 * Proved (loop invariant LEMMA_INV + assertions; "LEMMA (k)" refers to the numbering below):
 *   (1) AT MOST ONE OWNER: n_own <= 1 always; a try-lock / a lock request is told "you own it" only when nobody owns; a hand-over replaces the owner.
 *       The cell is non-NULL exactly while somebody owns (never "locked with no owner", never "free with an owner").
 *   (2) ONE PLACE / EXACTLY ONCE: a tagged request is in exactly one of { not made, published chain, private queue, granted }; it is handed to the
 *       resume functor (or told "you own it" by its own subscribe) AT MOST once, never while it is not pending; when a history ends with every
 *       ownership released, every request that was made has been granted EXACTLY once.
 *   (3) FIFO: every hand-over goes to the OLDEST pending request (smallest arrival stamp); for tagged a before b: b is never granted (nor moved to
 *       the private queue) before a.
 *   (4) NO LOST REQUEST / LOCKABLE AGAIN: the mutex is freed only when no request is pending (chain and private queue empty); a release that finds
 *       a request hands over instead (never to nobody); all ownerships released => cell == NULL, nothing pending, and the next lock request
 *       obtains the mutex at once.
 *   (5) the private queue is refilled (build_queue) only when it is empty.
 * SENTINELs: one per outcome of every operation (all must be reachable). */
#ifdef CV_HAS_mx_lemma
void mx_lemma(void)
__CPROVER_requires(cv_exc_pending == 0)
__CPROVER_assigns(gh_M_cell, gh_DOORMAN, PROTM_GHOSTS, gh_bq_calls, gh_bq_stop, gh_bq_cell, gh_bq_nodes, gh_fn_calls, gh_fn_arg, gh_qhead, gh_qnext, gh_fn_next_at_call, gh_q_at_call, gh_mx_this)
__CPROVER_ensures(1)
{
  MX m_obj; MX *m = &m_obj; AWT nodeA, nodeB, nodeO; LAMREL frel; LAMDEL fdel;
  /* ---- the history starts with a fresh mutex: the call of mutex::mutex() is REPLACED by its contract (m_spec.h; the real constructor satisfies it:
   * unit mx_ctor), the initial abstract state is "nobody owns, no request ever made", and what the constructor establishes must be exactly the
   * concrete image of that state (the same expressions MX_MATERIALISE uses for cell and private queue) */
  mx_ctor(m);
  struct mx_abs S = {0, 0, 0, 0, 0, 0, 0};
  struct mx_req a = {R_NOT, 0, 0, 0}, b = {R_NOT, 0, 0, 0};
  __CPROVER_assert(LEMMA_INV, "LEMMA base: a fresh mutex satisfies the invariant of the history loop");
  __CPROVER_assert(*M_CELL(m) == CELL_OF(S) && m->_queue == (S.g < S.q_hi ? NODE_OF(S.g) : (AWT *)0),
                   "LEMMA base: the state the constructor establishes (its contract) is the concrete image of the initial abstract state: unlocked, nothing pending");
  /* continue from an ARBITRARY state satisfying the invariant (what the loop contract does anyway; explicit so that every branch SENTINEL is
   * reachable in every copy of the loop body - see specs/C10/h_lemma.c) */
  { struct mx_abs hS; struct mx_req ha, hb; S = hS; a = ha; b = hb; __CPROVER_assume(LEMMA_INV); }

  while (nondet_bool())
  __CPROVER_assigns(gh_M_cell, gh_DOORMAN, PROTM_GHOSTS, gh_bq_calls, gh_bq_stop, gh_bq_cell, gh_bq_nodes, gh_fn_calls, gh_fn_arg, gh_qhead, gh_qnext, gh_fn_next_at_call, gh_q_at_call, gh_mx_this,
                    S, a, b, m_obj, nodeA, nodeB, nodeO)
  __CPROVER_loop_invariant(LEMMA_INV)
  {
    unsigned op = nondet_unsigned();
    if (op == 0) {                                                       /* ---------------- try_lock(): ready() by a party that does not own */
      MX_VIEW(MX_NOT_MINE, 0, OWN_NONE); MX_MATERIALISE; void *cell0 = *M_CELL(m);
      cv_i1 r = mx_ready(m);
      MX_SEQ_READY(r, cell0);
      if (r) {
        __CPROVER_assert(S.held == 0 && S.n_own == 0, "LEMMA (1) try-lock is granted only when nobody owns the mutex (and the cell was NULL)");
        __CPROVER_assert(gh_mx_tok == MX_ME, "LEMMA try-lock granted: the caller holds the token");
        S.held = 1; S.n_own++;                                           /* protocol event try-lock: NULL -> DOORMAN */
        __CPROVER_assert(0, "SENTINEL reachable: try-lock granted");
      } else {
        __CPROVER_assert(gh_mx_tok != MX_ME, "LEMMA try-lock refused: no token");
        __CPROVER_assert(0, "SENTINEL reachable: try-lock refused");
      }
    } else if (op == 1 && S.arr < MX_STAMP_MAX) {                        /* ---------------- lock request: subscribe(aw) by a party that does not own (stamps never wrap) */
      int tag_a = (a.loc == R_NOT && nondet_bool());                     /* this request becomes the tagged request a ...        */
      int tag_b = (!tag_a && a.loc != R_NOT && b.loc == R_NOT && nondet_bool());   /* ... or b (always made after a)             */
      AWT *aw = tag_a ? &nodeA : tag_b ? &nodeB : &nodeO;
      MX_VIEW(MX_NOT_MINE, aw, OWN_ME); MX_MATERIALISE; void *cell0 = *M_CELL(m);
      cv_i1 r = mx_subscribe(m, aw);
      MX_SEQ_SUBSCRIBE(cell0);
      __CPROVER_assert(gh_push_next == cell0, "LEMMA (4) the new request is linked onto the previous top of the chain: no pending request is cut off");
      struct mx_req t = {R_NOT, 0, 0, 0};
      if (r == 0) {                                                      /* found the mutex free: owner at once, detach pending */
        __CPROVER_assert(S.held == 0 && S.n_own == 0, "LEMMA (1) a lock request is granted at once only when nobody owns the mutex");
        __CPROVER_assert(gh_mx_tok == MX_ME && gh_bq_calls == 1 && gh_bq_stop == (void *)aw, "LEMMA request granted at once: token taken, exactly one detach with the own request as stop");
        S.held = 1; S.n_own++; S.pend_bq = 1; S.own_tag = tag_a ? 1 : tag_b ? 2 : 0;      /* protocol event push onto NULL */
        t.loc = R_GRANTED; t.grants = 1;
        __CPROVER_assert(0, "SENTINEL reachable: lock request granted at once (mutex was free)");
      } else {                                                           /* queued: the request is the holder's from now on */
        __CPROVER_assert(S.held == 1 && S.n_own == 1, "LEMMA a lock request waits only while somebody owns the mutex (it will be handed over)");
        __CPROVER_assert(gh_mx_tok == MX_NOT_MINE && gh_node_own == OWN_HOLDER, "LEMMA queued request: no token, node handed to the holder");
        t.loc = R_CHAIN; t.w = 1; t.stamp = S.arr; S.arr++;              /* protocol event push onto X != NULL; arrival stamp */
        __CPROVER_assert(0, "SENTINEL reachable: lock request queued (mutex was held)");
      }
      if (tag_a) { a = t; __CPROVER_assert(0, "SENTINEL reachable: tagged request a made"); }
      if (tag_b) { b = t;
        __CPROVER_assert(!(t.loc == R_GRANTED) || a.loc == R_GRANTED, "LEMMA (3) a later request is granted at once only when no earlier request is still pending");
        __CPROVER_assert(0, "SENTINEL reachable: tagged request b made"); }
    } else if (op == 2) {                                                /* ---------------- the owner that acquired by its push detaches the chain: build_queue(own request) */
      if (S.pend_bq == 1) {
        __CPROVER_assert(S.g == S.q_hi, "LEMMA (5) the private queue is empty when the new owner builds it");
        S.q_hi = S.arr; S.pend_bq = 0;                                   /* protocol event detach: chain above the stop node -> private queue in arrival order, cell = DOORMAN */
        if (a.loc == R_CHAIN) a.loc = R_QUEUE;
        if (b.loc == R_CHAIN) b.loc = R_QUEUE;
        __CPROVER_assert(0, "SENTINEL reachable: owner-by-push detached the chain");
      }
    } else if (S.n_own == 1 && S.pend_bq == 0) {                         /* ---------------- release: unlock<Fn> by the owner (release() / ~ownership) */
      MX_VIEW(MX_ME, 0, OWN_NONE); MX_MATERIALISE; void *cell0 = *M_CELL(m);
      int q_n0 = S.q_hi - S.g, ch_n0 = S.arr - S.q_hi;
      gh_mx_this = m;
      if (op == 3) mx_unlock_rel(m, &frel); else mx_unlock_del(m, &fdel);
      MX_SEQ_UNLOCK(cell0);
      __CPROVER_assert(gh_mx_tok != MX_ME, "LEMMA (1) after unlock the former owner does not own");
      S.n_own--;
      if (gh_released == 1) {                                            /* protocol event release: DOORMAN -> NULL */
        __CPROVER_assert(gh_fn_calls == 0, "LEMMA freed: nobody is resumed");
        __CPROVER_assert(q_n0 == 0 && ch_n0 == 0, "LEMMA (4) the mutex is freed only when no request is pending (none lost)");
        __CPROVER_assert(m->_queue == 0, "LEMMA (4) freed: the private queue stays empty");
        S.held = 0;
        __CPROVER_assert(0, "SENTINEL reachable: mutex freed");
      } else {                                                           /* hand-over: exactly one call of the resume functor */
        __CPROVER_assert(gh_fn_calls == 1, "LEMMA (4) a release that finds a request hands over (never locked with no owner)");
        __CPROVER_assert(S.g < S.arr, "LEMMA (4) ownership is handed only to a request that is pending (never to nobody)");
        __CPROVER_assert(gh_bq_calls == (q_n0 == 0 ? 1 : 0), "LEMMA (5) the private queue is refilled exactly when it is empty");
        __CPROVER_assert(gh_fn_arg == (void *)NODE_OF(S.g), "LEMMA (3) ownership passes to the OLDEST pending request (first come, first served)");
        if (gh_bq_calls == 1) {                                          /* protocol event detach inside unlock: whole chain -> private queue in arrival order */
          __CPROVER_assert(gh_bq_stop == gh_DOORMAN, "LEMMA rebuild stops at the doorman");
          S.q_hi = S.arr;
          if (a.loc == R_CHAIN) a.loc = R_QUEUE;
          if (b.loc == R_CHAIN) b.loc = R_QUEUE;
          __CPROVER_assert(0, "SENTINEL reachable: hand-over after rebuilding the queue");
        } else {
          __CPROVER_assert(0, "SENTINEL reachable: hand-over to the head of the private queue");
        }
        if (a.loc == R_QUEUE && a.stamp == S.g) {
          __CPROVER_assert(gh_fn_arg == (void *)&nodeA, "LEMMA (2) the request whose turn it is is the one that is resumed (a)");
          a.loc = R_GRANTED; a.grants++;
          __CPROVER_assert(0, "SENTINEL reachable: tagged request a granted by hand-over");
        } else {
          __CPROVER_assert(gh_fn_arg != (void *)&nodeA, "LEMMA (2) a request is resumed only when it is pending and it is its turn: never twice, never before it is made (a)");
        }
        if (b.loc == R_QUEUE && b.stamp == S.g) {
          __CPROVER_assert(gh_fn_arg == (void *)&nodeB, "LEMMA (2) the request whose turn it is is the one that is resumed (b)");
          __CPROVER_assert(a.loc == R_GRANTED, "LEMMA (3) b is granted only after a was granted");
          b.loc = R_GRANTED; b.grants++;
          __CPROVER_assert(0, "SENTINEL reachable: tagged request b granted by hand-over");
        } else {
          __CPROVER_assert(gh_fn_arg != (void *)&nodeB, "LEMMA (2) a request is resumed only when it is pending and it is its turn: never twice, never before it is made (b)");
        }
        S.g++; S.n_own++;                                                /* the resumed request owns the mutex now */
        __CPROVER_assert(m->_queue == (S.g < S.q_hi ? NODE_OF(S.g) : (AWT *)0), "LEMMA (3) the granted request leaves the private queue, the rest keeps its order");
      }
      __CPROVER_assert(S.n_own <= 1, "LEMMA (1) at most one owner");
    }
  }
  /* ---- end of an arbitrary history */
  __CPROVER_assert(S.n_own <= 1 && a.grants <= 1 && b.grants <= 1, "LEMMA (1)(2) at most one owner, every request granted at most once");
  if (S.n_own == 0) {                                                    /* every ownership has been released */
    __CPROVER_assert(CELL_OF(S) == (void *)0 && S.g == S.arr, "LEMMA (4) all ownerships released => cell == NULL and no request pending");
    __CPROVER_assert((a.loc != R_NOT ==> (a.loc == R_GRANTED && a.grants == 1)) && (b.loc != R_NOT ==> (b.loc == R_GRANTED && b.grants == 1)),
                     "LEMMA (2) all ownerships released => every request that was made has been granted exactly once");
    if (S.arr < MX_STAMP_MAX) {
      MX_VIEW(MX_NOT_MINE, &nodeO, OWN_ME); MX_MATERIALISE; void *cell0 = *M_CELL(m);
      cv_i1 r = mx_subscribe(m, &nodeO);
      MX_SEQ_SUBSCRIBE(cell0);
      __CPROVER_assert(r == 0 && gh_mx_tok == MX_ME, "LEMMA (4) a mutex whose every ownership has been released can be locked again (the next request owns it at once)");
      __CPROVER_assert(0, "SENTINEL reachable: all released, locked again");
    }
  } else {
    __CPROVER_assert(CELL_OF(S) != (void *)0, "LEMMA (1) while somebody owns, the cell is not NULL (nobody else can take the mutex)");
    __CPROVER_assert(0, "SENTINEL reachable: history ends while the mutex is owned");
  }
  __CPROVER_assert(0, "SENTINEL reachable: after the history loop");
}
void h_mx_lemma(void) { mx_lemma(); __CPROVER_assert(0, "SENTINEL reachable"); }
#endif

/* ---- refinement link for the protocol-event table of lemma_spec.h: each event of the table is performed through the PRIMITIVES of
 * lib/rt_atomic_protM.c themselves (including their environment step) and the table is asserted on the outcome: which value the RMW saw
 * (gh_seen = the cell at that instant), what the cell holds right after it, who holds the token / the request node, which event counter moved.
 * The history lemma moves its abstract cell by exactly these rows. */
#ifdef CV_MX_PROT_TABLE
void h_mx_prot_table(void) {
  void *cell = nondet_ptr(); AWT door, node; void *link = nondet_ptr();
  gh_M_cell = &cell; gh_DOORMAN = (void *)&door; gh_seen = 0; gh_push_next = 0; gh_detached_chain = 0;
  gh_acquired_by_push = 0; gh_acquired_by_trylock = 0; gh_released = 0; gh_detached = 0; gh_n_cell_rmw = 0;
  unsigned ev = nondet_unsigned();
  if (ev == 0) {                                     /* try-lock by a party that does not own: CAS(NULL -> DOORMAN), strong */
    gh_mx_tok = MX_NOT_MINE; gh_my_node = 0; gh_node_own = OWN_NONE;
    cv_i64 exp = 0; cv_i1 r = cv_cmpxchg_i64((cv_i64 *)&cell, &exp, (cv_i64)gh_DOORMAN, 0, 5, 5);
    if (r) { __CPROVER_assert(gh_seen == 0 && cell == gh_DOORMAN && gh_mx_tok == MX_ME && gh_acquired_by_trylock == 1 && gh_n_cell_rmw == 1 && gh_acquired_by_push + gh_released + gh_detached == 0,
                              "TABLE try-lock: saw NULL, cell = DOORMAN, caller owns");
             __CPROVER_assert(0, "SENTINEL reachable: table try-lock granted"); }
    else   { __CPROVER_assert(exp != 0 && (void *)exp == cell && gh_mx_tok == MX_NOT_MINE && gh_n_cell_rmw == 0, "TABLE try-lock refused: the cell was not NULL and is unchanged, no token");
             __CPROVER_assert(0, "SENTINEL reachable: table try-lock refused"); }
  } else if (ev == 1) {                              /* push of my request: CAS(link -> node) with node._next == link */
    gh_mx_tok = MX_NOT_MINE; gh_my_node = (void *)&node; gh_node_own = OWN_ME; node._next = (AWT *)link;
    cv_i64 exp = (cv_i64)link; cv_i1 r = cv_cmpxchg_i64((cv_i64 *)&cell, &exp, (cv_i64)&node, nondet_bool(), 3, 0);
    if (r) { __CPROVER_assert(gh_seen == link && gh_push_next == link && cell == (void *)&node && gh_n_cell_rmw == 1 && gh_acquired_by_trylock + gh_released + gh_detached == 0,
                              "TABLE push: saw the value the request links to, cell = my request");
             if (link == 0) { __CPROVER_assert(gh_mx_tok == MX_ME && gh_node_own == OWN_ME && gh_acquired_by_push == 1 && node._next == 0, "TABLE push onto NULL: caller owns, request stays its own (bottom NULL)");
                              __CPROVER_assert(0, "SENTINEL reachable: table push onto NULL"); }
             else           { __CPROVER_assert(gh_mx_tok == MX_NOT_MINE && gh_node_own == OWN_HOLDER && gh_acquired_by_push == 0, "TABLE push onto a held mutex: no token, the request is the holder's from that instant");
                              __CPROVER_assert(0, "SENTINEL reachable: table push onto held"); } }
    else   { __CPROVER_assert(gh_mx_tok == MX_NOT_MINE && gh_node_own == OWN_ME && gh_n_cell_rmw == 0 && (void *)exp == cell, "TABLE push failed: nothing happened");
             __CPROVER_assert(0, "SENTINEL reachable: table push retry"); }
  } else if (ev == 2) {                              /* release by the owner: CAS(DOORMAN -> NULL), strong */
    __CPROVER_assume(cell != 0);                     /* PROTM_WF: I own => cell != NULL */
    gh_mx_tok = MX_ME; gh_my_node = 0; gh_node_own = OWN_NONE;
    cv_i64 exp = (cv_i64)gh_DOORMAN; cv_i1 r = cv_cmpxchg_i64((cv_i64 *)&cell, &exp, 0, 0, 3, 0);
    if (r) { __CPROVER_assert(gh_seen == gh_DOORMAN && cell == 0 && gh_mx_tok == MX_RELEASED && gh_released == 1 && gh_n_cell_rmw == 1 && gh_acquired_by_trylock + gh_acquired_by_push + gh_detached == 0,
                              "TABLE release: saw DOORMAN (no request pending), cell = NULL, token given up");
             __CPROVER_assert(0, "SENTINEL reachable: table release"); }
    else   { __CPROVER_assert((void *)exp == cell && cell != gh_DOORMAN && cell != 0 && gh_mx_tok == MX_ME && gh_n_cell_rmw == 0, "TABLE release refused: a request is pending (cell is neither DOORMAN nor NULL), still owner");
             __CPROVER_assert(0, "SENTINEL reachable: table release refused"); }
  } else {                                           /* detach by the owner: exchange(DOORMAN) */
    __CPROVER_assume(cell != 0);
    gh_mx_tok = MX_ME; gh_my_node = 0; gh_node_own = OWN_NONE;
    void *old = (void *)cv_atomic_xchg_i64((cv_i64 *)&cell, (cv_i64)gh_DOORMAN, 2);
    __CPROVER_assert(old == gh_seen && old == gh_detached_chain && old != 0 && cell == gh_DOORMAN && gh_mx_tok == MX_ME && gh_detached == 1 && gh_n_cell_rmw == 1 && gh_acquired_by_trylock + gh_acquired_by_push + gh_released == 0,
                     "TABLE detach: the whole chain is taken, cell = DOORMAN, still owner");
    __CPROVER_assert(0, "SENTINEL reachable: table detach");
  }
}
#endif
