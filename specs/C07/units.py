# C07 - Coroutine mutex: mutual exclusion and exactly-once grant   (C08 shares these units, see specs/C08/units.py)
TYPES = {'MX': 'cocls::mutex', 'AWT': 'cocls::awaiter', 'SP': 'cocls::suspend_point<void>'}
GLOBALS = {'AW_INSTANCE': '_ZN5cocls7awaiter8instanceE'}
LIBS = ['rt_core.c', 'rt_atomic_protM.c']
BQ = r'^cocls::mutex::build_queue\(cocls::awaiter\*\)$'
AWSUB = r'^cocls::awaiter::subscribe\(std::atomic<cocls::awaiter\*>&\)$'
UNL_REL = r'^void cocls::mutex::unlock<cocls::mutex::ownership::release\(\)::\{lambda\(cocls::awaiter\*\)#1\}>\('
UNL_DEL = r'^void cocls::mutex::unlock<cocls::mutex::ownership_deleter::operator\(\)\(cocls::mutex\*\)::\{lambda\(auto:1\)#1\}>\('
LAM_REL = r'^cocls::mutex::ownership::release\(\)::\{lambda\(cocls::awaiter\*\)#1\}::operator\(\)\(cocls::awaiter\*\) const$'
LAM_DEL = r'^auto cocls::mutex::ownership_deleter::operator\(\)\(cocls::mutex\*\)::\{lambda\(auto:1\)#1\}::operator\(\)<cocls::awaiter\*>\(cocls::awaiter\*\) const$'
def unit(name, alias, rx, names=None, names_opt=None, boundary=(), types=None, **kw):
    nm = {alias: rx}; nm.update(names or {})
    d = dict(name=name, driver='c07_mutex.cpp', roots=[rx], names=nm, names_opt=names_opt or {}, types=dict(TYPES, **(types or {})), globals=GLOBALS, boundary=list(boundary), lib=LIBS,
             spec=['C07/m_spec.h', 'C07/h_m.c'], harness='h_' + name, enforce=alias, under_contract=[rx.strip('^$').replace('\\', '')])
    d.update(kw)
    # mutual exclusion is meant in the happens-before sense: the acquire/release obligations of the mutex protocol (try-lock acquire,
    # publishing CAS release, unlock release, chain detach acquire) are part of C07 as well as of C03
    if 'rt_atomic_protM.c' in d['lib']: d['defines'] = list(d.get('defines', [])) + ['CV_CHECK_C03 1']
    return d
MXAW = r'^cocls::co_awaiter<cocls::mutex>::'
AW_RESUME = r'^cocls::awaiter::resume\(\)$'
ATOMIC_WAIT = r'^std::atomic<bool>::wait\(bool, std::memory_order\) const$'
SP_DTOR = r'^cocls::suspend_point<void>::~suspend_point\(\)$'
SP_MERGE = r'^cocls::suspend_point<void>::operator<<\(cocls::suspend_point<void>&&\)$'
UNITS = [
    unit('ready', 'mx_ready', r'^cocls::mutex::ready\(\)$'),
    unit('subscribe', 'mx_subscribe', r'^cocls::mutex::subscribe\(cocls::awaiter\*\)$', names_opt={'aw_subscribe': AWSUB, 'mx_build_queue': BQ}, boundary=[BQ], loop_contracts=True, defines=['CV_HAS_mx_build_queue_stub 1'],
         replay=dict(src='c07_subscribe_schedule.cpp', kind='schedule', flags=['-DNDEBUG', '-DCOCLS_VERIF', '-fno-access-control', '-g'])),
    unit('unlock_rel', 'mx_unlock_rel', UNL_REL, names_opt={'mx_build_queue': BQ, 'mx_unlock_rel_fn': LAM_REL}, boundary=[BQ, LAM_REL], defines=['CV_HAS_mx_build_queue_stub 1'], ptypes={'LAMREL': UNL_REL + '#1'}),
    unit('unlock_del', 'mx_unlock_del', UNL_DEL, names_opt={'mx_build_queue': BQ, 'mx_unlock_del_fn': LAM_DEL}, boundary=[BQ, LAM_DEL], defines=['CV_HAS_mx_build_queue_stub 1'], ptypes={'LAMDEL': UNL_DEL + '#1'},
         roots=[r'^cocls::mutex::ownership_deleter::operator\(\)\(cocls::mutex\*\)$']),
    unit('own_release', 'own_release', r'^cocls::mutex::ownership::release\(\)$', names_opt={'mx_unlock_rel_stub': UNL_REL}, boundary=[UNL_REL], types={'OWNT': 'cocls::mutex::ownership'}, ptypes={'LAMREL': UNL_REL + '#1'}, lib=['rt_core.c', 'rt_atomic_seq.c']),
    unit('own_dtor', 'own_dtor', r'^cocls::mutex::ownership::~ownership\(\)$', names_opt={'mx_unlock_del_stub': UNL_DEL}, boundary=[UNL_DEL], types={'OWNT': 'cocls::mutex::ownership'}, ptypes={'LAMDEL': UNL_DEL + '#1'}, lib=['rt_core.c', 'rt_atomic_seq.c']),
    unit('try_lock', 'mx_try_lock', r'^cocls::mutex::try_lock\(\)$', names_opt={'mx_ready_stub': r'^cocls::mutex::ready\(\)$'}, boundary=[r'^cocls::mutex::ready\(\)$'], types={'OWNT': 'cocls::mutex::ownership'}, lib=['rt_core.c', 'rt_atomic_seq.c']),
    unit('mxaw_ready', 'mxaw_ready', MXAW + r'await_ready\(\)$', names_opt={'g_ready_stub': r'^cocls::mutex::ready\(\)$'}, boundary=[r'^cocls::mutex::ready\(\)$'], types={'MXAW': 'cocls::co_awaiter<cocls::mutex>'}, lib=['rt_core.c', 'rt_atomic_seq.c']),
    unit('mxaw_suspend', 'mxaw_suspend', MXAW + r'await_suspend\(std::__n4861::coroutine_handle<void>\)$', names_opt={'g_subscribe_stub': r'^cocls::mutex::subscribe\(cocls::awaiter\*\)$'}, boundary=[r'^cocls::mutex::subscribe\(cocls::awaiter\*\)$'], types={'MXAW': 'cocls::co_awaiter<cocls::mutex>'}, lib=['rt_core.c', 'rt_atomic_seq.c']),
    unit('mxaw_resume', 'mxaw_resume', MXAW + r'await_resume\(\)$', types={'MXAW': 'cocls::co_awaiter<cocls::mutex>', 'OWNT': 'cocls::mutex::ownership'}, lib=['rt_core.c', 'rt_atomic_seq.c']),
    unit('mxaw_sync', 'mxaw_sync', MXAW + r'sync\(\)$', names_opt={'s_ready_stub': r'^cocls::mutex::ready\(\)$', 's_subscribe_stub': r'^cocls::mutex::subscribe\(cocls::awaiter\*\)$', 's_wait_stub': ATOMIC_WAIT},
         boundary=[r'^cocls::mutex::ready\(\)$', r'^cocls::mutex::subscribe\(cocls::awaiter\*\)$', ATOMIC_WAIT], types={'MXAW': 'cocls::co_awaiter<cocls::mutex>', 'SYNCAW': 'cocls::sync_awaiter'},
         names={'sa_wakeup_fn': r'^cocls::sync_awaiter::wakeup\(cocls::awaiter\*, void\*\)$'}, lib=['rt_core.c', 'rt_atomic_seq.c'], harness='h_mxaw_sync'),
    unit('lam_rel', 'lam_rel', LAM_REL, names_opt={'lr_resume_stub': AW_RESUME, 'lr_sp_dtor_stub': SP_DTOR, 'lr_merge_stub': SP_MERGE}, boundary=[AW_RESUME, SP_DTOR, SP_MERGE], ptypes={'LAMRELC': LAM_REL + '#0'}, lib=['rt_core.c', 'rt_atomic_seq.c'], harness='h_lam_rel'),
    unit('lam_del', 'lam_del', LAM_DEL, names_opt={'lr_resume_stub': AW_RESUME, 'lr_sp_dtor_stub': SP_DTOR}, boundary=[AW_RESUME, SP_DTOR], ptypes={'LAMDELC': LAM_DEL + '#0'}, lib=['rt_core.c', 'rt_atomic_seq.c'], harness='h_lam_del'),
] + [
    dict(name='build_queue_bounded_%s' % t, driver='c07_mutex.cpp', roots=[BQ], names={'mx_build_queue': BQ}, types=TYPES, globals=GLOBALS, boundary=[], lib=['rt_core.c', 'rt_atomic_seq.c'],
         spec=['C07/m_spec_min.h', 'C07/h_bq_bounded.c'], harness='h_bq_bounded', defines=['BQ_N %d' % n], unwind=n + 2, bounded='request chains of 0..%d nodes, every bottom (doorman / NULL / own request as stop)' % n,
         kind='bounded', tiers=[t], object_bits=10, under_contract=['cocls::mutex::build_queue(cocls::awaiter*)'])
    for t, n in (('quick', 5), ('thorough', 8))
]
META = dict(
    level='proof',
    level_text='mutex::ready (try-lock), mutex::subscribe (request push incl. its CAS retry loop), mutex::unlock<Fn> (both instantiations) are verified thread-modularly over protocol M: at every atomic step the environment may do whatever the protocol allows (while I own the mutex others only push requests; otherwise the cell may hold anything), and a request pushed onto a held mutex belongs to the holder from that instant (its link is havocked at once). Contracts from the property: try-lock granted <=> the token was taken and the cell was NULL at that instant; subscribe not-suspended <=> the mutex was free at the instant of the push (then exactly one build_queue with the own request as stop), suspended <=> node handed to the holder and never looked at again; unlock: exactly one of {cell doorman->NULL with nothing pending, hand-over to the head of the private arrival-ordered queue by exactly one call of the functor}, queue refilled only when empty. ownership::release / ~ownership / try_lock are forwarder units (exactly one unlock / none when empty). build_queue (list reversal) is bounded: FIFO arrival order, stop node never dereferenced.',
    level_note='Trusted: protocol-M primitives and their rely (lib/rt_atomic_protM.c), rely/guarantee soundness argument, abstract callees (build_queue inside subscribe/unlock units, the resume functor, unlock inside ownership units), clang front end, ir2c. Bounded: build_queue N=5/8. co_awaiter<mutex> glue is covered by forwarder units (await_ready = one try-lock, await_suspend = node carries the coroutine before exactly one subscribe, await_resume = ownership of the awaited mutex; blocking sync() = try-lock, stack awaiter complete before its registration, blocks on its flag iff the request was queued); the two resume functors handed to unlock (release(): result merged into the returned suspend point; ownership destruction: resumed and run at once) have units of their own. Not covered: liveness (a request is eventually granted), mutex destructor. Genuine defect found and fixed: a0e1620 (see known_findings.json).',
    technique='CBMC code contracts + loop contracts via goto-instrument --dfcc on the C translation of clang IR of mutex.h; atomic instructions replaced by rely/guarantee protocol primitives with ghost token/ownership; bounded unwinding for the list reversal; schedule replay through a guarded sync hook',
    trusted_base=['protocol-M atomic primitives and environment model (lib/rt_atomic_protM.c)', 'abstract callees recorded in ghost state (specs/C07/m_spec.h)'],
    assumptions=['rely/guarantee soundness (argued, DESIGN 3.5)', 'atomic RMWs on one location are totally ordered', 'build_queue: bounded(N) chain length'],
    explanation='see level_text')
