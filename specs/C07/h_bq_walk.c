/* U build_queue - UNBOUNDED list reversal (loop contract, request chain of bq_n < 2^30 nodes, no unwinding) by LAZY MATERIALISATION of the
 * chain with TRACKED nodes (same technique as specs/C02/h_rc_walk.c, "fixed-role slots"):
 *   chain position 0 = NEWEST request (the value of the request cell), bq_n-1 = OLDEST, below it the bottom: the doorman (requests pushed
 *   onto a held mutex), NULL, or the STOP node (the owner's own request that found the mutex free; it is freed before the call, so any
 *   dereference is a use-after-free, and the permission hook demands that only requests of the chain are ever accessed).
 *   Two ADJACENT arbitrary-but-fixed positions are real objects: bq_trk at bq_tpos and bq_trk2 at bq_tpos+1 (the request that arrived
 *   right BEFORE bq_trk); every other request is the summary object bq_anon (weak update).
 *   node(p) = p >= bq_n ? bottom : p == bq_tpos ? bq_trk : p == bq_tpos+1 ? bq_trk2 : bq_anon.
 *   The successor link is never stored ahead of time.  At the start of every iteration the cursor local is RE-ANCHORED on the real object it
 *   denotes (a pointer havocked by the loop contract and only ASSUMED equal to an object by the invariant is dereferenced by CBMC through an
 *   empty value set; the assignment is the identity - asserted) and the cursor node is MATERIALISED: its link is set to node(pos+1) and
 *   the ghost cursor advances.  The invariant `req == node(pos) && _queue == node(pos-1)` checks that each iteration moves exactly one
 *   request - the cursor - to the front of the private queue.  A link overwritten before it was read simply yields the overwritten value.
 *   ir2c emits CV_NEXT(p) before every plain access of awaiter::_next (unit key perms): only requests of the chain may be accessed.
 * ASSUMED (established by the push contracts of subscribe / the protocol-M units): the detached chain is an acyclic list of bq_n distinct
 * nodes above the bottom, nobody else touches detached nodes; precondition _queue == NULL is what both callers establish.
 * From property C08 (FIFO: ownership passes to the longest-waiting requester; no request lost) - the private queue read from its head is the
 * chain in ARRIVAL order.  With the adjacent pair at an arbitrary position this is exact:
 *   (a) the head of the queue is the OLDEST request            (bq_tpos == bq_n-1  ==>  _queue == bq_trk)
 *   (b) the successor of a request is the one that arrived right after it   (bq_tpos+1 < bq_n  ==>  bq_trk2->_next == bq_trk)
 *   (c) the queue ends after the NEWEST request                (bq_tpos == 0  ==>  bq_trk->_next == NULL)
 *   (d) the whole chain was consumed, one request per iteration (pos == bq_n: with (a)-(c) for every position none is lost, none added),
 *   (e) the cell holds the doorman, (f) stop / doorman / bottom never dereferenced, (g) the walk terminates. */
#ifdef CV_HAS_bq_walk
static MX *bq_m; static AWT *bq_trk, *bq_trk2, *bq_anon, *bq_bottom;     /* assigned in the harness (ghost pointers must be assigned, README) */
static unsigned bq_n, bq_tpos;                                            /* constants of one run */
static struct bq_mut { unsigned pos; } bqm;                               /* ghost cursor: number of requests the walk has reached */
#define BQ_NODE(p) ((p) >= bq_n ? bq_bottom : (p) == bq_tpos ? bq_trk : (p) == bq_tpos + 1 ? bq_trk2 : bq_anon)
/* limits of the abstraction are calls of a body-less function: DFCC reports "undefined function should be unreachable" = UNDECIDED, never a violation */
void bq_model_limit_link_of_a_request_ahead_of_the_cursor(void);
#define CV_NEXT(p) do { \
    __CPROVER_assert((p) == bq_trk || (p) == bq_trk2 || (p) == bq_anon, "C08: only requests of the detached chain are accessed (never the stop node, the doorman or what lies below)"); \
    if (((p) == bq_trk && bq_tpos >= bqm.pos) || ((p) == bq_trk2 && bq_tpos + 1 >= bqm.pos)) { bq_model_limit_link_of_a_request_ahead_of_the_cursor(); __CPROVER_assume(0); } } while (0)
/* start of an iteration: re-anchor the cursor, materialise the cursor node, advance the ghost cursor */
static AWT *bq_anchor(AWT *c) {
  __CPROVER_assert(c == BQ_NODE(bqm.pos), "cursor local denotes node(pos) (re-anchoring is the identity)");
  unsigned k = bqm.pos; AWT *cur = BQ_NODE(k);
  if (k < bq_n) {
    if (cur == bq_trk || cur == bq_trk2) __CPROVER_assert(cur->_next == BQ_NODE(k + 1), "C08: the link of a request is intact when the walk reaches it (nobody wrote it ahead of the cursor)");
    else cur->_next = BQ_NODE(k + 1);                                  /* anonymous requests: materialised when reached (summary object) */
    bqm.pos = k + 1;
    if (cur == bq_trk) __CPROVER_assert(0, "SENTINEL reachable: the tracked request is reached inside the loop"); }
  return cur; }
#define CV_LOOP_mx_build_queue_0 \
  __CPROVER_assigns(CV_LOOP_LOCALS_mx_build_queue_0, bq_trk->_next, bq_trk2->_next, __CPROVER_object_whole(bq_anon), __CPROVER_object_whole(&bqm), bq_m->_queue) \
  __CPROVER_loop_invariant(this1 == bq_m && bqm.pos <= bq_n && req == BQ_NODE(bqm.pos)) \
  __CPROVER_loop_invariant(bq_m->_queue == (bqm.pos == 0 ? (AWT *)0 : BQ_NODE(bqm.pos - 1))) \
  __CPROVER_loop_invariant((bq_tpos < bq_n && bqm.pos > bq_tpos) ==> bq_trk->_next == (bq_tpos == 0 ? (AWT *)0 : BQ_NODE(bq_tpos - 1))) \
  __CPROVER_loop_invariant((bq_tpos + 1 < bq_n && bqm.pos > bq_tpos + 1) ==> bq_trk2->_next == bq_trk) \
  __CPROVER_loop_invariant((bq_tpos < bq_n && bqm.pos <= bq_tpos) ==> bq_trk->_next == BQ_NODE(bq_tpos + 1)) \
  __CPROVER_loop_invariant((bq_tpos + 1 < bq_n && bqm.pos <= bq_tpos + 1) ==> bq_trk2->_next == BQ_NODE(bq_tpos + 2)) \
  __CPROVER_decreases(bq_n - bqm.pos) \
  if ((req = bq_anchor(req)), 1)
void h_bq_walk(void) {
  cv_exc_pending = 0;
  bq_m = malloc(sizeof(MX)); bq_trk = malloc(sizeof(AWT)); bq_trk2 = malloc(sizeof(AWT)); bq_anon = malloc(sizeof(AWT)); AWT *stop = malloc(sizeof(AWT));
  __CPROVER_assume(bq_m != 0 && bq_trk != 0 && bq_trk2 != 0 && bq_anon != 0 && stop != 0);
  bq_n = nondet_unsigned(); bq_tpos = nondet_unsigned();
  __CPROVER_assume(bq_n < (1u << 30) && bq_tpos <= (1u << 30));          /* bq_tpos >= bq_n: no tracked request in this chain (covers the empty chain) */
  unsigned bottom = nondet_unsigned() % 3;   /* 0: doorman, 1: NULL, 2: stop node (owner's own request, pushed when the mutex was free) */
  if (bq_n == 0 && bottom == 1) bottom = 0;  /* build_queue is only called on a held mutex: the cell is never NULL */
  bq_bottom = bottom == 0 ? (AWT *)AW_INSTANCE : bottom == 1 ? (AWT *)0 : stop;
  AWT *stoparg = bottom == 2 ? stop : (AWT *)AW_INSTANCE;
  *M_CELL(bq_m) = (void *)BQ_NODE(0);
  bq_m->_queue = 0;
  bqm.pos = 0;
  /* audit F1: the tracked requests' links exist AHEAD of time (statically known) and the invariant carries them while they are not yet reached - a write to the
   * link of a request ahead of the cursor, however it is made (also through a reference), breaks the invariant */
  bq_trk->_next = BQ_NODE(bq_tpos + 1); bq_trk2->_next = BQ_NODE(bq_tpos + 2);
  if (bottom == 2) { stop->_next = 0; free(stop); }                      /* the stop node must not be touched */
  AWT *inst_next0 = ((AWT *)AW_INSTANCE)->_next; void *inst_ha0 = (void *)((AWT *)AW_INSTANCE)->_handle_addr;      /* audit F2: the doorman is never written, by whatever route */
  mx_build_queue(bq_m, stoparg);
  __CPROVER_assert(((AWT *)AW_INSTANCE)->_next == inst_next0 && (void *)((AWT *)AW_INSTANCE)->_handle_addr == inst_ha0, "C08: the doorman (awaiter::instance) is never written by the walk (also not through a reference)");
  __CPROVER_assert(cv_exc_pending == 0 && *M_CELL(bq_m) == (void *)AW_INSTANCE, "request cell holds the doorman after the detach");
  __CPROVER_assert(bqm.pos == bq_n, "C08: the whole detached chain is moved to the private queue, one request per step (none lost, none added)");
  __CPROVER_assert(bq_n == 0 ==> bq_m->_queue == 0, "empty chain: private queue stays empty");
  if (bq_tpos < bq_n) {
    if (bq_tpos == bq_n - 1) { __CPROVER_assert(bq_m->_queue == bq_trk, "C08: head of the private queue is the OLDEST request (first come, first served)");
                               __CPROVER_assert(0, "SENTINEL reachable: tracked request is the oldest"); }
    if (bq_tpos == 0) { __CPROVER_assert(bq_trk->_next == 0, "C08: the private queue ends after the NEWEST request");
                        __CPROVER_assert(0, "SENTINEL reachable: tracked request is the newest"); }
    if (bq_tpos + 1 < bq_n) { __CPROVER_assert(bq_trk2->_next == bq_trk, "C08: the successor of a request in the private queue is the request that arrived right after it (arrival order)");
                              __CPROVER_assert(0, "SENTINEL reachable: adjacent tracked pair inside the chain"); } }
  __CPROVER_assert(0, "SENTINEL reachable");
}
#endif
