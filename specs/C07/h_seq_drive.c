/* Bounded drive of the REAL mutex members, sequential atomics (lib/rt_atomic_seq.c), no abstract callee inside the mutex: two fixed scenarios of the property
 * statement.  S1 "a request that finds the mutex free owns it at once" - then nothing is pending, the acquiring request is never resumed (it was told it owns by the
 * return value), and its release leaves the mutex free ("a mutex whose every ownership has been released can be locked again", never locked with no owner).
 * S2 one queued request: granted exactly once by the owner's release, never before, and the mutex is free after its own release.
 * No alias on private members: decidable under refactorings of build_queue / unlock (seeded change C07-7). */
static int dr_calls; static void *dr_me;
void dr_cb(SP *ret, AWT *me, cv_i8 *ctx) { dr_calls++; dr_me = (void *)me; ret->_count_flag = 0; }
#define CV_ICALL_EXTRA_v_ppp(p, a0, a1, a2) if ((p) == (void *)dr_cb) { dr_cb((SP *)(a0), (AWT *)(a1), (cv_i8 *)(a2)); return; }
#ifdef CV_HAS_sp_suspend_now_stub
void sp_suspend_now_stub(SP *this_) { __CPROVER_assert((this_->_count_flag >> 1) == 0, "model bound: the callback awaiter of this drive yields no coroutine"); }
#endif
void h_seq_drive(void) {
  cv_exc_pending = 0; dr_calls = 0; dr_me = 0;
  MX *m = malloc(sizeof(MX)); __CPROVER_assume(m != 0);
  *M_CELL(m) = 0; m->_queue = 0;                                  /* a fresh mutex (unit mx_ctor) */
  AWT *a = malloc(sizeof(AWT)); __CPROVER_assume(a != 0);
  a->_next = 0; a->_resume_fn = dr_cb; a->_handle_addr = 0;
#ifdef SEQ_S1
  int r = drive_seq_free(m, a);
  __CPROVER_assert(r == 0, "S1: a request that finds the mutex free is told it owns the mutex (not suspended)");
  __CPROVER_assert(dr_calls == 0, "S1: the request that acquired the free mutex is never resumed (neither at once nor by its own release)");
  __CPROVER_assert(*M_CELL(m) == 0 && m->_queue == 0, "S1: after its release the mutex is free and nothing is pending (never locked with no owner)");
#else
  int r = drive_seq_handover(m, a);
  __CPROVER_assert(r == 0, "S2: try-lock on a free mutex succeeds and a request on a held mutex is queued");
  __CPROVER_assert(dr_calls == 1 && dr_me == (void *)a, "S2: the queued request is granted exactly once, by the owner's release");
  __CPROVER_assert(*M_CELL(m) == 0 && m->_queue == 0, "S2: after the last release the mutex is free and nothing is pending");
#endif
  __CPROVER_assert(cv_exc_pending == 0, "no exception");
  __CPROVER_assert(0, "SENTINEL reachable");
}
