/* B build_queue - bounded stand-in (list reversal; DESIGN 3.7).  The owner detaches the LIFO chain of pending requests (0..BQ_N nodes,
 * ending in the doorman, in NULL, or in the stop node = the owner's own request) and appends them to its private queue.
 * Checked: cell == doorman afterwards; the private queue holds exactly the detached requests in ARRIVAL order (reverse of the LIFO chain:
 * first come, first served) and ends in NULL; the stop node is never dereferenced (it is freed before the call); nothing is lost. */
#ifndef BQ_N
#define BQ_N 4
#endif
void h_bq_bounded(void) {
  cv_exc_pending = 0;
  MX *m = malloc(sizeof(MX)); __CPROVER_assume(m != 0);
  AWT *n[BQ_N]; unsigned k = nondet_unsigned(); __CPROVER_assume(k <= BQ_N);
  int bottom = nondet_unsigned() % 3;        /* 0: doorman, 1: NULL, 2: stop node (owner's own request, pushed when the mutex was free) */
  AWT *stop = malloc(sizeof(AWT)); __CPROVER_assume(stop != 0);
  AWT *bot = bottom == 0 ? (AWT *)AW_INSTANCE : bottom == 1 ? (AWT *)0 : stop;
  for (unsigned i = 0; i < BQ_N; i++) if (i < k) { n[i] = malloc(sizeof(AWT)); __CPROVER_assume(n[i] != 0); }
  /* n[0] arrived first ... n[k-1] last: LIFO chain head = n[k-1] */
  for (unsigned i = 0; i < BQ_N; i++) if (i < k) n[i]->_next = (i == 0) ? bot : n[i - 1];
  *M_CELL(m) = k > 0 ? (void *)n[k - 1] : (void *)bot;
  if (*M_CELL(m) == 0) *M_CELL(m) = (void *)AW_INSTANCE;     /* build_queue is only called on a held mutex */
  m->_queue = 0;
  AWT *stoparg = bottom == 2 ? stop : (AWT *)AW_INSTANCE;
  if (bottom == 2) { stop->_next = 0; free(stop); }          /* the stop node must not be touched */
  mx_build_queue(m, stoparg);
  __CPROVER_assert(cv_exc_pending == 0 && *M_CELL(m) == (void *)AW_INSTANCE, "request cell holds the doorman after the detach");
  /* with bottom == doorman the doorman itself is walked too (harmless: awaiter::instance is a real node) unless it is the stop */
  AWT *q = m->_queue; unsigned cnt = 0;
  if (bottom == 0 && stoparg != (AWT *)AW_INSTANCE) { }      /* not reachable: stoparg is the doorman when bottom is the doorman */
  for (unsigned i = 0; i < BQ_N; i++) if (i < k) {
    __CPROVER_assert(q == n[i], "private queue holds the detached requests in arrival order (FIFO)");
    q = q->_next; cnt++; }
  __CPROVER_assert(q == 0, "private queue ends after exactly the detached requests (none lost, none added)");
  __CPROVER_assert(0, "SENTINEL reachable");
}
