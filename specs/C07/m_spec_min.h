#define M_CELL(m) ((void **)&(m)->_requests._M_b._M_p)
