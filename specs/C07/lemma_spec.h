/* C07/C08 - vocabulary of the HISTORY LEMMA over the contracts of cocls::mutex (h_lemma.c; DESIGN 3.6).
 *
 * What is composed: the contracts of mutex::ready, mutex::subscribe, mutex::unlock<Fn> (both instantiations) exactly as written in m_spec.h
 * (every call in h_lemma.c is REPLACED by its contract; the real bodies satisfy them: units ready / subscribe / unlock_rel / unlock_del).
 * Those contracts are thread-modular: they speak about ONE party's view (gh_mx_tok = "my" token, gh_my_node = "my" request) and they let the
 * request cell be havocked (the environment).  To compose them the lemma keeps a SEQUENTIAL ABSTRACTION of the mutex and, around every replaced
 * call, (a) loads the calling party's view into the protocol ghosts (context switch), (b) materialises the concrete state the contract looks at
 * (cell, _queue, the two front nodes) from the abstract state, (c) ASSUMES that the read-modify-write the contract reports (gh_seen, gh_bq_cell)
 * saw exactly the cell value of the abstract state (MX_SEQ_* below: "operations take effect one at a time" - no environment in between),
 * (d) moves the abstract state by the protocol event the contract reports (table below) and ASSERTS the property-level claims.
 *
 * Abstract state (struct mx_abs).  Requests that had to wait get ARRIVAL STAMPS 0,1,2,... in the order of their publishing CAS:
 *        granted by hand-over:  [0, g)        private queue (oldest first):  [g, q_hi)        published chain (newest on top):  [q_hi, arr)
 *   held     cell != NULL                         n_own    number of parties that were told "you own the mutex" and have not unlocked yet
 *   pend_bq  the owner acquired by its own push (cell = its request, bottom NULL) and has not yet detached the chain (build_queue(own request));
 *            other parties' operations may come in between - the window in which the C07 defect lived
 * Protocol events -> abstract cell (transcribed from lib/rt_atomic_protM.c, the trusted protocol table; checked against the primitives themselves
 * by unit lemma_prot_table):   try-lock NULL->DOORMAN | push onto NULL: NULL->my request (I own) | push onto X != NULL: X->my request, linked to X
 *                              (the holder's from that instant) | release DOORMAN->NULL | detach X->DOORMAN (inside build_queue only).
 * build_queue (abstract callee of the contracts; its own unit is the BOUNDED build_queue_bounded_*): requires the private queue empty, moves the
 * whole chain above `stop` into the private queue in ARRIVAL order, leaves DOORMAN in the cell.  That is the only thing taken from a bounded unit.
 *
 * Tagged requests: a (earlier) and b (later) are two arbitrary-but-fixed lock requests (co_await lock() / lock().wait(): subscribe); each has a
 * node object of its own (nodeA / nodeB); all other requests share nodeO (their identity is not tracked).  A fact proved for a, b holds for all. */
#ifdef CV_HAS_mx_lemma
enum { R_NOT = 0, R_CHAIN = 1, R_QUEUE = 2, R_GRANTED = 3 };
struct mx_req { int loc; int w; int stamp; int grants; };     /* w: the request had to wait (it has a stamp) */
struct mx_abs { int held; int n_own; int g; int q_hi; int arr; int pend_bq; int own_tag; };
#define MX_STAMP_MAX 0x3fffffff                                /* ghost stamps are mathematical integers: fewer than 2^30 waiting requests per history */
#define ABS_INV(S) ( ((S).held == 0 || (S).held == 1) && (S).n_own == (S).held &&                      /* (1) at most one owner; held <=> somebody owns  */ \
   0 <= (S).g && (S).g <= (S).q_hi && (S).q_hi <= (S).arr && (S).arr <= MX_STAMP_MAX && \
   ((S).held == 0 ==> ((S).g == (S).arr && (S).pend_bq == 0)) &&                                           /* (4) free => nothing pending            */ \
   ((S).pend_bq == 0 || (S).pend_bq == 1) && ((S).pend_bq == 1 ==> ((S).held == 1 && (S).g == (S).q_hi)) && \
   (S).own_tag >= 0 && (S).own_tag <= 2 )
#define TAG_INV(S, t) ( (t).loc >= R_NOT && (t).loc <= R_GRANTED && ((t).w == 0 || (t).w == 1) && \
   ((t).loc == R_NOT     ==> ((t).grants == 0 && (t).w == 0)) && \
   ((t).loc == R_CHAIN   ==> ((t).grants == 0 && (t).w == 1 && (S).q_hi <= (t).stamp && (t).stamp < (S).arr)) && \
   ((t).loc == R_QUEUE   ==> ((t).grants == 0 && (t).w == 1 && (S).g <= (t).stamp && (t).stamp < (S).q_hi)) && \
   ((t).loc == R_GRANTED ==> ((t).grants == 1 && ((t).w == 1 ==> (0 <= (t).stamp && (t).stamp < (S).g)))) )
#define ORD_INV(a, b) ( ((b).loc != R_NOT ==> (a).loc != R_NOT) &&                                     /* b is made after a                       */ \
   (((a).w == 1 && (b).w == 1) ==> (a).stamp < (b).stamp) && \
   ((b).loc == R_GRANTED ==> (a).loc == R_GRANTED) &&                                                      /* (3) never b before a                    */ \
   ((b).loc == R_QUEUE ==> (a).loc != R_CHAIN) )                                                           /*     nor does b overtake a on the way    */
#define LEMMA_INV (cv_exc_pending == 0 && ABS_INV(S) && TAG_INV(S, a) && TAG_INV(S, b) && ORD_INV(a, b))
/* node of the request with stamp s / of the owner that acquired by push */
#define NODE_OF(s) ((a.w == 1 && a.stamp == (s)) ? &nodeA : (b.w == 1 && b.stamp == (s)) ? &nodeB : &nodeO)
#define TAG_NODE(k) ((k) == 1 ? &nodeA : (k) == 2 ? &nodeB : &nodeO)
/* concrete cell value of an abstract state */
#define CELL_OF(S) ((S).held == 0 ? (void *)0 : (S).q_hi < (S).arr ? (void *)NODE_OF((S).arr - 1) : (S).pend_bq == 1 ? (void *)TAG_NODE((S).own_tag) : (void *)AW_INSTANCE)
/* (a) context switch: the protocol ghosts show the view of the party that makes the next call; per-call event counters start at 0 */
#define MX_VIEW(tok, node, own) do { gh_DOORMAN = (void *)AW_INSTANCE; gh_M_cell = M_CELL(m); gh_mx_tok = (tok); gh_my_node = (void *)(node); gh_node_own = (own); \
   gh_acquired_by_push = 0; gh_acquired_by_trylock = 0; gh_released = 0; gh_detached = 0; gh_bq_calls = 0; gh_fn_calls = 0; } while (0)
/* (b) materialise what the contracts look at: cell, private queue head and its successor, head and successor of the queue a rebuild would yield
 * (= the two OLDEST requests of the chain: arrival order, build_queue_bounded).  Nodes further back are outside every assigns clause (frame). */
#define MX_MATERIALISE do { *M_CELL(m) = CELL_OF(S); \
   m->_queue = S.g < S.q_hi ? NODE_OF(S.g) : (AWT *)0; \
   if (S.g < S.q_hi) m->_queue->_next = S.g + 1 < S.q_hi ? NODE_OF(S.g + 1) : (AWT *)0; \
   gh_bq_nodes = S.q_hi < S.arr ? NODE_OF(S.q_hi) : &nodeO; \
   if (S.g == S.q_hi) gh_bq_nodes->_next = S.q_hi + 1 < S.arr ? NODE_OF(S.q_hi + 1) : (AWT *)0; \
   gh_qhead = (void *)m->_queue; gh_qnext = (void *)(m->_queue != 0 ? m->_queue->_next : gh_bq_nodes->_next); } while (0)
/* (c) sequential abstraction: the RMW reported by the contract saw the cell of the abstract state */
#define MX_SEQ_READY(r, cell0)   __CPROVER_assume((r) == 1 ==> gh_seen == (cell0))
#define MX_SEQ_SUBSCRIBE(cell0)  __CPROVER_assume(gh_seen == (cell0))
#define MX_SEQ_UNLOCK(cell0)     __CPROVER_assume((gh_released == 1 ==> gh_seen == (cell0)) && (gh_bq_calls == 1 ==> gh_bq_cell == (cell0)))
#endif
