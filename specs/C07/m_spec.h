/* C07/C08 (+C03 orders, C20 no allocation) - contracts on cocls::mutex (src/cocls/mutex.h), thread-modular over protocol M
 * (lib/rt_atomic_protM.c). MX = cocls::mutex, AWT = cocls::awaiter. */
#define M_CELL(m) ((void **)&(m)->_requests._M_b._M_p)
#define M_PRE(m) (cv_exc_pending == 0 && gh_DOORMAN == (void *)AW_INSTANCE && gh_M_cell == M_CELL(m) && PROTM_WF && \
                  gh_acquired_by_push == 0 && gh_acquired_by_trylock == 0 && gh_released == 0 && gh_detached == 0 && gh_bq_calls == 0 && gh_fn_calls == 0)
/* abstract callees */
int gh_bq_calls; void *gh_bq_stop; void *gh_bq_head;      /* build_queue(stop): records; in units that need a result it installs gh_bq_head as the new private queue */
int gh_fn_calls; void *gh_fn_arg;                          /* the resume functor passed to unlock */

/* ---- ready(): try-lock, one strong CAS NULL -> doorman; never blocks, succeeds iff the mutex was free at that instant ------------- */
#ifdef CV_HAS_mx_ready
cv_i1 mx_ready(MX *this_)
__CPROVER_requires(M_PRE(this_) && gh_mx_tok == MX_NOT_MINE && gh_my_node == 0 && gh_node_own == OWN_NONE)
__CPROVER_assigns(*gh_M_cell, PROTM_GHOSTS)
__CPROVER_ensures(cv_exc_pending == 0 && __CPROVER_return_value <= 1)
__CPROVER_ensures((__CPROVER_return_value == 1) == (gh_mx_tok == MX_ME))                     /* granted <=> took the token */
__CPROVER_ensures(__CPROVER_return_value == 1 ==> (gh_seen == 0 && gh_acquired_by_trylock == 1 && *gh_M_cell != 0))
__CPROVER_ensures(__CPROVER_return_value == 0 ==> gh_n_cell_rmw == __CPROVER_old(gh_n_cell_rmw))   /* failed try-lock changes nothing */
__CPROVER_ensures(gh_allocs == __CPROVER_old(gh_allocs))
;
#endif

/* ---- subscribe(aw): push the request; not suspended (false) <=> the mutex was free at the instant of the push and is now mine ------- */
#ifdef CV_HAS_mx_subscribe
#ifdef CV_HAS_mx_build_queue_stub
void mx_build_queue(MX *m, AWT *stop) { gh_bq_calls++; gh_bq_stop = stop; __CPROVER_assert(gh_mx_tok == MX_ME, "build_queue called by a thread that does not own the mutex"); }
#endif
#define CV_LOOP_aw_subscribe_0 \
  __CPROVER_assigns(CV_LOOP_LOCALS_aw_subscribe_0, this1->_next, *gh_M_cell, PROTM_GHOSTS) \
  __CPROVER_loop_invariant(cv_exc_pending == 0 && gh_my_node == (void *)this1 && gh_node_own == OWN_ME && gh_mx_tok == MX_NOT_MINE && gh_n_cell_rmw == __CPROVER_loop_entry(gh_n_cell_rmw) && \
                           gh_acquired_by_push == 0 && gh_bq_calls == 0)
/* the push loop written inside mutex::subscribe itself (a local keeps the value the CAS replaced) */
#define CV_LOOP_mx_subscribe_0 \
  __CPROVER_assigns(CV_LOOP_LOCALS_mx_subscribe_0, aw_addr->_next, *gh_M_cell, PROTM_GHOSTS) \
  __CPROVER_loop_invariant(cv_exc_pending == 0 && gh_my_node == (void *)aw_addr && gh_node_own == OWN_ME && gh_mx_tok == MX_NOT_MINE && gh_n_cell_rmw == __CPROVER_loop_entry(gh_n_cell_rmw) && \
                           gh_acquired_by_push == 0 && gh_bq_calls == 0)
cv_i1 mx_subscribe(MX *this_, AWT *aw)
__CPROVER_requires(M_PRE(this_) && gh_mx_tok == MX_NOT_MINE && gh_my_node == (void *)aw && gh_node_own == OWN_ME && aw != 0 && (void *)aw != gh_DOORMAN)
__CPROVER_assigns(*gh_M_cell, __CPROVER_object_whole(aw), PROTM_GHOSTS, gh_bq_calls, gh_bq_stop)
__CPROVER_ensures(cv_exc_pending == 0 && __CPROVER_return_value <= 1 && gh_n_cell_rmw == __CPROVER_old(gh_n_cell_rmw) + 1)
__CPROVER_ensures(gh_push_next == gh_seen)                                                  /* the request links to the value it replaced: no request is cut off */
__CPROVER_ensures((__CPROVER_return_value == 0) == (gh_seen == 0))                          /* not suspended <=> the mutex was free at the instant of the push */
__CPROVER_ensures(__CPROVER_return_value == 0 ==> (gh_mx_tok == MX_ME && gh_node_own == OWN_ME && gh_bq_calls == 1 && gh_bq_stop == (void *)aw))   /* owner: replaces itself by the doorman */
__CPROVER_ensures(__CPROVER_return_value == 1 ==> (gh_mx_tok == MX_NOT_MINE && gh_node_own == OWN_HOLDER && gh_bq_calls == 0))                     /* waiter: exactly one grant will come from the holder */
__CPROVER_ensures(gh_allocs == __CPROVER_old(gh_allocs))
;
#endif

/* ---- unlock<Fn>(fn): the owner either frees the mutex (no request pending at that instant) or hands it to exactly one request - the
 * head of its private arrival-ordered queue - by calling fn once with it.  Never both, never neither, never ownerless with requests. */
#if defined(CV_HAS_mx_unlock_rel) || defined(CV_HAS_mx_unlock_del)
AWT *gh_bq_nodes;   /* the queue build_queue produces (abstract): a non-empty list owned by the caller */
void *gh_bq_cell;   /* value of the request cell at the instant build_queue is entered (what the detaching exchange is about to take) */
#ifdef CV_HAS_mx_build_queue_stub
void mx_build_queue(MX *m, AWT *stop) { gh_bq_calls++; gh_bq_stop = stop; gh_bq_cell = *gh_M_cell;
  __CPROVER_assert(gh_mx_tok == MX_ME, "build_queue called by a thread that does not own the mutex");
  __CPROVER_assert(m->_queue == 0, "build_queue refills the private queue only when it is empty (older batch before newer batch)");
  m->_queue = gh_bq_nodes; }
#endif
#define UNLOCK_CONTRACT(this_) \
__CPROVER_requires(M_PRE(this_) && gh_mx_tok == MX_ME && gh_my_node == 0 && gh_node_own == OWN_NONE && gh_mx_this == this_) \
__CPROVER_requires(gh_bq_nodes != 0 && gh_qhead == (void *)this_->_queue && gh_qnext == (void *)(this_->_queue != 0 ? this_->_queue->_next : gh_bq_nodes->_next)) \
__CPROVER_assigns(*gh_M_cell, __CPROVER_object_whole(this_), PROTM_GHOSTS, gh_bq_calls, gh_bq_stop, gh_bq_cell, gh_fn_calls, gh_fn_arg, gh_bq_nodes->_next, gh_fn_next_at_call, gh_q_at_call) \
__CPROVER_assigns(this_->_queue != 0: this_->_queue->_next) \
__CPROVER_ensures(cv_exc_pending == 0 && gh_mx_tok != MX_ME)                                /* afterwards this thread no longer owns it */ \
__CPROVER_ensures((gh_released == 1) != (gh_fn_calls == 1))                                 /* exactly one of: freed / handed over */ \
__CPROVER_ensures(gh_released <= 1 && gh_fn_calls <= 1) \
__CPROVER_ensures(gh_released >= 0 && gh_fn_calls >= 0)                                        /* they are counters (history lemma: "freed" means nobody was resumed) */ \
__CPROVER_ensures(gh_released == 1 ==> (gh_qhead == 0 && gh_seen == gh_DOORMAN && gh_bq_calls == 0))       /* freed only when no request was pending at that instant */ \
__CPROVER_ensures((gh_fn_calls == 1 && gh_qhead != 0) ==> (gh_fn_arg == gh_qhead && gh_bq_calls == 0))     /* FIFO: the longest-waiting request of the private queue */ \
__CPROVER_ensures((gh_fn_calls == 1 && gh_qhead == 0) ==> (gh_bq_calls == 1 && gh_bq_stop == gh_DOORMAN && gh_fn_arg == (void *)gh_bq_nodes))  /* queue was empty: rebuilt from the pending requests */ \
__CPROVER_ensures(gh_fn_calls == 1 ==> (void *)this_->_queue == gh_qnext)                 /* the granted request leaves the queue: the rest keeps its order */ \
__CPROVER_ensures(gh_fn_calls == 1 ==> gh_fn_next_at_call == 0)                             /* the granted request is unlinked before it is resumed */ \
__CPROVER_ensures(gh_fn_calls == 1 ==> gh_q_at_call == gh_qnext)                            /* ... and the private queue is ALREADY advanced at the hand-over: afterwards it belongs to the new owner */ \
__CPROVER_ensures(gh_released == 1 ==> (void *)this_->_queue == 0)                          /* frame: freeing leaves the (empty) private queue empty - needed to compose (history lemma, h_lemma.c) */ \
__CPROVER_ensures(gh_bq_calls == 1 ==> (gh_bq_cell != 0 && gh_bq_cell != gh_DOORMAN))       /* the queue is rebuilt only after the release attempt failed: a request IS pending at the detach, so the rebuilt queue is non-empty (no hand-over to nobody) */ \
__CPROVER_ensures(gh_allocs == __CPROVER_old(gh_allocs))
void *gh_qhead; void *gh_qnext; void *gh_fn_next_at_call; void *gh_q_at_call; MX *gh_mx_this;
#endif
#ifdef CV_HAS_mx_unlock_rel
void mx_unlock_rel_fn(LAMREL *fn, AWT *awt) { gh_fn_calls++; gh_fn_arg = awt; gh_fn_next_at_call = awt->_next; gh_q_at_call = (void *)gh_mx_this->_queue; __CPROVER_assert(gh_mx_tok == MX_ME, "ownership handed over by a thread that does not own the mutex"); gh_mx_tok = MX_HANDED; }
void mx_unlock_rel(MX *this_, LAMREL *fn) UNLOCK_CONTRACT(this_);
#endif
#ifdef CV_HAS_mx_unlock_del
void mx_unlock_del_fn(LAMDEL *fn, AWT *awt) { gh_fn_calls++; gh_fn_arg = awt; gh_fn_next_at_call = awt->_next; gh_q_at_call = (void *)gh_mx_this->_queue; __CPROVER_assert(gh_mx_tok == MX_ME, "ownership handed over by a thread that does not own the mutex"); gh_mx_tok = MX_HANDED; }
void mx_unlock_del(MX *this_, LAMDEL *fn) UNLOCK_CONTRACT(this_);
#endif

/* ---- ownership wrappers (forwarder units: mutex::ready / mutex::unlock<Fn> are abstract callees that record their invocation) ------- */
#define OWN_PTR(o) (*(MX **)&(o)->_ptr)
#if defined(CV_HAS_own_release) || defined(CV_HAS_own_dtor) || defined(CV_HAS_own_move_assign)
int gh_ul_calls; MX *gh_ul_mx;
#ifdef CV_HAS_mx_unlock_rel_stub
void mx_unlock_rel_stub(MX *m, LAMREL *fn) { gh_ul_calls++; gh_ul_mx = m; }
#endif
#ifdef CV_HAS_mx_unlock_del_stub
void mx_unlock_del_stub(MX *m, LAMDEL *fn) { gh_ul_calls++; gh_ul_mx = m; }
#endif
#endif
/* release(): empties the ownership and unlocks exactly once; a second release (or a moved-from / empty ownership) does nothing */
#ifdef CV_HAS_own_release
void own_release(SP *ret, OWNT *this_)
__CPROVER_requires(cv_exc_pending == 0 && gh_ul_calls == 0 && __CPROVER_is_fresh(ret, sizeof(*ret)) && __CPROVER_is_fresh(this_, sizeof(*this_)))
__CPROVER_assigns(__CPROVER_object_whole(ret), __CPROVER_object_whole(this_), gh_ul_calls, gh_ul_mx)
__CPROVER_ensures(cv_exc_pending == 0 && OWN_PTR(this_) == 0)
__CPROVER_ensures(__CPROVER_old(OWN_PTR(this_)) != 0 ==> (gh_ul_calls == 1 && gh_ul_mx == __CPROVER_old(OWN_PTR(this_))))
__CPROVER_ensures(__CPROVER_old(OWN_PTR(this_)) == 0 ==> (gh_ul_calls == 0 && ret->_count_flag == 0))
__CPROVER_ensures(gh_allocs == __CPROVER_old(gh_allocs))
;
#endif
/* ~ownership(): a still-held ownership is released exactly once by destruction */
#ifdef CV_HAS_own_dtor
void own_dtor(OWNT *this_)
__CPROVER_requires(cv_exc_pending == 0 && gh_ul_calls == 0 && __CPROVER_is_fresh(this_, sizeof(*this_)))
__CPROVER_assigns(__CPROVER_object_whole(this_), gh_ul_calls, gh_ul_mx)
__CPROVER_ensures(cv_exc_pending == 0)
__CPROVER_ensures(__CPROVER_old(OWN_PTR(this_)) != 0 ==> (gh_ul_calls == 1 && gh_ul_mx == __CPROVER_old(OWN_PTR(this_))))
__CPROVER_ensures(__CPROVER_old(OWN_PTR(this_)) == 0 ==> gh_ul_calls == 0)
;
#endif
/* ownership::operator=(ownership&&): a target that still holds a mutex releases it EXACTLY ONCE by the assignment (one unlock, on THAT mutex - otherwise
 * the old mutex stays locked with no owner, or is released twice); afterwards the target owns exactly what the source owned and the source is empty
 * (no second release of the moved grant later); an empty target releases nothing; self-assignment releases nothing and keeps the lock. */
#ifdef CV_HAS_own_move_assign
OWNT *own_move_assign(OWNT *this_, OWNT *other)
__CPROVER_requires(cv_exc_pending == 0 && gh_ul_calls == 0 && this_ != 0 && other != 0 && __CPROVER_rw_ok(this_, sizeof(*this_)) && __CPROVER_rw_ok(other, sizeof(*other)))
__CPROVER_requires(other == this_ || !__CPROVER_same_object(this_, other))
__CPROVER_assigns(__CPROVER_object_whole(this_), __CPROVER_object_whole(other), gh_ul_calls, gh_ul_mx)
__CPROVER_ensures(cv_exc_pending == 0 && __CPROVER_return_value == this_)
__CPROVER_ensures(gh_ul_calls >= 0 && gh_ul_calls <= 1)                                                                     /* never released twice */
__CPROVER_ensures((other != this_ && __CPROVER_old(OWN_PTR(this_)) != 0) ==> (gh_ul_calls == 1 && gh_ul_mx == __CPROVER_old(OWN_PTR(this_))))   /* a held target is released exactly once, that very mutex: never left locked with no owner */
__CPROVER_ensures((other != this_ && __CPROVER_old(OWN_PTR(this_)) == 0) ==> gh_ul_calls == 0)                                /* an empty target releases nothing */
__CPROVER_ensures(other != this_ ==> (OWN_PTR(this_) == __CPROVER_old(OWN_PTR(other)) && OWN_PTR(other) == 0))              /* the grant moves: target owns what the source owned, source is empty */
__CPROVER_ensures(other == this_ ==> (gh_ul_calls == 0 && OWN_PTR(this_) == __CPROVER_old(OWN_PTR(this_))))                 /* self-assignment keeps the lock, releases nothing */
__CPROVER_ensures(gh_allocs == __CPROVER_old(gh_allocs))
;
void h_own_move_assign(void) { OWNT *a = malloc(sizeof(OWNT)); OWNT *b = malloc(sizeof(OWNT)); __CPROVER_assume(a != 0 && b != 0); int self = nondet_bool(); int held = OWN_PTR(a) != 0;
  own_move_assign(a, self ? a : b);   /* sentinels by INPUT shape (not by outcome: a change that stops releasing must be a violation, not a vacuity report) */
  if (self) __CPROVER_assert(0, "SENTINEL reachable: self-assignment"); else if (held) __CPROVER_assert(0, "SENTINEL reachable: target held a mutex"); else __CPROVER_assert(0, "SENTINEL reachable: empty target"); }
#endif
/* try_lock(): never blocks (no loop, one try-lock attempt); the returned ownership is non-empty iff the attempt succeeded */
#ifdef CV_HAS_mx_try_lock
int gh_rdy_calls; cv_i1 gh_rdy_result;
cv_i1 mx_ready_stub(MX *m) { gh_rdy_calls++; return gh_rdy_result; }
int gh_tl_unlock_calls;
#ifdef CV_HAS_tl_unlock_del_stub
void tl_unlock_del_stub(MX *m, void *fn) { gh_tl_unlock_calls++; }
#endif
void mx_try_lock(OWNT *ret, MX *this_)
__CPROVER_requires(cv_exc_pending == 0 && gh_rdy_calls == 0 && gh_tl_unlock_calls == 0 && gh_rdy_result <= 1 && __CPROVER_is_fresh(ret, sizeof(*ret)))
__CPROVER_assigns(__CPROVER_object_whole(ret), gh_rdy_calls, gh_tl_unlock_calls)
__CPROVER_ensures(cv_exc_pending == 0 && gh_rdy_calls == 1)
__CPROVER_ensures(gh_tl_unlock_calls == 0)                                   /* try_lock never releases anything - in particular not a mutex somebody else owns when it fails */
__CPROVER_ensures(OWN_PTR(ret) == (gh_rdy_result ? this_ : (MX *)0))
__CPROVER_ensures(gh_allocs == __CPROVER_old(gh_allocs))
;
#endif

/* ---- co_awaiter<mutex> glue (forwarder units): co_await m.lock() = ready() ? owner : (set_handle(h), subscribe(this)); await_resume = value() */
#if defined(CV_HAS_mxaw_ready) || defined(CV_HAS_mxaw_suspend)
int gh_g_ready_calls, gh_g_sub_calls; MX *gh_g_mx; AWT *gh_g_aw; cv_i1 gh_g_result; void *gh_g_handle_at_sub, *gh_g_fn_at_sub;
#ifdef CV_HAS_g_ready_stub
cv_i1 g_ready_stub(MX *m) { gh_g_ready_calls++; gh_g_mx = m; return gh_g_result; }
#endif
#ifdef CV_HAS_g_subscribe_stub
cv_i1 g_subscribe_stub(MX *m, AWT *a) { gh_g_sub_calls++; gh_g_mx = m; gh_g_aw = a; gh_g_handle_at_sub = a->_handle_addr; gh_g_fn_at_sub = (void *)a->_resume_fn; return gh_g_result; }
#endif
#endif
#ifdef CV_HAS_mxaw_ready
cv_i1 mxaw_ready(MXAW *this_)
__CPROVER_requires(cv_exc_pending == 0 && gh_g_ready_calls == 0 && gh_g_result <= 1 && __CPROVER_is_fresh(this_, sizeof(*this_)))
__CPROVER_assigns(gh_g_ready_calls, gh_g_mx)
__CPROVER_ensures(cv_exc_pending == 0 && gh_g_ready_calls == 1 && gh_g_mx == this_->_owner && __CPROVER_return_value == gh_g_result)   /* exactly one try-lock on the awaited mutex */
;
#endif
#ifdef CV_HAS_mxaw_suspend
cv_i1 mxaw_suspend(MXAW *this_, cv_i8 *h)
__CPROVER_requires(cv_exc_pending == 0 && gh_g_sub_calls == 0 && gh_g_result <= 1 && __CPROVER_is_fresh(this_, sizeof(*this_)) && h != 0)
__CPROVER_assigns(__CPROVER_object_whole(this_), gh_g_sub_calls, gh_g_mx, gh_g_aw, gh_g_handle_at_sub, gh_g_fn_at_sub)
__CPROVER_ensures(cv_exc_pending == 0 && gh_g_sub_calls == 1 && gh_g_mx == this_->_owner && gh_g_aw == (AWT *)&this_->base_awaiter && __CPROVER_return_value == gh_g_result)
__CPROVER_ensures(gh_g_handle_at_sub == (void *)h && gh_g_fn_at_sub == 0)          /* the request node carries the awaiting coroutine BEFORE it is published */
__CPROVER_ensures(gh_allocs == __CPROVER_old(gh_allocs))
;
#endif
#ifdef CV_HAS_mxaw_resume
void mxaw_resume(OWNT *ret, MXAW *this_)
__CPROVER_requires(cv_exc_pending == 0 && __CPROVER_is_fresh(this_, sizeof(*this_)) && __CPROVER_is_fresh(ret, sizeof(*ret)))
__CPROVER_assigns(__CPROVER_object_whole(ret))
__CPROVER_ensures(cv_exc_pending == 0 && OWN_PTR(ret) == this_->_owner && gh_allocs == __CPROVER_old(gh_allocs))    /* the resumed waiter owns exactly the awaited mutex */
;
#endif

/* ---- the two resume functors handed to unlock<Fn> (their bodies; unlock's own units treat them as abstract callees that must be called
 * exactly once with the head of the private queue): "each waiting coroutine is resumed exactly once" ends here -
 * release(): the new owner's resumption result is merged into the suspend point that release() returns (nothing runs inside);
 * ownership destruction: the new owner is resumed and the returned suspend point is run (destroyed) at once. */
#if defined(CV_HAS_lam_rel) || defined(CV_HAS_lam_del)
int gh_lr_res_calls, gh_lr_spd_calls; AWT *gh_lr_res_arg; cv_i32 gh_lr_cf; cv_i8 *gh_lr_h; cv_i32 gh_lr_spd_cf; cv_i8 *gh_lr_spd_h;
#ifdef CV_HAS_lr_resume_stub
void lr_resume_stub(SP *out, AWT *a) { gh_lr_res_calls++; gh_lr_res_arg = a; out->_count_flag = gh_lr_cf; out->f0.f0._handles[0] = gh_lr_h; }
#endif
#ifdef CV_HAS_lr_sp_dtor_stub
void lr_sp_dtor_stub(SP *p) { gh_lr_spd_calls++; gh_lr_spd_cf = p->_count_flag; gh_lr_spd_h = p->f0.f0._handles[0]; }
#endif
#endif
#ifdef CV_HAS_lam_rel
#define LR_RET(c) (*(SP **)(c))            /* the closure holds one reference: &ret */
/* suspend_point::operator<<(suspend_point&&) is an abstract callee here (its behaviour - position-wise append, source emptied - is C06's) */
int gh_mg_calls; SP *gh_mg_this; cv_i32 gh_mg_cf; cv_i8 *gh_mg_h;
#ifdef CV_HAS_lr_merge_stub
SP *lr_merge_stub(SP *this_, SP *other) { gh_mg_calls++; gh_mg_this = this_; gh_mg_cf = other->_count_flag; gh_mg_h = other->f0.f0._handles[0]; other->_count_flag = 0; return this_; }
#endif
void lam_rel(LAMRELC *this_, AWT *awt)
__CPROVER_requires(cv_exc_pending == 0 && gh_lr_res_calls == 0 && gh_lr_spd_calls == 0 && gh_mg_calls == 0 && (gh_lr_cf == 0 || gh_lr_cf == 2) && (gh_lr_cf == 2 ==> gh_lr_h != 0))
__CPROVER_requires(__CPROVER_is_fresh(this_, sizeof(*this_)) && __CPROVER_is_fresh(LR_RET(this_), sizeof(SP)) && __CPROVER_is_fresh(awt, sizeof(*awt)))
__CPROVER_assigns(gh_lr_res_calls, gh_lr_res_arg, gh_lr_spd_calls, gh_lr_spd_cf, gh_lr_spd_h, gh_mg_calls, gh_mg_this, gh_mg_cf, gh_mg_h)
__CPROVER_ensures(cv_exc_pending == 0 && gh_lr_res_calls == 1 && gh_lr_res_arg == awt)                                   /* the granted request is resumed exactly once ... */
__CPROVER_ensures(gh_mg_calls == 1 && gh_mg_this == LR_RET(this_) && gh_mg_cf == gh_lr_cf && (gh_lr_cf == 2 ==> gh_mg_h == gh_lr_h))   /* ... and exactly what that returned is merged, once, into release()'s result: nothing runs here */
__CPROVER_ensures(gh_lr_spd_calls <= 1 && (gh_lr_spd_calls == 1 ==> gh_lr_spd_cf == 0))                                  /* the emptied temporary resumes nothing */
__CPROVER_ensures(gh_allocs == __CPROVER_old(gh_allocs))
;
void h_lam_rel(void) { LAMRELC *c; AWT *a; lam_rel(c, a); __CPROVER_assert(0, "SENTINEL reachable"); }
#endif
#ifdef CV_HAS_lam_del
void lam_del(LAMDELC *this_, AWT *awt)
__CPROVER_requires(cv_exc_pending == 0 && gh_lr_res_calls == 0 && gh_lr_spd_calls == 0 && (gh_lr_cf == 0 || gh_lr_cf == 2) && (gh_lr_cf == 2 ==> gh_lr_h != 0))
__CPROVER_requires(__CPROVER_is_fresh(awt, sizeof(*awt)))
__CPROVER_assigns(gh_lr_res_calls, gh_lr_res_arg, gh_lr_spd_calls, gh_lr_spd_cf, gh_lr_spd_h)
__CPROVER_ensures(cv_exc_pending == 0 && gh_lr_res_calls == 1 && gh_lr_res_arg == awt)                                   /* the granted request is resumed exactly once ... */
__CPROVER_ensures(gh_lr_spd_calls == 1 && gh_lr_spd_cf == gh_lr_cf && (gh_lr_cf == 2 ==> gh_lr_spd_h == gh_lr_h))        /* ... and what it returned is run (destroyed) exactly once, untouched */
__CPROVER_ensures(gh_allocs == __CPROVER_old(gh_allocs))
;
void h_lam_del(void) { LAMDELC *c; AWT *a; lam_del(c, a); __CPROVER_assert(0, "SENTINEL reachable"); }
#endif

/* ---- blocking lock: co_awaiter<mutex>::sync() (used by lock().wait() and ownership(co_awaiter&&)): one try-lock; only when it fails a stack
 * awaiter whose resume function is sync_awaiter::wakeup is registered - complete BEFORE it is published - and the thread blocks on that
 * awaiter's flag iff the registration says "wait" (subscribe returned true); if subscribe reports that the mutex was obtained, nobody waits. */
#ifdef CV_HAS_mxaw_sync
int gh_s_ready_calls, gh_s_sub_calls, gh_s_wait_calls; MX *gh_s_mx; AWT *gh_s_aw; void *gh_s_fn_at_sub, *gh_s_flag; cv_i1 gh_s_ready_res, gh_s_sub_res; cv_i8 gh_s_wait_old; cv_i32 gh_s_wait_ord;
#ifdef CV_HAS_s_ready_stub
cv_i1 s_ready_stub(MX *m) { gh_s_ready_calls++; gh_s_mx = m; return gh_s_ready_res; }
#endif
#ifdef CV_HAS_s_subscribe_stub
cv_i1 s_subscribe_stub(MX *m, AWT *a) { gh_s_sub_calls++; __CPROVER_assert(m == gh_s_mx, "request registered on the mutex that was tried"); gh_s_aw = a; gh_s_fn_at_sub = (void *)a->_resume_fn; return gh_s_sub_res; }
#endif
#ifdef CV_HAS_s_wait_stub
void s_wait_stub(void *flag, cv_i8 old, cv_i32 order) { gh_s_wait_calls++; gh_s_wait_old = old; gh_s_wait_ord = order;
  __CPROVER_assert(gh_s_sub_calls == 1 && old == 0 && __CPROVER_same_object(flag, gh_s_aw) && __CPROVER_POINTER_OFFSET(flag) >= __CPROVER_POINTER_OFFSET(gh_s_aw) && __CPROVER_POINTER_OFFSET(flag) < __CPROVER_POINTER_OFFSET(gh_s_aw) + sizeof(SYNCAW),
                   "the thread blocks on the flag of the very awaiter it registered, until that flag is set"); }
#endif
void mxaw_sync(MXAW *this_)
__CPROVER_requires(cv_exc_pending == 0 && gh_s_ready_calls == 0 && gh_s_sub_calls == 0 && gh_s_wait_calls == 0 && gh_s_ready_res <= 1 && gh_s_sub_res <= 1 && __CPROVER_is_fresh(this_, sizeof(*this_)))
__CPROVER_assigns(gh_s_ready_calls, gh_s_sub_calls, gh_s_wait_calls, gh_s_mx, gh_s_aw, gh_s_fn_at_sub, gh_s_flag, gh_s_wait_old, gh_s_wait_ord)
__CPROVER_ensures(cv_exc_pending == 0 && gh_s_ready_calls == 1 && gh_s_mx == this_->_owner)                       /* exactly one try-lock on the awaited mutex */
__CPROVER_ensures(gh_s_sub_calls == (gh_s_ready_res ? 0 : 1))                                                       /* a request only when the try-lock failed */
__CPROVER_ensures(gh_s_sub_calls == 1 ==> gh_s_fn_at_sub == (void *)sa_wakeup_fn)                                   /* the stack awaiter wakes THIS thread; complete before publication */
__CPROVER_ensures(gh_s_wait_calls == ((gh_s_sub_calls == 1 && gh_s_sub_res) ? 1 : 0))                               /* blocks iff the request was queued ... */
__CPROVER_ensures(gh_allocs == __CPROVER_old(gh_allocs))
;
void h_mxaw_sync(void) { MXAW *a; mxaw_sync(a); __CPROVER_assert(0, "SENTINEL reachable"); }
#endif

/* ---- remaining glue of the blocking style: lock() hands out an awaiter of THIS mutex; wait() = sync() then the ownership of the awaited
 * mutex; ownership(co_awaiter&&) = wait(); moving an ownership empties the source (one owner object at a time) */
#ifdef CV_HAS_mx_lock
void mx_lock(MXAW *ret, MX *this_)
__CPROVER_requires(cv_exc_pending == 0 && __CPROVER_is_fresh(ret, sizeof(*ret)))
__CPROVER_assigns(__CPROVER_object_whole(ret))
__CPROVER_ensures(cv_exc_pending == 0 && ret->_owner == this_ && gh_allocs == __CPROVER_old(gh_allocs))
;
void h_mx_lock(void) { MXAW *r; MX *m; mx_lock(r, m); __CPROVER_assert(0, "SENTINEL reachable"); }
#endif
#ifdef CV_HAS_mxaw_wait
int gh_w_sync_calls; void *gh_w_sync_this;
#ifdef CV_HAS_w_sync_stub
void w_sync_stub(MXAW *a) { gh_w_sync_calls++; gh_w_sync_this = a; }
#endif
void mxaw_wait(OWNT *ret, MXAW *this_)
__CPROVER_requires(cv_exc_pending == 0 && gh_w_sync_calls == 0 && __CPROVER_is_fresh(ret, sizeof(*ret)) && __CPROVER_is_fresh(this_, sizeof(*this_)))
__CPROVER_assigns(__CPROVER_object_whole(ret), gh_w_sync_calls, gh_w_sync_this)
__CPROVER_ensures(cv_exc_pending == 0 && gh_w_sync_calls == 1 && gh_w_sync_this == (void *)this_)       /* blocks (sync) exactly once, on this awaiter ... */
__CPROVER_ensures(OWN_PTR(ret) == this_->_owner && gh_allocs == __CPROVER_old(gh_allocs))                /* ... and then owns exactly the awaited mutex */
;
void h_mxaw_wait(void) { OWNT *r; MXAW *a; mxaw_wait(r, a); __CPROVER_assert(0, "SENTINEL reachable"); }
#endif
#ifdef CV_HAS_own_move
void own_move(OWNT *this_, OWNT *other)
__CPROVER_requires(cv_exc_pending == 0 && __CPROVER_is_fresh(this_, sizeof(*this_)) && __CPROVER_is_fresh(other, sizeof(*other)))
__CPROVER_assigns(__CPROVER_object_whole(this_), __CPROVER_object_whole(other))
__CPROVER_ensures(cv_exc_pending == 0 && OWN_PTR(this_) == __CPROVER_old(OWN_PTR(other)) && OWN_PTR(other) == 0)      /* the ownership moves: never two owner objects for one grant */
;
void h_own_move(void) { OWNT *a, *b; own_move(a, b); __CPROVER_assert(0, "SENTINEL reachable"); }
#endif
#ifdef CV_HAS_own_bool
cv_i1 own_bool(OWNT *this_)
__CPROVER_requires(cv_exc_pending == 0 && __CPROVER_is_fresh(this_, sizeof(*this_)))
__CPROVER_assigns()
__CPROVER_ensures(__CPROVER_return_value == (OWN_PTR(this_) != 0 ? 1 : 0))
;
void h_own_bool(void) { OWNT *a; own_bool(a); __CPROVER_assert(0, "SENTINEL reachable"); }
#endif

/* ---- construction / destruction of the mutex object itself.
 * mutex::mutex(): a fresh mutex is UNLOCKED with NOTHING PENDING: request cell NULL and owner-private queue NULL.  MX_FRESH is the concrete
 * image of the initial abstract state {held = 0, g = q_hi = arr = 0} of the history lemma (lemma_spec.h: CELL_OF(S0) = NULL, private queue empty):
 * the induction base of lemma_history is this contract (h_lemma.c starts its history by a REPLACED call of the constructor).
 * mutex::~mutex(): destruction grants nothing, resumes nobody and releases nothing: it neither writes the object (cell / private queue: a request
 * or an owner that wrongly still exists is not silently turned into "free") nor anything else (empty assigns clause = no atomic step, no call of
 * unlock / a resume functor, which all write ghost or object state).  With NDEBUG the two assert()s of the real destructor are compiled out. */
#define MX_FRESH(m) (*M_CELL(m) == (void *)0 && (m)->_queue == (AWT *)0)
#ifdef CV_HAS_mx_ctor
void mx_ctor(MX *this_)
__CPROVER_requires(cv_exc_pending == 0 && this_ != 0 && __CPROVER_rw_ok(this_, sizeof(*this_)))
__CPROVER_assigns(__CPROVER_object_whole(this_))
__CPROVER_ensures(cv_exc_pending == 0)
__CPROVER_ensures(*M_CELL(this_) == (void *)0)                      /* unlocked: the next try-lock / lock request obtains it at once (cell NULL <=> nobody owns) */
__CPROVER_ensures(this_->_queue == (AWT *)0)                        /* no request waiting in the owner-private queue */
__CPROVER_ensures(gh_allocs == __CPROVER_old(gh_allocs))
;
#ifndef CV_HAS_mx_lemma   /* (the lemma unit only uses the contract) */
void h_mx_ctor(void) { MX *m = malloc(sizeof(MX)); __CPROVER_assume(m != 0); mx_ctor(m); __CPROVER_assert(MX_FRESH(m), "fresh mutex = initial abstract state of the history lemma (cell NULL, private queue empty)"); __CPROVER_assert(0, "SENTINEL reachable"); }
#endif
#endif
#ifdef CV_HAS_mx_dtor
void mx_dtor(MX *this_)
__CPROVER_requires(cv_exc_pending == 0 && this_ != 0 && __CPROVER_rw_ok(this_, sizeof(*this_)))
__CPROVER_assigns()
__CPROVER_ensures(cv_exc_pending == 0 && gh_allocs == __CPROVER_old(gh_allocs) && gh_frees == __CPROVER_old(gh_frees))
;
void h_mx_dtor(void) { MX *m = malloc(sizeof(MX)); __CPROVER_assume(m != 0); void *c0 = *M_CELL(m); AWT *q0 = m->_queue; mx_dtor(m);
  __CPROVER_assert(*M_CELL(m) == c0 && m->_queue == q0, "destruction leaves request cell and private queue alone (grants nothing, frees nothing)"); __CPROVER_assert(0, "SENTINEL reachable"); }
#endif

/* ---- ownership(co_awaiter<mutex>&&)  (`mutex::ownership o = m.lock();` outside a coroutine): obtains the lock by exactly ONE blocking wait()
 * on the awaiter it was given (wait() is an abstract callee here: unit mxaw_wait - one sync(), then the ownership of the awaited mutex) and then
 * owns exactly the mutex the request was made on; the grant is not released on the way (the temporary that carried it is empty when it dies:
 * no unlock - otherwise the new ownership would be of a mutex that is already free / somebody else's), nothing allocated. */
#ifdef CV_HAS_own_from_awaiter
int gh_oa_wait_calls; MXAW *gh_oa_wait_this; int gh_oa_unlock_calls;
#ifdef CV_HAS_oa_wait_stub
void oa_wait_stub(OWNT *ret, MXAW *a) { gh_oa_wait_calls++; gh_oa_wait_this = a; OWN_PTR(ret) = a->_owner; }       /* contract of wait(): ownership of the awaited mutex */
#endif
#ifdef CV_HAS_oa_unlock_del_stub
void oa_unlock_del_stub(MX *m, void *fn) { gh_oa_unlock_calls++; }
#endif
void own_from_awaiter(OWNT *this_, MXAW *awt)
__CPROVER_requires(cv_exc_pending == 0 && gh_oa_wait_calls == 0 && gh_oa_unlock_calls == 0 && __CPROVER_is_fresh(this_, sizeof(*this_)) && __CPROVER_is_fresh(awt, sizeof(*awt)))
__CPROVER_assigns(__CPROVER_object_whole(this_), gh_oa_wait_calls, gh_oa_wait_this, gh_oa_unlock_calls)
__CPROVER_ensures(cv_exc_pending == 0 && gh_oa_wait_calls == 1 && gh_oa_wait_this == awt)          /* the lock is waited for / obtained exactly once, on the awaiter given */
__CPROVER_ensures(OWN_PTR(this_) == awt->_owner)                                                     /* ... and the new object owns exactly the mutex the request was made on */
__CPROVER_ensures(awt->_owner == __CPROVER_old(awt->_owner))
__CPROVER_ensures(gh_oa_unlock_calls == 0)                                                           /* the grant is not given back on the way */
__CPROVER_ensures(gh_allocs == __CPROVER_old(gh_allocs))
;
void h_own_from_awaiter(void) { OWNT *o; MXAW *a; own_from_awaiter(o, a); __CPROVER_assert(0, "SENTINEL reachable"); }
#endif
