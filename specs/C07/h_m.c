#define REG_MX(m) gh_DOORMAN = (void *)AW_INSTANCE; MX *m = malloc(sizeof(MX)); __CPROVER_assume(m != 0); gh_M_cell = M_CELL(m)
#ifdef CV_HAS_mx_ready
void h_ready(void) { REG_MX(m); cv_i1 r = mx_ready(m); if (r) __CPROVER_assert(0, "SENTINEL reachable: try-lock granted"); else __CPROVER_assert(0, "SENTINEL reachable: try-lock refused"); }
#endif
#ifdef CV_HAS_mx_subscribe
void h_subscribe(void) { REG_MX(m); AWT *a = malloc(sizeof(AWT)); __CPROVER_assume(a != 0); gh_my_node = a; gh_node_own = OWN_ME; cv_i1 r = mx_subscribe(m, a); if (r) __CPROVER_assert(0, "SENTINEL reachable: suspended (mutex was held)"); else __CPROVER_assert(0, "SENTINEL reachable: not suspended (mutex was free)"); }
#endif
#ifdef CV_HAS_mx_unlock_rel
void h_unlock_rel(void) { REG_MX(m); gh_mx_this = m; AWT *q = malloc(sizeof(AWT)); AWT *b = malloc(sizeof(AWT)); __CPROVER_assume(q != 0 && b != 0); gh_bq_nodes = b; if (nondet_bool()) m->_queue = q; else m->_queue = 0; LAMREL *f;
  mx_unlock_rel(m, f); if (gh_released) __CPROVER_assert(0, "SENTINEL reachable: freed"); else if (gh_bq_calls) __CPROVER_assert(0, "SENTINEL reachable: handed over after rebuilding the queue"); else __CPROVER_assert(0, "SENTINEL reachable: handed over to the queue head"); }
#endif
#ifdef CV_HAS_mx_unlock_del
void h_unlock_del(void) { REG_MX(m); gh_mx_this = m; AWT *q = malloc(sizeof(AWT)); AWT *b = malloc(sizeof(AWT)); __CPROVER_assume(q != 0 && b != 0); gh_bq_nodes = b; if (nondet_bool()) m->_queue = q; else m->_queue = 0; LAMDEL *f;
  mx_unlock_del(m, f); if (gh_released) __CPROVER_assert(0, "SENTINEL reachable: freed"); else if (gh_bq_calls) __CPROVER_assert(0, "SENTINEL reachable: handed over after rebuilding the queue"); else __CPROVER_assert(0, "SENTINEL reachable: handed over to the queue head"); }
#endif
#ifdef CV_HAS_own_release
void h_own_release(void) { SP *r; OWNT *o; own_release(r, o); __CPROVER_assert(0, "SENTINEL reachable"); }
#endif
#ifdef CV_HAS_own_dtor
void h_own_dtor(void) { OWNT *o; own_dtor(o); __CPROVER_assert(0, "SENTINEL reachable"); }
#endif
#ifdef CV_HAS_mx_try_lock
void h_try_lock(void) { OWNT *r; MX *m; mx_try_lock(r, m); __CPROVER_assert(0, "SENTINEL reachable"); }
#endif
#ifdef CV_HAS_mxaw_ready
void h_mxaw_ready(void) { MXAW *a; mxaw_ready(a); __CPROVER_assert(0, "SENTINEL reachable"); }
#endif
#ifdef CV_HAS_mxaw_suspend
void h_mxaw_suspend(void) { MXAW *a; cv_i8 *h; mxaw_suspend(a, h); __CPROVER_assert(0, "SENTINEL reachable"); }
#endif
#ifdef CV_HAS_mxaw_resume
void h_mxaw_resume(void) { OWNT *r; MXAW *a; mxaw_resume(r, a); __CPROVER_assert(0, "SENTINEL reachable"); }
#endif
