# C20 - The core synchronisation primitives never allocate.
# `gh_allocs == old(gh_allocs)` is a postcondition of the contracts of C01 (future/promise), C02 (awaiting by coroutine, blocking thread,
# callback awaiter), C07 (coroutine mutex), C06 (suspend point with up to three handles) and C13 (stepping a generator); this property
# re-runs exactly those units.  The heap primitive (lib/rt_core.c) is the only writer of gh_allocs; assumed-contract models say whether
# they allocate (std::deque::push_back: may allocate); an unknown external callee is an extraction error, never "does not allocate".
import importlib.util as _ilu, os as _os, copy as _copy
_here = _os.path.dirname(_os.path.dirname(_os.path.abspath(__file__)))
def _load(p):
    s = _ilu.spec_from_file_location('c20_' + p, _os.path.join(_here, p, 'units.py')); m = _ilu.module_from_spec(s); s.loader.exec_module(m); return m
def _take(p, names, extra_defines=(), **kw):
    m = _load(p); out = []
    for u in m.UNITS:
        if names is not None and u['name'] not in names: continue
        if names is None and u.get('kind') in ('bounded', 'lemma'): continue
        v = _copy.deepcopy(u); v['name'] = '%s_%s' % (p, u['name']); v['defines'] = list(u.get('defines', [])) + ['CV_CHECK_C20 1'] + list(extra_defines)
        v.update(kw); out.append(v)
    return out
UNITS = []
UNITS += _take('C01', ['claim', 'set_value', 'call_value', 'set_drop', 'set_exc', 'dtor', 'move_ctor', 'fu_ctor', 'get_promise', 'value',
                        # promise<T>::bind(): create / call / destroy the closure, bound arguments of 4, 64 and 200 bytes (specs/C01/bind_spec.h)
                        'bind_int', 'bind_int_call', 'bind_int_dtor', 'bind_int_drive', 'bind_b64', 'bind_b64_call', 'bind_b64_dtor', 'bind_b64_drive',
                        'bind_b200', 'bind_b200_call', 'bind_b200_dtor', 'bind_b200_drive'])
UNITS += _take('C02', ['subscribe_check_ready', 'resume_chain_set_ready', 'resume', 'co_await_ready', 'co_await_suspend', 'co_await_suspend_fn', 'co_sync', 'co_force_sync', 'sa_wakeup', 'co_await_resume'])
UNITS += _take('C07', ['ready', 'subscribe', 'unlock_rel', 'unlock_del', 'own_release', 'try_lock'])
UNITS += _take('C06', ['add', 'ctor_handle', 'move_ctor', 'pop', 'ctor_default'])
UNITS += _take('C04', ['caw_await_suspend', 'as_start_coro'])
# merging into an inline point with a total of <= 3 handles (bounded shapes of C06; the clause is compiled in with CV_CHECK_C20)
UNITS += _take('C06', [x['name'] for x in _load('C06').UNITS if x['name'].startswith('merge_bounded_quick_')])
# known finding: in coroutine mode every made-ready coroutine is pushed on the thread's std::deque
UNITS += _take('C05', ['resume', 'flush', 'suspend_now', 'await_suspend', 'clear', 'dtor'])
if _os.path.exists(_os.path.join(_here, 'C13', 'READY')):
    try:
        _m13 = _load('C13')
        UNITS += _take('C13', getattr(_m13, 'C20_UNITS', []))
    except Exception:
        pass
META = dict(
    level='proof',
    level_text='No-allocation as a postcondition (gh_allocs == old(gh_allocs), the heap primitive being the only writer of the counter) of the contracts that cover: claiming/resolving a promise with value, exception or drop, destroying a promise, moving it, constructing a future, get_promise, value(); subscribing an awaiter, resolving and handing over the detached chain, resuming an awaiter, co_await on a future (ready test, suspend with handle or callback, resume), blocking sync() with its stack awaiter, wake-up; try-lock, lock request, unlock / hand-over and ownership release of the coroutine mutex; appending up to three handles to a suspend point, constructing, moving, popping it (add(): no allocation while the old count is < 3 and the representation inline); async co_awaiter wiring; merging into an inline suspend point with a total of at most three handles (bounded shapes), discarding / clearing / destroying / co_awaiting a suspend point and draining the ready queue (normal mode: no allocation; coroutine mode: the deque finding); stepping a generator<int> / generator<int,int> (lvalue and rvalue argument overloads, and three end-to-end drives of a synchronous generator: the only allocations are the coroutine frames); promise<T>::bind() with a 4-, 64- and 200-byte bound value (binding, calling and destroying the closure never allocate). All for every input / protocol state of those units. Known finding (open, reported as KNOWN-FINDING): in coroutine mode a made-ready coroutine is pushed on the per-thread std::deque, which allocates a node every 64 pushes.',
    level_note='Trusted: heap primitive as the only source of allocations, the statement of the assumed-contract models about their own allocation behaviour, clang front end, ir2c; std::exception_ptr reference counting and exception allocation (throwing paths) are outside the claim. The walk over the detached chain (resume_chain_lk) and suspend_point merging allocate only when more than three coroutines are carried (C06). Generator stepping (yield, hand-back to the asker, next_sync/next_async, next_awt conversions and co_await, iterator step) is covered through the C13 contract units.',
    technique='CBMC code contracts (ensures gh_allocs == old) enforced via goto-instrument --dfcc on the C translation of the real headers, heap primitive with allocation counter',
    trusted_base=['heap primitive lib/rt_core.c (operator new/delete = malloc/free + counters)', 'allocation statements of the std container models'],
    assumptions=['value types that do not allocate themselves (int payload)', 'throwing paths (exception objects) not counted'],
    explanation='see level_text')
