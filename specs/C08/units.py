# C08 - Coroutine mutex: FIFO hand-off and no lost request.  Same functions and units as C07 (specs/C07): the FIFO / no-lost-request
# clauses are postconditions of the same contracts (unlock hands over to the head of the private queue, which is refilled only when
# empty; build_queue yields arrival order; the fast path releases only by a CAS that expects the doorman; try_lock is loop-free).
import importlib.util as _ilu, os as _os
_s = _ilu.spec_from_file_location('c07_units', _os.path.join(_os.path.dirname(_os.path.dirname(_os.path.abspath(__file__))), 'C07', 'units.py')); _m = _ilu.module_from_spec(_s); _s.loader.exec_module(_m)
UNITS = list(_m.UNITS)
META = dict(_m.META)
META['level_text'] = ('FIFO hand-off and no lost request as postconditions of the C07 contracts: unlock<Fn> passes ownership to the head of the owner-private queue (longest waiting), the queue is refilled only when empty (older batch before newer batch) and - bounded unit - build_queue produces arrival order; a release that races with an arriving request cannot lose it: the fast path frees the mutex only by a compare-exchange that expects the doorman (a plain store is rejected by the protocol primitive under the rely "a request may have been pushed"), and after a failed fast path the hand-over path is taken; no ownerless lock: every exit of unlock leaves the token released with cell NULL or handed to exactly one resumed request; try_lock is loop-free, one strong CAS, succeeds iff the cell was NULL. ' + _m.META['level_text'])
META['level_note'] = 'Liveness clause "every request is eventually granted as long as owners keep releasing" is covered only in its safety form (never dropped, never ownerless with requests pending). ' + _m.META['level_note']
