/* C10 harnesses: one per unit. */
#ifdef CV_HAS_lq_ctor
void h_lq_ctor(void) { LQ *q; cv_i64 limit; lq_ctor(q, limit); __CPROVER_assert(0, "SENTINEL reachable"); }
#endif
#ifdef CV_HAS_lq_push
void h_lq_push(void) { FUTV *r; LQ *q; cv_i32 *v; lq_push(r, q, v); __CPROVER_assert(0, "SENTINEL reachable"); }
#endif
#ifdef CV_HAS_lq_pop
void h_lq_pop(void) { FUTI *r; LQ *q; lq_pop(r, q); __CPROVER_assert(0, "SENTINEL reachable"); }
#endif
#ifdef CV_HAS_lq_unblock_push
void h_lq_unblock_push(void) { SPB *r; LQ *q; EXCP *e; lq_unblock_push(r, q, e); __CPROVER_assert(0, "SENTINEL reachable"); }
#endif
#ifdef CV_HAS_lq_dtor
void h_lq_dtor(void) { LQ *q; lq_dtor(q); __CPROVER_assert(0, "SENTINEL reachable"); }
#endif
#ifdef CV_HAS_lq_size
void h_lq_size(void) { QI *q; lq_size(q); __CPROVER_assert(0, "SENTINEL reachable"); }
#endif
#ifdef CV_HAS_lq_empty
void h_lq_empty(void) { QI *q; lq_empty(q); __CPROVER_assert(0, "SENTINEL reachable"); }
#endif
