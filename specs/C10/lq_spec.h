/* C10 - contracts on cocls::limited_queue<int> (src/cocls/queue.h:259-349), taken from the PROPERTY STATEMENT, not from the code.
 *
 * Abstract state (under the queue mutex): Q item sequence, W waiting-consumer sequence (both as in C09), and
 *   B  blocked-producer sequence of (item, promise<void>) pairs: model of std::queue<std::pair<int, promise<void>>>
 *      (lib/model_awq_containers.c, positions bq_head..bq_tail, item + promise identity tracked at the arbitrary position gh_BK)
 *   limit = this->_limit (any value; the invariant INV10 below is meaningful for limit >= 1)
 * Object invariant:  INV9  not (Q non-empty and W non-empty)        INV10  B non-empty => |Q| >= limit  (producers block only while full)
 *
 *   push(v):  (a) a pop is waiting      => exactly the OLDEST waiting pop receives exactly v (once, after unlock); Q, B untouched; returned future READY
 *             (b) nobody waits, |Q| <  limit => Q' = Q . v; B untouched; returned future READY (the push completes immediately)
 *             (c) nobody waits, |Q| >= limit => Q untouched - the item is held ONLY by the blocked push: B' = B . (v, promise of the returned future);
 *                                               returned future PENDING
 *   pop():    Q non-empty => the returned future is ready with head(Q), which is removed;  if B is non-empty, exactly the OLDEST blocked push is taken
 *                            out of B, its item goes to the BACK of Q and exactly that push completes (after unlock) - one per pop
 *             Q empty     => the pop is parked behind the earlier waiting pops, pending; nothing else changes
 *   unblock_push(e): B non-empty => exactly the OLDEST blocked push is removed together with its item (Q, W untouched: the item is withdrawn) and
 *                                   fails with exactly e (after unlock), result true;   B empty => nothing changes, result false
 *   "ready"/"pending" of the future returned by push are facts about the real future object (built by the real translated constructors);
 *   resolutions of promises are recorded by the abstract promise model (gh_pr: which promise, how, how often, under the lock or not).
 * All clauses use __CPROVER_old on plain lvalues only: the same contracts are REPLACED at the call sites of the history lemma (h_lemma.c). */

#ifndef C09_SPEC_INCLUDED
void _ZSt20__throw_system_errori(cv_i32 e) { __CPROVER_assert(0, "std::system_error thrown by std::mutex"); __CPROVER_assume(0); }
#define LOCK_IDLE   (gh_lock_depth == 0 && gh_lock_held == 0)
#define LOCK_STATE  gh_lock_held, gh_lock_depth, gh_n_lock, gh_n_unlock
#define ONE_CS      (LOCK_IDLE && gh_n_lock == __CPROVER_old(gh_n_lock) + 1 && gh_n_unlock == __CPROVER_old(gh_n_unlock) + 1)
#define PR_HYGIENE  (gh_pr.lost == 0 && gh_pr.sp_flush_locked == 0)
#define OLD(x) __CPROVER_old(x)
#endif

#define LQ_MX(q)    ((void *)&(q)->base_queue._mx)
#define LQ_MODEL    LOCK_STATE, gh_pr, IQ_STATE, WQ_STATE, BQ_STATE
#define LINV9       (!(IQ_LEN > 0 && WQ_LEN > 0))
#define LINV10(q)   (BQ_LEN > 0 ==> IQ_LEN >= (q)->_limit)
#define LQ_WF(q)    (IQ_INV && WQ_INV && BQ_INV && LINV9 && LINV10(q))
/* CV_BOUNDED_FALLBACK: the same contracts by unwinding (no loop contracts), for small states - decides a rewritten member that contains a
 * NEW loop (for which no invariant exists) instead of leaving it undecided; labelled bounded */
#ifdef CV_BOUNDED_FALLBACK
#define LQ_BOUND(q) (bq_tail - bq_head <= 4 && iq_tail - iq_head <= 5 && wq_tail - wq_head <= 4 && (q)->_limit <= 4)
#else
#define LQ_BOUND(q) 1
#endif
#define LQ_PRE(q)   (cv_exc_pending == 0 && __CPROVER_is_fresh(q, sizeof(*(q))) && LQ_BOUND(q) && LOCK_IDLE && gh_q_mx == LQ_MX(q) && gh_q_lock_required == 1 && \
                     PR_LOG_CLEAN && WQ_CLEAN && BQ_CLEAN && LQ_WF(q))
#define LQ_POST(q)  (cv_exc_pending == 0 && LQ_WF(q) && PR_HYGIENE && (q)->_limit == OLD((q)->_limit))
#define LQ_Q_SAME   (iq_head == OLD(iq_head) && iq_tail == OLD(iq_tail) && iq_trk == OLD(iq_trk))
#define LQ_W_SAME   (wq_head == OLD(wq_head) && wq_tail == OLD(wq_tail) && wq_trk == OLD(wq_trk))
#define LQ_B_SAME   (bq_head == OLD(bq_head) && bq_tail == OLD(bq_tail) && bq_trk_item == OLD(bq_trk_item) && bq_trk_id == OLD(bq_trk_id))
#define LW_NONEMPTY0 (OLD(wq_head) < OLD(wq_tail))
#define LQ_NONEMPTY0 (OLD(iq_head) < OLD(iq_tail))
#define LB_NONEMPTY0 (OLD(bq_head) < OLD(bq_tail))
#define LEN0        (OLD(iq_tail) - OLD(iq_head))
#define ROOM0(q)    (!LW_NONEMPTY0 && LEN0 <  OLD((q)->_limit))          /* nobody waits and fewer than `limit` items are waiting */
#define FULL0(q)    (!LW_NONEMPTY0 && LEN0 >= OLD((q)->_limit))          /* nobody waits and the queue is full                    */
#define FUTV_IS_READY(f) (FUT_READY(f) && FUT_STATE(f) == FUT_ST_VALUE)

#ifdef CV_HAS_lq_ctor
void lq_ctor(LQ *this_, cv_i64 limit)
__CPROVER_requires(cv_exc_pending == 0 && __CPROVER_is_fresh(this_, sizeof(*this_)) && LOCK_IDLE && gh_q_lock_required == 0)
__CPROVER_assigns(__CPROVER_object_whole(this_), IQ_STATE, WQ_STATE, BQ_STATE)
__CPROVER_ensures(cv_exc_pending == 0 && this_->_limit == limit)
__CPROVER_ensures(iq_head == 0 && iq_tail == 0 && wq_head == 0 && wq_tail == 0 && bq_head == 0 && bq_tail == 0 && wq_slot_pos == QM_NOPOS && bq_slot_pos == QM_NOPOS)   /* starts empty (positions count from 0) */
__CPROVER_ensures(LQ_WF(this_))
;
#endif

#ifdef CV_HAS_lq_push
void lq_push(FUTV *ret, LQ *this_, cv_i32 *args)
__CPROVER_requires(LQ_PRE(this_) && __CPROVER_is_fresh(ret, sizeof(*ret)) && __CPROVER_is_fresh(args, sizeof(*args)))
__CPROVER_assigns(__CPROVER_object_whole(ret), LQ_MODEL)
__CPROVER_ensures(LQ_POST(this_) && ONE_CS)
/* (a) a pop is waiting: the oldest one receives exactly v, once, after the lock was released; the push completes immediately */
__CPROVER_ensures(LW_NONEMPTY0 ==> (wq_head == OLD(wq_head) + 1 && wq_tail == OLD(wq_tail) && wq_trk == OLD(wq_trk) && LQ_Q_SAME && LQ_B_SAME))
__CPROVER_ensures(LW_NONEMPTY0 ==> (gh_pr.n == 1 && gh_pr.kind[0] == PR_VALUE && gh_pr.val[0] == OLD(*args) && gh_pr.locked[0] == 0))
__CPROVER_ensures((LW_NONEMPTY0 && gh_WK == OLD(wq_head)) ==> gh_pr.id[0] == OLD(wq_trk))
__CPROVER_ensures(LW_NONEMPTY0 ==> (FUTV_IS_READY(ret) && gh_pr.fresh_n == 0))
/* (b) room: fewer than `limit` items waiting => the push completes immediately ... */
__CPROVER_ensures(ROOM0(this_) ==> (FUTV_IS_READY(ret) && gh_pr.fresh_n == 0))                                           /* b1: returned future ready          */
__CPROVER_ensures(ROOM0(this_) ==> LQ_B_SAME)                                                                            /* b2: nobody becomes blocked         */
/* ... with the item appended at the tail of Q */
__CPROVER_ensures(ROOM0(this_) ==> (iq_tail == OLD(iq_tail) + 1 && iq_head == OLD(iq_head) && LQ_W_SAME && gh_pr.n == 0))  /* b3: exactly one item appended   */
__CPROVER_ensures((ROOM0(this_) && gh_IK == OLD(iq_tail)) ==> iq_trk == OLD(*args))                                      /* b4: it is v                         */
__CPROVER_ensures((ROOM0(this_) && gh_IK != OLD(iq_tail)) ==> iq_trk == OLD(iq_trk))                                     /* b5: the others keep their place     */
/* (c) full: the push stays pending - holding its item: the item is ONLY in B, behind the earlier blocked pushes */
__CPROVER_ensures(FULL0(this_) ==> LQ_Q_SAME)                                                                            /* c1: the item is NOT (also) in Q     */
__CPROVER_ensures(FULL0(this_) ==> (FUT_PENDING(ret) && gh_pr.fresh == ret && gh_pr.fresh_n == 1 && gh_pr.n == 0 && LQ_W_SAME))   /* c2: returned future pending */
__CPROVER_ensures(FULL0(this_) ==> (bq_tail == OLD(bq_tail) + 1 && bq_head == OLD(bq_head)))                             /* c3: exactly one producer more      */
__CPROVER_ensures((FULL0(this_) && gh_BK == OLD(bq_tail)) ==> (bq_trk_item == OLD(*args) && bq_trk_id == ret))           /* c4: (v, promise of the future)     */
__CPROVER_ensures((FULL0(this_) && gh_BK != OLD(bq_tail)) ==> (bq_trk_item == OLD(bq_trk_item) && bq_trk_id == OLD(bq_trk_id)))
;
#endif

#ifdef CV_HAS_lq_pop
void lq_pop(FUTI *ret, LQ *this_)
__CPROVER_requires(LQ_PRE(this_) && __CPROVER_is_fresh(ret, sizeof(*ret)))
__CPROVER_assigns(__CPROVER_object_whole(ret), LQ_MODEL)
__CPROVER_ensures(LQ_POST(this_) && ONE_CS)
__CPROVER_ensures(gh_pr.fresh == ret && gh_pr.fresh_n == 1)
/* (a) an item is waiting: the oldest item is removed and delivered to this pop */
__CPROVER_ensures(LQ_NONEMPTY0 ==> (iq_head == OLD(iq_head) + 1 && LQ_W_SAME && gh_pr.n >= 1 && gh_pr.id[0] == ret && gh_pr.kind[0] == PR_VALUE))
__CPROVER_ensures((LQ_NONEMPTY0 && gh_IK == OLD(iq_head)) ==> gh_pr.val[0] == OLD(iq_trk))
/* (a1) ... and a producer is blocked: exactly the OLDEST one leaves B, its item goes to the back of Q, exactly its push completes - after unlock */
__CPROVER_ensures((LQ_NONEMPTY0 && LB_NONEMPTY0) ==> (bq_head == OLD(bq_head) + 1 && bq_tail == OLD(bq_tail) && bq_trk_item == OLD(bq_trk_item) && bq_trk_id == OLD(bq_trk_id)))
__CPROVER_ensures((LQ_NONEMPTY0 && LB_NONEMPTY0) ==> (iq_tail == OLD(iq_tail) + 1 && gh_pr.n == 2 && gh_pr.kind[1] == PR_VALUE && gh_pr.locked[1] == 0))
__CPROVER_ensures((LQ_NONEMPTY0 && LB_NONEMPTY0 && gh_BK == OLD(bq_head)) ==> gh_pr.id[1] == OLD(bq_trk_id))
__CPROVER_ensures((LQ_NONEMPTY0 && LB_NONEMPTY0 && gh_BK == OLD(bq_head) && gh_IK == OLD(iq_tail)) ==> iq_trk == OLD(bq_trk_item))
__CPROVER_ensures((LQ_NONEMPTY0 && LB_NONEMPTY0 && gh_IK != OLD(iq_tail)) ==> iq_trk == OLD(iq_trk))
/* (a2) ... nobody is blocked: nothing else happens */
__CPROVER_ensures((LQ_NONEMPTY0 && !LB_NONEMPTY0) ==> (LQ_B_SAME && iq_tail == OLD(iq_tail) && iq_trk == OLD(iq_trk) && gh_pr.n == 1))
/* (b) no item: the pop is parked behind the earlier waiting pops, pending */
__CPROVER_ensures(!LQ_NONEMPTY0 ==> (wq_tail == OLD(wq_tail) + 1 && wq_head == OLD(wq_head) && LQ_Q_SAME && LQ_B_SAME && gh_pr.n == 0 && FUT_PENDING(ret)))
__CPROVER_ensures((!LQ_NONEMPTY0 && gh_WK == OLD(wq_tail)) ==> wq_trk == ret)
__CPROVER_ensures((!LQ_NONEMPTY0 && gh_WK != OLD(wq_tail)) ==> wq_trk == OLD(wq_trk))
;
#endif

#ifdef CV_HAS_lq_unblock_push
void lq_unblock_push(SPB *ret, LQ *this_, EXCP *e)
__CPROVER_requires(LQ_PRE(this_) && __CPROVER_is_fresh(ret, sizeof(*ret)) && __CPROVER_is_fresh(e, sizeof(*e)))
__CPROVER_assigns(__CPROVER_object_whole(ret), LQ_MODEL, gh_ep_addref, gh_ep_release)
__CPROVER_ensures(LQ_POST(this_) && ONE_CS && gh_pr.fresh_n == 0)
__CPROVER_ensures(LQ_Q_SAME && LQ_W_SAME)                                                 /* no item is delivered or queued, no pop is touched: the item is withdrawn */
/* a producer is blocked: exactly the OLDEST one is removed (with its item) and fails with exactly e, outside the lock */
__CPROVER_ensures(LB_NONEMPTY0 ==> (bq_head == OLD(bq_head) + 1 && bq_tail == OLD(bq_tail) && bq_trk_item == OLD(bq_trk_item) && bq_trk_id == OLD(bq_trk_id)))
__CPROVER_ensures(LB_NONEMPTY0 ==> (gh_pr.n == 1 && gh_pr.kind[0] == PR_EXC && gh_pr.exc[0] == OLD(e->_M_exception_object) && gh_pr.locked[0] == 0 && ret->value == 1))
__CPROVER_ensures((LB_NONEMPTY0 && gh_BK == OLD(bq_head)) ==> gh_pr.id[0] == OLD(bq_trk_id))
/* nobody is blocked: nothing happens */
__CPROVER_ensures(!LB_NONEMPTY0 ==> (LQ_B_SAME && gh_pr.n == 0 && ret->value == 0))
__CPROVER_ensures(e->_M_exception_object == OLD(e->_M_exception_object))
/* the exception object stays referenced exactly by the future that received it */
__CPROVER_ensures(gh_ep_addref - OLD(gh_ep_addref) == gh_ep_release - OLD(gh_ep_release) + ((LB_NONEMPTY0 && e->_M_exception_object != 0) ? 1 : 0))
;
#endif

#ifdef CV_HAS_lq_dtor
void lq_dtor(LQ *this_)
__CPROVER_requires(cv_exc_pending == 0 && __CPROVER_is_fresh(this_, sizeof(*this_)) && LOCK_IDLE && gh_q_lock_required == 0 && PR_LOG_CLEAN && WQ_CLEAN && BQ_CLEAN && LQ_WF(this_))
__CPROVER_assigns(LQ_MODEL)
__CPROVER_ensures(cv_exc_pending == 0 && LOCK_IDLE && gh_n_lock == OLD(gh_n_lock))
/* every waiting pop and every blocked push is dropped (broken promise => await_canceled_exception), exactly once; nobody gets a value or an exception */
__CPROVER_ensures(wq_dtor_n == 1 && wq_dropped_lo == OLD(wq_head) && wq_dropped_hi == OLD(wq_tail))
__CPROVER_ensures(bq_dtor_n == 1 && bq_dropped_lo == OLD(bq_head) && bq_dropped_hi == OLD(bq_tail))
__CPROVER_ensures((gh_WK >= OLD(wq_head) && gh_WK < OLD(wq_tail)) ==> wq_trk_drops == 1)
__CPROVER_ensures((gh_BK >= OLD(bq_head) && gh_BK < OLD(bq_tail)) ==> bq_trk_drops == 1)
__CPROVER_ensures(gh_pr.n == 0 && gh_pr.lost == 0)
;
#endif

/* size() / empty() are the inherited queue<int> members (using-declarations): same functions, same contracts as in C09, here with the limited
 * queue's invariant as context (the base subobject is at offset 0). */
#ifdef CV_HAS_lq_size
cv_i64 lq_size(QI *this_)
__CPROVER_requires(cv_exc_pending == 0 && __CPROVER_is_fresh(this_, sizeof(LQ)) && LOCK_IDLE && gh_q_mx == (void *)&this_->_mx && gh_q_lock_required == 1 && IQ_INV)
__CPROVER_assigns(LOCK_STATE)
__CPROVER_ensures(cv_exc_pending == 0 && ONE_CS && __CPROVER_return_value == iq_tail - iq_head)
;
#endif
#ifdef CV_HAS_lq_empty
cv_i1 lq_empty(QI *this_)
__CPROVER_requires(cv_exc_pending == 0 && __CPROVER_is_fresh(this_, sizeof(LQ)) && LOCK_IDLE && gh_q_mx == (void *)&this_->_mx && gh_q_lock_required == 1 && IQ_INV)
__CPROVER_assigns(LOCK_STATE)
__CPROVER_ensures(cv_exc_pending == 0 && ONE_CS && __CPROVER_return_value == (iq_tail == iq_head ? 1 : 0))
;
#endif
