# C10 - Bounded queue: back-pressure without losing or duplicating items
LQT = 'cocls::limited_queue<int, cocls::primitives::std_queue, cocls::primitives::std_queue, cocls::primitives::std_queue, std::mutex>'
QIT = 'cocls::queue<int, cocls::primitives::std_queue, cocls::primitives::std_queue, std::mutex>'
PAIR = 'std::pair<int, cocls::promise<void> >'
def stdq(t): return 'std::queue<%s, std::deque<%s, std::allocator<%s > > >' % (t, t, t)
TYPES = {'SPB': 'cocls::suspend_point<bool>', 'EXCP': 'std::__exception_ptr::exception_ptr', 'LQ': LQT, 'QI': QIT,
         'PRI': 'cocls::promise<int>', 'FUTI': 'cocls::future<int>', 'PRV': 'cocls::promise<void>', 'FUTV': 'cocls::future<void>',
         'IQ_T': 'std::queue<int, std::deque<int, std::allocator<int> > >', 'WQI_T': stdq('cocls::promise<int>'), 'BQ_T': stdq(PAIR), 'PAIR_T': PAIR}
GLOBALS = {'AW_DISABLED': '_ZN5cocls7awaiter8disabledE'}
LIBS = ['rt_core.c', 'rt_atomic_seq.c', 'model_mutex.c', 'model_awq_promise.c', 'model_awq_containers.c']
BOUNDARY = [r'^(decltype\(auto\) )?std::queue<', r'^(cocls::suspend_point<bool> )?cocls::promise<(int|void)>::', r'^cocls::suspend_point<bool>::~suspend_point\(\)$']
DEFS = ['CV_MODEL_PROMISE_INT 1', 'CV_MODEL_PROMISE_VOID 1', 'CV_MODEL_IQ 1', 'CV_MODEL_WQ_INT 1', 'CV_MODEL_BQ 1']
SPEC = ['C10/lq_spec.h', 'C10/h_lq.c']
def esc(s): return s.replace('(', r'\(').replace(')', r'\)').replace('*', r'\*')
def lq(name, rx_, **kw):
    d = dict(name='lq_' + name, driver='c10_lqueue.cpp', roots=[rx_], names={'lq_' + name: rx_}, types=TYPES, globals=GLOBALS, boundary=BOUNDARY, lib=LIBS,
             spec=SPEC, harness='h_lq_' + name, enforce='lq_' + name, defines=DEFS, under_contract=['cocls::limited_queue<int>::' + name])
    d.update(kw); return d
REPLAY = dict(src='c10_dup.cpp', mode='c10', flags=['-fno-access-control'])
RX = {
    'ctor': '^' + esc(LQT) + r'::limited_queue\(unsigned long\)$',
    'push': r'^cocls::future<void> cocls::limited_queue<int, .*>::push<int>\(int&&\)$',
    'pop': '^' + esc(LQT) + r'::pop\(\)$',
    'unblock_push': '^' + esc(LQT) + r'::unblock_push\(std::__exception_ptr::exception_ptr\)$',
    'dtor': '^' + esc(LQT) + r'::~limited_queue\(\)$',
    'size': '^' + esc(QIT) + r'::size\(\)$',
    'empty': '^' + esc(QIT) + r'::empty\(\)$',
}
LEMMA_OPS = ['ctor', 'push', 'pop', 'unblock_push', 'size', 'empty']
UNITS = [lq(n, RX[n], **({'replay': REPLAY} if n == 'push' else {})) for n in ('ctor', 'push', 'pop', 'unblock_push', 'dtor', 'size', 'empty')] + [
    # history lemma over the contracts: every call is replaced by its contract, unbounded loop with invariant (DESIGN 3.6)
    dict(name='lq_lemma', kind='lemma', driver='c10_lqueue.cpp', roots=[RX[n] for n in LEMMA_OPS], names={'lq_' + n: RX[n] for n in LEMMA_OPS}, types=TYPES, globals=GLOBALS,
         boundary=BOUNDARY, lib=LIBS, spec=['C10/lq_spec.h', 'C10/h_lemma.c'], harness='h_lq_lemma', enforce='lq_lemma', replace=['lq_' + n for n in LEMMA_OPS],
         loop_contracts=True, defines=DEFS + ['CV_HAS_lq_lemma 1'], timeout=900, object_bits=10,
         under_contract=['history lemma over the contracts of cocls::limited_queue<int> (ctor, push, pop, unblock_push, size, empty)']),
]
META = dict(level='proof', level_text='TODO', level_note='TODO', technique='TODO', trusted_base=[], assumptions=[], explanation='')
