# C10 - Bounded queue: back-pressure without losing or duplicating items
LQT = 'cocls::limited_queue<int, cocls::primitives::std_queue, cocls::primitives::std_queue, cocls::primitives::std_queue, std::mutex>'
QIT = 'cocls::queue<int, cocls::primitives::std_queue, cocls::primitives::std_queue, std::mutex>'
PAIR = 'std::pair<int, cocls::promise<void> >'
def stdq(t): return 'std::queue<%s, std::deque<%s, std::allocator<%s > > >' % (t, t, t)
TYPES = {'SPB': 'cocls::suspend_point<bool>', 'EXCP': 'std::__exception_ptr::exception_ptr', 'LQ': LQT, 'QI': QIT,
         'PRI': 'cocls::promise<int>', 'FUTI': 'cocls::future<int>', 'PRV': 'cocls::promise<void>', 'FUTV': 'cocls::future<void>',
         'IQ_T': 'std::queue<int, std::deque<int, std::allocator<int> > >', 'WQI_T': stdq('cocls::promise<int>'), 'BQ_T': stdq(PAIR), 'PAIR_T': PAIR}
GLOBALS = {'AW_DISABLED': '_ZN5cocls7awaiter8disabledE'}
LIBS = ['rt_core.c', 'rt_atomic_seq.c', 'model_mutex.c', 'model_awq_promise.c', 'model_awq_containers.c']
BOUNDARY = [r'^(decltype\(auto\) )?std::queue<', r'^(cocls::suspend_point<bool> )?cocls::promise<(int|void)>::', r'^cocls::suspend_point<bool>::~suspend_point\(\)$']
DEFS = ['CV_MODEL_PROMISE_INT 1', 'CV_MODEL_PROMISE_VOID 1', 'CV_MODEL_IQ 1', 'CV_MODEL_WQ_INT 1', 'CV_MODEL_BQ 1']
SPEC = ['C10/lq_spec.h', 'C10/h_lq.c']
def esc(s): return s.replace('(', r'\(').replace(')', r'\)').replace('*', r'\*')
def lq(name, rx_, **kw):
    d = dict(name='lq_' + name, driver='c10_lqueue.cpp', roots=[rx_], names={'lq_' + name: rx_}, types=TYPES, globals=GLOBALS, boundary=BOUNDARY, lib=LIBS,
             spec=SPEC, harness='h_lq_' + name, enforce='lq_' + name, defines=DEFS, under_contract=['cocls::limited_queue<int>::' + name])
    d.update(kw); return d
REPLAY = dict(src='c10_dup.cpp', mode='c10', flags=['-fno-access-control'])
RX = {
    'ctor': '^' + esc(LQT) + r'::limited_queue\(unsigned long\)$',
    'push': r'^cocls::future<void> cocls::limited_queue<int, .*>::push<int>\(int&&\)$',
    'pop': '^' + esc(LQT) + r'::pop\(\)$',
    'unblock_push': '^' + esc(LQT) + r'::unblock_push\(std::__exception_ptr::exception_ptr\)$',
    'dtor': '^' + esc(LQT) + r'::~limited_queue\(\)$',
    'size': '^' + esc(QIT) + r'::size\(\)$',
    'empty': '^' + esc(QIT) + r'::empty\(\)$',
}
LEMMA_OPS = ['ctor', 'push', 'pop', 'unblock_push', 'size', 'empty']
BND = dict(defines=DEFS + ['CV_BOUNDED_FALLBACK 1'], unwind=8, kind='bounded', object_bits=9, timeout=600,
           bounded='limit <= 4, <= 5 queued items, <= 4 blocked producers, <= 4 waiting pops; loops unwound (no loop contracts)')
UNITS = [lq(n, RX[n], **({'replay': REPLAY} if n == 'push' else {})) for n in ('ctor', 'push', 'pop', 'unblock_push', 'dtor', 'size', 'empty')] + [
    dict(lq('pop', RX['pop'], **BND), name='lq_pop_bounded'), dict(lq('push', RX['push'], **BND), name='lq_push_bounded'),
    dict(lq('unblock_push', RX['unblock_push'], **BND), name='lq_unblock_push_bounded'),
] + [
    # history lemma over the contracts: every call is replaced by its contract, unbounded loop with invariant (DESIGN 3.6)
    # (the six members are BOUNDARY here - only their prototypes + contracts are needed; the roots are the driver's extern "C" wrappers that call them)
    dict(name='lq_lemma', kind='lemma', driver='c10_lqueue.cpp', roots=['^drv_lq_(%s)$' % '|'.join(LEMMA_OPS)], names={'lq_' + n: RX[n] for n in LEMMA_OPS}, types=TYPES, globals=GLOBALS,
         boundary=BOUNDARY + [RX[n] for n in LEMMA_OPS], lib=LIBS, spec=['C10/lq_spec.h', 'C10/h_lemma.c'], harness='h_lq_lemma', enforce='lq_lemma', replace=['lq_' + n for n in LEMMA_OPS],
         loop_contracts=True, defines=DEFS + ['CV_HAS_lq_lemma 1'], timeout=600, object_bits=10,
         under_contract=['history lemma over the contracts of cocls::limited_queue<int> (ctor, push, pop, unblock_push, size, empty)']),
    # conservation = linear arithmetic over the counting invariant of the history lemma (SMT back end: 64-bit sums of 5 terms are hopeless for SAT)
    dict(name='lq_conservation', kind='lemma', driver='c10_lqueue.cpp', roots=[RX['size']], names={}, types=TYPES, globals=GLOBALS, boundary=BOUNDARY, lib=LIBS,
         spec=['C10/lq_spec.h', 'C10/h_lemma.c'], harness='h_lq_conservation', defines=DEFS + ['CV_LQ_CONSERVATION 1'], solver_flag='--z3', solver='smt2 (z3 4.8) - solver-specific',
         under_contract=['arithmetic consequence of the counting invariant of lq_lemma']),
]
# ---- move-only payload (drivers/c09_mo_item.h): limited_queue<mo_item>; containers / promise<mo_item> of lib/model_awq_mo.c run the REAL special members of the item
LMT = LQT.replace('<int,', '<mo_item,')
MPAIR = 'std::pair<mo_item, cocls::promise<void> >'
LM_TYPES = {'SPB': 'cocls::suspend_point<bool>', 'EXCP': 'std::__exception_ptr::exception_ptr', 'LM': LMT, 'MO': 'mo_item', 'PRM': 'cocls::promise<mo_item>', 'FUTM': 'cocls::future<mo_item>',
            'PRV': 'cocls::promise<void>', 'FUTV': 'cocls::future<void>', 'MQ_T': 'std::queue<mo_item, std::deque<mo_item, std::allocator<mo_item> > >', 'WQM_T': stdq('cocls::promise<mo_item>'),
            'MBQ_T': stdq(MPAIR), 'MPAIR_T': MPAIR}
LM_GLOBALS = dict(GLOBALS, MO_LIVE='_ZN7mo_item4liveE', MO_DEAD='_ZN7mo_item11dead_valuedE', MO_DEAD_TAG='_ZN7mo_item13last_dead_tagE')
LM_BOUNDARY = [r'^(decltype\(auto\) )?std::queue<', r'^(cocls::suspend_point<bool> )?cocls::promise<(mo_item|void)>::', r'^cocls::suspend_point<bool>::~suspend_point\(\)$']
MO_ROOTS = [r'^mo_item::mo_item\(mo_item&&\)$', r'^mo_item::~mo_item\(\)$']
LM_RX = {'push': r'^cocls::future<void> cocls::limited_queue<mo_item, .*>::push<mo_item>\(mo_item&&\)$', 'pop': '^' + esc(LMT) + r'::pop\(\)$',
         'unblock_push': '^' + esc(LMT) + r'::unblock_push\(std::__exception_ptr::exception_ptr\)$', 'dtor': '^' + esc(LMT) + r'::~limited_queue\(\)$'}
def lm(name, **kw):
    d = dict(name='lm_' + name, driver='c10_lqueue_mo.cpp', roots=[LM_RX[name]] + MO_ROOTS, names={'lm_' + name: LM_RX[name]}, types=LM_TYPES, globals=LM_GLOBALS, boundary=LM_BOUNDARY,
             lib=LIBS + ['model_awq_mo.c'], spec=['C10/lq_spec.h', 'C10/lm_spec.h', 'C10/h_lm.c'], harness='h_lm_' + name, enforce='lm_' + name,
             defines=['CV_MODEL_PROMISE_VOID 1', 'CV_MODEL_MO 1', 'CV_MODEL_MO_BQ 1'], timeout=300,
             under_contract=['cocls::limited_queue<mo_item>::' + name + ' (move-only item: object identity, moved-from state, live-instance conservation)'])
    d.update(kw); return d
UNITS += [lm('push'), lm('pop'), lm('unblock_push'), lm('dtor')]
LM_BND = dict(defines=['CV_MODEL_PROMISE_VOID 1', 'CV_MODEL_MO 1', 'CV_MODEL_MO_BQ 1', 'CV_BOUNDED_FALLBACK 1'], unwind=8, kind='bounded', object_bits=9, timeout=600,
              bounded='limit <= 4, <= 5 queued items, <= 4 blocked producers, <= 4 waiting pops; loops unwound (no loop contracts)')
UNITS += [dict(lm('pop', **LM_BND), name='lm_pop_bounded'), dict(lm('push', **LM_BND), name='lm_push_bounded'), dict(lm('unblock_push', **LM_BND), name='lm_unblock_push_bounded')]
META = dict(
    level='proof',
    level_text=('Every public member of cocls::limited_queue<int> (constructor, push, pop incl. the future-constructor lambda, unblock_push, inherited size/empty, destructor) is checked on the C translation '
                'of the real header against a contract taken from the property statement, for EVERY abstract state (any limit, any number of queued items, waiting pops and blocked producers, any values and '
                'promise identities): push completes immediately (ready future; item handed to the oldest waiting pop or appended to the item sequence) while fewer than `limit` items are waiting, otherwise the '
                'returned future is pending and the item is held ONLY by the blocked-producer sequence, behind the earlier blocked pushes; pop delivers exactly the head item and, if a producer is blocked, moves '
                'exactly the oldest blocked item to the back of the item sequence and completes exactly that push after unlocking; unblock_push removes exactly the oldest blocked push together with its item and '
                'fails it with exactly e. A history lemma over these contracts (unbounded loop, two tagged pushes, event counters, symbolic limit >= 1) proves: every pushed item is in exactly one place '
                '(not pushed / item sequence / blocked / delivered / handed over / withdrawn), conservation pushes == handed + delivered + withdrawn + |Q| + |B|, delivery order == push order also across blocking, '
                'blocked pushes complete in arrival order, one per pop, and a push future is pending exactly while its item is blocked. '
                'MOVE-ONLY ITEMS (units lm_push / lm_pop / lm_unblock_push / lm_dtor on cocls::limited_queue<mo_item>, mo_item = drivers/c09_mo_item.h with its REAL translated move constructor / destructor): on every path the object that '
                'reaches the consumer, the item sequence or the blocked-producer sequence carries the pushed tag and is not moved-from (a pending push really HOLDS its item; the held item arrives intact at the back of Q when a pop makes room), '
                'the pushed object is moved from exactly once, live instances are conserved (push + 1 on all three paths incl. the temporaries of the blocked path, pop + 0 also when a blocked item moves from B to Q), push / pop destroy no '
                'instance that still carries its value, unblock_push destroys exactly one - the withdrawn item (its tag is checked) - and ~limited_queue() destroys exactly the |Q| + |B| items inside (none leaked); natively cross-checked by replay/c09_mo_queue.cpp. '
                'The pinned tree failed three postconditions of limited_queue::push (item emplaced AND parked: delivered twice; blocked one item early) - repaired by /repo commit a2f611a, native replay replay/c10_dup.cpp. Bounded siblings (lq_*_bounded and, for the move-only contracts, lm_*_bounded: limit <= 4, loops unwound) decide the same contracts when a member is rewritten with a new loop.'),
    level_note=('Same reduction as C09: sequential contracts per critical section + machine-checked lock discipline (containers only while the mutex is held, parked promises resolved / coroutines resumed after unlock, '
                'one critical section per operation) stand for "every interleaving"; no real producer/consumer threads are run. Limits are symbolic (any value in the per-function contracts, >= 1 in the lemma), '
                'not 1..4. promise/future are abstract (resolution log); the readiness of the future returned by push is a fact about the real future object built by the real translated constructors. '
                'unblock_pop is not reachable through limited_queue (protected base, no using-declaration) and is therefore not part of the histories. T=int and the move-only T=mo_item (push, pop, unblock_push, destructor; the constructor and '
                'size/empty do not touch items; the history lemma is over the int contracts) with the default policies are instantiated. '
                'The conservation sum is derived from the lockstep counting invariant by an arithmetic lemma that needs an SMT back end (z3) - solver-specific. The history lemma is a statement about the contracts: '
                'it is meaningful because every member satisfies its contract (units lq_*).'),
    technique=('CBMC 6.11 code contracts enforced per function with goto-instrument --dfcc on the C translation (ir2c) of the clang IR of the real queue.h; std containers and promise operations as assumed-contract '
               'boundary models with a ghost-index element view; history lemma = loop contract over replaced contracts; z3 for pure linear arithmetic; native replay against the real headers'),
    trusted_base=['assumed contract: std::queue<int>, std::queue<promise<int>>, std::queue<pair<int,promise<void>>> are unbounded FIFOs with move-in / destroy-on-pop element semantics (lib/model_awq_containers.c)',
                  'abstract boundary: cocls::promise<T> operations and suspend_point<bool>::~suspend_point as ghost-logging stubs (lib/model_awq_promise.c); future.h internals not translated',
                  'assumed contract (move-only units): std::queue<mo_item>, std::queue<promise<mo_item>>, std::queue<pair<mo_item,promise<void>>> as FIFOs that run the REAL mo_item move constructor / destructor where the real containers would (element construction on push/emplace, destruction on pop and in ~queue); promise<mo_item>::operator()(mo_item&&) move-constructs the future\'s value once; std::pair special members are the real translated libstdc++ ones (lib/model_awq_mo.c)',
                  'primitive: std::mutex via pthread_mutex_lock/unlock with lock-discipline obligations (lib/model_mutex.c)',
                  'rely/guarantee reduction of interleavings to sequential histories of critical sections (argued, DESIGN 3.5)'],
    assumptions=['ghost positions / event counters are mathematical integers (never wrap: fewer than 2^62 operations)',
                 'std::queue operations do not throw (bad_alloc assumed away); pthread_mutex_lock never fails',
                 'history lemma: limit >= 1; starts at the constructor and continues from an arbitrary state satisfying the invariant; claims about a tagged item are made for the aligned valuation of the ghost positions',
                 'the object invariant "a producer is blocked only while the queue is full" (B non-empty => |Q| >= limit) is part of every precondition; it is established by the constructor and re-proved by every operation'],
    explanation='see level_text')
