/* C10 harnesses for the move-only payload units. */
#ifdef CV_HAS_lm_push
void h_lm_push(void) { FUTV *r; LM *q; MO *v; lm_push(r, q, v); __CPROVER_assert(0, "SENTINEL reachable"); }
#endif
#ifdef CV_HAS_lm_pop
void h_lm_pop(void) { FUTM *r; LM *q; lm_pop(r, q); __CPROVER_assert(0, "SENTINEL reachable"); }
#endif
#ifdef CV_HAS_lm_unblock_push
void h_lm_unblock_push(void) { SPB *r; LM *q; EXCP *e; lm_unblock_push(r, q, e); __CPROVER_assert(0, "SENTINEL reachable"); }
#endif
#ifdef CV_HAS_lm_dtor
void h_lm_dtor(void) { LM *q; lm_dtor(q); __CPROVER_assert(0, "SENTINEL reachable"); }
#endif
