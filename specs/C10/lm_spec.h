/* C10 - cocls::limited_queue<mo_item>: the contracts of lq_spec.h (taken from the property statement) for a MOVE-ONLY item type
 * (drivers/c09_mo_item.h), plus what "never loses or duplicates an item ... a blocked push stays pending - HOLDING ITS ITEM - ... unblock_push
 * WITHDRAWS its item" means for an object:
 *   D1  the object that reaches the consumer / the item sequence / the blocked-producer sequence carries the pushed tag and is NOT moved-from
 *   D2  the object the caller pushed is moved from exactly once
 *   D3  live instances: push + 1 on every path (hand-over, stored, blocked - temporaries are gone); pop + 0 also when a blocked item moves from B
 *       to Q (the future's value + 1, Q's husk - 1, B -> Q neutral); unblock_push - 1 (exactly the withdrawn item)
 *   D4  push / pop destroy no instance that still carries its value; unblock_push destroys exactly one: the withdrawn item (its tag is checked)
 *   D5  ~limited_queue() destroys exactly the items inside (|Q| + |B|): none leaked
 * Containers / promise<mo_item>: lib/model_awq_mo.c (runs the real translated move constructor / destructor of mo_item);
 * std::pair<mo_item, promise<void>> special members are the real translated libstdc++ ones. */
#define LM_MX(q)    ((void *)&(q)->base_queue._mx)
#define LM_MODEL    LOCK_STATE, gh_pr, MQ_STATE, WQ_STATE, BQ_STATE, MO_STATE
#define MINV9       (!(MQ_LEN > 0 && WQ_LEN > 0))
#define MINV10(q)   (BQ_LEN > 0 ==> MQ_LEN >= (q)->_limit)
#define LM_WF(q)    (MQ_INV && WQ_INV && BQ_INV && MINV9 && MINV10(q))
/* CV_BOUNDED_FALLBACK: the same contracts by unwinding for small states (decides a rewritten member that contains a NEW loop); labelled bounded */
#ifdef CV_BOUNDED_FALLBACK
#define LM_BOUND(q) (bq_tail - bq_head <= 4 && mq_tail - mq_head <= 5 && wq_tail - wq_head <= 4 && (q)->_limit <= 4)
#else
#define LM_BOUND(q) 1
#endif
#define LM_PRE(q)   (cv_exc_pending == 0 && __CPROVER_is_fresh(q, sizeof(*(q))) && LM_BOUND(q) && LOCK_IDLE && gh_q_mx == LM_MX(q) && gh_q_lock_required == 1 && \
                     PR_LOG_CLEAN && MQ_CLEAN && WQ_CLEAN && BQ_CLEAN && MO_CLEAN && LM_WF(q))
#define LM_POST(q)  (cv_exc_pending == 0 && LM_WF(q) && MQ_SYNC && BQ_SYNC && PR_HYGIENE && (q)->_limit == OLD((q)->_limit) && gh_mq.bad_in == 0 && gh_bq.bad_in == 0 && gh_mo.src_was_moved == 0)
#define MTRK_SAME   (mq_trk.tag == OLD(mq_trk.tag) && mq_trk.moved_cnt == OLD(mq_trk.moved_cnt))
#define BTRK_SAME   (bq_trk_item.tag == OLD(bq_trk_item.tag) && bq_trk_item.moved_cnt == OLD(bq_trk_item.moved_cnt) && bq_trk_id == OLD(bq_trk_id))
#define LM_Q_SAME   (mq_head == OLD(mq_head) && mq_tail == OLD(mq_tail) && MTRK_SAME)
#define LM_W_SAME   (wq_head == OLD(wq_head) && wq_tail == OLD(wq_tail) && wq_trk == OLD(wq_trk))
#define LM_B_SAME   (bq_head == OLD(bq_head) && bq_tail == OLD(bq_tail) && BTRK_SAME)
#define MW_NONEMPTY0 (OLD(wq_head) < OLD(wq_tail))
#define MQ_NONEMPTY0 (OLD(mq_head) < OLD(mq_tail))
#define MB_NONEMPTY0 (OLD(bq_head) < OLD(bq_tail))
#define MLEN0       (OLD(mq_tail) - OLD(mq_head))
#define MROOM0(q)   (!MW_NONEMPTY0 && MLEN0 <  OLD((q)->_limit))
#define MFULL0(q)   (!MW_NONEMPTY0 && MLEN0 >= OLD((q)->_limit))
#define NO_VALUE_DIED (*MO_DEAD == OLD(*MO_DEAD))

#ifdef CV_HAS_lm_push
void lm_push(FUTV *ret, LM *this_, MO *args)
__CPROVER_requires(LM_PRE(this_) && __CPROVER_is_fresh(ret, sizeof(*ret)) && __CPROVER_is_fresh(args, sizeof(*args)) && MO_VALUED(*args))
__CPROVER_assigns(__CPROVER_object_whole(ret), __CPROVER_object_whole(args), LM_MODEL)
__CPROVER_ensures(LM_POST(this_) && ONE_CS)
/* (a) a pop is waiting: the oldest one receives the item, once, after the lock was released; the push completes immediately */
__CPROVER_ensures(MW_NONEMPTY0 ==> (wq_head == OLD(wq_head) + 1 && wq_tail == OLD(wq_tail) && wq_trk == OLD(wq_trk) && LM_Q_SAME && LM_B_SAME))
__CPROVER_ensures(MW_NONEMPTY0 ==> (gh_pr.n == 1 && gh_pr.kind[0] == PR_VALUE && gh_pr.locked[0] == 0 && gh_mo.n_deliv == 1))
__CPROVER_ensures((MW_NONEMPTY0 && gh_WK == OLD(wq_head)) ==> gh_pr.id[0] == OLD(wq_trk))
__CPROVER_ensures(MW_NONEMPTY0 ==> (gh_mo.deliv.tag == OLD(args->tag) && gh_mo.deliv.moved_cnt == 0))                         /* D1 */
__CPROVER_ensures(MW_NONEMPTY0 ==> (FUTV_IS_READY(ret) && gh_pr.fresh_n == 0))
/* (b) room: the push completes immediately with the item appended at the tail of Q */
__CPROVER_ensures(MROOM0(this_) ==> (FUTV_IS_READY(ret) && gh_pr.fresh_n == 0 && LM_B_SAME))
__CPROVER_ensures(MROOM0(this_) ==> (mq_tail == OLD(mq_tail) + 1 && mq_head == OLD(mq_head) && LM_W_SAME && gh_pr.n == 0 && gh_mo.n_deliv == 0))
__CPROVER_ensures((MROOM0(this_) && gh_MK == OLD(mq_tail)) ==> (mq_trk.tag == OLD(args->tag) && mq_trk.moved_cnt == 0))      /* D1 */
__CPROVER_ensures((MROOM0(this_) && gh_MK != OLD(mq_tail)) ==> MTRK_SAME)
/* (c) full: the push stays pending - holding its item: the item is ONLY in B, behind the earlier blocked pushes */
__CPROVER_ensures(MFULL0(this_) ==> LM_Q_SAME)
__CPROVER_ensures(MFULL0(this_) ==> (FUT_PENDING(ret) && gh_pr.fresh == ret && gh_pr.fresh_n == 1 && gh_pr.n == 0 && gh_mo.n_deliv == 0 && LM_W_SAME))
__CPROVER_ensures(MFULL0(this_) ==> (bq_tail == OLD(bq_tail) + 1 && bq_head == OLD(bq_head)))
__CPROVER_ensures((MFULL0(this_) && gh_BK == OLD(bq_tail)) ==> (bq_trk_item.tag == OLD(args->tag) && bq_trk_item.moved_cnt == 0 && bq_trk_id == ret))   /* D1: the pending push holds the item */
__CPROVER_ensures((MFULL0(this_) && gh_BK != OLD(bq_tail)) ==> BTRK_SAME)
__CPROVER_ensures(args->moved_cnt == 1)                                                                                        /* D2 */
__CPROVER_ensures(*MO_LIVE == OLD(*MO_LIVE) + 1)                                                                               /* D3 */
__CPROVER_ensures(NO_VALUE_DIED)                                                                                               /* D4 */
;
#endif

#ifdef CV_HAS_lm_pop
void lm_pop(FUTM *ret, LM *this_)
__CPROVER_requires(LM_PRE(this_) && __CPROVER_is_fresh(ret, sizeof(*ret)))
__CPROVER_assigns(__CPROVER_object_whole(ret), LM_MODEL)
__CPROVER_ensures(LM_POST(this_) && ONE_CS)
__CPROVER_ensures(gh_pr.fresh == ret && gh_pr.fresh_n == 1)
/* (a) an item is waiting: the oldest item is removed and delivered to this pop */
__CPROVER_ensures(MQ_NONEMPTY0 ==> (mq_head == OLD(mq_head) + 1 && LM_W_SAME && gh_pr.n >= 1 && gh_pr.id[0] == ret && gh_pr.kind[0] == PR_VALUE && gh_mo.n_deliv == 1))
__CPROVER_ensures((MQ_NONEMPTY0 && gh_MK == OLD(mq_head)) ==> gh_mo.deliv.tag == OLD(mq_trk.tag))                             /* D1 */
__CPROVER_ensures(MQ_NONEMPTY0 ==> gh_mo.deliv.moved_cnt == 0)                                                                 /* D1: never a husk */
/* (a1) ... and a producer is blocked: exactly the OLDEST one leaves B, its item goes to the back of Q, exactly its push completes - after unlock */
__CPROVER_ensures((MQ_NONEMPTY0 && MB_NONEMPTY0) ==> (bq_head == OLD(bq_head) + 1 && bq_tail == OLD(bq_tail) && BTRK_SAME))
__CPROVER_ensures((MQ_NONEMPTY0 && MB_NONEMPTY0) ==> (mq_tail == OLD(mq_tail) + 1 && gh_pr.n == 2 && gh_pr.kind[1] == PR_VALUE && gh_pr.locked[1] == 0))
__CPROVER_ensures((MQ_NONEMPTY0 && MB_NONEMPTY0 && gh_BK == OLD(bq_head)) ==> gh_pr.id[1] == OLD(bq_trk_id))
__CPROVER_ensures((MQ_NONEMPTY0 && MB_NONEMPTY0 && gh_BK == OLD(bq_head) && gh_MK == OLD(mq_tail)) ==> (mq_trk.tag == OLD(bq_trk_item.tag) && mq_trk.moved_cnt == 0))   /* D1: the held item arrives intact */
__CPROVER_ensures((MQ_NONEMPTY0 && MB_NONEMPTY0 && gh_MK == OLD(mq_tail)) ==> mq_trk.moved_cnt == 0)
__CPROVER_ensures((MQ_NONEMPTY0 && MB_NONEMPTY0 && gh_MK != OLD(mq_tail)) ==> MTRK_SAME)
/* (a2) ... nobody is blocked: nothing else happens */
__CPROVER_ensures((MQ_NONEMPTY0 && !MB_NONEMPTY0) ==> (LM_B_SAME && mq_tail == OLD(mq_tail) && MTRK_SAME && gh_pr.n == 1))
/* (b) no item: the pop is parked behind the earlier waiting pops, pending */
__CPROVER_ensures(!MQ_NONEMPTY0 ==> (wq_tail == OLD(wq_tail) + 1 && wq_head == OLD(wq_head) && LM_Q_SAME && LM_B_SAME && gh_pr.n == 0 && gh_mo.n_deliv == 0 && FUT_PENDING(ret)))
__CPROVER_ensures((!MQ_NONEMPTY0 && gh_WK == OLD(wq_tail)) ==> wq_trk == ret)
__CPROVER_ensures((!MQ_NONEMPTY0 && gh_WK != OLD(wq_tail)) ==> wq_trk == OLD(wq_trk))
__CPROVER_ensures(*MO_LIVE == OLD(*MO_LIVE))                                                                                   /* D3 */
__CPROVER_ensures(NO_VALUE_DIED)                                                                                               /* D4 */
;
#endif

#ifdef CV_HAS_lm_unblock_push
void lm_unblock_push(SPB *ret, LM *this_, EXCP *e)
__CPROVER_requires(LM_PRE(this_) && __CPROVER_is_fresh(ret, sizeof(*ret)) && __CPROVER_is_fresh(e, sizeof(*e)) && *MO_LIVE >= 1)
__CPROVER_assigns(__CPROVER_object_whole(ret), LM_MODEL, gh_ep_addref, gh_ep_release)
__CPROVER_ensures(LM_POST(this_) && ONE_CS && gh_pr.fresh_n == 0 && gh_mo.n_deliv == 0)
__CPROVER_ensures(LM_Q_SAME && LM_W_SAME)                                                 /* no item is delivered or queued, no pop is touched */
/* a producer is blocked: exactly the OLDEST one is removed and fails with exactly e, outside the lock */
__CPROVER_ensures(MB_NONEMPTY0 ==> (bq_head == OLD(bq_head) + 1 && bq_tail == OLD(bq_tail) && BTRK_SAME))
__CPROVER_ensures(MB_NONEMPTY0 ==> (gh_pr.n == 1 && gh_pr.kind[0] == PR_EXC && gh_pr.exc[0] == OLD(e->_M_exception_object) && gh_pr.locked[0] == 0 && ret->value == 1))
__CPROVER_ensures((MB_NONEMPTY0 && gh_BK == OLD(bq_head)) ==> gh_pr.id[0] == OLD(bq_trk_id))
/* ... and its item is WITHDRAWN: exactly that one instance is destroyed (D3/D4), not leaked, nothing else dies */
__CPROVER_ensures(MB_NONEMPTY0 ==> (*MO_LIVE == OLD(*MO_LIVE) - 1 && *MO_DEAD == OLD(*MO_DEAD) + 1))
__CPROVER_ensures((MB_NONEMPTY0 && gh_BK == OLD(bq_head)) ==> *MO_DEAD_TAG == OLD(bq_trk_item.tag))
/* nobody is blocked: nothing happens */
__CPROVER_ensures(!MB_NONEMPTY0 ==> (LM_B_SAME && gh_pr.n == 0 && ret->value == 0 && *MO_LIVE == OLD(*MO_LIVE) && NO_VALUE_DIED))
__CPROVER_ensures(e->_M_exception_object == OLD(e->_M_exception_object))
__CPROVER_ensures(gh_ep_addref - OLD(gh_ep_addref) == gh_ep_release - OLD(gh_ep_release) + ((MB_NONEMPTY0 && e->_M_exception_object != 0) ? 1 : 0))
;
#endif

#ifdef CV_HAS_lm_dtor
void lm_dtor(LM *this_)
__CPROVER_requires(cv_exc_pending == 0 && __CPROVER_is_fresh(this_, sizeof(*this_)) && LOCK_IDLE && gh_q_lock_required == 0 && PR_LOG_CLEAN && MQ_CLEAN && WQ_CLEAN && BQ_CLEAN && MO_CLEAN && LM_WF(this_))
__CPROVER_requires(MQ_LEN < (1 << 20) && BQ_LEN < (1 << 20) && *MO_LIVE >= MQ_LEN + BQ_LEN)
__CPROVER_assigns(LM_MODEL)
__CPROVER_ensures(cv_exc_pending == 0 && LOCK_IDLE && gh_n_lock == OLD(gh_n_lock))
__CPROVER_ensures(wq_dtor_n == 1 && wq_dropped_lo == OLD(wq_head) && wq_dropped_hi == OLD(wq_tail))
__CPROVER_ensures(bq_dtor_n == 1 && bq_dropped_lo == OLD(bq_head) && bq_dropped_hi == OLD(bq_tail))
__CPROVER_ensures((gh_WK >= OLD(wq_head) && gh_WK < OLD(wq_tail)) ==> wq_trk_drops == 1)
__CPROVER_ensures((gh_BK >= OLD(bq_head) && gh_BK < OLD(bq_tail)) ==> bq_trk_drops == 1)
__CPROVER_ensures(gh_pr.n == 0 && gh_pr.lost == 0 && gh_mo.n_deliv == 0)
/* D5: the items inside (queued and held by blocked pushes) are destroyed, exactly once each */
__CPROVER_ensures(gh_mq.dtor_n == 1 && gh_mq.dropped_lo == OLD(mq_head) && gh_mq.dropped_hi == OLD(mq_tail))
__CPROVER_ensures((gh_MK >= OLD(mq_head) && gh_MK < OLD(mq_tail)) ==> gh_mq.trk_drops == 1)
__CPROVER_ensures(*MO_LIVE == OLD(*MO_LIVE) - (unsigned)(OLD(mq_tail) - OLD(mq_head)) - (unsigned)(OLD(bq_tail) - OLD(bq_head)))
;
#endif
