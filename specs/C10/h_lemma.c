/* C10 - history lemma over the CONTRACTS of limited_queue<int> (DESIGN 3.6).
 *
 *   lq_lemma():  construct the queue (contract of the constructor), then an UNBOUNDED loop "pick any public operation and call it" where every
 *   call is REPLACED by its contract (lq_spec.h) - the contracts are in turn enforced on the real bodies by the lq_* units.
 *
 * The loop invariant tracks two arbitrary tagged pushes a (earlier) and b (later) and event counters:
 *   COUNTING       every push is exactly one of handed-over / appended to Q / blocked; the counters move in lockstep with the absolute positions
 *                  of the three sequences (LQ_COUNT_INV).  From these equalities the conservation law
 *                        pushes == handed-over + delivered + withdrawn + |Q| + |B|          (no item is ever lost or duplicated)
 *                  follows by linear arithmetic - checked separately by lq_conservation() with an SMT back end (64-bit sums of five terms are
 *                  hopeless for SAT; z3 normalises them in milliseconds).
 *   ONE PLACE      a tagged item is in exactly one of { not pushed, Q at position pos, B at position pos, delivered, handed to a waiting pop,
 *                  withdrawn }; it stays inside the live range of its sequence until exactly the operation that takes that position, which
 *                  delivers exactly its value / completes or fails exactly its push future
 *   ORDER          a pushed before b  =>  a is ahead of b (Q before B, lower position first); b is never delivered, completed or withdrawn from B
 *                  while a is still waiting in front of it: delivery order = push order, blocked pushes complete in arrival order, one per pop
 *   PUSH FUTURE    ready at once iff the item went to a waiting pop or into Q (|Q| < limit); pending exactly while the item is in B; completed
 *                  exactly by the pop that moves the item into Q; failed exactly by the unblock_push that withdraws it
 * Ghost indices: the contracts speak about the arbitrary-but-fixed positions gh_IK (Q) and gh_BK (B).  A tagged item carries the flag `al`
 * ("aligned"): the ghost positions coincide with the positions this item takes.  Value/identity facts are claimed under `al`; since gh_IK/gh_BK
 * are universally quantified and an item takes at most one B position and one Q position, for every history there is an aligned valuation.
 * The futures of the two tagged pushes are the distinct objects fut_a / fut_b (a pending future must stay alive, so real callers use distinct
 * objects too); all other pushes share fut_o, all pops share pop_f (their identities are not tracked).
 * Assumptions of the lemma: limit >= 1 (the property quantifies over limits 1..4; the per-function contracts hold for every limit); ghost
 * positions never wrap (2^62 operations).  The SENTINELs inside the branches show that every case of every operation is reachable. */
#define LQ_COUNT_INV (n_deliv == iq_head && n_full == bq_tail && n_parked == wq_tail && n_handed == wq_head && \
                      iq_tail == n_room + n_moved && bq_head == n_moved + n_withdrawn && n_push == n_handed + n_room + n_full)
#ifdef CV_HAS_lq_lemma
#define T_NOTP 0
#define T_INQ 1
#define T_INB 2
#define T_DELIV 3
#define T_HANDED 4
#define T_WITHDRAWN 5
#define F_NONE 0
#define F_READY 1          /* ready when push returned       */
#define F_PENDING 2
#define F_COMPLETED 3      /* was pending, completed by a pop */
#define F_FAILED 4         /* was pending, failed by unblock_push */
struct lq_tag { int loc; cv_i64 pos; cv_i32 v; int al; int fut; };
#define TAG_INV(t, fp) ( (t).loc >= T_NOTP && (t).loc <= T_WITHDRAWN && \
   ((t).loc == T_NOTP      ==> (t).fut == F_NONE) && \
   ((t).loc == T_INQ       ==> (iq_head <= (t).pos && (t).pos < iq_tail && ((t).fut == F_READY || (t).fut == F_COMPLETED) && ((t).al ==> (gh_IK == (t).pos && iq_trk == (t).v)))) && \
   ((t).loc == T_INB       ==> (bq_head <= (t).pos && (t).pos < bq_tail && (t).fut == F_PENDING && ((t).al ==> (gh_BK == (t).pos && bq_trk_item == (t).v && bq_trk_id == (void *)(fp))))) && \
   ((t).loc == T_DELIV     ==> ((t).pos < iq_head && ((t).fut == F_READY || (t).fut == F_COMPLETED))) && \
   ((t).loc == T_HANDED    ==> (t).fut == F_READY) && \
   ((t).loc == T_WITHDRAWN ==> (t).fut == F_FAILED) )
#define T_DONE(t) ((t).loc == T_DELIV || (t).loc == T_HANDED || (t).loc == T_WITHDRAWN)
#define ORD_INV(a, b) ( ((b).loc != T_NOTP ==> (a).loc != T_NOTP) && \
   (((a).loc == T_INQ && (b).loc == T_INQ) ==> (a).pos < (b).pos) && \
   (((a).loc == T_INB && (b).loc == T_INB) ==> (a).pos < (b).pos) && \
   ((a).loc == T_INB ==> ((b).loc == T_NOTP || (b).loc == T_INB)) &&                 /* b does not leave B (completed / withdrawn) before a does  */ \
   ((a).loc == T_INQ ==> ((b).loc != T_DELIV && (b).loc != T_HANDED)) &&             /* b is not delivered before a                               */ \
   (((a).loc == T_DELIV && (b).loc == T_DELIV) ==> (a).pos < (b).pos) )              /* a single consumer sees push order                          */
#define LEMMA_ENV(q) (cv_exc_pending == 0 && LOCK_IDLE && gh_q_mx == LQ_MX(q) && gh_q_lock_required == 1 && LQ_WF(q) && (q)->_limit == limit0 && limit0 >= 1)

void lq_lemma(void)
__CPROVER_requires(cv_exc_pending == 0 && LOCK_IDLE)
__CPROVER_assigns(LQ_MODEL, gh_q_mx, gh_q_lock_required, gh_ep_addref, gh_ep_release)
__CPROVER_ensures(1)
{
  LQ q_obj; LQ *q = &q_obj;
  FUTV fut_a, fut_b, fut_o; FUTI pop_f; SPB sp; EXCP e; cv_i32 v;
  cv_i64 limit0 = nondet_size_t(); __CPROVER_assume(limit0 >= 1);
  struct lq_tag a = {T_NOTP, 0, 0, 0, F_NONE}, b = {T_NOTP, 0, 0, 0, F_NONE};
  cv_i64 n_push = 0, n_handed = 0, n_room = 0, n_full = 0, n_deliv = 0, n_moved = 0, n_withdrawn = 0, n_parked = 0;
  /* ---- the history starts with the constructor */
  gh_q_lock_required = 0;
  lq_ctor(q, limit0);
  gh_q_mx = LQ_MX(q); gh_q_lock_required = 1;
  __CPROVER_assert(LEMMA_ENV(q) && LQ_COUNT_INV && TAG_INV(a, &fut_a) && TAG_INV(b, &fut_b) && ORD_INV(a, b), "LEMMA base: the constructor establishes the invariant of the history loop");
  /* continue from an ARBITRARY state satisfying the invariant (what the loop contract does anyway; done explicitly so that the first,
   * peeled iteration of the instrumented loop also sees every case - all branch SENTINELs must be reachable in every copy) */
  { struct cv_iq_state hq; struct cv_wq_state hw; struct cv_bq_state hb; struct lq_tag ha, hb2; gh_iq = hq; gh_wq = hw; gh_bq = hb; a = ha; b = hb2;
    n_push = nondet_size_t(); n_handed = nondet_size_t(); n_room = nondet_size_t(); n_full = nondet_size_t(); n_deliv = nondet_size_t(); n_moved = nondet_size_t();
    n_withdrawn = nondet_size_t(); n_parked = nondet_size_t();
    __CPROVER_assume(LEMMA_ENV(q) && LQ_COUNT_INV && TAG_INV(a, &fut_a) && TAG_INV(b, &fut_b) && ORD_INV(a, b)); }

  while (nondet_bool())
  __CPROVER_assigns(LQ_MODEL, gh_ep_addref, gh_ep_release, a, b, n_push, n_handed, n_room, n_full, n_deliv, n_moved, n_withdrawn, n_parked, fut_a, fut_b, fut_o, pop_f, sp, e, v)
  __CPROVER_loop_invariant(LEMMA_ENV(q))
  __CPROVER_loop_invariant(LQ_COUNT_INV)
  __CPROVER_loop_invariant(TAG_INV(a, &fut_a) && TAG_INV(b, &fut_b) && ORD_INV(a, b))
  {
    /* per-call ghost logs start clean (they describe one call) */
    gh_pr.n = 0; gh_pr.lost = 0; gh_pr.fresh = 0; gh_pr.fresh_n = 0; gh_pr.sp_flush = 0; gh_pr.sp_flush_locked = 0;
    wq_slot_pos = QM_NOPOS; wq_dtor_n = 0; wq_trk_drops = 0; bq_slot_pos = QM_NOPOS; bq_dtor_n = 0; bq_trk_drops = 0;
    QM_NOWRAP(iq_tail); QM_NOWRAP(bq_tail); QM_NOWRAP(wq_tail);        /* ghost positions are mathematical integers: they never wrap (as in the container model) */
    cv_i64 h0 = iq_head, t0 = iq_tail, bh0 = bq_head, bt0 = bq_tail, wh0 = wq_head, wt0 = wq_tail;
    unsigned op = nondet_unsigned();
    if (op == 0) {                                                      /* ---------------- push(v) */
      int tag_a = (a.loc == T_NOTP && nondet_bool());                   /* this push becomes the tagged push a ...            */
      int tag_b = (!tag_a && a.loc != T_NOTP && b.loc == T_NOTP && nondet_bool());   /* ... or b (always later than a)       */
      FUTV *r = tag_a ? &fut_a : (tag_b ? &fut_b : &fut_o);
      v = nondet_unsigned(); cv_i32 v0 = v;
      lq_push(r, q, &v);
      n_push++;
      struct lq_tag t = {T_NOTP, 0, v0, 0, F_NONE};
      if (wh0 < wt0) {                                                  /* handed to the oldest waiting pop                    */
        n_handed++;
        __CPROVER_assert(gh_pr.n == 1 && gh_pr.kind[0] == PR_VALUE && gh_pr.val[0] == v0, "LEMMA push/handed: exactly one waiting pop receives exactly the pushed value");
        __CPROVER_assert(FUTV_IS_READY(r), "LEMMA push/handed: the push completes immediately");
        t.loc = T_HANDED; t.fut = F_READY;
        __CPROVER_assert(0, "SENTINEL reachable: push handed to a waiting pop");
      } else if (t0 - h0 < limit0) {                                    /* room: appended to Q                                 */
        n_room++;
        __CPROVER_assert(FUTV_IS_READY(r), "LEMMA push/room: a push completes immediately while fewer than limit items are waiting");
        __CPROVER_assert(bq_tail == bt0 && iq_tail == t0 + 1, "LEMMA push/room: the item is in Q and nobody became blocked");
        t.loc = T_INQ; t.pos = t0; t.al = (gh_IK == t0); t.fut = F_READY;
        __CPROVER_assert(0, "SENTINEL reachable: push appended to Q");
      } else {                                                          /* full: parked in B, holding its item                 */
        n_full++;
        __CPROVER_assert(FUT_PENDING(r) && gh_pr.n == 0, "LEMMA push/full: the push stays pending");
        __CPROVER_assert(iq_tail == t0 && bq_tail == bt0 + 1, "LEMMA push/full: the item is only in B");
        t.loc = T_INB; t.pos = bt0; t.al = (gh_BK == bt0); t.fut = F_PENDING;
        __CPROVER_assert(0, "SENTINEL reachable: push blocked");
      }
      if (tag_a) a = t;
      if (tag_b) { b = t;
        __CPROVER_assert(!(t.loc == T_HANDED) || T_DONE(a), "LEMMA order: a later push is handed to a waiting pop only when no earlier item is still waiting"); }
    } else if (op == 1) {                                               /* ---------------- pop() */
      lq_pop(&pop_f, q);
      if (h0 < t0) {                                                    /* position h0 of Q is delivered to this pop           */
        n_deliv++;
        __CPROVER_assert(gh_pr.id[0] == &pop_f && gh_pr.kind[0] == PR_VALUE, "LEMMA pop: this pop is completed with a value");
        if (a.loc == T_INQ && a.pos == h0) { __CPROVER_assert(!a.al || gh_pr.val[0] == a.v, "LEMMA pop: the pop that takes the tagged item's position receives exactly its value (a)"); a.loc = T_DELIV;
          __CPROVER_assert(0, "SENTINEL reachable: tagged item a delivered"); }
        if (b.loc == T_INQ && b.pos == h0) { __CPROVER_assert(!b.al || gh_pr.val[0] == b.v, "LEMMA pop: the pop that takes the tagged item's position receives exactly its value (b)");
          __CPROVER_assert(T_DONE(a), "LEMMA order: b is delivered only after a was delivered (or withdrawn)"); b.loc = T_DELIV;
          __CPROVER_assert(0, "SENTINEL reachable: tagged item b delivered"); }
        if (bh0 < bt0) { n_moved++;                                     /* the oldest blocked push moves into Q and completes  */
          __CPROVER_assert(gh_pr.n == 2 && gh_pr.kind[1] == PR_VALUE && gh_pr.locked[1] == 0, "LEMMA pop: exactly one blocked push completes per pop, outside the lock");
          if (a.loc == T_INB && a.pos == bh0) { __CPROVER_assert(!a.al || gh_pr.id[1] == (void *)&fut_a, "LEMMA pop: the completed push is the tagged one (a)");
            a.loc = T_INQ; a.pos = t0; a.al = a.al && (gh_IK == t0); a.fut = F_COMPLETED;
            __CPROVER_assert(0, "SENTINEL reachable: blocked push a completed by a pop"); }
          if (b.loc == T_INB && b.pos == bh0) { __CPROVER_assert(!b.al || gh_pr.id[1] == (void *)&fut_b, "LEMMA pop: the completed push is the tagged one (b)");
            __CPROVER_assert(a.loc != T_INB, "LEMMA order: blocked pushes complete in arrival order");
            b.loc = T_INQ; b.pos = t0; b.al = b.al && (gh_IK == t0); b.fut = F_COMPLETED;
            __CPROVER_assert(0, "SENTINEL reachable: blocked push b completed by a pop"); }
        } else {
          __CPROVER_assert(gh_pr.n == 1, "LEMMA pop: nobody else is completed");
        }
      } else {
        n_parked++;
        __CPROVER_assert(gh_pr.n == 0 && FUT_PENDING(&pop_f) && wq_tail == wt0 + 1, "LEMMA pop/empty: the pop waits");
        __CPROVER_assert(0, "SENTINEL reachable: pop parked");
      }
    } else if (op == 2) {                                               /* ---------------- unblock_push(e) */
      cv_i8 *e0 = (cv_i8 *)nondet_size_t(); e._M_exception_object = e0;
      lq_unblock_push(&sp, q, &e);
      if (bh0 < bt0) {
        n_withdrawn++;
        __CPROVER_assert(gh_pr.n == 1 && gh_pr.kind[0] == PR_EXC && gh_pr.exc[0] == (void *)e0, "LEMMA unblock_push: exactly one push fails, with exactly e");
        __CPROVER_assert(iq_head == h0 && iq_tail == t0, "LEMMA unblock_push: the item is withdrawn (not queued, not delivered)");
        if (a.loc == T_INB && a.pos == bh0) { __CPROVER_assert(!a.al || gh_pr.id[0] == (void *)&fut_a, "LEMMA unblock_push: the failed push is the oldest blocked one (a)"); a.loc = T_WITHDRAWN; a.fut = F_FAILED;
          __CPROVER_assert(0, "SENTINEL reachable: blocked push a withdrawn"); }
        if (b.loc == T_INB && b.pos == bh0) { __CPROVER_assert(!b.al || gh_pr.id[0] == (void *)&fut_b, "LEMMA unblock_push: the failed push is the oldest blocked one (b)");
          __CPROVER_assert(a.loc != T_INB, "LEMMA order: unblock_push fails the OLDEST blocked push"); b.loc = T_WITHDRAWN; b.fut = F_FAILED;
          __CPROVER_assert(0, "SENTINEL reachable: blocked push b withdrawn"); }
      } else {
        __CPROVER_assert(gh_pr.n == 0 && sp.value == 0, "LEMMA unblock_push: nothing happens when nobody is blocked");
      }
    } else if (op == 3) {                                               /* ---------------- size() */
      cv_i64 s = lq_size(&q->base_queue);
      __CPROVER_assert(s == IQ_LEN, "LEMMA size: the number of waiting items (blocked items are not counted)");
    } else {                                                            /* ---------------- empty() */
      cv_i1 em = lq_empty(&q->base_queue);
      __CPROVER_assert((em != 0) == (IQ_LEN == 0), "LEMMA empty");
    }
  }
  __CPROVER_assert(0, "SENTINEL reachable: after the history loop");
}
void h_lq_lemma(void) { lq_lemma(); __CPROVER_assert(0, "SENTINEL reachable"); }
#endif

/* ---- conservation as a consequence of the counting invariant: pure linear arithmetic over the counters, checked with an SMT back end.
 * (The counting invariant LQ_COUNT_INV is the loop invariant of lq_lemma above - same macro.) */
#ifdef CV_LQ_CONSERVATION
void h_lq_conservation(void) {
  cv_i64 n_push = nondet_size_t(), n_handed = nondet_size_t(), n_room = nondet_size_t(), n_full = nondet_size_t(), n_deliv = nondet_size_t(),
         n_moved = nondet_size_t(), n_withdrawn = nondet_size_t(), n_parked = nondet_size_t();
  iq_head = nondet_size_t(); iq_tail = nondet_size_t(); bq_head = nondet_size_t(); bq_tail = nondet_size_t(); wq_head = nondet_size_t(); wq_tail = nondet_size_t();
  if (LQ_COUNT_INV) {
    __CPROVER_assert(n_push == n_handed + n_deliv + n_withdrawn + IQ_LEN + BQ_LEN, "LEMMA conservation: every pushed item was handed over, delivered or withdrawn exactly once, or is still held exactly once (in Q or by a blocked push)");
    __CPROVER_assert(BQ_LEN == n_full - n_moved - n_withdrawn, "LEMMA blocked producers: each blocked push is still blocked, was completed by exactly one pop or was withdrawn");
    __CPROVER_assert(0, "SENTINEL reachable");
  }
}
#endif
