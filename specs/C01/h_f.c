/* harnesses: allocate the registered objects, register them with the protocol ghost, call the function under contract */
#ifdef CV_REG_STACK
/* Registered objects as LOCALS of the harness (constant addresses) and the owner cell ASSIGNED (the future or null): symbolic execution then
 * decides `p == gh_P_cell` / `p == gh_F_slot` in the primitives syntactically and resolves every dereference of the claimed pointer to the
 * registered future itself.  With malloc (may return null -> the address is an if-then-else) and a cell content that is only ASSUMED equal
 * to the future (PROTF_WF), the claimed pointer has no value set: every write through it is expanded over all candidate objects
 * (8.6M variables / 37M clauses for set_value<int>, out of memory for promise<void>); with this registration the same unit has 0.14M variables. */
#define REG_PROMISE(p) gh_INSTANCE = (void *)AW_INSTANCE; gh_DISABLED = (void *)AW_DISABLED; PROM p##_obj; PROM *p = &p##_obj; gh_P_cell = P_CELL(p)
#define REG_FUTURE(f)  FUT f##_obj; FUT *f = &f##_obj; gh_F_fut = f; gh_F_slot = F_SLOT(f); if (gh_P_cell) { if (nondet_bool()) *gh_P_cell = f; else *gh_P_cell = 0; }
#else
#define REG_PROMISE(p) gh_INSTANCE = (void *)AW_INSTANCE; gh_DISABLED = (void *)AW_DISABLED; PROM *p = malloc(sizeof(PROM)); __CPROVER_assume(p != 0); gh_P_cell = P_CELL(p)
#define REG_FUTURE(f)  FUT *f = malloc(sizeof(FUT)); __CPROVER_assume(f != 0); gh_F_fut = f; gh_F_slot = F_SLOT(f)
#endif
#ifdef CV_HAS_pr_claim
void h_claim(void) { REG_PROMISE(p); FUT *f = malloc(sizeof(FUT)); gh_F_fut = f; gh_F_slot = 0; FUT *r = pr_claim(p); if (r) __CPROVER_assert(0, "SENTINEL reachable: claim won"); else __CPROVER_assert(0, "SENTINEL reachable: claim lost"); }
#endif
#ifdef CV_HAS_pr_set_value
void h_set_value(void) { REG_PROMISE(p); REG_FUTURE(f); SPB *a; cv_i32 *v; pr_set_value(a, p, v); if (gh_resolved_by_me) __CPROVER_assert(0, "SENTINEL reachable: this call won"); else __CPROVER_assert(0, "SENTINEL reachable: this call lost"); }
#endif
#ifdef CV_HAS_pr_call_value
void h_call_value(void) { REG_PROMISE(p); REG_FUTURE(f); SPB *a; cv_i32 *v; pr_call_value(a, p, v); if (gh_resolved_by_me) __CPROVER_assert(0, "SENTINEL reachable: this call won"); else __CPROVER_assert(0, "SENTINEL reachable: this call lost"); }
#endif
#ifdef CV_HAS_pr_set_drop
void h_set_drop(void) { REG_PROMISE(p); REG_FUTURE(f); SPB *a; cv_i32 t; pr_set_drop(a, p, t); if (gh_resolved_by_me) __CPROVER_assert(0, "SENTINEL reachable: this call won"); else __CPROVER_assert(0, "SENTINEL reachable: this call lost"); }
#endif
#ifdef CV_HAS_pr_set_exc
void h_set_exc(void) { REG_PROMISE(p); REG_FUTURE(f); SPB *a; EPTR *e; pr_set_exc(a, p, e); if (gh_resolved_by_me) __CPROVER_assert(0, "SENTINEL reachable: this call won"); else __CPROVER_assert(0, "SENTINEL reachable: this call lost"); }
#endif
#ifdef CV_HAS_pr_dtor
void h_dtor(void) { REG_PROMISE(p); REG_FUTURE(f); pr_dtor(p); if (gh_resolved_by_me) __CPROVER_assert(0, "SENTINEL reachable: armed promise destroyed"); else __CPROVER_assert(0, "SENTINEL reachable: disarmed promise destroyed"); }
#endif
#ifdef CV_HAS_pr_move_ctor
void h_move_ctor(void) { REG_PROMISE(o); FUT *f = malloc(sizeof(FUT)); gh_F_fut = f; gh_F_slot = 0; PROM *n; pr_move_ctor(n, o); __CPROVER_assert(0, "SENTINEL reachable"); }
#endif
#ifdef CV_HAS_pr_bool
void h_bool(void) { REG_PROMISE(p); FUT *f = malloc(sizeof(FUT)); gh_F_fut = f; gh_F_slot = 0; pr_bool(p); __CPROVER_assert(0, "SENTINEL reachable"); }
#endif
#ifdef CV_HAS_fu_ctor
void h_fu_ctor(void) { FUT *f; gh_F_slot = 0; gh_P_cell = 0; fu_ctor(f); __CPROVER_assert(0, "SENTINEL reachable"); }
#endif
#define REG_FUTURE_ONLY(f) gh_INSTANCE = (void *)AW_INSTANCE; gh_DISABLED = (void *)AW_DISABLED; gh_P_cell = 0; REG_FUTURE(f)
#ifdef CV_HAS_fu_get_promise
void h_get_promise(void) { REG_FUTURE_ONLY(f); PROM *r; fu_get_promise(r, f); __CPROVER_assert(0, "SENTINEL reachable"); }
#endif
#ifdef CV_HAS_fc_ready
void h_ready(void) { REG_FUTURE_ONLY(f); fc_ready((FC *)f); __CPROVER_assert(0, "SENTINEL reachable"); }
#endif
#ifdef CV_HAS_fc_pending
void h_pending(void) { REG_FUTURE_ONLY(f); fc_pending((FC *)f); __CPROVER_assert(0, "SENTINEL reachable"); }
#endif
#ifdef CV_HAS_fc_initialized
void h_initialized(void) { REG_FUTURE_ONLY(f); fc_initialized((FC *)f); __CPROVER_assert(0, "SENTINEL reachable"); }
#endif
#ifdef CV_HAS_fu_value
void h_value(void) { REG_FUTURE_ONLY(f); cv_i8 *eo = __cxa_allocate_exception(8); if (F_STATE(f) == ST_EXCEPTION) F_EXCP(f) = eo; fu_value(f); __CPROVER_assert(0, "SENTINEL reachable"); }
#endif
#ifdef CV_HAS_fu_dtor
void h_fu_dtor(void) { FUT *f; gh_F_slot = 0; gh_P_cell = 0; fu_dtor(f); __CPROVER_assert(0, "SENTINEL reachable"); }
#endif
#ifdef CV_HAS_ab_resume
void h_ab_resume(void) { ABOOL *a; ab_resume(a); __CPROVER_assert(0, "SENTINEL reachable"); }
#endif
