/* C01 for the other value types of its quantifier: void, move-only (c01_mo), reference (int&), instance-counted (c01_cnt), and a type
 * whose constructor may throw (c01_thr) - drivers/c01_types.cpp.   Included AFTER C01/f_spec.h and C01/h_f.c.
 *
 * Everything that does not look at the payload (claim, set_value(drop), set_exception, ~promise, promise(promise&&), operator=,
 * operator bool, future(), get_promise, has_value) re-uses the contract AND the harness of f_spec.h / h_f.c unchanged: the unit binds the
 * type aliases PROM / FUT / ABOOL to the instantiation for the other value type.  Only the functions whose signature or observable
 * effect mentions the payload get a contract here, built from the same macros (SETV_REQUIRES / SETV_ASSIGNS / SETV_ENSURES with a
 * payload clause taken from the property statement).  The protocol-F primitives are used exactly as for int; extra payload facts at
 * the instant of resolution come from the snapshot hooks of lib/model_c01_payload.c (gh_aux_at_resolve[k]). */
#define T_WON "SENTINEL reachable: this call won"
#define T_LOST "SENTINEL reachable: this call lost"

/* ======================================================= void ============================================================= */
/* promise<void>::set_value<>() / operator()<>(): no argument; the payload is the tag alone */
#define T_VOID_SETTER(alias) \
void alias(SPB *agg, PROM *this_) \
SETV_REQUIRES(this_) \
__CPROVER_requires(__CPROVER_is_fresh(agg, sizeof(*agg))) \
SETV_ASSIGNS(this_, agg) \
SETV_ENSURES(this_, agg, gh_state_at_resolve == ST_VALUE && F_STATE(FUT0) == ST_VALUE) \
; \
void h_##alias(void) { REG_PROMISE(p); REG_FUTURE(f); SPB *a; alias(a, p); if (gh_resolved_by_me) __CPROVER_assert(0, T_WON); else __CPROVER_assert(0, T_LOST); }
#ifdef CV_HAS_tv_set_value
T_VOID_SETTER(tv_set_value)
#endif
#ifdef CV_HAS_tv_call_value
T_VOID_SETTER(tv_call_value)
#endif

/* outcome map of value(), shared by all value types: `ret_ok` = what a stored value is answered with */
#define T_VALUE_REQUIRES(this_) \
__CPROVER_requires(F_PRE_COMMON && gh_F_fut == (void *)this_ && gh_F_slot == F_SLOT(this_) && gh_P_cell == 0 && PROTF_WF && gh_slot_excl == 1) \
__CPROVER_requires(F_STATE(this_) <= 3 && (F_STATE(this_) == ST_EXCEPTION ==> F_EXCP(this_) != 0)) \
__CPROVER_requires((F_STATE(this_) != ST_NOT_VALUE) ==> *gh_F_slot == F_DIS) \
__CPROVER_assigns(cv_exc_pending, cv_exc_obj, cv_exc_tinfo, PROTF_GHOSTS, gh_ep_addref, gh_ep_release)
#define T_VALUE_ENSURES(this_, has_value, ret_ok) \
__CPROVER_ensures((has_value) ==> (cv_exc_pending == 0 && (ret_ok))) \
__CPROVER_ensures(F_STATE(this_) == ST_EXCEPTION ==> (cv_exc_pending == 1 && cv_exc_obj == F_EXCP(this_))) \
__CPROVER_ensures((F_STATE(this_) == ST_NOT_VALUE && *gh_F_slot == F_DIS) ==> (cv_exc_pending == 1 && cv_exc_tinfo == (void *)TI_AWAIT_CANCELED))   /* dropped: not a hang, not a value */ \
__CPROVER_ensures((F_STATE(this_) == ST_NOT_VALUE && *gh_F_slot == F_INS) ==> (cv_exc_pending == 1 && cv_exc_tinfo == (void *)TI_AWAIT_CANCELED)) \
__CPROVER_ensures((F_STATE(this_) == ST_NOT_VALUE && *gh_F_slot != F_DIS && *gh_F_slot != F_INS) ==> (cv_exc_pending == 1 && cv_exc_tinfo == (void *)TI_VALUE_NOT_READY)) \
__CPROVER_ensures(F_STATE(this_) == __CPROVER_old(F_STATE(this_)) && gh_allocs == __CPROVER_old(gh_allocs))
#define T_VALUE_HARNESS(alias) \
void h_##alias(void) { REG_FUTURE_ONLY(f); cv_i8 *eo = __cxa_allocate_exception(8); if (F_STATE(f) == ST_EXCEPTION) F_EXCP(f) = eo; alias(f); \
  if (cv_exc_pending) __CPROVER_assert(0, "SENTINEL reachable: value() throws"); else __CPROVER_assert(0, "SENTINEL reachable: value() returns"); }

#ifdef CV_HAS_tv_value
void tv_value(FUT *this_)
T_VALUE_REQUIRES(this_)
T_VALUE_ENSURES(this_, F_STATE(this_) == ST_VALUE || F_STATE(this_) == ST_VALUE_REF, 1)
;
T_VALUE_HARNESS(tv_value)
#endif

cv_i32 gh_tv;                       /* logical variable: the integer carried by the argument on entry */

/* =================================================== move-only (c01_mo) ===================================================== */
/* promise<c01_mo>::set_value(c01_mo&&) / operator()(c01_mo&&).  Winner: the stored payload - at the instant of resolution and at return -
 * carries exactly the argument's integer and is not a moved-from object; the argument was moved in (moved-from).  Loser: "leaves no
 * trace" - the argument is NOT moved from, the future's payload is untouched (SETV_ENSURES). */
#define T_MO(f) ((MO *)&(f)->f1)
#define T_MO_SETTER(alias) \
void alias(SPB *agg, PROM *this_, MO *v) \
SETV_REQUIRES(this_) \
__CPROVER_requires(__CPROVER_is_fresh(agg, sizeof(*agg)) && __CPROVER_is_fresh(v, sizeof(*v)) && gh_tv == v->v && v->moved == 0) \
SETV_ASSIGNS(this_, agg) \
__CPROVER_assigns(__CPROVER_object_whole(v), C01_AUX_GHOSTS) \
SETV_ENSURES(this_, agg, gh_state_at_resolve == ST_VALUE && gh_value_at_resolve == gh_tv && gh_aux_at_resolve[0] == 0 && \
                         F_STATE(FUT0) == ST_VALUE && T_MO(FUT0)->v == gh_tv && T_MO(FUT0)->moved == 0) \
__CPROVER_ensures((agg)->value == 1 ==> v->moved == 1)                              /* the winner's argument was moved in */ \
__CPROVER_ensures((agg)->value == 0 ==> (v->moved == 0 && v->v == gh_tv))            /* a losing call does not move from its argument */ \
; \
void h_##alias(void) { REG_PROMISE(p); REG_FUTURE(f); SPB *a; MO *v; alias(a, p, v); if (gh_resolved_by_me) __CPROVER_assert(0, T_WON); else __CPROVER_assert(0, T_LOST); }
#ifdef CV_HAS_tm_set_value
T_MO_SETTER(tm_set_value)
#endif
#ifdef CV_HAS_tm_call_value
T_MO_SETTER(tm_call_value)
#endif
#ifdef CV_HAS_tm_value
MO *tm_value(FUT *this_)
T_VALUE_REQUIRES(this_)
__CPROVER_requires(F_STATE(this_) != ST_VALUE_REF)
T_VALUE_ENSURES(this_, F_STATE(this_) == ST_VALUE, __CPROVER_return_value == T_MO(this_))
;
T_VALUE_HARNESS(tm_value)
#endif

/* =================================================== reference (int&) ======================================================= */
/* promise<int&>::set_value(int&) / operator()(int&): the payload is the IDENTITY of the referenced object; the object itself is not touched */
#define T_REF_HAS_VALUE(st) ((st) == ST_VALUE || (st) == ST_VALUE_REF)
#define T_REF_SETTER(alias) \
void alias(SPB *agg, PROM *this_, cv_i32 *v) \
SETV_REQUIRES(this_) \
__CPROVER_requires(__CPROVER_is_fresh(agg, sizeof(*agg)) && __CPROVER_is_fresh(v, sizeof(*v)) && gh_tv == *v) \
SETV_ASSIGNS(this_, agg) \
SETV_ENSURES(this_, agg, T_REF_HAS_VALUE(gh_state_at_resolve) && gh_exc_at_resolve == (void *)v && \
                         F_STATE(FUT0) == gh_state_at_resolve && F_EXCP(FUT0) == (void *)v) \
__CPROVER_ensures(*v == gh_tv) \
; \
void h_##alias(void) { REG_PROMISE(p); REG_FUTURE(f); SPB *a; cv_i32 *v; alias(a, p, v); if (gh_resolved_by_me) __CPROVER_assert(0, T_WON); else __CPROVER_assert(0, T_LOST); }
#ifdef CV_HAS_tr_set_value
T_REF_SETTER(tr_set_value)
#endif
#ifdef CV_HAS_tr_call_value
T_REF_SETTER(tr_call_value)
#endif
#ifdef CV_HAS_tr_value
cv_i32 *tr_value(FUT *this_)
T_VALUE_REQUIRES(this_)
T_VALUE_ENSURES(this_, T_REF_HAS_VALUE(F_STATE(this_)), (void *)__CPROVER_return_value == F_EXCP(this_))       /* the very object the winner referred to */
;
T_VALUE_HARNESS(tr_value)
#endif

/* ================================================ instance-counted (c01_cnt) ================================================ */
/* Every constructor / destructor of c01_cnt is counted in globals of the driver.  Winner: exactly ONE instance was constructed (by whatever
 * constructor) and none destroyed, both at the instant of resolution and at return - the stored value; it carries the argument's integer.
 * Loser: constructs nothing, destroys nothing.  The payload-independent resolvers (drop, exception, ~promise) run under the contracts of
 * f_spec.h, whose assigns clauses do not contain the counters: any construction or destruction there fails the write-set check. */
#ifdef C01_CNT
#define T_CNT(f) ((CNT *)&(f)->f1)
#define T_CNT_BUILT ((cv_i64)*N_CTOR + (cv_i64)*N_COPY + (cv_i64)*N_MOVE)
#define T_CNT_OLD_BUILT ((cv_i64)__CPROVER_old(*N_CTOR) + (cv_i64)__CPROVER_old(*N_COPY) + (cv_i64)__CPROVER_old(*N_MOVE))
#define T_CNT_SMALL (*N_CTOR < 1000000 && *N_COPY < 1000000 && *N_MOVE < 1000000 && *N_DTOR < 1000000)    /* counters do not wrap */
#define T_CNT_COUNTERS *N_CTOR, *N_COPY, *N_MOVE, *N_DTOR
#define T_CNT_SETTER(alias, ARGT, ARGV) \
void alias(SPB *agg, PROM *this_, ARGT *v) \
SETV_REQUIRES(this_) \
__CPROVER_requires(__CPROVER_is_fresh(agg, sizeof(*agg)) && __CPROVER_is_fresh(v, sizeof(*v)) && gh_tv == (ARGV) && T_CNT_SMALL) \
SETV_ASSIGNS(this_, agg) \
__CPROVER_assigns(T_CNT_COUNTERS, C01_AUX_GHOSTS) \
SETV_ENSURES(this_, agg, gh_state_at_resolve == ST_VALUE && gh_value_at_resolve == gh_tv && gh_aux_at_resolve[0] == T_CNT_OLD_BUILT + 1 && \
                         gh_aux_at_resolve[1] == (cv_i64)__CPROVER_old(*N_DTOR) && \
                         F_STATE(FUT0) == ST_VALUE && T_CNT(FUT0)->v == gh_tv && T_CNT_BUILT == T_CNT_OLD_BUILT + 1 && *N_DTOR == __CPROVER_old(*N_DTOR)) \
__CPROVER_ensures((agg)->value == 0 ==> (T_CNT_BUILT == T_CNT_OLD_BUILT && *N_DTOR == __CPROVER_old(*N_DTOR)))      /* a losing resolver constructs nothing */ \
__CPROVER_ensures((ARGV) == gh_tv)                                                                                   /* the argument keeps its value */ \
; \
void h_##alias(void) { REG_PROMISE(p); REG_FUTURE(f); SPB *a; ARGT *v; alias(a, p, v); if (gh_resolved_by_me) __CPROVER_assert(0, T_WON); else __CPROVER_assert(0, T_LOST); }
#ifdef CV_HAS_tc_call_copy
T_CNT_SETTER(tc_call_copy, CNT, v->v)
#endif
#ifdef CV_HAS_tc_call_move
T_CNT_SETTER(tc_call_move, CNT, v->v)
#endif
#ifdef CV_HAS_tc_call_emplace
T_CNT_SETTER(tc_call_emplace, cv_i32, *v)
#endif
#ifdef CV_HAS_tc_value
CNT *tc_value(FUT *this_)
T_VALUE_REQUIRES(this_)
__CPROVER_requires(F_STATE(this_) != ST_VALUE_REF)
T_VALUE_ENSURES(this_, F_STATE(this_) == ST_VALUE, __CPROVER_return_value == T_CNT(this_))
__CPROVER_ensures(T_CNT_BUILT == T_CNT_OLD_BUILT && *N_DTOR == __CPROVER_old(*N_DTOR))
;
T_VALUE_HARNESS(tc_value)
#endif
/* ~future<c01_cnt>: the stored value is destroyed exactly once, and only if one was constructed (tag == value) */
#ifdef CV_HAS_tc_fu_dtor
void tc_fu_dtor(FUT *this_)
__CPROVER_requires(cv_exc_pending == 0 && __CPROVER_is_fresh(this_, sizeof(*this_)) && gh_F_slot == 0 && gh_P_cell == 0 && F_STATE(this_) <= 3 && (F_STATE(this_) == ST_EXCEPTION ==> F_EXCP(this_) != 0) && T_CNT_SMALL)
__CPROVER_assigns(gh_ep_release, __CPROVER_object_whole(this_), T_CNT_COUNTERS)
__CPROVER_ensures(cv_exc_pending == 0 && gh_ep_release == __CPROVER_old(gh_ep_release) + (__CPROVER_old(F_STATE(this_)) == ST_EXCEPTION ? 1 : 0))
__CPROVER_ensures(*N_DTOR == __CPROVER_old(*N_DTOR) + (__CPROVER_old(F_STATE(this_)) == ST_VALUE ? 1 : 0) && T_CNT_BUILT == T_CNT_OLD_BUILT)
;
void h_tc_fu_dtor(void) { FUT *f; gh_F_slot = 0; gh_P_cell = 0; tc_fu_dtor(f); __CPROVER_assert(0, "SENTINEL reachable"); }
#endif
#endif

/* =========================================== constructor that may throw (c01_thr) =========================================== */
/* c01_thr's constructors throw c01_thr_error when the driver global c01_thr_flag is non-zero (left arbitrary here) and count live
 * instances in c01_thr_live.  Statement: "exactly one resolution takes effect ... A promise that is dropped or destroyed without a value
 * resolves the future to no-value ... rather than as a hang".  The right to resolve must therefore never be LOST: when a resolving call
 * ends - by return or by exception - either the future is resolved (by a value, an exception or no-value) or a promise still / again holds
 * the right (so that its destructor resolves to no-value).  A call that took the right out of the cell, failed to construct the value and
 * leaves with the right in its pocket makes every later resolver lose and nobody resolve: the future is pending for ever.
 * Admitted outcomes of the winner when the constructor throws: resolved with the constructor's exception, resolved to no-value, or the
 * promise re-armed with the future untouched; the tag never says "value" over an unconstructed payload. */
#ifdef C01_THR
#define T_THR(f) ((THR *)&(f)->f1)
#define T_THR_EXC_IS_CTORS(eo) ((eo) != 0 && *(void **)((cv_i8 *)(eo) - CV_EXC_HDR) == (void *)TI_THR_ERROR)
#define T_THR_WON_VALUE (*THR_FLAG == 0 && gh_state_at_resolve == ST_VALUE && gh_value_at_resolve == gh_tv && gh_aux_at_resolve[0] == (cv_i64)__CPROVER_old(*THR_LIVE) + 1 && \
                         F_STATE(FUT0) == ST_VALUE && T_THR(FUT0)->v == gh_tv && *THR_LIVE == __CPROVER_old(*THR_LIVE) + 1)
#define T_THR_WON_EXC   (*THR_FLAG != 0 && gh_state_at_resolve == ST_EXCEPTION && T_THR_EXC_IS_CTORS(gh_exc_at_resolve) && \
                         F_STATE(FUT0) == ST_EXCEPTION && F_EXCP(FUT0) == gh_exc_at_resolve && *THR_LIVE == __CPROVER_old(*THR_LIVE))
#define T_THR_WON_DROP  (*THR_FLAG != 0 && gh_state_at_resolve == ST_NOT_VALUE && F_STATE(FUT0) == ST_NOT_VALUE && *THR_LIVE == __CPROVER_old(*THR_LIVE))
#define T_THR_SETTER(alias, ARGT, ARGV) \
void alias(SPB *agg, PROM *this_, ARGT *v) \
SETV_REQUIRES(this_) \
__CPROVER_requires(__CPROVER_is_fresh(agg, sizeof(*agg)) && __CPROVER_is_fresh(v, sizeof(*v)) && gh_tv == (ARGV) && *THR_LIVE < 1000000 && cv_caught_n == 0) \
SETV_ASSIGNS(this_, agg) \
__CPROVER_assigns(*THR_LIVE, C01_AUX_GHOSTS, cv_exc_pending, cv_exc_obj, cv_exc_tinfo, cv_caught_n, __CPROVER_object_whole(cv_caught_obj), __CPROVER_object_whole(cv_caught_ti), gh_ep_addref, gh_ep_release) \
SETV_ENSURES_G(this_, agg, T_THR_WON_VALUE || T_THR_WON_EXC || T_THR_WON_DROP, cv_exc_pending == 0, 1) \
__CPROVER_ensures(cv_exc_pending == 0 ==> ((agg)->value == 0 ==> *THR_LIVE == __CPROVER_old(*THR_LIVE)))         /* a losing call constructs nothing */ \
__CPROVER_ensures(cv_exc_pending == 0 || cv_exc_pending == 1) \
/* exceptional exit: only the constructor's own exception, only out of the call that had taken the right to resolve; nothing constructed */ \
__CPROVER_ensures(cv_exc_pending == 1 ==> (*THR_FLAG != 0 && cv_exc_tinfo == (void *)TI_THR_ERROR && __CPROVER_old(gh_tok) == TOK_CELL && *THR_LIVE == __CPROVER_old(*THR_LIVE))) \
__CPROVER_ensures(cv_exc_pending == 1 ==> F_STATE(FUT0) != ST_VALUE)                                           /* no "value" tag over an unconstructed payload */ \
__CPROVER_ensures(cv_exc_pending == 1 ==> (gh_resolved_by_me == 0 ==> (F_STATE(FUT0) == ST_NOT_VALUE && gh_n_slot_rmw == __CPROVER_old(gh_n_slot_rmw)))) \
__CPROVER_ensures(cv_exc_pending == 1 ==> (gh_resolved_by_me == 1 ==> (*gh_F_slot == F_DIS && gh_rc_calls == 1 && gh_rc_chain == gh_chain_at_resolve && F_STATE(FUT0) == gh_state_at_resolve))) \
/* THE clause: however the call ends, the right to resolve is not lost - resolved (TOK_SPENT), still in / back in a promise (TOK_CELL), or with another caller */
#define T_THR_HARNESS(alias, ARGT) \
void h_##alias(void) { REG_PROMISE(p); REG_FUTURE(f); SPB *a; ARGT *v; alias(a, p, v); \
  if (*THR_FLAG != 0 && (cv_exc_pending || gh_resolved_by_me)) __CPROVER_assert(0, "SENTINEL reachable: this call took the right to resolve and the constructor threw"); \
  else if (gh_resolved_by_me) __CPROVER_assert(0, T_WON); else __CPROVER_assert(0, T_LOST); }
#ifdef CV_HAS_tt_call_emplace
T_THR_SETTER(tt_call_emplace, cv_i32, *v)
__CPROVER_ensures(gh_tok != TOK_ME)       /* C01-FINDING-throwing-ctor: promise::set_value claims before it constructs; a throwing constructor loses the right to resolve */
;
T_THR_HARNESS(tt_call_emplace, cv_i32)
#endif
#ifdef CV_HAS_tt_call_copy
T_THR_SETTER(tt_call_copy, THR, v->v)
__CPROVER_ensures(gh_tok != TOK_ME)       /* C01-FINDING-throwing-ctor: promise::set_value claims before it constructs; a throwing constructor loses the right to resolve */
;
T_THR_HARNESS(tt_call_copy, THR)
#endif
#endif

/* ============================ operator()(drop): the call-operator route to set_value(DropTag), every value type ============= */
#ifdef CV_HAS_tx_call_drop
void tx_call_drop(SPB *agg, PROM *this_, cv_i32 *tag)
SETV_REQUIRES(this_)
__CPROVER_requires(__CPROVER_is_fresh(agg, sizeof(*agg)) && __CPROVER_is_fresh(tag, sizeof(*tag)))
SETV_ASSIGNS(this_, agg)
SETV_ENSURES(this_, agg, gh_state_at_resolve == ST_NOT_VALUE && F_STATE(FUT0) == ST_NOT_VALUE)       /* dropped: ready with no value */
;
void h_tx_call_drop(void) { REG_PROMISE(p); REG_FUTURE(f); SPB *a; cv_i32 *t; tx_call_drop(a, p, t); if (gh_resolved_by_me) __CPROVER_assert(0, T_WON); else __CPROVER_assert(0, T_LOST); }
#endif
