# C01 - A future is resolved exactly once, by exactly one winner
TYPES = {'EPTR': 'std::__exception_ptr::exception_ptr', 'FC': 'cocls::future_common', 'ABOOL': 'cocls::future<int>::awaitable_bool', 'PROM': 'cocls::promise<int>', 'FUT': 'cocls::future<int>', 'AWT': 'cocls::awaiter', 'SP': 'cocls::suspend_point<void>', 'SPB': 'cocls::suspend_point<bool>'}
GLOBALS = {'AW_INSTANCE': '_ZN5cocls7awaiter8instanceE', 'AW_DISABLED': '_ZN5cocls7awaiter8disabledE'}
TI = {'TI_AWAIT_CANCELED': '_ZTIN5cocls24await_canceled_exceptionE', 'TI_VALUE_NOT_READY': '_ZTIN5cocls25value_not_ready_exceptionE'}
RC_LK = r'^cocls::awaiter::resume_chain_lk\(cocls::awaiter\*\)$'
SN = r'^cocls::suspend_point<void>::suspend_now\(\)$'
LIBS = ['rt_core.c', 'rt_atomic_protF.c']
# CV_REG_STACK: registered promise / future = locals of the harness, owner cell assigned (see h_f.c)
DEFS = ['CV_F_STATE_AT(p) (((FUT *)(p))->base_future_common._state)', 'CV_F_VALUE_AT(p) (*(cv_i32 *)&((FUT *)(p))->f1)', 'CV_F_EXC_AT(p) (*(void **)&((FUT *)(p))->f1)', 'CV_REG_STACK 1']
def unit(name, alias, rx, names=None, boundary=(), **kw):
    nm = {alias: rx}; nm.update(names or {})
    d = dict(name=name, driver='c01_future.cpp', roots=[rx], names=nm, names_opt={'aw_resume_chain_lk': RC_LK, 'sp_suspend_now': SN}, types=TYPES, globals=GLOBALS, boundary=[RC_LK, SN] + list(boundary), lib=LIBS,
             spec=['C01/f_spec.h', 'C01/h_f.c'], harness='h_' + name, enforce=alias, defines=DEFS, cbmc_flags=['--sat-solver', 'cadical'], solver='sat(cadical)', timeout=900, under_contract=[rx.strip('^$').replace('\\', '')])
    d.update(kw)
    return d
def plain(name, alias, rx, **kw):
    d = unit(name, alias, rx); d['names'] = {alias: rx}; d['names_opt'] = {}; d['boundary'] = []; d.update(kw); return d
UNITS = [
    plain('claim', 'pr_claim', r'^cocls::promise<int>::claim\(\) const$'),
    unit('set_value', 'pr_set_value', r'^cocls::suspend_point<bool> cocls::promise<int>::set_value<int&>\(int&\)$'),
    unit('call_value', 'pr_call_value', r'^cocls::suspend_point<bool> cocls::promise<int>::operator\(\)<int&>\(int&\)$'),
    unit('set_drop', 'pr_set_drop', r'^cocls::promise<int>::set_value\(cocls::DropTag\)$'),
    unit('set_exc', 'pr_set_exc', r'^cocls::promise<int>::set_exception\(std::__exception_ptr::exception_ptr\)$'),
    unit('dtor', 'pr_dtor', r'^cocls::promise<int>::~promise\(\)$'),
    plain('move_assign', 'pr_move_assign', r'^cocls::promise<int>::operator=\(cocls::promise<int>&&\)$', harness='h_move_assign', lib=['rt_core.c', 'rt_atomic_seq.c'],
          names_opt={'ma_set_drop_stub': r'^cocls::promise<int>::set_value\(cocls::DropTag\)$', 'ma_claim_stub': r'^cocls::promise<int>::claim\(\) const$', 'ma_sp_dtor_stub': r'^cocls::suspend_point<bool>::~suspend_point\(\)$'},
          boundary=[r'^cocls::promise<int>::set_value\(cocls::DropTag\)$', r'^cocls::promise<int>::claim\(\) const$', r'^cocls::suspend_point<bool>::~suspend_point\(\)$']),
    plain('move_ctor', 'pr_move_ctor', r'^cocls::promise<int>::promise\(cocls::promise<int>&&\)$'),
    plain('bool', 'pr_bool', r'^cocls::promise<int>::operator bool\(\) const$'),
    plain('fu_ctor', 'fu_ctor', r'^cocls::future<int>::future\(\)$'),
    plain('get_promise', 'fu_get_promise', r'^cocls::future<int>::get_promise\(\)$'),
    plain('ready', 'fc_ready', r'^cocls::future_common::ready\(\) const$'),
    plain('pending', 'fc_pending', r'^cocls::future_common::pending\(\) const$'),
    plain('initialized', 'fc_initialized', r'^cocls::future_common::initialized\(\) const$'),
    plain('value', 'fu_value', r'^cocls::future<int>::value\(\)$', globals=dict(GLOBALS, **TI)),
    plain('fu_dtor', 'fu_dtor', r'^cocls::future<int>::~future\(\)$'),
    dict(name='lemma_single_winner', driver='c01_future.cpp', roots=[r'^cocls::promise<int>::claim\(\) const$'], names={}, types=TYPES, globals=GLOBALS, boundary=[], lib=LIBS,
         spec=['C01/h_lemma.c'], harness='h_lemma_single_winner', loop_contracts=True, defines=DEFS, kind='lemma', under_contract=['lemma over the exchange primitive (protocol F, owner cell)']),
    plain('ab_resume', 'ab_resume', r'^cocls::future<int>::awaitable_bool::await_resume\(\)$'),
]

# ---- the other value types of the quantifier (drivers/c01_types.cpp; contracts: f_spec.h re-bound through the type aliases + t_spec.h) ----
TLIBS = ['rt_core.c', 'model_c01_payload.c', 'rt_atomic_protF.c']
TSPEC = ['C01/f_spec.h', 'C01/h_f.c', 'C01/t_spec.h']
TDEFS = list(DEFS)
def _ttypes(T, **extra):
    Td = T.replace('&', ' &')           # debug-info spelling of the template argument
    d = dict(TYPES); d.update({'ABOOL': 'cocls::future<%s>::awaitable_bool' % Td, 'PROM': 'cocls::promise<%s>' % Td, 'FUT': 'cocls::future<%s>' % Td}); d.update(extra)
    if T != 'void': d.pop('ABOOL')        # has_value() is instantiated for int and void only
    return d
import re
def _rx(T): return re.escape(T)
def tunit(pfx, T, name, alias, rx, harness=None, is_plain=False, types=None, defines=None, **kw):
    """a unit for value type T.  alias = contract name (an alias of f_spec.h re-uses that contract and its harness h_<name>)"""
    rx = rx.replace('<T>', '<' + _rx(T) + '>')
    d = (plain if is_plain else unit)(pfx + '_' + name, alias, rx)
    d.update(driver='c01_types.cpp', types=_ttypes(T, **(types or {})), lib=TLIBS, spec=TSPEC, harness=harness or ('h_' + name), defines=defines or TDEFS, value_type=T)
    d.update(kw)
    return d
def _common(pfx, T, **kw):
    """payload-independent members: same contracts and harnesses as for int"""
    return [
        tunit(pfx, T, 'claim', 'pr_claim', r'^cocls::promise<T>::claim\(\) const$', is_plain=True, **kw),
        tunit(pfx, T, 'set_drop', 'pr_set_drop', r'^cocls::promise<T>::set_value\(cocls::DropTag\)$', **kw),
        tunit(pfx, T, 'set_exc', 'pr_set_exc', r'^cocls::promise<T>::set_exception\(std::__exception_ptr::exception_ptr\)$', **kw),
        tunit(pfx, T, 'dtor', 'pr_dtor', r'^cocls::promise<T>::~promise\(\)$', **kw),
        tunit(pfx, T, 'call_drop', 'tx_call_drop', r'^cocls::suspend_point<bool> cocls::promise<T>::operator\(\)<cocls::DropTag>\(cocls::DropTag&&\)$', harness='h_tx_call_drop', **kw),
        tunit(pfx, T, 'fu_ctor', 'fu_ctor', r'^cocls::future<T>::future\(\)$', is_plain=True, **kw),
        tunit(pfx, T, 'get_promise', 'fu_get_promise', r'^cocls::future<T>::get_promise\(\)$', is_plain=True, **kw),
    ]
MA_B = [r'^cocls::promise<void>::set_value\(cocls::DropTag\)$', r'^cocls::promise<void>::claim\(\) const$', r'^cocls::suspend_point<bool>::~suspend_point\(\)$']
UNITS += _common('v', 'void') + [
    tunit('v', 'void', 'set_value', 'tv_set_value', r'^cocls::suspend_point<bool> cocls::promise<T>::set_value<>\(\)$', harness='h_tv_set_value'),
    tunit('v', 'void', 'call_value', 'tv_call_value', r'^cocls::suspend_point<bool> cocls::promise<T>::operator\(\)<>\(\)$', harness='h_tv_call_value'),
    tunit('v', 'void', 'move_ctor', 'pr_move_ctor', r'^cocls::promise<T>::promise\(cocls::promise<void>&&\)$', is_plain=True),
    tunit('v', 'void', 'move_assign', 'pr_move_assign', r'^cocls::promise<T>::operator=\(cocls::promise<void>&&\)$', is_plain=True, harness='h_move_assign', lib=['rt_core.c', 'rt_atomic_seq.c'],
          names_opt={'ma_set_drop_stub': MA_B[0], 'ma_claim_stub': MA_B[1], 'ma_sp_dtor_stub': MA_B[2]}, boundary=MA_B),
    tunit('v', 'void', 'bool', 'pr_bool', r'^cocls::promise<T>::operator bool\(\) const$', is_plain=True),
    tunit('v', 'void', 'value', 'tv_value', r'^cocls::future<T>::value\(\)$', is_plain=True, harness='h_tv_value', globals=dict(GLOBALS, **TI)),
    tunit('v', 'void', 'fu_dtor', 'fu_dtor', r'^cocls::future<T>::~future\(\)$', is_plain=True),
    tunit('v', 'void', 'ab_resume', 'ab_resume', r'^cocls::future<T>::awaitable_bool::await_resume\(\)$', is_plain=True),
]

# payload accessors for the snapshot the exchange primitive takes at the instant of resolution (lib/model_c01_payload.c)
_ST0 = 'CV_F_STATE0_AT(p) (((FUT *)(p))->base_future_common._state)'
_EXC = 'CV_F_EXC_AT(p) (*(void **)&((FUT *)(p))->f1)'
MO_DEFS = [_ST0, _EXC, 'CV_F_VALUE_AT(p) (((MO *)&((FUT *)(p))->f1)->v)', 'CV_F_AUX0_AT(p) (((MO *)&((FUT *)(p))->f1)->moved)', 'CV_REG_STACK 1']
CNT_DEFS = [_ST0, _EXC, 'CV_F_VALUE_AT(p) (((CNT *)&((FUT *)(p))->f1)->v)', 'CV_F_AUX0_AT(p) ((cv_i64)*N_CTOR + (cv_i64)*N_COPY + (cv_i64)*N_MOVE)', 'CV_F_AUX1_AT(p) (*N_DTOR)', 'C01_CNT 1', 'CV_REG_STACK 1']
THR_DEFS = [_ST0, _EXC, 'CV_F_VALUE_AT(p) (((THR *)&((FUT *)(p))->f1)->v)', 'CV_F_AUX0_AT(p) (*THR_LIVE)', 'C01_THR 1', 'CV_REG_STACK 1']
CNT_G = dict(GLOBALS, N_CTOR='c01_n_ctor', N_COPY='c01_n_copy', N_MOVE='c01_n_move', N_DTOR='c01_n_dtor')
THR_G = dict(GLOBALS, THR_FLAG='c01_thr_flag', THR_LIVE='c01_thr_live', TI_THR_ERROR='_ZTI13c01_thr_error')
SPB_ = r'^cocls::suspend_point<bool> '
UNITS += _common('mo', 'c01_mo') + [
    tunit('mo', 'c01_mo', 'set_value', 'tm_set_value', SPB_ + r'cocls::promise<T>::set_value<c01_mo>\(c01_mo&&\)$', harness='h_tm_set_value', types={'MO': 'c01_mo'}, defines=MO_DEFS),
    tunit('mo', 'c01_mo', 'call_value', 'tm_call_value', SPB_ + r'cocls::promise<T>::operator\(\)<c01_mo>\(c01_mo&&\)$', harness='h_tm_call_value', types={'MO': 'c01_mo'}, defines=MO_DEFS),
    tunit('mo', 'c01_mo', 'value', 'tm_value', r'^cocls::future<T>::value\(\)$', is_plain=True, harness='h_tm_value', types={'MO': 'c01_mo'}, defines=MO_DEFS, globals=dict(GLOBALS, **TI)),
    tunit('mo', 'c01_mo', 'fu_dtor', 'fu_dtor', r'^cocls::future<T>::~future\(\)$', is_plain=True, types={'MO': 'c01_mo'}, defines=MO_DEFS),
]
UNITS += _common('ref', 'int&') + [
    tunit('ref', 'int&', 'set_value', 'tr_set_value', SPB_ + r'cocls::promise<T>::set_value<int&>\(int&\)$', harness='h_tr_set_value'),
    tunit('ref', 'int&', 'call_value', 'tr_call_value', SPB_ + r'cocls::promise<T>::operator\(\)<int&>\(int&\)$', harness='h_tr_call_value'),
    tunit('ref', 'int&', 'value', 'tr_value', r'^cocls::future<T>::value\(\)$', is_plain=True, harness='h_tr_value', globals=dict(GLOBALS, **TI)),
    tunit('ref', 'int&', 'fu_dtor', 'fu_dtor', r'^cocls::future<T>::~future\(\)$', is_plain=True),
]
_CK = dict(types={'CNT': 'c01_cnt'}, defines=CNT_DEFS, globals=CNT_G)
UNITS += _common('cnt', 'c01_cnt') + [
    tunit('cnt', 'c01_cnt', 'call_copy', 'tc_call_copy', SPB_ + r'cocls::promise<T>::operator\(\)<c01_cnt const&>\(c01_cnt const&\)$', harness='h_tc_call_copy', **_CK),
    tunit('cnt', 'c01_cnt', 'call_move', 'tc_call_move', SPB_ + r'cocls::promise<T>::operator\(\)<c01_cnt>\(c01_cnt&&\)$', harness='h_tc_call_move', **_CK),
    tunit('cnt', 'c01_cnt', 'call_emplace', 'tc_call_emplace', SPB_ + r'cocls::promise<T>::operator\(\)<int&>\(int&\)$', harness='h_tc_call_emplace', **_CK),
    tunit('cnt', 'c01_cnt', 'value', 'tc_value', r'^cocls::future<T>::value\(\)$', is_plain=True, harness='h_tc_value', types={'CNT': 'c01_cnt'}, defines=CNT_DEFS, globals=dict(CNT_G, **TI)),
    tunit('cnt', 'c01_cnt', 'fu_dtor', 'tc_fu_dtor', r'^cocls::future<T>::~future\(\)$', is_plain=True, harness='h_tc_fu_dtor', **_CK),
]
_TK = dict(types={'THR': 'c01_thr'}, defines=THR_DEFS, globals=THR_G)
UNITS += [
    tunit('thr', 'c01_thr', 'call_emplace', 'tt_call_emplace', SPB_ + r'cocls::promise<T>::operator\(\)<int&>\(int&\)$', harness='h_tt_call_emplace', replay=dict(src='c01_throwing_ctor.cpp', mode='emplace', flags=['-DNDEBUG', '-g']), **_TK),
    tunit('thr', 'c01_thr', 'call_copy', 'tt_call_copy', SPB_ + r'cocls::promise<T>::operator\(\)<c01_thr const&>\(c01_thr const&\)$', harness='h_tt_call_copy', replay=dict(src='c01_throwing_ctor.cpp', mode='copy', flags=['-DNDEBUG', '-g']), **_TK),
]

# "its state never changes afterwards" also binds the waiters' side: a subscription must never be pushed on top of the ready marker.
# That clause lives in the protocol-F primitive and is exercised by the subscription units of C02, re-run here.
import importlib.util as _ilu, os as _os, copy as _copy
def _c02(names):
    s = _ilu.spec_from_file_location('c01_c02', _os.path.join(_os.path.dirname(_os.path.dirname(_os.path.abspath(__file__))), 'C02', 'units.py')); m = _ilu.module_from_spec(s); s.loader.exec_module(m)
    out = []
    for x in m.UNITS:
        if x['name'] in names:
            v = _copy.deepcopy(x); v['name'] = 'C02_' + x['name']; out.append(v)
    return out
UNITS += _c02(['subscribe_check_ready', 'co_await_suspend', 'co_await_suspend_fn', 'co_sync'])
# async<T>::start(promise&) is a resolver like any other caller of the promise: it must take the right to resolve by the atomic claim and start the
# coroutine only when the claim succeeded - a validity test followed by an unchecked claim lets a competing resolver win as well (two winners; seeded
# change C01-6).  async<int>::start_promise is under contract in C04; re-run here.
def _c04_01(names):
    s = _ilu.spec_from_file_location('c01_c04', _os.path.join(_os.path.dirname(_os.path.dirname(_os.path.abspath(__file__))), 'C04', 'units.py')); m = _ilu.module_from_spec(s); s.loader.exec_module(m)
    out = []
    for x in m.UNITS:
        if x['name'] in names:
            v = _copy.deepcopy(x); v['name'] = 'C04_' + x['name']; out.append(v)
    return out
UNITS += _c04_01(['as_start_promise'])
META = dict(
    level='proof',
    level_text='For every value type of the quantifier - int, void, a move-only type (deleted copy, int + moved-from flag), a reference type (int&), an instance-counted type (all constructors / the destructor counted) - promise<T>::claim, set_value / operator()(value) [for the counted type: by copy, by move and in place from an int], set_value(drop), set_exception, ~promise, future<T>::future(), get_promise, value() (complete outcome map incl. the exception types thrown) and ~future are each verified against a contract taken from the property statement (additionally for int and void: promise(promise&&), operator=(promise&&), operator bool, has_value().await_resume; for int: ready/pending/initialized), thread-modularly: every atomic instruction runs through protocol-F primitives that first let the environment act (another caller may take the right to resolve at any instant, other threads may subscribe, another winner may resolve) and then check the step against the protocol (only the token holder marks the future ready, never twice, never a plain store on a shared cell). Success <=> this call took the token and swung the slot; the payload at the instant of resolution and at return is exactly the argument (int: the value; void: the tag; move-only: the integer carried, stored object not moved-from, the argument moved-from; reference: the identity of the referenced object, the object untouched; counted: the integer carried, exactly one instance constructed and none destroyed at both instants); failure leaves no trace (no RMW on the slot, payload untouched, empty suspend point, a move-only argument is NOT moved from, nothing constructed or destroyed); a destroyed armed promise resolves to no-value; value() maps no-value to await_canceled_exception and a stored value to the stored object itself (reference: the object the winner referred to); ~future destroys the stored value exactly once and only if one was constructed. The payload-independent members of the other value types run under the SAME contracts and harnesses as for int (type aliases re-bound per unit). The single-winner lemma is an unbounded loop over the claim primitive. Value type with a throwing constructor (c01_thr, nondeterministic flag): the clause "when a resolving call ends - by return or by exception - either the future is resolved or a promise still holds the right to resolve" FAILS on promise::set_value (claims before it constructs; finding C01-FINDING-throwing-ctor, native replay replay/c01_throwing_ctor.cpp, candidate fix specs/C01/fix_throwing_ctor.diff with which both units pass).',
    level_note='Trusted: protocol-F primitives and the rely they encode (lib/rt_atomic_protF.c), the payload snapshot hooks (lib/model_c01_payload.c: evaluate accessor macros at the instant of the resolving exchange), rely/guarantee soundness argument (DESIGN 3.5), clang front end, ir2c. awaiter::resume_chain_lk (walk over the detached waiters) and suspend_point::suspend_now are abstract callees here (subjects of C02 / C05). The value types other than int and void are test payloads defined in drivers/c01_types.cpp (their constructors are translated and executed, not modelled). Not covered: promise(promise&&) / operator= / operator bool for the move-only, reference and counted instantiations (payload-independent template text, covered for int and void); the waiter-side units (C02_*) and ready/pending/initialized are type-independent code of future_common / awaiter and run once (int); promise::set_value_and_suspend / drop_and_suspend (refer to a member future::resolve_resume that does not exist - never instantiable). promise::operator=(promise&&) is a forwarder unit (sequential atomics, set_value(drop) and claim() abstract). Documented misuse excluded by precondition: destroying a promise object that other threads can still call. Registered objects are locals of the harness with the owner cell assigned (CV_REG_STACK, specs/C01/h_f.c): symbolic execution resolves the claimed pointer to the registered future itself (5 s per resolver unit instead of 140 s / out of memory).',
    technique='CBMC code contracts enforced via goto-instrument --dfcc on the C translation of clang IR of future.h; atomic instructions replaced by rely/guarantee protocol primitives with ghost tokens (thread-modular); lemma harness with loop contract',
    trusted_base=['protocol-F atomic primitives and environment model (lib/rt_atomic_protF.c)', 'payload snapshot hooks (lib/model_c01_payload.c)', 'abstract callees: awaiter::resume_chain_lk, suspend_point::suspend_now (recording stubs, specs/C01/f_spec.h)', 'exception model and exception_ptr reference counting stubs (lib/rt_core.c)'],
    assumptions=['rely/guarantee soundness: if every step of every thread conforms, every interleaving satisfies the protocol invariant (argued, DESIGN 3.5)', 'atomic RMWs on one location are totally ordered (C++ coherence)', 'value types: int, void, c01_mo (move-only), int& (reference), c01_cnt (instance-counted), c01_thr (constructor may throw) as defined in drivers/c01_types.cpp; instance counters < 10^6 (no wrap-around)', 'no exception is in flight / being handled when a resolver is called (cv_caught_n == 0 for the throwing-constructor units)'],
    explanation='see level_text')

# ==================================================== W4 block: promise_with_default<int>, promise<T>::bind() ===========================================
# ---- promise_with_default<T> (future.h): "If the promise is destroyed unresolved, the default value is set to the future".  The default is the
# payload of the implicit resolution; C01: "the future's result ... is exactly the winner's payload".  Contracts: specs/C01/pwd_spec.h.
PWD_T = dict(TYPES, PWD='cocls::promise_with_default<int>')
PWD_SPEC = ['C01/f_spec.h', 'C01/h_f.c', 'C01/pwd_spec.h']
_PWD = r'cocls::promise_with_default<int>::'
def pwd_unit(name, alias, rx, **kw):
    d = unit('pwd_' + name, alias, rx)
    d.update(driver='c01_types.cpp', types=PWD_T, spec=PWD_SPEC, harness='h_pwd_' + name, timeout=300)
    d.update(kw)
    return d
_PWD_DTOR = '^' + _PWD + r'~promise_with_default\(\)$'
_PWD_MA = '^' + _PWD + r'operator=\(cocls::promise_with_default<int>&&\)$'
UNITS += [
    pwd_unit('ctor', 'pwd_ctor', '^' + _PWD + r'promise_with_default<int&>\(cocls::promise<int>&&, int&\)$'),
    pwd_unit('dtor', 'pwd_dtor', _PWD_DTOR),
    pwd_unit('move_ctor', 'pwd_move_ctor', '^' + _PWD + r'promise_with_default\(cocls::promise_with_default<int>&&\)$'),
    # move assignment: two promises, two futures, sequential atomics (documented: an object being assigned to / moved from is not shared);
    # everything below operator= is the real code, only the walk over the detached waiters is the recording stub of f_spec.h
    pwd_unit('move_assign', 'pwd_move_assign', _PWD_MA, lib=['rt_core.c', 'rt_atomic_seq.c'], defines=DEFS + ['PWD_SEQ 1'],
             replay=dict(src='c01_pwd_move_assign.cpp', mode='assign', flags=['-DNDEBUG', '-g'])),
    # the same scenario end to end: a = std::move(b); then a is destroyed: b's future must receive b's default
    pwd_unit('assign_then_destroy', 'pwd_move_assign', _PWD_MA, roots=[_PWD_MA, _PWD_DTOR], names={'pwd_move_assign': _PWD_MA, 'pwd_dtor_fn': _PWD_DTOR},
             lib=['rt_core.c', 'rt_atomic_seq.c'], defines=DEFS + ['PWD_SEQ 1', 'PWD_DRIVE 1'], enforce=None, kind='lemma',
             under_contract=['drive: promise_with_default<int>::operator=(promise_with_default&&) followed by ~promise_with_default()'],
             replay=dict(src='c01_pwd_move_assign.cpp', mode='assign', flags=['-DNDEBUG', '-g'])),
]

# ---- promise<T>::bind(args...) (future.h): "Bind arguments but don't resolve yet. Return function, which can be called to resolve the future".
# C01: binding moves the right to resolve into the closure (source disarmed, one owner); calling the closure is a resolver with the bound value
# as payload (same outcome map as set_value); destroying an uncalled closure is the destruction of the promise inside (future -> no-value).
# C20: no allocation in bind / call / destroy, for every size of the bound arguments (int, 64 bytes, 200 bytes).  Contracts: specs/C01/bind_spec.h.
BIND_SPEC = ['C01/f_spec.h', 'C01/h_f.c', 'C01/bind_spec.h']
_BIG_DEFS = lambda T: [_ST0, _EXC, 'CV_F_VALUE_AT(p) (((BIG *)&((FUT *)(p))->f1)->v)', 'CV_F_AUX0_AT(p) (((BIG *)&((FUT *)(p))->f1)->tail)', 'CV_REG_STACK 1', 'BIND_BIG 1']
BIND_UNITS = []
def _bind_units(sfx, T):
    Tr = _rx(T)
    bind = r'cocls::promise<%s>::bind<%s&>\(%s&\)' % (Tr, Tr, Tr)
    rx_bind = bind + '$'                       # the return type is spelled `auto` today; a change may name it
    rx_call = '^' + bind + r'::\{lambda\(\)#1\}::operator\(\)\(\)$'
    rx_dtor = '^' + bind + r'::\{lambda\(\)#1\}::~bind\(\)$'
    big = T != 'int'
    common = dict(driver='c01_types.cpp', spec=BIND_SPEC, lib=(TLIBS if big else LIBS), defines=(_BIG_DEFS(T) if big else DEFS + ['BIND_INT 1']),
                  types=_ttypes(T, **({'BIG': T} if big else {})), value_type=T, timeout=300)
    out = []
    for name, alias, rx, k in (('bind_' + sfx, 'bd_bind', rx_bind, 0), ('bind_%s_call' % sfx, 'bd_call', rx_call, 1), ('bind_%s_dtor' % sfx, 'bd_dtor', rx_dtor, 0)):
        d = unit(name, alias, rx); d.update(common); d.update(harness='h_' + alias, ptypes={'CLOS': rx + '#%d' % k}, under_contract=[rx.strip('^$').replace('\\', '')])
        out.append(d)
    # drive through the extern "C" wrappers: the closure type is whatever bind() returns (parameter 0 of the wrapper)
    W = dict(bd_drv_bind=r'^drv_bind_%s$' % sfx, bd_drv_call=r'^drv_bind_%s_call$' % sfx, bd_drv_dtor=r'^drv_bind_%s_dtor$' % sfx)
    d = unit('bind_%s_drive' % sfx, 'bd_drv_bind', W['bd_drv_bind']); d.update(common)
    d.update(roots=list(W.values()), names=W, harness='h_bd_drive', boundary=[RC_LK, SN, r'^std::bad_function_call::'],   # the last one: only if bind() returns a type-erased function object
              enforce=None, kind='lemma', lib=['rt_core.c', 'rt_atomic_seq.c'], ptypes={'CLOS': W['bd_drv_bind'] + '#0'},
             defines=[x for x in common['defines'] if not x.startswith('CV_F_')], cbmc_flags=['--sat-solver', 'cadical'],
             under_contract=['drive: promise<%s>::bind -> closure() -> closure() -> ~closure / bind -> ~closure' % T])
    out.append(d)
    return out
for _sfx, _T in (('int', 'int'), ('b64', 'c01_big64'), ('b200', 'c01_big200')): BIND_UNITS += _bind_units(_sfx, _T)
UNITS += BIND_UNITS
C20_BIND_UNITS = [u['name'] for u in BIND_UNITS]

# ---- META for the W4 block
META['level_text'] += (' promise_with_default<int> (specs/C01/pwd_spec.h; the default value is the payload of the implicit resolution by destruction): '
    'constructor from (promise&&, default), move constructor and destructor are verified thread-modularly over the protocol-F primitives - the right to resolve leaves the source by the single-winner claim '
    'and travels together with the default given for that future; an armed object that is destroyed resolves the future exactly once with exactly its default (at the instant of resolution and at return), '
    'a disarmed one leaves no trace; no allocation. Move assignment (two promises, two futures, sequential atomics, real code of promise::operator= / set_value(drop) / claim / resolve underneath): '
    'the overwritten future is resolved at once, exactly once (no-value or the target\'s own old default), the source\'s future is not resolved, the source is emptied, the target owns the source\'s future - '
    'and the clause "together with the source\'s default" FAILS on the unchanged tree: operator= executes `def = std::move(def)` (finding C01-FINDING-pwd-self-move, obligation pwd_move_assign/postcondition.8 and '
    'the end-to-end drive pwd_assign_then_destroy/assertion.5 "the future that b owned receives b\'s default value"; native replay replay/c01_pwd_move_assign.cpp: 111 instead of 222; candidate fix '
    'specs/C01/fix_pwd_move_assign.diff `def = std::move(other.def)`, with which all five units pass and the 15 upstream tests pass). '
    'promise<T>::bind(a) for T = int, a 64-byte and a 200-byte struct (specs/C01/bind_spec.h): bind() disarms the promise it is called on, the returned closure is the one owner of the right to resolve, '
    'the argument is bound by value (first and last word observed), nothing is resolved; calling the closure is a resolver with the complete outcome map of set_value and the bound value as payload; '
    'destroying the closure is the destruction of the promise inside (armed: no-value, once; disarmed: no trace); none of the three allocates (nor frees), for every bound size. '
    'Per size a fixed-order drive through extern "C" wrappers (whatever type bind() returns): bind, [call, second call], destroy with the outcome of each step and no allocation.')
META['level_note'] += (' promise_with_default: only T = int is instantiated; promise_with_default_v / _vp (default as template argument, defaulted move operations) are not covered; self-assignment (this == &other) is excluded by precondition; '
    'the move-assignment unit and the drive pwd_assign_then_destroy use sequential atomics (an object that is assigned to or moved from is not shared). '
    'bind(): one bound argument, passed as an lvalue (copied into the closure); closures are the lambda of future.h (type taken from the translated signature); std::tuple / std::apply / std::__invoke are translated through libstdc++ (plain forwarding code, no container). '
    'The clauses naming the closure members are not compiled into the C20 run (C20 checks allocation only, whatever bind() returns); the bind_*_drive units are plain symbolic executions of ONE order each (kind lemma), not contracts.')
META['trusted_base'] += ['sequential atomics (lib/rt_atomic_seq.c) for pwd_move_assign, pwd_assign_then_destroy and the bind_*_drive units']
META['assumptions'] += ['promise_with_default: value type int; target and source of a move assignment are distinct objects, each either empty or owning its own pending future',
                        'bind: bound payloads c01_big64 / c01_big200 (trivially copyable structs of 64 / 200 bytes, drivers/c01_types.cpp) and int']
