# C01 - A future is resolved exactly once, by exactly one winner
TYPES = {'EPTR': 'std::__exception_ptr::exception_ptr', 'FC': 'cocls::future_common', 'ABOOL': 'cocls::future<int>::awaitable_bool', 'PROM': 'cocls::promise<int>', 'FUT': 'cocls::future<int>', 'AWT': 'cocls::awaiter', 'SP': 'cocls::suspend_point<void>', 'SPB': 'cocls::suspend_point<bool>'}
GLOBALS = {'AW_INSTANCE': '_ZN5cocls7awaiter8instanceE', 'AW_DISABLED': '_ZN5cocls7awaiter8disabledE'}
TI = {'TI_AWAIT_CANCELED': '_ZTIN5cocls24await_canceled_exceptionE', 'TI_VALUE_NOT_READY': '_ZTIN5cocls25value_not_ready_exceptionE'}
RC_LK = r'^cocls::awaiter::resume_chain_lk\(cocls::awaiter\*\)$'
SN = r'^cocls::suspend_point<void>::suspend_now\(\)$'
LIBS = ['rt_core.c', 'rt_atomic_protF.c']
DEFS = ['CV_F_STATE_AT(p) (((FUT *)(p))->base_future_common._state)', 'CV_F_VALUE_AT(p) (*(cv_i32 *)&((FUT *)(p))->f1)', 'CV_F_EXC_AT(p) (*(void **)&((FUT *)(p))->f1)']
def unit(name, alias, rx, names=None, boundary=(), **kw):
    nm = {alias: rx}; nm.update(names or {})
    d = dict(name=name, driver='c01_future.cpp', roots=[rx], names=nm, names_opt={'aw_resume_chain_lk': RC_LK, 'sp_suspend_now': SN}, types=TYPES, globals=GLOBALS, boundary=[RC_LK, SN] + list(boundary), lib=LIBS,
             spec=['C01/f_spec.h', 'C01/h_f.c'], harness='h_' + name, enforce=alias, defines=DEFS, cbmc_flags=['--sat-solver', 'cadical'], solver='sat(cadical)', timeout=900, under_contract=[rx.strip('^$').replace('\\', '')])
    d.update(kw)
    return d
def plain(name, alias, rx, **kw):
    d = unit(name, alias, rx); d['names'] = {alias: rx}; d['names_opt'] = {}; d['boundary'] = []; d.update(kw); return d
UNITS = [
    plain('claim', 'pr_claim', r'^cocls::promise<int>::claim\(\) const$'),
    unit('set_value', 'pr_set_value', r'^cocls::suspend_point<bool> cocls::promise<int>::set_value<int&>\(int&\)$'),
    unit('call_value', 'pr_call_value', r'^cocls::suspend_point<bool> cocls::promise<int>::operator\(\)<int&>\(int&\)$'),
    unit('set_drop', 'pr_set_drop', r'^cocls::promise<int>::set_value\(cocls::DropTag\)$'),
    unit('set_exc', 'pr_set_exc', r'^cocls::promise<int>::set_exception\(std::__exception_ptr::exception_ptr\)$'),
    unit('dtor', 'pr_dtor', r'^cocls::promise<int>::~promise\(\)$'),
    plain('move_assign', 'pr_move_assign', r'^cocls::promise<int>::operator=\(cocls::promise<int>&&\)$', harness='h_move_assign', lib=['rt_core.c', 'rt_atomic_seq.c'],
          names_opt={'ma_set_drop_stub': r'^cocls::promise<int>::set_value\(cocls::DropTag\)$', 'ma_claim_stub': r'^cocls::promise<int>::claim\(\) const$', 'ma_sp_dtor_stub': r'^cocls::suspend_point<bool>::~suspend_point\(\)$'},
          boundary=[r'^cocls::promise<int>::set_value\(cocls::DropTag\)$', r'^cocls::promise<int>::claim\(\) const$', r'^cocls::suspend_point<bool>::~suspend_point\(\)$']),
    plain('move_ctor', 'pr_move_ctor', r'^cocls::promise<int>::promise\(cocls::promise<int>&&\)$'),
    plain('bool', 'pr_bool', r'^cocls::promise<int>::operator bool\(\) const$'),
    plain('fu_ctor', 'fu_ctor', r'^cocls::future<int>::future\(\)$'),
    plain('get_promise', 'fu_get_promise', r'^cocls::future<int>::get_promise\(\)$'),
    plain('ready', 'fc_ready', r'^cocls::future_common::ready\(\) const$'),
    plain('pending', 'fc_pending', r'^cocls::future_common::pending\(\) const$'),
    plain('initialized', 'fc_initialized', r'^cocls::future_common::initialized\(\) const$'),
    plain('value', 'fu_value', r'^cocls::future<int>::value\(\)$', globals=dict(GLOBALS, **TI)),
    plain('fu_dtor', 'fu_dtor', r'^cocls::future<int>::~future\(\)$'),
    dict(name='lemma_single_winner', driver='c01_future.cpp', roots=[r'^cocls::promise<int>::claim\(\) const$'], names={}, types=TYPES, globals=GLOBALS, boundary=[], lib=LIBS,
         spec=['C01/h_lemma.c'], harness='h_lemma_single_winner', loop_contracts=True, defines=DEFS, kind='lemma', under_contract=['lemma over the exchange primitive (protocol F, owner cell)']),
    plain('ab_resume', 'ab_resume', r'^cocls::future<int>::awaitable_bool::await_resume\(\)$'),
]

# "its state never changes afterwards" also binds the waiters' side: a subscription must never be pushed on top of the ready marker.
# That clause lives in the protocol-F primitive and is exercised by the subscription units of C02, re-run here.
import importlib.util as _ilu, os as _os, copy as _copy
def _c02(names):
    s = _ilu.spec_from_file_location('c01_c02', _os.path.join(_os.path.dirname(_os.path.dirname(_os.path.abspath(__file__))), 'C02', 'units.py')); m = _ilu.module_from_spec(s); s.loader.exec_module(m)
    out = []
    for x in m.UNITS:
        if x['name'] in names:
            v = _copy.deepcopy(x); v['name'] = 'C02_' + x['name']; out.append(v)
    return out
UNITS += _c02(['subscribe_check_ready', 'co_await_suspend', 'co_await_suspend_fn', 'co_sync'])
META = dict(
    level='proof',
    level_text='promise<int>::claim, set_value/operator()(value), set_value(drop), set_exception, ~promise, promise(promise&&), operator bool, future<int>::future(), get_promise, ready/pending/initialized, value() (complete outcome map incl. the exception types thrown), ~future, has_value().await_resume are each verified against a contract taken from the property statement, thread-modularly: every atomic instruction runs through protocol-F primitives that first let the environment act (another caller may take the right to resolve at any instant, other threads may subscribe, another winner may resolve) and then check the step against the protocol (only the token holder marks the future ready, never twice, never a plain store on a shared cell). Success <=> this call took the token and swung the slot; the payload at the instant of resolution and at return is exactly the argument; failure leaves no trace (no RMW on the slot, payload untouched, empty suspend point); a destroyed armed promise resolves to no-value; value() maps no-value to await_canceled_exception. The single-winner lemma is an unbounded loop over the claim primitive.',
    level_note='Trusted: protocol-F primitives and the rely they encode (lib/rt_atomic_protF.c), rely/guarantee soundness argument (DESIGN 3.5), clang front end, ir2c. awaiter::resume_chain_lk (walk over the detached waiters) and suspend_point::suspend_now are abstract callees here (subjects of C02 / C05). Covered value type: int (exception_ptr payload for the exception path); promise<void>, move-only, reference and instance-counted T are not instantiated yet. promise::operator=(promise&&) needs two registered cells and is not covered. Documented misuse excluded by precondition: destroying a promise object that other threads can still call.',
    technique='CBMC code contracts enforced via goto-instrument --dfcc on the C translation of clang IR of future.h; atomic instructions replaced by rely/guarantee protocol primitives with ghost tokens (thread-modular); lemma harness with loop contract',
    trusted_base=['protocol-F atomic primitives and environment model (lib/rt_atomic_protF.c)', 'abstract callees: awaiter::resume_chain_lk, suspend_point::suspend_now (recording stubs, specs/C01/f_spec.h)', 'exception_ptr reference counting stubs (lib/rt_core.c)'],
    assumptions=['rely/guarantee soundness: if every step of every thread conforms, every interleaving satisfies the protocol invariant (argued, DESIGN 3.5)', 'atomic RMWs on one location are totally ordered (C++ coherence)', 'T = int; other value types not instantiated'],
    explanation='see level_text')
