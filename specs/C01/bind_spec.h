/* C01 / C20 - promise<T>::bind(args...) (src/cocls/future.h): "Bind arguments but don't resolve yet. Return function, which can be called
 * to resolve the future".   Included AFTER C01/f_spec.h and C01/h_f.c.   T = int, c01_big64 (64 bytes), c01_big200 (200 bytes).
 *
 * Clauses (C01: one resolution, by one winner, the result is exactly the winner's payload; C20: creating / resolving / destroying
 * future-promise pairs performs no dynamic allocation):
 *   bind(a)      : the right to resolve leaves the promise it is called on (source disarmed) and is held by exactly one owner, the returned
 *                  closure; the argument is bound BY VALUE (the closure carries a's value, a is untouched); nothing is resolved; no allocation.
 *   closure()    : a resolver of the promise inside the closure with the bound value as payload - the complete outcome map of set_value
 *                  (SETV_ENSURES of f_spec.h: winner <=> took the token, payload at the instant of resolution and at return is the bound
 *                  value - first and last word of a big payload -, waiters handed on once, loser leaves no trace); no allocation.
 *   ~closure     : the destruction of the promise inside: armed -> the future resolves to no-value, exactly once; disarmed (called
 *                  before, or another caller won) -> no trace; no allocation.
 * The three are thread-modular units over the protocol-F primitives (the promise inside the closure is the registered owner cell).
 * The closure type is taken from the translated signatures (ptypes).  Clauses that name the closure's members are left out of the C20
 * run (CV_CHECK_C20): C20 speaks about allocation only, whatever bind() returns.
 * drive units (plain symbolic execution, sequential atomics, through the extern "C" wrappers of drivers/c01_types.cpp, i.e. through whatever
 * type bind() returns): bind -> [call -> second call] -> destroy, with the outcome of every step and "no allocation, nothing freed". */
#define CL_PROM(c) (&(c)->p)
#ifdef BIND_BIG
#define BD_ARG_T BIG
#define BD_ARG_V(a) ((a)->v)
#define BD_ARG_TAIL(a) ((a)->tail)
#define BD_CL_ARG(c) ((BIG *)&(c)->args)
#define BD_FUT_ARG(f) ((BIG *)&(f)->f1)
#define BD_AT_RESOLVE (gh_value_at_resolve == gh_bd_v && gh_aux_at_resolve[0] == (cv_i64)gh_bd_tail)
#define BD_AUX_ASSIGNS __CPROVER_assigns(C01_AUX_GHOSTS)
#else
#define BD_ARG_T cv_i32
#define BD_ARG_V(a) (*(a))
#define BD_ARG_TAIL(a) (*(a))
#define BD_CL_ARG(c) ((cv_i32 *)&(c)->args)
#define BD_FUT_ARG(f) ((cv_i32 *)&(f)->f1)
#define BD_AT_RESOLVE (gh_value_at_resolve == gh_bd_v)
#define BD_AUX_ASSIGNS
#endif
cv_i32 gh_bd_v, gh_bd_tail;      /* logical variables: first / last word of the bound value on entry */

/* ---- bind(a) ------------------------------------------------------------------------------------------------------------------ */
#ifdef CV_HAS_bd_bind
void bd_bind(CLOS *c, PROM *this_, BD_ARG_T *a)
__CPROVER_requires(F_PRE_COMMON && gh_P_cell == P_CELL(this_) && gh_F_slot == 0 && gh_F_fut != 0 && __CPROVER_is_fresh(c, sizeof(*c)) && __CPROVER_is_fresh(a, sizeof(*a)))
__CPROVER_requires(gh_bd_v == BD_ARG_V(a) && gh_bd_tail == BD_ARG_TAIL(a))
__CPROVER_requires(PROTF_WF && (gh_tok == TOK_CELL || gh_tok == TOK_OTHER || gh_tok == TOK_SPENT))
__CPROVER_assigns(__CPROVER_object_whole(c), __CPROVER_object_whole(this_), PROTF_GHOSTS)
__CPROVER_ensures(cv_exc_pending == 0 && *P_CELL(this_) == 0 && gh_tok != TOK_CELL)            /* the source promise is disarmed: the right to resolve has left it */
__CPROVER_ensures(__CPROVER_old(gh_tok) != TOK_CELL ==> gh_tok == __CPROVER_old(gh_tok))       /* an empty source yields nothing */
__CPROVER_ensures(gh_resolved_by_me == 0 && gh_n_slot_rmw == __CPROVER_old(gh_n_slot_rmw))     /* binding resolves nothing */
#ifndef CV_CHECK_C20
__CPROVER_ensures(*P_CELL(CL_PROM(c)) == 0 || *P_CELL(CL_PROM(c)) == gh_F_fut)
__CPROVER_ensures((*P_CELL(CL_PROM(c)) != 0) == (gh_tok == TOK_ME))                            /* the closure is armed <=> this call took the token: exactly one owner */
__CPROVER_ensures(BD_ARG_V(BD_CL_ARG(c)) == gh_bd_v && BD_ARG_TAIL(BD_CL_ARG(c)) == gh_bd_tail) /* bound by value */
#endif
__CPROVER_ensures(BD_ARG_V(a) == gh_bd_v && BD_ARG_TAIL(a) == gh_bd_tail)                      /* the caller's argument is untouched */
__CPROVER_ensures(gh_allocs == __CPROVER_old(gh_allocs))                                       /* C20: whatever the size of the bound arguments */
;
void h_bd_bind(void) { REG_PROMISE(o); FUT *f = malloc(sizeof(FUT)); gh_F_fut = f; gh_F_slot = 0; CLOS *c; BD_ARG_T *a; bd_bind(c, o, a);
  if (gh_tok == TOK_ME) __CPROVER_assert(0, "SENTINEL reachable: the closure took the right to resolve"); else __CPROVER_assert(0, "SENTINEL reachable: the source was empty"); }
#endif

/* ---- closure(): std::apply(std::move(p), std::move(args)) -> promise::operator()(T&&) -> set_value ------------------------------- */
#ifdef CV_HAS_bd_call
void bd_call(SPB *agg, CLOS *c)
SETV_REQUIRES(CL_PROM(c))
__CPROVER_requires(__CPROVER_is_fresh(agg, sizeof(*agg)) && gh_bd_v == BD_ARG_V(BD_CL_ARG(c)) && gh_bd_tail == BD_ARG_TAIL(BD_CL_ARG(c)))
SETV_ASSIGNS(CL_PROM(c), agg)
BD_AUX_ASSIGNS
SETV_ENSURES(CL_PROM(c), agg, gh_state_at_resolve == ST_VALUE && BD_AT_RESOLVE && F_STATE(FUT0) == ST_VALUE && \
                              BD_ARG_V(BD_FUT_ARG(FUT0)) == gh_bd_v && BD_ARG_TAIL(BD_FUT_ARG(FUT0)) == gh_bd_tail)
;
void h_bd_call(void) { gh_INSTANCE = (void *)AW_INSTANCE; gh_DISABLED = (void *)AW_DISABLED; CLOS c_obj; CLOS *c = &c_obj; gh_P_cell = P_CELL(CL_PROM(c)); REG_FUTURE(f); SPB *a; bd_call(a, c);
  if (gh_resolved_by_me) __CPROVER_assert(0, "SENTINEL reachable: this call won"); else __CPROVER_assert(0, "SENTINEL reachable: this call lost"); }
#endif

/* ---- ~closure: destroys args, then the promise inside (precondition of ~promise: nobody else can reach the object) ---------------- */
#ifdef CV_HAS_bd_dtor
void bd_dtor(CLOS *c)
__CPROVER_requires(F_PRE_COMMON && RC_PRE && gh_P_cell == P_CELL(CL_PROM(c)) && gh_cell_excl == 1)
__CPROVER_requires(gh_F_fut != 0 && gh_F_slot == F_SLOT(FUT0) && *gh_F_slot != F_INS)
__CPROVER_requires(PROTF_WF && (gh_tok == TOK_CELL || gh_tok == TOK_OTHER || gh_tok == TOK_SPENT || gh_tok == TOK_ME))
__CPROVER_requires(gh_tok == TOK_CELL ==> F_STATE(FUT0) == ST_NOT_VALUE)
__CPROVER_assigns(__CPROVER_object_whole(c), __CPROVER_object_whole(FUT0), PROTF_GHOSTS, gh_rc_calls, gh_rc_chain, gh_sn_calls)
BD_AUX_ASSIGNS
__CPROVER_ensures(cv_exc_pending == 0)
/* an uncalled closure drops the promise: the future resolves to no-value, once */
__CPROVER_ensures(__CPROVER_old(gh_tok) == TOK_CELL ==> (gh_resolved_by_me == 1 && *gh_F_slot == F_DIS && gh_tok == TOK_SPENT && gh_state_at_resolve == ST_NOT_VALUE && F_STATE(FUT0) == ST_NOT_VALUE))
__CPROVER_ensures(__CPROVER_old(gh_tok) == TOK_CELL ==> (gh_rc_calls == 1 && gh_rc_chain == gh_chain_at_resolve && gh_sn_calls == (gh_rc_cf != 0 ? 1 : 0)))
/* a called / emptied closure leaves no trace */
__CPROVER_ensures(__CPROVER_old(gh_tok) != TOK_CELL ==> (gh_resolved_by_me == 0 && gh_rc_calls == 0 && gh_sn_calls == 0 && gh_n_slot_rmw == __CPROVER_old(gh_n_slot_rmw) && (gh_tok == __CPROVER_old(gh_tok) || (__CPROVER_old(gh_tok) == TOK_OTHER && gh_tok == TOK_SPENT))))
__CPROVER_ensures(__CPROVER_old(gh_tok) != TOK_CELL ==> (F_STATE(FUT0) == __CPROVER_old(F_STATE(FUT0)) && F_EXCP(FUT0) == __CPROVER_old(F_EXCP(FUT0))))
__CPROVER_ensures(gh_allocs == __CPROVER_old(gh_allocs) && gh_frees == __CPROVER_old(gh_frees))
;
void h_bd_dtor(void) { gh_INSTANCE = (void *)AW_INSTANCE; gh_DISABLED = (void *)AW_DISABLED; CLOS c_obj; CLOS *c = &c_obj; gh_P_cell = P_CELL(CL_PROM(c)); REG_FUTURE(f); bd_dtor(c);
  if (gh_resolved_by_me) __CPROVER_assert(0, "SENTINEL reachable: armed closure destroyed"); else __CPROVER_assert(0, "SENTINEL reachable: disarmed closure destroyed"); }
#endif

/* ---- drive: bind -> [call -> second call] -> destroy through the wrappers (whatever type bind() returns); sequential atomics -------- */
#if defined(CV_HAS_bd_drv_bind) && defined(CV_HAS_bd_drv_call) && defined(CV_HAS_bd_drv_dtor)
void h_bd_drive(void) {
  PROM p_obj; PROM *p = &p_obj; FUT f_obj; FUT *f = &f_obj; CLOS c_obj; CLOS *c = &c_obj; SPB r1, r2; BD_ARG_T a_obj; BD_ARG_T *a = &a_obj;
  cv_exc_pending = 0; gh_rc_calls = 0; gh_sn_calls = 0; gh_rc_cf = 0;
  *F_SLOT(f) = 0; F_STATE(f) = ST_NOT_VALUE; *P_CELL(p) = f;                                     /* pending future, nobody waits, armed promise */
  cv_i32 v = BD_ARG_V(a), tail = BD_ARG_TAIL(a);
  cv_i64 allocs0 = gh_allocs, frees0 = gh_frees;
  _Bool do_call = nondet_bool();
  bd_drv_bind(c, p, a);
  __CPROVER_assert(cv_exc_pending == 0 && *P_CELL(p) == 0, "drive: bind disarms the promise it is called on");
  __CPROVER_assert(*F_SLOT(f) == 0 && F_STATE(f) == ST_NOT_VALUE && gh_rc_calls == 0, "drive: bind resolves nothing");
  __CPROVER_assert(gh_allocs == allocs0, "drive: bind does not allocate (C20)");
  BD_ARG_V(a) = v + 1;                                                                           /* bound by value: a later change of the argument is not seen */
  if (do_call) {
    bd_drv_call(&r1, c);
    __CPROVER_assert(cv_exc_pending == 0 && r1.value == 1 && *F_SLOT(f) == (void *)AW_DISABLED && gh_rc_calls == 1, "drive: the first call of the closure resolves the future");
    __CPROVER_assert(F_STATE(f) == ST_VALUE && BD_ARG_V(BD_FUT_ARG(f)) == v && BD_ARG_TAIL(BD_FUT_ARG(f)) == tail, "drive: the result is exactly the bound value");
    bd_drv_call(&r2, c);
    __CPROVER_assert(cv_exc_pending == 0 && r2.value == 0 && gh_rc_calls == 1 && F_STATE(f) == ST_VALUE && BD_ARG_V(BD_FUT_ARG(f)) == v, "drive: a second call loses and leaves no trace");
    __CPROVER_assert(gh_allocs == allocs0, "drive: calling the closure does not allocate (C20)");
  }
  bd_drv_dtor(c);
  __CPROVER_assert(cv_exc_pending == 0 && *F_SLOT(f) == (void *)AW_DISABLED && gh_rc_calls == 1, "drive: after the closure is gone the future is resolved, exactly once");
  __CPROVER_assert(do_call || F_STATE(f) == ST_NOT_VALUE, "drive: an uncalled closure drops the promise (no-value)");
  __CPROVER_assert(!do_call || (F_STATE(f) == ST_VALUE && BD_ARG_V(BD_FUT_ARG(f)) == v), "drive: destroying a called closure does not change the result");
  __CPROVER_assert(gh_allocs == allocs0 && gh_frees == frees0, "drive: bind / call / destroy neither allocate nor free (C20)");
  if (do_call) __CPROVER_assert(0, "SENTINEL reachable: closure called"); else __CPROVER_assert(0, "SENTINEL reachable: closure dropped");
}
#endif
