/* L "single winner" (DESIGN C01): an unbounded number of claims, by this thread (explicit) and by any other threads (environment step
 * inside the primitive), on one armed promise cell.  Invariant: the number of parties that ever received the non-null value is at
 * most one, and it is exactly one once the cell is empty.  This is a lemma about the exchange primitive (atomicity of the RMW);
 * the real claim() is tied to the primitive by unit `claim`. */
void h_lemma_single_winner(void)
{
  gh_INSTANCE = (void *)AW_INSTANCE; gh_DISABLED = (void *)AW_DISABLED;
  void **cell = malloc(sizeof(void *)); __CPROVER_assume(cell != 0);
  void *fut = malloc(8); __CPROVER_assume(fut != 0);
  gh_P_cell = cell; gh_F_slot = 0; gh_F_fut = fut; *cell = fut; gh_tok = TOK_CELL; gh_cell_excl = 0; gh_env_claims = 0;
  unsigned my_wins = 0;
  while (nondet_bool())
    __CPROVER_assigns(my_wins, *cell, gh_tok, gh_env_claims)
    __CPROVER_loop_invariant(my_wins + gh_env_claims <= 1 && my_wins <= 1 && gh_env_claims <= 1)
    __CPROVER_loop_invariant((my_wins + gh_env_claims == 1) == (*cell == 0))
    __CPROVER_loop_invariant((*cell != 0) == (gh_tok == TOK_CELL) && (*cell == 0 || *cell == fut))
  {
    cv_i64 r = cv_atomic_xchg_i64((cv_i64 *)cell, 0, 0 /* relaxed, as in promise::claim */);
    if (r != 0) { my_wins++; __CPROVER_assert((void *)r == fut && gh_tok == TOK_ME, "winner receives the future and the right to resolve"); gh_tok = TOK_SPENT; }
  }
  __CPROVER_assert(my_wins + gh_env_claims <= 1, "L single winner: at most one party ever wins the claim");
  __CPROVER_assert((*cell == 0) == (my_wins + gh_env_claims == 1), "L single winner: the cell is empty exactly when somebody won");
  __CPROVER_assert(0, "SENTINEL reachable");
}
