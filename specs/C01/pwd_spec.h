/* C01 - cocls::promise_with_default<int> (src/cocls/future.h).  Included AFTER C01/f_spec.h and C01/h_f.c.
 *
 * Class documentation: "Promise with default value - If the promise is destroyed unresolved, the default value is set to the future".
 * Property C01: "exactly one resolution takes effect ... and the future's result (value, exception or no-value) is exactly the winner's
 * payload".  The destruction of an armed promise_with_default IS a resolution, its payload is the default value the object carries for
 * the future it owns.  The pair (right to resolve future F, default value D given for F) therefore travels together:
 *   ctor(promise&&, d) : takes the right out of the source promise (single-winner claim), carries d;
 *   move ctor          : takes the right out of the source object, carries the SOURCE's default; source disarmed;
 *   dtor               : armed  -> the future is resolved, exactly once, with the value `def` (payload at the instant of resolution and at
 *                        return); disarmed -> leaves no trace;
 *   move assignment    : the overwritten future is resolved AT ONCE (no hang; to no-value as for promise<T>::operator=, or to the target's
 *                        own old default - both are resolutions whose payload belongs to that future); the source's future is NOT resolved
 *                        by the assignment; afterwards the target owns the source's future AND the source's default, the source is empty.
 * ctor / move ctor / dtor are thread-modular (protocol-F primitives, as every resolver of f_spec.h); move assignment relates two promises and
 * two futures and runs with sequential atomics (an object being assigned to / moved from is not shared - documented), on the real code of
 * promise<int>::operator=, set_value(DropTag), claim, future::resolve, awaiter::resume_chain_set_ready. */
#define PWD_PROM(p) (&(p)->base_promise)
#define PWD_CELL(p) P_CELL(PWD_PROM(p))
#define REG_PWD(p) gh_INSTANCE = (void *)AW_INSTANCE; gh_DISABLED = (void *)AW_DISABLED; PWD p##_obj; PWD *p = &p##_obj; gh_P_cell = PWD_CELL(p)
cv_i32 gh_pwd_d;                 /* logical variable: the default value on entry */

/* ---- promise_with_default(promise<int> &&prom, int &d) -------------------------------------------------------------------- */
#ifdef CV_HAS_pwd_ctor
void pwd_ctor(PWD *this_, PROM *prom, cv_i32 *d)
__CPROVER_requires(F_PRE_COMMON && gh_P_cell == P_CELL(prom) && gh_F_slot == 0 && gh_F_fut != 0 && __CPROVER_is_fresh(this_, sizeof(*this_)))
__CPROVER_requires(__CPROVER_is_fresh(d, sizeof(*d)) && gh_pwd_d == *d)
__CPROVER_requires(PROTF_WF && (gh_tok == TOK_CELL || gh_tok == TOK_OTHER || gh_tok == TOK_SPENT))
__CPROVER_assigns(__CPROVER_object_whole(this_), __CPROVER_object_whole(prom), PROTF_GHOSTS)
__CPROVER_ensures(cv_exc_pending == 0 && *P_CELL(prom) == 0)                                   /* the source promise is disarmed */
__CPROVER_ensures(*PWD_CELL(this_) == 0 || *PWD_CELL(this_) == gh_F_fut)
__CPROVER_ensures((*PWD_CELL(this_) != 0) == (gh_tok == TOK_ME))                               /* armed <=> it took the token out of the source: one owner */
__CPROVER_ensures(__CPROVER_old(gh_tok) != TOK_CELL ==> (*PWD_CELL(this_) == 0 && gh_tok == __CPROVER_old(gh_tok)))
__CPROVER_ensures(this_->def == gh_pwd_d && *d == gh_pwd_d)                                    /* carries exactly the default given */
__CPROVER_ensures(gh_allocs == __CPROVER_old(gh_allocs))
;
void h_pwd_ctor(void) { REG_PROMISE(o); FUT *f = malloc(sizeof(FUT)); gh_F_fut = f; gh_F_slot = 0; PWD *n; cv_i32 *d; pwd_ctor(n, o, d);
  if (gh_tok == TOK_ME) __CPROVER_assert(0, "SENTINEL reachable: took the right to resolve"); else __CPROVER_assert(0, "SENTINEL reachable: source was empty"); }
#endif

/* ---- promise_with_default(promise_with_default &&other) ------------------------------------------------------------------- */
#ifdef CV_HAS_pwd_move_ctor
void pwd_move_ctor(PWD *this_, PWD *other)
__CPROVER_requires(F_PRE_COMMON && gh_P_cell == PWD_CELL(other) && gh_F_slot == 0 && gh_F_fut != 0 && __CPROVER_is_fresh(this_, sizeof(*this_)) && gh_pwd_d == other->def)
__CPROVER_requires(PROTF_WF && (gh_tok == TOK_CELL || gh_tok == TOK_OTHER || gh_tok == TOK_SPENT))
__CPROVER_assigns(__CPROVER_object_whole(this_), __CPROVER_object_whole(other), PROTF_GHOSTS)
__CPROVER_ensures(cv_exc_pending == 0 && *PWD_CELL(other) == 0)                                /* the source is disarmed */
__CPROVER_ensures(*PWD_CELL(this_) == 0 || *PWD_CELL(this_) == gh_F_fut)
__CPROVER_ensures((*PWD_CELL(this_) != 0) == (gh_tok == TOK_ME))
__CPROVER_ensures(__CPROVER_old(gh_tok) != TOK_CELL ==> (*PWD_CELL(this_) == 0 && gh_tok == __CPROVER_old(gh_tok)))
__CPROVER_ensures(this_->def == gh_pwd_d)                                                      /* the right to resolve travels with the SOURCE's default */
__CPROVER_ensures(gh_allocs == __CPROVER_old(gh_allocs))
;
void h_pwd_move_ctor(void) { REG_PWD(o); FUT *f = malloc(sizeof(FUT)); gh_F_fut = f; gh_F_slot = 0; PWD *n; pwd_move_ctor(n, o);
  if (gh_tok == TOK_ME) __CPROVER_assert(0, "SENTINEL reachable: took the right to resolve"); else __CPROVER_assert(0, "SENTINEL reachable: source was empty"); }
#endif

/* ---- ~promise_with_default(): precondition as for ~promise (nobody else can reach the object being destroyed) -------------- */
#if defined(CV_HAS_pwd_dtor) && !defined(PWD_SEQ)
void pwd_dtor(PWD *this_)
__CPROVER_requires(F_PRE_COMMON && RC_PRE && gh_P_cell == PWD_CELL(this_) && gh_cell_excl == 1 && gh_pwd_d == this_->def)
__CPROVER_requires(gh_F_fut != 0 && gh_F_slot == F_SLOT(FUT0) && *gh_F_slot != F_INS)
__CPROVER_requires(PROTF_WF && (gh_tok == TOK_CELL || gh_tok == TOK_OTHER || gh_tok == TOK_SPENT || gh_tok == TOK_ME))
__CPROVER_requires(gh_tok == TOK_CELL ==> F_STATE(FUT0) == ST_NOT_VALUE)
__CPROVER_assigns(__CPROVER_object_whole(this_), __CPROVER_object_whole(FUT0), PROTF_GHOSTS, gh_rc_calls, gh_rc_chain, gh_sn_calls)
__CPROVER_ensures(cv_exc_pending == 0)
/* armed: this destruction is the one resolution that takes effect ... */
__CPROVER_ensures(__CPROVER_old(gh_tok) == TOK_CELL ==> (gh_resolved_by_me == 1 && *gh_F_slot == F_DIS && gh_tok == TOK_SPENT && gh_n_slot_rmw == __CPROVER_old(gh_n_slot_rmw) + 1))
/* ... and its payload is the default value: at the instant of resolution and at return */
__CPROVER_ensures(__CPROVER_old(gh_tok) == TOK_CELL ==> (gh_state_at_resolve == ST_VALUE && gh_value_at_resolve == gh_pwd_d && F_STATE(FUT0) == ST_VALUE && F_VALUE(FUT0) == gh_pwd_d))
__CPROVER_ensures(__CPROVER_old(gh_tok) == TOK_CELL ==> (gh_rc_calls == 1 && gh_rc_chain == gh_chain_at_resolve && gh_sn_calls == (gh_rc_cf != 0 ? 1 : 0)))   /* waiters released exactly once */
/* disarmed (resolved before, moved from, or another caller took the right): leaves no trace */
__CPROVER_ensures(__CPROVER_old(gh_tok) != TOK_CELL ==> (gh_resolved_by_me == 0 && gh_rc_calls == 0 && gh_sn_calls == 0 && gh_n_slot_rmw == __CPROVER_old(gh_n_slot_rmw) && (gh_tok == __CPROVER_old(gh_tok) || (__CPROVER_old(gh_tok) == TOK_OTHER && gh_tok == TOK_SPENT))))
__CPROVER_ensures(__CPROVER_old(gh_tok) != TOK_CELL ==> (F_STATE(FUT0) == __CPROVER_old(F_STATE(FUT0)) && F_EXCP(FUT0) == __CPROVER_old(F_EXCP(FUT0))))
__CPROVER_ensures(gh_allocs == __CPROVER_old(gh_allocs))
;
void h_pwd_dtor(void) { REG_PWD(p); REG_FUTURE(f); pwd_dtor(p);
  if (gh_resolved_by_me) __CPROVER_assert(0, "SENTINEL reachable: armed promise destroyed"); else __CPROVER_assert(0, "SENTINEL reachable: disarmed promise destroyed"); }
#endif

/* ---- operator=(promise_with_default &&other): two promises a (target), b (source), their futures fa, fb; sequential atomics ---------- */
#ifdef PWD_SEQ
FUT *gh_pwd_fa, *gh_pwd_fb;      /* assigned by the harness (objects are harness locals) */
cv_i32 nondet_pwd_i32(void);
cv_i32 in_da, in_db;             /* the two default values (also inputs of the native replay replay/c01_pwd_move_assign.cpp) */
#define PWD_FA gh_pwd_fa
#define PWD_FB gh_pwd_fb
#define PWD_PENDING(f) (*F_SLOT(f) != (void *)AW_INSTANCE && *F_SLOT(f) != (void *)AW_DISABLED && F_STATE(f) == ST_NOT_VALUE)
/* set up: each promise either owns its own pending future or is empty */
#define PWD_SETUP(a, b, fa, fb) PWD a##_obj, b##_obj; FUT fa##_obj, fb##_obj; PWD *a = &a##_obj, *b = &b##_obj; FUT *fa = &fa##_obj, *fb = &fb##_obj; \
  gh_pwd_fa = fa; gh_pwd_fb = fb; in_da = nondet_pwd_i32(); in_db = nondet_pwd_i32(); a->def = in_da; b->def = in_db; \
  if (nondet_bool()) *PWD_CELL(a) = fa; else *PWD_CELL(a) = 0; \
  if (nondet_bool()) *PWD_CELL(b) = fb; else *PWD_CELL(b) = 0
#endif

#if defined(CV_HAS_pwd_move_assign) && defined(PWD_SEQ) && !defined(PWD_DRIVE)
PWD *pwd_move_assign(PWD *this_, PWD *other)
__CPROVER_requires(cv_exc_pending == 0 && gh_rc_calls == 0 && gh_sn_calls == 0 && RC_PRE && this_ != other)
__CPROVER_requires(this_->def == in_da && other->def == in_db)
__CPROVER_requires(PWD_PENDING(PWD_FA) && PWD_PENDING(PWD_FB))
__CPROVER_requires((*PWD_CELL(this_) == 0 || *PWD_CELL(this_) == (void *)PWD_FA) && (*PWD_CELL(other) == 0 || *PWD_CELL(other) == (void *)PWD_FB))
__CPROVER_assigns(__CPROVER_object_whole(this_), __CPROVER_object_whole(other), __CPROVER_object_whole(PWD_FA), __CPROVER_object_whole(PWD_FB), gh_rc_calls, gh_rc_chain, gh_sn_calls)
__CPROVER_ensures(cv_exc_pending == 0 && __CPROVER_return_value == this_)
/* the overwritten future is resolved at once, exactly once, with a payload of its own (no-value, or the target's old default); never left pending */
__CPROVER_ensures(__CPROVER_old(*PWD_CELL(this_)) != 0 ==> (*F_SLOT(PWD_FA) == (void *)AW_DISABLED && gh_rc_calls == 1 && gh_rc_chain == __CPROVER_old(*F_SLOT(PWD_FA))))
__CPROVER_ensures(__CPROVER_old(*PWD_CELL(this_)) != 0 ==> (F_STATE(PWD_FA) == ST_NOT_VALUE || (F_STATE(PWD_FA) == ST_VALUE && F_VALUE(PWD_FA) == in_da)))
__CPROVER_ensures(__CPROVER_old(*PWD_CELL(this_)) != 0 ==> gh_sn_calls == (gh_rc_cf != 0 ? 1 : 0))
__CPROVER_ensures(__CPROVER_old(*PWD_CELL(this_)) == 0 ==> (gh_rc_calls == 0 && gh_sn_calls == 0 && *F_SLOT(PWD_FA) == __CPROVER_old(*F_SLOT(PWD_FA)) && F_STATE(PWD_FA) == ST_NOT_VALUE))
/* the source's future is not resolved by the assignment: the right to resolve it moves, with its default */
__CPROVER_ensures(*F_SLOT(PWD_FB) == __CPROVER_old(*F_SLOT(PWD_FB)) && F_STATE(PWD_FB) == ST_NOT_VALUE)
__CPROVER_ensures(*PWD_CELL(other) == 0 && *PWD_CELL(this_) == __CPROVER_old(*PWD_CELL(other)))       /* one owner: the target owns what the source owned, the source is empty */
__CPROVER_ensures(__CPROVER_old(*PWD_CELL(other)) != 0 ==> this_->def == in_db)       /* C01-FINDING-pwd-self-move: operator= does `def = std::move(def)`; the future taken over from `other` later receives the TARGET's old default */
__CPROVER_ensures(gh_allocs == __CPROVER_old(gh_allocs))
;
void h_pwd_move_assign(void) { PWD_SETUP(a, b, fa, fb); pwd_move_assign(a, b);
  if (*PWD_CELL(a)) __CPROVER_assert(0, "SENTINEL reachable: the target took over a future"); else __CPROVER_assert(0, "SENTINEL reachable: the source was empty"); }
#endif

/* ---- the same scenario end to end (no contract, real code only): a = std::move(b); a destroyed unresolved; b destroyed ------------------ */
#if defined(PWD_DRIVE) && defined(CV_HAS_pwd_move_assign) && defined(CV_HAS_pwd_dtor_fn)
void h_pwd_assign_then_destroy(void) {
  PWD_SETUP(a, b, fa, fb);
  cv_exc_pending = 0; gh_rc_calls = 0; gh_sn_calls = 0; gh_rc_cf = 0;
  *F_SLOT(fa) = 0; F_STATE(fa) = ST_NOT_VALUE; *F_SLOT(fb) = 0; F_STATE(fb) = ST_NOT_VALUE;      /* both futures pending, nobody waits */
  cv_i1 a_armed = *PWD_CELL(a) != 0, b_armed = *PWD_CELL(b) != 0;
  pwd_move_assign(a, b);
  __CPROVER_assert(cv_exc_pending == 0, "drive: the assignment does not throw");
  __CPROVER_assert(!a_armed || *F_SLOT(fa) == (void *)AW_DISABLED, "drive: the overwritten future is resolved at once (no hang)");
  __CPROVER_assert(*F_SLOT(fb) == 0 && F_STATE(fb) == ST_NOT_VALUE, "drive: the source's future is not resolved by the assignment");
  pwd_dtor_fn(a);                                                                                 /* a destroyed unresolved */
  __CPROVER_assert(!b_armed || *F_SLOT(fb) == (void *)AW_DISABLED, "drive: the future taken over is resolved when its new owner is destroyed");
  __CPROVER_assert(!b_armed || (F_STATE(fb) == ST_VALUE && F_VALUE(fb) == in_db), "C01-FINDING-pwd-self-move: the future that b owned receives b's default value");
  __CPROVER_assert(b_armed || (*F_SLOT(fb) == 0 && F_STATE(fb) == ST_NOT_VALUE), "drive: an empty source leaves its future alone");
  cv_i32 st = F_STATE(fb), v = F_VALUE(fb); int rc = gh_rc_calls;
  pwd_dtor_fn(b);                                                                                 /* the moved-from object: no trace */
  __CPROVER_assert(F_STATE(fb) == st && F_VALUE(fb) == v && gh_rc_calls == rc, "drive: destroying the moved-from promise leaves no trace (the result never changes afterwards)");
  __CPROVER_assert(gh_rc_calls == (a_armed ? 1 : 0) + (b_armed ? 1 : 0), "drive: each future resolved exactly once");
  if (b_armed) __CPROVER_assert(0, "SENTINEL reachable: a future was taken over"); else __CPROVER_assert(0, "SENTINEL reachable: the source was empty");
}
#endif
