/* C01 (+C03 visibility obligations, C20 no-allocation) - contracts on promise<T> / future<T> (src/cocls/future.h), T = int, void.
 * Thread-modular: every atomic instruction goes through the protocol-F primitives of lib/rt_atomic_protF.c, which let the
 * environment act before each step (other callers of the same promise may take the right to resolve, other threads may
 * subscribe, another winner may resolve) and check that the step taken is allowed. */
#define F_SLOT(f)  ((void **)&(f)->base_future_common._awaiter._M_b._M_p)
#define P_CELL(p)  ((void **)&(p)->_owner._M_b._M_p)
#define F_STATE(f) ((f)->base_future_common._state)
#define F_VALUE(f) (*(cv_i32 *)&(f)->f1)
#define F_EXCP(f)  (*(void **)&(f)->f1)
#define ST_NOT_VALUE 0
#define ST_VALUE 1
#define ST_VALUE_REF 2
#define ST_EXCEPTION 3
#define FUT0 ((FUT *)gh_F_fut)
/* NOTE: the registered promise and future objects are allocated by the HARNESS (plain malloc, nondeterministic content) and the ghost
 * pointers gh_P_cell / gh_F_slot / gh_F_fut are ASSIGNED there: CBMC resolves a dereference through its value sets, so a ghost pointer
 * that is only *assumed* equal to an address (is_fresh + requires) would read an unconstrained value. */
/* common precondition: protocol state well formed, one promise cell and one future registered */
#define F_PRE_COMMON (cv_exc_pending == 0 && gh_INSTANCE == (void *)AW_INSTANCE && gh_DISABLED == (void *)AW_DISABLED && \
                      gh_my_node == 0 && gh_node_own == OWN_NONE && gh_resolved_by_me == 0 && gh_rc_calls == 0 && gh_sn_calls == 0)

/* ---- abstract callees of these units ---------------------------------------------------------------------------------- */
/* awaiter::resume_chain_lk(chain): the walk over the detached waiters is the subject of C02; here it records its invocation and
 * returns an arbitrary (inline) suspend point fixed by the logical variables gh_rc_cf / gh_rc_h. */
int gh_rc_calls; void *gh_rc_chain; cv_i32 gh_rc_cf; cv_i8 *gh_rc_h[3];
#ifdef CV_HAS_aw_resume_chain_lk
void aw_resume_chain_lk(SP *ret, AWT *chain) {
  gh_rc_calls++; gh_rc_chain = chain;
  ret->_count_flag = gh_rc_cf; ret->f0.f0._handles[0] = gh_rc_h[0]; ret->f0.f0._handles[1] = gh_rc_h[1]; ret->f0.f0._handles[2] = gh_rc_h[2]; }
#endif
/* suspend_point::suspend_now(): must not be reached inside a promise call (the released waiters travel in the returned point) */
int gh_sn_calls;
#ifdef CV_HAS_sp_suspend_now
void sp_suspend_now(SP *p) { gh_sn_calls++; p->_count_flag = 0; }
#endif
#define RC_PRE (gh_rc_cf == 0 || gh_rc_cf == 2 || gh_rc_cf == 4 || gh_rc_cf == 6)
#define RET_IS_RC(ret) ((ret)->base_suspend_point._count_flag == gh_rc_cf && (ret)->base_suspend_point.f0.f0._handles[0] == gh_rc_h[0] && \
                        (ret)->base_suspend_point.f0.f0._handles[1] == gh_rc_h[1] && (ret)->base_suspend_point.f0.f0._handles[2] == gh_rc_h[2])

/* ---- promise<int>::claim(): one atomic exchange; whoever gets the non-null value holds the right to resolve ------------- */
#ifdef CV_HAS_pr_claim
FUT *pr_claim(PROM *this_)
__CPROVER_requires(F_PRE_COMMON && gh_P_cell == P_CELL(this_) && gh_F_slot == 0 && gh_F_fut != 0)
__CPROVER_requires(PROTF_WF && (gh_tok == TOK_CELL || gh_tok == TOK_OTHER || gh_tok == TOK_SPENT))
__CPROVER_assigns(__CPROVER_object_whole(this_), PROTF_GHOSTS)
__CPROVER_ensures(cv_exc_pending == 0 && *P_CELL(this_) == 0)
__CPROVER_ensures(__CPROVER_return_value == 0 || (void *)__CPROVER_return_value == gh_F_fut)
__CPROVER_ensures((__CPROVER_return_value != 0) == (gh_tok == TOK_ME))                    /* winner <=> holds the token now */
__CPROVER_ensures(__CPROVER_old(gh_tok) != TOK_CELL ==> (__CPROVER_return_value == 0 && gh_tok == __CPROVER_old(gh_tok)))
__CPROVER_ensures(gh_allocs == __CPROVER_old(gh_allocs))
;
#endif

/* ---- promise<int>::set_value / operator()(v), set_value(drop), set_exception(e) ------------------------------------------ */
#define SETV_REQUIRES(this_) \
__CPROVER_requires(F_PRE_COMMON && RC_PRE && gh_P_cell == P_CELL(this_)) \
__CPROVER_requires(gh_F_fut != 0 && gh_F_slot == F_SLOT(FUT0) && *gh_F_slot != F_INS) \
__CPROVER_requires(PROTF_WF && (gh_tok == TOK_CELL || gh_tok == TOK_OTHER || gh_tok == TOK_SPENT)) \
__CPROVER_requires(gh_tok == TOK_CELL ==> F_STATE(FUT0) == ST_NOT_VALUE)      /* unresolved future: payload not constructed */
#define SETV_ASSIGNS(this_, agg) \
__CPROVER_assigns(__CPROVER_object_whole(this_), __CPROVER_object_whole(agg), __CPROVER_object_whole(FUT0), PROTF_GHOSTS, gh_rc_calls, gh_rc_chain, gh_sn_calls)
/* common outcome clauses; `payload_ok` says what the winner's payload looks like both at the instant of resolution and at return.
 * SETV_ENSURES_G is the same list for a value type whose constructor may throw (t_spec.h): `RET` = the call returned normally (every clause
 * below speaks about a call that returned), `MAY_THROW` = 1 if an exceptional exit is admitted at all.  For every other type the two
 * parameters are (cv_exc_pending == 0, 0): the call never throws and the clauses are unconditional. */
#define SETV_ENSURES_G(this_, agg, payload_ok, RET, MAY_THROW) \
__CPROVER_ensures(((MAY_THROW) || cv_exc_pending == 0) && ((RET) ==> (*P_CELL(this_) == 0 && (agg)->value <= 1))) \
/* success: this call is the one resolution that takes effect */ \
__CPROVER_ensures((RET) ==> ((agg)->value == 1 ==> (gh_resolved_by_me == 1 && *gh_F_slot == F_DIS && gh_tok == TOK_SPENT && gh_n_slot_rmw == __CPROVER_old(gh_n_slot_rmw) + 1))) \
__CPROVER_ensures((RET) ==> ((agg)->value == 1 ==> (payload_ok))) \
__CPROVER_ensures((RET) ==> ((agg)->value == 1 ==> (gh_rc_calls == 1 && gh_rc_chain == gh_chain_at_resolve && RET_IS_RC(agg))))     /* exactly the detached waiters are handed on, once */ \
__CPROVER_ensures((RET) ==> (((agg)->value == 1) == (__CPROVER_old(gh_tok) == TOK_CELL && gh_tok == TOK_SPENT && gh_resolved_by_me == 1))) \
/* a returning call never keeps the right to resolve: whoever takes it out of the cell resolves (otherwise NO resolution would take effect) */ \
__CPROVER_ensures((RET) ==> (gh_tok != TOK_ME)) \
/* failure: leaves no trace */ \
__CPROVER_ensures((RET) ==> ((agg)->value == 0 ==> (gh_resolved_by_me == 0 && gh_rc_calls == 0 && gh_n_slot_rmw == __CPROVER_old(gh_n_slot_rmw) && (agg)->base_suspend_point._count_flag == 0))) \
__CPROVER_ensures((RET) ==> ((agg)->value == 0 ==> (F_STATE(FUT0) == __CPROVER_old(F_STATE(FUT0)) && F_EXCP(FUT0) == __CPROVER_old(F_EXCP(FUT0))))) \
__CPROVER_ensures(gh_sn_calls == 0)                                  /* nothing is resumed inside the call */ \
__CPROVER_ensures(gh_allocs == __CPROVER_old(gh_allocs))             /* C20 */
#define SETV_ENSURES(this_, agg, payload_ok) SETV_ENSURES_G(this_, agg, payload_ok, cv_exc_pending == 0, 0)

#ifdef CV_HAS_pr_set_value
cv_i32 gh_v;
void pr_set_value(SPB *agg, PROM *this_, cv_i32 *v)
SETV_REQUIRES(this_)
__CPROVER_requires(__CPROVER_is_fresh(agg, sizeof(*agg)) && __CPROVER_is_fresh(v, sizeof(*v)) && gh_v == *v)
SETV_ASSIGNS(this_, agg)
SETV_ENSURES(this_, agg, gh_state_at_resolve == ST_VALUE && gh_value_at_resolve == gh_v && F_STATE(FUT0) == ST_VALUE && F_VALUE(FUT0) == gh_v)
;
#endif
#ifdef CV_HAS_pr_call_value
cv_i32 gh_v;
void pr_call_value(SPB *agg, PROM *this_, cv_i32 *v)
SETV_REQUIRES(this_)
__CPROVER_requires(__CPROVER_is_fresh(agg, sizeof(*agg)) && __CPROVER_is_fresh(v, sizeof(*v)) && gh_v == *v)
SETV_ASSIGNS(this_, agg)
SETV_ENSURES(this_, agg, gh_state_at_resolve == ST_VALUE && gh_value_at_resolve == gh_v && F_STATE(FUT0) == ST_VALUE && F_VALUE(FUT0) == gh_v)
;
#endif
#ifdef CV_HAS_pr_set_drop
void pr_set_drop(SPB *agg, PROM *this_, cv_i32 tag)
SETV_REQUIRES(this_)
__CPROVER_requires(__CPROVER_is_fresh(agg, sizeof(*agg)))
SETV_ASSIGNS(this_, agg)
SETV_ENSURES(this_, agg, gh_state_at_resolve == ST_NOT_VALUE && F_STATE(FUT0) == ST_NOT_VALUE)       /* dropped: ready with no value */
;
#endif

#ifdef CV_HAS_pr_set_exc
void *gh_e;
void pr_set_exc(SPB *agg, PROM *this_, EPTR *e)
SETV_REQUIRES(this_)
__CPROVER_requires(__CPROVER_is_fresh(agg, sizeof(*agg)) && __CPROVER_is_fresh(e, sizeof(*e)) && gh_e == (void *)e->_M_exception_object && gh_e != 0)
SETV_ASSIGNS(this_, agg)
__CPROVER_assigns(__CPROVER_object_whole(e), gh_ep_addref, gh_ep_release)
SETV_ENSURES(this_, agg, gh_state_at_resolve == ST_EXCEPTION && gh_exc_at_resolve == gh_e && F_STATE(FUT0) == ST_EXCEPTION && F_EXCP(FUT0) == gh_e)   /* exactly the given exception */
;
#endif

/* ---- ~promise(): documented precondition: nobody else can reach the promise object being destroyed.  An armed promise resolves its
 * future to no-value (awaiting code sees await_canceled_exception instead of hanging); the released waiters are resumed/queued by the
 * discarded suspend point.  A claimed/moved-from promise leaves no trace. */
#ifdef CV_HAS_pr_dtor
void pr_dtor(PROM *this_)
__CPROVER_requires(F_PRE_COMMON && RC_PRE && gh_P_cell == P_CELL(this_) && gh_cell_excl == 1)
__CPROVER_requires(gh_F_fut != 0 && gh_F_slot == F_SLOT(FUT0) && *gh_F_slot != F_INS)
__CPROVER_requires(PROTF_WF && (gh_tok == TOK_CELL || gh_tok == TOK_OTHER || gh_tok == TOK_SPENT || gh_tok == TOK_ME))
__CPROVER_requires(gh_tok == TOK_CELL ==> F_STATE(FUT0) == ST_NOT_VALUE)
__CPROVER_assigns(__CPROVER_object_whole(this_), __CPROVER_object_whole(FUT0), PROTF_GHOSTS, gh_rc_calls, gh_rc_chain, gh_sn_calls)
__CPROVER_ensures(cv_exc_pending == 0)
__CPROVER_ensures(__CPROVER_old(gh_tok) == TOK_CELL ==> (gh_resolved_by_me == 1 && *gh_F_slot == F_DIS && gh_tok == TOK_SPENT && gh_state_at_resolve == ST_NOT_VALUE && F_STATE(FUT0) == ST_NOT_VALUE))
__CPROVER_ensures(__CPROVER_old(gh_tok) == TOK_CELL ==> (gh_rc_calls == 1 && gh_rc_chain == gh_chain_at_resolve && gh_sn_calls == (gh_rc_cf != 0 ? 1 : 0)))   /* waiters released exactly once */
__CPROVER_ensures(__CPROVER_old(gh_tok) != TOK_CELL ==> (gh_resolved_by_me == 0 && gh_rc_calls == 0 && gh_sn_calls == 0 && gh_n_slot_rmw == __CPROVER_old(gh_n_slot_rmw) && (gh_tok == __CPROVER_old(gh_tok) || (__CPROVER_old(gh_tok) == TOK_OTHER && gh_tok == TOK_SPENT))))
__CPROVER_ensures(gh_allocs == __CPROVER_old(gh_allocs))
;
#endif

/* ---- promise(promise &&other): the right to resolve moves to the new object, the source is disarmed (one cell armed at most) */
#ifdef CV_HAS_pr_move_ctor
void pr_move_ctor(PROM *this_, PROM *other)
__CPROVER_requires(F_PRE_COMMON && gh_P_cell == P_CELL(other) && gh_F_slot == 0 && gh_F_fut != 0 && __CPROVER_is_fresh(this_, sizeof(*this_)))
__CPROVER_requires(PROTF_WF && (gh_tok == TOK_CELL || gh_tok == TOK_OTHER || gh_tok == TOK_SPENT))
__CPROVER_assigns(__CPROVER_object_whole(this_), __CPROVER_object_whole(other), PROTF_GHOSTS)
__CPROVER_ensures(cv_exc_pending == 0 && *P_CELL(other) == 0)
__CPROVER_ensures(*P_CELL(this_) == 0 || *P_CELL(this_) == gh_F_fut)
__CPROVER_ensures((*P_CELL(this_) != 0) == (gh_tok == TOK_ME))                               /* armed <=> it took the token out of the source */
__CPROVER_ensures(__CPROVER_old(gh_tok) != TOK_CELL ==> (*P_CELL(this_) == 0 && gh_tok == __CPROVER_old(gh_tok)))
__CPROVER_ensures(gh_allocs == __CPROVER_old(gh_allocs))
;
#endif

#ifdef CV_HAS_pr_bool
cv_i1 pr_bool(PROM *this_)
__CPROVER_requires(F_PRE_COMMON && gh_P_cell == P_CELL(this_) && gh_F_slot == 0 && gh_F_fut != 0 && PROTF_WF)
__CPROVER_assigns(PROTF_GHOSTS, __CPROVER_object_whole(this_))
__CPROVER_ensures(cv_exc_pending == 0 && __CPROVER_return_value <= 1)
__CPROVER_ensures(__CPROVER_return_value == 1 ==> __CPROVER_old(gh_tok) == TOK_CELL)          /* armed was true at the instant of the load */
__CPROVER_ensures(gh_cell_excl ==> __CPROVER_return_value == (gh_tok == TOK_CELL ? 1 : 0))
;
#endif

/* ---- future<int>: construction, get_promise, observers, value(), destruction --------------------------------------------- */
#ifdef CV_HAS_fu_ctor
void fu_ctor(FUT *this_)
__CPROVER_requires(cv_exc_pending == 0 && __CPROVER_is_fresh(this_, sizeof(*this_)) && gh_F_slot == 0 && gh_P_cell == 0)
__CPROVER_assigns(__CPROVER_object_whole(this_))
__CPROVER_ensures(cv_exc_pending == 0 && *F_SLOT(this_) == (void *)AW_INSTANCE && F_STATE(this_) == ST_NOT_VALUE)
__CPROVER_ensures(gh_allocs == __CPROVER_old(gh_allocs))
;
#endif
#ifdef CV_HAS_fu_get_promise
void fu_get_promise(PROM *ret, FUT *this_)
__CPROVER_requires(F_PRE_COMMON && gh_F_fut == (void *)this_ && gh_F_slot == F_SLOT(this_) && gh_P_cell == 0 && gh_slot_excl == 1 && __CPROVER_is_fresh(ret, sizeof(*ret)))
__CPROVER_requires(*gh_F_slot == F_INS && gh_tok == TOK_NONE)                                  /* documented: only on a freshly constructed future */
__CPROVER_assigns(__CPROVER_object_whole(ret), __CPROVER_object_whole(this_), PROTF_GHOSTS)
__CPROVER_ensures(cv_exc_pending == 0 && *gh_F_slot == 0 && *P_CELL(ret) == gh_F_fut && gh_tok == TOK_ME)    /* pending, empty chain; exactly one armed promise */
__CPROVER_ensures(F_STATE(this_) == __CPROVER_old(F_STATE(this_)))
__CPROVER_ensures(gh_allocs == __CPROVER_old(gh_allocs))
;
#endif
/* observers.  FC = future_common */
#define OBS_PRE(this_) (F_PRE_COMMON && gh_F_fut != 0 && gh_F_slot == (void **)&(this_)->_awaiter._M_b._M_p && gh_P_cell == 0 && PROTF_WF && \
                        (*gh_F_slot == F_DIS ==> (gh_rel_slot & V_PAYLOAD)))
#define OBS_ASSIGNS __CPROVER_assigns(__CPROVER_object_whole(gh_F_fut), PROTF_GHOSTS)
#ifdef CV_HAS_fc_ready
cv_i1 fc_ready(FC *this_)
__CPROVER_requires(OBS_PRE(this_)) OBS_ASSIGNS
__CPROVER_ensures(cv_exc_pending == 0 && __CPROVER_return_value <= 1)
__CPROVER_ensures(__CPROVER_return_value == 1 ==> *gh_F_slot == F_DIS)                        /* ready is never reported early ... */
#ifdef CV_CHECK_C03
__CPROVER_ensures(__CPROVER_return_value == 1 ==> (gh_view & V_PAYLOAD))                      /* C03: ... and whoever sees it sees the complete result */
#endif
__CPROVER_ensures(gh_slot_excl ==> __CPROVER_return_value == (*gh_F_slot == F_DIS ? 1 : 0))
;
#endif
#ifdef CV_HAS_fc_pending
cv_i1 fc_pending(FC *this_)
__CPROVER_requires(OBS_PRE(this_)) OBS_ASSIGNS
__CPROVER_ensures(cv_exc_pending == 0 && __CPROVER_return_value <= 1)
__CPROVER_ensures(gh_slot_excl ==> __CPROVER_return_value == ((*gh_F_slot != F_DIS && *gh_F_slot != F_INS) ? 1 : 0))
;
#endif
#ifdef CV_HAS_fc_initialized
cv_i1 fc_initialized(FC *this_)
__CPROVER_requires(OBS_PRE(this_)) OBS_ASSIGNS
__CPROVER_ensures(cv_exc_pending == 0 && __CPROVER_return_value <= 1)
__CPROVER_ensures(gh_slot_excl ==> __CPROVER_return_value == (*gh_F_slot == F_INS ? 1 : 0))
;
#endif
/* value(): outcome map.  not_value & not pending => await_canceled_exception; pending => value_not_ready_exception;
 * exception => rethrows exactly the stored exception object; value => reference to the stored value. */
#ifdef CV_HAS_fu_value
cv_i32 *fu_value(FUT *this_)
__CPROVER_requires(F_PRE_COMMON && gh_F_fut == (void *)this_ && gh_F_slot == F_SLOT(this_) && gh_P_cell == 0 && PROTF_WF && gh_slot_excl == 1)
__CPROVER_requires(F_STATE(this_) <= 3 && F_STATE(this_) != ST_VALUE_REF && (F_STATE(this_) == ST_EXCEPTION ==> F_EXCP(this_) != 0))
__CPROVER_requires((F_STATE(this_) != ST_NOT_VALUE) ==> *gh_F_slot == F_DIS)
__CPROVER_assigns(cv_exc_pending, cv_exc_obj, cv_exc_tinfo, PROTF_GHOSTS, gh_ep_addref, gh_ep_release)
__CPROVER_ensures(F_STATE(this_) == ST_VALUE ==> (cv_exc_pending == 0 && __CPROVER_return_value == &F_VALUE(this_)))
__CPROVER_ensures(F_STATE(this_) == ST_EXCEPTION ==> (cv_exc_pending == 1 && cv_exc_obj == F_EXCP(this_)))
__CPROVER_ensures((F_STATE(this_) == ST_NOT_VALUE && *gh_F_slot == F_DIS) ==> (cv_exc_pending == 1 && cv_exc_tinfo == (void *)TI_AWAIT_CANCELED))
__CPROVER_ensures((F_STATE(this_) == ST_NOT_VALUE && *gh_F_slot == F_INS) ==> (cv_exc_pending == 1 && cv_exc_tinfo == (void *)TI_AWAIT_CANCELED))
__CPROVER_ensures((F_STATE(this_) == ST_NOT_VALUE && *gh_F_slot != F_DIS && *gh_F_slot != F_INS) ==> (cv_exc_pending == 1 && cv_exc_tinfo == (void *)TI_VALUE_NOT_READY))
__CPROVER_ensures(F_STATE(this_) == __CPROVER_old(F_STATE(this_)) && gh_allocs == __CPROVER_old(gh_allocs))
;
#endif
/* ~future(): destroys the payload iff the tag says one was constructed (an exception_ptr is released exactly once, an int needs nothing) */
#ifdef CV_HAS_fu_dtor
void fu_dtor(FUT *this_)
__CPROVER_requires(cv_exc_pending == 0 && __CPROVER_is_fresh(this_, sizeof(*this_)) && gh_F_slot == 0 && gh_P_cell == 0 && F_STATE(this_) <= 3 && (F_STATE(this_) == ST_EXCEPTION ==> F_EXCP(this_) != 0))
__CPROVER_assigns(gh_ep_release, __CPROVER_object_whole(this_))
__CPROVER_ensures(cv_exc_pending == 0 && gh_ep_release == __CPROVER_old(gh_ep_release) + (__CPROVER_old(F_STATE(this_)) == ST_EXCEPTION ? 1 : 0))
;
#endif
#ifdef CV_HAS_ab_resume
cv_i1 ab_resume(ABOOL *this_)
__CPROVER_requires(cv_exc_pending == 0 && __CPROVER_is_fresh(this_, sizeof(*this_)) && __CPROVER_is_fresh(this_->base_co_awaiter._owner, sizeof(FUT)))
__CPROVER_assigns()
__CPROVER_ensures(__CPROVER_return_value == (F_STATE(this_->base_co_awaiter._owner) != ST_NOT_VALUE ? 1 : 0))       /* has_value() == false for a dropped promise */
;
#endif

/* ---- promise<int>::operator=(promise&&): "an overwritten promise resolves its future to no-value at once (no hang); the moved-from promise
 * is empty".  Forwarder unit (sequential atomics): the OLD future is dropped through set_value(drop) on this promise exactly once and
 * BEFORE the owner cell is re-armed; the source is emptied through claim() exactly once; this promise then owns exactly what the source
 * owned.  (set_value(drop) and claim() are the units set_drop / claim.) */
#ifdef CV_HAS_pr_move_assign
int gh_ma_drop_calls, gh_ma_claim_calls, gh_ma_order, gh_ma_drop_at, gh_ma_claim_at; PROM *gh_ma_drop_this, *gh_ma_claim_this; void *gh_ma_claimed; void *gh_ma_cell_at_drop;
#ifdef CV_HAS_ma_set_drop_stub
void ma_set_drop_stub(SPB *agg, PROM *t, cv_i32 tag) { gh_ma_drop_calls++; gh_ma_drop_this = t; gh_ma_drop_at = ++gh_ma_order; gh_ma_cell_at_drop = *(void **)P_CELL(t); *(void **)P_CELL(t) = 0; agg->value = 1; agg->base_suspend_point._count_flag = 0; }
#endif
#ifdef CV_HAS_ma_claim_stub
FUT *ma_claim_stub(PROM *t) { gh_ma_claim_calls++; gh_ma_claim_this = t; gh_ma_claim_at = ++gh_ma_order; *(void **)P_CELL(t) = 0; return (FUT *)gh_ma_claimed; }
#endif
#ifdef CV_HAS_ma_sp_dtor_stub
void ma_sp_dtor_stub(void *p) { }
#endif
PROM *pr_move_assign(PROM *this_, PROM *other)
__CPROVER_requires(cv_exc_pending == 0 && gh_ma_drop_calls == 0 && gh_ma_claim_calls == 0 && gh_ma_order == 0 && __CPROVER_is_fresh(this_, sizeof(*this_)) && __CPROVER_is_fresh(other, sizeof(*other)))
__CPROVER_requires(*(void **)P_CELL(other) == gh_ma_claimed)
__CPROVER_assigns(__CPROVER_object_whole(this_), __CPROVER_object_whole(other), gh_ma_drop_calls, gh_ma_claim_calls, gh_ma_order, gh_ma_drop_at, gh_ma_claim_at, gh_ma_drop_this, gh_ma_claim_this, gh_ma_cell_at_drop)
__CPROVER_ensures(cv_exc_pending == 0 && __CPROVER_return_value == this_)
__CPROVER_ensures(gh_ma_drop_calls == 1 && gh_ma_drop_this == this_ && gh_ma_cell_at_drop == __CPROVER_old(*(void **)P_CELL(this_)))   /* the overwritten future is dropped, once, while this promise still owns it */
__CPROVER_ensures(gh_ma_claim_calls == 1 && gh_ma_claim_this == other && gh_ma_drop_at < gh_ma_claim_at)                              /* the source is emptied by the single-winner claim, afterwards */
__CPROVER_ensures(*(void **)P_CELL(this_) == gh_ma_claimed && *(void **)P_CELL(other) == 0)                                          /* this promise owns exactly what the source owned; the source is empty */
__CPROVER_ensures(gh_allocs == __CPROVER_old(gh_allocs))
;
void h_move_assign(void) { PROM *a, *b; pr_move_assign(a, b); __CPROVER_assert(0, "SENTINEL reachable"); }
#endif
