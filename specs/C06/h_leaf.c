/* harnesses for the loop-free members (one per unit; selected by goto-cc --function) */
#ifdef CV_HAS_sp_add
void h_add(void)            { SP *p; cv_i8 *h; sp_add(p, h); __CPROVER_assert(0, "SENTINEL reachable after add"); }
#endif
#ifdef CV_HAS_sp_ctor_handle
void h_ctor_handle(void)    { SP *p; cv_i8 *h; sp_ctor_handle(p, h); __CPROVER_assert(0, "SENTINEL reachable after ctor"); }
#endif
#ifdef CV_HAS_sp_move_ctor
void h_move_ctor(void)      { SP *p, *q; sp_move_ctor(p, q); __CPROVER_assert(0, "SENTINEL reachable after move ctor"); }
#endif
#ifdef CV_HAS_sp_pop
void h_pop(void)            { SP *p; sp_pop(p); __CPROVER_assert(0, "SENTINEL reachable after pop"); }
#endif
#ifdef CV_HAS_sp_clear_internal
void h_clear_internal(void) { SP *p; sp_clear_internal(p); __CPROVER_assert(0, "SENTINEL reachable after clear_internal"); }
#endif
#ifdef CV_HAS_sp_size
void h_size(void)           { SP *p; sp_size(p); __CPROVER_assert(0, "SENTINEL reachable"); }
#endif
#ifdef CV_HAS_sp_empty
void h_empty(void)          { SP *p; sp_empty(p); __CPROVER_assert(0, "SENTINEL reachable"); }
#endif
#ifdef CV_HAS_sp_begin
void h_begin(void)          { SP *p; sp_begin(p); __CPROVER_assert(0, "SENTINEL reachable"); }
#endif
#ifdef CV_HAS_sp_end
void h_end(void)            { SP *p; sp_end(p); __CPROVER_assert(0, "SENTINEL reachable"); }
#endif
