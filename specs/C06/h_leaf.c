/* harnesses for the loop-free members (one per unit; selected by goto-cc --function) */
#ifdef CV_HAS_sp_add
void h_add(void)            { SP *p; cv_i8 *h; sp_add(p, h); __CPROVER_assert(0, "SENTINEL reachable after add"); }
#endif
#ifdef CV_HAS_sp_ctor_handle
void h_ctor_handle(void)    { SP *p; cv_i8 *h; sp_ctor_handle(p, h); __CPROVER_assert(0, "SENTINEL reachable after ctor"); }
#endif
#ifdef CV_HAS_sp_move_ctor
void h_move_ctor(void)      { SP *p, *q; sp_move_ctor(p, q); __CPROVER_assert(0, "SENTINEL reachable after move ctor"); }
#endif
#ifdef CV_HAS_sp_pop
void h_pop(void)            { SP *p; sp_pop(p); __CPROVER_assert(0, "SENTINEL reachable after pop"); }
#endif
#ifdef CV_HAS_sp_clear_internal
void h_clear_internal(void) { SP *p; sp_clear_internal(p); __CPROVER_assert(0, "SENTINEL reachable after clear_internal"); }
#endif
#ifdef CV_HAS_sp_size
void h_size(void)           { SP *p; sp_size(p); __CPROVER_assert(0, "SENTINEL reachable"); }
#endif
#ifdef CV_HAS_sp_empty
void h_empty(void)          { SP *p; sp_empty(p); __CPROVER_assert(0, "SENTINEL reachable"); }
#endif
#ifdef CV_HAS_sp_begin
void h_begin(void)          { SP *p; sp_begin(p); __CPROVER_assert(0, "SENTINEL reachable"); }
#endif
#ifdef CV_HAS_sp_end
void h_end(void)            { SP *p; sp_end(p); __CPROVER_assert(0, "SENTINEL reachable"); }
#endif

#ifdef CV_HAS_sp_merge
void h_merge(void)          { SP *p, *q; sp_merge(p, q); __CPROVER_assert(0, "SENTINEL reachable after operator<<"); }
#endif
#ifdef CV_HAS_sp_merge_handle
void h_merge_handle(void)   { SP *p; CH *h; sp_merge_handle(p, h); __CPROVER_assert(0, "SENTINEL reachable after operator<<(handle)"); }
#endif
#ifdef CV_HAS_sp_move_assign
void h_move_assign(void)    { SP *p, *q; sp_move_assign(p, q); __CPROVER_assert(0, "SENTINEL reachable after operator="); }
#endif
#ifdef CV_HAS_sp_ctor_default
void h_ctor_default(void)   { SP *p; sp_ctor_default(p); __CPROVER_assert(0, "SENTINEL reachable"); }
#endif
#ifdef CV_HAS_sp_await_ready
void h_await_ready(void)    { SP *p; sp_await_ready(p); __CPROVER_assert(0, "SENTINEL reachable"); }
#endif
#ifdef CV_HAS_spb_ctor_val
void h_spb_ctor_val(void)   { SPB *p; cv_i1 v; spb_ctor_val(p, v); __CPROVER_assert(0, "SENTINEL reachable"); }
#endif
#ifdef CV_HAS_spb_ctor_h
void h_spb_ctor_h(void)     { SPB *p; cv_i8 *h; cv_i1 v; spb_ctor_h(p, h, v); __CPROVER_assert(0, "SENTINEL reachable"); }
#endif
#ifdef CV_HAS_spb_ctor_from
void h_spb_ctor_from(void)  { SPB *p; SP *q; cv_i1 v; spb_ctor_from(p, q, v); __CPROVER_assert(0, "SENTINEL reachable"); }
#endif
#ifdef CV_HAS_spb_get
void h_spb_get(void)        { SPB *p; spb_get(p); __CPROVER_assert(0, "SENTINEL reachable"); }
#endif
#ifdef CV_HAS_spb_await_resume
void h_spb_await_resume(void) { SPB *p; spb_await_resume(p); __CPROVER_assert(0, "SENTINEL reachable"); }
#endif
#ifdef CV_HAS_spi_ctor_from
void h_spi_ctor_from(void)  { SPI *p; SP *q; cv_i32 v; spi_ctor_from(p, q, v); __CPROVER_assert(0, "SENTINEL reachable"); }
#endif
#ifdef CV_HAS_spm_get
void h_spm_get(void)        { SPM *p; MVT *r; spm_get(r, p); __CPROVER_assert(0, "SENTINEL reachable"); }
#endif
#ifdef CV_HAS_spm_cget
void h_spm_cget(void)       { SPM *p; MVT *r; spm_cget(r, p); __CPROVER_assert(0, "SENTINEL reachable"); }
#endif
#ifdef CV_HAS_spm_await_resume
void h_spm_await_resume(void) { SPM *p; spm_await_resume(p); __CPROVER_assert(0, "SENTINEL reachable"); }
#endif
#ifdef CV_HAS_spi_get
void h_spi_get(void)        { SPI *p; spi_get(p); __CPROVER_assert(0, "SENTINEL reachable"); }
#endif
