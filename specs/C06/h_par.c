/* C06 - harnesses of the parallel-resumption units (contracts in par_spec.h) */
#ifdef CV_HAS_par_perform_resume
void h_par_perform_resume(void) { SP *out; AWT *a; cv_i8 *ctx; par_perform_resume(out, a, ctx); __CPROVER_assert(0, "SENTINEL reachable"); }
#endif
#ifdef CV_HAS_par_await_suspend
void h_par_await_suspend(void) { PAR *p; cv_i8 *h; par_await_suspend(p, h); __CPROVER_assert(0, "SENTINEL reachable"); }
#endif
#ifdef CV_HAS_par_await_ready
void h_par_await_ready(void) { PAR *p; par_await_ready(p); __CPROVER_assert(0, "SENTINEL reachable"); }
#endif
#ifdef CV_HAS_par_await_resume
void h_par_await_resume(void) { PAR *p; par_await_resume(p); __CPROVER_assert(0, "SENTINEL reachable"); }
#endif
#ifdef CV_HAS_par_ctor
void h_par_ctor(void) { PAR *p; FUT *f; par_ctor(p, f); __CPROVER_assert(0, "SENTINEL reachable"); }
#endif
#ifdef CV_HAS_parallel_resume_v
void h_parallel_resume(void) { SP *p; parallel_resume_v(p); __CPROVER_assert(0, "SENTINEL reachable"); }
#endif
#ifdef CV_HAS_parallel_resume_b
void h_parallel_resume_typed(void) { SPB *p; parallel_resume_b(p); __CPROVER_assert(0, "SENTINEL reachable"); }
#endif
