/* bounded stand-in for the merging loop of operator<< / operator= (DESIGN C06, step 3): concrete shapes (counts, representation,
 * capacities) with symbolic handle values and a symbolic ghost position; every shape executes the real translated body.
 * Labelled bounded(40) in the evidence and never counted as discharged. */
#define NB 40
static cv_i8 *hv_a[NB + 1], *hv_b[NB + 1];
static void bnd_build(SP *p, unsigned n, int heap, unsigned cap, cv_i8 **vals)
{
  if (heap) {
    cv_i8 **blk = (cv_i8 **)_Znam(cap * sizeof(void *));
    for (unsigned k = 0; k < n; k++) blk[k] = vals[k];
    EXTP(p)->_handles = blk; EXTP(p)->_capacity = cap; p->_count_flag = (n << 1) | 1;
  } else {
    for (unsigned k = 0; k < n; k++) INL(p)[k] = vals[k];
    p->_count_flag = n << 1;
  }
}
static void bnd_merge_one(unsigned n1, int heap1, unsigned cap1, unsigned n2, int heap2, unsigned cap2, int assign)
{
  SP a, b; unsigned a0 = gh_allocs, f0 = gh_frees;
  bnd_build(&a, n1, heap1, cap1, hv_a); bnd_build(&b, n2, heap2, cap2, hv_b);
  SP *r = assign ? sp_move_assign(&a, &b) : sp_merge(&a, &b);
  __CPROVER_assert(cv_exc_pending == 0 && r == &a, "merge: returns *this, no exception");
  __CPROVER_assert(CNT(&a) == n1 + n2, "merge: count is the sum (none dropped, none duplicated)");
  __CPROVER_assert(b._count_flag == 0, "merge: source emptied");
  size_t g = nondet_size_t();
  if (g < n1 + n2) __CPROVER_assert(H(&a, g) == (g < n1 ? hv_a[g] : hv_b[g - n1]), "merge: position-wise content this.other");
  __CPROVER_assert(HEAP(&a) ? EXTP(&a)->_capacity >= CNT(&a) : CNT(&a) <= 3, "merge: representation invariant");
  __CPROVER_assert((gh_allocs - a0) - (gh_frees - f0) == (HEAP(&a) ? 1u : 0u), "merge: exactly this' block stays live (source block released, nothing leaked)");
#ifdef CV_CHECK_C20
  /* C20: "carrying up to three ready coroutines in a suspend point" never allocates - also when they arrive by merging (the chain walk
   * awaiter::resume_chain_lk builds its result with ret << y->resume()) */
  if (!heap1 && n1 + n2 <= 3) __CPROVER_assert(!HEAP(&a) && gh_allocs == a0 + (heap2 ? 1u : 0u), "C20: a merge into an inline point that ends with at most three handles allocates nothing and stays inline");
#endif
  if (HEAP(&a)) _ZdaPv((cv_i8 *)EXTP(&a)->_handles);
}
/* merging a suspend point into ITSELF (sp << std::move(sp), sp = std::move(sp)): "none is dropped, none is resumed twice" - the point keeps
 * exactly its handles, in place, and its block */
static void bnd_self_one(unsigned n, int heap, unsigned cap, int assign)
{
  SP a; unsigned a0 = gh_allocs, f0 = gh_frees;
  bnd_build(&a, n, heap, cap, hv_a);
  SP *r = assign ? sp_move_assign(&a, &a) : sp_merge(&a, &a);
  __CPROVER_assert(cv_exc_pending == 0 && r == &a, "self-merge: returns *this, no exception");
  __CPROVER_assert(CNT(&a) == n, "self-merge: the point keeps exactly its handles (none dropped, none duplicated)");
  size_t g = nondet_size_t();
  if (g < n) __CPROVER_assert(H(&a, g) == hv_a[g], "self-merge: position-wise content unchanged");
  __CPROVER_assert(HEAP(&a) ? EXTP(&a)->_capacity >= CNT(&a) : CNT(&a) <= 3, "self-merge: representation invariant");
  __CPROVER_assert((gh_allocs - a0) - (gh_frees - f0) == (HEAP(&a) ? 1u : 0u), "self-merge: exactly this' block stays live");
  if (HEAP(&a)) _ZdaPv((cv_i8 *)EXTP(&a)->_handles);
}
#if defined(CV_HAS_sp_merge) && defined(BND_SELF)
void h_merge_self_bounded(void)
{
  cv_exc_pending = 0; gh_allocs = 0; gh_frees = 0;
  static const unsigned char sh[][3] = { {0,0,0}, {1,0,0}, {2,0,0}, {3,0,0}, {0,1,1}, {1,1,2}, {3,1,4}, {4,1,4}, {5,1,8} };
  for (unsigned k = 0; k < sizeof(sh) / sizeof(sh[0]); k++)
    bnd_self_one(sh[k][0], sh[k][1], sh[k][2], BND_ASSIGN);
  __CPROVER_assert(0, "SENTINEL reachable after all shapes");
}
#endif
#if defined(CV_HAS_sp_merge) && !defined(BND_SELF)
void h_merge_bounded(void)
{
  cv_exc_pending = 0; gh_allocs = 0; gh_frees = 0;
  static const unsigned char sh[][6] = { BND_SHAPES };
  for (unsigned k = 0; k < sizeof(sh) / sizeof(sh[0]); k++)
    bnd_merge_one(sh[k][0], sh[k][1], sh[k][2], sh[k][3], sh[k][4], sh[k][5], BND_ASSIGN);
  __CPROVER_assert(0, "SENTINEL reachable after all shapes");
}
#endif
