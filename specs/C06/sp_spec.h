/* C06 - contracts on cocls::suspend_point<void> (src/cocls/suspend_point.h).
 * Types SP / EXT and the function aliases sp_* are generated per unit by ir2c from the C++ names (units.py).
 * Field names (_count_flag, _handles, _capacity) are the real member names, resolved through the debug info.
 *
 * Abstract view of a suspend point: the sequence H(p,0) .. H(p,CNT(p)-1).
 * Postconditions are position-wise over an arbitrary-but-fixed ghost index (gh_G, gh_G2): "for all i" without a quantifier. */
#define CNT(p)   ((p)->_count_flag >> 1)
#define HEAP(p)  ((p)->_count_flag & 1)
#define EXTP(p)  ((EXT *)&(p)->f0)
#define INL(p)   ((p)->f0.f0._handles)
#define H(p, i)  (HEAP(p) ? EXTP(p)->_handles[i] : INL(p)[i])
#define MAXC     (1u << 28)          /* arithmetic bound stated as a precondition: count < 2^28 (the word holds count<<1) */

/* representation invariant, in the form usable in a *requires* of an enforced contract (block comes from is_fresh) */
#define WF_FRESH(p) (CNT(p) < MAXC && (HEAP(p) \
      ? (EXTP(p)->_capacity >= CNT(p) && EXTP(p)->_capacity >= 1 && EXTP(p)->_capacity < MAXC && \
         __CPROVER_is_fresh(EXTP(p)->_handles, EXTP(p)->_capacity * sizeof(void *))) \
      : CNT(p) <= 3))
/* the same invariant as a postcondition (no is_fresh: the block may be the old one) */
#define WF_POST(p) (HEAP(p) ? (EXTP(p)->_capacity >= CNT(p) && EXTP(p)->_capacity >= 1 && \
         __CPROVER_rw_ok(EXTP(p)->_handles, EXTP(p)->_capacity * sizeof(void *))) : CNT(p) <= 3)

/* ghost: logical variables (fixed by requires under enforcement, never assigned by the functions) */
size_t gh_G, gh_G2;          /* arbitrary indices */
cv_i32 gh_cf, gh_cf2;        /* entry value of _count_flag of this / other */
cv_i8 *gh_oldH, *gh_oldH2;   /* entry value of the gh_G-th handle of this / gh_G2-th handle of other */
cv_i8 **gh_oldblk, **gh_oldblk2;

#ifdef CV_HAS_std_copy
/* ---- assumed contract on a dependency: std::copy<void**,void**>(first,last,out) (element-wise, ghost index) */
cv_i8 **std_copy(cv_i8 **first, cv_i8 **last, cv_i8 **out)
__CPROVER_requires(__CPROVER_same_object(first, last))
__CPROVER_requires(__CPROVER_POINTER_OFFSET(first) <= __CPROVER_POINTER_OFFSET(last))
__CPROVER_requires(__CPROVER_r_ok(first, (last - first) * sizeof(void *)))
__CPROVER_requires(__CPROVER_w_ok(out, (last - first) * sizeof(void *)))
__CPROVER_requires(!__CPROVER_same_object(first, out))
__CPROVER_assigns(__CPROVER_object_upto(out, (last - first) * sizeof(void *)))
__CPROVER_ensures(__CPROVER_return_value == out + (last - first))
__CPROVER_ensures(gh_G < (size_t)(last - first) ==> out[gh_G] == first[gh_G])
;

#endif
#ifdef CV_HAS_sp_add
/* ---- add(h): append one handle; every old position keeps its handle; grows inline->heap and by doubling */
void sp_add(SP *this_, cv_i8 *h)
__CPROVER_requires(cv_exc_pending == 0)
__CPROVER_requires(__CPROVER_is_fresh(this_, sizeof(*this_)))
__CPROVER_requires(WF_FRESH(this_) && CNT(this_) < MAXC - 1)
__CPROVER_requires(gh_cf == this_->_count_flag)
__CPROVER_requires(gh_G < CNT(this_) ==> gh_oldH == H(this_, gh_G))
__CPROVER_assigns(__CPROVER_object_whole(this_), gh_allocs, gh_frees)
__CPROVER_assigns(HEAP(this_): __CPROVER_object_whole(EXTP(this_)->_handles))
__CPROVER_frees(HEAP(this_): EXTP(this_)->_handles)
__CPROVER_ensures(cv_exc_pending == 0)
__CPROVER_ensures(CNT(this_) == (gh_cf >> 1) + 1)                                   /* exactly one more            */
__CPROVER_ensures(H(this_, (gh_cf >> 1)) == h)                                      /* the new one is last         */
__CPROVER_ensures(gh_G < (gh_cf >> 1) ==> H(this_, gh_G) == gh_oldH)                /* nothing lost or reordered   */
__CPROVER_ensures(WF_POST(this_))
__CPROVER_ensures(((gh_cf >> 1) < 3 && !(gh_cf & 1)) ==> (gh_allocs == __CPROVER_old(gh_allocs) && !HEAP(this_)))   /* C20: inline => no allocation */
__CPROVER_ensures((gh_cf & 1) ==> HEAP(this_))                                      /* never falls back to inline  */
__CPROVER_ensures(gh_allocs - __CPROVER_old(gh_allocs) == gh_frees - __CPROVER_old(gh_frees) + ((HEAP(this_) && !(gh_cf & 1)) ? 1 : 0))  /* old block released exactly when replaced */
;

#endif
#ifdef CV_HAS_sp_ctor_handle
/* ---- suspend_point(coroutine_handle h) */
void sp_ctor_handle(SP *this_, cv_i8 *h)
__CPROVER_requires(cv_exc_pending == 0 && __CPROVER_is_fresh(this_, sizeof(*this_)))
__CPROVER_assigns(__CPROVER_object_whole(this_))
__CPROVER_ensures(CNT(this_) == 1 && !HEAP(this_) && INL(this_)[0] == h && cv_exc_pending == 0)
;

#endif
#ifdef CV_HAS_sp_move_ctor
/* ---- suspend_point(suspend_point &&other): same sequence, source emptied, block ownership moves (no copy, no free) */
void sp_move_ctor(SP *this_, SP *other)
__CPROVER_requires(cv_exc_pending == 0 && __CPROVER_is_fresh(this_, sizeof(*this_)) && __CPROVER_is_fresh(other, sizeof(*other)))
__CPROVER_requires(WF_FRESH(other))
__CPROVER_requires(gh_cf2 == other->_count_flag && gh_oldblk2 == EXTP(other)->_handles)
__CPROVER_requires(gh_G < CNT(other) ==> gh_oldH2 == H(other, gh_G))
__CPROVER_assigns(__CPROVER_object_whole(this_), other->_count_flag)
__CPROVER_ensures(cv_exc_pending == 0)
__CPROVER_ensures(this_->_count_flag == gh_cf2 && other->_count_flag == 0)
__CPROVER_ensures(gh_G < (gh_cf2 >> 1) ==> H(this_, gh_G) == gh_oldH2)
__CPROVER_ensures((gh_cf2 & 1) ==> (EXTP(this_)->_handles == gh_oldblk2 && EXTP(this_)->_capacity == __CPROVER_old(EXTP(other)->_capacity)))
__CPROVER_ensures(gh_allocs == __CPROVER_old(gh_allocs) && gh_frees == __CPROVER_old(gh_frees))
;

#endif
#ifdef CV_HAS_sp_pop
/* ---- pop(): removes and returns the last handle; empty => noop coroutine, nothing changes */
cv_i8 *sp_pop(SP *this_)
__CPROVER_requires(cv_exc_pending == 0 && __CPROVER_is_fresh(this_, sizeof(*this_)) && WF_FRESH(this_))
__CPROVER_requires(gh_cf == this_->_count_flag)
__CPROVER_requires(gh_G < CNT(this_) ==> gh_oldH == H(this_, gh_G))
__CPROVER_assigns(this_->_count_flag)
__CPROVER_ensures(cv_exc_pending == 0)
__CPROVER_ensures((gh_cf >> 1) > 0 ==> (this_->_count_flag == gh_cf - 2 && (gh_G == (gh_cf >> 1) - 1 ==> __CPROVER_return_value == gh_oldH)))
__CPROVER_ensures((gh_cf >> 1) == 0 ==> (this_->_count_flag == gh_cf && __CPROVER_return_value == (cv_i8 *)NOOP_FRAME))
__CPROVER_ensures(gh_G < CNT(this_) ==> H(this_, gh_G) == gh_oldH)                 /* the others stay */
;

#endif
#ifdef CV_HAS_sp_clear_internal
/* ---- clear_internal(): heap block released exactly once iff heap; count 0 */
void sp_clear_internal(SP *this_)
__CPROVER_requires(cv_exc_pending == 0 && __CPROVER_is_fresh(this_, sizeof(*this_)) && WF_FRESH(this_))
__CPROVER_requires(gh_cf == this_->_count_flag)
__CPROVER_assigns(this_->_count_flag, gh_frees)
__CPROVER_frees(HEAP(this_): EXTP(this_)->_handles)
__CPROVER_ensures(cv_exc_pending == 0 && this_->_count_flag == 0)
__CPROVER_ensures(gh_frees == __CPROVER_old(gh_frees) + (gh_cf & 1))
__CPROVER_ensures((gh_cf & 1) ==> __CPROVER_was_freed(__CPROVER_old(EXTP(this_)->_handles)))
;

#endif
/* ---- size / empty / begin / end (pure observers) */
#ifdef CV_HAS_sp_size
cv_i64 sp_size(SP *this_)
__CPROVER_requires(cv_exc_pending == 0 && __CPROVER_is_fresh(this_, sizeof(*this_)))
__CPROVER_assigns()
__CPROVER_ensures(__CPROVER_return_value == CNT(this_))
;
#endif
#ifdef CV_HAS_sp_empty
cv_i1 sp_empty(SP *this_)
__CPROVER_requires(cv_exc_pending == 0 && __CPROVER_is_fresh(this_, sizeof(*this_)))
__CPROVER_assigns()
__CPROVER_ensures(__CPROVER_return_value == (CNT(this_) == 0 ? 1 : 0))
;
#endif
#ifdef CV_HAS_sp_begin
cv_i8 **sp_begin(SP *this_)
__CPROVER_requires(cv_exc_pending == 0 && __CPROVER_is_fresh(this_, sizeof(*this_)))
__CPROVER_assigns()
__CPROVER_ensures(__CPROVER_return_value == (HEAP(this_) ? EXTP(this_)->_handles : &INL(this_)[0]))
;
#endif
#ifdef CV_HAS_sp_end
cv_i8 **sp_end(SP *this_)
__CPROVER_requires(cv_exc_pending == 0 && __CPROVER_is_fresh(this_, sizeof(*this_)) && WF_FRESH(this_))
__CPROVER_assigns()
__CPROVER_ensures(__CPROVER_return_value == (HEAP(this_) ? EXTP(this_)->_handles : &INL(this_)[0]) + CNT(this_))
;
#endif

/* ---- operator<<(suspend_point &&other): this' = this . other (position-wise), other emptied, other's block released once.
 * MERGE_SRC_PRE restricts the representation of `other` per unit: the loop over an *inline* source runs at most 3 times by the
 * representation invariant, so unwinding it 4 times with unwinding assertions is a complete proof of that case. */
#ifdef CV_HAS_sp_merge
#ifndef MERGE_SRC_PRE
#define MERGE_SRC_PRE(other) 1
#endif
#ifndef MERGE_DST_PRE
#define MERGE_DST_PRE(this_, other) 1
#endif
SP *sp_merge(SP *this_, SP *other)
__CPROVER_requires(cv_exc_pending == 0 && __CPROVER_is_fresh(this_, sizeof(*this_)) && __CPROVER_is_fresh(other, sizeof(*other)))
__CPROVER_requires(WF_FRESH(this_) && WF_FRESH(other) && MERGE_SRC_PRE(other) && MERGE_DST_PRE(this_, other) && CNT(this_) + CNT(other) < MAXC - 1)
__CPROVER_requires(gh_cf == this_->_count_flag && gh_cf2 == other->_count_flag)
__CPROVER_requires(gh_G < CNT(this_) ==> gh_oldH == H(this_, gh_G))
__CPROVER_requires(gh_G2 < CNT(other) ==> gh_oldH2 == H(other, gh_G2))
__CPROVER_assigns(__CPROVER_object_whole(this_), other->_count_flag, gh_allocs, gh_frees)
__CPROVER_assigns(HEAP(this_): __CPROVER_object_whole(EXTP(this_)->_handles))
__CPROVER_frees(HEAP(this_): EXTP(this_)->_handles)
__CPROVER_frees(HEAP(other): EXTP(other)->_handles)
__CPROVER_ensures(cv_exc_pending == 0 && __CPROVER_return_value == this_)
__CPROVER_ensures(CNT(this_) == (gh_cf >> 1) + (gh_cf2 >> 1))                                 /* none dropped, none added    */
__CPROVER_ensures(other->_count_flag == 0)                                                    /* source resumes nothing      */
__CPROVER_ensures(gh_G < (gh_cf >> 1) ==> H(this_, gh_G) == gh_oldH)                          /* own handles keep positions  */
__CPROVER_ensures(gh_G2 < (gh_cf2 >> 1) ==> H(this_, (gh_cf >> 1) + gh_G2) == gh_oldH2)       /* source handles appended in order */
__CPROVER_ensures(WF_POST(this_))
__CPROVER_ensures((gh_cf2 & 1) ==> __CPROVER_was_freed(__CPROVER_old(EXTP(other)->_handles))) /* source block released       */
__CPROVER_ensures(gh_allocs - __CPROVER_old(gh_allocs) + (gh_cf & 1) + (gh_cf2 & 1) == gh_frees - __CPROVER_old(gh_frees) + (HEAP(this_) ? 1 : 0))   /* live blocks: exactly this' one */
;
#endif

/* ---- operator<<(coroutine_handle &&h) = add(h.address()) */
#ifdef CV_HAS_sp_merge_handle
SP *sp_merge_handle(SP *this_, CH *h)
__CPROVER_requires(cv_exc_pending == 0 && __CPROVER_is_fresh(this_, sizeof(*this_)) && __CPROVER_is_fresh(h, sizeof(*h)))
__CPROVER_requires(WF_FRESH(this_) && CNT(this_) < MAXC - 1)
__CPROVER_requires(gh_cf == this_->_count_flag)
__CPROVER_requires(gh_G < CNT(this_) ==> gh_oldH == H(this_, gh_G))
__CPROVER_assigns(__CPROVER_object_whole(this_), gh_allocs, gh_frees)
__CPROVER_assigns(HEAP(this_): __CPROVER_object_whole(EXTP(this_)->_handles))
__CPROVER_frees(HEAP(this_): EXTP(this_)->_handles)
__CPROVER_ensures(cv_exc_pending == 0 && __CPROVER_return_value == this_)
__CPROVER_ensures(CNT(this_) == (gh_cf >> 1) + 1 && H(this_, (gh_cf >> 1)) == h->_M_fr_ptr)
__CPROVER_ensures(gh_G < (gh_cf >> 1) ==> H(this_, gh_G) == gh_oldH)
__CPROVER_ensures(WF_POST(this_))
;
#endif

/* ---- operator=(suspend_point &&other): documented as "merges like <<". Verified modularly as a pure forwarder: in this unit
 * operator<< is an abstract callee that records its invocation (its own behaviour is the subject of the merge units). */
#ifdef CV_HAS_sp_move_assign
int gh_fw_calls; SP *gh_fw_this, *gh_fw_other;
SP *sp_merge(SP *t, SP *o) { gh_fw_calls++; gh_fw_this = t; gh_fw_other = o; return t; }
SP *sp_move_assign(SP *this_, SP *other)
__CPROVER_requires(cv_exc_pending == 0 && gh_fw_calls == 0)
__CPROVER_assigns(gh_fw_calls, gh_fw_this, gh_fw_other)
__CPROVER_ensures(cv_exc_pending == 0 && __CPROVER_return_value == this_)
__CPROVER_ensures(gh_fw_calls == 1 && gh_fw_this == this_ && gh_fw_other == other)   /* exactly one merge of other into this */
;
#endif

/* ---- default constructor / await_ready */
#ifdef CV_HAS_sp_ctor_default
void sp_ctor_default(SP *this_)
__CPROVER_requires(cv_exc_pending == 0 && __CPROVER_is_fresh(this_, sizeof(*this_)))
__CPROVER_assigns(__CPROVER_object_whole(this_))
__CPROVER_ensures(this_->_count_flag == 0 && cv_exc_pending == 0)
;
#endif
#ifdef CV_HAS_sp_await_ready
cv_i1 sp_await_ready(SP *this_)
__CPROVER_requires(cv_exc_pending == 0 && __CPROVER_is_fresh(this_, sizeof(*this_)))
__CPROVER_assigns()
__CPROVER_ensures(__CPROVER_return_value == (CNT(this_) == 0 ? 1 : 0))
;
#endif

/* ---- typed suspend points: the attached value is the one the producer supplied */
#ifdef CV_HAS_spb_ctor_val
void spb_ctor_val(SPB *this_, cv_i1 v)
__CPROVER_requires(cv_exc_pending == 0 && __CPROVER_is_fresh(this_, sizeof(*this_)) && v <= 1)
__CPROVER_assigns(__CPROVER_object_whole(this_))
__CPROVER_ensures(this_->base_suspend_point._count_flag == 0 && this_->value == v && cv_exc_pending == 0)
;
#endif
#ifdef CV_HAS_spb_ctor_h
void spb_ctor_h(SPB *this_, cv_i8 *h, cv_i1 v)
__CPROVER_requires(cv_exc_pending == 0 && __CPROVER_is_fresh(this_, sizeof(*this_)) && v <= 1)
__CPROVER_assigns(__CPROVER_object_whole(this_))
__CPROVER_ensures(this_->base_suspend_point._count_flag == 2 && this_->base_suspend_point.f0.f0._handles[0] == h && this_->value == v && cv_exc_pending == 0)
;
#endif
#ifdef CV_HAS_spb_ctor_from
void spb_ctor_from(SPB *this_, SP *src, cv_i1 v)
__CPROVER_requires(cv_exc_pending == 0 && __CPROVER_is_fresh(this_, sizeof(*this_)) && __CPROVER_is_fresh(src, sizeof(*src)) && v <= 1)
__CPROVER_requires(WF_FRESH(src))
__CPROVER_requires(gh_cf2 == src->_count_flag)
__CPROVER_requires(gh_G < CNT(src) ==> gh_oldH2 == H(src, gh_G))
__CPROVER_assigns(__CPROVER_object_whole(this_), src->_count_flag)
__CPROVER_ensures(cv_exc_pending == 0 && this_->value == v)
__CPROVER_ensures(this_->base_suspend_point._count_flag == gh_cf2 && src->_count_flag == 0)
__CPROVER_ensures(gh_G < (gh_cf2 >> 1) ==> H((SP *)this_, gh_G) == gh_oldH2)
;
#endif
#ifdef CV_HAS_spb_get
cv_i1 spb_get(SPB *this_)
__CPROVER_requires(cv_exc_pending == 0 && __CPROVER_is_fresh(this_, sizeof(*this_)) && this_->value <= 1)
__CPROVER_assigns()
__CPROVER_ensures(__CPROVER_return_value == this_->value)
;
#endif
#ifdef CV_HAS_spb_await_resume
cv_i8 *spb_await_resume(SPB *this_)
__CPROVER_requires(cv_exc_pending == 0 && __CPROVER_is_fresh(this_, sizeof(*this_)))
__CPROVER_assigns()
__CPROVER_ensures(__CPROVER_return_value == &this_->value)
;
#endif
#ifdef CV_HAS_spi_ctor_from
void spi_ctor_from(SPI *this_, SP *src, cv_i32 v)
__CPROVER_requires(cv_exc_pending == 0 && __CPROVER_is_fresh(this_, sizeof(*this_)) && __CPROVER_is_fresh(src, sizeof(*src)))
__CPROVER_requires(WF_FRESH(src))
__CPROVER_requires(gh_cf2 == src->_count_flag)
__CPROVER_requires(gh_G < CNT(src) ==> gh_oldH2 == H(src, gh_G))
__CPROVER_assigns(__CPROVER_object_whole(this_), src->_count_flag)
__CPROVER_ensures(cv_exc_pending == 0 && this_->value == v)
__CPROVER_ensures(this_->base_suspend_point._count_flag == gh_cf2 && src->_count_flag == 0)
__CPROVER_ensures(gh_G < (gh_cf2 >> 1) ==> H((SP *)this_, gh_G) == gh_oldH2)
;
#endif
/* typed suspend point with a move-sensitive value (c06_mv: a move empties and flags its source): reading the attached value never consumes it - the value
 * handed out equals the producer's, and the stored one is still that value, un-moved, afterwards (a second read, await_resume() or a moved point sees it) */
#ifdef CV_HAS_spm_get
void spm_get(MVT *ret, SPM *this_)
__CPROVER_requires(cv_exc_pending == 0 && __CPROVER_is_fresh(this_, sizeof(*this_)) && __CPROVER_is_fresh(ret, sizeof(*ret)) && this_->value.moved_from == 0)
__CPROVER_assigns(__CPROVER_object_whole(ret))
__CPROVER_ensures(ret->payload == this_->value.payload && ret->moved_from == 0)
__CPROVER_ensures(this_->value.payload == __CPROVER_old(this_->value.payload) && this_->value.moved_from == 0)
;
#endif
#ifdef CV_HAS_spm_cget
void spm_cget(MVT *ret, SPM *this_)
__CPROVER_requires(cv_exc_pending == 0 && __CPROVER_is_fresh(this_, sizeof(*this_)) && __CPROVER_is_fresh(ret, sizeof(*ret)) && this_->value.moved_from == 0)
__CPROVER_assigns(__CPROVER_object_whole(ret))
__CPROVER_ensures(ret->payload == this_->value.payload && ret->moved_from == 0)
__CPROVER_ensures(this_->value.payload == __CPROVER_old(this_->value.payload) && this_->value.moved_from == 0)
;
#endif
#ifdef CV_HAS_spm_await_resume
MVT *spm_await_resume(SPM *this_)
__CPROVER_requires(cv_exc_pending == 0 && __CPROVER_is_fresh(this_, sizeof(*this_)))
__CPROVER_assigns()
__CPROVER_ensures(__CPROVER_return_value == &this_->value)
;
#endif
#ifdef CV_HAS_spi_get
cv_i32 spi_get(SPI *this_)
__CPROVER_requires(cv_exc_pending == 0 && __CPROVER_is_fresh(this_, sizeof(*this_)))
__CPROVER_assigns()
__CPROVER_ensures(__CPROVER_return_value == this_->value)
;
#endif
