# C06 - A suspend point never loses or duplicates a ready coroutine
SP = 'cocls::suspend_point<void>'
TYPES = {'SP': SP, 'EXT': SP + '::ExtData', 'CH': 'std::__n4861::coroutine_handle<void>', 'SPB': 'cocls::suspend_point<bool>', 'SPI': 'cocls::suspend_point<int>'}
NAMES = {
    'sp_add': r'^cocls::suspend_point<void>::add\(void\*\)$',
    'std_copy': r'^void\*\* std::copy<void\*\*, void\*\*>\(void\*\*, void\*\*, void\*\*\)$',
}
def leaf(name, fn_alias, fn_rx, extra_names=None, replace=(), boundary=(), globals_=None):
    names = {fn_alias: fn_rx}
    names.update(extra_names or {})
    return dict(name=name, driver='c06_sp.cpp', roots=[fn_rx], names=names, types=TYPES,
                boundary=list(boundary), globals=globals_ or {}, spec=['C06/sp_spec.h', 'C06/h_leaf.c'], harness='h_' + name,
                enforce=fn_alias, replace=list(replace), under_contract=[fn_rx.strip('^$').replace('\\', '')])

def shapes(tier):
    # (n1, heap1, cap1, n2, heap2, cap2): every representation pair; counts around the inline limit and every doubling up to 40
    dst = [(0,0,0),(1,0,0),(2,0,0),(3,0,0),(0,1,1),(1,1,1),(1,1,2),(3,1,4),(4,1,4),(4,1,6),(6,1,6),(7,1,8),(8,1,8),(15,1,16),(16,1,16),(31,1,32),(32,1,32)]
    src = [(0,0,0),(1,0,0),(2,0,0),(3,0,0),(0,1,2),(1,1,1),(4,1,4),(5,1,8),(8,1,8)]
    if tier == 'thorough':
        dst += [(n,1,c) for n in range(0, 33, 1) for c in (n, n + 1) if c >= 1 and (n,1,c) not in dst]
        src += [(n,1,max(n,1)) for n in (6,7,9,12,16,20,33,40) ]
    out = []
    for d in dst:
        for s in src:
            if d[0] + s[0] <= 40: out.append(d + s)
    return out
def shape_define(sh):
    return 'BND_SHAPES ' + ', '.join('{%d,%d,%d,%d,%d,%d}' % s for s in sh)
def chunks(l, n):
    return [l[i:i + n] for i in range(0, len(l), n)]
MERGE_RX = r'^cocls::suspend_point<void>::operator<<\(cocls::suspend_point<void>&&\)$'

UNITS = [
    leaf('add', 'sp_add', NAMES['sp_add'], {'std_copy': NAMES['std_copy']}, replace=['std_copy'], boundary=[r'^void\*\* std::copy<void\*\*']),
    leaf('ctor_handle', 'sp_ctor_handle', r'^cocls::suspend_point<void>::suspend_point\(std::__n4861::coroutine_handle<void>\)$'),
    leaf('move_ctor', 'sp_move_ctor', r'^cocls::suspend_point<void>::suspend_point\(cocls::suspend_point<void>&&\)$'),
    leaf('pop', 'sp_pop', r'^cocls::suspend_point<void>::pop\(\)$', globals_={'NOOP_FRAME': '_ZNSt7__n486116coroutine_handleINS_22noop_coroutine_promiseEE5_S_frE'}),
    leaf('clear_internal', 'sp_clear_internal', r'^cocls::suspend_point<void>::clear_internal\(\)$'),
    leaf('size', 'sp_size', r'^cocls::suspend_point<void>::size\(\) const$'),
    leaf('empty', 'sp_empty', r'^cocls::suspend_point<void>::empty\(\) const$'),
    leaf('begin', 'sp_begin', r'^cocls::suspend_point<void>::begin\(\) const$'),
] + [
    dict(leaf('merge', 'sp_merge', MERGE_RX), name='merge_bounded_%s_%d' % (t, ci), harness='h_merge_bounded', enforce=None,
         spec=['C06/sp_spec.h', 'C06/h_bounded.c'], defines=[shape_define(chunk), 'BND_ASSIGN 0', 'sp_move_assign(a,b) ((SP*)0)'], unwind=42,
         bounded='<=40 handles; %d concrete shapes (counts/representation/capacity), symbolic handle values and position' % len(chunk),
         tiers=[t], kind='bounded', timeout=1500, object_bits=11, unwindset=['h_merge_bounded.0:%d' % (len(chunk) + 2)])
    for t in ('quick', 'thorough') for ci, chunk in enumerate(chunks(shapes(t), 14 if t == 'quick' else 10))
] + [
    dict(leaf('merge', 'sp_merge', MERGE_RX), name='merge_self_bounded', harness='h_merge_self_bounded', enforce=None,
         spec=['C06/sp_spec.h', 'C06/h_bounded.c'], defines=['BND_SHAPES {0,0,0,0,0,0}', 'BND_SELF 1', 'BND_ASSIGN 0', 'sp_move_assign(a,b) ((SP*)0)'], unwind=12,
         bounded='self-merge (sp << std::move(sp)) of points with 0..5 handles, both representations', kind='bounded', timeout=600, object_bits=10, unwindset=['h_merge_self_bounded.0:11'],
         replay=dict(src='c06_self_merge.cpp', flags=['-O1', '-g'])),
] + [
    leaf('move_assign', 'sp_move_assign', r'^cocls::suspend_point<void>::operator=\(cocls::suspend_point<void>&&\)$', {'sp_merge': MERGE_RX}, boundary=[MERGE_RX]),
    leaf('ctor_default', 'sp_ctor_default', r'^cocls::suspend_point<void>::suspend_point\(\)$'),
    leaf('await_ready', 'sp_await_ready', r'^cocls::suspend_point<void>::await_ready\(\) const$'),
    leaf('spb_ctor_val', 'spb_ctor_val', r'^cocls::suspend_point<bool>::suspend_point\(bool\)$'),
    leaf('spb_ctor_h', 'spb_ctor_h', r'^cocls::suspend_point<bool>::suspend_point\(std::__n4861::coroutine_handle<void>, bool\)$'),
    leaf('spb_ctor_from', 'spb_ctor_from', r'^cocls::suspend_point<bool>::suspend_point\(cocls::suspend_point<void>&&, bool\)$'),
    leaf('spb_get', 'spb_get', r'^cocls::suspend_point<bool>::operator bool\(\)$'),
    leaf('spb_await_resume', 'spb_await_resume', r'^cocls::suspend_point<bool>::await_resume\(\)$'),
    leaf('spi_ctor_from', 'spi_ctor_from', r'^cocls::suspend_point<int>::suspend_point\(cocls::suspend_point<void>&&, int\)$'),
    leaf('spi_get', 'spi_get', r'^cocls::suspend_point<int>::operator int\(\)$'),
    leaf('merge_handle', 'sp_merge_handle', r'^cocls::suspend_point<void>::operator<<\(std::__n4861::coroutine_handle<void>&&\)$', {'std_copy': NAMES['std_copy']}, replace=['std_copy'], boundary=[r'^void\*\* std::copy<void\*\*']),
    leaf('end', 'sp_end', r'^cocls::suspend_point<void>::end\(\) const$'),
]
# the members that hand the coroutines to the scheduler are specified together with the ready queue (C05) and are part of this property too
import importlib.util as _ilu, os as _os
_s = _ilu.spec_from_file_location('c05_units', _os.path.join(_os.path.dirname(_os.path.dirname(_os.path.abspath(__file__))), 'C05', 'units.py')); _m = _ilu.module_from_spec(_s); _s.loader.exec_module(_m)
import copy as _copy
for _u in _m.UNITS:
    if _u['name'] in ('clear', 'dtor'):
        UNITS.append(_u)
    elif _u['name'] in ('suspend_now', 'await_suspend'):
        # unbounded, but position-wise (queue / resume order = C05): for C06 ("exactly once", no order) a failure here is not a violation
        UNITS.append(dict(_copy.deepcopy(_u), on_fail='undecided', on_fail_note='position-wise contract of C05; C06 itself is decided order-free by the *_bounded sibling up to 5 handles'))
    elif _u['name'] in ('suspend_now_bounded', 'await_suspend_bounded'):
        # order-free accounting of an arbitrary handle value: decides C06 for points of <= 5 handles
        UNITS.append(dict(_copy.deepcopy(_u), defines=list(_u['defines']) + ['CV_NO_ORDER 1']))

META = dict(
    level='proof',
    level_text='Every loop-free member of suspend_point<void> and the typed variants is verified against a position-wise contract (ghost index) for every count < 2^28, every capacity and both representations, including the inline->heap transition and every doubling inside add(); allocation balance is a postcondition. The merging loop of operator<< is NOT proved: it is checked by bounded execution of the real body on concrete shapes up to the 40 handles of the property statement and reported separately as bounded. suspend_now/clear/destructor/await_suspend(coroutine mode) are proved against contracts over the abstract ready queue (shared with C05): every handle is queued or resumed exactly once, in order, the block is released once, an emptied/moved-from suspend point resumes nothing.',
    level_note='Trusted: clang front end, ir2c translation, heap primitive (operator new[]/delete[] = malloc/free + counters), assumed element-wise contract of std::copy<void**>. Arithmetic bound count < 2^28 is a stated precondition. Bounded units never count as discharged.',
    technique='CBMC code contracts (requires/ensures/assigns/frees) enforced per function via goto-instrument --dfcc on the C translation of clang IR of the real header; bounded unwinding stand-in for the merge loop',
    trusted_base=['assumed contract: std::copy<void**> copies element-wise (specs/C06/sp_spec.h)'],
    assumptions=['count < 2^28 (the count word holds count<<1 in an unsigned int)', 'operator<< merge loop: bounded(40) only - see coverage.bounded'],
    explanation='see level_text')
