# C06 - A suspend point never loses or duplicates a ready coroutine
SP = 'cocls::suspend_point<void>'
TYPES = {'SP': SP, 'EXT': SP + '::ExtData'}
NAMES = {
    'sp_add': r'^cocls::suspend_point<void>::add\(void\*\)$',
    'std_copy': r'^void\*\* std::copy<void\*\*, void\*\*>\(void\*\*, void\*\*, void\*\*\)$',
}
def leaf(name, fn_alias, fn_rx, extra_names=None, replace=(), boundary=(), globals_=None):
    names = {fn_alias: fn_rx}
    names.update(extra_names or {})
    return dict(name=name, driver='c06_sp.cpp', roots=[fn_rx], names=names, types=TYPES,
                boundary=list(boundary), globals=globals_ or {}, spec=['C06/sp_spec.h', 'C06/h_leaf.c'], harness='h_' + name,
                enforce=fn_alias, replace=list(replace), under_contract=[fn_rx.strip('^$').replace('\\', '')])

UNITS = [
    leaf('add', 'sp_add', NAMES['sp_add'], {'std_copy': NAMES['std_copy']}, replace=['std_copy'], boundary=[r'^void\*\* std::copy<void\*\*']),
    leaf('ctor_handle', 'sp_ctor_handle', r'^cocls::suspend_point<void>::suspend_point\(std::__n4861::coroutine_handle<void>\)$'),
    leaf('move_ctor', 'sp_move_ctor', r'^cocls::suspend_point<void>::suspend_point\(cocls::suspend_point<void>&&\)$'),
    leaf('pop', 'sp_pop', r'^cocls::suspend_point<void>::pop\(\)$', globals_={'NOOP_FRAME': '_ZNSt7__n486116coroutine_handleINS_22noop_coroutine_promiseEE5_S_frE'}),
    leaf('clear_internal', 'sp_clear_internal', r'^cocls::suspend_point<void>::clear_internal\(\)$'),
    leaf('size', 'sp_size', r'^cocls::suspend_point<void>::size\(\) const$'),
    leaf('empty', 'sp_empty', r'^cocls::suspend_point<void>::empty\(\) const$'),
    leaf('begin', 'sp_begin', r'^cocls::suspend_point<void>::begin\(\) const$'),
    leaf('end', 'sp_end', r'^cocls::suspend_point<void>::end\(\) const$'),
]
META = dict(level='proof', trusted_base=['assumed contract: std::copy<void**> copies element-wise (specs/C06/sp_spec.h)'], assumptions=[])
