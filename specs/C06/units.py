# C06 - A suspend point never loses or duplicates a ready coroutine
SP = 'cocls::suspend_point<void>'
TYPES = {'SP': SP, 'EXT': SP + '::ExtData', 'CH': 'std::__n4861::coroutine_handle<void>', 'SPB': 'cocls::suspend_point<bool>', 'SPI': 'cocls::suspend_point<int>', 'SPM': 'cocls::suspend_point<c06_mv>', 'MVT': 'c06_mv'}
NAMES = {
    'sp_add': r'^cocls::suspend_point<void>::add\(void\*\)$',
    'std_copy': r'^void\*\* std::copy<void\*\*, void\*\*>\(void\*\*, void\*\*, void\*\*\)$',
}
def leaf(name, fn_alias, fn_rx, extra_names=None, replace=(), boundary=(), globals_=None):
    names = {fn_alias: fn_rx}
    names.update(extra_names or {})
    return dict(name=name, driver='c06_sp.cpp', roots=[fn_rx], names=names, types=TYPES,
                boundary=list(boundary), globals=globals_ or {}, spec=['C06/sp_spec.h', 'C06/h_leaf.c'], harness='h_' + name,
                enforce=fn_alias, replace=list(replace), under_contract=[fn_rx.strip('^$').replace('\\', '')])

def shapes(tier):
    # (n1, heap1, cap1, n2, heap2, cap2): every representation pair; counts around the inline limit and every doubling up to 40
    dst = [(0,0,0),(1,0,0),(2,0,0),(3,0,0),(0,1,1),(1,1,1),(1,1,2),(3,1,4),(4,1,4),(4,1,6),(6,1,6),(7,1,8),(8,1,8),(15,1,16),(16,1,16),(31,1,32),(32,1,32)]
    src = [(0,0,0),(1,0,0),(2,0,0),(3,0,0),(0,1,2),(1,1,1),(4,1,4),(5,1,8),(8,1,8)]
    if tier == 'thorough':
        dst += [(n,1,c) for n in range(0, 33, 1) for c in (n, n + 1) if c >= 1 and (n,1,c) not in dst]
        src += [(n,1,max(n,1)) for n in (6,7,9,12,16,20,33,40) ]
    out = []
    for d in dst:
        for s in src:
            if d[0] + s[0] <= 40: out.append(d + s)
    return out
def shape_define(sh):
    return 'BND_SHAPES ' + ', '.join('{%d,%d,%d,%d,%d,%d}' % s for s in sh)
def chunks(l, n):
    return [l[i:i + n] for i in range(0, len(l), n)]
MERGE_RX = r'^cocls::suspend_point<void>::operator<<\(cocls::suspend_point<void>&&\)$'

UNITS = [
    leaf('add', 'sp_add', NAMES['sp_add'], {'std_copy': NAMES['std_copy']}, replace=['std_copy'], boundary=[r'^void\*\* std::copy<void\*\*']),
    leaf('ctor_handle', 'sp_ctor_handle', r'^cocls::suspend_point<void>::suspend_point\(std::__n4861::coroutine_handle<void>\)$'),
    leaf('move_ctor', 'sp_move_ctor', r'^cocls::suspend_point<void>::suspend_point\(cocls::suspend_point<void>&&\)$'),
    leaf('pop', 'sp_pop', r'^cocls::suspend_point<void>::pop\(\)$', globals_={'NOOP_FRAME': '_ZNSt7__n486116coroutine_handleINS_22noop_coroutine_promiseEE5_S_frE'}),
    leaf('clear_internal', 'sp_clear_internal', r'^cocls::suspend_point<void>::clear_internal\(\)$'),
    leaf('size', 'sp_size', r'^cocls::suspend_point<void>::size\(\) const$'),
    leaf('empty', 'sp_empty', r'^cocls::suspend_point<void>::empty\(\) const$'),
    leaf('begin', 'sp_begin', r'^cocls::suspend_point<void>::begin\(\) const$'),
] + [
    dict(leaf('merge', 'sp_merge', MERGE_RX), name='merge_bounded_%s_%d' % (t, ci), harness='h_merge_bounded', enforce=None,
         spec=['C06/sp_spec.h', 'C06/h_bounded.c'], defines=[shape_define(chunk), 'BND_ASSIGN 0', 'sp_move_assign(a,b) ((SP*)0)'], unwind=42,
         bounded='<=40 handles; %d concrete shapes (counts/representation/capacity), symbolic handle values and position' % len(chunk),
         tiers=[t], kind='bounded', timeout=1500, object_bits=11, unwindset=['h_merge_bounded.0:%d' % (len(chunk) + 2)])
    for t in ('quick', 'thorough') for ci, chunk in enumerate(chunks(shapes(t), 14 if t == 'quick' else 10))
] + [
    dict(leaf('merge', 'sp_merge', MERGE_RX), name='merge_self_bounded', harness='h_merge_self_bounded', enforce=None,
         spec=['C06/sp_spec.h', 'C06/h_bounded.c'], defines=['BND_SHAPES {0,0,0,0,0,0}', 'BND_SELF 1', 'BND_ASSIGN 0', 'sp_move_assign(a,b) ((SP*)0)'], unwind=12,
         bounded='self-merge (sp << std::move(sp)) of points with 0..5 handles, both representations', kind='bounded', timeout=600, object_bits=10, unwindset=['h_merge_self_bounded.0:11'],
         replay=dict(src='c06_self_merge.cpp', flags=['-O1', '-g'])),
] + [
    leaf('move_assign', 'sp_move_assign', r'^cocls::suspend_point<void>::operator=\(cocls::suspend_point<void>&&\)$', {'sp_merge': MERGE_RX}, boundary=[MERGE_RX]),
    leaf('ctor_default', 'sp_ctor_default', r'^cocls::suspend_point<void>::suspend_point\(\)$'),
    leaf('await_ready', 'sp_await_ready', r'^cocls::suspend_point<void>::await_ready\(\) const$'),
    leaf('spb_ctor_val', 'spb_ctor_val', r'^cocls::suspend_point<bool>::suspend_point\(bool\)$'),
    leaf('spb_ctor_h', 'spb_ctor_h', r'^cocls::suspend_point<bool>::suspend_point\(std::__n4861::coroutine_handle<void>, bool\)$'),
    leaf('spb_ctor_from', 'spb_ctor_from', r'^cocls::suspend_point<bool>::suspend_point\(cocls::suspend_point<void>&&, bool\)$'),
    leaf('spb_get', 'spb_get', r'^cocls::suspend_point<bool>::operator bool\(\)$'),
    leaf('spb_await_resume', 'spb_await_resume', r'^cocls::suspend_point<bool>::await_resume\(\)$'),
    leaf('spi_ctor_from', 'spi_ctor_from', r'^cocls::suspend_point<int>::suspend_point\(cocls::suspend_point<void>&&, int\)$'),
    leaf('spi_get', 'spi_get', r'^cocls::suspend_point<int>::operator int\(\)$'),
    leaf('spm_get', 'spm_get', r'^cocls::suspend_point<c06_mv>::operator c06_mv\(\)$'), leaf('spm_cget', 'spm_cget', r'^cocls::suspend_point<c06_mv>::operator c06_mv const\(\) const$'),
    leaf('spm_await_resume', 'spm_await_resume', r'^cocls::suspend_point<c06_mv>::await_resume\(\)$'),
    leaf('merge_handle', 'sp_merge_handle', r'^cocls::suspend_point<void>::operator<<\(std::__n4861::coroutine_handle<void>&&\)$', {'std_copy': NAMES['std_copy']}, replace=['std_copy'], boundary=[r'^void\*\* std::copy<void\*\*']),
    leaf('end', 'sp_end', r'^cocls::suspend_point<void>::end\(\) const$'),
]
# the members that hand the coroutines to the scheduler are specified together with the ready queue (C05) and are part of this property too
import importlib.util as _ilu, os as _os
_s = _ilu.spec_from_file_location('c05_units', _os.path.join(_os.path.dirname(_os.path.dirname(_os.path.abspath(__file__))), 'C05', 'units.py')); _m = _ilu.module_from_spec(_s); _s.loader.exec_module(_m)
import copy as _copy
for _u in _m.UNITS:
    if _u['name'] in ('clear', 'dtor'):
        UNITS.append(_u)
    elif _u['name'] in ('suspend_now', 'await_suspend'):
        # unbounded, but position-wise (queue / resume order = C05): for C06 ("exactly once", no order) a failure here is not a violation
        UNITS.append(dict(_copy.deepcopy(_u), on_fail='undecided', on_fail_note='position-wise contract of C05; C06 itself is decided order-free by the *_bounded sibling up to 5 handles'))
    elif _u['name'] in ('suspend_now_bounded', 'await_suspend_bounded'):
        # order-free accounting of an arbitrary handle value: decides C06 for points of <= 5 handles
        UNITS.append(dict(_copy.deepcopy(_u), defines=list(_u['defines']) + ['CV_NO_ORDER 1']))

# ---- parallel resumption (src/cocls/resume.h): cocls::parallel<Awt> (co_await cocls::parallel(fut): the awaiting coroutine is resumed on a
# brand-new detached thread) and cocls::parallel_resume(suspend_point<T>&&) (the point's coroutines are resumed on a new thread).
# std::thread is an external primitive: boundary + recording model lib/model_thread_spawn.c (runs the closure exactly once).  Driver c06_parallel.cpp.
import re as _re
_PAR = 'cocls::parallel<cocls::co_awaiter<cocls::future<int> > >'
_PARE = _re.escape(_PAR)
PAR_PR_RX = r'^' + _PARE + r'::perform_resume\(cocls::awaiter\*, void\*\)$'
PAR_PR_LAM_RX = r'^' + _PARE + r'::perform_resume\(cocls::awaiter\*, void\*\)::\{lambda\(\)#1\}::operator\(\)\(\) const$'
PAR_PR_THR_RX = r'^std::thread::thread<' + _PARE + r'::perform_resume\(cocls::awaiter\*, void\*\)::\{lambda\(\)#1\}, , void>\('
PAR_AS_RX = r'^' + _PARE + r'::await_suspend\(std::__n4861::coroutine_handle<void>\)$'
PAR_AR_RX = r'^' + _PARE + r'::await_ready\(\)$'
PAR_ARES_RX = r'^' + _PARE + r'::await_resume\(\)$'
PAR_CTOR_RX = r'^' + _PARE + r'::parallel<cocls::future<int>&>\(cocls::future<int>&\)$'
COAW = r'cocls::co_awaiter<cocls::future<int> >'
COAW_AS_RX = r'^' + _re.escape(COAW) + r'::await_suspend\(cocls::suspend_point<void> \(\*\)\(cocls::awaiter\*, void\*\)( noexcept)?, void\*\)$'
COAW_AR_RX = r'^' + _re.escape(COAW) + r'::await_ready\(\)$'
COAW_ARES_RX = r'^' + _re.escape(COAW) + r'::await_resume\(\)$'
def _prx(t): return r'cocls::parallel_resume<%s>\(cocls::suspend_point<%s>&&\)' % (t, t)
def PRES_RX(t): return r'^auto ' + _prx(t) + r'$'
def PRES_LAM_CALL_RX(t): return r'^' + _prx(t) + r'::\{lambda\(\)#1\}::operator\(\)\(\)$'
def PRES_LAM_MOVE_RX(t): return r'^' + _prx(t) + r'::\{lambda\(\)#1\}::suspend_point\(\{lambda\(\)#1\}&&\)$'      # the closure's implicit move constructor (demangler prints the capture's type name)
def PRES_LAM_DTOR_RX(t): return r'^' + _prx(t) + r'::\{lambda\(\)#1\}::~suspend_point\(\)$'
def PRES_THR_RX(t): return r'^std::thread::thread<' + _prx(t) + r'::\{lambda\(\)#1\}, , void>\('
THR_BOUNDARY = [r'^std::thread::']
PAR_TYPES = dict(TYPES, THR='std::thread', AWT='cocls::awaiter', PAR=_PAR, COAW='cocls::co_awaiter<cocls::future<int> >')
PAR_LIBS = ['rt_core.c', 'rt_atomic_seq.c', 'model_coro.c', 'model_thread_spawn.c']
PAR_SPEC = ['C06/sp_spec.h', 'C06/par_spec.h', 'C06/h_par.c']
RESUME_BOUNDARY = [r'^std::__n4861::coroutine_handle<void>::resume\(\) const$']
def par_unit(name, alias, rx, **kw):
    d = dict(name=name, driver='c06_parallel.cpp', roots=[rx], names={alias: rx}, types=dict(PAR_TYPES), globals={}, boundary=THR_BOUNDARY + RESUME_BOUNDARY,
             lib=PAR_LIBS, spec=PAR_SPEC, harness='h_' + name, enforce=alias, defines=['DQCH int'], under_contract=[rx.strip('^$').replace('\\', '')])
    for k in ('names', 'types', 'globals'):
        if k in kw: d[k].update(kw.pop(k))
    for k in ('roots', 'boundary', 'defines'):
        if k in kw:
            if k == 'roots': d['under_contract'] = d['under_contract'] + [x.strip('^$').replace('\\', '') for x in kw[k]]    # closure bodies / closure special members run by the thread model
            d[k] = d[k] + list(kw.pop(k))
    d.update(kw)
    return d
_AWT_PERM = {'cocls::awaiter._handle_addr': 'PAR_AWT_ACCESS'}
_SPV_CLEAR_RX = r'^cocls::suspend_point<void>::clear\(\)$'
_SPV_SN_RX = r'^cocls::suspend_point<void>::suspend_now\(\)$'
def _pres_names(t):
    return {'pres_lam_call': PRES_LAM_CALL_RX(t), 'pres_lam_move': PRES_LAM_MOVE_RX(t), 'pres_lam_dtor': PRES_LAM_DTOR_RX(t), 'thr_ctor_pres': PRES_THR_RX(t)}
def _pres_roots(t):
    return [PRES_LAM_CALL_RX(t), PRES_LAM_MOVE_RX(t), PRES_LAM_DTOR_RX(t)]
def pres_modular(name, alias, t, harness):
    return par_unit(name, alias, PRES_RX(t), roots=_pres_roots(t), names=dict(_pres_names(t), pres_sp_clear=_SPV_CLEAR_RX, pres_sp_suspend_now=_SPV_SN_RX),
                    ptypes={'CLOS_PRES': PRES_THR_RX(t) + '#1'}, boundary=[_SPV_CLEAR_RX, _SPV_SN_RX], harness=harness, cbmc_flags=['--sat-solver', 'cadical'],
                    note='clear()/suspend_now() are abstract callees here (units clear, dtor, suspend_now verify them); composition is by hand')
def pres_e2e(name, loop, defines, **kw):
    t = 'void'
    d = par_unit(name, 'parallel_resume_v', PRES_RX(t), roots=_pres_roots(t),
                 names=dict(_pres_names(t), qi_flush=_m.FLUSH_RX, sp_suspend_now=_SPV_SN_RX, sp_suspend_now_lambda=_m.SN_LAMBDA_RX),
                 types=dict(_m.TYPES), globals={k: v for k, v in _m.GLOBALS.items() if k != 'NOOP_FRAME'}, ptypes={'CLOS_PRES': PRES_THR_RX(t) + '#1'},
                 boundary=[r'^std::deque<std::__n4861::coroutine_handle<void>', _m.FLUSH_RX], replace=['qi_flush'], harness='h_parallel_resume', loop_contracts=loop,
                 spec=['C06/sp_spec.h', 'C05/q_spec.h', 'C05/sp_q_spec.h', 'C06/par_spec.h', 'C06/h_par.c'], cbmc_flags=['--sat-solver', 'cadical'])
    d['defines'] = ['CV_QUEUE_INSTANCE_PTR QINST', 'CV_THREAD_TLS_HOOKS 1', 'CV_PRES_E2E 1'] + list(defines)
    d.update(kw)
    return d
UNITS += [
    par_unit('par_perform_resume', 'par_perform_resume', PAR_PR_RX, roots=[PAR_PR_LAM_RX], names={'par_pr_lambda': PAR_PR_LAM_RX, 'thr_ctor_pr': PAR_PR_THR_RX},
             ptypes={'CLOS_PR': PAR_PR_THR_RX + '#1'}, perms=_AWT_PERM, defines=['CV_COUNT_X 1']),
    # the wrapped awaiter's members are abstract callees (names_opt: a change that stops calling them must fail a postcondition, not the extraction)
    par_unit('par_await_suspend', 'par_await_suspend', PAR_AS_RX, names={'par_perform_resume_fn': PAR_PR_RX}, names_opt={'coaw_await_suspend': COAW_AS_RX},
             boundary=[COAW_AS_RX, PAR_PR_RX], perms=_AWT_PERM),
    par_unit('par_await_ready', 'par_await_ready', PAR_AR_RX, names_opt={'coaw_await_ready': COAW_AR_RX}, boundary=[COAW_AR_RX]),
    par_unit('par_await_resume', 'par_await_resume', PAR_ARES_RX, names_opt={'coaw_await_resume': COAW_ARES_RX}, boundary=[COAW_ARES_RX]),
    par_unit('par_ctor', 'par_ctor', PAR_CTOR_RX, types={'FUT': 'cocls::future<int>'}),
    pres_modular('parallel_resume', 'parallel_resume_v', 'void', 'h_parallel_resume'),
    pres_modular('parallel_resume_typed', 'parallel_resume_b', 'bool', 'h_parallel_resume_typed'),
    # unbounded, but position-wise (k-th direct resumption = k-th handle): C06 does not demand an order, so a failure here is not a violation of C06
    pres_e2e('parallel_resume_e2e', True, [], on_fail='undecided', on_fail_note='position-wise contract (resume order); C06 itself is decided order-free by parallel_resume_e2e_bounded up to 5 handles and by the modular unit parallel_resume'),
    pres_e2e('parallel_resume_e2e_bounded', False, ['CV_BOUNDED_FALLBACK 1', 'CV_BOUND_N 5', 'CV_COUNT_X 1', 'CV_NO_ORDER 1'], unwind=24, kind='bounded', timeout=900, object_bits=9,
             bounded='suspend points of <= 5 handles (inline and heap representation); the loops of suspend_now run on the spawned thread are unwound instead of using loop contracts'),
]

META = dict(
    level='proof',
    level_text='Every loop-free member of suspend_point<void> and the typed variants is verified against a position-wise contract (ghost index) for every count < 2^28, every capacity and both representations, including the inline->heap transition and every doubling inside add(); allocation balance is a postcondition. The merging loop of operator<< is NOT proved: it is checked by bounded execution of the real body on concrete shapes up to the 40 handles of the property statement and reported separately as bounded. suspend_now/clear/destructor/await_suspend(coroutine mode) are proved against contracts over the abstract ready queue (shared with C05): every handle is queued or resumed exactly once, in order, the block is released once, an emptied/moved-from suspend point resumes nothing.',
    level_note='Trusted: clang front end, ir2c translation, heap primitive (operator new[]/delete[] = malloc/free + counters), assumed element-wise contract of std::copy<void**>. Arithmetic bound count < 2^28 is a stated precondition. Bounded units never count as discharged.',
    technique='CBMC code contracts (requires/ensures/assigns/frees) enforced per function via goto-instrument --dfcc on the C translation of clang IR of the real header; bounded unwinding stand-in for the merge loop',
    trusted_base=['assumed contract: std::copy<void**> copies element-wise (specs/C06/sp_spec.h)'],
    assumptions=['count < 2^28 (the count word holds count<<1 in an unsigned int)', 'operator<< merge loop: bounded(40) only - see coverage.bounded'],
    explanation='see level_text')
# ---- parallel resumption (resume.h): additions to the description above
META['level_text'] += (' Parallel resumption (src/cocls/resume.h, driver c06_parallel.cpp): parallel<co_awaiter<future<int>>>::perform_resume is verified against "exactly one brand-new detached thread is created, its closure gets the awaiting coroutine, that coroutine is resumed exactly once (order-free count of an arbitrary handle value), on the new thread and not on the resumer\'s stack, the suspend point given back to the resumer is empty, the awaiter is not touched once the thread exists"; parallel::await_suspend / await_ready / await_resume and the constructor are verified as forwarders to the wrapped awaiter (handle stored BEFORE the inner awaiter is subscribed, nothing touched afterwards, perform_resume + this registered as the thing to wake). parallel_resume(suspend_point<T>&&) for T = void and bool: (a) unbounded modular units - the whole content (count word, block, every position) reaches exactly one hand-over to the scheduler (clear()/suspend_now(), abstract callees verified by units clear / dtor / suspend_now), on one new detached thread, the caller\'s point is emptied, the block is neither copied nor leaked nor released twice, the typed value is returned; (b) an unbounded end-to-end unit (parallel_resume_e2e) that runs the real clear() -> suspend_now() -> resume loop (loop contracts of C05/sp_q_spec.h) -> flush_queue (by contract) on the spawned thread with its own thread_local ready queue: the k-th direct resumption is the k-th handle, all of them on the spawned thread, the caller\'s mode and ready queue untouched; (c) its bounded sibling (<= 5 handles, loops unwound, order-free count of an arbitrary handle value).')
META['level_note'] += (' Parallel resumption: std::thread is a trusted recording model (lib/model_thread_spawn.c): thread creation always succeeds, the closure is moved with the real move constructor of the lambda, its real body and destructor run exactly once, INSIDE the constructor call (earliest schedule); later schedules of the spawned thread are covered only by the lifetime instrumentation (no access to the awaiter after the spawn / after the subscription), not by interleaving. A std::thread constructor that throws (resource exhaustion) is not modelled: in perform_resume (noexcept) that is std::terminate, in parallel_resume the closure destructor resumes the coroutines on the caller. A rewrite of perform_resume that no longer creates a thread from a lambda makes unit par_perform_resume undecided (extraction), not falsely discharged.')
META['trusted_base'] += ['assumed contract: std::thread(F&&) moves the closure and runs it exactly once on a new thread; detach()/join() need a joinable thread; ~thread of a joinable thread terminates (lib/model_thread_spawn.c)',
                         'primitive: coroutine_handle<>::resume() logs the handle (lib/model_coro.c) - shared with C05',
                         'abstract callees of the forwarder units: co_awaiter<future<int>>::await_suspend(resume_fn, void*) / await_ready / await_resume (subject of C02/C03), suspend_point<void>::clear / suspend_now in the modular parallel_resume units (subject of units clear, dtor, suspend_now)']
META['assumptions'] += ['parallel resumption: thread creation does not fail; the spawned thread is scheduled at the earliest point (inside the constructor); its thread_local ready queue starts empty with no activation installed']
