/* C06 - parallel resumption (src/cocls/resume.h):
 *   cocls::parallel<Awt>      co_await cocls::parallel(fut): when fut resolves, the awaiting coroutine is resumed on a brand-new detached thread
 *   cocls::parallel_resume(suspend_point<T>&&)   the coroutines of the point are resumed on a brand-new detached thread, the caller continues
 * Clauses (from the statements of C06 / C05 / C03, not from the code):
 *   C06  every coroutine handed over is resumed exactly once - counted over the caller's stack AND the spawned thread; none dropped, none
 *        twice (the object the caller keeps - the moved-from point / the returned suspend point - is empty, so its destructor resumes
 *        nothing more); the heap block of a big point is neither leaked nor released twice nor copied; typed point: the value returned is
 *        the producer's value.
 *   C05  nothing runs on the caller's stack (that is what "parallel" is for; a caller in coroutine mode keeps its ready queue untouched),
 *        and the spawned thread returns to ordinary code with its own ready queue drained.
 *   C03  (lifetime / "never while it is still in the act of suspending") the awaiter object lives in the frame of the awaiting coroutine:
 *        once the thread that resumes this coroutine exists - resp. once the inner awaiter is subscribed - the frame may be gone, so no
 *        member of the awaiter may be touched any more.  Checked by `perms` instrumentation of every plain access of awaiter::_handle_addr.
 * std::thread = external primitive, lib/model_thread_spawn.c (runs the closure exactly once; recording stub).  The per-closure constructor
 * stubs below move the closure with the REAL (translated) move constructor of the lambda and run its REAL operator() and destructor. */
#define PAR_RESUME_ASSIGNS dq_head, dq_tail, dq_trk, gh_n_resume, gh_res_trk, gh_rescntX     /* what the resume primitive (+ environment step) of lib/model_coro.c writes */

/* ================= parallel<co_awaiter<future<int>>>::perform_resume(awaiter *, void *user_ptr) ================= */
#ifdef CV_HAS_par_perform_resume
#define PAR_AWT_ACCESS(p) __CPROVER_assert(thm.n_created == 0, "C03 parallel::perform_resume: the awaiter (it lives in the frame of the awaiting coroutine) is not touched once the thread that resumes this coroutine exists")
cv_i8 *gh_pr_h;            /* the handle the spawned thread's closure got */
cv_i8 *gh_pr_h0;           /* logical variable: the awaiting coroutine (entry value of _handle_addr of the parallel awaiter) */
void thr_ctor_pr(THR *t, CLOS_PR *f)
{
  CLOS_PR mine = *f;                         /* decay-copy into storage of the new thread (trivially copyable closure: one coroutine handle) */
  cv_thread_spawn_begin(t, f);
  gh_pr_h = mine.h._M_fr_ptr;
  par_pr_lambda(&mine);                      /* the REAL closure body: h.resume() -> logged by the resume primitive */
  cv_thread_spawn_end();
}
void par_perform_resume(SP *agg_result, AWT *a, cv_i8 *user_ptr)
__CPROVER_requires(cv_exc_pending == 0 && THR_MODEL_PRE && DQ_WF)
__CPROVER_requires(__CPROVER_is_fresh(agg_result, sizeof(SP)) && __CPROVER_is_fresh(user_ptr, sizeof(PAR)))
__CPROVER_requires(((PAR *)user_ptr)->base_awaiter._handle_addr != 0 && gh_pr_h0 == ((PAR *)user_ptr)->base_awaiter._handle_addr)   /* await_suspend stored the handle of a real coroutine (unit par_await_suspend) */
__CPROVER_requires(gh_X != 0 && gh_rescntX < (1ul << 40))
__CPROVER_assigns(__CPROVER_object_whole(agg_result), THR_MODEL_ASSIGNS, PAR_RESUME_ASSIGNS, gh_pr_h)
__CPROVER_ensures(cv_exc_pending == 0)
__CPROVER_ensures(thm.n_created == 1 && thm.n_runs == 1)                                     /* exactly one brand-new thread runs the closure                      */
__CPROVER_ensures(thm.n_detach == 1 && thm.n_join == 0)                                      /* ... detached: the resumer does not wait for the resumed coroutine  */
__CPROVER_ensures(gh_pr_h == gh_pr_h0)                                                       /* it got the awaiting coroutine                                      */
__CPROVER_ensures(gh_rescntX == __CPROVER_old(gh_rescntX) + (gh_X == gh_pr_h0 ? 1 : 0))      /* C06: the awaiting coroutine resumed exactly once, nothing else resumed */
__CPROVER_ensures(gh_n_resume == __CPROVER_old(gh_n_resume) + 1 && thm.n_resumes == 1)       /* C05: on the new thread, nothing on the resumer's stack             */
__CPROVER_ensures(agg_result->_count_flag == 0)                                              /* C06: the suspend point given back is empty - the resumer resumes it NOT a second time */
__CPROVER_ensures(gh_allocs == __CPROVER_old(gh_allocs) && gh_frees == __CPROVER_old(gh_frees))
;
#endif

/* ================= parallel::await_suspend / await_ready / await_resume: forwarders to the wrapped awaiter ================= */
#if defined(CV_HAS_par_await_suspend) || defined(CV_HAS_par_await_ready) || defined(CV_HAS_par_await_resume)
int gh_fw_calls; COAW *gh_fw_this; void *gh_fw_fn; cv_i8 *gh_fw_ctx; cv_i1 gh_fw_ret; cv_i32 *gh_fw_retp;
#endif
#ifdef CV_HAS_par_await_suspend
/* from the moment the inner awaiter is subscribed, another thread may resolve the future: perform_resume then reads the outer handle and
 * resumes the coroutine on a new thread, which may destroy the frame holding the parallel object */
#define PAR_AWT_ACCESS(p) __CPROVER_assert(gh_fw_calls == 0, "C03 parallel::await_suspend: the awaiting coroutine's handle is stored BEFORE the inner awaiter is subscribed and the awaiter is not touched afterwards (never while still in the act of suspending)")
/* abstract callee co_awaiter<future<int>>::await_suspend(resume_fn, void *) (subject of the C02/C03 units): records its invocation */
#ifdef CV_HAS_coaw_await_suspend
cv_i1 coaw_await_suspend(COAW *t, void (*fn)(SP *, AWT *, cv_i8 *), cv_i8 *ctx)
{ gh_fw_calls++; gh_fw_this = t; gh_fw_fn = (void *)fn; gh_fw_ctx = ctx; gh_fw_ret = nondet_bool() ? 1 : 0; return gh_fw_ret; }
#endif
cv_i1 par_await_suspend(PAR *this_, cv_i8 *h)
__CPROVER_requires(cv_exc_pending == 0 && gh_fw_calls == 0 && h != 0)
__CPROVER_requires(__CPROVER_is_fresh(this_, sizeof(*this_)))
__CPROVER_assigns(gh_fw_calls, gh_fw_this, gh_fw_fn, gh_fw_ctx, gh_fw_ret, this_->base_awaiter._handle_addr, this_->base_awaiter._resume_fn)
__CPROVER_ensures(cv_exc_pending == 0)
__CPROVER_ensures(gh_fw_calls == 1 && gh_fw_this == &this_->_awt)                                 /* subscribed exactly once, on the wrapped awaiter              */
__CPROVER_ensures(gh_fw_fn == (void *)par_perform_resume_fn && gh_fw_ctx == (cv_i8 *)this_)       /* ... with perform_resume + this as the thing to wake          */
__CPROVER_ensures(this_->base_awaiter._handle_addr == h)                                          /* what perform_resume will resume is exactly the awaiting coroutine (C06: not dropped, no other) */
__CPROVER_ensures(__CPROVER_return_value == gh_fw_ret)                                            /* suspended / continue-at-once decision is the wrapped awaiter's */
;
#endif
#ifdef CV_HAS_par_await_ready
#ifdef CV_HAS_coaw_await_ready
cv_i1 coaw_await_ready(COAW *t) { gh_fw_calls++; gh_fw_this = t; gh_fw_ret = nondet_bool() ? 1 : 0; return gh_fw_ret; }
#endif
cv_i1 par_await_ready(PAR *this_)
__CPROVER_requires(cv_exc_pending == 0 && gh_fw_calls == 0 && __CPROVER_is_fresh(this_, sizeof(*this_)))
__CPROVER_assigns(gh_fw_calls, gh_fw_this, gh_fw_ret)
__CPROVER_ensures(cv_exc_pending == 0 && gh_fw_calls == 1 && gh_fw_this == &this_->_awt && __CPROVER_return_value == gh_fw_ret)
;
#endif
#ifdef CV_HAS_par_await_resume
#ifdef CV_HAS_coaw_await_resume
cv_i32 *coaw_await_resume(COAW *t) { gh_fw_calls++; gh_fw_this = t; gh_fw_retp = (cv_i32 *)nondet_ptr(); return gh_fw_retp; }
#endif
cv_i32 *par_await_resume(PAR *this_)
__CPROVER_requires(cv_exc_pending == 0 && gh_fw_calls == 0 && __CPROVER_is_fresh(this_, sizeof(*this_)))
__CPROVER_assigns(gh_fw_calls, gh_fw_this, gh_fw_retp)
__CPROVER_ensures(cv_exc_pending == 0 && gh_fw_calls == 1 && gh_fw_this == &this_->_awt && __CPROVER_return_value == gh_fw_retp)   /* the result is the wrapped awaiter's (outcome map of C02) */
;
#endif
/* ---- parallel(future<int>&): wraps the awaiter of exactly this future; no coroutine attached yet */
#ifdef CV_HAS_par_ctor
void par_ctor(PAR *this_, FUT *f)
__CPROVER_requires(cv_exc_pending == 0 && __CPROVER_is_fresh(this_, sizeof(*this_)) && __CPROVER_is_fresh(f, sizeof(*f)))
__CPROVER_assigns(__CPROVER_object_whole(this_))
__CPROVER_ensures(cv_exc_pending == 0 && this_->_awt._owner == f)
__CPROVER_ensures(this_->base_awaiter._handle_addr == 0 && this_->_awt.base_awaiter._handle_addr == 0)
;
#endif

/* ================= parallel_resume(suspend_point<T> &&spt) ================= */
/* (1) modular, unbounded: suspend_point<void>::clear() / suspend_now() are abstract callees (verified by units clear, dtor, suspend_now:
 *     "every handle of the point resumed exactly once [normal mode], point emptied, block released once").  Here: the WHOLE content
 *     (count, representation, block, every position) reaches exactly one such hand-over, on the spawned thread; everything else the code
 *     constructs / destroys on the way (source, capture temporary, the thread's own copy) is empty when it dies. */
#if defined(CV_HAS_pres_sp_clear)
int gh_ho_calls;          /* hand-overs of a NON-empty point to the scheduler (clear() or the suspend_now() of a destructor)          */
int gh_ho_in_thread;      /* the hand-over happened on the spawned thread                                                             */
cv_i32 gh_ho_cf; cv_i8 *gh_ho_H; cv_i8 **gh_ho_blk;      /* what was handed over: count word, handle at position gh_G, heap block       */
static void pres_hand_over(SP *t)
{
  if (CNT(t) == 0) { if (HEAP(t)) { gh_frees++; free(EXTP(t)->_handles); } t->_count_flag = 0; return; }   /* empty: resumes nothing */
  gh_ho_calls++; gh_ho_in_thread = thm.in_thread; gh_ho_cf = t->_count_flag;
  if (gh_G < CNT(t)) gh_ho_H = H(t, gh_G);
  gh_ho_blk = HEAP(t) ? EXTP(t)->_handles : (cv_i8 **)0;
  if (HEAP(t)) { gh_frees++; free(EXTP(t)->_handles); }      /* abstract effect of suspend_now: resumed, block released once, emptied */
  t->_count_flag = 0;
}
void pres_sp_clear(SP *t) { pres_hand_over(t); }
void pres_sp_suspend_now(SP *t) { pres_hand_over(t); }
#define PRES_MOD_CONTRACT(sp) \
__CPROVER_requires(cv_exc_pending == 0 && THR_MODEL_PRE && gh_ho_calls == 0 && gh_ho_in_thread == 0) \
__CPROVER_requires(WF_FRESH(sp)) \
__CPROVER_requires(gh_cf == (sp)->_count_flag && ((gh_cf & 1) ==> gh_oldblk == EXTP(sp)->_handles)) \
__CPROVER_requires(gh_G < CNT(sp) ==> gh_oldH == H(sp, gh_G)) \
__CPROVER_assigns(THR_MODEL_ASSIGNS, (sp)->_count_flag, gh_frees, gh_ho_calls, gh_ho_in_thread, gh_ho_cf, gh_ho_H, gh_ho_blk) \
__CPROVER_frees(HEAP(sp): EXTP(sp)->_handles) \
__CPROVER_ensures(cv_exc_pending == 0) \
__CPROVER_ensures(CNT(sp) == 0 && ((gh_cf >> 1) > 0 ? (sp)->_count_flag == 0 : (sp)->_count_flag == gh_cf))   /* the caller's point is emptied: its destructor resumes nothing (none twice); an empty point is left alone (keeps its block) */ \
__CPROVER_ensures((gh_cf >> 1) > 0 ==> gh_ho_calls == 1)                                    /* handed to the scheduler exactly once (none dropped, none twice)            */ \
__CPROVER_ensures((gh_cf >> 1) == 0 ==> gh_ho_calls == 0) \
__CPROVER_ensures((gh_cf >> 1) > 0 ==> (gh_ho_cf == gh_cf && ((gh_cf & 1) ==> gh_ho_blk == gh_oldblk)))   /* ... the whole content, in its own block (no copy, no leak) */ \
__CPROVER_ensures(((gh_cf >> 1) > 0 && gh_G < (gh_cf >> 1)) ==> gh_ho_H == gh_oldH)         /* ... every position                                                          */ \
__CPROVER_ensures((gh_cf >> 1) > 0 ==> (gh_ho_in_thread == 1 && thm.n_created == 1 && thm.n_runs == 1 && thm.n_detach == 1 && thm.n_join == 0))   /* C05: on ONE new detached thread, not on the caller's stack */ \
__CPROVER_ensures(gh_allocs == __CPROVER_old(gh_allocs) && gh_frees == __CPROVER_old(gh_frees) + ((gh_cf >> 1) > 0 ? (gh_cf & 1) : 0))   /* the block is released exactly once (by the hand-over) */
#endif
#if defined(CV_HAS_pres_sp_clear) && defined(CV_HAS_parallel_resume_v)
void thr_ctor_pres(THR *t, CLOS_PRES *f)
{
  CLOS_PRES mine;                            /* storage owned by the new thread */
  pres_lam_move(&mine, f);                   /* std::thread decay-copies the closure: the REAL implicit move constructor of the lambda */
  cv_thread_spawn_begin(t, f);
  pres_lam_call(&mine);                      /* the REAL closure body */
  pres_lam_dtor(&mine);                      /* the copy dies on the new thread: REAL destructor */
  cv_thread_spawn_end();
}
void parallel_resume_v(SP *spt)
__CPROVER_requires(__CPROVER_is_fresh(spt, sizeof(*spt)))
PRES_MOD_CONTRACT(spt)
;
#endif
#if defined(CV_HAS_pres_sp_clear) && defined(CV_HAS_parallel_resume_b)
void thr_ctor_pres(THR *t, CLOS_PRES *f)
{
  CLOS_PRES mine;
  pres_lam_move(&mine, f);
  cv_thread_spawn_begin(t, f);
  pres_lam_call(&mine);
  pres_lam_dtor(&mine);
  cv_thread_spawn_end();
}
cv_i1 parallel_resume_b(SPB *spt)
__CPROVER_requires(__CPROVER_is_fresh(spt, sizeof(*spt)) && spt->value <= 1)
PRES_MOD_CONTRACT((SP *)spt)
__CPROVER_ensures(__CPROVER_return_value == __CPROVER_old(spt->value))     /* C06: the value attached to a typed suspend point is the one its producer supplied */
;
#endif

/* (2) end to end: the real clear() -> suspend_now() -> install_queue_and_call -> resume loop -> flush_queue (by contract) -> clear_internal
 *     run on the spawned thread.  Needs C05/q_spec.h + C05/sp_q_spec.h (vocabulary of the ready-queue model and the loop contracts of
 *     suspend_now).  thread_local state of the new thread: no activation installed, its own empty ready queue. */
#ifdef CV_PRES_E2E
struct { void *qi; cv_i64 head, tail; cv_i8 *trk; } gh_tls_saved;
void cv_thread_tls_enter(void)
{ gh_tls_saved.qi = (void *)QI; gh_tls_saved.head = dq_head; gh_tls_saved.tail = dq_tail; gh_tls_saved.trk = dq_trk;
  QI = 0; dq_head = dq_tail; }
void cv_thread_tls_leave(void)
{ __CPROVER_assert(QI == 0 && dq_head == dq_tail, "C05: the spawned thread returns to ordinary code in normal mode with its ready queue drained");
  QI = gh_tls_saved.qi; dq_head = gh_tls_saved.head; dq_tail = gh_tls_saved.tail; dq_trk = gh_tls_saved.trk; }
void thr_ctor_pres(THR *t, CLOS_PRES *f)
{
  CLOS_PRES mine;
  pres_lam_move(&mine, f);
  cv_thread_spawn_begin(t, f);
  pres_lam_call(&mine);
  pres_lam_dtor(&mine);
  cv_thread_spawn_end();
}
#ifdef CV_COUNT_X
#define PRES_E2E_COUNT_PRE(sp) __CPROVER_requires(gh_X != 0 && gh_cntX0 == XCOUNT(sp) && dq_cntX < (1ul << 40) && gh_rescntX < (1ul << 40))
#define PRES_E2E_COUNT_POST \
__CPROVER_ensures(gh_rescntX == __CPROVER_old(gh_rescntX) + gh_cntX0)      /* C06: every handle value resumed (caller + spawned thread) exactly as often as it was carried */ \
__CPROVER_ensures(dq_cntX == __CPROVER_old(dq_cntX))                       /* ... and none queued anywhere instead */
#else
#define PRES_E2E_COUNT_PRE(sp)
#define PRES_E2E_COUNT_POST
#endif
void parallel_resume_v(SP *spt)
__CPROVER_requires(Q_PRE && DQ_WF && THR_MODEL_PRE)
__CPROVER_requires(__CPROVER_is_fresh(spt, sizeof(*spt)) && SN_BOUND(spt) && WF_FRESH(spt) && SN_ALLNN(spt))
__CPROVER_requires(gh_cf == spt->_count_flag && gh_t0 == dq_tail && gh_h0 == dq_tail && gh_r0 == gh_n_resume && gh_qi0 == (void *)QI)
__CPROVER_requires((gh_RK >= gh_n_resume && gh_RK - gh_n_resume < CNT(spt)) ==> (gh_Hr == H(spt, gh_RK - gh_n_resume) && gh_Hr != 0))
PRES_E2E_COUNT_PRE(spt)
__CPROVER_assigns(MODEL_ASSIGNS, QI, *TLS_GUARD, spt->_count_flag, gh_frees, THR_MODEL_ASSIGNS, __CPROVER_object_whole(&gh_tls_saved))
__CPROVER_frees(HEAP(spt): EXTP(spt)->_handles)
__CPROVER_ensures(cv_exc_pending == 0)
__CPROVER_ensures((void *)QI == gh_qi0 && dq_head == __CPROVER_old(dq_head) && dq_tail == __CPROVER_old(dq_tail) && dq_npush == __CPROVER_old(dq_npush))   /* C05: the caller's mode and ready queue are untouched */
__CPROVER_ensures(CNT(spt) == 0 && ((gh_cf >> 1) > 0 ? spt->_count_flag == 0 : spt->_count_flag == gh_cf))   /* the caller's point is emptied: its destructor resumes nothing; an empty point is left alone */
__CPROVER_ensures(gh_frees == __CPROVER_old(gh_frees) + ((gh_cf >> 1) > 0 ? (gh_cf & 1) : 0) && gh_allocs == __CPROVER_old(gh_allocs))   /* block released exactly once, no copy */
__CPROVER_ensures(gh_n_resume >= gh_r0 + (gh_cf >> 1))                                         /* none dropped                                                              */
__CPROVER_ensures(gh_n_resume - gh_r0 == thm.n_resumes)                                        /* C05: every resumption happened on the spawned thread, none on the caller's stack */
__CPROVER_ensures((gh_cf >> 1) > 0 ==> (thm.n_created == 1 && thm.n_runs == 1 && thm.n_detach == 1 && thm.n_join == 0))
#ifndef CV_NO_ORDER
__CPROVER_ensures((gh_RK >= gh_r0 && gh_RK - gh_r0 < (gh_cf >> 1)) ==> gh_res_trk == gh_Hr)    /* position-wise: the k-th direct resumption is the k-th handle (each exactly once) */
#endif
PRES_E2E_COUNT_POST
;
#endif
