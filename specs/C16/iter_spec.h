/* C16 - iterator / range-for access of a subscriber (publisher.h: subscriber<T>::begin() / end(), iterator.h: generator_iterator<subscriber<T>>).
 * Clause (property statement): a subscriber "observes a contiguous, duplicate-free, in-order run ... up to its first end-of-stream indication".
 * The range-for style must observe EXACTLY the run that `while (sub.next()) use(sub.value())` observes: every member is a forwarder onto
 * the blocking next() (next_awt::operator bool(), units awt_bool / proto_blocking__*) and value() (unit sub_value):
 *   begin()        exactly one next(); the iterator remembers its result          end()      no next(); the "finished" marker
 *   operator++     exactly one next() on the iterator's subscriber                operator* / -> the subscriber's current value (no next())
 *   a != end()     true iff the last next() returned true (same subscriber)
 * so no value is fetched twice, none is skipped, and next() is never called again after it reported end-of-stream (the protocol precondition of
 * the next() units; in the skipping modes end-of-stream is not sticky - see META level_note).
 * Abstract callee: next_awt::operator bool() - logs the call (forwarder units) / produces an arbitrary run (range-for unit). */
#define C_NEXT 40
#define ITG(it)  ((it)->_gen)
#define ITN(it)  (*(cv_i8 *)&(it)->_next)
#ifdef CV_HAS_st_awt_bool
#ifndef C16_RANGE_FOR
cv_i1 st_awt_bool(NAWT *a) {
#ifdef C16_NEXT_HAVOCS_VALUE                       /* unit it_postinc: next() replaces the subscriber's current value (so "value first, then next()" is observable) */
  SVAL(NOWNER(a)) = (cv_i32)nondet_unsigned();
#endif
  return (cv_i1)(c16_log(C_NEXT, NOWNER(a), 0, 0) & 1); }
#else
/* an arbitrary run: each call decides arbitrarily between "next value" (an arbitrary value lands in the subscriber) and end-of-stream.
 * gh_it_k = ONE arbitrary-but-fixed index into the run (ghost-index idiom), gh_it_kval = the value delivered by the gh_it_k-th successful next() */
cv_i64 gh_nx_calls, gh_nx_true, gh_it_k; cv_i8 gh_nx_last; cv_i32 gh_it_kval; SUBT *gh_it_sub;
cv_i1 st_awt_bool(NAWT *a) {
  SUBT *s = NOWNER(a);
  __CPROVER_assert(s == gh_it_sub, "range-for: next() is called on the subscriber iterated over");
  __CPROVER_assert(gh_nx_calls == 0 || gh_nx_last == 1, "range-for: next() is not called again after it reported end-of-stream");
  __CPROVER_assume(gh_nx_calls < (1ul << 40));
  s = gh_it_sub;                                   /* re-anchor on the real object (a pointer havocked by a loop contract carries no value set) */
  cv_i1 r = (cv_i1)(nondet_unsigned() & 1);
#ifdef CV_BOUNDED_FALLBACK
  if (gh_nx_true >= 3) r = 0;                      /* bounded sibling: runs of <= 3 values */
#endif
  gh_nx_calls++; gh_nx_last = r;
  if (r) { cv_i32 v = (cv_i32)nondet_unsigned(); SVAL(s) = v; SENG(s) = 1; if (gh_nx_true == gh_it_k) gh_it_kval = v; gh_nx_true++; }
  else SENG(s) = 0;
  return r; }
#endif
#endif
#define IT_PRE(it) (__CPROVER_is_fresh(it, sizeof(*(it))) && ITN(it) <= 1)

/* ---- subscriber<int>::begin(): fetches the first item (one blocking next()), the iterator stands on it / is the end marker if there is none */
#ifdef CV_HAS_sub_begin
__typeof__(sub_begin((SUBT *)0)) sub_begin(SUBT *this_)
__CPROVER_requires(SUB_PRE) __CPROVER_assigns(LOG_ASSIGNS)
__CPROVER_ensures(cv_exc_pending == 0 && gh_log_n == 1 && LOGGED(0, C_NEXT, this_, 0, 0))                       /* exactly one next(), on this subscriber */
__CPROVER_ensures(__CPROVER_return_value.f0 == this_ && __CPROVER_return_value.f1 == (gh_log_ret[0] & 1))   /* remembers whether an item is there */
;
void h_sub_begin(void) { HSUB; sub_begin(s); __CPROVER_assert(0, "SENTINEL reachable"); }
#endif
/* ---- subscriber<int>::end(): the marker "next() returned false"; touches nothing */
#ifdef CV_HAS_sub_end
__typeof__(sub_end((SUBT *)0)) sub_end(SUBT *this_)
__CPROVER_requires(SUB_PRE) __CPROVER_assigns(LOG_ASSIGNS)
__CPROVER_ensures(cv_exc_pending == 0 && gh_log_n == 0)                                                          /* no next(): end() must not consume an item */
__CPROVER_ensures(__CPROVER_return_value.f0 == this_ && __CPROVER_return_value.f1 == 0)
;
void h_sub_end(void) { HSUB; sub_end(s); __CPROVER_assert(0, "SENTINEL reachable"); }
#endif
/* ---- operator++(): exactly one next() on the iterator's subscriber; result remembered; returns itself */
#ifdef CV_HAS_it_inc
GIT *it_inc(GIT *this_)
__CPROVER_requires(SUB_PRE && IT_PRE(this_)) __CPROVER_assigns(LOG_ASSIGNS, this_->_next)
__CPROVER_ensures(cv_exc_pending == 0 && gh_log_n == 1 && LOGGED(0, C_NEXT, ITG(this_), 0, 0))
__CPROVER_ensures(ITG(this_) == __CPROVER_old(ITG(this_)) && ITN(this_) == (gh_log_ret[0] & 1) && __CPROVER_return_value == this_)
;
void h_it_inc(void) { HSUB; GIT *it; it_inc(it); __CPROVER_assert(0, "SENTINEL reachable"); }
#endif
/* ---- operator++(int): hands out the current value (moved into the returned storage), then exactly one next() */
#ifdef CV_HAS_it_postinc
cv_i32 it_postinc(GIT *this_, cv_i32 dummy)
__CPROVER_requires(SUB_PRE && IT_PRE(this_) && __CPROVER_is_fresh(ITG(this_), sizeof(SUBT))) __CPROVER_assigns(LOG_ASSIGNS, this_->_next, __CPROVER_object_whole(ITG(this_)))
__CPROVER_ensures(cv_exc_pending == 0 && gh_log_n == 1 && LOGGED(0, C_NEXT, ITG(this_), 0, 0))
__CPROVER_ensures(ITG(this_) == __CPROVER_old(ITG(this_)) && ITN(this_) == (gh_log_ret[0] & 1))
__CPROVER_ensures(__CPROVER_return_value == __CPROVER_old(SVAL(ITG(this_))))                                     /* the value the subscriber held BEFORE the step */
;
void h_it_postinc(void) { HSUB; GIT *it; it_postinc(it, 0); __CPROVER_assert(0, "SENTINEL reachable"); }
#endif
/* ---- operator*() / operator->(): the subscriber's current value object (what value() returns); no next() */
#ifdef CV_HAS_it_deref
cv_i32 *it_deref(GIT *this_)
__CPROVER_requires(SUB_PRE && IT_PRE(this_)) __CPROVER_assigns()
__CPROVER_ensures(cv_exc_pending == 0 && gh_log_n == 0 && __CPROVER_return_value == &SVAL(ITG(this_)))
;
void h_it_deref(void) { HSUB; GIT *it; it_deref(it); __CPROVER_assert(0, "SENTINEL reachable"); }
#endif
#ifdef CV_HAS_it_arrow
cv_i32 *it_arrow(GIT *this_)
__CPROVER_requires(SUB_PRE && IT_PRE(this_)) __CPROVER_assigns()
__CPROVER_ensures(cv_exc_pending == 0 && gh_log_n == 0 && __CPROVER_return_value == &SVAL(ITG(this_)))
;
void h_it_arrow(void) { HSUB; GIT *it; it_arrow(it); __CPROVER_assert(0, "SENTINEL reachable"); }
#endif
/* ---- comparison: equal iff same subscriber and same "item there" flag; hence `it != sub.end()` <=> the last next() returned true */
#ifdef CV_HAS_it_eq
cv_i1 it_eq(GIT *this_, GIT *other)
__CPROVER_requires(SUB_PRE && IT_PRE(this_) && IT_PRE(other)) __CPROVER_assigns()
__CPROVER_ensures(cv_exc_pending == 0 && gh_log_n == 0 && __CPROVER_return_value == ((ITG(this_) == ITG(other) && ITN(this_) == ITN(other)) ? 1 : 0))
;
void h_it_eq(void) { HSUB; GIT *a, *b; it_eq(a, b); __CPROVER_assert(0, "SENTINEL reachable"); }
#endif
#ifdef CV_HAS_it_ne
cv_i1 it_ne(GIT *this_, GIT *other)
__CPROVER_requires(SUB_PRE && IT_PRE(this_) && IT_PRE(other)) __CPROVER_assigns()
__CPROVER_ensures(cv_exc_pending == 0 && gh_log_n == 0 && __CPROVER_return_value == ((ITG(this_) == ITG(other) && ITN(this_) == ITN(other)) ? 0 : 1))
__CPROVER_ensures((ITG(this_) == ITG(other) && ITN(other) == 0) ==> __CPROVER_return_value == ITN(this_))      /* it != end(): "an item is there" */
;
void h_it_ne(void) { HSUB; GIT *a, *b; it_ne(a, b); __CPROVER_assert(0, "SENTINEL reachable"); }
#endif

/* ---- the range-for loop as a whole (client code of the driver: `for (int &v : sub) sink(&v);`) over the REAL begin / end / != / * / ++ with an
 *      arbitrary run produced by next(): the loop body sees exactly the values of the successful next() calls, in order, each once (ghost index
 *      gh_it_k), and the loop ends at the first end-of-stream, after which next() is not called again. */
#ifdef CV_HAS_range_for
cv_i64 gh_sink_calls; cv_i8 gh_sink_k_ok;
void cvx_c16_sink(cv_i32 *v) {
  __CPROVER_assert(gh_nx_last == 1 && gh_sink_calls + 1 == gh_nx_true, "range-for: the body runs once per successful next(), before the following next()");
  __CPROVER_assert(v == &SVAL(gh_it_sub), "range-for: the body is handed the subscriber's current value object (value())");
  if (gh_sink_calls == gh_it_k) gh_sink_k_ok = (SVAL(gh_it_sub) == gh_it_kval) ? 1 : 0;      /* *v, read through the real object */
  gh_sink_calls++; }
#define RF_BEGIN __begin1__mem
#define RF_END __end1__mem
#ifndef CV_BOUNDED_FALLBACK
#define CV_LOOP_drv_sub_range_for_0 \
  __CPROVER_assigns(CV_LOOP_LOCALS_drv_sub_range_for_0, gh_nx_calls, gh_nx_true, gh_nx_last, gh_it_kval, gh_sink_calls, gh_sink_k_ok, __CPROVER_object_whole(gh_it_sub)) \
  __CPROVER_loop_invariant(cv_exc_pending == 0 && gh_nx_last <= 1 && gh_nx_calls >= 1 && gh_nx_calls < (1ul << 41) && gh_nx_true + (gh_nx_last ? 0 : 1) == gh_nx_calls && gh_sink_calls + (gh_nx_last ? 1 : 0) == gh_nx_true) \
  __CPROVER_loop_invariant(RF_BEGIN._gen == gh_it_sub && RF_END._gen == gh_it_sub && *(cv_i8 *)&RF_BEGIN._next == gh_nx_last && *(cv_i8 *)&RF_END._next == 0) \
  __CPROVER_loop_invariant(SQ(gh_it_sub) == ps_q) \
  __CPROVER_loop_invariant(gh_sink_calls > gh_it_k ==> gh_sink_k_ok == 1) \
  __CPROVER_loop_invariant((gh_nx_true > gh_it_k && gh_sink_calls == gh_it_k) ==> (gh_nx_last == 1 && SVAL(gh_it_sub) == gh_it_kval))
#endif
void range_for(SUBT *s)
__CPROVER_requires(cv_exc_pending == 0 && FREE_LOCK && s == gh_it_sub && gh_nx_calls == 0 && gh_nx_true == 0 && gh_sink_calls == 0 && gh_sink_k_ok == 0 && gh_nx_last == 0)
#ifdef CV_BOUNDED_FALLBACK
__CPROVER_requires(gh_it_k < 3)
#endif
__CPROVER_assigns(gh_nx_calls, gh_nx_true, gh_nx_last, gh_it_kval, gh_sink_calls, gh_sink_k_ok, __CPROVER_object_whole(s))
__CPROVER_ensures(cv_exc_pending == 0 && gh_nx_last == 0)                                       /* runs up to the first end-of-stream ...                      */
__CPROVER_ensures(gh_nx_calls == gh_nx_true + 1 && gh_sink_calls == gh_nx_true)                 /* ... one body run per delivered value, none skipped          */
__CPROVER_ensures(gh_sink_calls > gh_it_k ==> gh_sink_k_ok == 1)                                /* the k-th body run saw the k-th delivered value (every k)     */
;
void h_range_for(void) { HSUB; gh_it_sub = s; range_for(s); __CPROVER_assert(0, "SENTINEL reachable"); }
#endif
