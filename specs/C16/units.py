# C16 - Publisher: subscribers see a gap-free, ordered, duplicate-free stream (src/cocls/publisher.h)
import os
Q = r'cocls::publisher<int>::queue'
SUBREG_T = 'cocls::publisher<int>::queue::subreg_t'
RGV_T = 'std::vector<%s, std::allocator<%s> >' % (SUBREG_T, SUBREG_T)
WBV_T = 'std::vector<cocls::awaiter *, std::allocator<cocls::awaiter *> >'
TYPES = {
    'QT': 'cocls::publisher<int>::queue', 'SUBREG': SUBREG_T, 'RGV': RGV_T, 'RGIT': '__gnu_cxx::__normal_iterator<%s *, %s >' % (SUBREG_T, RGV_T),
    'DQI': 'std::deque<int, std::allocator<int> >', 'WBV': WBV_T, 'WBIT': '__gnu_cxx::__normal_iterator<cocls::awaiter **, %s >' % WBV_T,
    'AWT': 'cocls::awaiter', 'SPT': 'cocls::suspend_point<void>', 'SUBT': 'cocls::subscriber<int>', 'ULK': 'std::unique_lock<std::mutex>',
}
# std containers, resume and the returned suspend point are never translated: assumed-contract models in lib/model_pubsub.c
BOUNDARY = [r'^std::vector<cocls::publisher<int>::queue::subreg_t', r'^std::deque<int, std::allocator<int> >::', r'^std::vector<cocls::awaiter\*', r'^cocls::awaiter::resume\(',
            r'^cocls::suspend_point<void>::~suspend_point', r'__normal_iterator<cocls::', r'std::copy<int const\*, std::front_insert_iterator', r'^void std::swap<cocls::awaiter\*']
LIBS = ['rt_core.c', 'rt_atomic_seq.c', 'model_mutex.c', 'model_pubsub.c', 'model_pubsub_dpos.c']   # _dpos: operator[] of the deque model notes the stream position of the element handed out
HOOK_LOCK = 'CV_ON_LOCK(m) { extern void c16_on_lock(void *); c16_on_lock((void *)(m)); }'
HOOK_UNLOCK = 'CV_ON_UNLOCK(m) { extern void c16_on_unlock(void *); c16_on_unlock((void *)(m)); }'
HOOK_REG = 'PS_ON_REG_OTHER(i) { extern void c16_reg_other(cv_i64); c16_reg_other(i); }'
def rx(sig): return '^' + ''.join('\\' + c if c in '()*&[]{}+?.|' else c for c in sig) + '$'
def unit(name, alias, sig, extra_names=None, extra_boundary=(), defines=(), spec=None, extra_roots=(), hooks=True, **kw):
    r = rx(sig)
    nm = {alias: r}; nm.update(extra_names or {})
    d = dict(name=name, driver='c16_pub.cpp', roots=[r] + list(extra_roots), names=nm, types=TYPES, boundary=BOUNDARY + list(extra_boundary), lib=LIBS,
             spec=spec or ['C16/ps_spec.h', 'C16/qw_spec.h', 'C16/h_ps.c'], harness='h_' + name, enforce=alias, defines=[HOOK_REG] + ([HOOK_LOCK, HOOK_UNLOCK] if hooks else []) + list(defines),
             under_contract=[sig], timeout=600)
    d.update(kw)
    return d
QS = 'cocls::publisher<int>::queue::'
MIN_IL_RX = r'^unsigned long std::min<unsigned long>\(std::initializer_list<unsigned long>\)$'
KICK_PRED_RX = r'^cocls::publisher<int>::queue::kick_lk\(.*lambda.*::operator\(\)'
SUBP = 'cocls::subscriber<int> const*'
UNITS = [
    unit('subscribe_lk_pos', 'q_subscribe_lk_pos', QS + 'subscribe_lk(%s, unsigned long)' % SUBP),
    unit('subscribe_lk_recent', 'q_subscribe_lk_recent', QS + 'subscribe_lk(%s)' % SUBP),
    unit('subscribe_lk_copy', 'q_subscribe_lk_copy', QS + 'subscribe_lk(unsigned long, %s)' % SUBP),
    unit('leave_lk', 'q_leave_lk', QS + 'leave_lk(unsigned long)'),
    unit('advance_lk', 'q_advance_lk', QS + 'advance_lk(unsigned long, cocls::subscribtion_type)'),
    unit('advance_suspend_lk', 'q_advance_suspend_lk', QS + 'advance_suspend_lk(unsigned long, cocls::awaiter*)'),
    unit('get_value_lk', 'q_get_value_lk', QS + 'get_value_lk(unsigned long, cocls::subscribtion_type)'),
    unit('push_lk', 'q_push_lk', QS + 'push_lk(std::unique_lock<std::mutex>&, unsigned long)', loop_contracts=True, defines=['C16_UNLOCK_PUSH 1', 'PS_LOCKCHECK_WB_ITER 1'],
         extra_boundary=[MIN_IL_RX],
         extra_names={'std_min_il': MIN_IL_RX}),
    # bounded sibling: the same contract with the two loops unwound (<= 3 registrations) - decides a rewritten loop, for which the loop
    # invariants (which name range-for temporaries) cannot be used
    dict(unit('push_lk', 'q_push_lk', QS + 'push_lk(std::unique_lock<std::mutex>&, unsigned long)', loop_contracts=False, defines=['C16_UNLOCK_PUSH 1', 'CV_BOUNDED_FALLBACK 1', 'PS_LOCKCHECK_WB_ITER 1'],
         extra_boundary=[MIN_IL_RX], extra_names={'std_min_il': MIN_IL_RX}, kind='bounded', unwind=6, object_bits=9, timeout=600,
         bounded='<= 3 registered subscribers; loops unwound instead of loop contracts'), name='push_lk_bounded'),
    unit('kick_lk', 'q_kick_lk', QS + 'kick_lk(%s, std::unique_lock<std::mutex>&)' % SUBP, extra_boundary=[r'std::find_if<'], extra_roots=[KICK_PRED_RX],
         extra_names={'kick_pred': KICK_PRED_RX, 'kick_find_if': r'std::find_if<.*kick_lk'}),
]
# ---- bounded stand-in for the list-shaped free-list invariant
def freelist(tier, ops, slots):
    return dict(unit('freelist_bounded_' + tier, 'q_subscribe_lk_pos', QS + 'subscribe_lk(%s, unsigned long)' % SUBP, extra_roots=[rx(QS + 'leave_lk(unsigned long)')],
                     extra_names={'q_leave_lk': rx(QS + 'leave_lk(unsigned long)')}, hooks=False, defines=['PS_ARRAY_REGS %d' % slots, 'C16_FREELIST_BOUNDED %d' % ops]),
                harness='h_freelist_bounded', enforce=None, unwind=max(ops, slots) + 2, kind='bounded', tiers=[tier], object_bits=10,
                bounded='every sequence of <= %d subscribe_lk/leave_lk operations from the empty queue with <= %d registration slots (array-backed vector, all slots real): free list = simple path through exactly the unused slots' % (ops, slots),
                under_contract=['free-list shape invariant behind the ghost-index contracts of subscribe_lk / leave_lk'])
UNITS += [freelist('quick', 6, 4), freelist('thorough', 9, 5)]
# ---- locked wrappers of the queue: forwarders over an abstract `_lk` callee
def fwd(name, alias, sig, callee_alias, callee_sig, **kw):
    c = rx(callee_sig)
    return unit(name, alias, sig, names_opt={callee_alias: c}, extra_boundary=[c], hooks=False, **kw)   # names_opt: a wrapper that stops calling its callee fails a postcondition, not the extraction
LOCKCHK_POS = []      # position() is a locked accessor since /repo f804c1e: the lock-discipline obligation is always on
PUSH_LK_SIG = QS + 'push_lk(std::unique_lock<std::mutex>&, unsigned long)'
UNITS += [
    fwd('q_subscribe_pos', 'qw_subscribe_pos', QS + 'subscribe(%s, unsigned long)' % SUBP, 'fw_subscribe_lk_pos', QS + 'subscribe_lk(%s, unsigned long)' % SUBP),
    fwd('q_subscribe_recent', 'qw_subscribe_recent', QS + 'subscribe(%s)' % SUBP, 'fw_subscribe_lk_recent', QS + 'subscribe_lk(%s)' % SUBP),
    fwd('q_subscribe_copy', 'qw_subscribe_copy', QS + 'subscribe(unsigned long, %s)' % SUBP, 'fw_subscribe_lk_copy', QS + 'subscribe_lk(unsigned long, %s)' % SUBP),
    fwd('q_advance', 'qw_advance', QS + 'advance(unsigned long, cocls::subscribtion_type)', 'fw_advance_lk', QS + 'advance_lk(unsigned long, cocls::subscribtion_type)'),
    fwd('q_advance_suspend', 'qw_advance_suspend', QS + 'advance_suspend(unsigned long, cocls::awaiter*)', 'fw_advance_suspend_lk', QS + 'advance_suspend_lk(unsigned long, cocls::awaiter*)'),
    fwd('q_leave', 'qw_leave', QS + 'leave(unsigned long)', 'fw_leave_lk', QS + 'leave_lk(unsigned long)'),
    fwd('q_get_value', 'qw_get_value', QS + 'get_value(unsigned long, cocls::subscribtion_type)', 'fw_get_value_lk', QS + 'get_value_lk(unsigned long, cocls::subscribtion_type)'),
    fwd('q_kick', 'qw_kick', QS + 'kick(%s)' % SUBP, 'fw_kick_lk', QS + 'kick_lk(%s, std::unique_lock<std::mutex>&)' % SUBP),
    unit('q_position', 'qw_position', QS + 'position(unsigned long)', hooks=False, defines=LOCKCHK_POS),
    fwd('q_push_move', 'qw_push_move', QS + 'push(int&&)', 'fw_push_lk', PUSH_LK_SIG),
    fwd('q_push_copy', 'qw_push_copy', QS + 'push(int const&)', 'fw_push_lk', PUSH_LK_SIG),
    fwd('q_push_range', 'qw_push_range', 'void ' + QS + 'push<int const*&>(int const*&, int const*&)', 'fw_push_lk', PUSH_LK_SIG),
    fwd('q_close', 'qw_close', QS + 'close()', 'fw_push_lk', PUSH_LK_SIG),
]
SHQ_T = 'std::shared_ptr<cocls::publisher<int>::queue>'
TYPES2 = dict(TYPES, SHQ=SHQ_T, NAWT='cocls::subscriber<int>::next_awt', COAW='cocls::co_awaiter<cocls::subscriber<int> >', ATOMB='std::atomic<bool>')
# ---- the co_await protocol as one unit, rely at every lock acquisition
SUBS = 'cocls::subscriber<int>::'
PARKED = 'C16_PARKED_FLAG gh_parked'
PROTO_NAMES = {'sub_ready': rx(SUBS + 'ready()'), 'sub_subscribe': rx(SUBS + 'subscribe(cocls::awaiter*)'), 'sub_check_next': rx(SUBS + 'check_next()')}
def proto(name, fn, names, mode_pre, under, xtypes=False, xboundary=(), **kw):
    return dict(name=name, driver='c16_pub.cpp', roots=list(names.values()), names=names, types=TYPES2 if xtypes else TYPES, boundary=BOUNDARY + list(xboundary), lib=LIBS,
                spec=['C16/ps_spec.h', 'C16/proto_spec.h'], harness='h_' + name.split('__')[0], enforce=fn, kind='protocol',
                defines=[HOOK_REG, HOOK_LOCK, HOOK_UNLOCK, PARKED, 'C16_MODE_PRE(t) (%s)' % mode_pre], under_contract=under, timeout=900, **kw)
AWAITED_UNDER = [SUBS + 'ready()', SUBS + 'subscribe(cocls::awaiter*)', SUBS + 'check_next()', 'co_await protocol ready -> subscribe -> check_next with rely']
UNITS += [
    proto('proto_awaited__all_values', 'c16_next_awaited', PROTO_NAMES, '(t) == 0', AWAITED_UNDER),
    proto('proto_awaited__skip', 'c16_next_awaited', PROTO_NAMES, '(t) == 1 || (t) == 2', AWAITED_UNDER),
    dict(proto('lemma_history', 'c16_next_awaited', PROTO_NAMES, '(t) == 0', ['L: history lemma over the contract of one next() (all_values)']), harness='h_lemma_history', enforce=None,
         replace=['c16_next_awaited'], loop_contracts=True, kind='lemma', defines=[HOOK_REG, HOOK_LOCK, HOOK_UNLOCK, PARKED, 'C16_MODE_PRE(t) ((t) == 0)', 'C16_LEMMA_HISTORY 1']),
    dict(proto('lemma_skip_forward', 'c16_next_awaited', PROTO_NAMES, '(t) == 1 || (t) == 2', ['L-skip: history lemma over the contract of one next() (skipping modes): delivered positions strictly increase']), harness='h_lemma_skip_forward', enforce=None,
         replace=['c16_next_awaited'], loop_contracts=True, kind='lemma', defines=[HOOK_REG, HOOK_LOCK, HOOK_UNLOCK, PARKED, 'C16_MODE_PRE(t) ((t) == 1 || (t) == 2)', 'C16_LEMMA_SKIP 1']),
    proto('proto_polled__all_values', 'c16_next_polled', {'sub_next_ready': rx(SUBS + 'next_ready()')}, '(t) == 0', [SUBS + 'next_ready()']),
    proto('proto_blocking__all_values', 'c16_next_blocking', {'awt_bool_real': rx(SUBS + 'next_awt::operator bool()')}, '(t) == 0', [SUBS + 'next_awt::operator bool()', 'blocking protocol with rely'],
          xtypes=True, xboundary=[r'^std::atomic<bool>::wait\(', r'^std::atomic<bool>::notify_all'], names_opt={'st_atomic_wait': r'^std::atomic<bool>::wait\(bool, std::memory_order\) const$'}),
    proto('proto_blocking__skip', 'c16_next_blocking', {'awt_bool_real': rx(SUBS + 'next_awt::operator bool()')}, '(t) == 1 || (t) == 2', [SUBS + 'next_awt::operator bool()', 'blocking protocol with rely'],
          xtypes=True, xboundary=[r'^std::atomic<bool>::wait\(', r'^std::atomic<bool>::notify_all'], names_opt={'st_atomic_wait': r'^std::atomic<bool>::wait\(bool, std::memory_order\) const$'}),
    proto('proto_polled__skip', 'c16_next_polled', {'sub_next_ready': rx(SUBS + 'next_ready()')}, '(t) == 1 || (t) == 2', [SUBS + 'next_ready()']),
]
# ---- publisher<int> / subscriber<int> / next_awt members: forwarders over the queue's locking members (abstract callees that log)
STUBS = {
    'st_q_subscribe_pos': rx(QS + 'subscribe(%s, unsigned long)' % SUBP), 'st_q_subscribe_recent': rx(QS + 'subscribe(%s)' % SUBP),
    'st_q_subscribe_copy': rx(QS + 'subscribe(unsigned long, %s)' % SUBP), 'st_q_advance': rx(QS + 'advance(unsigned long, cocls::subscribtion_type)'),
    'st_q_advance_suspend': rx(QS + 'advance_suspend(unsigned long, cocls::awaiter*)'), 'st_q_leave': rx(QS + 'leave(unsigned long)'),
    'st_q_get_value': rx(QS + 'get_value(unsigned long, cocls::subscribtion_type)'), 'st_q_push_move': rx(QS + 'push(int&&)'), 'st_q_push_copy': rx(QS + 'push(int const&)'),
    'st_q_push_range': rx('void ' + QS + 'push<int const*&>(int const*&, int const*&)'), 'st_q_close': rx(QS + 'close()'), 'st_q_kick': rx(QS + 'kick(%s)' % SUBP),
    'st_q_position': rx(QS + 'position(unsigned long)'),
    'st_shq_copy': rx(SHQ_T + '::shared_ptr(' + SHQ_T + ' const&)'), 'st_shq_dtor': rx(SHQ_T + '::~shared_ptr()'),
}
SUB_STUBS = {'st_sub_ready': rx(SUBS + 'ready()'), 'st_sub_subscribe': rx(SUBS + 'subscribe(cocls::awaiter*)'), 'st_sub_check_next': rx(SUBS + 'check_next()'),
             'st_atomic_wait': r'^std::atomic<bool>::wait\(bool, std::memory_order\) const$', 'sync_wakeup': r'^cocls::sync_awaiter::wakeup\(cocls::awaiter\*, void\*\)$'}
def member(name, alias, sig, stubs=STUBS, **kw):
    r = sig if sig.startswith('^') else rx(sig)
    bnd = [v for k, v in stubs.items() if k.startswith('st_')] + [r'^std::atomic<bool>::notify_all']
    return dict(name=name, driver='c16_pub.cpp', roots=[r], names={alias: r}, names_opt=stubs, types=TYPES2, boundary=bnd, lib=LIBS, spec=['C16/ps_spec.h', 'C16/sub_spec.h'],
                harness='h_' + name, enforce=alias, defines=[HOOK_REG], under_contract=[sig.strip('^$').replace('\\', '')], timeout=600, kind='forwarder', **kw)
PUBS = 'cocls::publisher<int>::'
AWS = 'cocls::co_awaiter<cocls::subscriber<int> >::'
UNITS += [
    member('pub_publish_move', 'pub_publish_move', r'^decltype .*cocls::publisher<int>::publish<int>\(int&&\)$'),
    member('pub_publish_copy', 'pub_publish_copy', r'^decltype .*cocls::publisher<int>::publish<int const&>\(int const&\)$'),
    member('pub_publish_range', 'pub_publish_range', 'void ' + PUBS + 'publish<int const*&>(int const*&, int const*&)'),
    member('pub_close', 'pub_close', PUBS + 'close()'),
    member('pub_kick', 'pub_kick', PUBS + 'kick(%s)' % SUBP),
    member('pub_dtor', 'pub_dtor', PUBS + '~publisher()'),
    member('sub_ctor', 'sub_ctor', SUBS + 'subscriber(cocls::publisher<int>&, cocls::subscribtion_type)'),
    member('sub_ctor_pos', 'sub_ctor_pos', SUBS + 'subscriber(cocls::publisher<int>&, unsigned long, cocls::subscribtion_type)'),
    member('sub_copy', 'sub_copy', SUBS + 'subscriber(cocls::subscriber<int> const&)'),
    member('sub_dtor', 'sub_dtor', SUBS + '~subscriber()'),
    member('sub_ready', 'subm_ready', SUBS + 'ready()'),
    member('sub_subscribe', 'subm_subscribe', SUBS + 'subscribe(cocls::awaiter*)'),
    member('sub_check_next', 'subm_check_next', SUBS + 'check_next()'),
    member('sub_position', 'subm_position', SUBS + 'position() const'),
    member('sub_kick_me', 'subm_kick_me', SUBS + 'kick_me()'),
    member('sub_value', 'subm_value', SUBS + 'value()'),
    member('sub_next_ready', 'subm_next_ready', SUBS + 'next_ready()', stubs=SUB_STUBS),
    member('awt_ready', 'awt_ready', AWS + 'await_ready()', stubs=SUB_STUBS),
    member('awt_suspend', 'awt_suspend', AWS + 'await_suspend(std::__n4861::coroutine_handle<void>)', stubs=SUB_STUBS),
    member('awt_resume', 'awt_resume', SUBS + 'next_awt::await_resume()', stubs=SUB_STUBS),
    member('awt_bool', 'awt_bool', SUBS + 'next_awt::operator bool()', stubs=SUB_STUBS),
    member('awt_not', 'awt_not', SUBS + 'next_awt::operator!()', stubs=SUB_STUBS),
]

# ---- (W2) iterator / range-for access of a subscriber: forwarders onto the blocking next() (abstract callee next_awt::operator bool()) and value()
GIT_T = 'cocls::generator_iterator<cocls::subscriber<int> >'
ITS = GIT_T + '::'
TYPES3 = dict(TYPES2, GIT=GIT_T)
ITER_STUBS = {'st_awt_bool': rx(SUBS + 'next_awt::operator bool()'), 'st_shq_copy': STUBS['st_shq_copy'], 'st_shq_dtor': STUBS['st_shq_dtor']}
def iterm(name, sig, **kw):
    return dict(member(name, name, sig, stubs=ITER_STUBS), types=TYPES3, spec=['C16/ps_spec.h', 'C16/sub_spec.h', 'C16/iter_spec.h'], timeout=120, **kw)
UNITS += [
    iterm('sub_begin', SUBS + 'begin()'), iterm('sub_end', SUBS + 'end()'),
    iterm('it_inc', ITS + 'operator++()'), dict(iterm('it_postinc', ITS + 'operator++(int)'), defines=[HOOK_REG, 'C16_NEXT_HAVOCS_VALUE 1']),
    iterm('it_deref', ITS + 'operator*() const'), iterm('it_arrow', ITS + 'operator->() const'),
    iterm('it_eq', ITS + 'operator==(%s const&) const' % GIT_T), iterm('it_ne', ITS + 'operator!=(%s const&) const' % GIT_T),
]

# the range-for loop as a whole (client loop of the driver over the REAL begin/end/!=/*/++; next() produces an arbitrary run): loop contract + bounded sibling
def rangefor(name, **kw):
    d = iterm(name, '^drv_sub_range_for$', **kw)
    d['names'] = {'range_for': '^drv_sub_range_for$'}; d['enforce'] = 'range_for'; d['harness'] = 'h_range_for'
    d['under_contract'] = ['range-for over cocls::subscriber<int> (begin / end / operator!= / operator* / operator++ composed)']
    d['defines'] = d['defines'] + ['C16_RANGE_FOR 1'] + list(kw.get('defines', []))
    return d
UNITS += [rangefor('range_for', loop_contracts=True, kind='contract'),
          dict(rangefor('range_for_bounded', loop_contracts=False, unwind=5, kind='bounded', bounded='runs of <= 3 values before end-of-stream; loop unwound instead of the loop contract (whose invariant names the range-for temporaries)'),
               defines=[HOOK_REG, 'C16_RANGE_FOR 1', 'CV_BOUNDED_FALLBACK 1'])]

# ---- native replays of the two genuine defects (real headers, -fno-access-control; exit != 0 = the real code misbehaves)
RP_FLAGS = ['-fno-access-control', '-D_GLIBCXX_ASSERTIONS', '-g']
RP_CLOSE = dict(src='c16_close_race.cpp', mode='all_values', flags=RP_FLAGS)
RP_CLOSE_SKIP = dict(src='c16_close_race.cpp', mode='skip', flags=RP_FLAGS)
RP_BLOCK = dict(src='c16_blocking_next.cpp', mode='steps', flags=RP_FLAGS)
# audit D5 (skipping modes deliver a position twice) / D6 (copy of a parked subscriber): c16_skip_dup.cpp also runs the close-race (mode awaited_skip) and the
# blocking (mode blocking_skip) scenarios of the two older replays, so the skip protocol units keep their earlier native confirmation
def RP_DUP(mode): return dict(src='c16_skip_dup.cpp', mode=mode, flags=RP_FLAGS)
RP_COPY = dict(src='c16_copy_parked.cpp', mode='copy', flags=RP_FLAGS)
for _u in UNITS:
    if _u['name'] in ('advance_suspend_lk', 'proto_awaited__all_values'): _u['replay'] = RP_CLOSE
    elif _u['name'] == 'proto_awaited__skip': _u['replay'] = RP_DUP('awaited_skip')
    elif _u['name'] == 'proto_blocking__skip': _u['replay'] = RP_DUP('blocking_skip')
    elif _u['name'] == 'proto_polled__skip': _u['replay'] = RP_DUP('polled_skip')
    elif _u['name'] == 'get_value_lk': _u['replay'] = RP_DUP('get_value')
    elif _u['name'] in ('awt_bool', 'awt_not', 'proto_blocking__all_values'): _u['replay'] = RP_BLOCK
    elif _u['name'] == 'subscribe_lk_copy': _u['replay'] = RP_COPY
# ---- constructors of the queue: induction base of the invariant every other unit assumes (container default constructors: lib/model_pubsub_ctor.c)
CTOR_BOUNDARY = [r'^std::vector<cocls::publisher<int>::queue::subreg_t.*::vector\(\)$', r'^std::deque<int, std::allocator<int> >::deque\(\)$', r'^std::vector<cocls::awaiter\*.*::vector\(\)$']
def ctor(name, sig):
    return unit(name, name, sig, hooks=False, lib=LIBS + ['model_pubsub_ctor.c'], spec=['C16/ps_spec.h', 'C16/ctor_spec.h'], extra_boundary=CTOR_BOUNDARY, timeout=120)
UNITS += [ctor('q_ctor', QS + 'queue()'), ctor('q_ctor_mm', QS + 'queue(unsigned long, unsigned long)')]
# ---- (W2) publisher constructors (make_shared = assumed contract running the REAL queue constructor), queue::~queue(), and the destruction route as one unit
MK_RX = r'^std::shared_ptr<cocls::publisher<int>::queue> std::make_shared<cocls::publisher<int>::queue>\(\)$'
MK_MM_RX = r'^std::shared_ptr<cocls::publisher<int>::queue> std::make_shared<cocls::publisher<int>::queue, unsigned long&, unsigned long&>\(unsigned long&, unsigned long&\)$'
def pubctor(name, sig, qsig, qalias, mk_alias, mk_rx):
    return dict(name=name, driver='c16_pub.cpp', roots=[rx(sig), rx(qsig)], names={name: rx(sig), qalias: rx(qsig)}, names_opt={mk_alias: mk_rx}, types=TYPES2,
                boundary=BOUNDARY + CTOR_BOUNDARY + [mk_rx], lib=LIBS + ['model_pubsub_ctor.c'], spec=['C16/ps_spec.h', 'C16/sub_spec.h', 'C16/ctor_spec.h', 'C16/pubctor_spec.h'],
                harness='h_' + name, enforce=name, defines=[HOOK_REG], under_contract=[sig], timeout=120, kind='contract', cbmc_flags=['--sat-solver', 'cadical'])
UNITS += [
    pubctor('pub_ctor', PUBS + 'publisher()', QS + 'queue()', 'q_ctor', 'st_mk_q', MK_RX),
    pubctor('pub_ctor_mm', PUBS + 'publisher(unsigned long, unsigned long)', QS + 'queue(unsigned long, unsigned long)', 'q_ctor_mm', 'st_mk_q_mm', MK_MM_RX),
    dict(name='q_dtor', driver='c16_pub.cpp', roots=[rx(QS + '~queue()')], names={'q_dtor': rx(QS + '~queue()')}, types=TYPES2,
         boundary=BOUNDARY + [r'^std::vector<cocls::publisher<int>::queue::subreg_t.*::~vector\(\)$', r'^std::deque<int, std::allocator<int> >::~deque\(\)$'],
         lib=LIBS + ['model_pubsub_dtor.c'], spec=['C16/ps_spec.h', 'C16/sub_spec.h', 'C16/pubctor_spec.h'], harness='h_q_dtor', enforce='q_dtor', defines=[HOOK_REG],
         under_contract=[QS + '~queue()'], timeout=120, kind='contract'),
    dict(unit('pub_dtor_close', 'pubd_dtor', PUBS + '~publisher()', loop_contracts=True, extra_boundary=[MIN_IL_RX, STUBS['st_shq_dtor']],
              names_opt={'st_shq_dtor': STUBS['st_shq_dtor'], 'std_min_il': MIN_IL_RX, 'q_push_lk': rx(PUSH_LK_SIG)},   # names_opt: a destructor that stops closing fails a postcondition, not the extraction
              defines=['C16_UNLOCK_PUSH 1', 'C16_UNLOCK_PUSH_WHEN (gh_closed0 == 0 && gh_n_unlock_chk == 1)', 'PS_LOCKCHECK_WB_ITER 1'],
              spec=['C16/ps_spec.h', 'C16/sub_spec.h', 'C16/pubctor_spec.h']),
         types=TYPES2, harness='h_pub_dtor_close', timeout=600,
         under_contract=[PUBS + '~publisher()', QS + 'close()', PUSH_LK_SIG + ' [as called by close(): count 0]']),
]
META = dict(
    level='proof',
    level_text=('INDUCTION BASE: both constructors of publisher<int>::queue (units q_ctor, q_ctor_mm; container default constructors = assumed "empty" contracts of lib/model_pubsub_ctor.c) establish the queue invariant Q_INV and the entry state STATE_OK that every other unit requires - '
        'stream position 1, empty window numbered from 0, no registration slot, empty free list, empty wake-up buffer, not closed, exactly the configured min/max (default: unlimited / 1; queue(max,min) under its documented precondition min >= 1, max >= min). '
        'Every function of publisher<int>::queue that runs under the queue mutex (subscribe_lk x3, leave_lk, advance_lk, advance_suspend_lk, get_value_lk, push_lk incl. both '
        'loops, kick_lk) is verified against a contract whose clauses are taken from the property statement, over abstract models of the three std containers and an abstract stream '
        '(ghost-index idiom: ONE arbitrary stream position gh_P with value gh_sval, ONE arbitrary registration slot, ONE arbitrary awaiter - so every clause holds for all positions / '
        'subscribers / awaiters), for every stream position < 2^40, every window length, symbolic min/max (incl. unlimited), every number of registrations. Queue invariant (DESIGN C16) '
        'is an obligation at EVERY release of the mutex. push_lk: position advanced by exactly count, window retains what every registered subscriber needs up to max, min/max respected, '
        'every parked awaiter collected and resumed exactly once, outside the lock, nobody else resumed. The locked wrappers, push x3 / close, publisher<int> and subscriber<int> / next_awt '
        'members are verified as forwarders (right callee, once, under / not under the lock, right arguments and order, results stored and returned; push/close additionally re-establish the '
        'precondition of push_lk and define the ghost stream). Thread-modular part: the three forms of next() - co_await (ready -> subscribe -> check_next), blocking (operator bool: up to four '
        'critical sections) and polled (next_ready) - are each ONE unit running the real translated members down to the container models with a rely step at EVERY lock acquisition (stream '
        'grows, _closed / kicked become true, parked awaiter woken, window trimmed within the invariant); postcondition = position lemma for one next(): success = position + 1 and value '
        'gh_stream[new position]; end-of-stream only if kicked, closed and drained, or fallen more than max behind; skipping modes strictly forward IN THE POSITION OF THE VALUE DELIVERED (ghost gh_delivered_pos = which '
        'element of the retained window check_next() was handed, noted by the deque model - not the registration counter), the subscriber standing at that position afterwards; skip_to_recent = newest. History lemma L '
        '(unbounded number of next() calls, loop invariant over the contract of one next()): the k-th value received is the one published at subscription point + k + 1; L-skip: of any two values a skipping '
        'subscriber receives the later one sits at a strictly larger stream position. The hypothesis of both lemmas (SUBSCRIBER_ACTIVE, retention) is a postcondition of every subscribe_lk form; a copy starts at the '
        'last position DELIVERED to the original (a parked original is registered one past it - checked where a subscriber gets parked). '
        'PUBLISHER CONSTRUCTORS / DESTRUCTION ROUTE / ITERATOR ACCESS (added): publisher() and publisher(max, min) (units pub_ctor, pub_ctor_mm) run the REAL queue constructor inside an assumed-contract '
        'std::make_shared (one allocation, constructed in place with exactly the arguments given, one owner) and are verified against the induction base stated for the queue the new publisher refers to: open, nothing '
        'published, nobody registered, exactly the configured / default lengths in the right order. Unit pub_dtor_close puts the whole DESTRUCTION ROUTE under one contract - the real ~publisher(), queue::close() and '
        'push_lk (both loops under their loop contracts) down to the container models, from every state satisfying the queue invariant: the queue is closed afterwards; every awaiter parked in a registration is '
        'collected and resumed exactly once, outside the lock, nobody else is, nobody stays parked; destroying a publisher whose queue is already closed wakes nobody and trims nothing (closed exactly once); the '
        'stream position, the published values and - for every registered subscriber the window served - the retained items it still needs stay in place (a subscriber that outlives the publisher keeps reading up to '
        'the end and then gets end-of-stream: get_value_lk / proto_* with _closed set); the invariant holds at every release of the mutex and the obligations of push_lk at its own release are checked on this route too; '
        'the publisher\'s reference is dropped. queue::~queue() (unit q_dtor; runs in whoever drops the last reference) releases each container exactly once, resumes nobody and takes no lock. '
        'subscriber<int>::begin() / end() and generator_iterator<subscriber<int>>::operator++ / ++(int) / * / -> / == / != (units sub_begin, sub_end, it_*) are verified as forwarders onto the blocking next() '
        '(abstract callee next_awt::operator bool(), itself units awt_bool / proto_blocking__*) and value(): begin() = exactly one next(), end() = none, ++ = exactly one next() on the iterator\'s subscriber, '
        '* / -> = the subscriber\'s current value object, it != end() <=> the last next() returned true. Unit range_for (loop contract; bounded sibling range_for_bounded) runs a client range-for loop over these '
        'REAL members with next() producing an arbitrary run: the loop body is run exactly once per successful next(), before the following next(), on the subscriber\'s value object, the k-th body run sees the k-th '
        'delivered value (ghost index), the loop ends at the first end-of-stream and next() is never called again after it - the range-for style observes exactly the run that `while (next()) value()` observes.'),
    level_note=('AUDIT D (defects 3, 4 below; fix_skip_dup.diff, fix_copy_parked.diff): (3) get_value_lk hands a skipping subscriber the newest / oldest retained value without recording its position in the registration: '
        'the next next() delivers the same stream position again (clauses C16-delivered-position / C16-skip-forward; replay c16_skip_dup.cpp); (4) subscribe_lk(h, sub) copies the registration of a PARKED original, which stands '
        'one past its last delivered position: bogus end-of-stream / skipped item for the copy (clauses C16-copy-position / C16-copy-active; replay c16_copy_parked.cpp). Both had verified before because the clauses had been '
        'written over the registration counter, after the code. EARLIER: '
        'ON THE PINNED TREE two further genuine defects were found, each with failing obligations and a native replay; both are REPAIRED (/repo commits 67da217, 3994d78 = fix_close.diff, fix_blocking.diff): '
        '(1) advance_suspend_lk returns false on _closed without advancing -> after a close() between await_ready and await_suspend the consumed item is delivered again (all_values: duplicate; '
        'skipping modes: position not increased, and _q[0] / _q[size()-1] on an EMPTY deque when nothing was published); (2) the blocking form never calls check_next() once it really has to block '
        '(co_awaiter::wait() binds await_resume statically to the base class): published value lost, bogus end-of-stream, optional dereferenced while disengaged. '
        'Not proof-level: the free-list shape (list-shaped) is covered by a BOUNDED stand-in only; rely/guarantee soundness and the closure "rely = union of the other threads\' guarantees" are argued, '
        'not machine-checked (the guarantees are the frame clauses `h != gh_RH ==> T_SAME` of the _lk contracts plus the unlock obligations of push_lk / kick_lk). '
        'Reported, not an obligation in the default run: queue::position() reads _regs without the mutex (set C16_LOCKCHECK_POSITION=1 to turn the lock-discipline obligation on for unit q_position; '
        'TSan confirms the race against a reallocating subscribe). T = int only. Behaviour after the first end-of-stream is outside the property (and outside the preconditions) - NOTE: that exclusion hides real behaviour in the '
        'skipping modes, where end-of-stream is NOT sticky: after a closed-and-drained end-of-stream a further next() runs the registration past the stream (advance_lk: max(l._pos+1, ...)), get_value_lk no longer sees l._pos == _pos and '
        'hands out _q[0] (skip_to_recent) / the clamped _q[size()-1] (skip_if_behind) again - the last value is re-delivered after end-of-stream (confirmed natively: EOF, 2, 2, 2 ...; with fix_skip_dup.diff: EOF, 2, EOF, 2 ...); '
        'all_values and a kicked subscriber stay at end-of-stream. A caller that loops `while (next())` never sees it (nor does a range-for loop: unit range_for proves next() is not called after end-of-stream). '
        'pub_dtor_close is a SEQUENTIAL composition (no rely step between the two critical sections of push_lk on this route; the thread-modular reading of push_lk is unit push_lk). '
        'OBSERVATION (outside the property: its quantifier has no "copy a publisher"): publisher<T> declares a destructor but no copy / move members, so it is implicitly COPYABLE (and "moved" by copy); ~publisher() of ANY copy '
        'closes the queue the other copies still publish to - a subscriber blocked in next() gets end-of-stream while a publisher handle is alive (native: replay/c16_pub_copy_closes.cpp exits 3). '
        'generator_iterator::storage::operator* / operator-> (result of the postfix ++) do not compile (const member returning a non-const reference; already recorded under C13, replay/c13_iterator_storage_compile.cpp): '
        'unit it_postinc reads the returned storage\'s member directly.'),
    technique=('CBMC 6.11 code contracts (requires/ensures/assigns + loop contracts) enforced per function via goto-instrument --dfcc on the C translation (ir2c) of clang IR of the real publisher.h; '
        'assumed-contract models of std::deque<int>, std::vector<subreg_t>, std::vector<awaiter*>, std::find_if, std::min(initializer_list), std::copy(front_inserter), awaiter::resume; '
        'forwarder units with logging abstract callees; thread-modular rely step at lock acquisitions (CV_ON_LOCK hook), invariant obligations at lock releases (CV_ON_UNLOCK); history lemma with '
        'contract replacement + loop invariant; bounded unwinding stand-in for the free list'),
    trusted_base=[
        'lib/model_pubsub_ctor.c: default constructors of the three containers = empty (deque numbering starts at 0: the first element pushed gets id 1 = stream position 1)',
        'specs/C16/pubctor_spec.h: std::make_shared<queue>(args...) = one allocation + the REAL translated queue constructor with exactly these arguments, one owner (control block not modelled)',
        'lib/model_pubsub_dtor.c: destructors of std::deque<int> / std::vector<subreg_t> = release the storage, resume nobody (counted: each exactly once)',
        'specs/C16/iter_spec.h: next_awt::operator bool() as an abstract callee of the iterator units (logs the call / produces an arbitrary run of values ended by end-of-stream); the body of the range-for loop (c16_sink) = user code',
        'lib/model_pubsub.c: std::deque<int> as a window over absolute ids (push_front, operator[], size, resize that never grows, std::copy to a front_inserter); content tracked at one arbitrary id',
        'lib/model_pubsub_dpos.c: operator[] of the deque model notes the absolute id (= stream position) of the element it hands out (gh_dq_ref_id); the value a subscriber receives is the one read through that reference',
        'lib/model_pubsub.c: std::vector<subreg_t> with one arbitrary tracked slot; a reference to any OTHER slot yields arbitrary content constrained by instances of the unit invariant for "every other slot" '
        '(specs/C16/ps_spec.h c16_reg_other: slot invariant, free-list head is free, no free slot links to a used slot, no self-loop, live subscribers are distinct objects, an awaiter is registered at most once, '
        'a handle passed by a caller belongs to a registered subscriber); position-encoded iterators; the code never holds references to two different untracked slots at once (true of publisher.h, not checked)',
        'lib/model_pubsub.c: std::vector<awaiter*> abstracted w.r.t. one arbitrary awaiter (count / first index), lengths exact; awaiter::resume() = counting abstract callee returning an empty suspend point '
        '(what a resumed coroutine does is C05/C06; re-entrancy into the queue from a resumed party is covered by the rely at the next acquisition)',
        'specs/C16/ps_spec.h: std::find_if (first match; evaluated with the REAL translated lambda of kick_lk), std::min over an initializer_list of <= 3 elements',
        'lib/model_mutex.c: std::mutex via pthread_mutex_lock/unlock with lock-discipline obligations and the lock/unlock hooks',
        'specs/C16/ps_spec.h c16_rely: the rely relation (what other threads may do between two critical sections of this thread)',
        'std::shared_ptr<queue> copy/destroy = pointer copy + counter (control block / lifetime of the queue object not modelled); std::atomic<bool>::wait / notify_all of sync_awaiter = abstract (blocks until woken)',
    ],
    assumptions=[
        'a copy is taken from an original that is idle (between two next(), incl. between the lock-atomic steps of a running next(): that next() is then linearised before the copy) or parked in next(); an original that was kicked WHILE parked keeps standing one past its last delivered position with _awt cleared - not distinguishable in the state, its copy starts one position late (outside the contract)',
        'protocol preconditions: next() is not called again after end-of-stream was reported (see level_note: in the skipping modes end-of-stream is not sticky); one next() at a time per subscriber; a subscriber is not destroyed while its awaiter is parked; an awaiter is registered at most once; `sub` pointers of live subscribers are distinct',
        'explicit start position <= current stream position (DESIGN); the clause "end-of-stream only when fallen more than max behind" is stated for subscribers the window served at subscription (recent / by copy / explicit position still retained) - for an explicit position older than the window the weaker clause "needed position no longer retained" is proved',
        'wake-up assumption: a suspended coroutine / blocked thread continues only after its awaiter was resumed, and an awaiter parked in the queue is resumed only by push_lk (publish, close) or kick_lk - both proved to resume exactly the parked awaiters',
        'arithmetic: _pos < 2^40, registrations < 2^40, batch < 2^20 elements per call (stated preconditions); ghost numbering is mathematical',
        'rely/guarantee soundness (every interleaving of critical sections satisfies the invariant if each critical section preserves it and tolerates the rely) is the standard paper argument (DESIGN 3.5)',
        'free-list shape: bounded(6 operations / 4 slots quick, 9 / 5 thorough) only - see coverage.bounded',
        'queue::position() is exempt from the lock-discipline obligation in the default run (known unlocked read, reported)',
    ],
    explanation='see level_text / level_note')
