# C16 - Publisher: subscribers see a gap-free, ordered, duplicate-free stream (src/cocls/publisher.h)
import os
Q = r'cocls::publisher<int>::queue'
SUBREG_T = 'cocls::publisher<int>::queue::subreg_t'
RGV_T = 'std::vector<%s, std::allocator<%s> >' % (SUBREG_T, SUBREG_T)
WBV_T = 'std::vector<cocls::awaiter *, std::allocator<cocls::awaiter *> >'
TYPES = {
    'QT': 'cocls::publisher<int>::queue', 'SUBREG': SUBREG_T, 'RGV': RGV_T, 'RGIT': '__gnu_cxx::__normal_iterator<%s *, %s >' % (SUBREG_T, RGV_T),
    'DQI': 'std::deque<int, std::allocator<int> >', 'WBV': WBV_T, 'WBIT': '__gnu_cxx::__normal_iterator<cocls::awaiter **, %s >' % WBV_T,
    'AWT': 'cocls::awaiter', 'SPT': 'cocls::suspend_point<void>', 'SUBT': 'cocls::subscriber<int>', 'ULK': 'std::unique_lock<std::mutex>',
}
# std containers, resume and the returned suspend point are never translated: assumed-contract models in lib/model_pubsub.c
BOUNDARY = [r'^std::vector<cocls::publisher<int>::queue::subreg_t', r'^std::deque<int, std::allocator<int> >::', r'^std::vector<cocls::awaiter\*', r'^cocls::awaiter::resume\(',
            r'^cocls::suspend_point<void>::~suspend_point', r'__normal_iterator<cocls::', r'std::copy<int const\*, std::front_insert_iterator', r'^void std::swap<cocls::awaiter\*']
LIBS = ['rt_core.c', 'rt_atomic_seq.c', 'model_mutex.c', 'model_pubsub.c']
HOOK_LOCK = 'CV_ON_LOCK(m) { extern void c16_on_lock(void *); c16_on_lock((void *)(m)); }'
HOOK_UNLOCK = 'CV_ON_UNLOCK(m) { extern void c16_on_unlock(void *); c16_on_unlock((void *)(m)); }'
HOOK_REG = 'PS_ON_REG_OTHER(i) { extern void c16_reg_other(cv_i64); c16_reg_other(i); }'
def rx(sig): return '^' + ''.join('\\' + c if c in '()*&[]{}+?.|' else c for c in sig) + '$'
def unit(name, alias, sig, extra_names=None, extra_boundary=(), defines=(), spec=None, extra_roots=(), hooks=True, **kw):
    r = rx(sig)
    nm = {alias: r}; nm.update(extra_names or {})
    d = dict(name=name, driver='c16_pub.cpp', roots=[r] + list(extra_roots), names=nm, types=TYPES, boundary=BOUNDARY + list(extra_boundary), lib=LIBS,
             spec=spec or ['C16/ps_spec.h', 'C16/qw_spec.h', 'C16/h_ps.c'], harness='h_' + name, enforce=alias, defines=[HOOK_REG] + ([HOOK_LOCK, HOOK_UNLOCK] if hooks else []) + list(defines),
             under_contract=[sig], timeout=600)
    d.update(kw)
    return d
QS = 'cocls::publisher<int>::queue::'
MIN_IL_RX = r'^unsigned long std::min<unsigned long>\(std::initializer_list<unsigned long>\)$'
KICK_PRED_RX = r'^cocls::publisher<int>::queue::kick_lk\(.*lambda.*::operator\(\)'
SUBP = 'cocls::subscriber<int> const*'
UNITS = [
    unit('subscribe_lk_pos', 'q_subscribe_lk_pos', QS + 'subscribe_lk(%s, unsigned long)' % SUBP),
    unit('subscribe_lk_recent', 'q_subscribe_lk_recent', QS + 'subscribe_lk(%s)' % SUBP),
    unit('subscribe_lk_copy', 'q_subscribe_lk_copy', QS + 'subscribe_lk(unsigned long, %s)' % SUBP),
    unit('leave_lk', 'q_leave_lk', QS + 'leave_lk(unsigned long)'),
    unit('advance_lk', 'q_advance_lk', QS + 'advance_lk(unsigned long, cocls::subscribtion_type)'),
    unit('advance_suspend_lk', 'q_advance_suspend_lk', QS + 'advance_suspend_lk(unsigned long, cocls::awaiter*)'),
    unit('get_value_lk', 'q_get_value_lk', QS + 'get_value_lk(unsigned long, cocls::subscribtion_type)'),
    unit('push_lk', 'q_push_lk', QS + 'push_lk(std::unique_lock<std::mutex>&, unsigned long)', loop_contracts=True, defines=['C16_UNLOCK_PUSH 1'],
         extra_boundary=[MIN_IL_RX],
         extra_names={'std_min_il': MIN_IL_RX}),
    unit('kick_lk', 'q_kick_lk', QS + 'kick_lk(%s, std::unique_lock<std::mutex>&)' % SUBP, extra_boundary=[r'std::find_if<'], extra_roots=[KICK_PRED_RX],
         extra_names={'kick_pred': KICK_PRED_RX, 'kick_find_if': r'std::find_if<.*kick_lk'}),
]
# ---- locked wrappers of the queue: forwarders over an abstract `_lk` callee
def fwd(name, alias, sig, callee_alias, callee_sig, **kw):
    c = rx(callee_sig)
    return unit(name, alias, sig, extra_names={callee_alias: c}, extra_boundary=[c], hooks=False, **kw)
LOCKCHK_POS = [] if os.environ.get('C16_LOCKCHECK_POSITION') else ['PS_NO_LOCKCHK 1']
PUSH_LK_SIG = QS + 'push_lk(std::unique_lock<std::mutex>&, unsigned long)'
UNITS += [
    fwd('q_subscribe_pos', 'qw_subscribe_pos', QS + 'subscribe(%s, unsigned long)' % SUBP, 'fw_subscribe_lk_pos', QS + 'subscribe_lk(%s, unsigned long)' % SUBP),
    fwd('q_subscribe_recent', 'qw_subscribe_recent', QS + 'subscribe(%s)' % SUBP, 'fw_subscribe_lk_recent', QS + 'subscribe_lk(%s)' % SUBP),
    fwd('q_subscribe_copy', 'qw_subscribe_copy', QS + 'subscribe(unsigned long, %s)' % SUBP, 'fw_subscribe_lk_copy', QS + 'subscribe_lk(unsigned long, %s)' % SUBP),
    fwd('q_advance', 'qw_advance', QS + 'advance(unsigned long, cocls::subscribtion_type)', 'fw_advance_lk', QS + 'advance_lk(unsigned long, cocls::subscribtion_type)'),
    fwd('q_advance_suspend', 'qw_advance_suspend', QS + 'advance_suspend(unsigned long, cocls::awaiter*)', 'fw_advance_suspend_lk', QS + 'advance_suspend_lk(unsigned long, cocls::awaiter*)'),
    fwd('q_leave', 'qw_leave', QS + 'leave(unsigned long)', 'fw_leave_lk', QS + 'leave_lk(unsigned long)'),
    fwd('q_get_value', 'qw_get_value', QS + 'get_value(unsigned long, cocls::subscribtion_type)', 'fw_get_value_lk', QS + 'get_value_lk(unsigned long, cocls::subscribtion_type)'),
    fwd('q_kick', 'qw_kick', QS + 'kick(%s)' % SUBP, 'fw_kick_lk', QS + 'kick_lk(%s, std::unique_lock<std::mutex>&)' % SUBP),
    unit('q_position', 'qw_position', QS + 'position(unsigned long)', hooks=False, defines=LOCKCHK_POS),
    fwd('q_push_move', 'qw_push_move', QS + 'push(int&&)', 'fw_push_lk', PUSH_LK_SIG),
    fwd('q_push_copy', 'qw_push_copy', QS + 'push(int const&)', 'fw_push_lk', PUSH_LK_SIG),
    fwd('q_push_range', 'qw_push_range', 'void ' + QS + 'push<int const*&>(int const*&, int const*&)', 'fw_push_lk', PUSH_LK_SIG),
    fwd('q_close', 'qw_close', QS + 'close()', 'fw_push_lk', PUSH_LK_SIG),
]
META = dict(level='proof', level_text='TODO', level_note='TODO', technique='TODO', trusted_base=[], assumptions=[], explanation='see level_text')
