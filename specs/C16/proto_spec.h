/* C16 - the co_await protocol of subscriber<int>::next() as ONE unit (DESIGN 3.5): the REAL translated members
 *     await_ready()   = subscriber::ready()        -> queue::advance         -> advance_lk          critical section 1
 *     await_suspend() = subscriber::subscribe(awt) -> queue::advance_suspend -> advance_suspend_lk  critical section 2
 *     await_resume()  = subscriber::check_next()   -> queue::get_value       -> get_value_lk        critical section 3
 * are called in the order the compiler calls them for `co_await sub.next()`, every function down to the container models inlined,
 * with the RELY step (c16_rely, ps_spec.h) at EVERY acquisition of the queue mutex: between the steps other threads publish, close,
 * kick, subscribe, leave.  A suspended coroutine continues only after its awaiter has been resumed, and the only parties resuming an
 * awaiter parked in the queue are push_lk (publish / close) and kick_lk (units push_lk, kick_lk): that is the wake-up assumption.
 * Postcondition = the property statement for one `next`:  the position lemma. */
#undef QP
#define QP ps_q                                   /* assigned by the harness */
#define SQ(s)   (*(QT **)&(s)->_q)                /* shared_ptr<queue>::_M_ptr (first word)                                  */
#define SVAL(s) (*(cv_i32 *)&(s)->_val)           /* std::optional<int>: payload at offset 0, engaged flag at offset 4       */
#define SENG(s) (((cv_i8 *)&(s)->_val)[4])
cv_i8 gh_ret0p;                                   /* logical: the window was sufficient for this subscriber at entry          */
/* THE POSITION THE PROPERTY SPEAKS ABOUT: gh_delivered_pos = stream position of the value most recently delivered to this subscriber (before the
 * first delivery: its subscription point).  It is taken from the container model (DPOS = which deque element check_next() was handed,
 * lib/model_pubsub_dpos.c), NOT from the registration counter; the contract ties the registration to it (PROTO_PRE / proto_post.inc). */
cv_i64 gh_delivered_pos;
#define NEXT_BEGIN()   do { gh_dq_ref_id = DQ_REF_NONE; } while (0)
#define NEXT_END(r)    do { if (r) gh_delivered_pos = gh_dq_ref_id; } while (0)     /* a value was handed to the caller: note where in the stream it sits */
/* a subscriber that is parked stands exactly ONE PAST the last position delivered to it (it is registered for the position that is not published yet);
 * this is the abstraction the contract of subscribe_lk(h, sub) uses for "the original's position" of a parked original (ps_spec.h ORIG_DELIVERED) */
#define PARKED_CHECK() __CPROVER_assert(T._awt != 0 && T._pos == gh_delivered_pos + 1 && T._pos == POS, "a parked subscriber is registered exactly one past the last position delivered to it (the position not yet published)")
#define EOF_ALLOWED (T._kicked || (CLOSED && T._pos == POS) || POS - T._pos - 1 >= dq_len)   /* kicked | closed and drained | needed position not retained */
#define PROTO_PRE(s) (cv_exc_pending == 0 && FREE_LOCK && SQ(s) == ps_q && (s)->_h == gh_RH && SENG(s) <= 1 && \
   Q_INV && T_IN && SLOT_INV(T, gh_RH) && SUBSCRIBER_ACTIVE && rg_other_idx == RG_NONE && gh_AW != 0 && gh_aw_state == 0 && \
   gh_rely_on == 1 && gh_parked == 0 && gh_ret0p <= 1 && (gh_ret0p ==> T_RET) && \
   gh_delivered_pos == T._pos)                    /* between two next() the subscriber stands AT the last delivered position (established by every subscribe form and by proto_post.inc) */
#define PROTO_ASSIGNS MODEL_ASSIGNS, LOCK_ASSIGNS, gh_n_unlock_chk, gh_parked, gh_delivered_pos, __CPROVER_object_whole(ps_q), __CPROVER_object_whole(s)
/* the position lemma for ONE next(): C16/proto_post.inc (one clause per line), instantiated per protocol form */
#ifdef CV_HAS_sub_subscribe
/* co_await sub.next() */
cv_i1 c16_next_awaited(SUBT *s, AWT *a) {
  NEXT_BEGIN();
  cv_i1 r = sub_ready(s);                                            /* await_ready()                                       */
  if (!r) {
    cv_i1 susp = sub_subscribe(s, a);                                /* await_suspend(): may park the awaiter               */
    if (susp) { __CPROVER_assert(0, "SENTINEL reachable: the awaiter gets parked"); PARKED_CHECK(); gh_parked = 1; }   /* suspended until resumed */
    else { __CPROVER_assert(0, "SENTINEL reachable: await_suspend() says do not suspend"); }
  }
  r = sub_check_next(s);                                             /* await_resume()                                      */
  NEXT_END(r); return r;
}
cv_i1 c16_next_awaited(SUBT *s, AWT *a)
__CPROVER_requires(PROTO_PRE(s) && C16_MODE_PRE(s->_t) && a != 0 && a == gh_AW)
__CPROVER_assigns(PROTO_ASSIGNS)
#define S s
#include "C16/proto_post.inc"
#undef S
;
void h_proto_awaited(void) { QT qo; SUBT so; AWT ao; ps_q = &qo; SQ(&so) = &qo; c16_next_awaited(&so, &ao); __CPROVER_assert(0, "SENTINEL reachable"); }
#endif

#ifdef CV_HAS_sub_next_ready
/* polled: sub.next_ready() = await_ready() then, only if ready, await_resume().  false = nothing consumed, or end-of-stream */
cv_i1 c16_next_polled(SUBT *s) { NEXT_BEGIN(); cv_i1 r = sub_next_ready(s); NEXT_END(r); return r; }
cv_i1 c16_next_polled(SUBT *s)
__CPROVER_requires(PROTO_PRE(s) && C16_MODE_PRE(s->_t) && SENG(s) == 0)
__CPROVER_assigns(PROTO_ASSIGNS)
#define S s
#define PROTO_POLLED 1
#include "C16/proto_post.inc"
#undef PROTO_POLLED
#undef S
;
void h_proto_polled(void) { QT qo; SUBT so; ps_q = &qo; SQ(&so) = &qo; c16_next_polled(&so); __CPROVER_assert(0, "SENTINEL reachable"); }
#endif

#ifdef CV_HAS_awt_bool_real
/* blocking: `bool r = sub.next();` = next_awt::operator bool(): await_ready() [, sync(): await_ready() again, subscribe(a local sync_awaiter),
 * block on its flag if parked], await_resume().  Up to four critical sections, rely at each.  atomic<bool>::wait blocks until the flag
 * is set, which only sync_awaiter::wakeup does, i.e. a resume() of the parked awaiter: the same wake-up assumption as for co_await. */
void st_atomic_wait(ATOMB *flag, cv_i1 old, cv_i32 mo) { __CPROVER_assert(0, "SENTINEL reachable: the blocking wait is entered"); PARKED_CHECK(); gh_parked = 1; }
#define NOWNER(a) (*(SUBT **)((AWT *)(a) + 1))       /* co_awaiter::_owner follows the awaiter base */
cv_i1 c16_next_blocking(NAWT *a) { NEXT_BEGIN(); cv_i1 r = awt_bool_real(a); NEXT_END(r); return r; }
cv_i1 c16_next_blocking(NAWT *a)
__CPROVER_requires(PROTO_PRE(NOWNER(a)) && C16_MODE_PRE(NOWNER(a)->_t))
__CPROVER_assigns(MODEL_ASSIGNS, LOCK_ASSIGNS, gh_n_unlock_chk, gh_parked, gh_delivered_pos, __CPROVER_object_whole(ps_q), __CPROVER_object_whole(NOWNER(a)))
#define S NOWNER(a)
#include "C16/proto_post.inc"
#undef S
;
void h_proto_blocking(void) { QT qo; SUBT so; NAWT ao; ps_q = &qo; SQ(&so) = &qo; NOWNER(&ao) = &so; c16_next_blocking(&ao); __CPROVER_assert(0, "SENTINEL reachable"); }
#endif

#ifdef C16_LEMMA_HISTORY
/* L (DESIGN C16): the positions observed by an all_values subscriber are contiguous, increasing and duplicate-free from the subscription
 * point up to the first end-of-stream, and each carries the published value.  Lemma over the CONTRACT of one next() (c16_next_awaited is
 * replaced by its contract, enforced in unit proto_awaited__all_values; between two calls the environment acts: the rely is part of that
 * contract) for an UNBOUNDED number of next() calls: loop invariant, ghost index gh_OK = an arbitrary observation. */
cv_i64 gh_OK;
void h_lemma_history(void) {
  QT qo; SUBT so; AWT ao; SUBT *s = &so; AWT *a = &ao; ps_q = &qo; SQ(s) = &qo;
  __CPROVER_assume(PROTO_PRE(s) && s->_t == 0 && gh_AW == a && gh_ret0p == 1);      /* subscribed (recent / by copy: the window serves it), not parked */
  cv_i64 start = T._pos;                              /* the subscription point                          */
  cv_i64 n = 0; cv_i1 eof = 0;                        /* successful next() so far; end-of-stream seen    */
  cv_i64 obs_pos = 0; cv_i32 obs_val = 0;             /* position / value of observation number gh_OK    */
  while (!eof && nondet_bool())
  __CPROVER_assigns(MODEL_ASSIGNS, LOCK_ASSIGNS, gh_n_unlock_chk, gh_parked, gh_delivered_pos, __CPROVER_object_whole(&qo), __CPROVER_object_whole(&so), n, eof, obs_pos, obs_val)
  __CPROVER_loop_invariant(cv_exc_pending == 0 && FREE_LOCK && SQ(s) == ps_q && s->_h == gh_RH && s->_t == 0 && SENG(s) <= 1 && eof <= 1 && n < PS_BIG)
  __CPROVER_loop_invariant(Q_INV && T_IN && SLOT_INV(T, gh_RH) && T._used == 1 && T._awt == 0 && rg_other_idx == RG_NONE && gh_parked == 0 && T_RET)
  __CPROVER_loop_invariant(!eof ==> (T._pos == start + n && gh_delivered_pos == T._pos && (T._kicked || T._pos < POS)))   /* every success moved the delivered position by exactly one, and the subscriber stands there */
  __CPROVER_loop_invariant(gh_OK < n ==> (obs_pos == start + gh_OK + 1 && (obs_pos == gh_P ==> obs_val == gh_sval)))
  __CPROVER_loop_invariant(eof ==> (T._kicked || (CLOSED && T._pos == POS) || POS - T._pos > MAXL))
  {
    cv_i1 r = c16_next_awaited(s, a);
    if (r) { if (n == gh_OK) { obs_pos = gh_delivered_pos; obs_val = SVAL(s); } n++; }      /* observation = (stream position of the value handed out, the value) */
    else eof = 1;
  }
  __CPROVER_assert(gh_OK < n ==> obs_pos == start + gh_OK + 1, "L: the k-th value received is the one at position subscription point + k + 1 (contiguous, in order, duplicate-free, starting right after the subscription point)");
  __CPROVER_assert((gh_OK < n && obs_pos == gh_P) ==> obs_val == gh_sval, "L: ... and it is the value that was published at that position");
  __CPROVER_assert(eof ==> (T._kicked || (CLOSED && T._pos == POS) || POS - T._pos > MAXL), "L: the first end-of-stream is received only when kicked, when closed and drained, or when fallen more than max behind");
  __CPROVER_assert(0, "SENTINEL reachable");
}
#endif

#ifdef C16_LEMMA_SKIP
/* L-skip: "The skipping modes only ever move forward (strictly increasing positions)" as a statement about HISTORIES: of any two values a
 * skipping subscriber receives, the later one sits at a strictly larger stream position, and the first one after its subscription point.
 * Lemma over the CONTRACT of one next() (c16_next_awaited replaced by its contract, which is enforced on the real code in unit
 * proto_awaited__skip; the clause C16-skip-forward of proto_post.inc re-establishes `gh_delivered_pos == T._pos`, the part of PROTO_PRE that makes
 * the one-step clause inductive) for an UNBOUNDED number of next() calls.  Ghost index gh_OK = an arbitrary observation; every later one is compared with it. */
cv_i64 gh_OK;
void h_lemma_skip_forward(void) {
  QT qo; SUBT so; AWT ao; SUBT *s = &so; AWT *a = &ao; ps_q = &qo; SQ(s) = &qo;
  __CPROVER_assume(PROTO_PRE(s) && (s->_t == 1 || s->_t == 2) && gh_AW == a);
  cv_i32 t0 = s->_t;
  cv_i64 start = gh_delivered_pos;                    /* the subscription point (nothing delivered yet)  */
  cv_i64 n = 0; cv_i1 eof = 0;                        /* successful next() so far; end-of-stream seen    */
  cv_i64 obs_pos = 0;                                 /* stream position of observation number gh_OK     */
  while (!eof && nondet_bool())
  __CPROVER_assigns(MODEL_ASSIGNS, LOCK_ASSIGNS, gh_n_unlock_chk, gh_parked, gh_delivered_pos, __CPROVER_object_whole(&qo), __CPROVER_object_whole(&so), n, eof, obs_pos)
  __CPROVER_loop_invariant(cv_exc_pending == 0 && FREE_LOCK && SQ(s) == ps_q && s->_h == gh_RH && s->_t == t0 && SENG(s) <= 1 && eof <= 1)
  __CPROVER_loop_invariant(Q_INV && T_IN && SLOT_INV(T, gh_RH) && T._used == 1 && T._awt == 0 && rg_other_idx == RG_NONE && gh_parked == 0 && (gh_ret0p ==> T_RET))
  __CPROVER_loop_invariant(!eof ==> (gh_delivered_pos == T._pos && (T._kicked || T._pos < POS)))      /* between two next() the subscriber stands at the last delivered position */
  __CPROVER_loop_invariant(gh_delivered_pos < PS_BIG && n < PS_BIG && start + n <= gh_delivered_pos && (n == 0 ==> gh_delivered_pos == start))   /* n successes moved the delivered position by at least n */
  __CPROVER_loop_invariant(gh_OK < n ==> (obs_pos > start && obs_pos <= gh_delivered_pos))
  {
    cv_i1 r = c16_next_awaited(s, a);
    if (r) {
      if (n > gh_OK) __CPROVER_assert(gh_delivered_pos > obs_pos, "L-skip: a value received later sits at a strictly larger stream position than any value received before (strictly increasing positions, no position twice)");
      if (n == gh_OK) { obs_pos = gh_delivered_pos; __CPROVER_assert(obs_pos > start, "L-skip: every value received sits after the subscription point"); }
      n++;
    } else eof = 1;
  }
  __CPROVER_assert(gh_OK < n ==> obs_pos > start, "L-skip: observations lie after the subscription point");
  __CPROVER_assert(0, "SENTINEL reachable");
}
#endif
