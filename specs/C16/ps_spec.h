/* C16 - contracts on cocls::publisher<int>::queue (src/cocls/publisher.h), the functions executed under the queue mutex.
 *
 * Models (assumed contracts on dependencies, lib/model_pubsub.c): retained values std::deque<int> as a window over absolute ids,
 * registration std::vector<subreg_t> with ONE arbitrary tracked slot (index gh_RH, object rg_trk), wake-up buffer abstracted
 * w.r.t. ONE arbitrary awaiter gh_AW, awaiter::resume() as a counting abstract callee.
 *
 * Abstract stream: gh_stream[p] = the value published at position p (first published value: position 1).  Ghost-index idiom:
 * ONE arbitrary-but-fixed position gh_P is tracked, gh_sval = gh_stream[gh_P] (a logical constant).  The invariant ties the
 * deque model to it: ids are positions (dq_front == _pos-1) and a retained gh_P holds gh_sval. */
cv_i32 gh_sval;                  /* gh_stream[gh_P]                                                                       */
cv_i64 gh_live_h;               /* handle of the calling (live, i.e. registered) subscriber where a function takes one; else RG_NONE */
cv_i8 gh_aw_state;               /* what is known about the awaiter of interest gh_AW: 0 parked in NO used slot, 1 parked in the
                                    tracked slot (and, awaiters being registered at most once, nowhere else), 2 nothing known   */
/* QP = the queue object: in the contracts of queue members the parameter this_; hooks bind a local this_ = ps_q */
#define QP      this_
#define POS     (QP->_pos)
#define MAXL    (QP->_max_queue_len)
#define MINL    (QP->_min_queue_len)
#define CLOSED  (QP->_closed)
#define NFREE   (QP->_next_free)
#define T       rg_trk
#define T_IN    (gh_RH < rg_n)
#define MIN2(a, b) ((a) < (b) ? (a) : (b))
#define MIN3(a, b, c) MIN2(MIN2(a, b), c)
#define MAX2(a, b) ((a) > (b) ? (a) : (b))
#define ALL_VALUES(t) ((t) != 1 && (t) != 2)     /* subscribtion_type: 0 all_values (and `default:`), 1 skip_if_behind, 2 skip_to_recent */

/* ---- the queue invariant (DESIGN C16), in terms of the models; holds whenever the mutex is free -------------------------- */
#define Q_CFG   (MINL >= 1 && MAXL >= MINL && CLOSED <= 1)                                   /* constructor asserts          */
#define Q_STREAM(extra) (POS >= 1 && POS < PS_BIG && dq_front == POS - 1 + (extra) && dq_len <= POS - 1 + (extra) && \
                 (DQ_INWIN(gh_P) ==> dq_trk == gh_sval))                                      /* _q[G] == gh_stream[_pos-1-G] */
#define Q_MINMAX (dq_len <= MAXL && dq_len >= MIN2(MINL, POS - 1))                            /* min/max length respected     */
#define Q_REGS  (NFREE <= rg_n && rg_n <= PS_BIG)
#define Q_INV   (Q_CFG && Q_STREAM(0) && Q_MINMAX && Q_REGS)
/* per registration slot s at index i (stated for the tracked slot, assumed for every other slot when it is referenced) */
#define SLOT_INV(s, i) ((s)._used <= 1 && (s)._kicked <= 1 && \
   ((s)._used ==> ((s)._pos <= POS && NFREE != (i))) &&                                      /* head of the free list is free */ \
   (((s)._used && (s)._awt != 0) ==> ((s)._pos == POS && !(s)._kicked && !CLOSED)) &&        /* parked only at reg._pos == _pos */ \
   (!(s)._used ==> ((s)._pos <= rg_n && (s)._pos != (i))))                                    /* free-list link in range, no self-loop */
/* retention: the window still holds everything slot s needs, up to max (not an invariant for a subscriber that subscribed at an
 * explicit position older than the window: stated as "preserved", established by subscribe-recent / subscribe-by-copy) */
#define RETAINS(spos, len, pos, maxl) ((len) >= MIN3((pos) - (spos), maxl, (pos) - 1))
#define T_RET   RETAINS(T._pos, dq_len, POS, MAXL)
#define T_RET_OLD RETAINS(__CPROVER_old(rg_trk._pos), __CPROVER_old(dq_len), __CPROVER_old(QP->_pos), MAXL)
#define GH_PIN  (gh_AW != 0 && gh_aw_state <= 2 && \
                 (gh_aw_state == 1 ==> (T_IN && T._used && T._awt == gh_AW)) && (gh_aw_state == 0 ==> !(T_IN && T._used && T._awt == gh_AW)))
#define HELD(q) (gh_lock_depth == 1 && gh_lock_held == (void *)&(q)->_mx)
#define FREE_LOCK (gh_lock_depth == 0 && gh_lock_held == 0)
#define STATE_OK(q) (cv_exc_pending == 0 && Q_INV && (T_IN ==> SLOT_INV(T, gh_RH)) && rg_other_idx == RG_NONE && GH_PIN)
#define LK_PRE(q) (__CPROVER_is_fresh(q, sizeof(QT)) && STATE_OK(q) && HELD(q))
#define T_SAME  (T._pos == __CPROVER_old(rg_trk._pos) && T._sub == __CPROVER_old(rg_trk._sub) && T._awt == __CPROVER_old(rg_trk._awt) && \
                 T._used == __CPROVER_old(rg_trk._used) && T._kicked == __CPROVER_old(rg_trk._kicked))
#define Q_SAME  (POS == __CPROVER_old(QP->_pos) && CLOSED == __CPROVER_old(QP->_closed) && dq_len == __CPROVER_old(dq_len) && \
                 dq_front == __CPROVER_old(dq_front) && dq_trk == __CPROVER_old(dq_trk) && MAXL == __CPROVER_old(QP->_max_queue_len) && MINL == __CPROVER_old(QP->_min_queue_len))
#define Q_SAME_E __CPROVER_ensures(POS == __CPROVER_old(QP->_pos) && CLOSED == __CPROVER_old(QP->_closed)) \
   __CPROVER_ensures(dq_len == __CPROVER_old(dq_len) && dq_front == __CPROVER_old(dq_front) && dq_trk == __CPROVER_old(dq_trk)) \
   __CPROVER_ensures(MAXL == __CPROVER_old(QP->_max_queue_len) && MINL == __CPROVER_old(QP->_min_queue_len))
#define Q_INV_E __CPROVER_ensures(Q_CFG) __CPROVER_ensures(Q_STREAM(0)) __CPROVER_ensures(Q_MINMAX) __CPROVER_ensures(Q_REGS)
#define MODEL_ASSIGNS ps_q, DQ_MODEL_ASSIGNS, RG_MODEL_ASSIGNS, WB_MODEL_ASSIGNS, RES_MODEL_ASSIGNS, gh_allocs

/* instances of the invariant for "every other slot" - assumed when an untracked slot is referenced (ghost-index idiom):
 * its own slot invariant; no free slot links to a used slot / the free-list head is free (relative to the tracked slot);
 * live subscribers are distinct objects; an awaiter is registered at most once. */
void c16_reg_other(cv_i64 i) {
  QT *this_ = ps_q;
  __CPROVER_assume(SLOT_INV(rg_other, i));
  __CPROVER_assume((T_IN && T._used && !rg_other._used) ==> rg_other._pos != gh_RH);
  __CPROVER_assume((T_IN && T._used && rg_other._used) ==> rg_other._sub != T._sub);
  __CPROVER_assume((gh_aw_state != 2 && rg_other._used) ==> rg_other._awt != gh_AW);
  __CPROVER_assume(i == gh_live_h ==> rg_other._used);          /* precondition "the handle belongs to a registered subscriber" */
}
/* std::__throw_system_error: pthread_mutex_lock of the model never fails */
void _ZSt20__throw_system_errori(cv_i32 e) { __CPROVER_assert(0, "std::system_error from a mutex operation (unreachable: the mutex model never fails)"); __CPROVER_assume(0); }

/* =========================================================================================================================
 * subscribe_lk(sub, pos) - register at an explicit position.  Precondition (DESIGN): pos <= current stream position (_pos-1);
 * `sub` identifies a subscriber that is not registered yet. */
#define SUBSCRIBE_POST(newpos) \
  __CPROVER_ensures(cv_exc_pending == 0) Q_SAME_E Q_INV_E __CPROVER_ensures(rg_n >= __CPROVER_old(rg_n) && rg_n <= __CPROVER_old(rg_n) + 1) \
  __CPROVER_ensures(__CPROVER_return_value < rg_n)                                                                  /* a valid handle  */ \
  __CPROVER_ensures(__CPROVER_return_value == gh_RH ==> !(gh_RH < __CPROVER_old(rg_n) && __CPROVER_old(rg_trk._used)))  /* never a slot that is in use */ \
  __CPROVER_ensures(__CPROVER_return_value == gh_RH ==> (T._used == 1 && T._pos == (newpos) && T._sub == sub && T._awt == 0 && T._kicked == 0)) \
  __CPROVER_ensures((__CPROVER_return_value != gh_RH && gh_RH < __CPROVER_old(rg_n)) ==> T_SAME)                   /* the others are untouched */ \
  __CPROVER_ensures(T_IN ==> SLOT_INV(T, gh_RH)) \
  __CPROVER_ensures((__CPROVER_return_value != gh_RH && T_IN && T._used && rg_other_idx == __CPROVER_return_value) ==> (rg_other._used && rg_other._sub != T._sub))
#ifdef CV_HAS_q_subscribe_lk_pos
cv_i64 q_subscribe_lk_pos(QT *this_, SUBT *sub, cv_i64 pos)
__CPROVER_requires(LK_PRE(this_) && pos <= POS - 1)
__CPROVER_requires((T_IN && T._used) ==> T._sub != sub)
__CPROVER_assigns(ps_q, RG_MODEL_ASSIGNS, gh_allocs, this_->_next_free)
SUBSCRIBE_POST(pos)
;
#endif
/* subscribe_lk(sub) - register at the most recent position: the first value delivered is the next one published; whatever the
 * window holds now is enough for this subscriber (retention established). */
#ifdef CV_HAS_q_subscribe_lk_recent
cv_i64 q_subscribe_lk_recent(QT *this_, SUBT *sub)
__CPROVER_requires(LK_PRE(this_))
__CPROVER_requires((T_IN && T._used) ==> T._sub != sub)
__CPROVER_assigns(ps_q, RG_MODEL_ASSIGNS, gh_allocs, this_->_next_free)
SUBSCRIBE_POST(__CPROVER_old(QP->_pos) - 1)
__CPROVER_ensures(__CPROVER_return_value == gh_RH ==> T_RET)
;
#endif
/* subscribe_lk(h, sub) - a copy starts at the original's position (and the original is not affected) */
#ifdef CV_HAS_q_subscribe_lk_copy
cv_i64 gh_orig_pos;              /* logical variable: position of the original at entry (conditional entry value) */
cv_i64 q_subscribe_lk_copy(QT *this_, cv_i64 h, SUBT *sub)
__CPROVER_requires(LK_PRE(this_) && h < rg_n && gh_live_h == h)
__CPROVER_requires((T_IN && T._used) ==> T._sub != sub)
__CPROVER_requires(h == gh_RH ==> (T._used && gh_orig_pos == T._pos))
__CPROVER_assigns(ps_q, RG_MODEL_ASSIGNS, gh_allocs, this_->_next_free)
__CPROVER_ensures(cv_exc_pending == 0) Q_SAME_E Q_INV_E __CPROVER_ensures(rg_n >= __CPROVER_old(rg_n) && rg_n <= __CPROVER_old(rg_n) + 1)
__CPROVER_ensures(__CPROVER_return_value < rg_n && __CPROVER_return_value != h)
__CPROVER_ensures(h == gh_RH ==> (T_SAME && __CPROVER_return_value != gh_RH))                                      /* original untouched */
__CPROVER_ensures((h == gh_RH && rg_other_idx == __CPROVER_return_value) ==> (rg_other._used && rg_other._pos == gh_orig_pos && rg_other._awt == 0 && !rg_other._kicked && rg_other._sub == sub))
__CPROVER_ensures(__CPROVER_return_value == gh_RH ==> !(gh_RH < __CPROVER_old(rg_n) && __CPROVER_old(rg_trk._used)))
__CPROVER_ensures(__CPROVER_return_value == gh_RH ==> (T._used == 1 && T._sub == sub && T._awt == 0 && T._kicked == 0 && T._pos <= POS))
__CPROVER_ensures((__CPROVER_return_value != gh_RH && gh_RH < __CPROVER_old(rg_n)) ==> T_SAME)
__CPROVER_ensures(T_IN ==> SLOT_INV(T, gh_RH))
;
#endif

/* leave_lk(h) - the slot goes to the head of the free list; nobody else is affected */
#ifdef CV_HAS_q_leave_lk
void q_leave_lk(QT *this_, cv_i64 h)
__CPROVER_requires(LK_PRE(this_) && h < rg_n)
__CPROVER_requires(h == gh_RH ==> T._used)
__CPROVER_assigns(ps_q, RG_MODEL_ASSIGNS, this_->_next_free)
__CPROVER_ensures(cv_exc_pending == 0) Q_SAME_E Q_INV_E __CPROVER_ensures(rg_n == __CPROVER_old(rg_n) && NFREE == h)
__CPROVER_ensures(h == gh_RH ==> (T._used == 0 && T._pos == __CPROVER_old(QP->_next_free)))
__CPROVER_ensures(h != gh_RH ==> T_SAME)
__CPROVER_ensures(T_IN ==> SLOT_INV(T, gh_RH))
__CPROVER_ensures((h != gh_RH && T_IN && T._used) ==> (rg_other_idx == h && !rg_other._used && rg_other._pos != gh_RH && rg_other._pos <= rg_n))   /* the freed slot does not link to a used one */
;
#endif

/* =========================================================================================================================
 * advance_lk(h, t) - await_ready(): move to the next item if there is one.  Protocol precondition: the subscriber has not yet
 * received end-of-stream (kicked, or position still behind the stream) and is not parked. */
#define SUBSCRIBER_ACTIVE (T._used && T._awt == 0 && (T._kicked || T._pos < POS))
#ifdef CV_HAS_q_advance_lk
cv_i1 q_advance_lk(QT *this_, cv_i64 h, cv_i32 t)
__CPROVER_requires(LK_PRE(this_) && h < rg_n)
__CPROVER_requires(h == gh_RH ==> SUBSCRIBER_ACTIVE)
__CPROVER_assigns(ps_q, RG_MODEL_ASSIGNS, dq_slot)
__CPROVER_ensures(cv_exc_pending == 0 && __CPROVER_return_value <= 1) Q_SAME_E Q_INV_E __CPROVER_ensures(rg_n == __CPROVER_old(rg_n) && NFREE == __CPROVER_old(QP->_next_free))
__CPROVER_ensures(h != gh_RH ==> T_SAME)                                                                        /* subscribers are independent */
__CPROVER_ensures(T._sub == __CPROVER_old(rg_trk._sub) && T._awt == __CPROVER_old(rg_trk._awt) && T._used == __CPROVER_old(rg_trk._used) && T._kicked == __CPROVER_old(rg_trk._kicked))
__CPROVER_ensures((h == gh_RH && __CPROVER_return_value == 0) ==> (T._pos == __CPROVER_old(rg_trk._pos) && (T._kicked || (T._pos + 1 == POS && !CLOSED))))   /* "not ready" only if kicked, or nothing new and not closed */
__CPROVER_ensures((h == gh_RH && __CPROVER_return_value == 1) ==> (!T._kicked && T._pos > __CPROVER_old(rg_trk._pos) && T._pos <= POS))                   /* forward only */
__CPROVER_ensures((h == gh_RH && __CPROVER_return_value == 1 && ALL_VALUES(t)) ==> T._pos == __CPROVER_old(rg_trk._pos) + 1)                                /* all_values: exactly the next position */
__CPROVER_ensures((h == gh_RH && __CPROVER_return_value == 1 && t == 1) ==> T._pos == MAX2(__CPROVER_old(rg_trk._pos) + 1, POS - dq_len))                  /* skip_if_behind: next, or oldest retained */
__CPROVER_ensures((h == gh_RH && __CPROVER_return_value == 1 && t == 2) ==> T._pos == MAX2(__CPROVER_old(rg_trk._pos) + 1, POS - 1))                       /* skip_to_recent: the newest */
__CPROVER_ensures((h == gh_RH && T_RET_OLD) ==> T_RET)
__CPROVER_ensures(T_IN ==> SLOT_INV(T, gh_RH))
;
#endif

/* advance_suspend_lk(h, awt) - await_suspend(): called after advance_lk said "not ready" (the state may have moved on since: rely).
 * true = parked (the coroutine stays suspended until the awaiter is resumed); false = do not suspend, await_resume() follows
 * immediately - and get_value_lk delivers the item AT the registered position, so a non-kicked `false` must have moved the
 * subscriber to the next position (otherwise the item already consumed is delivered again: finding 8 of DESIGN section 6). */
#ifdef CV_HAS_q_advance_suspend_lk
cv_i1 q_advance_suspend_lk(QT *this_, cv_i64 h, AWT *awt)
__CPROVER_requires(LK_PRE(this_) && h < rg_n && awt != 0)
__CPROVER_requires(h == gh_RH ==> SUBSCRIBER_ACTIVE)
__CPROVER_requires(awt == gh_AW ==> gh_aw_state == 0)                                                           /* an awaiter is registered at most once */
__CPROVER_assigns(ps_q, RG_MODEL_ASSIGNS)
__CPROVER_ensures(cv_exc_pending == 0 && __CPROVER_return_value <= 1) Q_SAME_E Q_INV_E __CPROVER_ensures(rg_n == __CPROVER_old(rg_n) && NFREE == __CPROVER_old(QP->_next_free))
__CPROVER_ensures(h != gh_RH ==> T_SAME)
__CPROVER_ensures(T._sub == __CPROVER_old(rg_trk._sub) && T._used == __CPROVER_old(rg_trk._used) && T._kicked == __CPROVER_old(rg_trk._kicked))
__CPROVER_ensures((h == gh_RH && __CPROVER_return_value == 1) ==> (T._awt == awt && T._pos == POS && T._pos == __CPROVER_old(rg_trk._pos) + 1 && !T._kicked && !CLOSED))  /* parked only when there is really nothing to deliver */
__CPROVER_ensures((h == gh_RH && __CPROVER_return_value == 0) ==> T._awt == 0)
__CPROVER_ensures((h == gh_RH && T._kicked) ==> (__CPROVER_return_value == 0 && T._pos == __CPROVER_old(rg_trk._pos)))
__CPROVER_ensures((h == gh_RH && __CPROVER_return_value == 0 && !T._kicked) ==> T._pos == __CPROVER_old(rg_trk._pos) + 1)   /*@ not-suspended-means-advanced (also when closed) */
__CPROVER_ensures((h == gh_RH && __CPROVER_return_value == 0 && !T._kicked && !CLOSED) ==> T._pos < POS)                   /* an item is there */
__CPROVER_ensures((h == gh_RH && T_RET_OLD) ==> T_RET)
__CPROVER_ensures(T_IN ==> SLOT_INV(T, gh_RH))
;
#endif

/* get_value_lk(h, t) - await_resume(): the value at the registered position, or end-of-stream.  Returned std::optional<int> is
 * coerced by the ABI into an i64: payload in bits 0..31, engaged flag in bits 32..39. */
#define OPT_ENG(r) ((((r) >> 32) & 0xff) != 0)
#define OPT_VAL(r) ((cv_i32)(r))
#ifdef CV_HAS_q_get_value_lk
cv_i64 q_get_value_lk(QT *this_, cv_i64 h, cv_i32 t)
__CPROVER_requires(LK_PRE(this_) && h < rg_n && h == gh_RH)      /* the tracked slot is the caller's (nothing is written: the assigns clause is the frame for all others) */
__CPROVER_requires(T._used && T._pos >= 1 && T._pos <= POS)                                                   /* after an advance */
__CPROVER_assigns(ps_q, rg_other, rg_other_idx, dq_slot)
__CPROVER_ensures(cv_exc_pending == 0) Q_SAME_E Q_INV_E __CPROVER_ensures(rg_n == __CPROVER_old(rg_n) && T_SAME && (((__CPROVER_return_value) >> 32) & 0xff) <= 1)
/* all_values: a value is THE value published at the registered position */
__CPROVER_ensures((h == gh_RH && ALL_VALUES(t) && OPT_ENG(__CPROVER_return_value)) ==> (!T._kicked && T._pos < POS && (T._pos == gh_P ==> OPT_VAL(__CPROVER_return_value) == gh_sval)))
/* all_values: end-of-stream only if kicked, or nothing left (position == stream position), or the needed position is no longer retained */
__CPROVER_ensures((h == gh_RH && ALL_VALUES(t) && !OPT_ENG(__CPROVER_return_value)) ==> (T._kicked || T._pos == POS || POS - T._pos - 1 >= dq_len))
/* ... and "no longer retained" means: fallen more than max behind (for a subscriber the window was kept for) */
__CPROVER_ensures((h == gh_RH && ALL_VALUES(t) && !OPT_ENG(__CPROVER_return_value) && !T._kicked && T._pos != POS && T_RET) ==> POS - T._pos > MAXL)
/* skipping modes: end-of-stream iff kicked or nothing left */
__CPROVER_ensures((h == gh_RH && !ALL_VALUES(t)) ==> (OPT_ENG(__CPROVER_return_value) == !(T._kicked || T._pos == POS)))
__CPROVER_ensures((h == gh_RH && t == 1 && OPT_ENG(__CPROVER_return_value) && gh_P == MAX2(T._pos, POS - dq_len)) ==> OPT_VAL(__CPROVER_return_value) == gh_sval)   /* skip_if_behind: own position or the oldest retained */
__CPROVER_ensures((h == gh_RH && t == 2 && OPT_ENG(__CPROVER_return_value) && gh_P == POS - 1) ==> OPT_VAL(__CPROVER_return_value) == gh_sval)                       /* skip_to_recent: always the newest */
;
#endif
