/* C16 - contracts on cocls::publisher<int>::queue (src/cocls/publisher.h), the functions executed under the queue mutex.
 *
 * Models (assumed contracts on dependencies, lib/model_pubsub.c): retained values std::deque<int> as a window over absolute ids,
 * registration std::vector<subreg_t> with ONE arbitrary tracked slot (index gh_RH, object rg_trk), wake-up buffer abstracted
 * w.r.t. ONE arbitrary awaiter gh_AW, awaiter::resume() as a counting abstract callee.
 *
 * Abstract stream: gh_stream[p] = the value published at position p (first published value: position 1).  Ghost-index idiom:
 * ONE arbitrary-but-fixed position gh_P is tracked, gh_sval = gh_stream[gh_P] (a logical constant).  The invariant ties the
 * deque model to it: ids are positions (dq_front == _pos-1) and a retained gh_P holds gh_sval. */
cv_i32 gh_sval;                  /* gh_stream[gh_P]                                                                       */
cv_i64 gh_live_h;               /* handle of the calling (live, i.e. registered) subscriber where a function takes one; else RG_NONE */
cv_i8 gh_aw_state;               /* what is known about the awaiter of interest gh_AW: 0 parked in NO used slot, 1 parked in the
                                    tracked slot (and, awaiters being registered at most once, nowhere else), 2 nothing known   */
/* QP = the queue object: in the contracts of queue members the parameter this_; hooks bind a local this_ = ps_q */
#define QP      this_
#define POS     (QP->_pos)
#define MAXL    (QP->_max_queue_len)
#define MINL    (QP->_min_queue_len)
#define CLOSED  (QP->_closed)
#define NFREE   (QP->_next_free)
#define T       rg_trk
#define T_IN    (gh_RH < rg_n)
#define MIN2(a, b) ((a) < (b) ? (a) : (b))
#define MIN3(a, b, c) MIN2(MIN2(a, b), c)
#define MAX2(a, b) ((a) > (b) ? (a) : (b))
#define ALL_VALUES(t) ((t) != 1 && (t) != 2)     /* subscribtion_type: 0 all_values (and `default:`), 1 skip_if_behind, 2 skip_to_recent */

/* ---- the queue invariant (DESIGN C16), in terms of the models; holds whenever the mutex is free -------------------------- */
#define Q_CFG   (MINL >= 1 && MAXL >= MINL && CLOSED <= 1)                                   /* constructor asserts          */
#define Q_STREAM(extra) (POS >= 1 && POS < PS_BIG && dq_front == POS - 1 + (extra) && dq_len <= POS - 1 + (extra) && \
                 (DQ_INWIN(gh_P) ==> dq_trk == gh_sval))                                      /* _q[G] == gh_stream[_pos-1-G] */
#define Q_MINMAX (dq_len <= MAXL && dq_len >= MIN2(MINL, POS - 1))                            /* min/max length respected     */
#define Q_REGS  (NFREE <= rg_n && rg_n <= PS_BIG)
#define Q_INV   (Q_CFG && Q_STREAM(0) && Q_MINMAX && Q_REGS)
/* per registration slot s at index i (stated for the tracked slot, assumed for every other slot when it is referenced) */
#define SLOT_INV(s, i) ((s)._used <= 1 && (s)._kicked <= 1 && \
   ((s)._used ==> ((s)._pos <= POS && NFREE != (i))) &&                                      /* head of the free list is free */ \
   (((s)._used && (s)._awt != 0) ==> ((s)._pos == POS && !(s)._kicked && !CLOSED)) &&        /* parked only at reg._pos == _pos */ \
   (!(s)._used ==> (s)._pos <= rg_n))                                                         /* free-list link in range      */
/* a free slot does not link to itself (kept apart from SLOT_INV: only subscribe_lk / leave_lk touch the free list) */
#define SLOT_NOLOOP(s, i) (!(s)._used ==> (s)._pos != (i))
#define T_NOLOOP (T_IN ==> SLOT_NOLOOP(T, gh_RH))
/* retention: the window still holds everything slot s needs, up to max (not an invariant for a subscriber that subscribed at an
 * explicit position older than the window: stated as "preserved", established by subscribe-recent / subscribe-by-copy) */
#define RETAINS(spos, len, pos, maxl) ((len) >= MIN3((pos) - (spos), maxl, (pos) - 1))
#define T_RET   RETAINS(T._pos, dq_len, POS, MAXL)
#define T_RET_OLD RETAINS(__CPROVER_old(rg_trk._pos), __CPROVER_old(dq_len), __CPROVER_old(QP->_pos), MAXL)
#define GH_PIN  (gh_AW != 0 && gh_aw_state <= 2 && \
                 (gh_aw_state == 1 ==> (T_IN && T._used && T._awt == gh_AW)) && (gh_aw_state == 0 ==> !(T_IN && T._used && T._awt == gh_AW)))
#define HELD(q) (gh_lock_depth == 1 && gh_lock_held == (void *)&(q)->_mx)
#define FREE_LOCK (gh_lock_depth == 0 && gh_lock_held == 0)
#define STATE_OK(q) (cv_exc_pending == 0 && Q_INV && (T_IN ==> SLOT_INV(T, gh_RH)) && rg_other_idx == RG_NONE && GH_PIN)
#define LK_PRE(q) ((q) == ps_q && STATE_OK(q) && HELD(q))      /* the harness owns the queue object and sets ps_q */
#define T_SAME  (T._pos == __CPROVER_old(rg_trk._pos) && T._sub == __CPROVER_old(rg_trk._sub) && T._awt == __CPROVER_old(rg_trk._awt) && \
                 T._used == __CPROVER_old(rg_trk._used) && T._kicked == __CPROVER_old(rg_trk._kicked))
#define Q_SAME  (POS == __CPROVER_old(QP->_pos) && CLOSED == __CPROVER_old(QP->_closed) && dq_len == __CPROVER_old(dq_len) && \
                 dq_front == __CPROVER_old(dq_front) && dq_trk == __CPROVER_old(dq_trk) && MAXL == __CPROVER_old(QP->_max_queue_len) && MINL == __CPROVER_old(QP->_min_queue_len))
#define Q_SAME_E __CPROVER_ensures(POS == __CPROVER_old(QP->_pos) && CLOSED == __CPROVER_old(QP->_closed)) \
   __CPROVER_ensures(dq_len == __CPROVER_old(dq_len) && dq_front == __CPROVER_old(dq_front) && dq_trk == __CPROVER_old(dq_trk)) \
   __CPROVER_ensures(MAXL == __CPROVER_old(QP->_max_queue_len) && MINL == __CPROVER_old(QP->_min_queue_len))
#define Q_INV_E __CPROVER_ensures(Q_CFG) __CPROVER_ensures(Q_STREAM(0)) __CPROVER_ensures(Q_MINMAX) __CPROVER_ensures(Q_REGS)
#define MODEL_ASSIGNS DQ_MODEL_ASSIGNS, RG_MODEL_ASSIGNS, WB_MODEL_ASSIGNS, RES_MODEL_ASSIGNS, gh_allocs

/* instances of the invariant for "every other slot" - assumed when an untracked slot is referenced (ghost-index idiom):
 * its own slot invariant; no free slot links to a used slot / the free-list head is free (relative to the tracked slot);
 * live subscribers are distinct objects; an awaiter is registered at most once. */
void c16_reg_other(cv_i64 i) {
  QT *this_ = ps_q;
  __CPROVER_assume(SLOT_INV(rg_other, i) && SLOT_NOLOOP(rg_other, i));
  __CPROVER_assume((T_IN && T._used && !rg_other._used) ==> rg_other._pos != gh_RH);
  __CPROVER_assume((T_IN && T._used && rg_other._used) ==> rg_other._sub != T._sub);
  __CPROVER_assume((gh_aw_state != 2 && rg_other._used) ==> rg_other._awt != gh_AW);
  __CPROVER_assume(i == gh_live_h ==> rg_other._used);          /* precondition "the handle belongs to a registered subscriber" */
}
/* std::__throw_system_error: pthread_mutex_lock of the model never fails */
void _ZSt20__throw_system_errori(cv_i32 e) { __CPROVER_assert(0, "std::system_error from a mutex operation (unreachable: the mutex model never fails)"); __CPROVER_assume(0); }

/* =========================================================================================================================
 * subscribe_lk(sub, pos) - register at an explicit position.  Precondition (DESIGN): pos <= current stream position (_pos-1);
 * `sub` identifies a subscriber that is not registered yet. */
/* SUBSCRIBER_ACTIVE = the state in which a subscriber may call next() (precondition of advance_lk / advance_suspend_lk / PROTO_PRE of the protocol
 * units and of the history lemma): registered, not parked, and not yet at end-of-stream (kicked, or its position still BEHIND the stream).  It is a
 * POSTCONDITION of every form of subscribe_lk (audit D6: the lemma's hypothesis is established by the contracts, not assumed). */
#define SUBSCRIBER_ACTIVE (T._used && T._awt == 0 && (T._kicked || T._pos < POS))
#define SUBSCRIBE_POST(newpos) \
  __CPROVER_ensures(cv_exc_pending == 0) Q_SAME_E Q_INV_E __CPROVER_ensures(rg_n >= __CPROVER_old(rg_n) && rg_n <= __CPROVER_old(rg_n) + 1) \
  __CPROVER_ensures(__CPROVER_return_value < rg_n)                                                                  /* a valid handle  */ \
  __CPROVER_ensures(__CPROVER_return_value == gh_RH ==> !(gh_RH < __CPROVER_old(rg_n) && __CPROVER_old(rg_trk._used)))  /* never a slot that is in use */ \
  __CPROVER_ensures(__CPROVER_return_value == gh_RH ==> (T._used == 1 && T._pos == (newpos) && T._sub == sub && T._awt == 0 && T._kicked == 0)) \
  __CPROVER_ensures(__CPROVER_return_value == gh_RH ==> SUBSCRIBER_ACTIVE)                      /* the new subscriber may call next(): it stands behind the stream */ \
  __CPROVER_ensures((__CPROVER_return_value != gh_RH && gh_RH < __CPROVER_old(rg_n)) ==> T_SAME)                   /* the others are untouched */ \
  __CPROVER_ensures(T_IN ==> SLOT_INV(T, gh_RH)) __CPROVER_ensures(T_NOLOOP) \
  __CPROVER_ensures((__CPROVER_return_value != gh_RH && T_IN && T._used && rg_other_idx == __CPROVER_return_value) ==> (rg_other._used && rg_other._sub != T._sub))
#ifdef CV_HAS_q_subscribe_lk_pos
cv_i64 q_subscribe_lk_pos(QT *this_, SUBT *sub, cv_i64 pos)
__CPROVER_requires(LK_PRE(this_) && pos <= POS - 1)
__CPROVER_requires(T_NOLOOP && ((T_IN && T._used) ==> T._sub != sub))
__CPROVER_assigns(RG_MODEL_ASSIGNS, gh_allocs, this_->_next_free)
SUBSCRIBE_POST(pos)
;
#endif
/* subscribe_lk(sub) - register at the most recent position: the first value delivered is the next one published; whatever the
 * window holds now is enough for this subscriber (retention established). */
#ifdef CV_HAS_q_subscribe_lk_recent
cv_i64 q_subscribe_lk_recent(QT *this_, SUBT *sub)
__CPROVER_requires(LK_PRE(this_))
__CPROVER_requires(T_NOLOOP && ((T_IN && T._used) ==> T._sub != sub))
__CPROVER_assigns(RG_MODEL_ASSIGNS, gh_allocs, this_->_next_free)
SUBSCRIBE_POST(__CPROVER_old(QP->_pos) - 1)
__CPROVER_ensures(__CPROVER_return_value == gh_RH ==> T_RET)
;
#endif
/* subscribe_lk(h, sub) - "a copy of a subscriber continues independently from the original's position" (and the original is not affected).
 * The original's position is the position of the last value DELIVERED to it - the copy's first next() yields what the original's next next()
 * yields.  In terms of the registration: an idle original (between two next()) stands AT its last delivered position; an original that is
 * PARKED in next() is registered for the position it is waiting for, ONE PAST the last delivered one (it has not received that value: it is not
 * even published; machine-checked where a subscriber gets parked - PARKED_CHECK in proto_spec.h).  ORIG_DELIVERED is that abstraction.
 * The copy must be a subscriber that may call next() (SUBSCRIBER_ACTIVE) whenever the original is one (active, or parked) - a copy standing AT the
 * stream position would run past the stream with its first next(): end-of-stream on an open publisher / the awaited item skipped (audit D6).
 * Not distinguishable in the state and therefore outside this contract: an original that was kicked WHILE parked (stays one past, _awt cleared). */
#define ORIG_DELIVERED(s) ((s)._pos - ((s)._awt != 0 ? 1 : 0))
#define ORIG_MAY_NEXT(s)  ((s)._awt != 0 || (s)._pos < POS)                 /* parked in next(), or idle and behind the stream */
#ifdef CV_HAS_q_subscribe_lk_copy
cv_i64 gh_orig_pos;              /* logical variable: the original's position (last delivered) at entry (conditional entry value) */
cv_i64 q_subscribe_lk_copy(QT *this_, cv_i64 h, SUBT *sub)
__CPROVER_requires(LK_PRE(this_) && h < rg_n && gh_live_h == h)
__CPROVER_requires(T_NOLOOP && ((T_IN && T._used) ==> T._sub != sub))
__CPROVER_requires(h == gh_RH ==> (T._used && gh_orig_pos == ORIG_DELIVERED(T)))
__CPROVER_assigns(RG_MODEL_ASSIGNS, gh_allocs, this_->_next_free)
__CPROVER_ensures(cv_exc_pending == 0) Q_SAME_E Q_INV_E __CPROVER_ensures(rg_n >= __CPROVER_old(rg_n) && rg_n <= __CPROVER_old(rg_n) + 1)
__CPROVER_ensures(__CPROVER_return_value < rg_n && __CPROVER_return_value != h)
__CPROVER_ensures(h == gh_RH ==> (T_SAME && __CPROVER_return_value != gh_RH))                                      /* original untouched */
/* tracked slot = the ORIGINAL, the copy is the other slot */
__CPROVER_ensures((h == gh_RH && rg_other_idx == __CPROVER_return_value) ==> (rg_other._used && rg_other._awt == 0 && !rg_other._kicked && rg_other._sub == sub))
__CPROVER_ensures(/*C16-copy-position*/ (h == gh_RH && rg_other_idx == __CPROVER_return_value) ==> rg_other._pos == gh_orig_pos)   /* the copy continues from the original's position = the last position delivered to the original (a parked original is registered one past it) */
__CPROVER_ensures((h == gh_RH && rg_other_idx == __CPROVER_return_value && T_RET_OLD) ==> RETAINS(rg_other._pos, dq_len, POS, MAXL))   /* the window serves the copy if it served the original */
/* tracked slot = the COPY, the original is the other slot (still cached as the function saw it) */
__CPROVER_ensures(__CPROVER_return_value == gh_RH ==> !(gh_RH < __CPROVER_old(rg_n) && __CPROVER_old(rg_trk._used)))
__CPROVER_ensures(__CPROVER_return_value == gh_RH ==> (T._used == 1 && T._sub == sub && T._awt == 0 && T._kicked == 0 && T._pos <= POS))
__CPROVER_ensures(__CPROVER_return_value == gh_RH ==> (rg_other_idx == h && rg_other._used))
__CPROVER_ensures(/*C16-copy-position*/ (__CPROVER_return_value == gh_RH && rg_other_idx == h) ==> T._pos == ORIG_DELIVERED(rg_other))   /* the copy continues from the original's position (last delivered; a parked original is registered one past it) */
__CPROVER_ensures(/*C16-copy-active*/ (__CPROVER_return_value == gh_RH && rg_other_idx == h && ORIG_MAY_NEXT(rg_other)) ==> SUBSCRIBER_ACTIVE)   /* the copy of a subscriber that may call next() / is parked in next() may call next(): it stands BEHIND the stream (hypothesis of the history lemma) */
__CPROVER_ensures((__CPROVER_return_value == gh_RH && rg_other_idx == h && RETAINS(ORIG_DELIVERED(rg_other), dq_len, POS, MAXL)) ==> T_RET)   /* retention carried over (hypothesis gh_ret0p of the history lemma) */
__CPROVER_ensures((__CPROVER_return_value != gh_RH && gh_RH < __CPROVER_old(rg_n)) ==> T_SAME)
__CPROVER_ensures(T_IN ==> SLOT_INV(T, gh_RH)) __CPROVER_ensures(T_NOLOOP)
;
#endif

/* leave_lk(h) - the slot goes to the head of the free list; nobody else is affected */
#ifdef CV_HAS_q_leave_lk
void q_leave_lk(QT *this_, cv_i64 h)
__CPROVER_requires(LK_PRE(this_) && h < rg_n)
__CPROVER_requires(T_NOLOOP && (h == gh_RH ==> T._used))
__CPROVER_assigns(RG_MODEL_ASSIGNS, this_->_next_free)
__CPROVER_ensures(cv_exc_pending == 0) Q_SAME_E Q_INV_E __CPROVER_ensures(rg_n == __CPROVER_old(rg_n) && NFREE == h)
__CPROVER_ensures(h == gh_RH ==> (T._used == 0 && T._pos == __CPROVER_old(QP->_next_free)))
__CPROVER_ensures(h != gh_RH ==> T_SAME)
__CPROVER_ensures(T_IN ==> SLOT_INV(T, gh_RH)) __CPROVER_ensures(T_NOLOOP)
__CPROVER_ensures((h != gh_RH && T_IN && T._used) ==> (rg_other_idx == h && !rg_other._used && rg_other._pos != gh_RH && rg_other._pos <= rg_n))   /* the freed slot does not link to a used one */
;
#endif

/* =========================================================================================================================
 * advance_lk(h, t) - await_ready(): move to the next item if there is one.  Protocol precondition: the subscriber has not yet
 * received end-of-stream (kicked, or position still behind the stream) and is not parked. */
#ifdef CV_HAS_q_advance_lk
cv_i1 q_advance_lk(QT *this_, cv_i64 h, cv_i32 t)
__CPROVER_requires(LK_PRE(this_) && h < rg_n)
__CPROVER_requires(h == gh_RH ==> SUBSCRIBER_ACTIVE)
__CPROVER_assigns(RG_MODEL_ASSIGNS, dq_slot)
__CPROVER_ensures(cv_exc_pending == 0 && __CPROVER_return_value <= 1) Q_SAME_E Q_INV_E __CPROVER_ensures(rg_n == __CPROVER_old(rg_n) && NFREE == __CPROVER_old(QP->_next_free))
__CPROVER_ensures(h != gh_RH ==> T_SAME)                                                                        /* subscribers are independent */
__CPROVER_ensures(T._sub == __CPROVER_old(rg_trk._sub) && T._awt == __CPROVER_old(rg_trk._awt) && T._used == __CPROVER_old(rg_trk._used) && T._kicked == __CPROVER_old(rg_trk._kicked))
__CPROVER_ensures((h == gh_RH && __CPROVER_return_value == 0) ==> (T._pos == __CPROVER_old(rg_trk._pos) && (T._kicked || (T._pos + 1 == POS && !CLOSED))))   /* "not ready" only if kicked, or nothing new and not closed */
__CPROVER_ensures((h == gh_RH && __CPROVER_return_value == 1) ==> (!T._kicked && T._pos > __CPROVER_old(rg_trk._pos) && T._pos <= POS))                   /* forward only */
__CPROVER_ensures((h == gh_RH && __CPROVER_return_value == 1) ==> (T._pos < POS || CLOSED))                                                                    /* "ready" only if an item is there, or the stream is closed (end-of-stream is then reported by get_value_lk) */
__CPROVER_ensures((h == gh_RH && __CPROVER_return_value == 1 && ALL_VALUES(t)) ==> T._pos == __CPROVER_old(rg_trk._pos) + 1)                                /* all_values: exactly the next position */
__CPROVER_ensures((h == gh_RH && __CPROVER_return_value == 1 && t == 1) ==> T._pos == MAX2(__CPROVER_old(rg_trk._pos) + 1, POS - dq_len))                  /* skip_if_behind: next, or oldest retained */
__CPROVER_ensures((h == gh_RH && __CPROVER_return_value == 1 && t == 2) ==> T._pos == MAX2(__CPROVER_old(rg_trk._pos) + 1, POS - 1))                       /* skip_to_recent: the newest */
__CPROVER_ensures((h == gh_RH && T_RET_OLD) ==> T_RET)
__CPROVER_ensures(T_IN ==> SLOT_INV(T, gh_RH))
;
#endif

/* advance_suspend_lk(h, awt) - await_suspend(): called after advance_lk said "not ready" (the state may have moved on since: rely).
 * true = parked (the coroutine stays suspended until the awaiter is resumed); false = do not suspend, await_resume() follows
 * immediately - and get_value_lk delivers the item AT the registered position, so a non-kicked `false` must have moved the
 * subscriber to the next position (otherwise the item already consumed is delivered again: finding 8 of DESIGN section 6). */
#ifdef CV_HAS_q_advance_suspend_lk
cv_i1 q_advance_suspend_lk(QT *this_, cv_i64 h, AWT *awt)
__CPROVER_requires(LK_PRE(this_) && h < rg_n && awt != 0)
__CPROVER_requires(h == gh_RH ==> SUBSCRIBER_ACTIVE)
__CPROVER_requires(awt == gh_AW ==> gh_aw_state == 0)                                                           /* an awaiter is registered at most once */
__CPROVER_assigns(RG_MODEL_ASSIGNS)
__CPROVER_ensures(cv_exc_pending == 0 && __CPROVER_return_value <= 1) Q_SAME_E Q_INV_E __CPROVER_ensures(rg_n == __CPROVER_old(rg_n) && NFREE == __CPROVER_old(QP->_next_free))
__CPROVER_ensures(h != gh_RH ==> T_SAME)
__CPROVER_ensures(T._sub == __CPROVER_old(rg_trk._sub) && T._used == __CPROVER_old(rg_trk._used) && T._kicked == __CPROVER_old(rg_trk._kicked))
__CPROVER_ensures((h == gh_RH && __CPROVER_return_value == 1) ==> (T._awt == awt && T._pos == POS && T._pos == __CPROVER_old(rg_trk._pos) + 1 && !T._kicked && !CLOSED))  /* parked only when there is really nothing to deliver */
__CPROVER_ensures((h == gh_RH && __CPROVER_return_value == 0) ==> T._awt == 0)
__CPROVER_ensures((h == gh_RH && T._kicked) ==> (__CPROVER_return_value == 0 && T._pos == __CPROVER_old(rg_trk._pos)))
__CPROVER_ensures((h == gh_RH && __CPROVER_return_value == 0 && !T._kicked) ==> T._pos == __CPROVER_old(rg_trk._pos) + 1)   /*@ not-suspended-means-advanced (also when closed) */
__CPROVER_ensures((h == gh_RH && __CPROVER_return_value == 0 && !T._kicked && !CLOSED) ==> T._pos < POS)                   /* an item is there */
__CPROVER_ensures((h == gh_RH && T_RET_OLD) ==> T_RET)
__CPROVER_ensures(T_IN ==> SLOT_INV(T, gh_RH))
;
#endif

/* get_value_lk(h, t) - await_resume(): the value the subscriber is handed, or end-of-stream.  Returned std::optional<int> is
 * coerced by the ABI into an i64: payload in bits 0..31, engaged flag in bits 32..39.
 * DPOS = the STREAM POSITION OF THE VALUE HANDED OUT (lib/model_pubsub_dpos.c: the deque model notes which element operator[] referenced;
 * ids are stream positions by Q_STREAM).  The property speaks about that position ("contiguous, duplicate-free run", "strictly
 * increasing positions", "the newest value"), not about the registration counter; so every clause about a delivered value is stated
 * over DPOS, and the registration is tied to it: after a delivery the subscriber's position IS the delivered position (it is what
 * position() reports and what the next next() moves forward from; a registration left behind the delivered position makes the next
 * next() deliver that position again - audit D5). */
#define OPT_ENG(r) ((((r) >> 32) & 0xff) != 0)
#define OPT_VAL(r) ((cv_i32)(r))
#define DPOS gh_dq_ref_id
#ifdef CV_HAS_q_get_value_lk
cv_i64 q_get_value_lk(QT *this_, cv_i64 h, cv_i32 t)
__CPROVER_requires(LK_PRE(this_) && h < rg_n && h == gh_RH)      /* the tracked slot is the caller's (the assigns clause is the frame for all others) */
__CPROVER_requires(T._used && T._pos >= 1 && T._pos <= POS && DPOS == DQ_REF_NONE)                              /* after an advance */
__CPROVER_assigns(rg_trk, rg_other, rg_other_idx, dq_slot, gh_dq_ref_id)
__CPROVER_ensures(cv_exc_pending == 0) Q_SAME_E Q_INV_E __CPROVER_ensures(rg_n == __CPROVER_old(rg_n) && (((__CPROVER_return_value) >> 32) & 0xff) <= 1)
__CPROVER_ensures(T._sub == __CPROVER_old(rg_trk._sub) && T._awt == __CPROVER_old(rg_trk._awt) && T._used == __CPROVER_old(rg_trk._used) && T._kicked == __CPROVER_old(rg_trk._kicked))
__CPROVER_ensures(!OPT_ENG(__CPROVER_return_value) ==> T._pos == __CPROVER_old(rg_trk._pos))                     /* end-of-stream moves nothing */
__CPROVER_ensures(T_IN ==> SLOT_INV(T, gh_RH))
/* every mode: a delivered value is THE value published at the delivered position; that position is retained and not behind the registered one */
__CPROVER_ensures(OPT_ENG(__CPROVER_return_value) ==> (DQ_INWIN(DPOS) && DPOS >= __CPROVER_old(rg_trk._pos) && (DPOS == gh_P ==> OPT_VAL(__CPROVER_return_value) == gh_sval)))
__CPROVER_ensures(/*C16-delivered-position*/ OPT_ENG(__CPROVER_return_value) ==> T._pos == DPOS)   /* the subscriber's position is the position of the value delivered (skipping modes: else the same position is delivered again) */
/* all_values: exactly the registered position (nothing skipped) */
__CPROVER_ensures((ALL_VALUES(t) && OPT_ENG(__CPROVER_return_value)) ==> (!T._kicked && DPOS == __CPROVER_old(rg_trk._pos) && T._pos < POS))
/* all_values: end-of-stream only if kicked, or nothing left (position == stream position), or the needed position is no longer retained */
__CPROVER_ensures((ALL_VALUES(t) && !OPT_ENG(__CPROVER_return_value)) ==> (T._kicked || T._pos == POS || POS - T._pos - 1 >= dq_len))
/* ... and "no longer retained" means: fallen more than max behind (for a subscriber the window was kept for) */
__CPROVER_ensures((ALL_VALUES(t) && !OPT_ENG(__CPROVER_return_value) && !T._kicked && T._pos != POS && T_RET) ==> POS - T._pos > MAXL)
/* skipping modes: end-of-stream iff kicked or nothing left.  NB (audit D, weakness 5): this end-of-stream is NOT sticky.  The precondition
 * T._pos <= POS ("after an advance", no next() after end-of-stream) keeps it out of every unit, but the code accepts a further next(): advance_lk runs the
 * registration PAST the stream (max(l._pos+1, ...) with _closed set), `l._pos == _pos` is then false and _q[0] / the clamped _q[size()-1] is handed
 * out again - the last value re-delivered after end-of-stream (natively: EOF, v, v, v ...; with fix_skip_dup.diff: EOF, v, EOF, v ...).  all_values
 * (relpos underflows -> end-of-stream) and a kicked subscriber stay at end-of-stream.  Outside the property as stated ("up to its first end-of-stream
 * indication"), hence a remark, not an obligation. */
__CPROVER_ensures(!ALL_VALUES(t) ==> (OPT_ENG(__CPROVER_return_value) == !(T._kicked || __CPROVER_old(rg_trk._pos) == POS)))
__CPROVER_ensures((t == 1 && OPT_ENG(__CPROVER_return_value)) ==> DPOS == MAX2(__CPROVER_old(rg_trk._pos), POS - dq_len))   /* skip_if_behind: its own position, or the oldest retained if that is gone */
__CPROVER_ensures((t == 2 && OPT_ENG(__CPROVER_return_value)) ==> DPOS == POS - 1)                                       /* skip_to_recent: always the newest */
__CPROVER_ensures(T_RET_OLD ==> T_RET)
;
#endif

/* =========================================================================================================================
 * Thread-modular part (DESIGN 3.5).  Hooks of lib/model_mutex.c:
 *   c16_on_unlock - every release of the queue mutex: the queue invariant is an OBLIGATION (plus, in the push_lk unit, what push_lk
 *                   must have achieved inside its critical section);
 *   c16_on_lock   - every acquisition: RELY step - other threads have executed any number of complete critical sections. */
#define LOCK_ASSIGNS gh_lock_held, gh_lock_depth, gh_n_lock, gh_n_unlock
cv_i64 gh_pos0, gh_len0, gh_cnt;      /* push_lk: logical variables for the entry values of _pos, |_q| and the argument count   */
cv_i8 gh_ret0;                        /* push_lk: retention held for the tracked slot before the items were pushed              */
cv_i8 gh_closed0;                     /* pub_dtor_close: logical variable, the queue was already closed at entry                */
cv_i8 gh_parked;                      /* protocol units: this thread's coroutine is suspended on its (parked) awaiter  */
cv_i32 gh_n_unlock_chk;               /* number of releases at which the obligations were checked                               */
#define C16_ASSERT_INV(why) \
  __CPROVER_assert(Q_CFG, why ": configuration min >= 1, max >= min untouched, closed is a bool"); \
  __CPROVER_assert(Q_STREAM(0), why ": _pos >= 1, |_q| <= _pos-1, _q[G] == gh_stream[_pos-1-G]"); \
  __CPROVER_assert(Q_MINMAX, why ": min(min_len, published) <= |_q| <= max_len"); \
  __CPROVER_assert(Q_REGS, why ": free-list head in range"); \
  __CPROVER_assert(T_IN ==> SLOT_INV(T, gh_RH), why ": registration invariant (a parked awaiter only at reg._pos == _pos, not kicked, not closed)")
void c16_on_unlock(void *m) {
  QT *this_ = ps_q;
  __CPROVER_assert(m == (void *)&this_->_mx, "the mutex released is the queue mutex");
  gh_n_unlock_chk++;
  C16_ASSERT_INV("queue invariant when the mutex is released");
#ifdef C16_UNLOCK_PUSH
#ifndef C16_UNLOCK_PUSH_WHEN
#define C16_UNLOCK_PUSH_WHEN 1          /* units that run push_lk as part of a longer route (pub_dtor_close) name the release that is push_lk's */
#endif
  if (C16_UNLOCK_PUSH_WHEN) {
  /* what push_lk(lk, count) has to achieve before it lets go of the lock (property statement, clause by clause) */
  __CPROVER_assert(POS == gh_pos0 + gh_cnt, "push_lk: stream position advanced by exactly the number of pushed items");
  __CPROVER_assert((T_IN && T._used) ==> dq_len >= MIN3(POS - T._pos, MAXL, gh_len0), "push_lk: retains every position a registered subscriber still needs, up to max");
  __CPROVER_assert((T_IN && T._used && gh_ret0) ==> T_RET, "push_lk: a subscriber the window was sufficient for stays served until it falls more than max behind");
  __CPROVER_assert((T_IN && T._used) ==> T._awt == 0, "push_lk: no awaiter stays parked across a publish/close");
  __CPROVER_assert(gh_aw_state == 1 ==> wb_cnt == 1, "push_lk: the parked awaiter was collected for wake-up exactly once");
  __CPROVER_assert(gh_aw_state == 0 ==> wb_cnt == 0, "push_lk: an awaiter that is not parked is not collected");
  }
#endif
}
/* RELY: what the other threads may have done while this thread did not hold the mutex.  Each of their critical sections keeps the
 * queue invariant (the obligation above, for every function); towards MY registration (the tracked slot, while it is in use) they
 * guarantee: _pos/_sub/_used untouched, _awt only cleared (wake-up: publish, close, kick), _kicked only set, the window keeps
 * serving it (retention).  The stream only grows, _closed only becomes true, trimmed items never come back. */
void c16_rely(QT *this_) {
  cv_i64 k = nondet_size_t(), nl = nondet_size_t(), nn = nondet_size_t(), nf = nondet_size_t();
  cv_i8 cl = (cv_i8)nondet_unsigned(), ki = (cv_i8)nondet_unsigned();
  cv_i64 low0 = dq_front + 1 - dq_len;                          /* ids below are gone for good                     */
  cv_i1 mine = (T_IN && T._used) ? 1 : 0, ret0 = (mine && T_RET) ? 1 : 0;
  __CPROVER_assume(k < PS_BIG && POS + k < PS_BIG);
  __CPROVER_assume(cl <= 1 && cl >= CLOSED && ki <= 1);
  cv_i1 event = (k > 0 || cl != CLOSED) ? 1 : 0;
  cv_i1 parked = (mine && T._awt != 0) ? 1 : 0;
  POS += k; dq_front += k; CLOSED = cl;
  dq_len = nl; __CPROVER_assume(dq_len <= POS - 1 && Q_MINMAX && dq_front + 1 - dq_len >= low0);
  { cv_i32 v = (cv_i32)nondet_unsigned(); if (DQ_INWIN(gh_P)) v = gh_sval; dq_trk = v; }   /* == gh_stream[gh_P] whenever retained */
  __CPROVER_assume(nn >= rg_n && nn <= PS_BIG && nf <= nn);
  rg_n = nn; NFREE = nf;
  if (mine) {
    if (ki >= T._kicked && ki != T._kicked) { T._kicked = ki; event = 1; }
    if (event) T._awt = 0;                                      /* whoever publishes / closes / kicks wakes the parked awaiter */
#ifdef C16_PARKED_FLAG
    if (C16_PARKED_FLAG) { __CPROVER_assume(!parked || event); C16_PARKED_FLAG = 0; }   /* wake-up assumption: a suspended coroutine runs again only after
                                                                   its awaiter was resumed, i.e. after a publish, close or kick that found it parked */
#endif
    __CPROVER_assume(NFREE != gh_RH);
    __CPROVER_assume(ret0 ==> T_RET);
  } else {                                                      /* a slot nobody owns may be handed to a new subscriber */
    SUBREG nd; __CPROVER_assume(nd._used <= 1 && nd._kicked <= 1); T = nd;
    __CPROVER_assume(T_IN ==> (SLOT_INV(T, gh_RH) && SLOT_NOLOOP(T, gh_RH)));
    __CPROVER_assume(gh_aw_state == 2 || !(T_IN && T._used && T._awt == gh_AW));
  }
  rg_other_idx = RG_NONE;
  WB_LEN(&this_->_wakeup_buffer) = nondet_size_t(); wb_cnt = 2;   /* their push_lk used the buffer */
}
cv_i8 gh_rely_on;                     /* units pin this: 1 = apply the rely at every acquisition */
void c16_on_lock(void *m) { QT *this_ = ps_q; __CPROVER_assert(m == (void *)&this_->_mx, "the mutex acquired is the queue mutex"); if (gh_rely_on) c16_rely(this_); }

/* =========================================================================================================================
 * push_lk(lk, count) - called with the lock held after `count` items were pushed to the front of _q (count == 0: close()).
 * Two critical sections: [advance _pos, collect parked awaiters, trim the window] unlock [resume] lock [give the buffer back]. */
#define SLOT_INV_PUSHPRE(s, i) ((s)._used <= 1 && (s)._kicked <= 1 && ((s)._used ==> ((s)._pos <= POS && NFREE != (i))) && \
   (((s)._used && (s)._awt != 0) ==> ((s)._pos == POS && !(s)._kicked)) && (!(s)._used ==> (s)._pos <= rg_n))     /* close() has already set _closed */
#ifdef CV_HAS_std_min_il
/* std::min(std::initializer_list<size_t>) - assumed contract (the list has the three elements written in push_lk) */
cv_i64 std_min_il(cv_i64 *a, cv_i64 n) {
  __CPROVER_assert(n >= 1 && n <= 3, "model bound: std::min over an initializer_list of 1..3 elements");
  cv_i64 m = a[0]; if (n > 1 && a[1] < m) m = a[1]; if (n > 2 && a[2] < m) m = a[2]; return m; }
#endif
#ifdef CV_HAS_q_push_lk
#define PUSH_I0      PS_DEC(__begin0__mem._M_current)
#ifndef CV_BOUNDED_FALLBACK
#define CV_LOOP_q_push_lk_0 \
  __CPROVER_assigns(CV_LOOP_LOCALS_q_push_lk_0, rg_trk, rg_other, rg_other_idx, wb_cnt, wb_idx, gh_allocs, this1->_wakeup_buffer) \
  __CPROVER_loop_invariant(PUSH_I0 <= rg_n && __begin0__mem._M_current == PS_ENC(SUBREG, PUSH_I0) && __end0__mem._M_current == PS_ENC(SUBREG, rg_n) && (rg_other_idx == RG_NONE || rg_other_idx < PUSH_I0)) \
  __CPROVER_loop_invariant(need_len__mem >= this1->_min_queue_len && WB_LEN(&this1->_wakeup_buffer) <= PS_BIG) \
  __CPROVER_loop_invariant(T._pos == __CPROVER_loop_entry(rg_trk._pos) && T._sub == __CPROVER_loop_entry(rg_trk._sub) && T._used == __CPROVER_loop_entry(rg_trk._used) && T._kicked == __CPROVER_loop_entry(rg_trk._kicked)) \
  __CPROVER_loop_invariant((T_IN && T._used && gh_RH < PUSH_I0) ==> (T._awt == 0 && need_len__mem >= this1->_pos - T._pos)) \
  __CPROVER_loop_invariant(gh_RH >= PUSH_I0 ==> T._awt == __CPROVER_loop_entry(rg_trk._awt)) \
  __CPROVER_loop_invariant(!(T_IN && T._used) ==> T._awt == __CPROVER_loop_entry(rg_trk._awt)) \
  __CPROVER_loop_invariant(gh_aw_state == 1 ==> (wb_cnt == (gh_RH < PUSH_I0 ? 1 : 0) && (gh_RH < PUSH_I0 ==> wb_idx < WB_LEN(&this1->_wakeup_buffer)))) \
  __CPROVER_loop_invariant(gh_aw_state == 0 ==> wb_cnt == 0)
#define PUSH_I1      PS_DEC(__begin3__mem._M_current)
#define CV_LOOP_q_push_lk_1 \
  __CPROVER_assigns(CV_LOOP_LOCALS_q_push_lk_1, gh_n_res, gh_n_res_AW, gh_n_sp_dtor, wb_slot) \
  __CPROVER_loop_invariant(PUSH_I1 <= WB_LEN(&wk__mem) && __begin3__mem._M_current == PS_ENC(AWT *, PUSH_I1) && __end3__mem._M_current == PS_ENC(AWT *, WB_LEN(&wk__mem)) && cv_exc_pending == 0) \
  __CPROVER_loop_invariant(gh_n_res == __CPROVER_loop_entry(gh_n_res) + PUSH_I1 && gh_n_sp_dtor == __CPROVER_loop_entry(gh_n_sp_dtor) + PUSH_I1) \
  __CPROVER_loop_invariant(gh_aw_state == 1 ==> gh_n_res_AW == __CPROVER_loop_entry(gh_n_res_AW) + (PUSH_I1 > wb_idx ? 1 : 0)) \
  __CPROVER_loop_invariant(gh_aw_state == 0 ==> gh_n_res_AW == __CPROVER_loop_entry(gh_n_res_AW))
#endif
void q_push_lk(QT *this_, ULK *lk, cv_i64 count)
#ifdef CV_BOUNDED_FALLBACK
__CPROVER_requires(rg_n <= 3 && WB_LEN(&ps_q->_wakeup_buffer) == 0)     /* bounded sibling: loops unwound, <= 3 registrations */
#endif
__CPROVER_requires(cv_exc_pending == 0 && this_ == ps_q && lk->_M_device == &this_->_mx && lk->_M_owns == 1 && HELD(this_))
__CPROVER_requires(count < PS_BIG && Q_CFG && Q_STREAM(count) && POS + count < PS_BIG && dq_len >= MIN2(MINL, POS - 1) + count && dq_len - count <= MAXL && Q_REGS)
__CPROVER_requires((T_IN ==> SLOT_INV_PUSHPRE(T, gh_RH)) && rg_other_idx == RG_NONE && GH_PIN)
__CPROVER_requires(gh_pos0 == POS && gh_len0 == dq_len && gh_cnt == count && gh_ret0 <= 1 && (gh_ret0 ==> RETAINS(T._pos, dq_len - count, POS, MAXL)))
__CPROVER_requires(gh_rely_on == 1 && gh_n_unlock_chk == 0 && gh_n_res < PS_BIG && gh_n_sp_dtor < PS_BIG && gh_n_res_AW < PS_BIG)
__CPROVER_assigns(MODEL_ASSIGNS, LOCK_ASSIGNS, gh_n_unlock_chk, __CPROVER_object_whole(this_), __CPROVER_object_whole(lk))
__CPROVER_ensures(cv_exc_pending == 0 && HELD(this_) && lk->_M_owns == 1 && lk->_M_device == &this_->_mx)        /* returns with the lock held again */
__CPROVER_ensures(gh_n_unlock_chk == 1)                                                                           /* exactly one release: the obligations listed in c16_on_unlock were checked there */
__CPROVER_ensures(gh_aw_state == 1 ==> gh_n_res_AW == __CPROVER_old(gh_n_res_AW) + 1)                             /* every parked awaiter is resumed exactly once (outside the lock: obligation in the resume model) */
__CPROVER_ensures(gh_aw_state == 0 ==> gh_n_res_AW == __CPROVER_old(gh_n_res_AW))                                 /* nobody else is */
__CPROVER_ensures(gh_n_res - __CPROVER_old(gh_n_res) == gh_n_sp_dtor - __CPROVER_old(gh_n_sp_dtor))               /* every returned suspend point is run (destroyed) */
;
#endif

/* =========================================================================================================================
 * kick_lk(sub, lk): the subscriber identified by `sub` is marked kicked, its parked awaiter (if any) is resumed after the lock
 * was released; nobody else is affected.  std::find_if = assumed contract, evaluated with the REAL translated lambda. */
#ifdef CV_HAS_kick_find_if
cv_i64 gh_find_k;
SUBREG *kick_find_if(SUBREG *first, SUBREG *last, SUBT **clos_sub) {
  struct { SUBT **sub; } clos = { clos_sub };
  cv_i64 b = PS_DEC(first), e = PS_DEC(last), k = nondet_size_t();
  __CPROVER_assert(b <= e && e <= rg_n, "std::find_if: [first,last) is a valid range of the registration vector");
  __CPROVER_assert(gh_lock_depth > 0, "registrations: find_if: queue mutex held (lock discipline)");
  __CPROVER_assume(b <= k && k <= e);
  if (k < e) { SUBREG *s = ps_reg_ref(k); __CPROVER_assume(kick_pred((void *)&clos, s) != 0); }          /* the result satisfies the predicate */
  if (b <= gh_RH && gh_RH < k) __CPROVER_assume(kick_pred((void *)&clos, &rg_trk) == 0);                 /* and nothing before it does          */
  gh_find_k = k; return PS_ENC(SUBREG, k); }
#endif
#ifdef CV_HAS_q_kick_lk
#define KICK_MATCH (gh_RH < rg_n && __CPROVER_old(rg_trk._used) && __CPROVER_old(rg_trk._sub) == sub)
void q_kick_lk(QT *this_, SUBT *sub, ULK *lk)
__CPROVER_requires(LK_PRE(this_) && lk->_M_device == &this_->_mx && lk->_M_owns == 1)
__CPROVER_requires(gh_n_unlock_chk == 0 && gh_n_res < PS_BIG && gh_n_sp_dtor < PS_BIG && gh_n_res_AW < PS_BIG)
__CPROVER_assigns(MODEL_ASSIGNS, LOCK_ASSIGNS, gh_n_unlock_chk, gh_find_k, __CPROVER_object_whole(lk))
__CPROVER_ensures(cv_exc_pending == 0 && FREE_LOCK && lk->_M_owns == 0 && gh_n_unlock_chk == 1) Q_SAME_E Q_INV_E
__CPROVER_ensures(rg_n == __CPROVER_old(rg_n) && NFREE == __CPROVER_old(QP->_next_free))
__CPROVER_ensures(KICK_MATCH ==> (T._kicked == 1 && T._awt == 0 && T._used == 1 && T._pos == __CPROVER_old(rg_trk._pos) && T._sub == sub))    /* kicked, un-parked, position kept */
__CPROVER_ensures((!KICK_MATCH && T_IN) ==> T_SAME)                                                                   /* nobody else is affected */
__CPROVER_ensures((gh_aw_state == 1 && KICK_MATCH) ==> gh_n_res_AW == __CPROVER_old(gh_n_res_AW) + 1)                  /* its parked awaiter is woken exactly once */
__CPROVER_ensures((gh_aw_state == 1 && !KICK_MATCH) ==> gh_n_res_AW == __CPROVER_old(gh_n_res_AW))                    /* other subscribers' awaiters are not */
__CPROVER_ensures(gh_aw_state == 0 ==> gh_n_res_AW == __CPROVER_old(gh_n_res_AW))
__CPROVER_ensures(gh_n_res <= __CPROVER_old(gh_n_res) + 1 && gh_n_res - __CPROVER_old(gh_n_res) == gh_n_sp_dtor - __CPROVER_old(gh_n_sp_dtor))
__CPROVER_ensures(T_IN ==> SLOT_INV(T, gh_RH))
;
#endif
