/* C16 - publisher<int> and subscriber<int> members: forwarders over the queue's public (locking) members, which are abstract
 * callees here (stubs that log the call: which member, arguments, result handed back; obligation: NOT called with the queue mutex held).
 * Postconditions: the right queue member, once, with the right arguments, in the right order; results stored / returned unchanged. */
#define SQ(s)   (*(QT **)&(s)->_q)                /* shared_ptr<queue>::_M_ptr (first word)                                  */
#define SVAL(s) (*(cv_i32 *)&(s)->_val)           /* std::optional<int>: payload at offset 0, engaged flag at offset 4       */
#define SENG(s) (((cv_i8 *)&(s)->_val)[4])
enum { C_NONE, C_SUBSCRIBE_POS, C_SUBSCRIBE_RECENT, C_SUBSCRIBE_COPY, C_ADVANCE, C_ADVANCE_SUSPEND, C_LEAVE, C_GET_VALUE, C_PUSH_MOVE, C_PUSH_COPY,
       C_PUSH_RANGE, C_CLOSE, C_KICK, C_POSITION, C_READY, C_SUBSCRIBE, C_CHECK_NEXT, C_WAIT };
#define LOGN 6
cv_i32 gh_log_n; cv_i8 gh_log_fn[LOGN]; void *gh_log_this[LOGN]; cv_i64 gh_log_a1[LOGN], gh_log_a2[LOGN], gh_log_ret[LOGN];
cv_i32 gh_sp_refs;                                /* shared_ptr<queue> copies alive (control block not modelled: a counter)  */
#define LOG_ASSIGNS gh_log_n, __CPROVER_object_whole(gh_log_fn), __CPROVER_object_whole(gh_log_this), __CPROVER_object_whole(gh_log_a1), __CPROVER_object_whole(gh_log_a2), __CPROVER_object_whole(gh_log_ret), gh_sp_refs
static cv_i64 c16_log(cv_i8 fn, void *th, cv_i64 a1, cv_i64 a2) {
  __CPROVER_assert(gh_log_n < LOGN, "model bound: at most 6 queue calls per member");
  __CPROVER_assert(gh_lock_depth == 0, "queue member that takes the mutex is called without holding it (no self-deadlock)");
  cv_i64 r = nondet_size_t();
  gh_log_fn[gh_log_n] = fn; gh_log_this[gh_log_n] = th; gh_log_a1[gh_log_n] = a1; gh_log_a2[gh_log_n] = a2; gh_log_ret[gh_log_n] = r; gh_log_n++;
  return r; }
#define LOGGED(k, fn, th, a1, a2) (gh_log_n > (k) && gh_log_fn[k] == (fn) && gh_log_this[k] == (void *)(th) && gh_log_a1[k] == (cv_i64)(a1) && gh_log_a2[k] == (cv_i64)(a2))
#define SUB_PRE (cv_exc_pending == 0 && FREE_LOCK && gh_log_n == 0)
/* ---- abstract callees */
#ifdef CV_HAS_st_q_subscribe_pos
cv_i64 st_q_subscribe_pos(QT *q, SUBT *s, cv_i64 pos) { return c16_log(C_SUBSCRIBE_POS, q, (cv_i64)s, pos); }
#endif
#ifdef CV_HAS_st_q_subscribe_recent
cv_i64 st_q_subscribe_recent(QT *q, SUBT *s) { return c16_log(C_SUBSCRIBE_RECENT, q, (cv_i64)s, 0); }
#endif
#ifdef CV_HAS_st_q_subscribe_copy
cv_i64 st_q_subscribe_copy(QT *q, cv_i64 h, SUBT *s) { return c16_log(C_SUBSCRIBE_COPY, q, h, (cv_i64)s); }
#endif
#ifdef CV_HAS_st_q_advance
cv_i1 st_q_advance(QT *q, cv_i64 h, cv_i32 t) { return (cv_i1)(c16_log(C_ADVANCE, q, h, t) & 1); }
#endif
#ifdef CV_HAS_st_q_advance_suspend
cv_i1 st_q_advance_suspend(QT *q, cv_i64 h, AWT *a) { return (cv_i1)(c16_log(C_ADVANCE_SUSPEND, q, h, (cv_i64)a) & 1); }
#endif
#ifdef CV_HAS_st_q_leave
void st_q_leave(QT *q, cv_i64 h) { c16_log(C_LEAVE, q, h, 0); }
#endif
#ifdef CV_HAS_st_q_get_value
cv_i64 st_q_get_value(QT *q, cv_i64 h, cv_i32 t) { cv_i64 r = c16_log(C_GET_VALUE, q, h, t); __CPROVER_assume(((r >> 32) & 0xff) <= 1); return r; }
#endif
#ifdef CV_HAS_st_q_push_move
void st_q_push_move(QT *q, cv_i32 *v) { c16_log(C_PUSH_MOVE, q, (cv_i64)v, *v); }
#endif
#ifdef CV_HAS_st_q_push_copy
void st_q_push_copy(QT *q, cv_i32 *v) { c16_log(C_PUSH_COPY, q, (cv_i64)v, *v); }
#endif
#ifdef CV_HAS_st_q_push_range
void st_q_push_range(QT *q, cv_i32 **b, cv_i32 **e) { c16_log(C_PUSH_RANGE, q, (cv_i64)*b, (cv_i64)*e); }
#endif
#ifdef CV_HAS_st_q_close
void st_q_close(QT *q) { c16_log(C_CLOSE, q, 0, 0); }
#endif
#ifdef CV_HAS_st_q_kick
void st_q_kick(QT *q, SUBT *s) { c16_log(C_KICK, q, (cv_i64)s, 0); }
#endif
#ifdef CV_HAS_st_q_position
cv_i64 st_q_position(QT *q, cv_i64 h) { return c16_log(C_POSITION, q, h, 0); }
#endif
#ifdef CV_HAS_st_shq_copy
void st_shq_copy(SHQ *dst, SHQ *src) { *(QT **)dst = *(QT **)src; gh_sp_refs++; }
#endif
#ifdef CV_HAS_st_shq_dtor
void st_shq_dtor(SHQ *p) { gh_sp_refs--; }
#endif
#ifdef CV_HAS_st_sub_ready
cv_i1 st_sub_ready(SUBT *s) { return (cv_i1)(c16_log(C_READY, s, 0, 0) & 1); }
#endif
#ifdef CV_HAS_st_sub_subscribe
cv_i1 st_sub_subscribe(SUBT *s, AWT *a) {
#ifdef CV_HAS_sync_wakeup
  __CPROVER_assert(a->_resume_fn == sync_wakeup && *(cv_i8 *)(a + 1) == 0, "the blocking waiter registers a sync_awaiter (resume function = sync_awaiter::wakeup) whose flag is still clear");
#endif
  return (cv_i1)(c16_log(C_SUBSCRIBE, s, (cv_i64)a, 0) & 1); }
#endif
#ifdef CV_HAS_st_sub_check_next
cv_i1 st_sub_check_next(SUBT *s) { return (cv_i1)(c16_log(C_CHECK_NEXT, s, 0, 0) & 1); }
#endif
#ifdef CV_HAS_st_atomic_wait
void st_atomic_wait(ATOMB *flag, cv_i1 old, cv_i32 mo) { c16_log(C_WAIT, flag, old, 0); }     /* blocks until the flag differs from `old` */
#endif

/* ---- publisher<int> */
#ifdef CV_HAS_pub_publish_move
typedef struct S_class_cocls__publisher PUBT;
void pub_publish_move(PUBT *this_, cv_i32 *v)
__CPROVER_requires(SUB_PRE && __CPROVER_is_fresh(v, sizeof(*v))) __CPROVER_assigns(LOG_ASSIGNS)
__CPROVER_ensures(cv_exc_pending == 0 && gh_log_n == 1 && LOGGED(0, C_PUSH_MOVE, ps_q, v, *v) && *v == __CPROVER_old(*v))
;
void h_pub_publish_move(void) { QT qo; PUBT po; cv_i32 *v; ps_q = &qo; *(QT **)&po = &qo; pub_publish_move(&po, v); __CPROVER_assert(0, "SENTINEL reachable"); }
#endif
#ifdef CV_HAS_pub_publish_copy
typedef struct S_class_cocls__publisher PUBT;
void pub_publish_copy(PUBT *this_, cv_i32 *v)
__CPROVER_requires(SUB_PRE && __CPROVER_is_fresh(v, sizeof(*v))) __CPROVER_assigns(LOG_ASSIGNS)
__CPROVER_ensures(cv_exc_pending == 0 && gh_log_n == 1 && LOGGED(0, C_PUSH_COPY, ps_q, v, *v) && *v == __CPROVER_old(*v))
;
void h_pub_publish_copy(void) { QT qo; PUBT po; cv_i32 *v; ps_q = &qo; *(QT **)&po = &qo; pub_publish_copy(&po, v); __CPROVER_assert(0, "SENTINEL reachable"); }
#endif
#ifdef CV_HAS_pub_publish_range
typedef struct S_class_cocls__publisher PUBT;
void pub_publish_range(PUBT *this_, cv_i32 **b, cv_i32 **e)
__CPROVER_requires(SUB_PRE && __CPROVER_is_fresh(b, sizeof(*b)) && __CPROVER_is_fresh(e, sizeof(*e))) __CPROVER_assigns(LOG_ASSIGNS)
__CPROVER_ensures(cv_exc_pending == 0 && gh_log_n == 1 && LOGGED(0, C_PUSH_RANGE, ps_q, *b, *e) && *b == __CPROVER_old(*b) && *e == __CPROVER_old(*e))
;
void h_pub_publish_range(void) { QT qo; PUBT po; cv_i32 **b, **e; ps_q = &qo; *(QT **)&po = &qo; pub_publish_range(&po, b, e); __CPROVER_assert(0, "SENTINEL reachable"); }
#endif
#ifdef CV_HAS_pub_close
typedef struct S_class_cocls__publisher PUBT;
void pub_close(PUBT *this_)
__CPROVER_requires(SUB_PRE) __CPROVER_assigns(LOG_ASSIGNS)
__CPROVER_ensures(cv_exc_pending == 0 && gh_log_n == 1 && LOGGED(0, C_CLOSE, ps_q, 0, 0))
;
void h_pub_close(void) { QT qo; PUBT po; ps_q = &qo; *(QT **)&po = &qo; pub_close(&po); __CPROVER_assert(0, "SENTINEL reachable"); }
#endif
#ifdef CV_HAS_pub_kick
typedef struct S_class_cocls__publisher PUBT;
void pub_kick(PUBT *this_, SUBT *s)
__CPROVER_requires(SUB_PRE) __CPROVER_assigns(LOG_ASSIGNS)
__CPROVER_ensures(cv_exc_pending == 0 && gh_log_n == 1 && LOGGED(0, C_KICK, ps_q, s, 0))
;
void h_pub_kick(void) { QT qo; PUBT po; SUBT *s; ps_q = &qo; *(QT **)&po = &qo; pub_kick(&po, s); __CPROVER_assert(0, "SENTINEL reachable"); }
#endif
/* ~publisher(): destroying the publisher closes the queue (close wakes every waiting subscriber: units q_close, push_lk) and drops its reference */
#ifdef CV_HAS_pub_dtor
typedef struct S_class_cocls__publisher PUBT;
void pub_dtor(PUBT *this_)
__CPROVER_requires(SUB_PRE) __CPROVER_assigns(LOG_ASSIGNS)
__CPROVER_ensures(cv_exc_pending == 0 && gh_log_n == 1 && LOGGED(0, C_CLOSE, ps_q, 0, 0) && gh_sp_refs == __CPROVER_old(gh_sp_refs) - 1)
;
void h_pub_dtor(void) { QT qo; PUBT po; ps_q = &qo; *(QT **)&po = &qo; pub_dtor(&po); __CPROVER_assert(0, "SENTINEL reachable"); }
#endif

/* ---- subscriber<int> */
#define HSUB QT qo; SUBT so; SUBT *s = &so; ps_q = &qo; SQ(s) = &qo
#ifdef CV_HAS_sub_ctor
typedef struct S_class_cocls__publisher PUBT;
void sub_ctor(SUBT *this_, PUBT *pub, cv_i32 t)
__CPROVER_requires(SUB_PRE) __CPROVER_assigns(LOG_ASSIGNS, __CPROVER_object_whole(this_))
__CPROVER_ensures(cv_exc_pending == 0 && gh_log_n == 1 && LOGGED(0, C_SUBSCRIBE_RECENT, ps_q, this_, 0))                 /* registers itself at the most recent position */
__CPROVER_ensures(SQ(this_) == ps_q && this_->_h == gh_log_ret[0] && this_->_t == t && SENG(this_) == 0 && gh_sp_refs == __CPROVER_old(gh_sp_refs) + 1)
;
void h_sub_ctor(void) { QT qo; PUBT po; SUBT so; cv_i32 t; ps_q = &qo; *(QT **)&po = &qo; sub_ctor(&so, &po, t); __CPROVER_assert(0, "SENTINEL reachable"); }
#endif
#ifdef CV_HAS_sub_ctor_pos
typedef struct S_class_cocls__publisher PUBT;
void sub_ctor_pos(SUBT *this_, PUBT *pub, cv_i64 pos, cv_i32 t)
__CPROVER_requires(SUB_PRE) __CPROVER_assigns(LOG_ASSIGNS, __CPROVER_object_whole(this_))
__CPROVER_ensures(cv_exc_pending == 0 && gh_log_n == 1 && LOGGED(0, C_SUBSCRIBE_POS, ps_q, this_, pos))
__CPROVER_ensures(SQ(this_) == ps_q && this_->_h == gh_log_ret[0] && this_->_t == t && SENG(this_) == 0 && gh_sp_refs == __CPROVER_old(gh_sp_refs) + 1)
;
void h_sub_ctor_pos(void) { QT qo; PUBT po; SUBT so; cv_i32 t; cv_i64 pos; ps_q = &qo; *(QT **)&po = &qo; sub_ctor_pos(&so, &po, pos, t); __CPROVER_assert(0, "SENTINEL reachable"); }
#endif
/* copy: the copy registers itself from the ORIGINAL's handle (queue::subscribe(h, sub) -> starts at the original's position), same mode;
 * the original is not written */
#ifdef CV_HAS_sub_copy
void sub_copy(SUBT *this_, SUBT *other)
__CPROVER_requires(SUB_PRE && this_ != other) __CPROVER_assigns(LOG_ASSIGNS, __CPROVER_object_whole(this_))
__CPROVER_ensures(cv_exc_pending == 0 && gh_log_n == 1 && LOGGED(0, C_SUBSCRIBE_COPY, ps_q, other->_h, this_))
__CPROVER_ensures(SQ(this_) == ps_q && this_->_h == gh_log_ret[0] && this_->_t == other->_t && SENG(this_) == 0 && gh_sp_refs == __CPROVER_old(gh_sp_refs) + 1)
;
void h_sub_copy(void) { HSUB; SUBT co; sub_copy(&co, s); __CPROVER_assert(0, "SENTINEL reachable"); }
#endif
#ifdef CV_HAS_sub_dtor
void sub_dtor(SUBT *this_)
__CPROVER_requires(SUB_PRE) __CPROVER_assigns(LOG_ASSIGNS)
__CPROVER_ensures(cv_exc_pending == 0 && gh_log_n == 1 && LOGGED(0, C_LEAVE, ps_q, this_->_h, 0) && gh_sp_refs == __CPROVER_old(gh_sp_refs) - 1)
;
void h_sub_dtor(void) { HSUB; sub_dtor(s); __CPROVER_assert(0, "SENTINEL reachable"); }
#endif
#ifdef CV_HAS_subm_ready
cv_i1 subm_ready(SUBT *this_)
__CPROVER_requires(SUB_PRE) __CPROVER_assigns(LOG_ASSIGNS)
__CPROVER_ensures(cv_exc_pending == 0 && gh_log_n == 1 && LOGGED(0, C_ADVANCE, ps_q, this_->_h, this_->_t) && __CPROVER_return_value == (gh_log_ret[0] & 1))
;
void h_sub_ready(void) { HSUB; subm_ready(s); __CPROVER_assert(0, "SENTINEL reachable"); }
#endif
#ifdef CV_HAS_subm_subscribe
cv_i1 subm_subscribe(SUBT *this_, AWT *a)
__CPROVER_requires(SUB_PRE) __CPROVER_assigns(LOG_ASSIGNS)
__CPROVER_ensures(cv_exc_pending == 0 && gh_log_n == 1 && LOGGED(0, C_ADVANCE_SUSPEND, ps_q, this_->_h, a) && __CPROVER_return_value == (gh_log_ret[0] & 1))
;
void h_sub_subscribe(void) { HSUB; AWT *a; subm_subscribe(s, a); __CPROVER_assert(0, "SENTINEL reachable"); }
#endif
/* check_next(): the optional handed back by get_value is what value() / the bool result expose */
#ifdef CV_HAS_subm_check_next
cv_i1 subm_check_next(SUBT *this_)
__CPROVER_requires(SUB_PRE && SENG(this_) <= 1) __CPROVER_assigns(LOG_ASSIGNS, this_->_val)
__CPROVER_ensures(cv_exc_pending == 0 && gh_log_n == 1 && LOGGED(0, C_GET_VALUE, ps_q, this_->_h, this_->_t))
__CPROVER_ensures(__CPROVER_return_value == ((gh_log_ret[0] >> 32) & 0xff) && SENG(this_) == __CPROVER_return_value && (__CPROVER_return_value ==> SVAL(this_) == (cv_i32)gh_log_ret[0]))
;
void h_sub_check_next(void) { HSUB; subm_check_next(s); __CPROVER_assert(0, "SENTINEL reachable"); }
#endif
#ifdef CV_HAS_subm_position
cv_i64 subm_position(SUBT *this_)
__CPROVER_requires(SUB_PRE) __CPROVER_assigns(LOG_ASSIGNS)
__CPROVER_ensures(cv_exc_pending == 0 && gh_log_n == 1 && LOGGED(0, C_POSITION, ps_q, this_->_h, 0) && __CPROVER_return_value == gh_log_ret[0])
;
void h_sub_position(void) { HSUB; subm_position(s); __CPROVER_assert(0, "SENTINEL reachable"); }
#endif
#ifdef CV_HAS_subm_kick_me
void subm_kick_me(SUBT *this_)
__CPROVER_requires(SUB_PRE) __CPROVER_assigns(LOG_ASSIGNS)
__CPROVER_ensures(cv_exc_pending == 0 && gh_log_n == 1 && LOGGED(0, C_KICK, ps_q, this_, 0))
;
void h_sub_kick_me(void) { HSUB; subm_kick_me(s); __CPROVER_assert(0, "SENTINEL reachable"); }
#endif
#ifdef CV_HAS_subm_value
cv_i32 *subm_value(SUBT *this_)
__CPROVER_requires(SUB_PRE) __CPROVER_assigns()
__CPROVER_ensures(__CPROVER_return_value == &SVAL(this_))
;
void h_sub_value(void) { HSUB; subm_value(s); __CPROVER_assert(0, "SENTINEL reachable"); }
#endif
/* next_ready() = await_ready(), and await_resume() only when ready */
#ifdef CV_HAS_subm_next_ready
cv_i1 subm_next_ready(SUBT *this_)
__CPROVER_requires(SUB_PRE) __CPROVER_assigns(LOG_ASSIGNS)
__CPROVER_ensures(cv_exc_pending == 0 && LOGGED(0, C_READY, this_, 0, 0))
__CPROVER_ensures((gh_log_ret[0] & 1) == 0 ==> (gh_log_n == 1 && __CPROVER_return_value == 0))
__CPROVER_ensures((gh_log_ret[0] & 1) == 1 ==> (gh_log_n == 2 && LOGGED(1, C_CHECK_NEXT, this_, 0, 0) && __CPROVER_return_value == (gh_log_ret[1] & 1)))
;
void h_sub_next_ready(void) { HSUB; subm_next_ready(s); __CPROVER_assert(0, "SENTINEL reachable"); }
#endif
/* ---- next_awt (co_awaiter<subscriber>) */
#define NOWNER(a) (*(SUBT **)((AWT *)(a) + 1))       /* co_awaiter::_owner follows the awaiter base */
#define HAWT HSUB; NAWT ao; NAWT *a = &ao; NOWNER(a) = s
#ifdef CV_HAS_awt_ready
cv_i1 awt_ready(COAW *this_)
__CPROVER_requires(SUB_PRE) __CPROVER_assigns(LOG_ASSIGNS)
__CPROVER_ensures(cv_exc_pending == 0 && gh_log_n == 1 && LOGGED(0, C_READY, NOWNER(this_), 0, 0) && __CPROVER_return_value == (gh_log_ret[0] & 1))
;
void h_awt_ready(void) { HAWT; awt_ready((COAW *)a); __CPROVER_assert(0, "SENTINEL reachable"); }
#endif
/* await_suspend(h): the awaiter is armed with the coroutine handle (resume() then resumes that coroutine) BEFORE it is handed to subscribe */
#ifdef CV_HAS_awt_suspend
cv_i1 awt_suspend(COAW *this_, cv_i8 *h)
__CPROVER_requires(SUB_PRE) __CPROVER_assigns(LOG_ASSIGNS, __CPROVER_object_whole(this_))
__CPROVER_ensures(cv_exc_pending == 0 && gh_log_n == 1 && LOGGED(0, C_SUBSCRIBE, NOWNER(this_), this_, 0) && __CPROVER_return_value == (gh_log_ret[0] & 1))
__CPROVER_ensures(((AWT *)this_)->_resume_fn == 0 && ((AWT *)this_)->_handle_addr == h && NOWNER(this_) == __CPROVER_old(NOWNER(this_)))
;
void h_awt_suspend(void) { HAWT; cv_i8 *h; awt_suspend((COAW *)a, h); __CPROVER_assert(0, "SENTINEL reachable"); }
#endif
#ifdef CV_HAS_awt_resume
cv_i1 awt_resume(NAWT *this_)
__CPROVER_requires(SUB_PRE) __CPROVER_assigns(LOG_ASSIGNS)
__CPROVER_ensures(cv_exc_pending == 0 && gh_log_n == 1 && LOGGED(0, C_CHECK_NEXT, NOWNER(this_), 0, 0) && __CPROVER_return_value == (gh_log_ret[0] & 1))
;
void h_awt_resume(void) { HAWT; awt_resume(a); __CPROVER_assert(0, "SENTINEL reachable"); }
#endif
/* operator bool(): the blocking form.  ready? -> check_next.  Otherwise sync(): ready again? ; else subscribe(a fresh sync_awaiter);
 * block on its flag iff it was parked; finally check_next exactly once, whose result is returned. */
#ifdef CV_HAS_awt_bool
cv_i1 awt_bool(NAWT *this_)
__CPROVER_requires(SUB_PRE) __CPROVER_assigns(LOG_ASSIGNS)
#define RES __CPROVER_return_value
#include "C16/bool_post.inc"
#undef RES
;
void h_awt_bool(void) { HAWT; awt_bool(a); __CPROVER_assert(0, "SENTINEL reachable"); }
#endif
#ifdef CV_HAS_awt_not
cv_i1 awt_not(NAWT *this_)
__CPROVER_requires(SUB_PRE) __CPROVER_assigns(LOG_ASSIGNS)
#define RES (__CPROVER_return_value ^ 1)
#include "C16/bool_post.inc"
#undef RES
;
void h_awt_not(void) { HAWT; awt_not(a); __CPROVER_assert(0, "SENTINEL reachable"); }
#endif
