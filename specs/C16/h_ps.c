/* harnesses (one per unit; selected by goto-cc --function).  The queue object (and the unique_lock where one is passed) is a local
 * of the harness with arbitrary content, shaped by the `requires` of the contract; ps_q is ASSIGNED here (see lib/model_pubsub.c). */
#define HQ QT qo; QT *q = &qo; ps_q = q
#define HLK ULK lko; ULK *lk = &lko; lko._M_device = &qo._mx
#if defined(CV_HAS_q_subscribe_lk_pos) && !defined(C16_FREELIST_BOUNDED)
void h_subscribe_lk_pos(void) { HQ; SUBT *s; cv_i64 pos; q_subscribe_lk_pos(q, s, pos); __CPROVER_assert(0, "SENTINEL reachable"); }
#endif
#ifdef CV_HAS_q_subscribe_lk_recent
void h_subscribe_lk_recent(void) { HQ; SUBT *s; q_subscribe_lk_recent(q, s); __CPROVER_assert(0, "SENTINEL reachable"); }
#endif
#ifdef CV_HAS_q_subscribe_lk_copy
void h_subscribe_lk_copy(void) { HQ; SUBT *s; cv_i64 h; q_subscribe_lk_copy(q, h, s); __CPROVER_assert(0, "SENTINEL reachable"); }
#endif
#if defined(CV_HAS_q_leave_lk) && !defined(C16_FREELIST_BOUNDED)
void h_leave_lk(void) { HQ; cv_i64 h; q_leave_lk(q, h); __CPROVER_assert(0, "SENTINEL reachable"); }
#endif
#ifdef CV_HAS_q_advance_lk
void h_advance_lk(void) { HQ; cv_i64 h; cv_i32 t; q_advance_lk(q, h, t); __CPROVER_assert(0, "SENTINEL reachable"); }
#endif
#ifdef CV_HAS_q_advance_suspend_lk
void h_advance_suspend_lk(void) { HQ; cv_i64 h; AWT *a; q_advance_suspend_lk(q, h, a); __CPROVER_assert(0, "SENTINEL reachable"); }
#endif
#ifdef CV_HAS_q_get_value_lk
void h_get_value_lk(void) { HQ; cv_i64 h; cv_i32 t; q_get_value_lk(q, h, t); __CPROVER_assert(0, "SENTINEL reachable"); }
#endif
#ifdef CV_HAS_q_push_lk
void h_push_lk(void) { HQ; HLK; cv_i64 n; q_push_lk(q, lk, n); __CPROVER_assert(0, "SENTINEL reachable"); }
#endif
#ifdef CV_HAS_q_kick_lk
void h_kick_lk(void) { HQ; SUBT *s; HLK; q_kick_lk(q, s, lk); __CPROVER_assert(0, "SENTINEL reachable"); }
#endif
#ifdef CV_HAS_qw_subscribe_pos
void h_q_subscribe_pos(void) { HQ; SUBT *s; cv_i64 pos; qw_subscribe_pos(q, s, pos); __CPROVER_assert(0, "SENTINEL reachable"); }
#endif
#ifdef CV_HAS_qw_subscribe_recent
void h_q_subscribe_recent(void) { HQ; SUBT *s; qw_subscribe_recent(q, s); __CPROVER_assert(0, "SENTINEL reachable"); }
#endif
#ifdef CV_HAS_qw_subscribe_copy
void h_q_subscribe_copy(void) { HQ; SUBT *s; cv_i64 h; qw_subscribe_copy(q, h, s); __CPROVER_assert(0, "SENTINEL reachable"); }
#endif
#ifdef CV_HAS_qw_advance
void h_q_advance(void) { HQ; cv_i64 h; cv_i32 t; qw_advance(q, h, t); __CPROVER_assert(0, "SENTINEL reachable"); }
#endif
#ifdef CV_HAS_qw_advance_suspend
void h_q_advance_suspend(void) { HQ; cv_i64 h; AWT *a; qw_advance_suspend(q, h, a); __CPROVER_assert(0, "SENTINEL reachable"); }
#endif
#ifdef CV_HAS_qw_leave
void h_q_leave(void) { HQ; cv_i64 h; qw_leave(q, h); __CPROVER_assert(0, "SENTINEL reachable"); }
#endif
#ifdef CV_HAS_qw_get_value
void h_q_get_value(void) { HQ; cv_i64 h; cv_i32 t; qw_get_value(q, h, t); __CPROVER_assert(0, "SENTINEL reachable"); }
#endif
#ifdef CV_HAS_qw_kick
void h_q_kick(void) { HQ; SUBT *s; qw_kick(q, s); __CPROVER_assert(0, "SENTINEL reachable"); }
#endif
#ifdef CV_HAS_qw_position
void h_q_position(void) { HQ; cv_i64 h; qw_position(q, h); __CPROVER_assert(0, "SENTINEL reachable"); }
#endif
#ifdef CV_HAS_qw_push_move
void h_q_push_move(void) { HQ; cv_i32 *v; qw_push_move(q, v); __CPROVER_assert(0, "SENTINEL reachable"); }
#endif
#ifdef CV_HAS_qw_push_copy
void h_q_push_copy(void) { HQ; cv_i32 *v; qw_push_copy(q, v); __CPROVER_assert(0, "SENTINEL reachable"); }
#endif
#ifdef CV_HAS_qw_push_range
void h_q_push_range(void) { HQ; cv_i32 **b, **e; qw_push_range(q, b, e); __CPROVER_assert(0, "SENTINEL reachable"); }
#endif
#ifdef CV_HAS_qw_close
void h_q_close(void) { HQ; qw_close(q); __CPROVER_assert(0, "SENTINEL reachable"); }
#endif

#ifdef C16_FREELIST_BOUNDED
/* BOUNDED stand-in for the list-shaped part of the invariant (DESIGN 3.7): the free list threaded through the unused registration slots.
 * The ghost-index contracts of subscribe_lk / leave_lk ASSUME, when they reference "another" slot: the free-list head is free, no free
 * slot links to a used one, no self-loop.  Those are consequences of "the free list is a simple path through exactly the unused slots",
 * which no fixed ghost index can carry.  Here: the REAL subscribe_lk(sub,pos) / leave_lk on an array-backed vector (every slot real),
 * from the initial (empty) queue, every sequence of C16_FREELIST_BOUNDED operations with at most PS_ARRAY_REGS slots. */
void h_freelist_bounded(void) {
  QT qo; ps_q = &qo; rg_n = 0; qo._next_free = 0; qo._pos = 1; qo._closed = 0;
  gh_lock_depth = 1; gh_lock_held = (void *)&qo._mx;                       /* the _lk functions run under the mutex */
  cv_i8 live[PS_ARRAY_REGS]; for (int i = 0; i < PS_ARRAY_REGS; i++) live[i] = 0;
  cv_i64 nlive = 0;
  for (int k = 0; k < C16_FREELIST_BOUNDED; k++) {
    if (nondet_bool()) {
      if (nlive < PS_ARRAY_REGS) {
        cv_i64 pos = nondet_size_t(); __CPROVER_assume(pos <= qo._pos - 1);
        cv_i64 h = q_subscribe_lk_pos(&qo, (SUBT *)0, pos);
        __CPROVER_assert(h < rg_n, "bounded: subscribe_lk returns a valid handle");
        __CPROVER_assert(!live[h], "bounded: subscribe_lk never hands out a handle that a live subscriber holds");
        live[h] = 1; nlive++;
      }
    } else {
      cv_i64 h = nondet_size_t(); __CPROVER_assume(h < rg_n);
      if (live[h]) { q_leave_lk(&qo, h); live[h] = 0; nlive--; }
    }
    /* shape: used <=> held by a live subscriber; the free list is a simple path through exactly the unused slots */
    cv_i8 seen[PS_ARRAY_REGS]; for (int i = 0; i < PS_ARRAY_REGS; i++) seen[i] = 0;
    cv_i64 cur = qo._next_free;
    for (int j = 0; j < PS_ARRAY_REGS; j++) {
      if (cur >= rg_n) break;
      __CPROVER_assert(!ar_slots[cur]._used && !seen[cur], "bounded: the free list visits unused slots only, each once (no cycle, no sharing)");
      seen[cur] = 1; cur = ar_slots[cur]._pos;
    }
    __CPROVER_assert(cur == rg_n, "bounded: the free list ends at size()");
    for (int i = 0; i < PS_ARRAY_REGS; i++) if (i < rg_n) {
      __CPROVER_assert((ar_slots[i]._used != 0) == (live[i] != 0), "bounded: a slot is in use iff a live subscriber holds its handle");
      __CPROVER_assert(ar_slots[i]._used || seen[i], "bounded: every unused slot is on the free list (no slot leaks)");
    }
  }
  __CPROVER_assert(0, "SENTINEL reachable");
}
#endif
