/* harnesses (one per unit; selected by goto-cc --function).  The queue object (and the unique_lock where one is passed) is a local
 * of the harness with arbitrary content, shaped by the `requires` of the contract; ps_q is ASSIGNED here (see lib/model_pubsub.c). */
#define HQ QT qo; QT *q = &qo; ps_q = q
#define HLK ULK lko; ULK *lk = &lko; lko._M_device = &qo._mx
#ifdef CV_HAS_q_subscribe_lk_pos
void h_subscribe_lk_pos(void) { HQ; SUBT *s; cv_i64 pos; q_subscribe_lk_pos(q, s, pos); __CPROVER_assert(0, "SENTINEL reachable"); }
#endif
#ifdef CV_HAS_q_subscribe_lk_recent
void h_subscribe_lk_recent(void) { HQ; SUBT *s; q_subscribe_lk_recent(q, s); __CPROVER_assert(0, "SENTINEL reachable"); }
#endif
#ifdef CV_HAS_q_subscribe_lk_copy
void h_subscribe_lk_copy(void) { HQ; SUBT *s; cv_i64 h; q_subscribe_lk_copy(q, h, s); __CPROVER_assert(0, "SENTINEL reachable"); }
#endif
#ifdef CV_HAS_q_leave_lk
void h_leave_lk(void) { HQ; cv_i64 h; q_leave_lk(q, h); __CPROVER_assert(0, "SENTINEL reachable"); }
#endif
#ifdef CV_HAS_q_advance_lk
void h_advance_lk(void) { HQ; cv_i64 h; cv_i32 t; q_advance_lk(q, h, t); __CPROVER_assert(0, "SENTINEL reachable"); }
#endif
#ifdef CV_HAS_q_advance_suspend_lk
void h_advance_suspend_lk(void) { HQ; cv_i64 h; AWT *a; q_advance_suspend_lk(q, h, a); __CPROVER_assert(0, "SENTINEL reachable"); }
#endif
#ifdef CV_HAS_q_get_value_lk
void h_get_value_lk(void) { HQ; cv_i64 h; cv_i32 t; q_get_value_lk(q, h, t); __CPROVER_assert(0, "SENTINEL reachable"); }
#endif
#ifdef CV_HAS_q_push_lk
void h_push_lk(void) { HQ; HLK; cv_i64 n; q_push_lk(q, lk, n); __CPROVER_assert(0, "SENTINEL reachable"); }
#endif
#ifdef CV_HAS_q_kick_lk
void h_kick_lk(void) { HQ; SUBT *s; HLK; q_kick_lk(q, s, lk); __CPROVER_assert(0, "SENTINEL reachable"); }
#endif
#ifdef CV_HAS_qw_subscribe_pos
void h_q_subscribe_pos(void) { HQ; SUBT *s; cv_i64 pos; qw_subscribe_pos(q, s, pos); __CPROVER_assert(0, "SENTINEL reachable"); }
#endif
#ifdef CV_HAS_qw_subscribe_recent
void h_q_subscribe_recent(void) { HQ; SUBT *s; qw_subscribe_recent(q, s); __CPROVER_assert(0, "SENTINEL reachable"); }
#endif
#ifdef CV_HAS_qw_subscribe_copy
void h_q_subscribe_copy(void) { HQ; SUBT *s; cv_i64 h; qw_subscribe_copy(q, h, s); __CPROVER_assert(0, "SENTINEL reachable"); }
#endif
#ifdef CV_HAS_qw_advance
void h_q_advance(void) { HQ; cv_i64 h; cv_i32 t; qw_advance(q, h, t); __CPROVER_assert(0, "SENTINEL reachable"); }
#endif
#ifdef CV_HAS_qw_advance_suspend
void h_q_advance_suspend(void) { HQ; cv_i64 h; AWT *a; qw_advance_suspend(q, h, a); __CPROVER_assert(0, "SENTINEL reachable"); }
#endif
#ifdef CV_HAS_qw_leave
void h_q_leave(void) { HQ; cv_i64 h; qw_leave(q, h); __CPROVER_assert(0, "SENTINEL reachable"); }
#endif
#ifdef CV_HAS_qw_get_value
void h_q_get_value(void) { HQ; cv_i64 h; cv_i32 t; qw_get_value(q, h, t); __CPROVER_assert(0, "SENTINEL reachable"); }
#endif
#ifdef CV_HAS_qw_kick
void h_q_kick(void) { HQ; SUBT *s; qw_kick(q, s); __CPROVER_assert(0, "SENTINEL reachable"); }
#endif
#ifdef CV_HAS_qw_position
void h_q_position(void) { HQ; cv_i64 h; qw_position(q, h); __CPROVER_assert(0, "SENTINEL reachable"); }
#endif
#ifdef CV_HAS_qw_push_move
void h_q_push_move(void) { HQ; cv_i32 *v; qw_push_move(q, v); __CPROVER_assert(0, "SENTINEL reachable"); }
#endif
#ifdef CV_HAS_qw_push_copy
void h_q_push_copy(void) { HQ; cv_i32 *v; qw_push_copy(q, v); __CPROVER_assert(0, "SENTINEL reachable"); }
#endif
#ifdef CV_HAS_qw_push_range
void h_q_push_range(void) { HQ; cv_i32 **b, **e; qw_push_range(q, b, e); __CPROVER_assert(0, "SENTINEL reachable"); }
#endif
#ifdef CV_HAS_qw_close
void h_q_close(void) { HQ; qw_close(q); __CPROVER_assert(0, "SENTINEL reachable"); }
#endif
