/* harnesses (one per unit; selected by goto-cc --function) */
#ifdef CV_HAS_q_subscribe_lk_pos
void h_subscribe_lk_pos(void) { QT *q; SUBT *s; cv_i64 pos; q_subscribe_lk_pos(q, s, pos); __CPROVER_assert(0, "SENTINEL reachable"); }
#endif
#ifdef CV_HAS_q_subscribe_lk_recent
void h_subscribe_lk_recent(void) { QT *q; SUBT *s; q_subscribe_lk_recent(q, s); __CPROVER_assert(0, "SENTINEL reachable"); }
#endif
#ifdef CV_HAS_q_subscribe_lk_copy
void h_subscribe_lk_copy(void) { QT *q; SUBT *s; cv_i64 h; q_subscribe_lk_copy(q, h, s); __CPROVER_assert(0, "SENTINEL reachable"); }
#endif
#ifdef CV_HAS_q_leave_lk
void h_leave_lk(void) { QT *q; cv_i64 h; q_leave_lk(q, h); __CPROVER_assert(0, "SENTINEL reachable"); }
#endif
#ifdef CV_HAS_q_advance_lk
void h_advance_lk(void) { QT *q; cv_i64 h; cv_i32 t; q_advance_lk(q, h, t); __CPROVER_assert(0, "SENTINEL reachable"); }
#endif
#ifdef CV_HAS_q_advance_suspend_lk
void h_advance_suspend_lk(void) { QT *q; cv_i64 h; AWT *a; q_advance_suspend_lk(q, h, a); __CPROVER_assert(0, "SENTINEL reachable"); }
#endif
#ifdef CV_HAS_q_get_value_lk
void h_get_value_lk(void) { QT *q; cv_i64 h; cv_i32 t; q_get_value_lk(q, h, t); __CPROVER_assert(0, "SENTINEL reachable"); }
#endif
