/* harnesses (one per unit; selected by goto-cc --function).  The queue object (and the unique_lock where one is passed) is a local
 * of the harness with arbitrary content, shaped by the `requires` of the contract; ps_q is ASSIGNED here (see lib/model_pubsub.c). */
#define HQ QT qo; QT *q = &qo; ps_q = q
#define HLK ULK lko; ULK *lk = &lko; lko._M_device = &qo._mx
#ifdef CV_HAS_q_subscribe_lk_pos
void h_subscribe_lk_pos(void) { HQ; SUBT *s; cv_i64 pos; q_subscribe_lk_pos(q, s, pos); __CPROVER_assert(0, "SENTINEL reachable"); }
#endif
#ifdef CV_HAS_q_subscribe_lk_recent
void h_subscribe_lk_recent(void) { HQ; SUBT *s; q_subscribe_lk_recent(q, s); __CPROVER_assert(0, "SENTINEL reachable"); }
#endif
#ifdef CV_HAS_q_subscribe_lk_copy
void h_subscribe_lk_copy(void) { HQ; SUBT *s; cv_i64 h; q_subscribe_lk_copy(q, h, s); __CPROVER_assert(0, "SENTINEL reachable"); }
#endif
#ifdef CV_HAS_q_leave_lk
void h_leave_lk(void) { HQ; cv_i64 h; q_leave_lk(q, h); __CPROVER_assert(0, "SENTINEL reachable"); }
#endif
#ifdef CV_HAS_q_advance_lk
void h_advance_lk(void) { HQ; cv_i64 h; cv_i32 t; q_advance_lk(q, h, t); __CPROVER_assert(0, "SENTINEL reachable"); }
#endif
#ifdef CV_HAS_q_advance_suspend_lk
void h_advance_suspend_lk(void) { HQ; cv_i64 h; AWT *a; q_advance_suspend_lk(q, h, a); __CPROVER_assert(0, "SENTINEL reachable"); }
#endif
#ifdef CV_HAS_q_get_value_lk
void h_get_value_lk(void) { HQ; cv_i64 h; cv_i32 t; q_get_value_lk(q, h, t); __CPROVER_assert(0, "SENTINEL reachable"); }
#endif
#ifdef CV_HAS_q_push_lk
void h_push_lk(void) { HQ; HLK; cv_i64 n; q_push_lk(q, lk, n); __CPROVER_assert(0, "SENTINEL reachable"); }
#endif
#ifdef CV_HAS_q_kick_lk
void h_kick_lk(void) { HQ; SUBT *s; HLK; q_kick_lk(q, s, lk); __CPROVER_assert(0, "SENTINEL reachable"); }
#endif
