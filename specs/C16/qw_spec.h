/* C16 - the locked wrappers of publisher<int>::queue, publisher<int> and the members of subscriber<int>: verified modularly as
 * FORWARDERS.  The callee one level down is an abstract callee (a stub that records how often, with which arguments and whether
 * under the queue mutex it was called, and - where the callee has a precondition on the queue state - asserts it); its own
 * behaviour is the subject of its own unit.  Every wrapper: exactly one critical section, the `_lk` function called exactly once
 * inside it with the wrapper's arguments, its result returned, mutex released on return. */
cv_i32 gh_fw_calls; void *gh_fw_this; cv_i64 gh_fw_a1, gh_fw_a2; cv_i64 gh_fw_ret; cv_i8 gh_fw_locked;
#define FW_ASSIGNS gh_fw_calls, gh_fw_this, gh_fw_a1, gh_fw_a2, gh_fw_locked
#define FW_RECORD(q, a1, a2) do { gh_fw_calls++; gh_fw_this = (void *)(q); gh_fw_a1 = (cv_i64)(a1); gh_fw_a2 = (cv_i64)(a2); gh_fw_locked = LOCKED(&ps_q->_mx) ? 1 : 0; } while (0)
#define FW_PRE(q) (cv_exc_pending == 0 && (q) == ps_q && FREE_LOCK && gh_fw_calls == 0 && gh_n_lock == 0 && gh_n_unlock == 0)
#define FW_POST(q, a1, a2) (cv_exc_pending == 0 && FREE_LOCK && gh_n_lock == 1 && gh_n_unlock == 1 && /* one critical section */ \
   gh_fw_calls == 1 && gh_fw_this == (void *)(q) && gh_fw_locked == 1 && gh_fw_a1 == (cv_i64)(a1) && gh_fw_a2 == (cv_i64)(a2))

#ifdef CV_HAS_fw_subscribe_lk_pos
cv_i64 fw_subscribe_lk_pos(QT *q, SUBT *s, cv_i64 pos) { FW_RECORD(q, s, pos); return gh_fw_ret; }
#endif
#ifdef CV_HAS_qw_subscribe_pos
cv_i64 qw_subscribe_pos(QT *this_, SUBT *sub, cv_i64 pos)
__CPROVER_requires(FW_PRE(this_)) __CPROVER_assigns(LOCK_ASSIGNS, FW_ASSIGNS)
__CPROVER_ensures(FW_POST(this_, sub, pos) && __CPROVER_return_value == gh_fw_ret)
;
#endif
#ifdef CV_HAS_fw_subscribe_lk_recent
cv_i64 fw_subscribe_lk_recent(QT *q, SUBT *s) { FW_RECORD(q, s, 0); return gh_fw_ret; }
#endif
#ifdef CV_HAS_qw_subscribe_recent
cv_i64 qw_subscribe_recent(QT *this_, SUBT *sub)
__CPROVER_requires(FW_PRE(this_)) __CPROVER_assigns(LOCK_ASSIGNS, FW_ASSIGNS)
__CPROVER_ensures(FW_POST(this_, sub, 0) && __CPROVER_return_value == gh_fw_ret)
;
#endif
#ifdef CV_HAS_fw_subscribe_lk_copy
cv_i64 fw_subscribe_lk_copy(QT *q, cv_i64 h, SUBT *s) { FW_RECORD(q, h, s); return gh_fw_ret; }
#endif
#ifdef CV_HAS_qw_subscribe_copy
cv_i64 qw_subscribe_copy(QT *this_, cv_i64 h, SUBT *sub)
__CPROVER_requires(FW_PRE(this_)) __CPROVER_assigns(LOCK_ASSIGNS, FW_ASSIGNS)
__CPROVER_ensures(FW_POST(this_, h, sub) && __CPROVER_return_value == gh_fw_ret)
;
#endif
#ifdef CV_HAS_fw_advance_lk
cv_i1 fw_advance_lk(QT *q, cv_i64 h, cv_i32 t) { FW_RECORD(q, h, t); return (cv_i1)(gh_fw_ret & 1); }
#endif
#ifdef CV_HAS_qw_advance
cv_i1 qw_advance(QT *this_, cv_i64 h, cv_i32 t)
__CPROVER_requires(FW_PRE(this_)) __CPROVER_assigns(LOCK_ASSIGNS, FW_ASSIGNS)
__CPROVER_ensures(FW_POST(this_, h, t) && __CPROVER_return_value == (gh_fw_ret & 1))
;
#endif
#ifdef CV_HAS_fw_advance_suspend_lk
cv_i1 fw_advance_suspend_lk(QT *q, cv_i64 h, AWT *a) { FW_RECORD(q, h, a); return (cv_i1)(gh_fw_ret & 1); }
#endif
#ifdef CV_HAS_qw_advance_suspend
cv_i1 qw_advance_suspend(QT *this_, cv_i64 h, AWT *a)
__CPROVER_requires(FW_PRE(this_)) __CPROVER_assigns(LOCK_ASSIGNS, FW_ASSIGNS)
__CPROVER_ensures(FW_POST(this_, h, a) && __CPROVER_return_value == (gh_fw_ret & 1))
;
#endif
#ifdef CV_HAS_fw_leave_lk
void fw_leave_lk(QT *q, cv_i64 h) { FW_RECORD(q, h, 0); }
#endif
#ifdef CV_HAS_qw_leave
void qw_leave(QT *this_, cv_i64 h)
__CPROVER_requires(FW_PRE(this_)) __CPROVER_assigns(LOCK_ASSIGNS, FW_ASSIGNS)
__CPROVER_ensures(FW_POST(this_, h, 0))
;
#endif
#ifdef CV_HAS_fw_get_value_lk
cv_i64 fw_get_value_lk(QT *q, cv_i64 h, cv_i32 t) { FW_RECORD(q, h, t); return gh_fw_ret; }
#endif
#ifdef CV_HAS_qw_get_value
cv_i64 qw_get_value(QT *this_, cv_i64 h, cv_i32 t)
__CPROVER_requires(FW_PRE(this_)) __CPROVER_assigns(LOCK_ASSIGNS, FW_ASSIGNS)
__CPROVER_ensures(FW_POST(this_, h, t) && (__CPROVER_return_value & 0xffffffffffUL) == (gh_fw_ret & 0xffffffffffUL))   /* payload and engaged flag (padding bytes are not data) */
;
#endif
/* kick(sub): kick_lk releases the lock itself (the awaiter must be resumed outside); the unique_lock destructor must not release twice */
#ifdef CV_HAS_fw_kick_lk
void fw_kick_lk(QT *q, SUBT *s, ULK *lk) {
  FW_RECORD(q, s, 0);
  __CPROVER_assert(lk->_M_owns == 1 && lk->_M_device == &q->_mx, "kick_lk receives the unique_lock that owns the queue mutex");
  cvx_pthread_mutex_unlock((void *)&q->_mx); lk->_M_owns = 0; }             /* postcondition of kick_lk (unit kick_lk): lock released */
#endif
#ifdef CV_HAS_qw_kick
void qw_kick(QT *this_, SUBT *sub)
__CPROVER_requires(FW_PRE(this_)) __CPROVER_assigns(LOCK_ASSIGNS, FW_ASSIGNS)
__CPROVER_ensures(FW_POST(this_, sub, 0))
;
#endif

/* position(h): a locked accessor - exactly one critical section, the value read while the mutex is held (the unlocked read of the
 * original code was a data race, fixed in /repo f804c1e; the lock-discipline obligation of the registration model is on for C03). */
#ifdef CV_HAS_qw_position
cv_i64 qw_position(QT *this_, cv_i64 h)
__CPROVER_requires(cv_exc_pending == 0 && this_ == ps_q && FREE_LOCK && gh_n_lock == 0 && gh_n_unlock == 0 && h < rg_n && h == gh_RH && rg_other_idx == RG_NONE)
__CPROVER_assigns(LOCK_ASSIGNS)
__CPROVER_ensures(__CPROVER_return_value == T._pos && cv_exc_pending == 0 && FREE_LOCK && gh_n_lock == 1 && gh_n_unlock == 1)
;
#endif

/* push(v) / push(first,last) / close(): [lock] push_front... push_lk(lk, count) [unlock].  push_lk is an abstract callee that ASSERTS its
 * precondition (the one its own unit assumes): the composition is checked, not assumed.  gh_stream is DEFINED here: the value
 * published at position p is the value handed to the push that moved _pos past p. */
#define PUSH_LK_PRE(q, count) ((count) < PS_BIG && Q_CFG && Q_STREAM(count) && POS + (count) < PS_BIG && dq_len >= MIN2(MINL, POS - 1) + (count) && \
   dq_len - (count) <= MAXL && Q_REGS && (T_IN ==> SLOT_INV_PUSHPRE(T, gh_RH)))
cv_i64 gh_fw_pos_at_call, gh_fw_front_at_call; cv_i8 gh_fw_closed_at_call;
#define PUSHW_ASSIGNS LOCK_ASSIGNS, FW_ASSIGNS, DQ_MODEL_ASSIGNS, gh_fw_pos_at_call, gh_fw_front_at_call, gh_fw_closed_at_call
#define PUSHW_PRE(q) (FW_PRE(q) && Q_INV && POS + 1 < PS_BIG && (T_IN ==> SLOT_INV(T, gh_RH)) && rg_other_idx == RG_NONE)
#ifdef CV_HAS_fw_push_lk
void fw_push_lk(QT *this_, ULK *lk, cv_i64 count) {
  FW_RECORD(this_, lk, count);
  __CPROVER_assert(lk->_M_owns == 1 && lk->_M_device == &this_->_mx, "push_lk receives the unique_lock that owns the queue mutex");
  __CPROVER_assert(PUSH_LK_PRE(this_, count), "precondition of push_lk holds at the call (state after the items were pushed to the front)");
  gh_fw_pos_at_call = POS; gh_fw_front_at_call = dq_front; gh_fw_closed_at_call = CLOSED; }
#endif
#ifdef CV_HAS_qw_push_move
void qw_push_move(QT *this_, cv_i32 *val)
__CPROVER_requires(PUSHW_PRE(this_) && __CPROVER_is_fresh(val, sizeof(cv_i32)) && (gh_P == POS ==> gh_sval == *val))
__CPROVER_assigns(PUSHW_ASSIGNS)
__CPROVER_ensures(FW_POST(this_, gh_fw_a1, 1))                                                      /* push_lk(lk, 1), once, under the lock */
__CPROVER_ensures(gh_fw_pos_at_call == __CPROVER_old(QP->_pos) && dq_front == __CPROVER_old(dq_front) + 1 && dq_len == __CPROVER_old(dq_len) + 1)   /* exactly one item in front */
__CPROVER_ensures(gh_P == __CPROVER_old(QP->_pos) ==> dq_trk == __CPROVER_old(*val))                   /* position old(_pos) carries the pushed value */
__CPROVER_ensures(gh_P != __CPROVER_old(QP->_pos) ==> dq_trk == __CPROVER_old(dq_trk))                  /* published values never change */
;
#endif
#ifdef CV_HAS_qw_push_copy
void qw_push_copy(QT *this_, cv_i32 *val)
__CPROVER_requires(PUSHW_PRE(this_) && __CPROVER_is_fresh(val, sizeof(cv_i32)) && (gh_P == POS ==> gh_sval == *val))
__CPROVER_assigns(PUSHW_ASSIGNS)
__CPROVER_ensures(FW_POST(this_, gh_fw_a1, 1))
__CPROVER_ensures(gh_fw_pos_at_call == __CPROVER_old(QP->_pos) && dq_front == __CPROVER_old(dq_front) + 1 && dq_len == __CPROVER_old(dq_len) + 1)
__CPROVER_ensures(gh_P == __CPROVER_old(QP->_pos) ==> dq_trk == __CPROVER_old(*val))
__CPROVER_ensures(gh_P != __CPROVER_old(QP->_pos) ==> dq_trk == __CPROVER_old(dq_trk))
__CPROVER_ensures(*val == __CPROVER_old(*val))
;
#endif
/* batch: positions old(_pos) .. old(_pos)+n-1 carry first[0] .. first[n-1] in this order; an empty batch does nothing at all */
#ifdef CV_HAS_qw_push_range
cv_i64 gh_rng_n; cv_i32 gh_rng_val;       /* logical: batch length; the element that lands on the tracked position (if any) */
void qw_push_range(QT *this_, cv_i32 **from, cv_i32 **to)
__CPROVER_requires(PUSHW_PRE(this_) && __CPROVER_is_fresh(from, sizeof(*from)) && __CPROVER_is_fresh(to, sizeof(*to)))
__CPROVER_requires(gh_rng_n < (1ul << 20) && POS + gh_rng_n < PS_BIG && __CPROVER_is_fresh(*from, (gh_rng_n + 1) * sizeof(cv_i32)) && *to == *from + gh_rng_n)
__CPROVER_requires((gh_P >= POS && gh_P - POS < gh_rng_n) ==> (gh_rng_val == (*from)[gh_P - POS] && gh_sval == gh_rng_val))
__CPROVER_assigns(PUSHW_ASSIGNS)
__CPROVER_ensures(cv_exc_pending == 0 && FREE_LOCK && gh_n_lock == 1 && gh_n_unlock == 1)
__CPROVER_ensures(gh_rng_n == 0 ==> (gh_fw_calls == 0 && dq_front == __CPROVER_old(dq_front) && dq_len == __CPROVER_old(dq_len) && dq_trk == __CPROVER_old(dq_trk)))
__CPROVER_ensures(gh_rng_n > 0 ==> (gh_fw_calls == 1 && gh_fw_this == (void *)this_ && gh_fw_locked == 1 && gh_fw_a2 == gh_rng_n && gh_fw_pos_at_call == __CPROVER_old(QP->_pos)))
__CPROVER_ensures(dq_front == __CPROVER_old(dq_front) + gh_rng_n && dq_len == __CPROVER_old(dq_len) + gh_rng_n)
__CPROVER_ensures((gh_P >= __CPROVER_old(QP->_pos) && gh_P - __CPROVER_old(QP->_pos) < gh_rng_n) ==> dq_trk == gh_rng_val)      /* in order, none dropped, none duplicated */
__CPROVER_ensures(!(gh_P >= __CPROVER_old(QP->_pos) && gh_P - __CPROVER_old(QP->_pos) < gh_rng_n) ==> dq_trk == __CPROVER_old(dq_trk))
;
#endif
/* close(): idempotent; the first close marks the queue closed and runs push_lk(lk, 0), which wakes every parked awaiter */
#ifdef CV_HAS_qw_close
void qw_close(QT *this_)
__CPROVER_requires(PUSHW_PRE(this_))
__CPROVER_assigns(PUSHW_ASSIGNS, this_->_closed)
__CPROVER_ensures(cv_exc_pending == 0 && FREE_LOCK && gh_n_lock == 1 && gh_n_unlock == 1 && CLOSED == 1)
__CPROVER_ensures(__CPROVER_old(QP->_closed) == 1 ==> gh_fw_calls == 0)
__CPROVER_ensures(__CPROVER_old(QP->_closed) == 0 ==> (gh_fw_calls == 1 && gh_fw_this == (void *)this_ && gh_fw_locked == 1 && gh_fw_a2 == 0 && gh_fw_closed_at_call == 1))
__CPROVER_ensures(dq_front == __CPROVER_old(dq_front) && dq_len == __CPROVER_old(dq_len) && dq_trk == __CPROVER_old(dq_trk) && POS == __CPROVER_old(QP->_pos))
;
#endif
