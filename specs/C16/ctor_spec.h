/* C16 - the constructors of cocls::publisher<int>::queue: the INDUCTION BASE of the position lemma.  Every other unit of C16 assumes the queue
 * invariant Q_INV (ps_spec.h) and STATE_OK at entry and re-establishes it; the history lemmas start "from an arbitrary state satisfying the
 * invariant".  These units show that a freshly constructed queue IS such a state, for the configuration the property speaks about:
 *   queue()                  unlimited (max = SIZE_MAX), min 1
 *   queue(max, min)          precondition (the constructor's documented asserts): min >= 1, max >= min     ("min/max in 1..5 and unlimited")
 * Initial state, from the property statement: nothing published yet (stream position 1 = the position the first published value will get,
 * empty retained window), nobody subscribed (no registration slot, empty free list), nobody to wake, NOT closed (a subscriber that arrives
 * now waits - it must not see end-of-stream), mutex free. */
#define SIZE_MAX_ (~0ul)
#define CTOR_PRE(q)  (cv_exc_pending == 0 && __CPROVER_is_fresh(q, sizeof(*(q))) && FREE_LOCK)
#define CTOR_ASSIGNS(q) __CPROVER_object_whole(q), DQ_MODEL_ASSIGNS, RG_MODEL_ASSIGNS, WB_MODEL_ASSIGNS
#define CTOR_POST \
  __CPROVER_ensures(cv_exc_pending == 0 && FREE_LOCK) \
  __CPROVER_ensures(POS == 1 && dq_len == 0 && dq_front == 0)              /* nothing published: the first value will be position 1; nothing retained */ \
  __CPROVER_ensures(CLOSED == 0)                                            /* open */ \
  __CPROVER_ensures(rg_n == 0 && NFREE == 0 && rg_other_idx == RG_NONE)     /* nobody registered, free list empty (head == size) */ \
  __CPROVER_ensures(WB_LEN(&QP->_wakeup_buffer) == 0 && wb_cnt == 0)        /* nobody to wake */ \
  Q_INV_E                                                                   /* the representation invariant every other unit requires */ \
  __CPROVER_ensures((gh_AW != 0 && gh_aw_state != 1 && gh_aw_state <= 2) ==> STATE_OK(QP))   /* literally the entry state of the `_lk` units (no awaiter can be parked yet) */
#ifdef CV_HAS_q_ctor
void q_ctor(QT *this_)
__CPROVER_requires(CTOR_PRE(this_))
__CPROVER_assigns(CTOR_ASSIGNS(this_))
CTOR_POST
__CPROVER_ensures(MAXL == SIZE_MAX_ && MINL == 1)                           /* default configuration: unlimited history, at least one value retained */
;
void h_q_ctor(void) { QT *q; q_ctor(q); __CPROVER_assert(0, "SENTINEL reachable"); }
#endif
#ifdef CV_HAS_q_ctor_mm
void q_ctor_mm(QT *this_, cv_i64 max_queue_len, cv_i64 min_queue_len)
__CPROVER_requires(CTOR_PRE(this_) && min_queue_len >= 1 && max_queue_len >= min_queue_len)
__CPROVER_assigns(CTOR_ASSIGNS(this_))
CTOR_POST
__CPROVER_ensures(MAXL == max_queue_len && MINL == min_queue_len)           /* exactly the configured lengths */
;
void h_q_ctor_mm(void) { QT *q; cv_i64 mx, mn; q_ctor_mm(q, mx, mn); __CPROVER_assert(0, "SENTINEL reachable"); }
#endif
