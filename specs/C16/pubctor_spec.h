/* C16 - publisher<int>::publisher() / publisher(max, min), publisher<int>::queue::~queue(), and the DESTRUCTION ROUTE ~publisher() -> queue::close()
 * -> push_lk(lk, 0) as ONE unit over the real bodies.
 *
 * Constructors: std::make_shared<queue>(args...) is an assumed contract (below): ONE allocation, the queue constructed in place by the REAL translated
 * constructor with exactly the arguments given, one owner.  Postcondition = the induction base of ctor_spec.h stated for the queue the new publisher
 * refers to: a fresh publisher is open, has published nothing, has no subscriber, and carries exactly the configured lengths (property quantifier:
 * "queue configurations min/max in 1..5 and unlimited"). */
#undef QP
#define QP ps_q                        /* the queue the publisher refers to (assigned by the make_shared model / the harness) */
typedef struct S_class_cocls__publisher PUBT;
cv_i32 gh_mk_calls;
#define MK_BODY(CONSTRUCT) \
  QT *q = (QT *)malloc(sizeof(QT)); __CPROVER_assume(q != 0); gh_allocs++; gh_mk_calls++; ps_q = q; \
  CONSTRUCT; \
  ((void **)ret)[0] = (void *)q; ((void **)ret)[1] = (void *)q /* control block: not modelled (one block) */; gh_sp_refs++;
#ifdef CV_HAS_st_mk_q
void st_mk_q(SHQ *ret) { MK_BODY(q_ctor(q)) }
#endif
#ifdef CV_HAS_st_mk_q_mm
void st_mk_q_mm(SHQ *ret, cv_i64 *mx, cv_i64 *mn) { MK_BODY(q_ctor_mm(q, *mx, *mn)) }
#endif
#define PUBCTOR_ASSIGNS(p) __CPROVER_object_whole(p), ps_q, gh_mk_calls, gh_allocs, gh_sp_refs, DQ_MODEL_ASSIGNS, RG_MODEL_ASSIGNS, WB_MODEL_ASSIGNS
#define PUBCTOR_PRE(p) (cv_exc_pending == 0 && FREE_LOCK && gh_mk_calls == 0 && __CPROVER_is_fresh(p, sizeof(*(p))))
#define PUBCTOR_POST(p) \
  __CPROVER_ensures(gh_mk_calls == 1 && gh_allocs == __CPROVER_old(gh_allocs) + 1 && gh_sp_refs == __CPROVER_old(gh_sp_refs) + 1)   /* one queue, one owner */ \
  __CPROVER_ensures(ps_q != 0 && __CPROVER_rw_ok(ps_q, sizeof(QT)) && SQ(p) == ps_q)                                                   /* the publisher refers to it */ \
  CTOR_POST
#ifdef CV_HAS_pub_ctor
void pub_ctor(PUBT *pub)
__CPROVER_requires(PUBCTOR_PRE(pub))
__CPROVER_assigns(PUBCTOR_ASSIGNS(pub))
PUBCTOR_POST(pub)
__CPROVER_ensures(MAXL == SIZE_MAX_ && MINL == 1)                           /* documented default: minimal queue size 1, maximal infinity */
;
void h_pub_ctor(void) { PUBT *p; pub_ctor(p); __CPROVER_assert(0, "SENTINEL reachable"); }
#endif
#ifdef CV_HAS_pub_ctor_mm
void pub_ctor_mm(PUBT *pub, cv_i64 max_queue_len, cv_i64 min_queue_len)
__CPROVER_requires(PUBCTOR_PRE(pub) && min_queue_len >= 1 && max_queue_len >= min_queue_len)
__CPROVER_assigns(PUBCTOR_ASSIGNS(pub))
PUBCTOR_POST(pub)
__CPROVER_ensures(MAXL == max_queue_len && MINL == min_queue_len)           /* exactly the configured lengths, in this order */
;
void h_pub_ctor_mm(void) { PUBT *p; cv_i64 mx, mn; pub_ctor_mm(p, mx, mn); __CPROVER_assert(0, "SENTINEL reachable"); }
#endif

/* ---- queue::~queue() (implicit): runs when the LAST owner (publisher or subscriber) lets go.  By then nobody is registered any more (every subscriber
 *      holds a reference and leaves in its destructor), so there is nobody to wake: the destructor releases the three containers, each exactly once,
 *      resumes nobody, takes no lock.  (Waking waiting subscribers is the job of ~publisher() -> close(), see below - not of ~queue().) */
#ifdef CV_HAS_q_dtor
void q_dtor(QT *q)
__CPROVER_requires(cv_exc_pending == 0 && FREE_LOCK && q == ps_q && gh_dq_dtor == 0 && gh_rg_dtor == 0 && gh_n_lock == 0)
__CPROVER_assigns(DTOR_MODEL_ASSIGNS, RES_MODEL_ASSIGNS, LOCK_ASSIGNS)
__CPROVER_ensures(cv_exc_pending == 0 && FREE_LOCK && gh_n_lock == 0)
__CPROVER_ensures(gh_dq_dtor == 1 && gh_rg_dtor == 1)                                                        /* every container released exactly once */
__CPROVER_ensures(gh_n_res == __CPROVER_old(gh_n_res) && gh_n_res_AW == __CPROVER_old(gh_n_res_AW))            /* resumes nobody */
;
void h_q_dtor(void) { QT qo; ps_q = &qo; q_dtor(&qo); __CPROVER_assert(0, "SENTINEL reachable"); }
#endif

/* ---- the destruction route.  Property clause: "closing or destroying the publisher wakes every waiting subscriber"; class documentation of
 *      ~publisher(): "the subscribers can still read rest of the queue.  However, the queue is marked as closed, so when the subscriber processes all
 *      values, EOF is returned".  ONE unit over the REAL ~publisher(), queue::close(), push_lk (both loops under their loop contracts) down to the
 *      container models, from every state that satisfies the queue invariant:
 *        - the queue is closed afterwards; every awaiter parked in a registration is collected and resumed EXACTLY ONCE, outside the lock (ghost awaiter
 *          gh_AW: parked -> +1, not parked -> +0), nobody stays parked; the woken subscriber's check_next() then reports end-of-stream exactly when it
 *          has drained the window (units get_value_lk / proto_*: closed and position == stream position);
 *        - destroying a publisher whose queue is ALREADY closed (close() was called before) wakes nobody and changes nothing: closed exactly once;
 *        - the stream is not touched: position, published values and - for every registered subscriber the window served - the retained items it still
 *          needs stay in place (subscribers that outlive the publisher keep reading up to the end), min/max respected, invariant re-established at
 *          every release of the mutex;
 *        - the publisher's reference is dropped, the lock is free.
 *      Sequential reading (gh_rely_on == 0): what other threads do between the two critical sections of push_lk is the subject of unit push_lk (rely at
 *      the re-acquisition); the obligations of push_lk at its release of the mutex (c16_on_unlock, C16_UNLOCK_PUSH) are checked here as well. */
#ifdef CV_HAS_pubd_dtor
void pubd_dtor(PUBT *pub)
__CPROVER_requires(cv_exc_pending == 0 && FREE_LOCK && gh_n_lock == 0 && gh_n_unlock == 0 && gh_n_unlock_chk == 0 && gh_rely_on == 0)
__CPROVER_requires(Q_INV && POS + 1 < PS_BIG && (T_IN ==> SLOT_INV(T, gh_RH)) && rg_other_idx == RG_NONE && GH_PIN)
__CPROVER_requires(gh_closed0 == CLOSED && gh_pos0 == POS && gh_len0 == dq_len && gh_cnt == 0 && gh_ret0 <= 1 && (gh_ret0 ==> T_RET))
__CPROVER_requires(gh_n_res < PS_BIG && gh_n_sp_dtor < PS_BIG && gh_n_res_AW < PS_BIG && WB_LEN(&ps_q->_wakeup_buffer) <= PS_BIG)
__CPROVER_assigns(MODEL_ASSIGNS, LOCK_ASSIGNS, gh_n_unlock_chk, gh_sp_refs, __CPROVER_object_whole(ps_q))
__CPROVER_ensures(cv_exc_pending == 0 && FREE_LOCK && CLOSED == 1)                                              /* closed; lock free */
__CPROVER_ensures(gh_sp_refs == __CPROVER_old(gh_sp_refs) - 1)                                                  /* the publisher's reference is dropped */
__CPROVER_ensures(gh_aw_state == 1 ==> gh_n_res_AW == __CPROVER_old(gh_n_res_AW) + 1)                           /* every parked subscriber is woken exactly once ... */
__CPROVER_ensures(gh_aw_state == 0 ==> gh_n_res_AW == __CPROVER_old(gh_n_res_AW))                               /* ... nobody else */
__CPROVER_ensures(gh_n_res - __CPROVER_old(gh_n_res) == gh_n_sp_dtor - __CPROVER_old(gh_n_sp_dtor))
__CPROVER_ensures((T_IN && T._used) ==> T._awt == 0)                                                            /* nobody stays parked on a closed queue */
__CPROVER_ensures(gh_closed0 == 1 ==> (gh_n_res == __CPROVER_old(gh_n_res) && gh_n_unlock_chk == 1 && dq_len == __CPROVER_old(dq_len)))   /* already closed: closing again wakes nobody, trims nothing */
__CPROVER_ensures(gh_closed0 == 0 ==> gh_n_unlock_chk == 2)                                                     /* close: [collect] unlock [resume] lock [swap] unlock */
__CPROVER_ensures(POS == __CPROVER_old(ps_q->_pos) && dq_front == __CPROVER_old(dq_front) && dq_trk == __CPROVER_old(dq_trk) && dq_len <= __CPROVER_old(dq_len))   /* the stream itself is untouched */
__CPROVER_ensures(T_IN ==> (T._pos == __CPROVER_old(rg_trk._pos) && T._used == __CPROVER_old(rg_trk._used) && T._kicked == __CPROVER_old(rg_trk._kicked) && T._sub == __CPROVER_old(rg_trk._sub)))
__CPROVER_ensures((T_IN && T._used && gh_ret0) ==> T_RET)                                                       /* retained items a subscriber still needs stay readable after the publisher is gone */
Q_INV_E
__CPROVER_ensures(T_IN ==> SLOT_INV(T, gh_RH))
;
void h_pub_dtor_close(void) { QT qo; PUBT po; ps_q = &qo; *(QT **)&po = &qo; pubd_dtor(&po);
  __CPROVER_assert(!(gh_closed0 == 0 && gh_aw_state == 1), "SENTINEL reachable: open queue, a subscriber is parked");
  __CPROVER_assert(!(gh_closed0 == 1), "SENTINEL reachable: queue already closed");
  __CPROVER_assert(0, "SENTINEL reachable"); }
#endif
