/* C09 harness for the throwing-constructor payload unit (thr_item::fail, the state of Q / W and the argument are nondet inputs).
 * One reachability sentinel per INPUT class (a pop waits or not x the constructor throws or not); the entry values are read before the call
 * (the preconditions only constrain them), so the sentinels do not depend on what the code under contract does on that path. */
#ifdef CV_HAS_qt_push
void h_qt_push(void) { SPB *r; QT *q; cv_i32 *v;
  int waiting = wq_head < wq_tail, fails = *THR_FAIL != 0;
  qt_push(r, q, v);
  if (waiting && !fails)  __CPROVER_assert(0, "SENTINEL reachable: a pop waits, item constructed");
  if (waiting && fails)   __CPROVER_assert(0, "SENTINEL reachable: a pop waits, constructor throws");
  if (!waiting && !fails) __CPROVER_assert(0, "SENTINEL reachable: nobody waits, item constructed");
  if (!waiting && fails)  __CPROVER_assert(0, "SENTINEL reachable: nobody waits, constructor throws");
  __CPROVER_assert(0, "SENTINEL reachable"); }
#endif
