/* C09 - cocls::queue<mo_item>: the same contracts as queue<int> (q_spec.h) for a MOVE-ONLY item type (drivers/c09_mo_item.h), plus what
 * "delivered to exactly one pop - never lost, never duplicated" means for an OBJECT (the clauses an int cannot distinguish):
 *   D1  the object a pop receives carries the tag of the pushed item and is NOT moved-from (moved_cnt == 0)
 *   D2  the object the caller pushed is moved from exactly ONCE (moved_cnt == 1 afterwards)
 *   D3  live instances are conserved: push + 1 (the caller still owns the moved-from husk, the queue / the consumer's future owns the item),
 *       pop that delivers + 0 (the queue's element is destroyed after its value went into the future), pop that parks + 0
 *   D4  no instance that still carries its value is destroyed (mo_item::dead_valued unchanged): nothing owed to a consumer dies
 *   D5  ~queue() with items inside destroys exactly those items (live - |Q|): none leaked
 * Containers / promise<mo_item>: lib/model_awq_mo.c (the model runs the real translated move constructor / destructor of mo_item). */
#ifdef CV_MODEL_MO
#define QM_MODEL    LOCK_STATE, gh_pr, MQ_STATE, WQ_STATE, MO_STATE
#define MINV9       (!(MQ_LEN > 0 && WQ_LEN > 0))
#define QM_PRE(q)   (cv_exc_pending == 0 && __CPROVER_is_fresh(q, sizeof(*(q))) && LOCK_IDLE && gh_q_mx == (void *)&(q)->_mx && gh_q_lock_required == 1 && \
                     PR_LOG_CLEAN && MQ_INV && MQ_CLEAN && WQ_INV && WQ_CLEAN && MINV9 && MO_CLEAN)
#define QM_POST     (cv_exc_pending == 0 && MQ_INV && MQ_SYNC && WQ_INV && MINV9 && PR_HYGIENE && gh_mq.bad_in == 0 && gh_mo.src_was_moved == 0)
#define MQ_SAME     (mq_head == OLD(mq_head) && mq_tail == OLD(mq_tail) && mq_trk.tag == OLD(mq_trk.tag) && mq_trk.moved_cnt == OLD(mq_trk.moved_cnt))
#define MW_SAME     (wq_head == OLD(wq_head) && wq_tail == OLD(wq_tail) && wq_trk == OLD(wq_trk))
#define MW_NONEMPTY0 (OLD(wq_head) < OLD(wq_tail))
#define MQ_NONEMPTY0 (OLD(mq_head) < OLD(mq_tail))
#define NO_VALUE_DIED (*MO_DEAD == OLD(*MO_DEAD))
#endif

#ifdef CV_HAS_qm_push
void qm_push(SPB *ret, QM *this_, MO *args)
__CPROVER_requires(QM_PRE(this_) && __CPROVER_is_fresh(ret, sizeof(*ret)) && __CPROVER_is_fresh(args, sizeof(*args)) && MO_VALUED(*args))
__CPROVER_assigns(__CPROVER_object_whole(ret), __CPROVER_object_whole(args), QM_MODEL)
__CPROVER_ensures(QM_POST && ONE_CS && gh_pr.fresh_n == 0)
/* a pop is waiting: exactly the oldest one is taken out of W and receives the item, once, after the lock has been released */
__CPROVER_ensures(MW_NONEMPTY0 ==> (wq_head == OLD(wq_head) + 1 && wq_tail == OLD(wq_tail) && wq_trk == OLD(wq_trk) && MQ_SAME))
__CPROVER_ensures(MW_NONEMPTY0 ==> (gh_pr.n == 1 && gh_pr.kind[0] == PR_VALUE && gh_pr.locked[0] == 0 && ret->value == 1 && gh_mo.n_deliv == 1))
__CPROVER_ensures((MW_NONEMPTY0 && gh_WK == OLD(wq_head)) ==> gh_pr.id[0] == OLD(wq_trk))
__CPROVER_ensures(MW_NONEMPTY0 ==> (gh_mo.deliv.tag == OLD(args->tag) && gh_mo.deliv.moved_cnt == 0))            /* D1: the consumer's object carries the tag, not moved-from */
/* nobody waits: the item is appended at the tail of Q; every queued item keeps its place; no promise is touched */
__CPROVER_ensures(!MW_NONEMPTY0 ==> (mq_tail == OLD(mq_tail) + 1 && mq_head == OLD(mq_head) && MW_SAME && gh_pr.n == 0 && ret->value == 0 && gh_mo.n_deliv == 0))
__CPROVER_ensures((!MW_NONEMPTY0 && gh_MK == OLD(mq_tail)) ==> (mq_trk.tag == OLD(args->tag) && mq_trk.moved_cnt == 0))    /* D1 for the stored item */
__CPROVER_ensures((!MW_NONEMPTY0 && gh_MK != OLD(mq_tail)) ==> (mq_trk.tag == OLD(mq_trk.tag) && mq_trk.moved_cnt == OLD(mq_trk.moved_cnt)))
__CPROVER_ensures(args->moved_cnt == 1)                                                                           /* D2: the source is moved from exactly once */
__CPROVER_ensures(*MO_LIVE == OLD(*MO_LIVE) + 1)                                                                  /* D3: one more instance (the item now lives in the queue / the future) */
__CPROVER_ensures(NO_VALUE_DIED)                                                                                  /* D4 */
;
#endif

#ifdef CV_HAS_qm_pop
void qm_pop(FUTM *ret, QM *this_)
__CPROVER_requires(QM_PRE(this_) && __CPROVER_is_fresh(ret, sizeof(*ret)))
__CPROVER_assigns(__CPROVER_object_whole(ret), QM_MODEL)
__CPROVER_ensures(QM_POST && ONE_CS)
__CPROVER_ensures(gh_pr.fresh == ret && gh_pr.fresh_n == 1)
/* an item is waiting: the OLDEST item is removed and delivered to this pop */
__CPROVER_ensures(MQ_NONEMPTY0 ==> (mq_head == OLD(mq_head) + 1 && mq_tail == OLD(mq_tail) && mq_trk.tag == OLD(mq_trk.tag) && MW_SAME))
__CPROVER_ensures(MQ_NONEMPTY0 ==> (gh_pr.n == 1 && gh_pr.id[0] == ret && gh_pr.kind[0] == PR_VALUE && gh_mo.n_deliv == 1))
__CPROVER_ensures((MQ_NONEMPTY0 && gh_MK == OLD(mq_head)) ==> (gh_mo.deliv.tag == OLD(mq_trk.tag) && gh_mo.deliv.moved_cnt == 0))   /* D1 */
__CPROVER_ensures(MQ_NONEMPTY0 ==> gh_mo.deliv.moved_cnt == 0)                                                                       /* D1 at every position: never a husk */
/* no item: this pop is parked behind every earlier waiting pop; its future stays pending; nothing is resolved */
__CPROVER_ensures(!MQ_NONEMPTY0 ==> (wq_tail == OLD(wq_tail) + 1 && wq_head == OLD(wq_head) && MQ_SAME && gh_pr.n == 0 && gh_mo.n_deliv == 0 && FUT_PENDING(ret)))
__CPROVER_ensures((!MQ_NONEMPTY0 && gh_WK == OLD(wq_tail)) ==> wq_trk == ret)
__CPROVER_ensures((!MQ_NONEMPTY0 && gh_WK != OLD(wq_tail)) ==> wq_trk == OLD(wq_trk))
__CPROVER_ensures(*MO_LIVE == OLD(*MO_LIVE))                                                                      /* D3: moved into the future (+1), the queue's husk destroyed (-1) */
__CPROVER_ensures(NO_VALUE_DIED)                                                                                  /* D4: what was destroyed no longer carried the value */
;
#endif

#ifdef CV_HAS_qm_dtor
void qm_dtor(QM *this_)
__CPROVER_requires(cv_exc_pending == 0 && __CPROVER_is_fresh(this_, sizeof(*this_)) && LOCK_IDLE && gh_q_lock_required == 0 && PR_LOG_CLEAN && MQ_INV && MQ_CLEAN && WQ_INV && WQ_CLEAN && MINV9 && MO_CLEAN)
__CPROVER_requires(MQ_LEN < (1 << 20) && *MO_LIVE >= MQ_LEN)                                                       /* the queued items are among the live instances */
__CPROVER_assigns(QM_MODEL)
__CPROVER_ensures(cv_exc_pending == 0 && LOCK_IDLE && gh_n_lock == OLD(gh_n_lock))
__CPROVER_ensures(wq_dtor_n == 1 && wq_dropped_lo == OLD(wq_head) && wq_dropped_hi == OLD(wq_tail))
__CPROVER_ensures((gh_WK >= OLD(wq_head) && gh_WK < OLD(wq_tail)) ==> wq_trk_drops == 1)
__CPROVER_ensures(gh_pr.n == 0 && gh_pr.lost == 0 && gh_mo.n_deliv == 0)
/* D5: every item still inside is destroyed, exactly once - none leaked */
__CPROVER_ensures(gh_mq.dtor_n == 1 && gh_mq.dropped_lo == OLD(mq_head) && gh_mq.dropped_hi == OLD(mq_tail))
__CPROVER_ensures((gh_MK >= OLD(mq_head) && gh_MK < OLD(mq_tail)) ==> gh_mq.trk_drops == 1)
__CPROVER_ensures(*MO_LIVE == OLD(*MO_LIVE) - (unsigned)(OLD(mq_tail) - OLD(mq_head)))
;
#endif
