/* C09 - contracts on cocls::queue<int> / cocls::queue<void> and primitives::std_queue<void> (src/cocls/queue.h).
 *
 * Abstract state (under the queue mutex _mx):
 *   Q  item sequence            queue<int>: model of std::queue<int> (lib/model_awq_containers.c, positions iq_head..iq_tail, content at gh_IK)
 *                               queue<void>: the real counter this->_queue._sz (std_queue<void>, verified in its own units)
 *   W  waiting-consumer sequence: model of std::queue<promise<T>> (positions wq_head..wq_tail, promise identity at gh_WK)
 *   object invariant  INV9: not (Q non-empty and W non-empty)
 * Promises are abstract (lib/model_awq_promise.c): gh_pr logs WHICH promise was resolved HOW, how often and whether a mutex was held.
 * Postconditions are the property statement of C09, position-wise over the arbitrary-but-fixed ghost positions gh_IK / gh_WK:
 *   push:        W non-empty  => exactly the OLDEST waiting pop receives exactly v, once, after the lock was released; Q untouched
 *                W empty      => Q' = Q . v; nobody is resolved
 *   pop:         Q non-empty  => the returned future is ready with head(Q), which is removed; W untouched
 *                Q empty      => the pop is parked BEHIND all earlier waiting pops with a pending future; nothing is resolved
 *   unblock_pop: W non-empty  => exactly the OLDEST waiting pop fails with exactly e (outside the lock), result true
 *                W empty      => nothing changes, result false
 *   ~queue:      every parked promise is destroyed unresolved (=> await_canceled_exception by the promise contract, C01), nothing else
 *   size/empty:  observers, under the lock.
 * All clauses use __CPROVER_old on plain lvalues only, so the same contracts are REPLACED at the call sites of the history lemmas
 * (h_lemma.c).  Lock discipline: containers only while LOCKED (model obligations), parked promises resolved / coroutines resumed
 * only after unlock (gh_pr.locked / gh_pr.sp_flush_locked), exactly one critical section per operation. */

void _ZSt20__throw_system_errori(cv_i32 e) { __CPROVER_assert(0, "std::system_error thrown by std::mutex"); __CPROVER_assume(0); }

#define LOCK_IDLE   (gh_lock_depth == 0 && gh_lock_held == 0)
#define LOCK_STATE  gh_lock_held, gh_lock_depth, gh_n_lock, gh_n_unlock
/* one critical section, left again; nothing lost on an empty promise; nothing resumed under the lock */
#define ONE_CS      (LOCK_IDLE && gh_n_lock == __CPROVER_old(gh_n_lock) + 1 && gh_n_unlock == __CPROVER_old(gh_n_unlock) + 1)
#define PR_HYGIENE  (gh_pr.lost == 0 && gh_pr.sp_flush_locked == 0)
#define OLD(x) __CPROVER_old(x)

/* ------------------------------------------------------------------------------------------------ std_queue<void> (counter) */
#ifndef SQV_VALID
#define SQV_VALID(p) __CPROVER_is_fresh(p, sizeof(*(p)))       /* enforce units; callers that REPLACE these contracts define it as rw_ok */
#endif
#define SQV_LOCK_OK (!gh_q_lock_required || LOCKED(gh_q_mx))    /* the counter is guarded by the queue mutex too */
#ifdef CV_HAS_sqv_emplace
void sqv_emplace(SQV *this_)
__CPROVER_requires(cv_exc_pending == 0 && SQV_VALID(this_) && SQV_LOCK_OK)
__CPROVER_requires(this_->_sz < (1ul << 62))                                                  /* the count does not wrap */
__CPROVER_assigns(this_->_sz)
__CPROVER_ensures(this_->_sz == OLD(this_->_sz) + 1)                                          /* one more */
;
#endif
#ifdef CV_HAS_sqv_pop
void sqv_pop(SQV *this_)
__CPROVER_requires(cv_exc_pending == 0 && SQV_VALID(this_) && SQV_LOCK_OK)
__CPROVER_assigns(this_->_sz)
__CPROVER_ensures(OLD(this_->_sz) > 0 ==> this_->_sz == OLD(this_->_sz) - 1)                  /* one less */
__CPROVER_ensures(OLD(this_->_sz) == 0 ==> this_->_sz == 0)                                   /* pop on 0 stays 0 (never negative / wrapped) */
;
#endif
#ifdef CV_HAS_sqv_size
cv_i64 sqv_size(SQV *this_)
__CPROVER_requires(cv_exc_pending == 0 && SQV_VALID(this_) && SQV_LOCK_OK)
__CPROVER_assigns()
__CPROVER_ensures(__CPROVER_return_value == this_->_sz)
;
#endif
#ifdef CV_HAS_sqv_empty
cv_i1 sqv_empty(SQV *this_)
__CPROVER_requires(cv_exc_pending == 0 && SQV_VALID(this_) && SQV_LOCK_OK)
__CPROVER_assigns()
__CPROVER_ensures(__CPROVER_return_value == (this_->_sz == 0 ? 1 : 0))
;
#endif

/* ------------------------------------------------------------------------------------------------ queue<int> */
#ifdef CV_MODEL_IQ
#define QI_MODEL    LOCK_STATE, gh_pr, IQ_STATE, WQ_STATE
#define INV9        (!(IQ_LEN > 0 && WQ_LEN > 0))
#define QI_PRE(q)   (cv_exc_pending == 0 && __CPROVER_is_fresh(q, sizeof(*(q))) && LOCK_IDLE && gh_q_mx == (void *)&(q)->_mx && gh_q_lock_required == 1 && \
                     PR_LOG_CLEAN && IQ_INV && WQ_INV && WQ_CLEAN && INV9)
#define QI_POST     (cv_exc_pending == 0 && IQ_INV && WQ_INV && INV9 && PR_HYGIENE)
#define Q_SAME      (iq_head == OLD(iq_head) && iq_tail == OLD(iq_tail) && iq_trk == OLD(iq_trk))
#define W_SAME      (wq_head == OLD(wq_head) && wq_tail == OLD(wq_tail) && wq_trk == OLD(wq_trk))
#define W_NONEMPTY0 (OLD(wq_head) < OLD(wq_tail))
#define Q_NONEMPTY0 (OLD(iq_head) < OLD(iq_tail))
#endif

#ifdef CV_HAS_qi_ctor
void qi_ctor(QI *this_)
__CPROVER_requires(cv_exc_pending == 0 && __CPROVER_is_fresh(this_, sizeof(*this_)) && LOCK_IDLE && gh_q_lock_required == 0)
__CPROVER_assigns(__CPROVER_object_whole(this_), IQ_STATE, WQ_STATE)
__CPROVER_ensures(cv_exc_pending == 0 && iq_head == 0 && iq_tail == 0 && wq_head == 0 && wq_tail == 0 && wq_slot_pos == QM_NOPOS)     /* starts empty: no item, nobody waiting (positions count from 0) */
__CPROVER_ensures(IQ_INV && WQ_INV && INV9)
;
#endif

#ifdef CV_HAS_qi_push
void qi_push(SPB *ret, QI *this_, cv_i32 *args)
__CPROVER_requires(QI_PRE(this_) && __CPROVER_is_fresh(ret, sizeof(*ret)) && __CPROVER_is_fresh(args, sizeof(*args)))
__CPROVER_assigns(__CPROVER_object_whole(ret), QI_MODEL)
__CPROVER_ensures(QI_POST && ONE_CS)
/* a pop is waiting: exactly the oldest one is taken out of W ... */
__CPROVER_ensures(W_NONEMPTY0 ==> (wq_head == OLD(wq_head) + 1 && wq_tail == OLD(wq_tail) && wq_trk == OLD(wq_trk) && Q_SAME))
/* ... and receives exactly the pushed value, exactly once, after the lock has been released */
__CPROVER_ensures(W_NONEMPTY0 ==> (gh_pr.n == 1 && gh_pr.kind[0] == PR_VALUE && gh_pr.val[0] == OLD(*args) && gh_pr.locked[0] == 0))
__CPROVER_ensures((W_NONEMPTY0 && gh_WK == OLD(wq_head)) ==> gh_pr.id[0] == OLD(wq_trk))
__CPROVER_ensures(W_NONEMPTY0 ==> ret->value == 1)
/* nobody waits: the value is appended at the tail of Q; every queued item keeps its position; no promise is touched */
__CPROVER_ensures(!W_NONEMPTY0 ==> (iq_tail == OLD(iq_tail) + 1 && iq_head == OLD(iq_head) && W_SAME && gh_pr.n == 0 && ret->value == 0))
__CPROVER_ensures((!W_NONEMPTY0 && gh_IK == OLD(iq_tail)) ==> iq_trk == OLD(*args))
__CPROVER_ensures((!W_NONEMPTY0 && gh_IK != OLD(iq_tail)) ==> iq_trk == OLD(iq_trk))
__CPROVER_ensures(gh_pr.fresh_n == 0)
;
#endif

#ifdef CV_HAS_qi_pop
void qi_pop(FUTI *ret, QI *this_)
__CPROVER_requires(QI_PRE(this_) && __CPROVER_is_fresh(ret, sizeof(*ret)))
__CPROVER_assigns(__CPROVER_object_whole(ret), QI_MODEL)
__CPROVER_ensures(QI_POST && ONE_CS)
__CPROVER_ensures(gh_pr.fresh == ret && gh_pr.fresh_n == 1)                              /* one promise, the one of the returned future */
/* an item is waiting: the OLDEST item is removed and delivered to this pop - the returned future is ready with exactly it */
__CPROVER_ensures(Q_NONEMPTY0 ==> (iq_head == OLD(iq_head) + 1 && iq_tail == OLD(iq_tail) && iq_trk == OLD(iq_trk) && W_SAME))
__CPROVER_ensures(Q_NONEMPTY0 ==> (gh_pr.n == 1 && gh_pr.id[0] == ret && gh_pr.kind[0] == PR_VALUE))      /* "ready": its promise is resolved, once, with a value ... */
__CPROVER_ensures((Q_NONEMPTY0 && gh_IK == OLD(iq_head)) ==> gh_pr.val[0] == OLD(iq_trk))                  /* ... which is exactly head(Q) */
/* no item: this pop is parked behind every earlier waiting pop; its future stays pending; nothing is resolved */
__CPROVER_ensures(!Q_NONEMPTY0 ==> (wq_tail == OLD(wq_tail) + 1 && wq_head == OLD(wq_head) && Q_SAME && gh_pr.n == 0 && FUT_PENDING(ret)))
__CPROVER_ensures((!Q_NONEMPTY0 && gh_WK == OLD(wq_tail)) ==> wq_trk == ret)
__CPROVER_ensures((!Q_NONEMPTY0 && gh_WK != OLD(wq_tail)) ==> wq_trk == OLD(wq_trk))
;
#endif

#ifdef CV_HAS_qi_unblock_pop
void qi_unblock_pop(SPB *ret, QI *this_, EXCP *e)
__CPROVER_requires(QI_PRE(this_) && __CPROVER_is_fresh(ret, sizeof(*ret)) && __CPROVER_is_fresh(e, sizeof(*e)))
__CPROVER_assigns(__CPROVER_object_whole(ret), QI_MODEL, gh_ep_addref, gh_ep_release)
__CPROVER_ensures(QI_POST && ONE_CS && Q_SAME && gh_pr.fresh_n == 0)
/* somebody waits: exactly the OLDEST waiting pop is removed and fails with exactly e, outside the lock */
__CPROVER_ensures(W_NONEMPTY0 ==> (wq_head == OLD(wq_head) + 1 && wq_tail == OLD(wq_tail) && wq_trk == OLD(wq_trk)))
__CPROVER_ensures(W_NONEMPTY0 ==> (gh_pr.n == 1 && gh_pr.kind[0] == PR_EXC && gh_pr.exc[0] == OLD(e->_M_exception_object) && gh_pr.locked[0] == 0 && ret->value == 1))
__CPROVER_ensures((W_NONEMPTY0 && gh_WK == OLD(wq_head)) ==> gh_pr.id[0] == OLD(wq_trk))
/* nobody waits: nothing happens */
__CPROVER_ensures(!W_NONEMPTY0 ==> (W_SAME && gh_pr.n == 0 && ret->value == 0))
__CPROVER_ensures(e->_M_exception_object == OLD(e->_M_exception_object))
/* the exception object stays referenced exactly by the future that received it (reference traffic balanced otherwise) */
__CPROVER_ensures(gh_ep_addref - OLD(gh_ep_addref) == gh_ep_release - OLD(gh_ep_release) + ((W_NONEMPTY0 && e->_M_exception_object != 0) ? 1 : 0))
;
#endif

#ifdef CV_HAS_qi_size
cv_i64 qi_size(QI *this_)
__CPROVER_requires(QI_PRE(this_))
__CPROVER_assigns(LOCK_STATE)
__CPROVER_ensures(cv_exc_pending == 0 && ONE_CS && __CPROVER_return_value == iq_tail - iq_head)
;
#endif
#ifdef CV_HAS_qi_empty
cv_i1 qi_empty(QI *this_)
__CPROVER_requires(QI_PRE(this_))
__CPROVER_assigns(LOCK_STATE)
__CPROVER_ensures(cv_exc_pending == 0 && ONE_CS && __CPROVER_return_value == (iq_tail == iq_head ? 1 : 0))
;
#endif

#ifdef CV_HAS_qi_dtor
/* destruction is exclusive by the rules of the language: no lock is needed (gh_q_lock_required == 0) and none is taken */
void qi_dtor(QI *this_)
__CPROVER_requires(cv_exc_pending == 0 && __CPROVER_is_fresh(this_, sizeof(*this_)) && LOCK_IDLE && gh_q_lock_required == 0 && PR_LOG_CLEAN && IQ_INV && WQ_INV && WQ_CLEAN && INV9)
__CPROVER_assigns(QI_MODEL)
__CPROVER_ensures(cv_exc_pending == 0 && LOCK_IDLE && gh_n_lock == OLD(gh_n_lock))
/* every parked promise [head, tail) is destroyed, exactly once, and none of them (nor anybody else) is given a value or an exception */
__CPROVER_ensures(wq_dtor_n == 1 && wq_dropped_lo == OLD(wq_head) && wq_dropped_hi == OLD(wq_tail))
__CPROVER_ensures((gh_WK >= OLD(wq_head) && gh_WK < OLD(wq_tail)) ==> wq_trk_drops == 1)
__CPROVER_ensures(gh_pr.n == 0 && gh_pr.lost == 0)
;
#endif

/* ------------------------------------------------------------------------------------------------ queue<void> (counting semaphore) */
#ifdef CV_MODEL_WQ_VOID
#define CNT(q)      ((q)->_queue._sz)                 /* the semaphore count: the real member of the real std_queue<void> */
#define QV_MODEL(q) LOCK_STATE, gh_pr, WQ_STATE, CNT(q)
#define INV9V(q)    (!(CNT(q) > 0 && WQ_LEN > 0))
#define QV_PRE(q)   (cv_exc_pending == 0 && __CPROVER_is_fresh(q, sizeof(*(q))) && LOCK_IDLE && gh_q_mx == (void *)&(q)->_mx && gh_q_lock_required == 1 && \
                     PR_LOG_CLEAN && WQ_INV && WQ_CLEAN && INV9V(q) && CNT(q) < (1ul << 62))
#define QV_POST(q)  (cv_exc_pending == 0 && WQ_INV && INV9V(q) && PR_HYGIENE)
#define WV_SAME     (wq_head == OLD(wq_head) && wq_tail == OLD(wq_tail) && wq_trk == OLD(wq_trk))
#define WV_NONEMPTY0 (OLD(wq_head) < OLD(wq_tail))
#endif

#ifdef CV_HAS_qv_ctor
void qv_ctor(QV *this_)
__CPROVER_requires(cv_exc_pending == 0 && __CPROVER_is_fresh(this_, sizeof(*this_)) && LOCK_IDLE && gh_q_lock_required == 0)
__CPROVER_assigns(__CPROVER_object_whole(this_), WQ_STATE)
__CPROVER_ensures(cv_exc_pending == 0 && CNT(this_) == 0 && wq_head == 0 && wq_tail == 0 && wq_slot_pos == QM_NOPOS && WQ_INV)
;
#endif

#ifdef CV_HAS_qv_push
/* release: a waiting pop (the oldest) is completed instead of counting; otherwise count + 1 */
void qv_push(SPB *ret, QV *this_)
__CPROVER_requires(QV_PRE(this_) && __CPROVER_is_fresh(ret, sizeof(*ret)))
__CPROVER_assigns(__CPROVER_object_whole(ret), QV_MODEL(this_))
__CPROVER_ensures(QV_POST(this_) && ONE_CS && gh_pr.fresh_n == 0)
__CPROVER_ensures(WV_NONEMPTY0 ==> (wq_head == OLD(wq_head) + 1 && wq_tail == OLD(wq_tail) && wq_trk == OLD(wq_trk) && CNT(this_) == OLD(CNT(this_))))
__CPROVER_ensures(WV_NONEMPTY0 ==> (gh_pr.n == 1 && gh_pr.kind[0] == PR_VALUE && gh_pr.locked[0] == 0 && ret->value == 1))
__CPROVER_ensures((WV_NONEMPTY0 && gh_WK == OLD(wq_head)) ==> gh_pr.id[0] == OLD(wq_trk))
__CPROVER_ensures(!WV_NONEMPTY0 ==> (CNT(this_) == OLD(CNT(this_)) + 1 && WV_SAME && gh_pr.n == 0 && ret->value == 0))
;
#endif

#ifdef CV_HAS_qv_pop
/* acquire: count > 0 => count - 1 and the returned future is ready; count == 0 => parked behind the earlier waiters, pending */
void qv_pop(FUTV *ret, QV *this_)
__CPROVER_requires(QV_PRE(this_) && __CPROVER_is_fresh(ret, sizeof(*ret)))
__CPROVER_assigns(__CPROVER_object_whole(ret), QV_MODEL(this_))
__CPROVER_ensures(QV_POST(this_) && ONE_CS && gh_pr.fresh == ret && gh_pr.fresh_n == 1)
__CPROVER_ensures(OLD(CNT(this_)) > 0 ==> (CNT(this_) == OLD(CNT(this_)) - 1 && WV_SAME))
__CPROVER_ensures(OLD(CNT(this_)) > 0 ==> (gh_pr.n == 1 && gh_pr.id[0] == ret && gh_pr.kind[0] == PR_VALUE))
__CPROVER_ensures(OLD(CNT(this_)) == 0 ==> (CNT(this_) == 0 && wq_tail == OLD(wq_tail) + 1 && wq_head == OLD(wq_head) && gh_pr.n == 0 && FUT_PENDING(ret)))
__CPROVER_ensures((OLD(CNT(this_)) == 0 && gh_WK == OLD(wq_tail)) ==> wq_trk == ret)
__CPROVER_ensures((OLD(CNT(this_)) == 0 && gh_WK != OLD(wq_tail)) ==> wq_trk == OLD(wq_trk))
;
#endif

#ifdef CV_HAS_qv_unblock_pop
void qv_unblock_pop(SPB *ret, QV *this_, EXCP *e)
__CPROVER_requires(QV_PRE(this_) && __CPROVER_is_fresh(ret, sizeof(*ret)) && __CPROVER_is_fresh(e, sizeof(*e)))
__CPROVER_assigns(__CPROVER_object_whole(ret), QV_MODEL(this_), gh_ep_addref, gh_ep_release)
__CPROVER_ensures(QV_POST(this_) && ONE_CS && CNT(this_) == OLD(CNT(this_)) && gh_pr.fresh_n == 0)
__CPROVER_ensures(WV_NONEMPTY0 ==> (wq_head == OLD(wq_head) + 1 && wq_tail == OLD(wq_tail) && wq_trk == OLD(wq_trk)))
__CPROVER_ensures(WV_NONEMPTY0 ==> (gh_pr.n == 1 && gh_pr.kind[0] == PR_EXC && gh_pr.exc[0] == OLD(e->_M_exception_object) && gh_pr.locked[0] == 0 && ret->value == 1))
__CPROVER_ensures((WV_NONEMPTY0 && gh_WK == OLD(wq_head)) ==> gh_pr.id[0] == OLD(wq_trk))
__CPROVER_ensures(!WV_NONEMPTY0 ==> (WV_SAME && gh_pr.n == 0 && ret->value == 0))
__CPROVER_ensures(e->_M_exception_object == OLD(e->_M_exception_object))
__CPROVER_ensures(gh_ep_addref - OLD(gh_ep_addref) == gh_ep_release - OLD(gh_ep_release) + ((WV_NONEMPTY0 && e->_M_exception_object != 0) ? 1 : 0))
;
#endif

#ifdef CV_HAS_qv_size
cv_i64 qv_size(QV *this_)
__CPROVER_requires(QV_PRE(this_))
__CPROVER_assigns(LOCK_STATE)
__CPROVER_ensures(cv_exc_pending == 0 && ONE_CS && __CPROVER_return_value == CNT(this_))
;
#endif
#ifdef CV_HAS_qv_empty
cv_i1 qv_empty(QV *this_)
__CPROVER_requires(QV_PRE(this_))
__CPROVER_assigns(LOCK_STATE)
__CPROVER_ensures(cv_exc_pending == 0 && ONE_CS && __CPROVER_return_value == (CNT(this_) == 0 ? 1 : 0))
;
#endif

#ifdef CV_HAS_qv_dtor
void qv_dtor(QV *this_)
__CPROVER_requires(cv_exc_pending == 0 && __CPROVER_is_fresh(this_, sizeof(*this_)) && LOCK_IDLE && gh_q_lock_required == 0 && PR_LOG_CLEAN && WQ_INV && WQ_CLEAN)
__CPROVER_assigns(LOCK_STATE, gh_pr, WQ_STATE)
__CPROVER_ensures(cv_exc_pending == 0 && LOCK_IDLE && gh_n_lock == OLD(gh_n_lock))
__CPROVER_ensures(wq_dtor_n == 1 && wq_dropped_lo == OLD(wq_head) && wq_dropped_hi == OLD(wq_tail))
__CPROVER_ensures((gh_WK >= OLD(wq_head) && gh_WK < OLD(wq_tail)) ==> wq_trk_drops == 1)
__CPROVER_ensures(gh_pr.n == 0 && gh_pr.lost == 0)
;
#endif
