/* C09 - history lemmas over the CONTRACTS of queue<int> and queue<void> (DESIGN 3.6).
 *
 *   qi_lemma() / qv_lemma():  construct the queue (contract of the constructor), then an UNBOUNDED loop "pick any public operation and call it"
 *   where every call is REPLACED by its contract (q_spec.h) - the contracts are in turn enforced on the real bodies by the qi_* / qv_* units.
 *
 * qi_lemma tracks two arbitrary tagged pushed items a (earlier), b (later), two arbitrary tagged pops w1 (earlier), w2 (later) and event counters:
 *   COUNTING     every push is exactly one of handed-to-a-waiting-pop / appended to Q, every pop exactly one of served-at-once / parked; the
 *                counters move in lockstep with the absolute positions of Q and W (QI_COUNT_INV).  Conservation
 *                      pushes == handed + delivered + |Q|          pops == delivered + handed + failed(unblock_pop) + |W|
 *                follows by linear arithmetic (qi_conservation, SMT back end - 64-bit multi-term sums are hopeless for SAT).
 *   ONE PLACE    a tagged item is in exactly one of { not pushed, Q at position pos, delivered to exactly one pop, handed to exactly one waiting pop };
 *                the pop that takes its position receives exactly its value.  A tagged pop is in exactly one of { not called, completed at once with an
 *                item, waiting in W at position pos, served by exactly one push, failed by exactly one unblock_pop }.
 *   ORDER        a pushed before b => a is delivered before b (a single consumer - and hence every consumer - sees push order);
 *                w1 parked before w2 => w1 leaves W (served or failed) before w2: waiting pops are served in arrival order, unblock_pop fails the oldest.
 *   A pop on an empty queue completes only by a push (value), by unblock_pop (the oldest, with e) - or stays in W until the destructor drops it
 *   (qi_dtor unit) - there is no other transition out of "waiting".
 * qv_lemma: the same for the counting semaphore queue<void>: count == releases that found nobody waiting - acquisitions served at once; a release
 *   with waiters serves exactly the oldest one and leaves the count alone; conservation: releases == handed + acquired + count.
 * Ghost indices / alignment flag `al`, distinct future objects for tagged operations, no-wrap assumption: see specs/C10/h_lemma.c. */
#define QI_COUNT_INV (n_deliv == iq_head && n_room == iq_tail && n_parked == wq_tail && wq_head == n_handed + n_failed && \
                      n_push == n_handed + n_room && n_pop == n_deliv + n_parked)
#define QV_COUNT_INV(q) (n_parked == wq_tail && wq_head == n_handed + n_failed && n_push == n_handed + n_counted && n_pop == n_acq + n_parked && \
                      n_counted == n_acq + CNT(q))

#if defined(CV_HAS_qi_lemma) || defined(CV_HAS_qv_lemma)
#define W_NOT 0
#define W_WAITING 1
#define W_GOT_ITEM 2       /* completed at once: an item (a count) was available   */
#define W_SERVED 3         /* was waiting, completed by a push                      */
#define W_FAILED 4         /* was waiting, failed by unblock_pop                    */
struct q_wtag { int st; cv_i64 pos; int al; };
#define WTAG_INV(w, fp) ( (w).st >= W_NOT && (w).st <= W_FAILED && \
   ((w).st == W_WAITING ==> (wq_head <= (w).pos && (w).pos < wq_tail && ((w).al ==> (gh_WK == (w).pos && wq_trk == (void *)(fp))))) )
#define WORD_INV(w1, w2) ( ((w2).st != W_NOT ==> (w1).st != W_NOT) && \
   (((w1).st == W_WAITING && (w2).st == W_WAITING) ==> (w1).pos < (w2).pos) && \
   ((w1).st == W_WAITING ==> ((w2).st == W_NOT || (w2).st == W_WAITING)) )          /* w2 is not completed / failed while the earlier w1 still waits */
#endif

#ifdef CV_HAS_qi_lemma
#define T_NOTP 0
#define T_INQ 1
#define T_DELIV 2
#define T_HANDED 3
struct q_tag { int loc; cv_i64 pos; cv_i32 v; int al; };
#define TAG_INV(t) ( (t).loc >= T_NOTP && (t).loc <= T_HANDED && \
   ((t).loc == T_INQ   ==> (iq_head <= (t).pos && (t).pos < iq_tail && ((t).al ==> (gh_IK == (t).pos && iq_trk == (t).v)))) && \
   ((t).loc == T_DELIV ==> (t).pos < iq_head) )
#define T_DONE(t) ((t).loc == T_DELIV || (t).loc == T_HANDED)
#define ORD_INV(a, b) ( ((b).loc != T_NOTP ==> (a).loc != T_NOTP) && \
   (((a).loc == T_INQ && (b).loc == T_INQ) ==> (a).pos < (b).pos) && \
   ((a).loc == T_INQ ==> !T_DONE(b)) &&                                              /* b is not delivered before a */ \
   (((a).loc == T_DELIV && (b).loc == T_DELIV) ==> (a).pos < (b).pos) )
#define QI_ENV(q) (cv_exc_pending == 0 && LOCK_IDLE && gh_q_mx == (void *)&(q)->_mx && gh_q_lock_required == 1 && IQ_INV && WQ_INV && INV9)
#define QI_LEMMA_INV (QI_ENV(q) && QI_COUNT_INV && TAG_INV(a) && TAG_INV(b) && ORD_INV(a, b) && WTAG_INV(w1, &pf_1) && WTAG_INV(w2, &pf_2) && WORD_INV(w1, w2))

void qi_lemma(void)
__CPROVER_requires(cv_exc_pending == 0 && LOCK_IDLE)
__CPROVER_assigns(QI_MODEL, gh_q_mx, gh_q_lock_required, gh_ep_addref, gh_ep_release)
__CPROVER_ensures(1)
{
  QI q_obj; QI *q = &q_obj;
  FUTI pf_1, pf_2, pf_o; SPB sp; EXCP e; cv_i32 v;
  struct q_tag a = {T_NOTP, 0, 0, 0}, b = {T_NOTP, 0, 0, 0};
  struct q_wtag w1 = {W_NOT, 0, 0}, w2 = {W_NOT, 0, 0};
  cv_i64 n_push = 0, n_pop = 0, n_handed = 0, n_room = 0, n_deliv = 0, n_parked = 0, n_failed = 0;
  gh_q_lock_required = 0;
  qi_ctor(q);                                                            /* the history starts with the constructor */
  gh_q_mx = (void *)&q->_mx; gh_q_lock_required = 1;
  __CPROVER_assert(QI_LEMMA_INV, "LEMMA base: the constructor establishes the invariant of the history loop");
  /* continue from an ARBITRARY state satisfying the invariant (see specs/C10/h_lemma.c) */
  { struct cv_iq_state hq; struct cv_wq_state hw; struct q_tag ha, hb; struct q_wtag h1, h2; gh_iq = hq; gh_wq = hw; a = ha; b = hb; w1 = h1; w2 = h2;
    n_push = nondet_size_t(); n_pop = nondet_size_t(); n_handed = nondet_size_t(); n_room = nondet_size_t(); n_deliv = nondet_size_t(); n_parked = nondet_size_t(); n_failed = nondet_size_t();
    __CPROVER_assume(QI_LEMMA_INV); }

  while (nondet_bool())
  __CPROVER_assigns(QI_MODEL, gh_ep_addref, gh_ep_release, a, b, w1, w2, n_push, n_pop, n_handed, n_room, n_deliv, n_parked, n_failed, pf_1, pf_2, pf_o, sp, e, v)
  __CPROVER_loop_invariant(QI_LEMMA_INV)
  {
    gh_pr.n = 0; gh_pr.lost = 0; gh_pr.fresh = 0; gh_pr.fresh_n = 0; gh_pr.sp_flush = 0; gh_pr.sp_flush_locked = 0;       /* per-call ghost logs start clean */
    wq_slot_pos = QM_NOPOS; wq_dtor_n = 0; wq_trk_drops = 0;
    QM_NOWRAP(iq_tail); QM_NOWRAP(wq_tail);                            /* ghost positions are mathematical integers: they never wrap */
    cv_i64 h0 = iq_head, t0 = iq_tail, wh0 = wq_head, wt0 = wq_tail;
    unsigned op = nondet_unsigned();
    if (op == 0) {                                                      /* ---------------- push(v) */
      int tag_a = (a.loc == T_NOTP && nondet_bool());
      int tag_b = (!tag_a && a.loc != T_NOTP && b.loc == T_NOTP && nondet_bool());
      v = nondet_unsigned(); cv_i32 v0 = v;
      qi_push(&sp, q, &v);
      n_push++;
      struct q_tag t = {T_NOTP, 0, v0, 0};
      if (wh0 < wt0) {                                                  /* handed to the OLDEST waiting pop */
        n_handed++;
        __CPROVER_assert(gh_pr.n == 1 && gh_pr.kind[0] == PR_VALUE && gh_pr.val[0] == v0 && gh_pr.locked[0] == 0, "LEMMA push/handed: exactly one waiting pop receives exactly the pushed value, outside the lock");
        __CPROVER_assert(iq_tail == t0, "LEMMA push/handed: the item is not also queued");
        t.loc = T_HANDED;
        if (w1.st == W_WAITING && w1.pos == wh0) { __CPROVER_assert(!w1.al || gh_pr.id[0] == (void *)&pf_1, "LEMMA push/handed: the receiver is the oldest waiting pop (w1)"); w1.st = W_SERVED;
          __CPROVER_assert(0, "SENTINEL reachable: waiting pop w1 served by a push"); }
        if (w2.st == W_WAITING && w2.pos == wh0) { __CPROVER_assert(!w2.al || gh_pr.id[0] == (void *)&pf_2, "LEMMA push/handed: the receiver is the oldest waiting pop (w2)");
          __CPROVER_assert(w1.st != W_WAITING, "LEMMA order: waiting pops are served in arrival order"); w2.st = W_SERVED;
          __CPROVER_assert(0, "SENTINEL reachable: waiting pop w2 served by a push"); }
      } else {                                                          /* nobody waits: appended to Q */
        n_room++;
        __CPROVER_assert(gh_pr.n == 0 && iq_tail == t0 + 1 && wq_head == wh0, "LEMMA push/queued: exactly one item more, nobody resolved");
        t.loc = T_INQ; t.pos = t0; t.al = (gh_IK == t0);
        __CPROVER_assert(0, "SENTINEL reachable: push appended to Q");
      }
      if (tag_a) a = t;
      if (tag_b) { b = t; __CPROVER_assert(!(t.loc == T_HANDED) || T_DONE(a), "LEMMA order: a later item is handed over only when no earlier item is still queued"); }
    } else if (op == 1) {                                               /* ---------------- pop() */
      int tag_1 = (w1.st == W_NOT && nondet_bool());
      int tag_2 = (!tag_1 && w1.st != W_NOT && w2.st == W_NOT && nondet_bool());
      FUTI *r = tag_1 ? &pf_1 : (tag_2 ? &pf_2 : &pf_o);
      qi_pop(r, q);
      n_pop++;
      struct q_wtag w = {W_NOT, 0, 0};
      if (h0 < t0) {                                                    /* position h0 of Q is delivered to this pop */
        n_deliv++;
        __CPROVER_assert(gh_pr.n == 1 && gh_pr.id[0] == (void *)r && gh_pr.kind[0] == PR_VALUE && wq_tail == wt0, "LEMMA pop: this pop, and nobody else, is completed with a value");
        if (a.loc == T_INQ && a.pos == h0) { __CPROVER_assert(!a.al || gh_pr.val[0] == a.v, "LEMMA pop: the pop that takes the tagged item's position receives exactly its value (a)"); a.loc = T_DELIV;
          __CPROVER_assert(0, "SENTINEL reachable: tagged item a delivered"); }
        if (b.loc == T_INQ && b.pos == h0) { __CPROVER_assert(!b.al || gh_pr.val[0] == b.v, "LEMMA pop: the pop that takes the tagged item's position receives exactly its value (b)");
          __CPROVER_assert(T_DONE(a), "LEMMA order: b is delivered only after a"); b.loc = T_DELIV;
          __CPROVER_assert(0, "SENTINEL reachable: tagged item b delivered"); }
        w.st = W_GOT_ITEM;
      } else {                                                          /* empty: parked behind the earlier waiting pops */
        n_parked++;
        __CPROVER_assert(gh_pr.n == 0 && FUT_PENDING(r) && wq_tail == wt0 + 1 && wq_head == wh0, "LEMMA pop/empty: the pop waits, pending");
        w.st = W_WAITING; w.pos = wt0; w.al = (gh_WK == wt0);
        __CPROVER_assert(0, "SENTINEL reachable: pop parked");
      }
      if (tag_1) w1 = w;
      if (tag_2) { w2 = w; __CPROVER_assert(!(w.st == W_GOT_ITEM) || w1.st != W_WAITING, "LEMMA order: a later pop gets an item at once only when no earlier pop is still waiting"); }
    } else if (op == 2) {                                               /* ---------------- unblock_pop(e) */
      cv_i8 *e0 = (cv_i8 *)nondet_size_t(); e._M_exception_object = e0;
      qi_unblock_pop(&sp, q, &e);
      if (wh0 < wt0) {
        n_failed++;
        __CPROVER_assert(gh_pr.n == 1 && gh_pr.kind[0] == PR_EXC && gh_pr.exc[0] == (void *)e0 && gh_pr.locked[0] == 0 && sp.value == 1, "LEMMA unblock_pop: exactly one waiting pop fails, with exactly e");
        if (w1.st == W_WAITING && w1.pos == wh0) { __CPROVER_assert(!w1.al || gh_pr.id[0] == (void *)&pf_1, "LEMMA unblock_pop: the failed pop is the oldest waiting one (w1)"); w1.st = W_FAILED;
          __CPROVER_assert(0, "SENTINEL reachable: waiting pop w1 failed by unblock_pop"); }
        if (w2.st == W_WAITING && w2.pos == wh0) { __CPROVER_assert(!w2.al || gh_pr.id[0] == (void *)&pf_2, "LEMMA unblock_pop: the failed pop is the oldest waiting one (w2)");
          __CPROVER_assert(w1.st != W_WAITING, "LEMMA order: unblock_pop fails the OLDEST waiting pop"); w2.st = W_FAILED;
          __CPROVER_assert(0, "SENTINEL reachable: waiting pop w2 failed by unblock_pop"); }
      } else {
        __CPROVER_assert(gh_pr.n == 0 && sp.value == 0, "LEMMA unblock_pop: nothing happens when nobody waits");
      }
      __CPROVER_assert(iq_head == h0 && iq_tail == t0, "LEMMA unblock_pop: no item is touched");
    } else if (op == 3) {                                               /* ---------------- size() */
      cv_i64 s = qi_size(q);
      __CPROVER_assert(s == IQ_LEN, "LEMMA size");
    } else {                                                            /* ---------------- empty() */
      cv_i1 em = qi_empty(q);
      __CPROVER_assert((em != 0) == (IQ_LEN == 0), "LEMMA empty");
    }
  }
  __CPROVER_assert(0, "SENTINEL reachable: after the history loop");
}
void h_qi_lemma(void) { qi_lemma(); __CPROVER_assert(0, "SENTINEL reachable"); }
#endif

#ifdef CV_QI_CONSERVATION
void h_qi_conservation(void) {
  cv_i64 n_push = nondet_size_t(), n_pop = nondet_size_t(), n_handed = nondet_size_t(), n_room = nondet_size_t(), n_deliv = nondet_size_t(), n_parked = nondet_size_t(), n_failed = nondet_size_t();
  iq_head = nondet_size_t(); iq_tail = nondet_size_t(); wq_head = nondet_size_t(); wq_tail = nondet_size_t();
  if (QI_COUNT_INV) {
    __CPROVER_assert(n_push == n_handed + n_deliv + IQ_LEN, "LEMMA conservation (items): every pushed item was handed to exactly one waiting pop, delivered to exactly one pop, or is still queued");
    __CPROVER_assert(n_pop == n_deliv + n_handed + n_failed + WQ_LEN, "LEMMA conservation (pops): every pop was completed by exactly one item, failed by exactly one unblock_pop, or is still waiting");
    __CPROVER_assert(0, "SENTINEL reachable");
  }
}
#endif

/* ------------------------------------------------------------------------------------------------ queue<void>: counting semaphore */
#ifdef CV_HAS_qv_lemma
#define QV_ENV(q) (cv_exc_pending == 0 && LOCK_IDLE && gh_q_mx == (void *)&(q)->_mx && gh_q_lock_required == 1 && WQ_INV && INV9V(q))
#define QV_LEMMA_INV (QV_ENV(q) && QV_COUNT_INV(q) && WTAG_INV(w1, &pf_1) && WTAG_INV(w2, &pf_2) && WORD_INV(w1, w2))
void qv_lemma(void)
__CPROVER_requires(cv_exc_pending == 0 && LOCK_IDLE)
__CPROVER_assigns(LOCK_STATE, gh_pr, WQ_STATE, gh_q_mx, gh_q_lock_required, gh_ep_addref, gh_ep_release)
__CPROVER_ensures(1)
{
  QV q_obj; QV *q = &q_obj;
  FUTV pf_1, pf_2, pf_o; SPB sp; EXCP e;
  struct q_wtag w1 = {W_NOT, 0, 0}, w2 = {W_NOT, 0, 0};
  cv_i64 n_push = 0, n_pop = 0, n_handed = 0, n_counted = 0, n_acq = 0, n_parked = 0, n_failed = 0;
  gh_q_lock_required = 0;
  qv_ctor(q);
  gh_q_mx = (void *)&q->_mx; gh_q_lock_required = 1;
  __CPROVER_assert(QV_LEMMA_INV, "LEMMA base: the constructor establishes the invariant of the history loop");
  { struct cv_wq_state hw; struct q_wtag h1, h2; gh_wq = hw; w1 = h1; w2 = h2; CNT(q) = nondet_size_t();
    n_push = nondet_size_t(); n_pop = nondet_size_t(); n_handed = nondet_size_t(); n_counted = nondet_size_t(); n_acq = nondet_size_t(); n_parked = nondet_size_t(); n_failed = nondet_size_t();
    __CPROVER_assume(QV_LEMMA_INV); }

  while (nondet_bool())
  __CPROVER_assigns(LOCK_STATE, gh_pr, WQ_STATE, gh_ep_addref, gh_ep_release, q_obj._queue._sz, w1, w2, n_push, n_pop, n_handed, n_counted, n_acq, n_parked, n_failed, pf_1, pf_2, pf_o, sp, e)
  __CPROVER_loop_invariant(QV_LEMMA_INV)
  {
    gh_pr.n = 0; gh_pr.lost = 0; gh_pr.fresh = 0; gh_pr.fresh_n = 0; gh_pr.sp_flush = 0; gh_pr.sp_flush_locked = 0;
    wq_slot_pos = QM_NOPOS; wq_dtor_n = 0; wq_trk_drops = 0;
    QM_NOWRAP(wq_tail); QM_NOWRAP(CNT(q));                             /* ghost positions and the count never wrap */
    cv_i64 c0 = CNT(q), wh0 = wq_head, wt0 = wq_tail;
    unsigned op = nondet_unsigned();
    if (op == 0) {                                                      /* ---------------- push() = release */
      qv_push(&sp, q);
      n_push++;
      if (wh0 < wt0) {
        n_handed++;
        __CPROVER_assert(gh_pr.n == 1 && gh_pr.kind[0] == PR_VALUE && gh_pr.locked[0] == 0 && CNT(q) == c0, "LEMMA release/handed: exactly one waiting acquire is completed, the count is untouched");
        if (w1.st == W_WAITING && w1.pos == wh0) { __CPROVER_assert(!w1.al || gh_pr.id[0] == (void *)&pf_1, "LEMMA release/handed: the receiver is the oldest waiting acquire (w1)"); w1.st = W_SERVED;
          __CPROVER_assert(0, "SENTINEL reachable: waiting acquire w1 served"); }
        if (w2.st == W_WAITING && w2.pos == wh0) { __CPROVER_assert(!w2.al || gh_pr.id[0] == (void *)&pf_2, "LEMMA release/handed: the receiver is the oldest waiting acquire (w2)");
          __CPROVER_assert(w1.st != W_WAITING, "LEMMA order: waiting acquires are served in arrival order"); w2.st = W_SERVED;
          __CPROVER_assert(0, "SENTINEL reachable: waiting acquire w2 served"); }
      } else {
        n_counted++;
        __CPROVER_assert(gh_pr.n == 0 && CNT(q) == c0 + 1, "LEMMA release/counted: count + 1, nobody resolved");
        __CPROVER_assert(0, "SENTINEL reachable: release counted");
      }
    } else if (op == 1) {                                               /* ---------------- pop() = acquire */
      int tag_1 = (w1.st == W_NOT && nondet_bool());
      int tag_2 = (!tag_1 && w1.st != W_NOT && w2.st == W_NOT && nondet_bool());
      FUTV *r = tag_1 ? &pf_1 : (tag_2 ? &pf_2 : &pf_o);
      qv_pop(r, q);
      n_pop++;
      struct q_wtag w = {W_NOT, 0, 0};
      if (c0 > 0) {
        n_acq++;
        __CPROVER_assert(gh_pr.n == 1 && gh_pr.id[0] == (void *)r && gh_pr.kind[0] == PR_VALUE && CNT(q) == c0 - 1 && wq_tail == wt0, "LEMMA acquire: count - 1 and exactly this acquire completes");
        w.st = W_GOT_ITEM;
        __CPROVER_assert(0, "SENTINEL reachable: acquire served at once");
      } else {
        n_parked++;
        __CPROVER_assert(gh_pr.n == 0 && FUT_PENDING(r) && CNT(q) == 0 && wq_tail == wt0 + 1, "LEMMA acquire/zero: the acquire waits, the count stays 0");
        w.st = W_WAITING; w.pos = wt0; w.al = (gh_WK == wt0);
        __CPROVER_assert(0, "SENTINEL reachable: acquire parked");
      }
      if (tag_1) w1 = w;
      if (tag_2) { w2 = w; __CPROVER_assert(!(w.st == W_GOT_ITEM) || w1.st != W_WAITING, "LEMMA order: a later acquire is served at once only when no earlier acquire is still waiting"); }
    } else if (op == 2) {                                               /* ---------------- unblock_pop(e) */
      cv_i8 *e0 = (cv_i8 *)nondet_size_t(); e._M_exception_object = e0;
      qv_unblock_pop(&sp, q, &e);
      if (wh0 < wt0) {
        n_failed++;
        __CPROVER_assert(gh_pr.n == 1 && gh_pr.kind[0] == PR_EXC && gh_pr.exc[0] == (void *)e0 && gh_pr.locked[0] == 0, "LEMMA unblock_pop: exactly one waiting acquire fails, with exactly e");
        if (w1.st == W_WAITING && w1.pos == wh0) { __CPROVER_assert(!w1.al || gh_pr.id[0] == (void *)&pf_1, "LEMMA unblock_pop: the failed acquire is the oldest waiting one (w1)"); w1.st = W_FAILED;
          __CPROVER_assert(0, "SENTINEL reachable: waiting acquire w1 failed"); }
        if (w2.st == W_WAITING && w2.pos == wh0) { __CPROVER_assert(!w2.al || gh_pr.id[0] == (void *)&pf_2, "LEMMA unblock_pop: the failed acquire is the oldest waiting one (w2)");
          __CPROVER_assert(w1.st != W_WAITING, "LEMMA order: unblock_pop fails the OLDEST waiting acquire"); w2.st = W_FAILED;
          __CPROVER_assert(0, "SENTINEL reachable: waiting acquire w2 failed"); }
      } else {
        __CPROVER_assert(gh_pr.n == 0 && sp.value == 0, "LEMMA unblock_pop: nothing happens when nobody waits");
      }
      __CPROVER_assert(CNT(q) == c0, "LEMMA unblock_pop: the count is untouched");
    } else if (op == 3) {
      cv_i64 s = qv_size(q);
      __CPROVER_assert(s == CNT(q) && CNT(q) == c0, "LEMMA size = count");
    } else {
      cv_i1 em = qv_empty(q);
      __CPROVER_assert((em != 0) == (CNT(q) == 0) && CNT(q) == c0, "LEMMA empty");
    }
  }
  __CPROVER_assert(0, "SENTINEL reachable: after the history loop");
}
void h_qv_lemma(void) { qv_lemma(); __CPROVER_assert(0, "SENTINEL reachable"); }
#endif

#ifdef CV_QV_CONSERVATION
void h_qv_conservation(void) {
  QV q_obj; QV *q = &q_obj;
  cv_i64 n_push = nondet_size_t(), n_pop = nondet_size_t(), n_handed = nondet_size_t(), n_counted = nondet_size_t(), n_acq = nondet_size_t(), n_parked = nondet_size_t(), n_failed = nondet_size_t();
  CNT(q) = nondet_size_t(); wq_head = nondet_size_t(); wq_tail = nondet_size_t();
  if (QV_COUNT_INV(q)) {
    __CPROVER_assert(n_push == n_handed + n_acq + CNT(q), "LEMMA conservation (semaphore): every release was consumed by exactly one acquire (waiting or later) or is still in the count");
    __CPROVER_assert(n_pop == n_acq + n_handed + n_failed + WQ_LEN, "LEMMA conservation (acquires): every acquire was served exactly once, failed exactly once, or is still waiting");
    __CPROVER_assert(0, "SENTINEL reachable");
  }
}
#endif
