# C09 - Awaitable queue: each item delivered exactly once, in order
QIT = 'cocls::queue<int, cocls::primitives::std_queue, cocls::primitives::std_queue, std::mutex>'
QVT = 'cocls::queue<void, cocls::primitives::std_queue, cocls::primitives::std_queue, std::mutex>'
def stdq(t): return 'std::queue<%s, std::deque<%s, std::allocator<%s > > >' % (t, t, t)
COMMON_T = {'SPB': 'cocls::suspend_point<bool>', 'EXCP': 'std::__exception_ptr::exception_ptr'}
QI_TYPES = dict(COMMON_T, QI=QIT, PRI='cocls::promise<int>', FUTI='cocls::future<int>', IQ_T=stdq('int').replace('<int >', '<int>'), WQI_T=stdq('cocls::promise<int>'))
QV_TYPES = dict(COMMON_T, QV=QVT, PRV='cocls::promise<void>', FUTV='cocls::future<void>', WQV_T=stdq('cocls::promise<void>'), SQV='cocls::primitives::std_queue<void>')
GLOBALS = {'AW_DISABLED': '_ZN5cocls7awaiter8disabledE'}
LIBS = ['rt_core.c', 'rt_atomic_seq.c', 'model_mutex.c', 'model_awq_promise.c', 'model_awq_containers.c']
# boundary: the std containers (assumed FIFO models), every promise<T> operation and the resumption carried by suspend_point<bool>
BOUNDARY = [r'^(decltype\(auto\) )?std::queue<', r'^(cocls::suspend_point<bool> )?cocls::promise<(int|void)>::', r'^cocls::suspend_point<bool>::~suspend_point\(\)$']
QI_DEF = ['CV_MODEL_PROMISE_INT 1', 'CV_MODEL_IQ 1', 'CV_MODEL_WQ_INT 1']
QV_DEF = ['CV_MODEL_PROMISE_VOID 1', 'CV_MODEL_WQ_VOID 1', 'SQV_VALID(p) __CPROVER_rw_ok(p,sizeof(*(p)))']
SPEC = ['C09/q_spec.h', 'C09/h_q.c']
def rx(cls, member): return '^' + cls.replace('(', r'\(').replace(')', r'\)').replace('*', r'\*') + '::' + member + '$'
SQV_RX = {n: r'^cocls::primitives::std_queue<void>::%s\(\)( const)?$' % n for n in ('emplace', 'pop', 'size', 'empty')}

def qi(name, member, **kw):
    r = member if member.startswith('^') else rx(QIT, member)
    d = dict(name='qi_' + name, driver='c09_queue.cpp', roots=[r], names={'qi_' + name: r}, types=QI_TYPES, globals=GLOBALS, boundary=BOUNDARY, lib=LIBS,
             spec=SPEC, harness='h_qi_' + name, enforce='qi_' + name, defines=QI_DEF, under_contract=[QIT.replace(', cocls::primitives::std_queue, cocls::primitives::std_queue, std::mutex', '') + '::' + name])
    d.update(kw); return d
def qv(name, member, sqv=(), **kw):
    r = member if member.startswith('^') else rx(QVT, member)
    names = {'qv_' + name: r}; names.update({'sqv_' + s: SQV_RX[s] for s in sqv})
    # the replaced std_queue<void> members are roots too: they stay in the unit (alias resolvable) even if an edit stops calling them -> a postcondition fails, not the extraction
    d = dict(name='qv_' + name, driver='c09_queue.cpp', roots=[r] + [SQV_RX[s] for s in sqv], names=names, types=QV_TYPES, globals=GLOBALS, boundary=BOUNDARY + [SQV_RX[s] for s in sqv], lib=LIBS,
             spec=SPEC, harness='h_qv_' + name, enforce='qv_' + name, replace=['sqv_' + s for s in sqv], defines=QV_DEF,
             under_contract=['cocls::queue<void>::' + name])
    d.update(kw); return d
def sqv(name):
    return dict(name='sqv_' + name, driver='c09_queue.cpp', roots=[SQV_RX[name]], names={'sqv_' + name: SQV_RX[name]}, types={'SQV': 'cocls::primitives::std_queue<void>'},
                lib=['rt_core.c', 'rt_atomic_seq.c', 'model_mutex.c'], defines=['gh_q_lock_required 0', 'gh_q_mx 0'],
                spec=SPEC, harness='h_sqv_' + name, enforce='sqv_' + name, under_contract=['cocls::primitives::std_queue<void>::' + name])

QI_RX = {'ctor': rx(QIT, r'queue\(\)'), 'push': r'^cocls::suspend_point<bool> cocls::queue<int, .*>::push<int>\(int&&\)$', 'pop': rx(QIT, r'pop\(\)'),
         'unblock_pop': rx(QIT, r'unblock_pop\(std::__exception_ptr::exception_ptr\)'), 'size': rx(QIT, r'size\(\)'), 'empty': rx(QIT, r'empty\(\)'), 'dtor': rx(QIT, r'~queue\(\)')}
QV_RX = {'ctor': rx(QVT, r'queue\(\)'), 'push': r'^cocls::suspend_point<bool> cocls::queue<void, .*>::push<>\(\)$', 'pop': rx(QVT, r'pop\(\)'),
         'unblock_pop': rx(QVT, r'unblock_pop\(std::__exception_ptr::exception_ptr\)'), 'size': rx(QVT, r'size\(\)'), 'empty': rx(QVT, r'empty\(\)'), 'dtor': rx(QVT, r'~queue\(\)')}
QV_SQV = {'push': ['emplace'], 'pop': ['empty', 'pop'], 'size': ['size'], 'empty': ['empty']}
OPS = ['ctor', 'push', 'pop', 'unblock_pop', 'size', 'empty']
LEMMA_SPEC = ['C09/q_spec.h', 'C09/h_lemma.c']
def lemma(pfx, RXS, types, defs, what):
    return dict(name=pfx + '_lemma', kind='lemma', driver='c09_queue.cpp', roots=[RXS[n] for n in OPS], names={pfx + '_' + n: RXS[n] for n in OPS}, types=types, globals=GLOBALS,
                boundary=BOUNDARY, lib=LIBS, spec=LEMMA_SPEC, harness='h_%s_lemma' % pfx, enforce=pfx + '_lemma', replace=[pfx + '_' + n for n in OPS], loop_contracts=True,
                defines=defs + ['CV_HAS_%s_lemma 1' % pfx], timeout=600, object_bits=10, under_contract=['history lemma over the contracts of %s (ctor, push, pop, unblock_pop, size, empty)' % what])
def conservation(pfx, RXS, types, defs):
    # pure linear arithmetic over the counting invariant of the history lemma (SMT back end: 64-bit multi-term sums are hopeless for SAT)
    return dict(name=pfx + '_conservation', kind='lemma', driver='c09_queue.cpp', roots=[RXS['size']], names={}, types=types, globals=GLOBALS, boundary=BOUNDARY, lib=LIBS, spec=LEMMA_SPEC,
                harness='h_%s_conservation' % pfx, defines=defs + ['CV_%s_CONSERVATION 1' % pfx.upper()], solver_flag='--z3', solver='smt2 (z3 4.8) - solver-specific',
                under_contract=['arithmetic consequence of the counting invariant of %s_lemma' % pfx])
UNITS = [sqv(n) for n in ('emplace', 'pop', 'size', 'empty')] + \
        [qi(n, QI_RX[n]) for n in ('ctor', 'push', 'pop', 'unblock_pop', 'size', 'empty', 'dtor')] + \
        [qv(n, QV_RX[n], sqv=QV_SQV.get(n, ())) for n in ('ctor', 'push', 'pop', 'unblock_pop', 'size', 'empty', 'dtor')] + \
        [lemma('qi', QI_RX, QI_TYPES, QI_DEF, 'cocls::queue<int>'), conservation('qi', QI_RX, QI_TYPES, QI_DEF),
         lemma('qv', QV_RX, QV_TYPES, QV_DEF, 'cocls::queue<void>'), conservation('qv', QV_RX, QV_TYPES, QV_DEF)]
# ---- move-only payload (drivers/c09_mo_item.h): queue<mo_item>, containers / promise<mo_item> of lib/model_awq_mo.c run the REAL special members of the item
QMT = 'cocls::queue<mo_item, cocls::primitives::std_queue, cocls::primitives::std_queue, std::mutex>'
QM_TYPES = dict(COMMON_T, QM=QMT, MO='mo_item', PRM='cocls::promise<mo_item>', FUTM='cocls::future<mo_item>', MQ_T=stdq('mo_item').replace('<mo_item >', '<mo_item>'), WQM_T=stdq('cocls::promise<mo_item>'))
QM_GLOBALS = dict(GLOBALS, MO_LIVE='_ZN7mo_item4liveE', MO_DEAD='_ZN7mo_item11dead_valuedE', MO_DEAD_TAG='_ZN7mo_item13last_dead_tagE')
QM_BOUNDARY = [r'^(decltype\(auto\) )?std::queue<', r'^(cocls::suspend_point<bool> )?cocls::promise<mo_item>::', r'^cocls::suspend_point<bool>::~suspend_point\(\)$']
MO_ROOTS = [r'^mo_item::mo_item\(mo_item&&\)$', r'^mo_item::~mo_item\(\)$']
QM_RX = {'push': r'^cocls::suspend_point<bool> cocls::queue<mo_item, .*>::push<mo_item>\(mo_item&&\)$', 'pop': rx(QMT, r'pop\(\)'), 'dtor': rx(QMT, r'~queue\(\)')}
def qm(name, **kw):
    r = QM_RX[name]
    d = dict(name='qm_' + name, driver='c09_queue_mo.cpp', roots=[r] + MO_ROOTS, names={'qm_' + name: r}, types=QM_TYPES, globals=QM_GLOBALS, boundary=QM_BOUNDARY,
             lib=LIBS + ['model_awq_mo.c'], spec=['C09/q_spec.h', 'C09/qm_spec.h', 'C09/h_qm.c'], harness='h_qm_' + name, enforce='qm_' + name, defines=['CV_MODEL_MO 1'],
             under_contract=['cocls::queue<mo_item>::' + name + ' (move-only item: object identity, moved-from state, live-instance conservation)'])
    d.update(kw); return d
UNITS += [qm('push'), qm('pop'), qm('dtor')]
# ---- item type whose constructor MAY THROW (drivers/c09_thr_item.h): queue<thr_item>::push<int>(int&&) (emplace-style push); containers / promise<thr_item> of lib/model_awq_thr.c run the REAL constructor
QTT = 'cocls::queue<thr_item, cocls::primitives::std_queue, cocls::primitives::std_queue, std::mutex>'
QT_TYPES = dict(COMMON_T, QT=QTT, THR='thr_item', PRT='cocls::promise<thr_item>', FUTT='cocls::future<thr_item>', TQ_T=stdq('thr_item').replace('<thr_item >', '<thr_item>'), WQT_T=stdq('cocls::promise<thr_item>'))
QT_GLOBALS = dict(GLOBALS, THR_FAIL='_ZN8thr_item4failE', THR_BUILT='_ZN8thr_item5builtE', THR_TI='_ZTI9thr_error')
QT_BOUNDARY = [r'^(decltype\(auto\) )?std::queue<', r'^(cocls::suspend_point<bool> )?cocls::promise<thr_item>::', r'^cocls::suspend_point<bool>::~suspend_point\(\)$']
QT_PUSH_RX = r'^cocls::suspend_point<bool> cocls::queue<thr_item, .*>::push<int>\(int&&\)$'
UNITS += [dict(name='qt_push', driver='c09_queue_thr.cpp', roots=[QT_PUSH_RX, r'^thr_item::thr_item\(int\)$'], names={'qt_push': QT_PUSH_RX}, types=QT_TYPES, globals=QT_GLOBALS, boundary=QT_BOUNDARY,
               lib=LIBS + ['model_awq_thr.c'], spec=['C09/q_spec.h', 'C09/qt_spec.h', 'C09/h_qt.c'], harness='h_qt_push', enforce='qt_push', defines=['CV_MODEL_THR 1'],
               cbmc_flags=['--sat-solver', 'cadical'], timeout=300,
               under_contract=['cocls::queue<thr_item>::push<int>(int&&) (item constructor may throw: hand-over and store branch, normal and exceptional exit)'])]
META = dict(
    level='proof',
    level_text=('Every public member of cocls::queue<int> and cocls::queue<void> (constructor, push, pop incl. the future-constructor lambda, unblock_pop, size, empty, destructor) and of '
                'primitives::std_queue<void> (emplace, pop, size, empty) is verified on the C translation of the real header against a contract taken from the property statement, for EVERY abstract '
                'state (any number of queued items and waiting pops, any values, any promise identities): push hands exactly the pushed value to exactly the OLDEST waiting pop, once, after the lock '
                'was released, or appends it at the tail of the item sequence; pop delivers exactly the head item or parks itself behind all earlier waiting pops with a pending future; unblock_pop fails '
                'exactly the oldest waiting pop with exactly e (or does nothing, result false); the destructor drops every parked promise exactly once and resolves nobody; queue<void> counts '
                '(pop on count 0 never wraps). History lemmas over these contracts (every call replaced by its contract, UNBOUNDED loop with invariant, two tagged items, two tagged pops, event counters) '
                'prove: each pushed item is delivered to exactly one pop (never lost / duplicated; conservation pushes == handed + delivered + |Q|), delivery order == push order, waiting pops are served '
                'in arrival order, a waiting pop leaves the wait queue only by a push, by unblock_pop (oldest first) or by destruction, and for queue<void> releases == handed + acquired + count. '
                'MOVE-ONLY ITEMS (units qm_push / qm_pop / qm_dtor on cocls::queue<mo_item>, mo_item = drivers/c09_mo_item.h: deleted copy, int tag, per-object moved-from count, global counters of live instances '
                'and of instances destroyed while still carrying their value; its REAL move constructor / destructor are translated and run by the code under contract and by the container / promise models): in addition '
                'to the clauses above, the object that reaches the consumer (hand-over) or the item sequence (stored) carries the pushed tag and is not moved-from, the pushed object is moved from exactly once, '
                'live instances are conserved (push + 1, pop + 0 on both paths), no instance that still carries its value is destroyed by push or pop, and ~queue() with items inside destroys exactly those items '
                '(live - |Q|: none leaked). The same per-operation balances are confirmed on the real std::queue / future code by replay/c09_mo_queue.cpp (g++, ASan/UBSan). '
                'THROWING ITEM CONSTRUCTOR (unit qt_push on cocls::queue<thr_item>::push<int>(int&&), the emplace-style push; thr_item = drivers/c09_thr_item.h, its REAL constructor from int throws thr_error when the nondet input '
                'thr_item::fail is set and is run by the container / promise models at the place where the real std::deque / future would construct the item): for every abstract state and whether push RETURNS OR THROWS, the waiting pops '
                'that remain are exactly the previous ones minus at most the OLDEST in unchanged order, push never (re-)inserts a waiter, nothing is stored while a pop waits, one critical section; a waiter taken out of the wait queue is completed '
                'exactly once outside the lock - with the item, or with the constructor\'s exception (never dropped, never left pending; a push that leaves the waiters untouched and reports to the producer is admitted too); with nobody waiting the item '
                'is appended with the pushed tag, or thr_error reaches the producer and both sequences are unchanged.'),
    level_note=('Sequential contracts per critical section: "every interleaving of producers and consumers" is reduced to "every sequential history of critical sections" by lock-based linearisability - '
                'machine-checked part: every access to the item / waiter containers (and to the std_queue<void> counter) happens while the queue mutex is held, nothing guarded is read before lock() or after '
                'unlock(), exactly one critical section per operation, parked promises are resolved and coroutines resumed only after unlock; argued part: the promise resolved outside the lock is a local '
                'object that was moved out of the wait queue under the lock, so no other thread can reach it. No real threads are run (the "up to 3 producer and 3 consumer threads" of the statement is '
                'covered by this reduction, not by scheduling). promise<T>/future<T> are ABSTRACT: a resolution is a log entry (which promise, value / exception / dropped, how often, under the lock or not); '
                'that a dropped promise surfaces as await_canceled_exception and that a resolved future wakes its awaiter are C01/C02, not re-proved here. T=int, T=void and the move-only T=mo_item (push, pop, destructor; '
                'constructor, unblock_pop, size, empty do not touch items and are verified for int only; the history lemmas are over the int contracts) with the default '
                'std_queue/std::mutex policies are instantiated; single_item_queue and no_lock are not covered. For mo_item the value inside the consumer\'s future is the model object gh_mo.deliv (move-constructed once from the '
                'argument of promise::operator() by the real move constructor); what future<mo_item> later does with it (value(), ~future) is C01/C18 territory. Conservation sums are derived from the lockstep counting invariant by a separate '
                'arithmetic lemma that needs an SMT back end (z3) - solver-specific. '
                'For thr_item only push<int>(int&&) is instantiated (pop / unblock_pop / destructor do not construct items); promise<thr_item>::operator()(int&&) is a MODEL that mirrors the real promise::set_value (claim, construct the value, '
                'catch a throwing constructor and resolve the claimed future with that exception, result true) - that the real set_value / future::set behave so is C01 territory and is not re-proved in this unit; the exception object is an opaque '
                'identity (its tag is read once when caught).'),
    technique=('CBMC 6.11 code contracts (requires/ensures/assigns) enforced per function with goto-instrument --dfcc on the C translation (ir2c) of the clang IR of the real queue.h; std containers and '
               'promise operations as assumed-contract boundary models with a ghost-index element view; history lemmas = loop contracts over replaced contracts; z3 for pure linear arithmetic'),
    trusted_base=['assumed contract: std::queue<int>, std::queue<promise<T>> are unbounded FIFOs; front()/pop() need a non-empty queue; emplace moves the promise in; pop()/~queue() destroy elements (lib/model_awq_containers.c)',
                  'abstract boundary: cocls::promise<T> move/construct/operator()/set_exception/destructor and suspend_point<bool>::~suspend_point as ghost-logging stubs (lib/model_awq_promise.c); future.h internals not translated',
                  'assumed contract (move-only units): std::queue<mo_item> / std::queue<promise<mo_item>> FIFOs whose emplace/push move-CONSTRUCT the element with the real mo_item move constructor, whose pop() runs the real destructor on the front element and whose ~queue() destroys every remaining element; promise<mo_item>::operator()(mo_item&&) move-constructs the future\'s value exactly once; untracked elements materialise as objects that carry some value - justified by the obligation that no moved-from object is ever put in (lib/model_awq_mo.c)',
                  'assumed contract (throwing-constructor unit): std::queue<thr_item>::emplace<int> constructs the element in place with the real thr_item(int) and leaves the container unchanged when it throws (strong guarantee of deque::emplace_back); std::queue<promise<thr_item>> FIFO as above, insertions counted; promise<thr_item>::operator()(int&&) = claim + real constructor + on exception resolve the future with it (mirror of promise::set_value after repo fix d66c8bf), promise<thr_item>::operator()(thr_item&&) copies the value (lib/model_awq_thr.c)',
                  'primitive: std::mutex via pthread_mutex_lock/unlock with lock-discipline obligations (lib/model_mutex.c)',
                  'rely/guarantee reduction of interleavings to sequential histories of critical sections (argued, DESIGN 3.5)'],
    assumptions=['ghost positions / event counters are mathematical integers (never wrap: fewer than 2^62 operations); queue<void> count < 2^62',
                 'std::queue operations do not throw (bad_alloc assumed away) except by the item constructor in the thr_item unit; pthread_mutex_lock never fails',
                 'the std::exception_ptr passed to unblock_pop is an opaque object pointer (identity only); its reference traffic is counted: +1 exactly when a waiting pop received it',
                 'history lemmas start at the constructor and then continue from an arbitrary state satisfying the invariant; value/identity claims about a tagged element are made for the valuation of the ghost positions that coincides with the positions the element takes (universally quantified ghost index)'],
    explanation='see level_text')
