# C09 - Awaitable queue: each item delivered exactly once, in order
QIT = 'cocls::queue<int, cocls::primitives::std_queue, cocls::primitives::std_queue, std::mutex>'
QVT = 'cocls::queue<void, cocls::primitives::std_queue, cocls::primitives::std_queue, std::mutex>'
def stdq(t): return 'std::queue<%s, std::deque<%s, std::allocator<%s > > >' % (t, t, t)
COMMON_T = {'SPB': 'cocls::suspend_point<bool>', 'EXCP': 'std::__exception_ptr::exception_ptr'}
QI_TYPES = dict(COMMON_T, QI=QIT, PRI='cocls::promise<int>', FUTI='cocls::future<int>', IQ_T=stdq('int').replace('<int >', '<int>'), WQI_T=stdq('cocls::promise<int>'))
QV_TYPES = dict(COMMON_T, QV=QVT, PRV='cocls::promise<void>', FUTV='cocls::future<void>', WQV_T=stdq('cocls::promise<void>'), SQV='cocls::primitives::std_queue<void>')
GLOBALS = {'AW_DISABLED': '_ZN5cocls7awaiter8disabledE'}
LIBS = ['rt_core.c', 'rt_atomic_seq.c', 'model_mutex.c', 'model_awq_promise.c', 'model_awq_containers.c']
# boundary: the std containers (assumed FIFO models), every promise<T> operation and the resumption carried by suspend_point<bool>
BOUNDARY = [r'^(decltype\(auto\) )?std::queue<', r'^(cocls::suspend_point<bool> )?cocls::promise<(int|void)>::', r'^cocls::suspend_point<bool>::~suspend_point\(\)$']
QI_DEF = ['CV_MODEL_PROMISE_INT 1', 'CV_MODEL_IQ 1', 'CV_MODEL_WQ_INT 1']
QV_DEF = ['CV_MODEL_PROMISE_VOID 1', 'CV_MODEL_WQ_VOID 1', 'SQV_VALID(p) __CPROVER_rw_ok(p,sizeof(*(p)))']
SPEC = ['C09/q_spec.h', 'C09/h_q.c']
def rx(cls, member): return '^' + cls.replace('(', r'\(').replace(')', r'\)').replace('*', r'\*') + '::' + member + '$'
SQV_RX = {n: r'^cocls::primitives::std_queue<void>::%s\(\)( const)?$' % n for n in ('emplace', 'pop', 'size', 'empty')}

def qi(name, member, **kw):
    r = member if member.startswith('^') else rx(QIT, member)
    d = dict(name='qi_' + name, driver='c09_queue.cpp', roots=[r], names={'qi_' + name: r}, types=QI_TYPES, globals=GLOBALS, boundary=BOUNDARY, lib=LIBS,
             spec=SPEC, harness='h_qi_' + name, enforce='qi_' + name, defines=QI_DEF, under_contract=[QIT.replace(', cocls::primitives::std_queue, cocls::primitives::std_queue, std::mutex', '') + '::' + name])
    d.update(kw); return d
def qv(name, member, sqv=(), **kw):
    r = member if member.startswith('^') else rx(QVT, member)
    names = {'qv_' + name: r}; names.update({'sqv_' + s: SQV_RX[s] for s in sqv})
    d = dict(name='qv_' + name, driver='c09_queue.cpp', roots=[r], names=names, types=QV_TYPES, globals=GLOBALS, boundary=BOUNDARY + [SQV_RX[s] for s in sqv], lib=LIBS,
             spec=SPEC, harness='h_qv_' + name, enforce='qv_' + name, replace=['sqv_' + s for s in sqv], defines=QV_DEF,
             under_contract=['cocls::queue<void>::' + name])
    d.update(kw); return d
def sqv(name):
    return dict(name='sqv_' + name, driver='c09_queue.cpp', roots=[SQV_RX[name]], names={'sqv_' + name: SQV_RX[name]}, types={'SQV': 'cocls::primitives::std_queue<void>'},
                lib=['rt_core.c', 'rt_atomic_seq.c', 'model_mutex.c'], defines=['gh_q_lock_required 0', 'gh_q_mx 0'],
                spec=SPEC, harness='h_sqv_' + name, enforce='sqv_' + name, under_contract=['cocls::primitives::std_queue<void>::' + name])

UNITS = [
    sqv('emplace'), sqv('pop'), sqv('size'), sqv('empty'),
    qi('ctor', r'queue\(\)'),
    qi('push', r'^cocls::suspend_point<bool> cocls::queue<int, .*>::push<int>\(int&&\)$'),
    qi('pop', r'pop\(\)'),
    qi('unblock_pop', r'unblock_pop\(std::__exception_ptr::exception_ptr\)'),
    qi('size', r'size\(\)'),
    qi('empty', r'empty\(\)'),
    qi('dtor', r'~queue\(\)'),
    qv('ctor', r'queue\(\)'),
    qv('push', r'^cocls::suspend_point<bool> cocls::queue<void, .*>::push<>\(\)$', sqv=['emplace']),
    qv('pop', r'pop\(\)', sqv=['empty', 'pop']),
    qv('unblock_pop', r'unblock_pop\(std::__exception_ptr::exception_ptr\)'),
    qv('size', r'size\(\)', sqv=['size']),
    qv('empty', r'empty\(\)', sqv=['empty']),
    qv('dtor', r'~queue\(\)'),
]
META = dict(level='proof', level_text='TODO', level_note='TODO', technique='TODO', trusted_base=[], assumptions=[], explanation='')
